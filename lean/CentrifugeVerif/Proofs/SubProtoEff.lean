import CentrifugeVerif.Model.SubProto
/-!
Generated-style projection lemmas: which state fields each primitive effect leaves untouched, and the
value of the fields it changes.  All are `simp` lemmas so that `applyEffs` over a concrete effect list
can be evaluated field by field.
-/
namespace CentrifugeVerif.SubProto

@[simp] theorem applyEffs_nil (s : State) : applyEffs s [] = s := rfl
@[simp] theorem applyEffs_cons (s : State) (e : Eff) (es : List Eff) : applyEffs s (e :: es) = applyEffs (applyEff s e) es := rfl
@[simp] theorem applyEffs_append (s : State) (a b : List Eff) : applyEffs s (a ++ b) = applyEffs (applyEffs s a) b := by
  simp [applyEffs, List.foldl_append]

@[simp] theorem applyEff_mint_status (s : State) : (applyEff s (Eff.mint)).status = s.status := by
  first | rfl | (simp only [applyEff]; (repeat' split) <;> rfl)
@[simp] theorem applyEff_mint_registered (s : State) : (applyEff s (Eff.mint)).registered = s.registered := by
  first | rfl | (simp only [applyEff]; (repeat' split) <;> rfl)
@[simp] theorem applyEff_mint_connGauge (s : State) : (applyEff s (Eff.mint)).connGauge = s.connGauge := by
  first | rfl | (simp only [applyEff]; (repeat' split) <;> rfl)
@[simp] theorem applyEff_mint_subGauge (s : State) : (applyEff s (Eff.mint)).subGauge = s.subGauge := by
  first | rfl | (simp only [applyEff]; (repeat' split) <;> rfl)
@[simp] theorem applyEff_mint_writerClosed (s : State) : (applyEff s (Eff.mint)).writerClosed = s.writerClosed := by
  first | rfl | (simp only [applyEff]; (repeat' split) <;> rfl)
@[simp] theorem applyEff_mint_connectMu (s : State) : (applyEff s (Eff.mint)).connectMu = s.connectMu := by
  first | rfl | (simp only [applyEff]; (repeat' split) <;> rfl)
@[simp] theorem applyEff_mint_channels (s : State) : (applyEff s (Eff.mint)).channels = s.channels := by
  first | rfl | (simp only [applyEff]; (repeat' split) <;> rfl)
@[simp] theorem applyEff_mint_hub (s : State) : (applyEff s (Eff.mint)).hub = s.hub := by
  first | rfl | (simp only [applyEff]; (repeat' split) <;> rfl)
@[simp] theorem applyEff_mint_presence (s : State) : (applyEff s (Eff.mint)).presence = s.presence := by
  first | rfl | (simp only [applyEff]; (repeat' split) <;> rfl)
@[simp] theorem applyEff_mint_closedGates (s : State) : (applyEff s (Eff.mint)).closedGates = s.closedGates := by
  first | rfl | (simp only [applyEff]; (repeat' split) <;> rfl)
@[simp] theorem applyEff_mint_threads (s : State) : (applyEff s (Eff.mint)).threads = s.threads := by
  first | rfl | (simp only [applyEff]; (repeat' split) <;> rfl)
@[simp] theorem applyEff_mint_nextTid (s : State) : (applyEff s (Eff.mint)).nextTid = s.nextTid := by
  first | rfl | (simp only [applyEff]; (repeat' split) <;> rfl)
@[simp] theorem applyEff_mint_log (s : State) : (applyEff s (Eff.mint)).log = s.log := by
  first | rfl | (simp only [applyEff]; (repeat' split) <;> rfl)
@[simp] theorem applyEff_mint_panicked (s : State) : (applyEff s (Eff.mint)).panicked = s.panicked := by
  first | rfl | (simp only [applyEff]; (repeat' split) <;> rfl)
@[simp] theorem applyEff_chanSet_status (s : State) (ch : Chan) (e : Entry) : (applyEff s (Eff.chanSet ch e)).status = s.status := by
  first | rfl | (simp only [applyEff]; (repeat' split) <;> rfl)
@[simp] theorem applyEff_chanSet_registered (s : State) (ch : Chan) (e : Entry) : (applyEff s (Eff.chanSet ch e)).registered = s.registered := by
  first | rfl | (simp only [applyEff]; (repeat' split) <;> rfl)
@[simp] theorem applyEff_chanSet_connGauge (s : State) (ch : Chan) (e : Entry) : (applyEff s (Eff.chanSet ch e)).connGauge = s.connGauge := by
  first | rfl | (simp only [applyEff]; (repeat' split) <;> rfl)
@[simp] theorem applyEff_chanSet_subGauge (s : State) (ch : Chan) (e : Entry) : (applyEff s (Eff.chanSet ch e)).subGauge = s.subGauge := by
  first | rfl | (simp only [applyEff]; (repeat' split) <;> rfl)
@[simp] theorem applyEff_chanSet_writerClosed (s : State) (ch : Chan) (e : Entry) : (applyEff s (Eff.chanSet ch e)).writerClosed = s.writerClosed := by
  first | rfl | (simp only [applyEff]; (repeat' split) <;> rfl)
@[simp] theorem applyEff_chanSet_connectMu (s : State) (ch : Chan) (e : Entry) : (applyEff s (Eff.chanSet ch e)).connectMu = s.connectMu := by
  first | rfl | (simp only [applyEff]; (repeat' split) <;> rfl)
@[simp] theorem applyEff_chanSet_genCounter (s : State) (ch : Chan) (e : Entry) : (applyEff s (Eff.chanSet ch e)).genCounter = s.genCounter := by
  first | rfl | (simp only [applyEff]; (repeat' split) <;> rfl)
@[simp] theorem applyEff_chanSet_hub (s : State) (ch : Chan) (e : Entry) : (applyEff s (Eff.chanSet ch e)).hub = s.hub := by
  first | rfl | (simp only [applyEff]; (repeat' split) <;> rfl)
@[simp] theorem applyEff_chanSet_presence (s : State) (ch : Chan) (e : Entry) : (applyEff s (Eff.chanSet ch e)).presence = s.presence := by
  first | rfl | (simp only [applyEff]; (repeat' split) <;> rfl)
@[simp] theorem applyEff_chanSet_closedGates (s : State) (ch : Chan) (e : Entry) : (applyEff s (Eff.chanSet ch e)).closedGates = s.closedGates := by
  first | rfl | (simp only [applyEff]; (repeat' split) <;> rfl)
@[simp] theorem applyEff_chanSet_threads (s : State) (ch : Chan) (e : Entry) : (applyEff s (Eff.chanSet ch e)).threads = s.threads := by
  first | rfl | (simp only [applyEff]; (repeat' split) <;> rfl)
@[simp] theorem applyEff_chanSet_nextTid (s : State) (ch : Chan) (e : Entry) : (applyEff s (Eff.chanSet ch e)).nextTid = s.nextTid := by
  first | rfl | (simp only [applyEff]; (repeat' split) <;> rfl)
@[simp] theorem applyEff_chanSet_log (s : State) (ch : Chan) (e : Entry) : (applyEff s (Eff.chanSet ch e)).log = s.log := by
  first | rfl | (simp only [applyEff]; (repeat' split) <;> rfl)
@[simp] theorem applyEff_chanSet_panicked (s : State) (ch : Chan) (e : Entry) : (applyEff s (Eff.chanSet ch e)).panicked = s.panicked := by
  first | rfl | (simp only [applyEff]; (repeat' split) <;> rfl)
@[simp] theorem applyEff_chanDel_status (s : State) (ch : Chan) : (applyEff s (Eff.chanDel ch)).status = s.status := by
  first | rfl | (simp only [applyEff]; (repeat' split) <;> rfl)
@[simp] theorem applyEff_chanDel_registered (s : State) (ch : Chan) : (applyEff s (Eff.chanDel ch)).registered = s.registered := by
  first | rfl | (simp only [applyEff]; (repeat' split) <;> rfl)
@[simp] theorem applyEff_chanDel_connGauge (s : State) (ch : Chan) : (applyEff s (Eff.chanDel ch)).connGauge = s.connGauge := by
  first | rfl | (simp only [applyEff]; (repeat' split) <;> rfl)
@[simp] theorem applyEff_chanDel_subGauge (s : State) (ch : Chan) : (applyEff s (Eff.chanDel ch)).subGauge = s.subGauge := by
  first | rfl | (simp only [applyEff]; (repeat' split) <;> rfl)
@[simp] theorem applyEff_chanDel_writerClosed (s : State) (ch : Chan) : (applyEff s (Eff.chanDel ch)).writerClosed = s.writerClosed := by
  first | rfl | (simp only [applyEff]; (repeat' split) <;> rfl)
@[simp] theorem applyEff_chanDel_connectMu (s : State) (ch : Chan) : (applyEff s (Eff.chanDel ch)).connectMu = s.connectMu := by
  first | rfl | (simp only [applyEff]; (repeat' split) <;> rfl)
@[simp] theorem applyEff_chanDel_genCounter (s : State) (ch : Chan) : (applyEff s (Eff.chanDel ch)).genCounter = s.genCounter := by
  first | rfl | (simp only [applyEff]; (repeat' split) <;> rfl)
@[simp] theorem applyEff_chanDel_hub (s : State) (ch : Chan) : (applyEff s (Eff.chanDel ch)).hub = s.hub := by
  first | rfl | (simp only [applyEff]; (repeat' split) <;> rfl)
@[simp] theorem applyEff_chanDel_presence (s : State) (ch : Chan) : (applyEff s (Eff.chanDel ch)).presence = s.presence := by
  first | rfl | (simp only [applyEff]; (repeat' split) <;> rfl)
@[simp] theorem applyEff_chanDel_closedGates (s : State) (ch : Chan) : (applyEff s (Eff.chanDel ch)).closedGates = s.closedGates := by
  first | rfl | (simp only [applyEff]; (repeat' split) <;> rfl)
@[simp] theorem applyEff_chanDel_threads (s : State) (ch : Chan) : (applyEff s (Eff.chanDel ch)).threads = s.threads := by
  first | rfl | (simp only [applyEff]; (repeat' split) <;> rfl)
@[simp] theorem applyEff_chanDel_nextTid (s : State) (ch : Chan) : (applyEff s (Eff.chanDel ch)).nextTid = s.nextTid := by
  first | rfl | (simp only [applyEff]; (repeat' split) <;> rfl)
@[simp] theorem applyEff_chanDel_log (s : State) (ch : Chan) : (applyEff s (Eff.chanDel ch)).log = s.log := by
  first | rfl | (simp only [applyEff]; (repeat' split) <;> rfl)
@[simp] theorem applyEff_chanDel_panicked (s : State) (ch : Chan) : (applyEff s (Eff.chanDel ch)).panicked = s.panicked := by
  first | rfl | (simp only [applyEff]; (repeat' split) <;> rfl)
@[simp] theorem applyEff_hubSet_status (s : State) (ch : Chan) (g : Gen) : (applyEff s (Eff.hubSet ch g)).status = s.status := by
  first | rfl | (simp only [applyEff]; (repeat' split) <;> rfl)
@[simp] theorem applyEff_hubSet_registered (s : State) (ch : Chan) (g : Gen) : (applyEff s (Eff.hubSet ch g)).registered = s.registered := by
  first | rfl | (simp only [applyEff]; (repeat' split) <;> rfl)
@[simp] theorem applyEff_hubSet_connGauge (s : State) (ch : Chan) (g : Gen) : (applyEff s (Eff.hubSet ch g)).connGauge = s.connGauge := by
  first | rfl | (simp only [applyEff]; (repeat' split) <;> rfl)
@[simp] theorem applyEff_hubSet_writerClosed (s : State) (ch : Chan) (g : Gen) : (applyEff s (Eff.hubSet ch g)).writerClosed = s.writerClosed := by
  first | rfl | (simp only [applyEff]; (repeat' split) <;> rfl)
@[simp] theorem applyEff_hubSet_connectMu (s : State) (ch : Chan) (g : Gen) : (applyEff s (Eff.hubSet ch g)).connectMu = s.connectMu := by
  first | rfl | (simp only [applyEff]; (repeat' split) <;> rfl)
@[simp] theorem applyEff_hubSet_genCounter (s : State) (ch : Chan) (g : Gen) : (applyEff s (Eff.hubSet ch g)).genCounter = s.genCounter := by
  first | rfl | (simp only [applyEff]; (repeat' split) <;> rfl)
@[simp] theorem applyEff_hubSet_channels (s : State) (ch : Chan) (g : Gen) : (applyEff s (Eff.hubSet ch g)).channels = s.channels := by
  first | rfl | (simp only [applyEff]; (repeat' split) <;> rfl)
@[simp] theorem applyEff_hubSet_presence (s : State) (ch : Chan) (g : Gen) : (applyEff s (Eff.hubSet ch g)).presence = s.presence := by
  first | rfl | (simp only [applyEff]; (repeat' split) <;> rfl)
@[simp] theorem applyEff_hubSet_closedGates (s : State) (ch : Chan) (g : Gen) : (applyEff s (Eff.hubSet ch g)).closedGates = s.closedGates := by
  first | rfl | (simp only [applyEff]; (repeat' split) <;> rfl)
@[simp] theorem applyEff_hubSet_threads (s : State) (ch : Chan) (g : Gen) : (applyEff s (Eff.hubSet ch g)).threads = s.threads := by
  first | rfl | (simp only [applyEff]; (repeat' split) <;> rfl)
@[simp] theorem applyEff_hubSet_nextTid (s : State) (ch : Chan) (g : Gen) : (applyEff s (Eff.hubSet ch g)).nextTid = s.nextTid := by
  first | rfl | (simp only [applyEff]; (repeat' split) <;> rfl)
@[simp] theorem applyEff_hubSet_log (s : State) (ch : Chan) (g : Gen) : (applyEff s (Eff.hubSet ch g)).log = s.log := by
  first | rfl | (simp only [applyEff]; (repeat' split) <;> rfl)
@[simp] theorem applyEff_hubSet_panicked (s : State) (ch : Chan) (g : Gen) : (applyEff s (Eff.hubSet ch g)).panicked = s.panicked := by
  first | rfl | (simp only [applyEff]; (repeat' split) <;> rfl)
@[simp] theorem applyEff_hubDelIf_status (s : State) (ch : Chan) (g : Gen) : (applyEff s (Eff.hubDelIf ch g)).status = s.status := by
  first | rfl | (simp only [applyEff]; (repeat' split) <;> rfl)
@[simp] theorem applyEff_hubDelIf_registered (s : State) (ch : Chan) (g : Gen) : (applyEff s (Eff.hubDelIf ch g)).registered = s.registered := by
  first | rfl | (simp only [applyEff]; (repeat' split) <;> rfl)
@[simp] theorem applyEff_hubDelIf_connGauge (s : State) (ch : Chan) (g : Gen) : (applyEff s (Eff.hubDelIf ch g)).connGauge = s.connGauge := by
  first | rfl | (simp only [applyEff]; (repeat' split) <;> rfl)
@[simp] theorem applyEff_hubDelIf_writerClosed (s : State) (ch : Chan) (g : Gen) : (applyEff s (Eff.hubDelIf ch g)).writerClosed = s.writerClosed := by
  first | rfl | (simp only [applyEff]; (repeat' split) <;> rfl)
@[simp] theorem applyEff_hubDelIf_connectMu (s : State) (ch : Chan) (g : Gen) : (applyEff s (Eff.hubDelIf ch g)).connectMu = s.connectMu := by
  first | rfl | (simp only [applyEff]; (repeat' split) <;> rfl)
@[simp] theorem applyEff_hubDelIf_genCounter (s : State) (ch : Chan) (g : Gen) : (applyEff s (Eff.hubDelIf ch g)).genCounter = s.genCounter := by
  first | rfl | (simp only [applyEff]; (repeat' split) <;> rfl)
@[simp] theorem applyEff_hubDelIf_channels (s : State) (ch : Chan) (g : Gen) : (applyEff s (Eff.hubDelIf ch g)).channels = s.channels := by
  first | rfl | (simp only [applyEff]; (repeat' split) <;> rfl)
@[simp] theorem applyEff_hubDelIf_presence (s : State) (ch : Chan) (g : Gen) : (applyEff s (Eff.hubDelIf ch g)).presence = s.presence := by
  first | rfl | (simp only [applyEff]; (repeat' split) <;> rfl)
@[simp] theorem applyEff_hubDelIf_closedGates (s : State) (ch : Chan) (g : Gen) : (applyEff s (Eff.hubDelIf ch g)).closedGates = s.closedGates := by
  first | rfl | (simp only [applyEff]; (repeat' split) <;> rfl)
@[simp] theorem applyEff_hubDelIf_threads (s : State) (ch : Chan) (g : Gen) : (applyEff s (Eff.hubDelIf ch g)).threads = s.threads := by
  first | rfl | (simp only [applyEff]; (repeat' split) <;> rfl)
@[simp] theorem applyEff_hubDelIf_nextTid (s : State) (ch : Chan) (g : Gen) : (applyEff s (Eff.hubDelIf ch g)).nextTid = s.nextTid := by
  first | rfl | (simp only [applyEff]; (repeat' split) <;> rfl)
@[simp] theorem applyEff_hubDelIf_log (s : State) (ch : Chan) (g : Gen) : (applyEff s (Eff.hubDelIf ch g)).log = s.log := by
  first | rfl | (simp only [applyEff]; (repeat' split) <;> rfl)
@[simp] theorem applyEff_hubDelIf_panicked (s : State) (ch : Chan) (g : Gen) : (applyEff s (Eff.hubDelIf ch g)).panicked = s.panicked := by
  first | rfl | (simp only [applyEff]; (repeat' split) <;> rfl)
@[simp] theorem applyEff_presAdd_status (s : State) (ch : Chan) : (applyEff s (Eff.presAdd ch)).status = s.status := by
  first | rfl | (simp only [applyEff]; (repeat' split) <;> rfl)
@[simp] theorem applyEff_presAdd_registered (s : State) (ch : Chan) : (applyEff s (Eff.presAdd ch)).registered = s.registered := by
  first | rfl | (simp only [applyEff]; (repeat' split) <;> rfl)
@[simp] theorem applyEff_presAdd_connGauge (s : State) (ch : Chan) : (applyEff s (Eff.presAdd ch)).connGauge = s.connGauge := by
  first | rfl | (simp only [applyEff]; (repeat' split) <;> rfl)
@[simp] theorem applyEff_presAdd_subGauge (s : State) (ch : Chan) : (applyEff s (Eff.presAdd ch)).subGauge = s.subGauge := by
  first | rfl | (simp only [applyEff]; (repeat' split) <;> rfl)
@[simp] theorem applyEff_presAdd_writerClosed (s : State) (ch : Chan) : (applyEff s (Eff.presAdd ch)).writerClosed = s.writerClosed := by
  first | rfl | (simp only [applyEff]; (repeat' split) <;> rfl)
@[simp] theorem applyEff_presAdd_connectMu (s : State) (ch : Chan) : (applyEff s (Eff.presAdd ch)).connectMu = s.connectMu := by
  first | rfl | (simp only [applyEff]; (repeat' split) <;> rfl)
@[simp] theorem applyEff_presAdd_genCounter (s : State) (ch : Chan) : (applyEff s (Eff.presAdd ch)).genCounter = s.genCounter := by
  first | rfl | (simp only [applyEff]; (repeat' split) <;> rfl)
@[simp] theorem applyEff_presAdd_channels (s : State) (ch : Chan) : (applyEff s (Eff.presAdd ch)).channels = s.channels := by
  first | rfl | (simp only [applyEff]; (repeat' split) <;> rfl)
@[simp] theorem applyEff_presAdd_hub (s : State) (ch : Chan) : (applyEff s (Eff.presAdd ch)).hub = s.hub := by
  first | rfl | (simp only [applyEff]; (repeat' split) <;> rfl)
@[simp] theorem applyEff_presAdd_closedGates (s : State) (ch : Chan) : (applyEff s (Eff.presAdd ch)).closedGates = s.closedGates := by
  first | rfl | (simp only [applyEff]; (repeat' split) <;> rfl)
@[simp] theorem applyEff_presAdd_threads (s : State) (ch : Chan) : (applyEff s (Eff.presAdd ch)).threads = s.threads := by
  first | rfl | (simp only [applyEff]; (repeat' split) <;> rfl)
@[simp] theorem applyEff_presAdd_nextTid (s : State) (ch : Chan) : (applyEff s (Eff.presAdd ch)).nextTid = s.nextTid := by
  first | rfl | (simp only [applyEff]; (repeat' split) <;> rfl)
@[simp] theorem applyEff_presAdd_log (s : State) (ch : Chan) : (applyEff s (Eff.presAdd ch)).log = s.log := by
  first | rfl | (simp only [applyEff]; (repeat' split) <;> rfl)
@[simp] theorem applyEff_presAdd_panicked (s : State) (ch : Chan) : (applyEff s (Eff.presAdd ch)).panicked = s.panicked := by
  first | rfl | (simp only [applyEff]; (repeat' split) <;> rfl)
@[simp] theorem applyEff_presDel_status (s : State) (ch : Chan) : (applyEff s (Eff.presDel ch)).status = s.status := by
  first | rfl | (simp only [applyEff]; (repeat' split) <;> rfl)
@[simp] theorem applyEff_presDel_registered (s : State) (ch : Chan) : (applyEff s (Eff.presDel ch)).registered = s.registered := by
  first | rfl | (simp only [applyEff]; (repeat' split) <;> rfl)
@[simp] theorem applyEff_presDel_connGauge (s : State) (ch : Chan) : (applyEff s (Eff.presDel ch)).connGauge = s.connGauge := by
  first | rfl | (simp only [applyEff]; (repeat' split) <;> rfl)
@[simp] theorem applyEff_presDel_subGauge (s : State) (ch : Chan) : (applyEff s (Eff.presDel ch)).subGauge = s.subGauge := by
  first | rfl | (simp only [applyEff]; (repeat' split) <;> rfl)
@[simp] theorem applyEff_presDel_writerClosed (s : State) (ch : Chan) : (applyEff s (Eff.presDel ch)).writerClosed = s.writerClosed := by
  first | rfl | (simp only [applyEff]; (repeat' split) <;> rfl)
@[simp] theorem applyEff_presDel_connectMu (s : State) (ch : Chan) : (applyEff s (Eff.presDel ch)).connectMu = s.connectMu := by
  first | rfl | (simp only [applyEff]; (repeat' split) <;> rfl)
@[simp] theorem applyEff_presDel_genCounter (s : State) (ch : Chan) : (applyEff s (Eff.presDel ch)).genCounter = s.genCounter := by
  first | rfl | (simp only [applyEff]; (repeat' split) <;> rfl)
@[simp] theorem applyEff_presDel_channels (s : State) (ch : Chan) : (applyEff s (Eff.presDel ch)).channels = s.channels := by
  first | rfl | (simp only [applyEff]; (repeat' split) <;> rfl)
@[simp] theorem applyEff_presDel_hub (s : State) (ch : Chan) : (applyEff s (Eff.presDel ch)).hub = s.hub := by
  first | rfl | (simp only [applyEff]; (repeat' split) <;> rfl)
@[simp] theorem applyEff_presDel_closedGates (s : State) (ch : Chan) : (applyEff s (Eff.presDel ch)).closedGates = s.closedGates := by
  first | rfl | (simp only [applyEff]; (repeat' split) <;> rfl)
@[simp] theorem applyEff_presDel_threads (s : State) (ch : Chan) : (applyEff s (Eff.presDel ch)).threads = s.threads := by
  first | rfl | (simp only [applyEff]; (repeat' split) <;> rfl)
@[simp] theorem applyEff_presDel_nextTid (s : State) (ch : Chan) : (applyEff s (Eff.presDel ch)).nextTid = s.nextTid := by
  first | rfl | (simp only [applyEff]; (repeat' split) <;> rfl)
@[simp] theorem applyEff_presDel_log (s : State) (ch : Chan) : (applyEff s (Eff.presDel ch)).log = s.log := by
  first | rfl | (simp only [applyEff]; (repeat' split) <;> rfl)
@[simp] theorem applyEff_presDel_panicked (s : State) (ch : Chan) : (applyEff s (Eff.presDel ch)).panicked = s.panicked := by
  first | rfl | (simp only [applyEff]; (repeat' split) <;> rfl)
@[simp] theorem applyEff_closeGate_status (s : State) (g : Gen) : (applyEff s (Eff.closeGate g)).status = s.status := by
  first | rfl | (simp only [applyEff]; (repeat' split) <;> rfl)
@[simp] theorem applyEff_closeGate_registered (s : State) (g : Gen) : (applyEff s (Eff.closeGate g)).registered = s.registered := by
  first | rfl | (simp only [applyEff]; (repeat' split) <;> rfl)
@[simp] theorem applyEff_closeGate_connGauge (s : State) (g : Gen) : (applyEff s (Eff.closeGate g)).connGauge = s.connGauge := by
  first | rfl | (simp only [applyEff]; (repeat' split) <;> rfl)
@[simp] theorem applyEff_closeGate_subGauge (s : State) (g : Gen) : (applyEff s (Eff.closeGate g)).subGauge = s.subGauge := by
  first | rfl | (simp only [applyEff]; (repeat' split) <;> rfl)
@[simp] theorem applyEff_closeGate_writerClosed (s : State) (g : Gen) : (applyEff s (Eff.closeGate g)).writerClosed = s.writerClosed := by
  first | rfl | (simp only [applyEff]; (repeat' split) <;> rfl)
@[simp] theorem applyEff_closeGate_connectMu (s : State) (g : Gen) : (applyEff s (Eff.closeGate g)).connectMu = s.connectMu := by
  first | rfl | (simp only [applyEff]; (repeat' split) <;> rfl)
@[simp] theorem applyEff_closeGate_genCounter (s : State) (g : Gen) : (applyEff s (Eff.closeGate g)).genCounter = s.genCounter := by
  first | rfl | (simp only [applyEff]; (repeat' split) <;> rfl)
@[simp] theorem applyEff_closeGate_channels (s : State) (g : Gen) : (applyEff s (Eff.closeGate g)).channels = s.channels := by
  first | rfl | (simp only [applyEff]; (repeat' split) <;> rfl)
@[simp] theorem applyEff_closeGate_hub (s : State) (g : Gen) : (applyEff s (Eff.closeGate g)).hub = s.hub := by
  first | rfl | (simp only [applyEff]; (repeat' split) <;> rfl)
@[simp] theorem applyEff_closeGate_presence (s : State) (g : Gen) : (applyEff s (Eff.closeGate g)).presence = s.presence := by
  first | rfl | (simp only [applyEff]; (repeat' split) <;> rfl)
@[simp] theorem applyEff_closeGate_threads (s : State) (g : Gen) : (applyEff s (Eff.closeGate g)).threads = s.threads := by
  first | rfl | (simp only [applyEff]; (repeat' split) <;> rfl)
@[simp] theorem applyEff_closeGate_nextTid (s : State) (g : Gen) : (applyEff s (Eff.closeGate g)).nextTid = s.nextTid := by
  first | rfl | (simp only [applyEff]; (repeat' split) <;> rfl)
@[simp] theorem applyEff_closeGate_log (s : State) (g : Gen) : (applyEff s (Eff.closeGate g)).log = s.log := by
  first | rfl | (simp only [applyEff]; (repeat' split) <;> rfl)
@[simp] theorem applyEff_log_status (s : State) (ev : Ev) : (applyEff s (Eff.log ev)).status = s.status := by
  first | rfl | (simp only [applyEff]; (repeat' split) <;> rfl)
@[simp] theorem applyEff_log_registered (s : State) (ev : Ev) : (applyEff s (Eff.log ev)).registered = s.registered := by
  first | rfl | (simp only [applyEff]; (repeat' split) <;> rfl)
@[simp] theorem applyEff_log_connGauge (s : State) (ev : Ev) : (applyEff s (Eff.log ev)).connGauge = s.connGauge := by
  first | rfl | (simp only [applyEff]; (repeat' split) <;> rfl)
@[simp] theorem applyEff_log_subGauge (s : State) (ev : Ev) : (applyEff s (Eff.log ev)).subGauge = s.subGauge := by
  first | rfl | (simp only [applyEff]; (repeat' split) <;> rfl)
@[simp] theorem applyEff_log_writerClosed (s : State) (ev : Ev) : (applyEff s (Eff.log ev)).writerClosed = s.writerClosed := by
  first | rfl | (simp only [applyEff]; (repeat' split) <;> rfl)
@[simp] theorem applyEff_log_connectMu (s : State) (ev : Ev) : (applyEff s (Eff.log ev)).connectMu = s.connectMu := by
  first | rfl | (simp only [applyEff]; (repeat' split) <;> rfl)
@[simp] theorem applyEff_log_genCounter (s : State) (ev : Ev) : (applyEff s (Eff.log ev)).genCounter = s.genCounter := by
  first | rfl | (simp only [applyEff]; (repeat' split) <;> rfl)
@[simp] theorem applyEff_log_channels (s : State) (ev : Ev) : (applyEff s (Eff.log ev)).channels = s.channels := by
  first | rfl | (simp only [applyEff]; (repeat' split) <;> rfl)
@[simp] theorem applyEff_log_hub (s : State) (ev : Ev) : (applyEff s (Eff.log ev)).hub = s.hub := by
  first | rfl | (simp only [applyEff]; (repeat' split) <;> rfl)
@[simp] theorem applyEff_log_presence (s : State) (ev : Ev) : (applyEff s (Eff.log ev)).presence = s.presence := by
  first | rfl | (simp only [applyEff]; (repeat' split) <;> rfl)
@[simp] theorem applyEff_log_closedGates (s : State) (ev : Ev) : (applyEff s (Eff.log ev)).closedGates = s.closedGates := by
  first | rfl | (simp only [applyEff]; (repeat' split) <;> rfl)
@[simp] theorem applyEff_log_threads (s : State) (ev : Ev) : (applyEff s (Eff.log ev)).threads = s.threads := by
  first | rfl | (simp only [applyEff]; (repeat' split) <;> rfl)
@[simp] theorem applyEff_log_nextTid (s : State) (ev : Ev) : (applyEff s (Eff.log ev)).nextTid = s.nextTid := by
  first | rfl | (simp only [applyEff]; (repeat' split) <;> rfl)
@[simp] theorem applyEff_log_panicked (s : State) (ev : Ev) : (applyEff s (Eff.log ev)).panicked = s.panicked := by
  first | rfl | (simp only [applyEff]; (repeat' split) <;> rfl)
@[simp] theorem applyEff_markClosed_registered (s : State) (tid : Tid) : (applyEff s (Eff.markClosed tid)).registered = s.registered := by
  first | rfl | (simp only [applyEff]; (repeat' split) <;> rfl)
@[simp] theorem applyEff_markClosed_connGauge (s : State) (tid : Tid) : (applyEff s (Eff.markClosed tid)).connGauge = s.connGauge := by
  first | rfl | (simp only [applyEff]; (repeat' split) <;> rfl)
@[simp] theorem applyEff_markClosed_subGauge (s : State) (tid : Tid) : (applyEff s (Eff.markClosed tid)).subGauge = s.subGauge := by
  first | rfl | (simp only [applyEff]; (repeat' split) <;> rfl)
@[simp] theorem applyEff_markClosed_writerClosed (s : State) (tid : Tid) : (applyEff s (Eff.markClosed tid)).writerClosed = s.writerClosed := by
  first | rfl | (simp only [applyEff]; (repeat' split) <;> rfl)
@[simp] theorem applyEff_markClosed_genCounter (s : State) (tid : Tid) : (applyEff s (Eff.markClosed tid)).genCounter = s.genCounter := by
  first | rfl | (simp only [applyEff]; (repeat' split) <;> rfl)
@[simp] theorem applyEff_markClosed_channels (s : State) (tid : Tid) : (applyEff s (Eff.markClosed tid)).channels = s.channels := by
  first | rfl | (simp only [applyEff]; (repeat' split) <;> rfl)
@[simp] theorem applyEff_markClosed_hub (s : State) (tid : Tid) : (applyEff s (Eff.markClosed tid)).hub = s.hub := by
  first | rfl | (simp only [applyEff]; (repeat' split) <;> rfl)
@[simp] theorem applyEff_markClosed_presence (s : State) (tid : Tid) : (applyEff s (Eff.markClosed tid)).presence = s.presence := by
  first | rfl | (simp only [applyEff]; (repeat' split) <;> rfl)
@[simp] theorem applyEff_markClosed_closedGates (s : State) (tid : Tid) : (applyEff s (Eff.markClosed tid)).closedGates = s.closedGates := by
  first | rfl | (simp only [applyEff]; (repeat' split) <;> rfl)
@[simp] theorem applyEff_markClosed_threads (s : State) (tid : Tid) : (applyEff s (Eff.markClosed tid)).threads = s.threads := by
  first | rfl | (simp only [applyEff]; (repeat' split) <;> rfl)
@[simp] theorem applyEff_markClosed_nextTid (s : State) (tid : Tid) : (applyEff s (Eff.markClosed tid)).nextTid = s.nextTid := by
  first | rfl | (simp only [applyEff]; (repeat' split) <;> rfl)
@[simp] theorem applyEff_markClosed_log (s : State) (tid : Tid) : (applyEff s (Eff.markClosed tid)).log = s.log := by
  first | rfl | (simp only [applyEff]; (repeat' split) <;> rfl)
@[simp] theorem applyEff_markClosed_panicked (s : State) (tid : Tid) : (applyEff s (Eff.markClosed tid)).panicked = s.panicked := by
  first | rfl | (simp only [applyEff]; (repeat' split) <;> rfl)
@[simp] theorem applyEff_unregister_status (s : State) : (applyEff s (Eff.unregister)).status = s.status := by
  first | rfl | (simp only [applyEff]; (repeat' split) <;> rfl)
@[simp] theorem applyEff_unregister_subGauge (s : State) : (applyEff s (Eff.unregister)).subGauge = s.subGauge := by
  first | rfl | (simp only [applyEff]; (repeat' split) <;> rfl)
@[simp] theorem applyEff_unregister_writerClosed (s : State) : (applyEff s (Eff.unregister)).writerClosed = s.writerClosed := by
  first | rfl | (simp only [applyEff]; (repeat' split) <;> rfl)
@[simp] theorem applyEff_unregister_connectMu (s : State) : (applyEff s (Eff.unregister)).connectMu = s.connectMu := by
  first | rfl | (simp only [applyEff]; (repeat' split) <;> rfl)
@[simp] theorem applyEff_unregister_genCounter (s : State) : (applyEff s (Eff.unregister)).genCounter = s.genCounter := by
  first | rfl | (simp only [applyEff]; (repeat' split) <;> rfl)
@[simp] theorem applyEff_unregister_channels (s : State) : (applyEff s (Eff.unregister)).channels = s.channels := by
  first | rfl | (simp only [applyEff]; (repeat' split) <;> rfl)
@[simp] theorem applyEff_unregister_hub (s : State) : (applyEff s (Eff.unregister)).hub = s.hub := by
  first | rfl | (simp only [applyEff]; (repeat' split) <;> rfl)
@[simp] theorem applyEff_unregister_presence (s : State) : (applyEff s (Eff.unregister)).presence = s.presence := by
  first | rfl | (simp only [applyEff]; (repeat' split) <;> rfl)
@[simp] theorem applyEff_unregister_closedGates (s : State) : (applyEff s (Eff.unregister)).closedGates = s.closedGates := by
  first | rfl | (simp only [applyEff]; (repeat' split) <;> rfl)
@[simp] theorem applyEff_unregister_threads (s : State) : (applyEff s (Eff.unregister)).threads = s.threads := by
  first | rfl | (simp only [applyEff]; (repeat' split) <;> rfl)
@[simp] theorem applyEff_unregister_nextTid (s : State) : (applyEff s (Eff.unregister)).nextTid = s.nextTid := by
  first | rfl | (simp only [applyEff]; (repeat' split) <;> rfl)
@[simp] theorem applyEff_unregister_log (s : State) : (applyEff s (Eff.unregister)).log = s.log := by
  first | rfl | (simp only [applyEff]; (repeat' split) <;> rfl)
@[simp] theorem applyEff_unregister_panicked (s : State) : (applyEff s (Eff.unregister)).panicked = s.panicked := by
  first | rfl | (simp only [applyEff]; (repeat' split) <;> rfl)
@[simp] theorem applyEff_writerClose_status (s : State) : (applyEff s (Eff.writerClose)).status = s.status := by
  first | rfl | (simp only [applyEff]; (repeat' split) <;> rfl)
@[simp] theorem applyEff_writerClose_registered (s : State) : (applyEff s (Eff.writerClose)).registered = s.registered := by
  first | rfl | (simp only [applyEff]; (repeat' split) <;> rfl)
@[simp] theorem applyEff_writerClose_connGauge (s : State) : (applyEff s (Eff.writerClose)).connGauge = s.connGauge := by
  first | rfl | (simp only [applyEff]; (repeat' split) <;> rfl)
@[simp] theorem applyEff_writerClose_subGauge (s : State) : (applyEff s (Eff.writerClose)).subGauge = s.subGauge := by
  first | rfl | (simp only [applyEff]; (repeat' split) <;> rfl)
@[simp] theorem applyEff_writerClose_connectMu (s : State) : (applyEff s (Eff.writerClose)).connectMu = s.connectMu := by
  first | rfl | (simp only [applyEff]; (repeat' split) <;> rfl)
@[simp] theorem applyEff_writerClose_genCounter (s : State) : (applyEff s (Eff.writerClose)).genCounter = s.genCounter := by
  first | rfl | (simp only [applyEff]; (repeat' split) <;> rfl)
@[simp] theorem applyEff_writerClose_channels (s : State) : (applyEff s (Eff.writerClose)).channels = s.channels := by
  first | rfl | (simp only [applyEff]; (repeat' split) <;> rfl)
@[simp] theorem applyEff_writerClose_hub (s : State) : (applyEff s (Eff.writerClose)).hub = s.hub := by
  first | rfl | (simp only [applyEff]; (repeat' split) <;> rfl)
@[simp] theorem applyEff_writerClose_presence (s : State) : (applyEff s (Eff.writerClose)).presence = s.presence := by
  first | rfl | (simp only [applyEff]; (repeat' split) <;> rfl)
@[simp] theorem applyEff_writerClose_closedGates (s : State) : (applyEff s (Eff.writerClose)).closedGates = s.closedGates := by
  first | rfl | (simp only [applyEff]; (repeat' split) <;> rfl)
@[simp] theorem applyEff_writerClose_threads (s : State) : (applyEff s (Eff.writerClose)).threads = s.threads := by
  first | rfl | (simp only [applyEff]; (repeat' split) <;> rfl)
@[simp] theorem applyEff_writerClose_nextTid (s : State) : (applyEff s (Eff.writerClose)).nextTid = s.nextTid := by
  first | rfl | (simp only [applyEff]; (repeat' split) <;> rfl)
@[simp] theorem applyEff_writerClose_log (s : State) : (applyEff s (Eff.writerClose)).log = s.log := by
  first | rfl | (simp only [applyEff]; (repeat' split) <;> rfl)
@[simp] theorem applyEff_writerClose_panicked (s : State) : (applyEff s (Eff.writerClose)).panicked = s.panicked := by
  first | rfl | (simp only [applyEff]; (repeat' split) <;> rfl)
@[simp] theorem applyEff_unlock_status (s : State) : (applyEff s (Eff.unlock)).status = s.status := by
  first | rfl | (simp only [applyEff]; (repeat' split) <;> rfl)
@[simp] theorem applyEff_unlock_registered (s : State) : (applyEff s (Eff.unlock)).registered = s.registered := by
  first | rfl | (simp only [applyEff]; (repeat' split) <;> rfl)
@[simp] theorem applyEff_unlock_connGauge (s : State) : (applyEff s (Eff.unlock)).connGauge = s.connGauge := by
  first | rfl | (simp only [applyEff]; (repeat' split) <;> rfl)
@[simp] theorem applyEff_unlock_subGauge (s : State) : (applyEff s (Eff.unlock)).subGauge = s.subGauge := by
  first | rfl | (simp only [applyEff]; (repeat' split) <;> rfl)
@[simp] theorem applyEff_unlock_writerClosed (s : State) : (applyEff s (Eff.unlock)).writerClosed = s.writerClosed := by
  first | rfl | (simp only [applyEff]; (repeat' split) <;> rfl)
@[simp] theorem applyEff_unlock_genCounter (s : State) : (applyEff s (Eff.unlock)).genCounter = s.genCounter := by
  first | rfl | (simp only [applyEff]; (repeat' split) <;> rfl)
@[simp] theorem applyEff_unlock_channels (s : State) : (applyEff s (Eff.unlock)).channels = s.channels := by
  first | rfl | (simp only [applyEff]; (repeat' split) <;> rfl)
@[simp] theorem applyEff_unlock_hub (s : State) : (applyEff s (Eff.unlock)).hub = s.hub := by
  first | rfl | (simp only [applyEff]; (repeat' split) <;> rfl)
@[simp] theorem applyEff_unlock_presence (s : State) : (applyEff s (Eff.unlock)).presence = s.presence := by
  first | rfl | (simp only [applyEff]; (repeat' split) <;> rfl)
@[simp] theorem applyEff_unlock_closedGates (s : State) : (applyEff s (Eff.unlock)).closedGates = s.closedGates := by
  first | rfl | (simp only [applyEff]; (repeat' split) <;> rfl)
@[simp] theorem applyEff_unlock_threads (s : State) : (applyEff s (Eff.unlock)).threads = s.threads := by
  first | rfl | (simp only [applyEff]; (repeat' split) <;> rfl)
@[simp] theorem applyEff_unlock_nextTid (s : State) : (applyEff s (Eff.unlock)).nextTid = s.nextTid := by
  first | rfl | (simp only [applyEff]; (repeat' split) <;> rfl)
@[simp] theorem applyEff_unlock_log (s : State) : (applyEff s (Eff.unlock)).log = s.log := by
  first | rfl | (simp only [applyEff]; (repeat' split) <;> rfl)
@[simp] theorem applyEff_unlock_panicked (s : State) : (applyEff s (Eff.unlock)).panicked = s.panicked := by
  first | rfl | (simp only [applyEff]; (repeat' split) <;> rfl)
@[simp] theorem applyEff_spawnClose_status (s : State) : (applyEff s (Eff.spawnClose)).status = s.status := by
  first | rfl | (simp only [applyEff]; (repeat' split) <;> rfl)
@[simp] theorem applyEff_spawnClose_registered (s : State) : (applyEff s (Eff.spawnClose)).registered = s.registered := by
  first | rfl | (simp only [applyEff]; (repeat' split) <;> rfl)
@[simp] theorem applyEff_spawnClose_connGauge (s : State) : (applyEff s (Eff.spawnClose)).connGauge = s.connGauge := by
  first | rfl | (simp only [applyEff]; (repeat' split) <;> rfl)
@[simp] theorem applyEff_spawnClose_subGauge (s : State) : (applyEff s (Eff.spawnClose)).subGauge = s.subGauge := by
  first | rfl | (simp only [applyEff]; (repeat' split) <;> rfl)
@[simp] theorem applyEff_spawnClose_writerClosed (s : State) : (applyEff s (Eff.spawnClose)).writerClosed = s.writerClosed := by
  first | rfl | (simp only [applyEff]; (repeat' split) <;> rfl)
@[simp] theorem applyEff_spawnClose_connectMu (s : State) : (applyEff s (Eff.spawnClose)).connectMu = s.connectMu := by
  first | rfl | (simp only [applyEff]; (repeat' split) <;> rfl)
@[simp] theorem applyEff_spawnClose_genCounter (s : State) : (applyEff s (Eff.spawnClose)).genCounter = s.genCounter := by
  first | rfl | (simp only [applyEff]; (repeat' split) <;> rfl)
@[simp] theorem applyEff_spawnClose_channels (s : State) : (applyEff s (Eff.spawnClose)).channels = s.channels := by
  first | rfl | (simp only [applyEff]; (repeat' split) <;> rfl)
@[simp] theorem applyEff_spawnClose_hub (s : State) : (applyEff s (Eff.spawnClose)).hub = s.hub := by
  first | rfl | (simp only [applyEff]; (repeat' split) <;> rfl)
@[simp] theorem applyEff_spawnClose_presence (s : State) : (applyEff s (Eff.spawnClose)).presence = s.presence := by
  first | rfl | (simp only [applyEff]; (repeat' split) <;> rfl)
@[simp] theorem applyEff_spawnClose_closedGates (s : State) : (applyEff s (Eff.spawnClose)).closedGates = s.closedGates := by
  first | rfl | (simp only [applyEff]; (repeat' split) <;> rfl)
@[simp] theorem applyEff_spawnClose_log (s : State) : (applyEff s (Eff.spawnClose)).log = s.log := by
  first | rfl | (simp only [applyEff]; (repeat' split) <;> rfl)
@[simp] theorem applyEff_spawnClose_panicked (s : State) : (applyEff s (Eff.spawnClose)).panicked = s.panicked := by
  first | rfl | (simp only [applyEff]; (repeat' split) <;> rfl)

@[simp] theorem applyEff_mint_genCounter (s : State) : (applyEff s Eff.mint).genCounter = s.genCounter + 1 := rfl
@[simp] theorem applyEff_chanSet_channels (s : State) (ch : Chan) (e : Entry) : (applyEff s (Eff.chanSet ch e)).channels = aset s.channels ch e := rfl
@[simp] theorem applyEff_chanDel_channels (s : State) (ch : Chan) : (applyEff s (Eff.chanDel ch)).channels = adel s.channels ch := rfl
@[simp] theorem applyEff_hubSet_hub (s : State) (ch : Chan) (g : Gen) : (applyEff s (Eff.hubSet ch g)).hub = aset s.hub ch g := by
  simp only [applyEff]; split <;> rfl
theorem applyEff_hubDelIf_hub (s : State) (ch : Chan) (g : Gen) : (applyEff s (Eff.hubDelIf ch g)).hub = if aget s.hub ch = some g then adel s.hub ch else s.hub := by
  simp only [applyEff]
  cases h : aget s.hub ch with
  | none => simp
  | some g' =>
    by_cases hg : g' = g
    · simp [hg]
    · simp [hg]
@[simp] theorem applyEff_presAdd_presence (s : State) (ch : Chan) : (applyEff s (Eff.presAdd ch)).presence = sadd s.presence ch := rfl
@[simp] theorem applyEff_presDel_presence (s : State) (ch : Chan) : (applyEff s (Eff.presDel ch)).presence = sdel s.presence ch := rfl
@[simp] theorem applyEff_log_log (s : State) (ev : Ev) : (applyEff s (Eff.log ev)).log = s.log ++ [ev] := rfl
@[simp] theorem applyEff_markClosed_status (s : State) (tid : Tid) : (applyEff s (Eff.markClosed tid)).status = Status.closed := rfl
@[simp] theorem applyEff_markClosed_connectMu (s : State) (tid : Tid) : (applyEff s (Eff.markClosed tid)).connectMu = some tid := rfl
@[simp] theorem applyEff_unregister_registered (s : State) : (applyEff s Eff.unregister).registered = false := by
  simp only [applyEff]; split <;> simp_all
theorem applyEff_unregister_connGauge (s : State) : (applyEff s Eff.unregister).connGauge = if s.registered then s.connGauge - 1 else s.connGauge := by
  simp only [applyEff]; split <;> simp_all
@[simp] theorem applyEff_writerClose_writerClosed (s : State) : (applyEff s Eff.writerClose).writerClosed = true := rfl
@[simp] theorem applyEff_unlock_connectMu (s : State) : (applyEff s Eff.unlock).connectMu = none := rfl
@[simp] theorem applyEff_spawnClose_threads (s : State) : (applyEff s Eff.spawnClose).threads = s.threads ++ [(s.nextTid, autoClose)] := rfl
@[simp] theorem applyEff_spawnClose_nextTid (s : State) : (applyEff s Eff.spawnClose).nextTid = s.nextTid + 1 := rfl
theorem applyEff_closeGate_closedGates (s : State) (g : Gen) : (applyEff s (Eff.closeGate g)).closedGates = if g ∈ s.closedGates then s.closedGates else g :: s.closedGates := by
  simp only [applyEff]; split <;> rfl

/-- `gateEff` only touches the closed-gate set and the panic flag -/
@[simp] theorem applyEffs_gateEff_status (s : State) (g : Option Gen) : (applyEffs s (gateEff g)).status = s.status := by
  cases g <;> simp [gateEff]
@[simp] theorem applyEffs_gateEff_registered (s : State) (g : Option Gen) : (applyEffs s (gateEff g)).registered = s.registered := by
  cases g <;> simp [gateEff]
@[simp] theorem applyEffs_gateEff_connGauge (s : State) (g : Option Gen) : (applyEffs s (gateEff g)).connGauge = s.connGauge := by
  cases g <;> simp [gateEff]
@[simp] theorem applyEffs_gateEff_subGauge (s : State) (g : Option Gen) : (applyEffs s (gateEff g)).subGauge = s.subGauge := by
  cases g <;> simp [gateEff]
@[simp] theorem applyEffs_gateEff_writerClosed (s : State) (g : Option Gen) : (applyEffs s (gateEff g)).writerClosed = s.writerClosed := by
  cases g <;> simp [gateEff]
@[simp] theorem applyEffs_gateEff_connectMu (s : State) (g : Option Gen) : (applyEffs s (gateEff g)).connectMu = s.connectMu := by
  cases g <;> simp [gateEff]
@[simp] theorem applyEffs_gateEff_genCounter (s : State) (g : Option Gen) : (applyEffs s (gateEff g)).genCounter = s.genCounter := by
  cases g <;> simp [gateEff]
@[simp] theorem applyEffs_gateEff_channels (s : State) (g : Option Gen) : (applyEffs s (gateEff g)).channels = s.channels := by
  cases g <;> simp [gateEff]
@[simp] theorem applyEffs_gateEff_hub (s : State) (g : Option Gen) : (applyEffs s (gateEff g)).hub = s.hub := by
  cases g <;> simp [gateEff]
@[simp] theorem applyEffs_gateEff_presence (s : State) (g : Option Gen) : (applyEffs s (gateEff g)).presence = s.presence := by
  cases g <;> simp [gateEff]
@[simp] theorem applyEffs_gateEff_threads (s : State) (g : Option Gen) : (applyEffs s (gateEff g)).threads = s.threads := by
  cases g <;> simp [gateEff]
@[simp] theorem applyEffs_gateEff_nextTid (s : State) (g : Option Gen) : (applyEffs s (gateEff g)).nextTid = s.nextTid := by
  cases g <;> simp [gateEff]
@[simp] theorem applyEffs_gateEff_log (s : State) (g : Option Gen) : (applyEffs s (gateEff g)).log = s.log := by
  cases g <;> simp [gateEff]

end CentrifugeVerif.SubProto
