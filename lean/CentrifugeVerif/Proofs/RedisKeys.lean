import CentrifugeVerif.Model.RedisKeys
import CentrifugeVerif.Spec.RedisSlot
/-!
Lemmas for C34: the Redis hash tag of a key of shape `pre ++ "{" ++ x ++ "}" ++ post`
(`pre` brace-free) and the soundness of the symbolic analysis `analyse` of a generated parts list.
-/
namespace CentrifugeVerif.RedisKeys
open CentrifugeVerif.Spec.RedisSlot

theorem indexOf_append_notin (c : UInt8) : ∀ (h p : Bytes), (∀ b ∈ h, b ≠ c) →
    indexOf c (h ++ c :: p) = some h.length
  | [], p, _ => by simp [indexOf]
  | a :: t, p, hn => by
    have ha : a ≠ c := hn a (by simp)
    have ih := indexOf_append_notin c t p (fun b hb => hn b (by simp [hb]))
    simp [indexOf, ha, ih]

theorem indexOf_takeWhile (c : UInt8) : ∀ (x p : Bytes),
    indexOf c (x ++ c :: p) = some (x.takeWhile (· ≠ c)).length
  | [], p => by simp [indexOf]
  | a :: t, p => by
    by_cases ha : a = c
    · subst ha; simp [indexOf]
    · have ih := indexOf_takeWhile c t p
      simp [indexOf, ha, ih]

theorem take_takeWhile (c : UInt8) : ∀ (x p : Bytes),
    (x ++ c :: p).take (x.takeWhile (· ≠ c)).length = x.takeWhile (· ≠ c)
  | [], p => by simp
  | a :: t, p => by
    by_cases ha : a = c
    · subst ha; simp
    · have ih := take_takeWhile c t p
      simp [ha] at ih ⊢
      exact ih

theorem drop_len_succ : ∀ (h : Bytes) (c : UInt8) (p : Bytes), (h ++ c :: p).drop (h.length + 1) = p
  | [], c, p => by simp
  | a :: t, c, p => by
    have := drop_len_succ t c p
    simpa using this

/-- Hash tag of `pre{x}post` when `pre` has no `{`: the bytes of `x` before its first `}` if there
is at least one, otherwise the whole key. -/
theorem hashTag_shape (pre x post : Bytes) (hpre : ∀ b ∈ pre, b ≠ 123) :
    hashTag (pre ++ 123 :: (x ++ 125 :: post)) =
      if x.takeWhile (· ≠ 125) = [] then pre ++ 123 :: (x ++ 125 :: post) else x.takeWhile (· ≠ 125) := by
  unfold hashTag
  rw [indexOf_append_notin 123 pre _ hpre]
  simp only
  rw [drop_len_succ, indexOf_takeWhile]
  cases hw : x.takeWhile (· ≠ 125) with
  | nil => simp
  | cons a t =>
    simp only [List.length_cons]
    have := take_takeWhile 125 x post
    rw [hw] at this
    simpa using this

theorem dropLast_getLast : ∀ (l : Bytes) (a : UInt8), l.getLast? = some a → l = l.dropLast ++ [a]
  | [], a, h => by simp at h
  | [x], a, h => by simp at h; simp [h]
  | x :: y :: t, a, h => by
    have h' : (y :: t).getLast? = some a := by simpa [List.getLast?_cons_cons] using h
    have := dropLast_getLast (y :: t) a h'
    simp only [List.dropLast_cons_cons, List.cons_append]
    rw [← this]

/-- Soundness of `analyse`. -/
theorem analyse_render (e : Env) : ∀ (ps pre : List Part) (p : Part) (post : List Part),
    analyse ps = some (pre, p, post) →
    render e ps = render e pre ++ 123 :: (renderPart e p ++ 125 :: render e post) ∧
    ((∀ b ∈ e.prefix, b ≠ 123) → ∀ b ∈ render e pre, b ≠ 123)
  | [], pre, p, post, h => by simp [analyse] at h
  | .prefix :: ps, pre, p, post, h => by
    simp only [analyse, Option.map_eq_some_iff] at h
    obtain ⟨⟨a, q, r⟩, hr, heq⟩ := h
    simp only [Prod.mk.injEq] at heq
    obtain ⟨rfl, rfl, rfl⟩ := heq
    have ih := analyse_render e ps a q r hr
    constructor
    · simp [render, renderPart, ih.1]
    · intro hp b hb
      simp only [render, renderPart, List.mem_append] at hb
      rcases hb with hb | hb
      · exact hp b hb
      · exact ih.2 hp b hb
  | .lit l :: ps, pre, p, post, h => by
    unfold analyse at h
    split at h
    · rename_i hall
      simp only [Option.map_eq_some_iff] at h
      obtain ⟨⟨a, q, r⟩, hr, heq⟩ := h
      simp only [Prod.mk.injEq] at heq
      obtain ⟨rfl, rfl, rfl⟩ := heq
      have ih := analyse_render e ps a q r hr
      constructor
      · simp [render, renderPart, ih.1]
      · intro hp b hb
        simp only [render, renderPart, List.mem_append] at hb
        rcases hb with hb | hb
        · have := List.all_eq_true.1 hall b hb
          simpa using this
        · exact ih.2 hp b hb
    · split at h
      · rename_i hlast
        split at h
        · rename_i q r0 rest
          split at h
          · simp only [Option.some.injEq, Prod.mk.injEq] at h
            obtain ⟨rfl, rfl, rfl⟩ := h
            have hl := dropLast_getLast l 123 hlast.1
            constructor
            · simp only [render, renderPart, List.append_nil]
              conv => lhs; rw [hl]
              simp
            · intro _ b hb
              simp only [render, renderPart, List.append_nil] at hb
              have := List.all_eq_true.1 hlast.2 b hb
              simpa using this
          · cases h
        · cases h
      · cases h
  | .ch :: ps, pre, p, post, h => by simp [analyse] at h
  | .tag :: ps, pre, p, post, h => by simp [analyse] at h
  | .idem :: ps, pre, p, post, h => by simp [analyse] at h

/-- the part of a key that ends up between the braces (`none`: the key has no recognisable tag) -/
def tagPart (k : List Part) : Option Part := (analyse k).map (·.2.1)

/-- `x` is non-empty and does not start with `}` -/
def TagOK (x : Bytes) : Prop := x.takeWhile (· ≠ 125) ≠ []

instance (x : Bytes) : Decidable (TagOK x) := by unfold TagOK; infer_instance

theorem tagOK_iff (x : Bytes) : TagOK x ↔ ∃ a t, x = a :: t ∧ a ≠ 125 := by
  unfold TagOK
  cases x with
  | nil => simp
  | cons a t =>
    by_cases ha : a = 125
    · simp [ha]
    · simp [ha]

theorem key_hashTag (e : Env) (k : List Part) (p : Part) (hk : tagPart k = some p)
    (hp : ∀ b ∈ e.prefix, b ≠ 123) (hx : TagOK (renderPart e p)) :
    hashTag (render e k) = (renderPart e p).takeWhile (· ≠ 125) := by
  unfold tagPart at hk
  simp only [Option.map_eq_some_iff] at hk
  obtain ⟨⟨pre, q, post⟩, ha, rfl⟩ := hk
  have := analyse_render e k pre q post ha
  rw [this.1, hashTag_shape _ _ _ (this.2 hp)]
  have hx' : List.takeWhile (· ≠ 125) (renderPart e q) ≠ [] := hx
  rw [if_neg hx']

theorem keys_same_slot_generic (e : Env) (keys : List (List Part)) (p : Part)
    (hall : ∀ k ∈ keys, tagPart k = some p)
    (hp : ∀ b ∈ e.prefix, b ≠ 123) (hx : TagOK (renderPart e p)) :
    ∀ k1 ∈ keys, ∀ k2 ∈ keys, slot (render e k1) = slot (render e k2) := by
  intro k1 h1 k2 h2
  unfold slot
  rw [key_hashTag e k1 p (hall k1 h1) hp hx, key_hashTag e k2 p (hall k2 h2) hp hx]

theorem trimPrefix_append (p s : Bytes) : trimPrefix (p ++ s) p = s := by
  unfold trimPrefix
  simp

theorem indexByte_append_notin (c : UInt8) : ∀ (h p : Bytes), (∀ b ∈ h, b ≠ c) →
    indexByte c (h ++ c :: p) = some h.length
  | [], p, _ => by simp [indexByte]
  | a :: t, p, hn => by
    have ha : a ≠ c := hn a (by simp)
    have ih := indexByte_append_notin c t p (fun b hb => hn b (by simp [hb]))
    simp [indexByte, ha, ih]


end CentrifugeVerif.RedisKeys
