import CentrifugeVerif.Proofs.SubProtoNT4
/-!
Transition lemmas for layer 3 of the no-timeout invariants (the hub): which steps write or remove hub
entries, who owes a removal, and generic facts about hub effects.
-/
namespace CentrifugeVerif.SubProto

theorem step_hubSet (s : State) (tid : Tid) (t t' : Thread) (o : Outcome) (effs : List Eff)
    (hs : stepThread s tid t o = some (effs, t')) (ch : Chan) (g : Gen) (hm : Eff.hubSet ch g ∈ effs) :
    ch = t.ch ∧ g = t.cmdGen ∧ t.pc = .sHubAdd := by
  step_cases hs <;> simp_all

theorem step_hubDel (s : State) (tid : Tid) (t t' : Thread) (o : Outcome) (effs : List Eff)
    (hs : stepThread s tid t o = some (effs, t')) (ch : Chan) (g : Gen) (hm : Eff.hubDelIf ch g ∈ effs) :
    ch = t.ch ∧ ((t.pc = .sHubAdd ∧ g = t.cmdGen) ∨ (t.pc = .sRbHub ∧ g = t.cmdGen) ∨
      (t.pc = .sErrHub ∧ g = t.resGen) ∨ (t.pc = .uHubRm ∧ g = t.target)) := by
  step_cases hs <;> simp_all

/-- the thread that deletes a `c.channels` entry becomes the one that owes the hub removal -/
theorem step_chanDel_next (s : State) (tid : Tid) (t t' : Thread) (o : Outcome) (effs : List Eff)
    (hs : stepThread s tid t o = some (effs, t')) (ch : Chan) (hm : Eff.chanDel ch ∈ effs) :
    t'.ch = t.ch ∧ t'.resGen = t.resGen ∧ t'.target = t.target ∧
      ((t.pc = .sCommit ∧ rbHubPc t'.pc = true) ∨ (t.pc = .sErrDel ∧ errHubPc t'.pc = true) ∨
       (t.pc = .uRemove ∧ owesHubPc t'.pc = true)) := by
  step_cases hs <;> simp_all

/-- what the stepping thread owes to the hub -/
def owesP (t : Thread) (g : Gen) : Prop :=
  (rbHubPc t.pc = true ∧ t.resGen = g) ∨ (errHubPc t.pc = true ∧ t.resGen = g) ∨ (owesHubPc t.pc = true ∧ t.target = g)

theorem step_owes_self (s : State) (tid : Tid) (t t' : Thread) (o : Outcome) (effs : List Eff)
    (hs : stepThread s tid t o = some (effs, t')) (g : Gen) (ho : owesP t g)
    (hK : rbPc t.pc = true → t.cmdGen = t.resGen) :
    (owesP t' g ∧ t'.ch = t.ch) ∨ (Eff.hubDelIf t.ch g ∈ effs ∧ ∀ g', Eff.hubSet t.ch g' ∉ effs) := by
  unfold owesP at ho ⊢
  step_cases hs <;> simp_all [notCommitted, unsubReturn, afterHubRm]


theorem step_Hd_self (s : State) (tid : Tid) (t t' : Thread) (o : Outcome) (effs : List Eff)
    (hs : stepThread s tid t o = some (effs, t')) (hnt : o ≠ .tmo)
    (hH : postDelPc t.pc = true → ∀ e, aget s.channels t.ch = some e → e.gen ≠ t.target)
    (hp : postDelPc t'.pc = true) :
    ∀ e, aget (after s tid t' effs).channels t'.ch = some e → e.gen ≠ t'.target := by
  step_cases hs <;> simp_all [after, aget_aset, aget_adel, notCommitted, unsubReturn, afterHubRm]

theorem step_HubHeld_self (s : State) (tid : Tid) (t t' : Thread) (o : Outcome) (effs : List Eff)
    (hs : stepThread s tid t o = some (effs, t')) (hnt : o ≠ .tmo)
    (hH : hubHeldPc t.pc = true → aget s.hub t.ch = some t.cmdGen)
    (hp : hubHeldPc t'.pc = true) :
    aget (after s tid t' effs).hub t'.ch = some t'.cmdGen := by
  step_cases hs <;> simp_all [after, aget_aset, aget_adel, applyEff_hubDelIf_hub, notCommitted, unsubReturn, afterHubRm]

theorem hub_applyEffs (es : List Eff) (s : State) (ch : Chan) (g : Gen)
    (h : aget (applyEffs s es).hub ch = some g) : aget s.hub ch = some g ∨ Eff.hubSet ch g ∈ es := by
  induction es generalizing s with
  | nil => exact Or.inl h
  | cons x r ih =>
    rcases ih _ h with h1 | h1
    · cases x with
      | hubSet ch' g' =>
        simp only [applyEff_hubSet_hub, aget_aset] at h1
        by_cases hc : ch' = ch
        · simp only [hc, if_true, Option.some.injEq] at h1
          subst hc; subst h1; exact Or.inr (by simp)
        · simp only [hc, if_false] at h1; exact Or.inl h1
      | hubDelIf ch' g' =>
        rw [applyEff_hubDelIf_hub] at h1
        split at h1
        · rw [aget_adel] at h1
          split at h1
          · cases h1
          · exact Or.inl h1
        · exact Or.inl h1
      | _ => simp_all
    · exact Or.inr (List.mem_cons_of_mem _ h1)

/-- a hub entry that survives the step was not removed by it -/
theorem hub_applyEffs_old (es : List Eff) (s : State) (ch : Chan) (g : Gen)
    (hset : ∀ g', Eff.hubSet ch g' ∉ es) (h : aget (applyEffs s es).hub ch = some g) :
    aget s.hub ch = some g ∧ Eff.hubDelIf ch g ∉ es := by
  induction es generalizing s with
  | nil => exact ⟨h, by simp⟩
  | cons x r ih =>
    have hset' : ∀ g', Eff.hubSet ch g' ∉ r := fun g' hm => hset g' (List.mem_cons_of_mem _ hm)
    obtain ⟨h1, h2⟩ := ih _ hset' h
    cases x with
    | hubSet ch' g' =>
      have hc : ch' ≠ ch := by intro hc; subst hc; exact hset g' (by simp)
      simp only [applyEff_hubSet_hub, aget_aset, hc, if_false] at h1
      exact ⟨h1, by simpa using h2⟩
    | hubDelIf ch' g' =>
      rw [applyEff_hubDelIf_hub] at h1
      split at h1
      · rename_i hh
        rw [aget_adel] at h1
        split at h1
        · cases h1
        · rename_i hc
          refine ⟨h1, ?_⟩
          simp only [List.mem_cons, Eff.hubDelIf.injEq, not_or, not_and]
          exact ⟨fun hcc => absurd hcc.symm hc, h2⟩
      · rename_i hh
        refine ⟨h1, ?_⟩
        simp only [List.mem_cons, Eff.hubDelIf.injEq, not_or, not_and]
        refine ⟨fun hcc hgg => ?_, h2⟩
        subst hcc; subst hgg; exact hh h1
    | _ => simp_all

theorem hub_applyEffs_keep (es : List Eff) (s : State) (ch : Chan) (g : Gen)
    (hset : ∀ g', Eff.hubSet ch g' ∉ es) (hdel : Eff.hubDelIf ch g ∉ es) (h : aget s.hub ch = some g) :
    aget (applyEffs s es).hub ch = some g := by
  induction es generalizing s with
  | nil => exact h
  | cons x r ih =>
    apply ih
    · intro g' hm; exact hset g' (List.mem_cons_of_mem _ hm)
    · intro hm; exact hdel (List.mem_cons_of_mem _ hm)
    · cases x with
      | hubSet ch' g' =>
        have hc : ch' ≠ ch := by intro hc; subst hc; exact hset g' (by simp)
        simp [aget_aset, hc, h]
      | hubDelIf ch' g' =>
        rw [applyEff_hubDelIf_hub]
        split
        · rename_i hh
          have hc : ch' ≠ ch := by
            intro hc; subst hc
            rw [h] at hh; cases hh
            exact hdel (by simp)
          simp [aget_adel, hc, h]
        · exact h
      | _ => simpa using h


theorem step_commit_writes (s : State) (tid : Tid) (t t' : Thread) (o : Outcome) (effs : List Eff)
    (hs : stepThread s tid t o = some (effs, t')) (hp : t.pc = .sCommit) (c : Chan) (e2 : Entry)
    (hm : Eff.chanSet c e2 ∈ effs) : aget (after s tid t' effs).channels c = some e2 := by
  step_cases hs <;> simp_all [after, aget_aset]

end CentrifugeVerif.SubProto
