import CentrifugeVerif.Proofs.Partition
import CentrifugeVerif.Gen.PartitionTags64
/-!
Kernel-evaluated facts about the bundled tag table for 64 partitions (`Gen/PartitionTags64.lean`,
regenerated from `precomputed.go` on every run): length, well-formedness, the slots Redis computes
(specification CRC16 + hash-tag rule), strict monotonicity of the slot list, balance for every cluster size.
-/
namespace CentrifugeVerif.Partition
open CentrifugeVerif.Gen.PartitionTags
set_option maxRecDepth 1000000

theorem len64 : tags64.length = 64 := by decide +kernel
theorem wf64 : tags64.all tagWF = true := by decide +kernel
theorem slotsEq64 : slotsOf tags64 = slots64 := by decide +kernel
theorem sorted64 : strictlyIncreasing slots64 = true := by decide +kernel
theorem bal64_1 : checkRange slots64 1 64 = true := by decide +kernel

theorem balanced64 : ∀ k, 1 ≤ k → k ≤ 64 → Balanced (slotsOf tags64) k := by
  intro k h1 h2
  rw [slotsEq64]
  exact checkRange_sound _ _ _ bal64_1 k (by omega) (by omega)

end CentrifugeVerif.Partition
