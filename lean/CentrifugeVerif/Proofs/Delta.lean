import CentrifugeVerif.Model.Delta
/-!
Helper lemmas for C14 (Props/C14.lean): one wire publication produced by `encodeAgainst` is
reconstructed by a client that holds the base; `recvAll` over appended lists; finite-map lemmas for
the per-key (map subscription) client.
-/
namespace CentrifugeVerif.Delta

variable {B : Type}

theorem recv_encodeAgainst (c : Codec B) (hc : c.RoundTrip) (he : c.EscOK)
    (held prev : Option B) (p : Pub B) (hbase : ∀ b, prev = some b → held = some b) :
    Client.recv c { held := held } (encodeAgainst c prev p) = some p.data := by
  cases prev with
  | none => simp [encodeAgainst, Client.recv, he p.data]
  | some b =>
    have hh : held = some b := hbase b rfl
    subst hh
    unfold encodeAgainst
    by_cases hlen : c.len (c.create b p.data) ≥ c.len p.data
    · simp [hlen, Client.recv, he p.data]
    · simp [hlen, Client.recv, he (c.create b p.data), hc b p.data]

theorem recv_encodeFull (c : Codec B) (he : c.EscOK) (held : Option B) (p : Pub B) :
    Client.recv c { held := held } (encodeFull c p) = some p.data := by
  simp [encodeFull, encodeAgainst, Client.recv, he p.data]

/-- the payload the client holds after reconstructing `ts` in order -/
def lastOr (h : Option B) : List B → Option B
  | [] => h
  | t :: ts => lastOr (some t) ts

theorem recvAll_append (c : Codec B) (w1 w2 : List (WPub B)) (held : Option B) (t1 : List B)
    (h1 : Client.recvAll c { held := held } w1 = some t1) :
    Client.recvAll c { held := held } (w1 ++ w2) =
      (Client.recvAll c { held := lastOr held t1 } w2).map (fun t2 => t1 ++ t2) := by
  induction w1 generalizing held t1 with
  | nil =>
    simp [Client.recvAll] at h1
    subst h1
    simp [lastOr]
  | cons w ws ih =>
    simp only [Client.recvAll, List.cons_append] at h1 ⊢
    cases hr : Client.recv c { held := held } w with
    | none => simp [hr] at h1
    | some t =>
      simp only [hr] at h1 ⊢
      cases hrest : Client.recvAll c { held := some t } ws with
      | none => simp [hrest] at h1
      | some ts =>
        simp only [hrest, Option.some.injEq] at h1
        subst h1
        rw [ih (some t) ts hrest]
        simp only [lastOr]
        cases Client.recvAll c { held := lastOr (some t) ts } w2 <;> simp

/-! finite maps as association lists -/

theorem lookup_erase_same (m : List (Nat × B)) (k : Nat) : lookup (erase m k) k = none := by
  induction m with
  | nil => rfl
  | cons e rest ih =>
    obtain ⟨a, b⟩ := e
    by_cases hak : a = k
    · simp [erase, hak, ih]
    · simp [erase, hak, lookup, ih]

theorem lookup_erase_ne (m : List (Nat × B)) (k k' : Nat) (h : k' ≠ k) : lookup (erase m k) k' = lookup m k' := by
  induction m with
  | nil => rfl
  | cons e rest ih =>
    obtain ⟨a, b⟩ := e
    by_cases hak : a = k
    · have hne : ¬ a = k' := fun h' => h (h'.symm.trans hak)
      simp [erase, hak, lookup, ih]
      intro h'
      exact absurd h'.symm h
    · by_cases hak' : a = k'
      · subst hak'
        simp [erase, hak, lookup]
      · simp [erase, hak, lookup, hak', ih]

theorem lookup_insert_same (m : List (Nat × B)) (k : Nat) (v : B) : lookup (insert m k v) k = some v := by
  simp [insert, lookup]

theorem lookup_insert_ne (m : List (Nat × B)) (k k' : Nat) (v : B) (h : k' ≠ k) :
    lookup (insert m k v) k' = lookup m k' := by
  have : ¬ k = k' := fun h' => h h'.symm
  simp [insert, lookup, this, lookup_erase_ne m k k' h]

end CentrifugeVerif.Delta
