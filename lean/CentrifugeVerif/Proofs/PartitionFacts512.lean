import CentrifugeVerif.Proofs.PartitionBal512_1
import CentrifugeVerif.Proofs.PartitionBal512_65
import CentrifugeVerif.Proofs.PartitionBal512_129
import CentrifugeVerif.Proofs.PartitionBal512_193
import CentrifugeVerif.Proofs.PartitionBal512_257
import CentrifugeVerif.Proofs.PartitionBal512_321
import CentrifugeVerif.Proofs.PartitionBal512_385
import CentrifugeVerif.Proofs.PartitionBal512_449
import CentrifugeVerif.Proofs.Partition
import CentrifugeVerif.Gen.PartitionTags512
/-!
Kernel-evaluated facts about the bundled tag table for 512 partitions (`Gen/PartitionTags512.lean`,
regenerated from `precomputed.go` on every run): length, well-formedness, the slots Redis computes
(specification CRC16 + hash-tag rule), strict monotonicity of the slot list, balance for every cluster size (chunks in PartitionBal512_*).
-/
namespace CentrifugeVerif.Partition
open CentrifugeVerif.Gen.PartitionTags
set_option maxRecDepth 1000000

theorem len512 : tags512.length = 512 := by decide +kernel
theorem wf512 : tags512.all tagWF = true := by decide +kernel
theorem slotsEq512 : slotsOf tags512 = slots512 := by decide +kernel
theorem sorted512 : strictlyIncreasing slots512 = true := by decide +kernel

theorem balanced512 : ∀ k, 1 ≤ k → k ≤ 512 → Balanced (slotsOf tags512) k := by
  intro k h1 h2
  rw [slotsEq512]
  by_cases h0 : k < 65
  · exact checkRange_sound _ _ _ bal512_1 k (by omega) (by omega)
  by_cases h1 : k < 129
  · exact checkRange_sound _ _ _ bal512_65 k (by omega) (by omega)
  by_cases h2 : k < 193
  · exact checkRange_sound _ _ _ bal512_129 k (by omega) (by omega)
  by_cases h3 : k < 257
  · exact checkRange_sound _ _ _ bal512_193 k (by omega) (by omega)
  by_cases h4 : k < 321
  · exact checkRange_sound _ _ _ bal512_257 k (by omega) (by omega)
  by_cases h5 : k < 385
  · exact checkRange_sound _ _ _ bal512_321 k (by omega) (by omega)
  by_cases h6 : k < 449
  · exact checkRange_sound _ _ _ bal512_385 k (by omega) (by omega)
  exact checkRange_sound _ _ _ bal512_449 k (by omega) (by omega)

end CentrifugeVerif.Partition
