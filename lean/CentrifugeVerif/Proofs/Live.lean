import CentrifugeVerif.Model.Live
/-! Helper lemmas for C01 (live path). -/
namespace CentrifugeVerif.Live

/-- one step: either nothing is consumed and the position is unchanged, or exactly `pos+1` is
consumed and becomes the position. -/
theorem liveStep_cases (s : Sub) (i : Inc) :
    ((liveStep s i).1.pos = s.pos ∧ consumed [(liveStep s i).2] = []) ∨
    ((liveStep s i).1.pos = s.pos + 1 ∧ consumed [(liveStep s i).2] = [s.pos + 1]) := by
  unfold liveStep
  by_cases h1 : i.lag = true
  · simp [h1, consumed]
  · by_cases h2 : i.epoch ≠ s.epoch ∧ s.epoch ≠ 0
    · simp [h1, h2, consumed]
    · simp only [h1, h2, if_false, Bool.false_eq_true]
      by_cases h3 : i.offset > s.pos + 1
      · simp [h3, consumed]
      · by_cases h4 : i.offset < s.pos + 1
        · simp [h3, h4, consumed]
        · have : i.offset = s.pos + 1 := by omega
          simp only [h3, h4, if_false]
          right
          by_cases h5 : i.filtered = true <;> simp [h5, consumed, this]

theorem consumed_cons (a : Action) (as : List Action) :
    consumed (a :: as) = consumed [a] ++ consumed as := by
  cases a <;> simp [consumed]

theorem delivered_sublist_consumed (as : List Action) : (delivered as).Sublist (consumed as) := by
  induction as with
  | nil => simp [delivered, consumed]
  | cons a as ih =>
    cases a with
    | deliver o => simpa [delivered, consumed] using ih
    | advanceFiltered o => simpa [delivered, consumed] using ih.cons o
    | skipOld => simpa [delivered, consumed] using ih
    | insufficient r => simpa [delivered, consumed] using ih

end CentrifugeVerif.Live
