import CentrifugeVerif.Model.ConnProtoLifecycle
/-!
Unsubscribe-callback accounting for the lifecycle LTS (`Model/ConnProtoLifecycle.lean`).
-/
namespace CentrifugeVerif.Lifecycle

def cntU (n : Nat) (s : St) : Nat := s.log.count (.unsub n)

def wOwes (n : Nat) : WPC → Nat
  | .holdBoth _ _ (some m) => if m = n then 1 else 0
  | _ => 0

/-- callbacks for subscription `n` that some thread still has to run -/
def owes (n : Nat) (s : St) : Nat := s.owing.count n + wOwes n s.w

structure UInv (s : St) : Prop where
  subsOnce : ∀ n, s.subs.count n ≤ 1
  live : ∀ n, n ∈ s.subs → n < s.nextSub ∧ cntU n s = 0 ∧ owes n s = 0 ∧ n ∉ s.endedReg
  fresh : ∀ n, s.nextSub ≤ n → n ∉ s.subs ∧ cntU n s = 0 ∧ owes n s = 0 ∧ n ∉ s.endedReg
  once : ∀ n, cntU n s + owes n s ≤ 1
  ended : ∀ n, n ∈ s.endedReg → s.registered = true ∧ cntU n s + owes n s = 1

theorem uinv_init : UInv {} := by
  constructor <;> simp [cntU, owes, wOwes]

theorem count_unsub_append_other (log : List Ev) (e : Ev) (n : Nat) (h : e ≠ .unsub n) :
    (log ++ [e]).count (.unsub n) = log.count (.unsub n) := by
  simp [List.count_append, h]

/-- a step that changes neither the subscription table nor the owed callbacks, and logs no
unsubscribe event, preserves the accounting -/
theorem uinv_frame (s s' : St) (h : UInv s)
    (h1 : s'.subs = s.subs) (h2 : s'.nextSub = s.nextSub) (h3 : s'.owing = s.owing)
    (h4 : ∀ n, wOwes n s'.w = wOwes n s.w) (h5 : s'.endedReg = s.endedReg)
    (h6 : ∀ n, s'.log.count (.unsub n) = s.log.count (.unsub n))
    (h7 : s.registered = true → s'.registered = true) : UInv s' := by
  have hc : ∀ n, cntU n s' = cntU n s := fun n => h6 n
  have ho : ∀ n, owes n s' = owes n s := fun n => by simp [owes, h3, h4]
  constructor
  · intro n; rw [h1]; exact h.subsOnce n
  · intro n hn; rw [h1] at hn; rw [h2, hc, ho, h5]; exact h.live n hn
  · intro n hn; rw [h2] at hn; rw [h1, hc, ho, h5]; exact h.fresh n hn
  · intro n; rw [hc, ho]; exact h.once n
  · intro n hn; rw [h5] at hn; rw [hc, ho]; exact ⟨h7 (h.ended n hn).1, (h.ended n hn).2⟩

theorem count_unsub_append_self (log : List Ev) (n m : Nat) :
    (log ++ [Ev.unsub m]).count (.unsub n) = log.count (.unsub n) + (if m = n then 1 else 0) := by
  by_cases h : m = n <;> simp [List.count_append, h]

theorem step_uinv (s s' : St) (l : Label) (h : UInv s) (hs : step s l = some s') : UInv s' := by
  cases l <;> simp only [step] at hs
  case connectCmdOk =>
    split at hs <;> cases hs
    exact uinv_frame s _ h rfl rfl rfl (fun _ => rfl) rfl (fun _ => rfl) (fun x => x)
  case connectCmdRefused =>
    split at hs <;> cases hs
    exact uinv_frame s _ h rfl rfl rfl (fun _ => rfl) rfl (fun _ => rfl) (fun x => x)
  case triggerAcquire =>
    split at hs
    · split at hs <;> cases hs
      · exact uinv_frame s _ h rfl rfl rfl (fun _ => rfl) rfl
          (fun n => count_unsub_append_other _ _ n (by simp)) (fun _ => rfl)
      · exact uinv_frame s _ h rfl rfl rfl (fun _ => rfl) rfl (fun _ => rfl) (fun x => x)
    · cases hs
  case triggerEnd =>
    split at hs <;> cases hs
    exact uinv_frame s _ h rfl rfl rfl (fun _ => rfl) rfl
      (fun n => count_unsub_append_other _ _ n (by simp)) (fun x => x)
  case subscribe =>
    split at hs <;> cases hs
    have hf := h.fresh s.nextSub (Nat.le_refl _)
    constructor
    · intro n
      simp only [List.count_append]
      by_cases hn : n = s.nextSub
      · subst hn
        have : s.subs.count s.nextSub = 0 := List.count_eq_zero.mpr hf.1
        simp [this]
      · have := h.subsOnce n
        have hne : ¬ s.nextSub = n := fun x => hn x.symm
        simp [hne]; exact this
    · intro n hn
      simp at hn
      rcases hn with hn | hn
      · obtain ⟨a, b, c, d⟩ := h.live n hn
        exact ⟨by simp; omega, b, c, d⟩
      · subst hn
        exact ⟨by simp, hf.2.1, hf.2.2.1, hf.2.2.2⟩
    · intro n hn
      simp at hn
      obtain ⟨a, b, c, d⟩ := h.fresh n (by omega)
      refine ⟨?_, b, c, d⟩
      simp [a]; omega
    · exact h.once
    · exact h.ended
  case closeTry =>
    split at hs
    · split at hs <;> cases hs
      · exact h
      · -- w := holdConnect: owes nothing; before, w owed nothing either unless holdBoth (then status closed)
        rename_i hc hncl
        refine uinv_frame s _ h rfl rfl rfl ?_ rfl (fun _ => rfl) (fun x => x)
        intro n
        simp [wOwes]
        -- connectMuFree excludes holdBoth
        simp [connectMuFree] at hc
        cases hw : s.w <;> simp_all [wOwes]
    · cases hs
  case wAcquirePresence =>
    split at hs
    · split at hs <;> cases hs
      rename_i p snap hw hc
      exact uinv_frame s _ h rfl rfl rfl (fun n => by simp [wOwes, hw]) rfl (fun _ => rfl) (fun x => x)
    · cases hs
  case wRemove =>
    split at hs
    · rename_i p n snap hw
      split at hs <;> cases hs
      · rename_i hmem
        simp at hmem
        obtain ⟨hlt, hc0, ho0, hne⟩ := h.live n hmem
        have hcnt : s.subs.count n = 1 := by
          have := h.subsOnce n
          have := List.count_pos_iff.mpr hmem
          omega
        constructor
        · intro m
          by_cases hm : m = n
          · subst hm; simp [List.count_erase_self, hcnt]
          · have := h.subsOnce m
            rw [List.count_erase_of_ne hm]; exact this
        · intro m hm
          have hm' : m ∈ s.subs := List.mem_of_mem_erase hm
          have hmn : m ≠ n := by
            intro e; subst e
            have : (s.subs.erase m).count m = 0 := by simp [List.count_erase_self, hcnt]
            exact absurd hm (List.count_eq_zero.mp this)
          obtain ⟨a, b, c, d⟩ := h.live m hm'
          refine ⟨a, b, ?_, ?_⟩
          · simp [owes, wOwes, hw] at c ⊢
            refine ⟨c, ?_⟩
            intro e; exact absurd e.symm hmn
          · split
            · simp [d, hmn]
            · exact d
        · intro m hm
          have hm0 : s.nextSub ≤ m := hm
          obtain ⟨a, b, c, d⟩ := h.fresh m hm0
          have hmn : m ≠ n := by omega
          refine ⟨fun x => a (List.mem_of_mem_erase x), b, ?_, ?_⟩
          · simp [owes, wOwes, hw] at c ⊢
            refine ⟨c, ?_⟩
            intro e; exact absurd e.symm hmn
          · split
            · simp [d, hmn]
            · exact d
        · intro m
          by_cases hm : m = n
          · subst hm
            simp [owes, wOwes, hw] at ho0 ⊢
            simp [cntU] at hc0 ⊢
            simp [hc0, ho0]
          · have := h.once m
            have hnm : ¬ n = m := fun e => hm e.symm
            simp [owes, wOwes, hw, cntU, hnm] at this ⊢
            exact this
        · intro m hm
          split at hm
          · rename_i hreg
            simp at hm
            rcases hm with hm | hm
            · have := h.ended m hm
              have hmn : m ≠ n := fun e => hne (e ▸ hm)
              have hnm : ¬ n = m := fun e => hmn e.symm
              simp [owes, wOwes, hw, cntU, hnm] at this ⊢
              exact this
            · subst hm
              simp [owes, wOwes, hw] at ho0 ⊢
              simp [cntU] at hc0 ⊢
              simp [hc0, ho0, hreg]
          · have := h.ended m hm
            have hmn : m ≠ n := fun e => hne (e ▸ hm)
            have hnm : ¬ n = m := fun e => hmn e.symm
            simp [owes, wOwes, hw, cntU, hnm] at this ⊢
            exact this
      · exact uinv_frame s _ h rfl rfl rfl (fun n => by simp [wOwes, hw]) rfl (fun _ => rfl) (fun x => x)
    · cases hs
  case wCb =>
    split at hs
    · rename_i p snap n hw
      cases hs
      have hnot : n ∉ s.subs := by
        intro hm
        have := (h.live n hm).2.2.1
        simp [owes, wOwes, hw] at this
      by_cases hr : s.registered = true
      · simp only [hr, if_true]
        constructor
        · exact h.subsOnce
        · intro m hm
          have hmn : m ≠ n := fun e => hnot (e ▸ hm)
          obtain ⟨a, b, c, d⟩ := h.live m hm
          have hnm : ¬ n = m := fun e => hmn e.symm
          refine ⟨a, ?_, ?_, d⟩
          · simp [cntU, count_unsub_append_self, hnm] at b ⊢; exact b
          · simp [owes, wOwes, hw, hnm] at c ⊢; exact c
        · intro m hm
          obtain ⟨a, b, c, d⟩ := h.fresh m hm
          have hmn : ¬ n = m := by
            intro e; subst e
            simp [owes, wOwes, hw] at c
          refine ⟨a, ?_, ?_, d⟩
          · simp [cntU, count_unsub_append_self, hmn] at b ⊢; exact b
          · simp [owes, wOwes, hw, hmn] at c ⊢; exact c
        · intro m
          have := h.once m
          by_cases hm : n = m
          · subst hm
            simp [owes, wOwes, hw, cntU, count_unsub_append_self] at this ⊢
            omega
          · simp [owes, wOwes, hw, cntU, count_unsub_append_self, hm] at this ⊢
            exact this
        · intro m hm
          obtain ⟨_, this⟩ := h.ended m hm
          refine ⟨rfl, ?_⟩
          by_cases hmn : n = m
          · subst hmn
            simp [owes, wOwes, hw, cntU, count_unsub_append_self] at this ⊢
            omega
          · simp [owes, wOwes, hw, cntU, count_unsub_append_self, hmn] at this ⊢
            exact this
      · -- not registered: the callback is nil; nothing is owed any more and nothing was promised
        simp only [hr, if_false]
        have hne : n ∉ s.endedReg := fun hm => hr (h.ended n hm).1
        constructor
        · exact h.subsOnce
        · intro m hm
          have hmn : m ≠ n := fun e => hnot (e ▸ hm)
          obtain ⟨a, b, c, d⟩ := h.live m hm
          have hnm : ¬ n = m := fun e => hmn e.symm
          refine ⟨a, b, ?_, d⟩
          simp [owes, wOwes, hw, hnm] at c ⊢; exact c
        · intro m hm
          obtain ⟨a, b, c, d⟩ := h.fresh m hm
          refine ⟨a, b, ?_, d⟩
          simp [owes, wOwes, hw] at c ⊢; exact c.1
        · intro m
          have := h.once m
          simp [owes, wOwes, hw, cntU] at this ⊢
          split at this <;> omega
        · intro m hm
          exact absurd (h.ended m hm).1 hr
    · cases hs
  case wDisc =>
    split at hs
    · rename_i p hw
      split at hs <;> cases hs
      · exact uinv_frame s _ h rfl rfl rfl (fun n => by simp [wOwes, hw]) rfl
          (fun n => count_unsub_append_other _ _ n (by simp)) (fun x => x)
      · exact uinv_frame s _ h rfl rfl rfl (fun n => by simp [wOwes, hw]) rfl (fun _ => rfl) (fun x => x)
    · cases hs
  case wDiscEnd =>
    split at hs
    · rename_i hw
      cases hs
      exact uinv_frame s _ h rfl rfl rfl (fun n => by simp [wOwes, hw]) rfl
        (fun n => count_unsub_append_other _ _ n (by simp)) (fun x => x)
    · cases hs
  case unsubRemove n =>
    split at hs <;> cases hs
    · rename_i hmem
      simp at hmem
      obtain ⟨hlt, hc0, ho0, hne⟩ := h.live n hmem
      have hcnt : s.subs.count n = 1 := by
        have := h.subsOnce n
        have := List.count_pos_iff.mpr hmem
        omega
      constructor
      · intro m
        by_cases hm : m = n
        · subst hm; simp [List.count_erase_self, hcnt]
        · have := h.subsOnce m
          rw [List.count_erase_of_ne hm]; exact this
      · intro m hm
        have hm' : m ∈ s.subs := List.mem_of_mem_erase hm
        have hmn : m ≠ n := by
          intro e; subst e
          have : (s.subs.erase m).count m = 0 := by simp [List.count_erase_self, hcnt]
          exact absurd hm (List.count_eq_zero.mp this)
        obtain ⟨a, b, c, d⟩ := h.live m hm'
        have hnm : ¬ n = m := fun e => hmn e.symm
        refine ⟨a, b, ?_, ?_⟩
        · simp [owes, List.count_append, hnm] at c ⊢; exact c
        · split
          · simp [d, hmn]
          · exact d
      · intro m hm
        have hm0 : s.nextSub ≤ m := hm
        obtain ⟨a, b, c, d⟩ := h.fresh m hm0
        have hmn : m ≠ n := by omega
        have hnm : ¬ n = m := fun e => hmn e.symm
        refine ⟨fun x => a (List.mem_of_mem_erase x), b, ?_, ?_⟩
        · simp [owes, List.count_append, hnm] at c ⊢; exact c
        · split
          · simp [d, hmn]
          · exact d
      · intro m
        by_cases hm : n = m
        · subst hm
          simp [owes, List.count_append] at ho0 ⊢
          simp [cntU] at hc0 ⊢
          simp [hc0, ho0]
        · have := h.once m
          simp [owes, List.count_append, cntU, hm] at this ⊢
          exact this
      · intro m hm
        split at hm
        · rename_i hreg
          simp at hm
          rcases hm with hm | hm
          · have := h.ended m hm
            have hmn : m ≠ n := fun e => hne (e ▸ hm)
            have hnm : ¬ n = m := fun e => hmn e.symm
            simp [owes, List.count_append, cntU, hnm] at this ⊢
            exact this
          · subst hm
            simp [owes, List.count_append] at ho0 ⊢
            simp [cntU] at hc0 ⊢
            simp [hc0, ho0, hreg]
        · have := h.ended m hm
          have hmn : m ≠ n := fun e => hne (e ▸ hm)
          have hnm : ¬ n = m := fun e => hmn e.symm
          simp [owes, List.count_append, cntU, hnm] at this ⊢
          exact this
    · exact h
  case unsubCb n =>
    split at hs <;> cases hs
    rename_i hmem
    simp at hmem
    have hpos : 0 < s.owing.count n := List.count_pos_iff.mpr hmem
    have hnot : n ∉ s.subs := by
      intro hm
      have := (h.live n hm).2.2.1
      simp [owes] at this
      omega
    have hcn : (s.owing.erase n).count n = s.owing.count n - 1 := List.count_erase_self
    have hco : ∀ m, m ≠ n → (s.owing.erase n).count m = s.owing.count m := fun m hm => List.count_erase_of_ne hm
    by_cases hr : s.registered = true
    · simp only [hr, if_true]
      constructor
      · exact h.subsOnce
      · intro m hm
        have hmn : m ≠ n := fun e => hnot (e ▸ hm)
        have hnm : ¬ n = m := fun e => hmn e.symm
        obtain ⟨a, b, c, d⟩ := h.live m hm
        refine ⟨a, ?_, ?_, d⟩
        · simp [cntU, count_unsub_append_self, hnm] at b ⊢; exact b
        · simp [owes, hco m hmn] at c ⊢; exact c
      · intro m hm
        obtain ⟨a, b, c, d⟩ := h.fresh m hm
        have hmn : m ≠ n := by
          intro e; subst e
          simp [owes] at c; omega
        have hnm : ¬ n = m := fun e => hmn e.symm
        refine ⟨a, ?_, ?_, d⟩
        · simp [cntU, count_unsub_append_self, hnm] at b ⊢; exact b
        · simp [owes, hco m hmn] at c ⊢; exact c
      · intro m
        have := h.once m
        by_cases hm : n = m
        · subst hm
          simp [owes, cntU, count_unsub_append_self, hcn] at this ⊢
          omega
        · have hmn : m ≠ n := fun e => hm e.symm
          simp [owes, cntU, count_unsub_append_self, hm, hco m hmn] at this ⊢
          exact this
      · intro m hm
        obtain ⟨_, this⟩ := h.ended m hm
        refine ⟨rfl, ?_⟩
        by_cases hmn : n = m
        · subst hmn
          simp [owes, cntU, count_unsub_append_self, hcn] at this ⊢
          omega
        · have hmn' : m ≠ n := fun e => hmn e.symm
          simp [owes, cntU, count_unsub_append_self, hmn, hco m hmn'] at this ⊢
          exact this
    · simp only [hr, if_false]
      constructor
      · exact h.subsOnce
      · intro m hm
        have hmn : m ≠ n := fun e => hnot (e ▸ hm)
        obtain ⟨a, b, c, d⟩ := h.live m hm
        refine ⟨a, b, ?_, d⟩
        simp [owes, hco m hmn] at c ⊢; exact c
      · intro m hm
        obtain ⟨a, b, c, d⟩ := h.fresh m hm
        have hmn : m ≠ n := by
          intro e; subst e
          simp [owes] at c; omega
        refine ⟨a, b, ?_, d⟩
        simp [owes, hco m hmn] at c ⊢; exact c
      · intro m
        have := h.once m
        by_cases hm : m = n
        · subst hm
          simp [owes, cntU, hcn] at this ⊢
          omega
        · simp [owes, cntU, hco m hm] at this ⊢
          exact this
      · intro m hm
        exact absurd (h.ended m hm).1 hr
  case tickAcquire =>
    split at hs
    · split at hs <;> cases hs
      · exact h
      · exact uinv_frame s _ h rfl rfl rfl (fun _ => rfl) rfl (fun _ => rfl) (fun x => x)
    · cases hs
  case tickAliveStart =>
    split at hs <;> cases hs
    exact uinv_frame s _ h rfl rfl rfl (fun _ => rfl) rfl
      (fun n => count_unsub_append_other _ _ n (by simp)) (fun x => x)
  case tickAliveEnd =>
    split at hs <;> cases hs
    exact uinv_frame s _ h rfl rfl rfl (fun _ => rfl) rfl
      (fun n => count_unsub_append_other _ _ n (by simp)) (fun x => x)
  case tickRelease =>
    split at hs <;> cases hs
    exact uinv_frame s _ h rfl rfl rfl (fun _ => rfl) rfl (fun _ => rfl) (fun x => x)
  case shutdownSnapshot =>
    split at hs <;> cases hs
    exact uinv_frame s _ h rfl rfl rfl (fun _ => rfl) rfl (fun _ => rfl) (fun x => x)
  case shutdownDone =>
    split at hs
    · split at hs <;> cases hs
      exact uinv_frame s _ h rfl rfl rfl (fun _ => rfl) rfl (fun _ => rfl) (fun x => x)
    · cases hs

theorem run_uinv : ∀ (ls : List Label) (s s' : St), UInv s → run s ls = some s' → UInv s'
  | [], s, s', h, hr => by simp [run] at hr; subst hr; exact h
  | l :: ls, s, s', h, hr => by
    simp only [run] at hr
    split at hr
    · rename_i s1 h1; exact run_uinv ls s1 s' (step_uinv s s1 l h h1) hr
    · cases hr

end CentrifugeVerif.Lifecycle
