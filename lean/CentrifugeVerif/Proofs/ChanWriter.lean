import CentrifugeVerif.Model.ChanWriter
/-!
Helper lemmas for C13 (`channelWriter`).
-/
namespace CentrifugeVerif.ChanWriter

theorem eraseKey_of_not_mem (k : Nat) (l : List CItem) (h : ∀ x ∈ l, x.key ≠ k) : eraseKey k l = l := by
  induction l with
  | nil => rfl
  | cons a l ih =>
    simp only [eraseKey]
    rw [if_neg (h a (by simp)), ih (fun x hx => h x (by simp [hx]))]

theorem mem_dedupLast {l : List CItem} {x : CItem} (h : x ∈ dedupLast l) : x ∈ l := by
  induction l with
  | nil => simp [dedupLast] at h
  | cons a l ih =>
    simp only [dedupLast] at h
    split at h
    · exact List.mem_cons_of_mem _ (ih h)
    · rcases List.mem_cons.mp h with h | h
      · simp [h]
      · exact List.mem_cons_of_mem _ (ih h)

/-- the Go update of `latestPubs` (drop the entry with the same key, append) computes the
specification `dedupLast` incrementally -/
theorem dedupLast_snoc (l : List CItem) (x : CItem) :
    dedupLast (l ++ [x]) = eraseKey x.key (dedupLast l) ++ [x] := by
  induction l with
  | nil => simp [dedupLast, eraseKey]
  | cons a l ih =>
    have e1 : dedupLast (a :: (l ++ [x])) =
        if (l ++ [x]).any (fun y => decide (y.key = a.key)) then dedupLast (l ++ [x])
        else a :: dedupLast (l ++ [x]) := rfl
    have e2 : dedupLast (a :: l) =
        if l.any (fun y => decide (y.key = a.key)) then dedupLast l else a :: dedupLast l := rfl
    rw [List.cons_append, e1, e2, ih, List.any_append]
    by_cases hA : l.any (fun y => decide (y.key = a.key)) = true
    · simp [hA]
    · by_cases hB : x.key = a.key
      · have hnone : ∀ y ∈ dedupLast l, y.key ≠ x.key := by
          intro y hy hyk
          apply hA
          simp only [List.any_eq_true, decide_eq_true_eq]
          exact ⟨y, mem_dedupLast hy, by rw [hyk, hB]⟩
        simp [hA, hB, eraseKey, eraseKey_of_not_mem _ _ (by simpa [hB] using hnone)]
      · have hB' : ¬ a.key = x.key := fun h => hB h.symm
        simp [hA, hB, hB', eraseKey]

theorem mem_eraseKey {k : Nat} {l : List CItem} {x : CItem} (h : x ∈ eraseKey k l) : x ∈ l := by
  induction l with
  | nil => simp [eraseKey] at h
  | cons a l ih =>
    simp only [eraseKey] at h
    split at h
    · exact List.mem_cons_of_mem _ h
    · rcases List.mem_cons.mp h with h | h
      · simp [h]
      · exact List.mem_cons_of_mem _ (ih h)

/-! ### what a flush emits -/

theorem flush_out (w : CW) :
    (w.flush.2 = none ∧ w.buffer = [] ∧ w.latestPubs = [] ∧ w.flush.1 = w) ∨
    (w.flush.2 = some (if w.latestOnly ∧ w.latestPubs ≠ [] then w.buffer ++ w.latestPubs else w.buffer) ∧
      w.flush.1 = { w with buffer := [], latestPubs := [] }) := by
  unfold CW.flush
  by_cases h : w.buffer.isEmpty ∧ w.latestPubs.isEmpty
  · left
    rw [if_pos h]
    exact ⟨rfl, List.isEmpty_iff.mp h.1, List.isEmpty_iff.mp h.2, rfl⟩
  · right
    rw [if_neg h]
    refine ⟨?_, rfl⟩
    simp only [Bool.not_eq_true', List.isEmpty_eq_false_iff]


/-! ### op classes -/

/-- ops of a channel that is always used with `FlushLatestPublication = false` and is never closed
without flush -/
def Op.plainMode : Op → Bool
  | .add _ c => !c.latest
  | .fire _ => true
  | .close f => f

/-- ops of a channel that is always used with `FlushLatestPublication = true` and is never closed
without flush -/
def Op.latestMode : Op → Bool
  | .add _ c => c.latest
  | .fire _ => true
  | .close f => f

def outItems (b : Option (List CItem)) : List CItem := b.getD []

theorem arm_frame (w : CW) (now : Nat) (c : BatchCfg) :
    (w.arm now c).buffer = w.buffer ∧ (w.arm now c).latestPubs = w.latestPubs ∧
      (w.arm now c).latestOnly = w.latestOnly := by
  unfold CW.arm; split <;> simp

theorem record_plain (w : CW) (x : CItem) (c : BatchCfg) (hc : c.latest = false) :
    (w.record x c).buffer = w.buffer ++ [x] ∧ (w.record x c).latestPubs = w.latestPubs := by
  simp [CW.record, hc]

theorem step_plain (w : CW) (hl : w.latestPubs = []) (op : Op) (hop : op.plainMode = true) :
    outItems (w.step 0 op).2 ++ (w.step 0 op).1.buffer = w.buffer ++ adds [op] ∧
      (w.step 0 op).1.latestPubs = [] := by
  cases op with
  | add x c =>
    simp only [Op.plainMode, Bool.not_eq_true'] at hop
    have hr := record_plain w x c hop
    have ha := arm_frame (w.record x c) 0 c
    simp only [CW.step, CW.add, adds]
    generalize hw3 : (w.record x c).arm 0 c = w3 at ha
    have hb3 : w3.buffer = w.buffer ++ [x] := by rw [ha.1, hr.1]
    have hl3 : w3.latestPubs = [] := by rw [ha.2.1, hr.2, hl]
    split
    · rcases flush_out w3.stopTimer with ⟨h1, h2, _, _⟩ | ⟨h1, h2⟩
      · exfalso; simp [CW.stopTimer, hb3] at h2
      · rw [h1, h2]
        simp [CW.stopTimer, outItems, hl3, hb3]
    · simp [outItems, hb3, hl3]
  | fire id =>
    simp only [CW.step, CW.fire, adds, List.append_nil]
    split
    · rcases flush_out w with ⟨h1, h2, h3, h4⟩ | ⟨h1, h2⟩
      · rw [h1, h4]; simp [outItems, hl]
      · rw [h1, h2]; simp [outItems, hl]
    · simp [outItems, hl]
  | close f =>
    simp only [Op.plainMode] at hop
    subst hop
    simp only [CW.step, CW.close, if_true, adds, List.append_nil]
    rcases flush_out w.stopTimer with ⟨h1, h2, h3, h4⟩ | ⟨h1, h2⟩
    · rw [h1]; simp only [CW.stopTimer] at h2; simp [outItems, h2]
    · rw [h1]; simp [outItems, CW.stopTimer, hl]

theorem adds_cons (op : Op) (ops : List Op) : adds (op :: ops) = adds [op] ++ adds ops := by
  cases op <;> simp [adds]

theorem run_plain (w : CW) (hl : w.latestPubs = []) (ops : List Op) (hops : ∀ op ∈ ops, op.plainMode = true) :
    (w.run ops).2.flatten ++ (w.run ops).1.buffer = w.buffer ++ adds ops ∧ (w.run ops).1.latestPubs = [] := by
  induction ops generalizing w with
  | nil => simp [CW.run, adds, hl]
  | cons op ops ih =>
    have hs := step_plain w hl op (hops op (by simp))
    have := ih (w.step 0 op).1 hs.2 (fun o ho => hops o (by simp [ho]))
    simp only [CW.run]
    refine ⟨?_, this.2⟩
    rw [adds_cons, ← List.append_assoc, ← hs.1]
    cases hb : (w.step 0 op).2 with
    | none => simp only [outItems, hb, Option.getD_none, List.nil_append]; exact this.1
    | some b =>
      simp only [outItems, hb, Option.getD_some, List.flatten_cons, List.append_assoc]
      rw [this.1]

/-! ### latest-publication mode -/

/-- the state holds exactly the coalesced form of what was added since the last flush -/
def Coalesced (w : CW) (pending : List CItem) : Prop :=
  w.buffer = pending.filter (·.frame ≠ .pub) ∧ w.latestPubs = dedupLast (pending.filter (·.frame = .pub))

/-- the items pending after an op that did not flush: a close drops them -/
def nextPending (op : Op) (pending : List CItem) : List CItem :=
  match op with
  | .close _ => []
  | _ => pending ++ adds [op]

/-- run instrumented with the items added since the last flush: emits (batch, pending-at-flush) -/
def CW.runP (w : CW) (pending : List CItem) : List Op → List (List CItem × List CItem)
  | [] => []
  | op :: ops =>
    let pending1 := pending ++ adds [op]
    match (w.step 0 op).2 with
    | some batch => (batch, pending1) :: CW.runP (w.step 0 op).1 [] ops
    | none => CW.runP (w.step 0 op).1 (nextPending op pending) ops

theorem runP_fst (w : CW) (pending : List CItem) (ops : List Op) :
    (w.runP pending ops).map Prod.fst = (w.run ops).2 := by
  induction ops generalizing w pending with
  | nil => rfl
  | cons op ops ih =>
    simp only [CW.runP, CW.run]
    cases hb : (w.step 0 op).2 with
    | some b => simp [ih]
    | none => simp [ih]

theorem coalesced_flush {w : CW} {pending : List CItem} (hc : Coalesced w pending) (hlo : w.latestOnly = true) :
    (w.flush.2 = none ∧ pending = [] ∧ w.flush.1 = w) ∨
    (w.flush.2 = some (coalesce pending) ∧ Coalesced w.flush.1 [] ∧ w.flush.1.latestOnly = true ∧
      w.flush.1.timer = w.timer ∧ w.flush.1.nextId = w.nextId) := by
  rcases flush_out w with ⟨h1, h2, h3, h4⟩ | ⟨h1, h2⟩
  · left
    refine ⟨h1, ?_, h4⟩
    have e1 := hc.1; have e2 := hc.2
    rw [h2] at e1; rw [h3] at e2
    -- nothing is buffered, so nothing was pending
    have hnp : pending.filter (·.frame ≠ .pub) = [] := e1.symm
    have hp : pending.filter (·.frame = .pub) = [] := by
      cases hf : pending.filter (·.frame = .pub) with
      | nil => rfl
      | cons a l =>
        rw [hf] at e2
        exfalso
        -- the last element of a non-empty list survives dedupLast
        have : ∀ (l : List CItem), l ≠ [] → dedupLast l ≠ [] := by
          intro l
          induction l with
          | nil => intro h; exact absurd rfl h
          | cons b t ih =>
            intro _
            simp only [dedupLast]
            split
            · rename_i hany
              apply ih
              intro ht; subst ht; simp at hany
            · simp
        exact this _ (by simp) e2.symm
    apply List.eq_nil_iff_forall_not_mem.mpr
    intro x hx
    by_cases hxp : x.frame = .pub
    · have : x ∈ pending.filter (·.frame = .pub) := by simp [List.mem_filter, hx, hxp]
      rw [hp] at this; cases this
    · have : x ∈ pending.filter (·.frame ≠ .pub) := by simp [List.mem_filter, hx, hxp]
      rw [hnp] at this; cases this
  · right
    rw [h1, h2]
    refine ⟨?_, ⟨rfl, rfl⟩, hlo, rfl, rfl⟩
    congr 1
    rw [hc.1, hc.2]
    unfold coalesce
    by_cases hlp : dedupLast (pending.filter (·.frame = .pub)) = []
    · simp [hlo, hlp]
    · simp [hlo, hlp]

theorem coalesced_record {w : CW} {pending : List CItem} (hc : Coalesced w pending) (x : CItem) (c : BatchCfg)
    (hl : c.latest = true) : Coalesced (w.record x c) (pending ++ [x]) ∧ (w.record x c).latestOnly = true := by
  unfold CW.record
  by_cases hx : x.frame = .pub
  · simp only [hl, hx, and_self, if_true, Coalesced, List.filter_append]
    refine ⟨⟨by simp [hx, hc.1], ?_⟩, trivial⟩
    simp only [List.filter_cons, hx, decide_true, if_true, List.filter_nil]
    rw [dedupLast_snoc, hc.2]
  · simp only [hl, hx, and_false, if_false, Coalesced, List.filter_append]
    exact ⟨⟨by simp [hx, hc.1], by simp [hx, hc.2]⟩, trivial⟩

/-- invariant of a channel writer used in latest-publication mode -/
def LInv (w : CW) (pending : List CItem) : Prop :=
  Coalesced w pending ∧ (w.latestOnly = true ∨ pending = [])

theorem linv_flush {w : CW} {pending : List CItem} (h : LInv w pending) :
    (w.flush.2 = none ∧ pending = [] ∧ w.flush.1 = w) ∨
    (w.flush.2 = some (coalesce pending) ∧ LInv w.flush.1 []) := by
  rcases h.2 with hlo | hp
  · rcases coalesced_flush h.1 hlo with h1 | ⟨h1, h2, h3, _, _⟩
    · exact Or.inl h1
    · exact Or.inr ⟨h1, h2, Or.inl h3⟩
  · left
    have hb : w.buffer = [] := by rw [h.1.1, hp]; rfl
    have hl : w.latestPubs = [] := by rw [h.1.2, hp]; rfl
    rcases flush_out w with ⟨h1, _, _, h4⟩ | ⟨h1, h2⟩
    · exact ⟨h1, hp, h4⟩
    · exfalso
      unfold CW.flush at h1
      simp [hb, hl] at h1

theorem linv_frame {w w' : CW} {pending : List CItem} (h : LInv w pending) (hb : w'.buffer = w.buffer)
    (hl : w'.latestPubs = w.latestPubs) (hlo : w'.latestOnly = w.latestOnly) : LInv w' pending := by
  unfold LInv Coalesced at *
  rw [hb, hl, hlo]; exact h

theorem linv_reset {w : CW} (hlo : w.latestOnly = true ∨ True) :
    LInv { w with buffer := [], latestPubs := [] } [] := by
  exact ⟨⟨rfl, rfl⟩, Or.inr rfl⟩

theorem step_latest (w : CW) (pending : List CItem) (h : LInv w pending) (op : Op) (hop : op.latestMode = true) :
    (∀ b, (w.step 0 op).2 = some b → b = coalesce (pending ++ adds [op]) ∧ LInv (w.step 0 op).1 []) ∧
    ((w.step 0 op).2 = none → LInv (w.step 0 op).1 (nextPending op pending)) := by
  cases op with
  | add x c =>
    simp only [Op.latestMode] at hop
    have hr := coalesced_record h.1 x c hop
    have ha := arm_frame (w.record x c) 0 c
    simp only [CW.step, CW.add, adds, nextPending]
    generalize hw3 : (w.record x c).arm 0 c = w3 at ha
    have hI3 : LInv w3 (pending ++ [x]) :=
      linv_frame (w := w.record x c) ⟨hr.1, Or.inl hr.2⟩ ha.1 ha.2.1 ha.2.2
    split
    · have hI3' : LInv w3.stopTimer (pending ++ [x]) := linv_frame hI3 rfl rfl rfl
      rcases linv_flush hI3' with ⟨h1, hp, _⟩ | ⟨h1, h2⟩
      · simp at hp
      · rw [h1]
        exact ⟨fun b hb => (by cases hb; exact ⟨rfl, h2⟩), fun hb => (by cases hb)⟩
    · exact ⟨fun b hb => (by cases hb), fun _ => hI3⟩
  | fire id =>
    simp only [CW.step, CW.fire, adds, List.append_nil, nextPending]
    split
    · rcases linv_flush h with ⟨h1, hp, h4⟩ | ⟨h1, h2⟩
      · rw [h1, h4]
        exact ⟨fun b hb => (by cases hb), fun _ => linv_frame h rfl rfl rfl⟩
      · rw [h1]
        exact ⟨fun b hb => (by cases hb; exact ⟨rfl, linv_frame h2 rfl rfl rfl⟩), fun hb => (by cases hb)⟩
    · exact ⟨fun b hb => (by cases hb), fun _ => h⟩
  | close f =>
    simp only [Op.latestMode] at hop
    subst hop
    simp only [CW.step, CW.close, if_true, adds, List.append_nil, nextPending]
    have h' : LInv w.stopTimer pending := linv_frame h rfl rfl rfl
    rcases linv_flush h' with ⟨h1, hp, h4⟩ | ⟨h1, h2⟩
    · rw [h1]
      exact ⟨fun b hb => (by cases hb), fun _ => linv_reset (Or.inr trivial)⟩
    · rw [h1]
      exact ⟨fun b hb => (by cases hb; exact ⟨rfl, linv_reset (Or.inr trivial)⟩), fun hb => (by cases hb)⟩

theorem runP_latest (w : CW) (pending : List CItem) (h : LInv w pending) (ops : List Op)
    (hops : ∀ op ∈ ops, op.latestMode = true) :
    ∀ p ∈ w.runP pending ops, p.1 = coalesce p.2 := by
  induction ops generalizing w pending with
  | nil => simp [CW.runP]
  | cons op ops ih =>
    have hs := step_latest w pending h op (hops op (by simp))
    simp only [CW.runP]
    cases hb : (w.step 0 op).2 with
    | some b =>
      have hs1 := hs.1 b hb
      simp only [List.mem_cons]
      rintro p (rfl | hp)
      · exact hs1.1
      · exact ih _ _ hs1.2 (fun o ho => hops o (by simp [ho])) p hp
    | none =>
      exact ih _ _ (hs.2 hb) (fun o ho => hops o (by simp [ho]))

/-! ### nothing comes out of thin air, nothing survives a close without flush -/

theorem mem_flush {w : CW} {b : List CItem} (h : w.flush.2 = some b) {x : CItem} (hx : x ∈ b) :
    x ∈ w.buffer ∨ x ∈ w.latestPubs := by
  rcases flush_out w with ⟨h1, _⟩ | ⟨h1, _⟩
  · rw [h1] at h; cases h
  · rw [h1] at h
    simp only [Option.some.injEq] at h
    subst h
    split at hx
    · exact List.mem_append.mp hx
    · exact Or.inl hx

theorem flush_state (w : CW) :
    (∀ x, x ∈ w.flush.1.buffer → x ∈ w.buffer) ∧ (∀ x, x ∈ w.flush.1.latestPubs → x ∈ w.latestPubs) := by
  rcases flush_out w with ⟨_, _, _, h4⟩ | ⟨_, h2⟩
  · rw [h4]; exact ⟨fun _ h => h, fun _ h => h⟩
  · rw [h2]; exact ⟨fun _ h => by simp at h, fun _ h => by simp at h⟩

theorem record_mem (w : CW) (x : CItem) (c : BatchCfg) (y : CItem)
    (hy : y ∈ (w.record x c).buffer ∨ y ∈ (w.record x c).latestPubs) :
    y ∈ w.buffer ∨ y ∈ w.latestPubs ∨ y = x := by
  unfold CW.record at hy
  split at hy
  · rcases hy with hy | hy
    · exact Or.inl hy
    · rcases List.mem_append.mp hy with hy | hy
      · exact Or.inr (Or.inl (mem_eraseKey hy))
      · exact Or.inr (Or.inr (by simpa using hy))
  · rcases hy with hy | hy
    · rcases List.mem_append.mp hy with hy | hy
      · exact Or.inl hy
      · exact Or.inr (Or.inr (by simpa using hy))
    · exact Or.inr (Or.inl hy)

/-- every item of a step's output, and every item held afterwards, was held before or is the added one -/
theorem step_mem (w : CW) (op : Op) :
    (∀ b, (w.step 0 op).2 = some b → ∀ x ∈ b, x ∈ w.buffer ∨ x ∈ w.latestPubs ∨ x ∈ adds [op]) ∧
    (∀ x, (x ∈ (w.step 0 op).1.buffer ∨ x ∈ (w.step 0 op).1.latestPubs) →
      x ∈ w.buffer ∨ x ∈ w.latestPubs ∨ x ∈ adds [op]) := by
  cases op with
  | add x c =>
    simp only [CW.step, CW.add, adds, List.mem_singleton]
    have ha := arm_frame (w.record x c) 0 c
    generalize hw3 : (w.record x c).arm 0 c = w3 at ha
    have h3 : ∀ y, (y ∈ w3.buffer ∨ y ∈ w3.latestPubs) → y ∈ w.buffer ∨ y ∈ w.latestPubs ∨ y = x := by
      intro y hy; rw [ha.1, ha.2.1] at hy; exact record_mem w x c y hy
    split
    · refine ⟨fun b hb y hy => ?_, fun y hy => ?_⟩
      · exact h3 y (mem_flush (w := w3.stopTimer) hb hy)
      · have := flush_state w3.stopTimer
        rcases hy with hy | hy
        · exact h3 y (Or.inl (this.1 y hy))
        · exact h3 y (Or.inr (this.2 y hy))
    · exact ⟨fun b hb => (by cases hb), h3⟩
  | fire id =>
    simp only [CW.step, CW.fire, adds, List.not_mem_nil, or_false]
    split
    · refine ⟨fun b hb y hy => mem_flush (w := w) hb hy, fun y hy => ?_⟩
      have := flush_state w
      rcases hy with hy | hy
      · exact Or.inl (this.1 y hy)
      · exact Or.inr (this.2 y hy)
    · exact ⟨fun b hb => (by cases hb), fun y hy => hy⟩
  | close f =>
    simp only [CW.step, CW.close, adds, List.not_mem_nil, or_false]
    refine ⟨fun b hb y hy => ?_, fun y hy => by simp at hy⟩
    cases f with
    | true => simp only [if_true] at hb; exact mem_flush (w := w.stopTimer) hb hy
    | false => simp at hb

theorem run_mem (w : CW) (ops : List Op) :
    ∀ b ∈ (w.run ops).2, ∀ x ∈ b, x ∈ w.buffer ∨ x ∈ w.latestPubs ∨ x ∈ adds ops := by
  induction ops generalizing w with
  | nil => simp [CW.run]
  | cons op ops ih =>
    have hs := step_mem w op
    intro b hb x hx
    simp only [CW.run] at hb
    rw [adds_cons]
    have hrest : ∀ b ∈ ((w.step 0 op).1.run ops).2, ∀ x ∈ b,
        x ∈ w.buffer ∨ x ∈ w.latestPubs ∨ x ∈ adds [op] ++ adds ops := by
      intro b hb x hx
      rcases ih _ b hb x hx with h | h | h
      · rcases hs.2 x (Or.inl h) with h | h | h
        · exact Or.inl h
        · exact Or.inr (Or.inl h)
        · exact Or.inr (Or.inr (List.mem_append_left _ h))
      · rcases hs.2 x (Or.inr h) with h | h | h
        · exact Or.inl h
        · exact Or.inr (Or.inl h)
        · exact Or.inr (Or.inr (List.mem_append_left _ h))
      · exact Or.inr (Or.inr (List.mem_append_right _ h))
    cases hb2 : (w.step 0 op).2 with
    | none => rw [hb2] at hb; exact hrest b hb x hx
    | some b0 =>
      rw [hb2] at hb
      rcases List.mem_cons.mp hb with rfl | hb
      · rcases hs.1 b hb2 x hx with h | h | h
        · exact Or.inl h
        · exact Or.inr (Or.inl h)
        · exact Or.inr (Or.inr (List.mem_append_left _ h))
      · exact hrest b hb x hx

end CentrifugeVerif.ChanWriter
