import CentrifugeVerif.Model.WS.Writer
/-! Lemmas about masking (`xorMask`, the word-at-a-time `maskWordsGo`). -/
namespace CentrifugeVerif.WS

theorem Key.get_add_four (k : Key) (i : Nat) : k.get (i + 4) = k.get i := by
  unfold Key.get; rw [Nat.add_mod_right]

theorem Key.get_mod (k : Key) (i : Nat) : k.get (i % 4) = k.get i := by
  unfold Key.get; rw [Nat.mod_mod]

theorem Key.get_congr (k : Key) {i j : Nat} (h : i % 4 = j % 4) : k.get i = k.get j := by
  unfold Key.get; rw [h]

theorem xorMask_length (k : Key) (pos : Nat) (bs : Bytes) : (xorMask k pos bs).length = bs.length := by
  induction bs generalizing pos with
  | nil => rfl
  | cons b bs ih => simp [xorMask, ih]

theorem xorMask_congr (k : Key) {p q : Nat} (h : p % 4 = q % 4) (bs : Bytes) :
    xorMask k p bs = xorMask k q bs := by
  induction bs generalizing p q with
  | nil => rfl
  | cons b bs ih =>
    simp only [xorMask]
    rw [Key.get_congr k h, ih (p := p + 1) (q := q + 1) (by omega)]

theorem xorMask_append (k : Key) (pos : Nat) (a b : Bytes) :
    xorMask k pos (a ++ b) = xorMask k pos a ++ xorMask k (pos + a.length) b := by
  induction a generalizing pos with
  | nil => simp [xorMask]
  | cons x xs ih =>
    simp only [List.cons_append, xorMask, List.length_cons]
    rw [ih]
    have : pos + 1 + xs.length = pos + (xs.length + 1) := by omega
    rw [this]

theorem xorMask_involutive (k : Key) (pos : Nat) (bs : Bytes) :
    xorMask k pos (xorMask k pos bs) = bs := by
  induction bs generalizing pos with
  | nil => rfl
  | cons b bs ih =>
    simp only [xorMask, ih]
    congr 1
    rw [UInt8.xor_assoc, UInt8.xor_self, UInt8.xor_zero]

theorem xorMask_take (k : Key) (pos n : Nat) (bs : Bytes) :
    (xorMask k pos bs).take n = xorMask k pos (bs.take n) := by
  induction bs generalizing pos n with
  | nil => simp [xorMask]
  | cons b bs ih =>
    cases n with
    | zero => simp [xorMask]
    | succ n => simp [xorMask, ih]

theorem xorMask_drop (k : Key) (pos n : Nat) (bs : Bytes) :
    (xorMask k pos bs).drop n = xorMask k (pos + n) (bs.drop n) := by
  induction bs generalizing pos n with
  | nil => simp [xorMask]
  | cons b bs ih =>
    cases n with
    | zero => simp
    | succ n =>
      simp only [xorMask, List.drop_succ_cons, ih]
      congr 1
      omega

/-- masking with the rotated key `⟨k[p], k[p+1], k[p+2], k[p+3]⟩` from position 0 is masking with
`k` from position `p` (the "aligned word size key" of mask.go) -/
theorem xorMask_rotated (k : Key) (p q : Nat) (bs : Bytes) :
    xorMask ⟨k.get p, k.get (p + 1), k.get (p + 2), k.get (p + 3)⟩ q bs = xorMask k (p + q) bs := by
  induction bs generalizing q with
  | nil => rfl
  | cons b bs ih =>
    simp only [xorMask]
    rw [ih (q + 1)]
    have hk : (⟨k.get p, k.get (p + 1), k.get (p + 2), k.get (p + 3)⟩ : Key).get q = k.get (p + q) := by
      have hq : q % 4 < 4 := Nat.mod_lt _ (by omega)
      have h4 : k.get (p + q) = k.get (p + q % 4) := Key.get_congr k (by omega)
      rw [h4]
      generalize hr : q % 4 = r at hq
      have : r = 0 ∨ r = 1 ∨ r = 2 ∨ r = 3 := by omega
      rcases this with h | h | h | h <;> subst h <;> simp [Key.get, hr]
    rw [hk]
    congr 2

end CentrifugeVerif.WS
