import CentrifugeVerif.Model.Decimal
/-!
Exact-comparison specification for decimals and the proof that the model of `Decimal.Cmp`
(sign analysis + rescaling to the larger precision) agrees with it.
-/
namespace CentrifugeVerif.Decimal

/-- the numerator of `d` over the common denominator `10^(d.prec + k)`, i.e. `d · 10^(d.prec+k)` -/
def Dec.num (d : Dec) (k : Nat) : Int :=
  if d.neg then -((d.coef * 10 ^ k : Nat) : Int) else ((d.coef * 10 ^ k : Nat) : Int)

/-- `d < e` as rational numbers `±coef / 10^prec` (cross-multiplied, denominators are positive) -/
def exactLt (d e : Dec) : Prop := d.num e.prec < e.num d.prec
/-- `d ≤ e` as rational numbers -/
def exactLe (d e : Dec) : Prop := d.num e.prec ≤ e.num d.prec

instance (d e : Dec) : Decidable (exactLt d e) := by unfold exactLt; infer_instance
instance (d e : Dec) : Decidable (exactLe d e) := by unfold exactLe; infer_instance

/-- no negative zero -/
def Dec.Norm (d : Dec) : Prop := d.neg = true → d.coef ≠ 0

theorem mkDec_norm (neg : Bool) (c p : Nat) : (mkDec neg c p).Norm := by
  unfold mkDec Dec.Norm
  split
  · intro h; cases h
  · next h => intro _; exact h

/-- everything `Parse` returns is normalised -/
theorem parse_norm {s : Str} {d : Dec} (h : parse s = some d) : d.Norm := by
  unfold parse at h
  simp only at h
  repeat' split at h
  all_goals first
    | (cases h; exact mkDec_norm _ _ _)
    | cases h

theorem cmpNat_lt (a b : Nat) : cmpNat a b < 0 ↔ a < b := by unfold cmpNat; split <;> (try split) <;> omega
theorem cmpNat_le (a b : Nat) : cmpNat a b ≤ 0 ↔ a ≤ b := by unfold cmpNat; split <;> (try split) <;> omega
theorem cmpNat_gt (a b : Nat) : cmpNat a b > 0 ↔ b < a := by unfold cmpNat; split <;> (try split) <;> omega
theorem cmpNat_ge (a b : Nat) : cmpNat a b ≥ 0 ↔ b ≤ a := by unfold cmpNat; split <;> (try split) <;> omega

theorem cmpNat_mul_right (a b k : Nat) (hk : 0 < k) : cmpNat (a * k) (b * k) = cmpNat a b := by
  unfold cmpNat
  have h1 : a * k < b * k ↔ a < b := Nat.mul_lt_mul_right hk
  have h2 : a * k > b * k ↔ a > b := Nat.mul_lt_mul_right hk
  simp only [h1, h2]

theorem cmpNat_neg (a b : Nat) : -(cmpNat a b) = cmpNat b a := by
  unfold cmpNat
  split <;> split <;> simp <;> omega

theorem pow10_pos (k : Nat) : 0 < 10 ^ k := Nat.pow_pos (by omega)

/-- rescaling to the larger precision = cross-multiplying with both denominators -/
theorem cmpSameSign_eq (d e : Dec) :
    cmpSameSign d e = cmpNat (d.coef * 10 ^ e.prec) (e.coef * 10 ^ d.prec) := by
  unfold cmpSameSign
  split
  · next h => rw [h, cmpNat_mul_right _ _ _ (pow10_pos _)]
  · split
    · next h1 h2 =>
      have : 10 ^ e.prec = 10 ^ (e.prec - d.prec) * 10 ^ d.prec := by
        rw [← Nat.pow_add]; congr 1; omega
      rw [this, ← Nat.mul_assoc, cmpNat_mul_right _ _ _ (pow10_pos _)]
    · next h1 h2 =>
      have : 10 ^ d.prec = 10 ^ (d.prec - e.prec) * 10 ^ e.prec := by
        rw [← Nat.pow_add]; congr 1; omega
      rw [cmpNat_neg, this, ← Nat.mul_assoc, cmpNat_mul_right _ _ _ (pow10_pos _)]

/-- **`Cmp` is exact**: on normalised decimals the sign of `cmp d e` is the order of the two
rational numbers. -/
theorem cmp_exact (d e : Dec) (hd : d.Norm) (he : e.Norm) :
    (cmp d e < 0 ↔ exactLt d e) ∧ (cmp d e ≤ 0 ↔ exactLe d e) ∧
    (cmp d e > 0 ↔ exactLt e d) ∧ (cmp d e ≥ 0 ↔ exactLe e d) := by
  unfold cmp exactLt exactLe Dec.num
  rw [cmpSameSign_eq]
  have hposA : d.neg = true → 0 < d.coef * 10 ^ e.prec :=
    fun h => Nat.mul_pos (Nat.pos_of_ne_zero (hd h)) (pow10_pos _)
  have hposB : e.neg = true → 0 < e.coef * 10 ^ d.prec :=
    fun h => Nat.mul_pos (Nat.pos_of_ne_zero (he h)) (pow10_pos _)
  generalize d.coef * 10 ^ e.prec = A at *
  generalize e.coef * 10 ^ d.prec = B at *
  have h1 := cmpNat_lt A B
  have h2 := cmpNat_le A B
  have h3 := cmpNat_gt A B
  have h4 := cmpNat_ge A B
  generalize cmpNat A B = c at *
  cases hdn : d.neg <;> cases hen : e.neg <;> simp only [hdn, hen] at hposA hposB ⊢ <;> simp
  · omega
  · have := hposB trivial; omega
  · have := hposA trivial; omega
  · omega

end CentrifugeVerif.Decimal
