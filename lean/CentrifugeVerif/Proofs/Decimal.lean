import CentrifugeVerif.Model.Decimal
/-!
Exact-comparison specification for decimals and the proof that the model of `Decimal.Cmp`
(sign analysis + rescaling to the larger precision) agrees with it.
-/
namespace CentrifugeVerif.Decimal

/-- the numerator of `d` over the common denominator `10^(d.prec + k)`, i.e. `d · 10^(d.prec+k)` -/
def Dec.num (d : Dec) (k : Nat) : Int :=
  if d.neg then -((d.coef * 10 ^ k : Nat) : Int) else ((d.coef * 10 ^ k : Nat) : Int)

/-- `d < e` as rational numbers `±coef / 10^prec` (cross-multiplied, denominators are positive) -/
def exactLt (d e : Dec) : Prop := d.num e.prec < e.num d.prec
/-- `d ≤ e` as rational numbers -/
def exactLe (d e : Dec) : Prop := d.num e.prec ≤ e.num d.prec

instance (d e : Dec) : Decidable (exactLt d e) := by unfold exactLt; infer_instance
instance (d e : Dec) : Decidable (exactLe d e) := by unfold exactLe; infer_instance

/-- no negative zero -/
def Dec.Norm (d : Dec) : Prop := d.neg = true → d.coef ≠ 0

theorem mkDec_norm (neg : Bool) (c p : Nat) : (mkDec neg c p).Norm := by
  unfold mkDec Dec.Norm
  split
  · intro h; cases h
  · next h => intro _; exact h

/-- everything `Parse` returns is normalised -/
theorem parse_norm {s : Str} {d : Dec} (h : parse s = some d) : d.Norm := by
  unfold parse at h
  simp only at h
  repeat' split at h
  all_goals first
    | (cases h; exact mkDec_norm _ _ _)
    | cases h

theorem cmpNat_lt (a b : Nat) : cmpNat a b < 0 ↔ a < b := by unfold cmpNat; split <;> (try split) <;> omega
theorem cmpNat_le (a b : Nat) : cmpNat a b ≤ 0 ↔ a ≤ b := by unfold cmpNat; split <;> (try split) <;> omega
theorem cmpNat_gt (a b : Nat) : cmpNat a b > 0 ↔ b < a := by unfold cmpNat; split <;> (try split) <;> omega
theorem cmpNat_ge (a b : Nat) : cmpNat a b ≥ 0 ↔ b ≤ a := by unfold cmpNat; split <;> (try split) <;> omega

theorem cmpNat_mul_right (a b k : Nat) (hk : 0 < k) : cmpNat (a * k) (b * k) = cmpNat a b := by
  unfold cmpNat
  have h1 : a * k < b * k ↔ a < b := Nat.mul_lt_mul_right hk
  have h2 : a * k > b * k ↔ a > b := Nat.mul_lt_mul_right hk
  simp only [h1, h2]

theorem cmpNat_neg (a b : Nat) : -(cmpNat a b) = cmpNat b a := by
  unfold cmpNat
  split <;> split <;> simp <;> omega

theorem pow10_pos (k : Nat) : 0 < 10 ^ k := Nat.pow_pos (by omega)

/-- rescaling to the larger precision = cross-multiplying with both denominators -/
theorem cmpSameSign_eq (d e : Dec) :
    cmpSameSign d e = cmpNat (d.coef * 10 ^ e.prec) (e.coef * 10 ^ d.prec) := by
  unfold cmpSameSign
  split
  · next h => rw [h, cmpNat_mul_right _ _ _ (pow10_pos _)]
  · split
    · next h1 h2 =>
      have : 10 ^ e.prec = 10 ^ (e.prec - d.prec) * 10 ^ d.prec := by
        rw [← Nat.pow_add]; congr 1; omega
      rw [this, ← Nat.mul_assoc, cmpNat_mul_right _ _ _ (pow10_pos _)]
    · next h1 h2 =>
      have : 10 ^ d.prec = 10 ^ (d.prec - e.prec) * 10 ^ e.prec := by
        rw [← Nat.pow_add]; congr 1; omega
      rw [cmpNat_neg, this, ← Nat.mul_assoc, cmpNat_mul_right _ _ _ (pow10_pos _)]

/-- **`Cmp` is exact**: on normalised decimals the sign of `cmp d e` is the order of the two
rational numbers. -/
theorem cmp_exact (d e : Dec) (hd : d.Norm) (he : e.Norm) :
    (cmp d e < 0 ↔ exactLt d e) ∧ (cmp d e ≤ 0 ↔ exactLe d e) ∧
    (cmp d e > 0 ↔ exactLt e d) ∧ (cmp d e ≥ 0 ↔ exactLe e d) := by
  unfold cmp exactLt exactLe Dec.num
  rw [cmpSameSign_eq]
  have hposA : d.neg = true → 0 < d.coef * 10 ^ e.prec :=
    fun h => Nat.mul_pos (Nat.pos_of_ne_zero (hd h)) (pow10_pos _)
  have hposB : e.neg = true → 0 < e.coef * 10 ^ d.prec :=
    fun h => Nat.mul_pos (Nat.pos_of_ne_zero (he h)) (pow10_pos _)
  generalize d.coef * 10 ^ e.prec = A at *
  generalize e.coef * 10 ^ d.prec = B at *
  have h1 := cmpNat_lt A B
  have h2 := cmpNat_le A B
  have h3 := cmpNat_gt A B
  have h4 := cmpNat_ge A B
  generalize cmpNat A B = c at *
  cases hdn : d.neg <;> cases hen : e.neg <;> simp only [hdn, hen] at hposA hposB ⊢ <;> simp
  · omega
  · have := hposB trivial; omega
  · have := hposA trivial; omega
  · omega

/-! ## accepted grammar and value of short numerals (the u64 path of `Parse`) -/

/-- every byte is an ASCII digit -/
def AllDigits (ds : Str) : Prop := ∀ c ∈ ds, isDigit c = true

instance (ds : Str) : Decidable (AllDigits ds) := by unfold AllDigits; infer_instance

/-- the natural number a digit string denotes, continuing from `acc` -/
def natValFrom (acc : Nat) (ds : Str) : Nat := ds.foldl (fun a c => a * 10 + digitVal c) acc
/-- the natural number a digit string denotes -/
def natVal (ds : Str) : Nat := natValFrom 0 ds

theorem isDigit_ne_dot {c : UInt8} (h : isDigit c = true) : c ≠ cDot ∧ c ≠ cMinus ∧ c ≠ cPlus := by
  unfold isDigit at h
  simp only [Bool.and_eq_true, decide_eq_true_eq] at h
  refine ⟨?_, ?_, ?_⟩ <;> (intro hc; subst hc; revert h; decide)

theorem parseSmall_digits (ds rest : Str) (coef prec : Nat) (h : AllDigits ds) :
    parseSmall (ds ++ rest) coef prec = parseSmall rest (natValFrom coef ds) prec := by
  induction ds generalizing coef with
  | nil => rfl
  | cons c t ih =>
    have hc : isDigit c = true := h c (by simp)
    have ht : AllDigits t := fun x hx => h x (by simp [hx])
    simp only [List.cons_append, parseSmall]
    rw [if_neg (isDigit_ne_dot hc).1]
    simp only [hc, Bool.not_true, Bool.false_eq_true, if_false]
    rw [ih _ ht]; rfl

/-- integers of at most 19 digits -/
theorem parseSmall_int (ds : Str) (h : AllDigits ds) :
    parseSmall ds 0 0 = if natVal ds = 0 then .ok 0 0 else .ok (natVal ds) 0 := by
  have := parseSmall_digits ds [] 0 0 h
  rw [List.append_nil] at this
  rw [this]; rfl

/-- decimals: digits, a dot, 1–19 digits -/
theorem parseSmall_frac (ds fs : Str) (hd : AllDigits ds) (hf : AllDigits fs)
    (h1 : 1 ≤ fs.length) (h2 : fs.length ≤ 19) :
    parseSmall (ds ++ cDot :: fs) 0 0 =
      if natVal (ds ++ fs) = 0 then .ok 0 0 else .ok (natVal (ds ++ fs)) fs.length := by
  rw [parseSmall_digits ds _ 0 0 hd]
  simp only [parseSmall]
  rw [if_pos trivial, if_neg (by simp), if_neg (by omega), if_neg (by unfold defaultPrec; omega)]
  have := parseSmall_digits fs [] (natValFrom 0 ds) fs.length hf
  rw [List.append_nil] at this
  rw [this]
  unfold natVal natValFrom
  rw [List.foldl_append]
  rfl


theorem parse_via_small (sign : Str) (neg : Bool) (d0 : UInt8) (bt : Str) (c p : Nat)
    (hsign : (sign = [] ∧ neg = false) ∨ (sign = [cPlus] ∧ neg = false) ∨ (sign = [cMinus] ∧ neg = true))
    (hd0 : isDigit d0 = true) (hl : (d0 :: bt).length ≤ 19)
    (hs : parseSmall (d0 :: bt) 0 0 = .ok c p) :
    parse (sign ++ d0 :: bt) = some (mkDec neg c p) := by
  have ⟨n1, n2, n3⟩ := isDigit_ne_dot hd0
  have hl' : bt.length + 1 ≤ 19 := by simpa using hl
  rcases hsign with ⟨h1, h2⟩ | ⟨h1, h2⟩ | ⟨h1, h2⟩ <;> subst h1 <;> subst h2
  · have hu : parseU128 (d0 :: bt) = (false, parseSmall (d0 :: bt) 0 0) := by
      simp [parseU128, n1, n2, n3, maxDigitU64, hl']
    unfold parse
    simp only [List.nil_append, hu, hs]
    simp [maxStrLen]; omega
  · have hu : parseU128 (cPlus :: d0 :: bt) = (false, parseSmall (d0 :: bt) 0 0) := by
      simp (config := {decide := true}) [parseU128, n1, maxDigitU64, hl']
    unfold parse
    simp only [List.cons_append, List.nil_append, hu, hs]
    simp [maxStrLen]; omega
  · have hu : parseU128 (cMinus :: d0 :: bt) = (true, parseSmall (d0 :: bt) 0 0) := by
      simp (config := {decide := true}) [parseU128, n1, maxDigitU64, hl']
    unfold parse
    simp only [List.cons_append, List.nil_append, hu, hs]
    simp [maxStrLen]; omega

/-- the three accepted sign prefixes and the sign they denote -/
def SignOf (sign : Str) (neg : Bool) : Prop :=
  (sign = [] ∧ neg = false) ∨ (sign = [cPlus] ∧ neg = false) ∨ (sign = [cMinus] ∧ neg = true)

/-- **accepted integers (u64 path)**: an optional sign and 1–19 ASCII digits is accepted and
denotes that integer. -/
theorem parse_short_int (sign : Str) (neg : Bool) (ds : Str) (hsign : SignOf sign neg)
    (hd : AllDigits ds) (hne : ds ≠ []) (hl : ds.length ≤ 19) :
    parse (sign ++ ds) = some (mkDec neg (natVal ds) 0) := by
  obtain ⟨d0, bt, rfl⟩ : ∃ d0 bt, ds = d0 :: bt := by
    cases ds with
    | nil => exact absurd rfl hne
    | cons a b => exact ⟨a, b, rfl⟩
  have hs := parseSmall_int (d0 :: bt) hd
  by_cases hz : natVal (d0 :: bt) = 0
  · rw [if_pos hz] at hs
    rw [parse_via_small sign neg d0 bt 0 0 hsign (hd d0 (by simp)) hl hs]
    simp [mkDec, hz]
  · rw [if_neg hz] at hs
    exact parse_via_small sign neg d0 bt _ _ hsign (hd d0 (by simp)) hl hs

/-- **accepted decimals (u64 path)**: optional sign, 1+ digits, a dot, 1+ digits, at most 19 bytes
after the sign, is accepted and denotes `±(ds fs)/10^|fs|`. -/
theorem parse_short_frac (sign : Str) (neg : Bool) (ds fs : Str) (hsign : SignOf sign neg)
    (hd : AllDigits ds) (hf : AllDigits fs) (hne : ds ≠ []) (hfne : fs ≠ [])
    (hl : (ds ++ cDot :: fs).length ≤ 19) :
    parse (sign ++ (ds ++ cDot :: fs)) = some (mkDec neg (natVal (ds ++ fs)) fs.length) := by
  obtain ⟨d0, bt, rfl⟩ : ∃ d0 bt, ds = d0 :: bt := by
    cases ds with
    | nil => exact absurd rfl hne
    | cons a b => exact ⟨a, b, rfl⟩
  have hf1 : 1 ≤ fs.length := by cases fs <;> simp_all
  have hf2 : fs.length ≤ 19 := by simp at hl; omega
  have hs := parseSmall_frac (d0 :: bt) fs hd hf hf1 hf2
  by_cases hz : natVal (d0 :: bt ++ fs) = 0
  · rw [if_pos hz] at hs
    rw [List.cons_append, parse_via_small sign neg d0 (bt ++ cDot :: fs) 0 0 hsign (hd d0 (by simp)) hl hs]
    have hz' : natVal (d0 :: (bt ++ fs)) = 0 := hz
    simp [mkDec, hz']
  · rw [if_neg hz] at hs
    exact parse_via_small sign neg d0 (bt ++ cDot :: fs) _ _ hsign (hd d0 (by simp)) hl hs

example : parse [45, 49, 46, 53, 48] = some ⟨true, 150, 2⟩ :=
  parse_short_frac [cMinus] true [49] [53, 48] (Or.inr (Or.inr ⟨rfl, rfl⟩)) (by decide) (by decide)
    (by decide) (by decide) (by decide)

/-! ## … and conversely: what the u64 path accepts has the numeral shape -/

theorem parseSmall_ok_shape (s : Str) (coef prec c p : Nat) (h : parseSmall s coef prec = .ok c p) :
    (prec ≠ 0 → AllDigits s) ∧
    (prec = 0 → AllDigits s ∨ ∃ ds fs, s = ds ++ cDot :: fs ∧ AllDigits ds ∧ AllDigits fs ∧ fs ≠ [] ∧
      fs.length ≤ 19) := by
  induction s generalizing coef prec with
  | nil =>
    have hnil : AllDigits ([] : Str) := fun x hx => absurd hx (List.not_mem_nil)
    exact ⟨fun _ => hnil, fun _ => Or.inl hnil⟩
  | cons a t ih =>
    rw [parseSmall] at h
    split at h
    · next hdot =>
      split at h
      · cases h
      · next hp =>
        have hp0 : prec = 0 := by simpa using hp
        split at h
        · cases h
        · next hl0 =>
          split at h
          · cases h
          · next hl19 =>
            have := (ih coef t.length h).1 hl0
            refine ⟨fun hne => absurd hp0 hne, fun _ => Or.inr ⟨[], t, by simp [hdot], ?_, this, ?_, ?_⟩⟩
            · exact fun x hx => absurd hx (List.not_mem_nil)
            · intro ht; subst ht; simp at hl0
            · unfold defaultPrec at hl19; omega
    · next hdot =>
      split at h
      · cases h
      · next hdig =>
        have hd : isDigit a = true := by simpa using hdig
        have ⟨i1, i2⟩ := ih _ prec h
        constructor
        · intro hne x hx
          rcases List.mem_cons.mp hx with rfl | hx
          · exact hd
          · exact i1 hne x hx
        · intro h0
          rcases i2 h0 with hall | ⟨ds, fs, rfl, h1, h2, h3, h4⟩
          · left; intro x hx
            rcases List.mem_cons.mp hx with rfl | hx
            · exact hd
            · exact hall x hx
          · right
            refine ⟨a :: ds, fs, rfl, ?_, h2, h3, h4⟩
            intro x hx
            rcases List.mem_cons.mp hx with rfl | hx
            · exact hd
            · exact h1 x hx

theorem parseSmall_ne_overflow (s : Str) (coef prec : Nat) : parseSmall s coef prec ≠ .overflow := by
  induction s generalizing coef prec with
  | nil => rw [parseSmall]; split <;> simp
  | cons a t ih =>
    rw [parseSmall]
    repeat' split
    all_goals first | exact ih _ _ | simp

/-- the shape of a numeral: sign, digits, optionally a dot and 1–19 digits -/
def NumeralShape (s : Str) : Prop :=
  ∃ sign neg ds fs, SignOf sign neg ∧ AllDigits ds ∧ ds ≠ [] ∧ AllDigits fs ∧ fs.length ≤ 19 ∧
    ((fs = [] ∧ s = sign ++ ds) ∨ (fs ≠ [] ∧ s = sign ++ (ds ++ cDot :: fs)))

/-- shape of the part after the sign, from what `parseSmall` accepted -/
theorem body_shape (rest : Str) (d0 : UInt8) (r : Str) (c p : Nat) (hr : rest = d0 :: r) (hd : d0 ≠ cDot)
    (h : parseSmall rest 0 0 = .ok c p) :
    ∃ ds fs, AllDigits ds ∧ ds ≠ [] ∧ AllDigits fs ∧ fs.length ≤ 19 ∧
      ((fs = [] ∧ rest = ds) ∨ (fs ≠ [] ∧ rest = ds ++ cDot :: fs)) := by
  rcases (parseSmall_ok_shape rest 0 0 c p h).2 rfl with hall | ⟨ds, fs, hs, h1, h2, h3, h4⟩
  · exact ⟨rest, [], hall, by simp [hr], fun x hx => absurd hx List.not_mem_nil, by simp, Or.inl ⟨rfl, rfl⟩⟩
  · refine ⟨ds, fs, h1, ?_, h2, h4, Or.inr ⟨h3, hs⟩⟩
    intro hds; subst hds
    rw [hr] at hs; simp at hs; exact hd hs.1

/-- **rejected shapes (u64 path)**: a string of at most 19 bytes that `Parse` accepts has the
numeral shape — no exponent, no second sign, no leading/trailing dot, ASCII digits only. -/
theorem parse_short_sound (s : Str) (d : Dec) (hl : s.length ≤ 19) (h : parse s = some d) :
    NumeralShape s := by
  unfold parse at h
  simp only at h
  split at h
  · cases h
  split at h
  · cases h
  rw [if_pos (by omega)] at h
  cases s with
  | nil => simp at *
  | cons c t =>
    have hlt : t.length ≤ 19 := by simp at hl; omega
    by_cases hdot : c = cDot
    · simp [parseU128, hdot] at h
    by_cases hm : c = cMinus
    · subst hm
      cases t with
      | nil => simp (config := {decide := true}) [parseU128] at h
      | cons d0 r =>
        by_cases hd : d0 = cDot
        · simp (config := {decide := true}) [parseU128, hd] at h
        · have hu : parseU128 (cMinus :: d0 :: r) = (true, parseSmall (d0 :: r) 0 0) := by
            simp (config := {decide := true}) [parseU128, hd, maxDigitU64]; intro hbig; simp at hlt; omega
          rw [hu] at h
          cases hp : parseSmall (d0 :: r) 0 0 with
          | ok c p =>
            obtain ⟨ds, fs, h1, h2, h3, h4, h5⟩ := body_shape (d0 :: r) d0 r c p rfl hd hp
            refine ⟨[cMinus], true, ds, fs, Or.inr (Or.inr ⟨rfl, rfl⟩), h1, h2, h3, h4, ?_⟩
            rcases h5 with ⟨a, b⟩ | ⟨a, b⟩
            · left; exact ⟨a, by rw [b]; rfl⟩
            · right; exact ⟨a, by rw [b]; rfl⟩
          | invalid => rw [hp] at h; simp at h
          | precOut => rw [hp] at h; simp at h
          | overflow => exact absurd hp (parseSmall_ne_overflow _ _ _)
    by_cases hp' : c = cPlus
    · subst hp'
      cases t with
      | nil => simp (config := {decide := true}) [parseU128] at h
      | cons d0 r =>
        by_cases hd : d0 = cDot
        · simp (config := {decide := true}) [parseU128, hd] at h
        · have hu : parseU128 (cPlus :: d0 :: r) = (false, parseSmall (d0 :: r) 0 0) := by
            simp (config := {decide := true}) [parseU128, hd, maxDigitU64]; intro hbig; simp at hlt; omega
          rw [hu] at h
          cases hp : parseSmall (d0 :: r) 0 0 with
          | ok c p =>
            obtain ⟨ds, fs, h1, h2, h3, h4, h5⟩ := body_shape (d0 :: r) d0 r c p rfl hd hp
            refine ⟨[cPlus], false, ds, fs, Or.inr (Or.inl ⟨rfl, rfl⟩), h1, h2, h3, h4, ?_⟩
            rcases h5 with ⟨a, b⟩ | ⟨a, b⟩
            · left; exact ⟨a, by rw [b]; rfl⟩
            · right; exact ⟨a, by rw [b]; rfl⟩
          | invalid => rw [hp] at h; simp at h
          | precOut => rw [hp] at h; simp at h
          | overflow => exact absurd hp (parseSmall_ne_overflow _ _ _)
    · have hu : parseU128 (c :: t) = (false, parseSmall (c :: t) 0 0) := by
        simp [parseU128, hdot, hm, hp', maxDigitU64]; intro hbig; simp at hl; omega
      rw [hu] at h
      cases hp : parseSmall (c :: t) 0 0 with
      | ok c' p =>
        obtain ⟨ds, fs, h1, h2, h3, h4, h5⟩ := body_shape (c :: t) c t c' p rfl hdot hp
        refine ⟨[], false, ds, fs, Or.inl ⟨rfl, rfl⟩, h1, h2, h3, h4, ?_⟩
        rcases h5 with ⟨a, b⟩ | ⟨a, b⟩
        · left; exact ⟨a, by rw [b]; rfl⟩
        · right; exact ⟨a, by rw [b]; rfl⟩
      | invalid => rw [hp] at h; simp at h
      | precOut => rw [hp] at h; simp at h
      | overflow => exact absurd hp (parseSmall_ne_overflow _ _ _)

end CentrifugeVerif.Decimal
