import CentrifugeVerif.Model.Dissolve
/-!
Ring-buffer invariant and FIFO refinement for `queueImpl` (`Model/Dissolve.lean`, part 1).

`QInv q` is the invariant of an *open* queue.  Its size clause `len = initCap ∨ len/2 < cnt` (with
`len = initCap·2^k`) is what makes the slice expressions in `resize` index-safe when `Remove` shrinks
the ring: a shrink to `n = len/2` happens exactly when `cnt = n`, never with an empty, wrapped ring.
-/
namespace CentrifugeVerif.Dissolve

/-- `n = c·2^k` for some `k` -/
inductive Pow2Mul (c : Nat) : Nat → Prop
  | base : Pow2Mul c c
  | dbl {n : Nat} : Pow2Mul c n → Pow2Mul c (2 * n)

theorem Pow2Mul.le {c n : Nat} (h : Pow2Mul c n) : c ≤ n := by
  induction h with
  | base => exact Nat.le_refl _
  | dbl _ ih => omega

theorem Pow2Mul.half {c n : Nat} (h : Pow2Mul c n) (hne : n ≠ c) : Pow2Mul c (n / 2) ∧ n = 2 * (n / 2) := by
  cases h with
  | base => exact absurd rfl hne
  | dbl h' =>
    rename_i m
    have : 2 * m / 2 = m := by omega
    rw [this]; exact ⟨h', rfl⟩

structure QInv (q : Queue) : Prop where
  opened : q.closed = false
  cap_pos : 0 < q.initCap
  pow : Pow2Mul q.initCap q.nodes.length
  head_lt : q.head < q.nodes.length
  tail_eq : q.tail = (q.head + q.cnt) % q.nodes.length
  cnt_le : q.cnt ≤ q.nodes.length
  size : q.nodes.length = q.initCap ∨ q.nodes.length / 2 < q.cnt
  somes : absO q = (abs q).map some

theorem mod_wrap {a L : Nat} (h1 : L ≤ a) (h2 : a < 2 * L) : a % L = a - L := by
  rw [Nat.mod_eq_sub_mod h1, Nat.mod_eq_of_lt (by omega)]

/-- element `i` of the queued slots is ring slot `(head+i) mod len` -/
theorem absO_get (q : Queue) (hh : q.head < q.nodes.length) (hc : q.cnt ≤ q.nodes.length) (i : Nat) :
    (absO q)[i]? = if i < q.cnt then q.nodes[(q.head + i) % q.nodes.length]? else none := by
  simp only [absO, rot, List.getElem?_take, List.getElem?_append, List.getElem?_drop, List.length_drop]
  by_cases hi : i < q.cnt
  · simp only [hi, if_true]
    by_cases h1 : i < q.nodes.length - q.head
    · simp only [h1, if_true]
      rw [Nat.mod_eq_of_lt (by omega)]
    · simp only [h1, if_false]
      rw [mod_wrap (by omega) (by omega)]
      have : i - (q.nodes.length - q.head) < q.head := by omega
      simp only [this, if_true]
      congr 1; omega
  · simp [hi]

theorem absO_length (q : Queue) (hc : q.cnt ≤ q.nodes.length) (hh : q.head ≤ q.nodes.length) :
    (absO q).length = q.cnt := by
  simp only [absO, rot, List.length_take, List.length_append, List.length_drop]
  omega

theorem filterMap_id_map_some (l : List Job) : (l.map some).filterMap id = l := by
  induction l with
  | nil => rfl
  | cons x xs ih => simp [List.filterMap_cons, ih]

/-- if the queued slots are `l.map some` then the abstraction is `l` and `somes` holds -/
theorem abs_of_absO {q : Queue} {l : List Job} (h : absO q = l.map some) :
    abs q = l ∧ absO q = (abs q).map some := by
  have : abs q = l := by simp only [abs, h]; exact filterMap_id_map_some l
  exact ⟨this, by rw [this]; exact h⟩

theorem inv_newQueue (c : Nat) (hc : 0 < c) : QInv (newQueue c) := by
  refine ⟨rfl, hc, ?_, ?_, ?_, ?_, ?_, ?_⟩
  · simp [newQueue]; exact Pow2Mul.base
  · simpa [newQueue] using hc
  · simp [newQueue]
  · simp [newQueue]
  · left; simp [newQueue]
  · simp [absO, abs, rot, newQueue]

theorem abs_newQueue (c : Nat) : abs (newQueue c) = [] := by simp [abs, absO, rot, newQueue]

/-! ### resize -/

/-- the effect of `resize n` on a non-empty ring that fits into `n` slots: the queued slots are laid
out from index 0, the rest is nil -/
theorem resize_spec (q : Queue) (n : Nat) (hh : q.head < q.nodes.length)
    (ht : q.tail = (q.head + q.cnt) % q.nodes.length) (hc0 : 0 < q.cnt) (hcL : q.cnt ≤ q.nodes.length)
    (hn : q.cnt ≤ n) :
    resize q n = some { q with nodes := absO q ++ List.replicate (n - q.cnt) none, head := 0,
                               tail := q.cnt % n } := by
  have hn0 : n ≠ 0 := by omega
  simp only [resize]
  by_cases hlt : q.head < q.tail
  · -- no wrap: tail = head + cnt
    have htl : q.tail = q.head + q.cnt := by
      by_cases hw : q.head + q.cnt < q.nodes.length
      · rw [ht, Nat.mod_eq_of_lt hw]
      · rw [mod_wrap (by omega) (by omega)] at ht; omega
    have hle : q.tail ≤ q.nodes.length := by
      by_cases hw : q.head + q.cnt < q.nodes.length
      · omega
      · rw [mod_wrap (by omega) (by omega)] at ht; omega
    simp only [hlt, if_true, hle, hn0, if_false]
    congr 2
    have hsub : q.tail - q.head = q.cnt := by omega
    have hsrc : ((q.nodes.drop q.head).take (q.tail - q.head)).length = q.cnt := by
      simp only [List.length_take, List.length_drop]; omega
    simp only [goCopy, List.length_replicate, hsrc, List.drop_replicate]
    rw [List.take_of_length_le (by omega)]
    congr 1
    simp only [absO, rot, hsub]
    rw [List.take_append_of_le_length (by simp only [List.length_drop]; omega)]
  · -- wrapped (or full): cnt = len - head + tail
    have hwrap : q.nodes.length ≤ q.head + q.cnt := by
      by_cases hw : q.head + q.cnt < q.nodes.length
      · rw [Nat.mod_eq_of_lt hw] at ht; omega
      · omega
    have htl : q.tail = q.head + q.cnt - q.nodes.length := by
      rw [ht, mod_wrap hwrap (by omega)]
    have hg : q.head ≤ q.nodes.length ∧ q.nodes.length - q.head ≤ n ∧ q.tail ≤ q.nodes.length := by
      refine ⟨by omega, by omega, by omega⟩
    simp only [hlt, if_false, hg, and_self, if_true, hn0]
    congr 2
    have hk : (q.nodes.drop q.head).length = q.nodes.length - q.head := by simp
    have h1 : goCopy (List.replicate n (none : Option Job)) (q.nodes.drop q.head) =
        q.nodes.drop q.head ++ List.replicate (n - (q.nodes.length - q.head)) none := by
      simp only [goCopy, List.length_replicate, List.drop_replicate, hk]
      rw [List.take_of_length_le (by simp only [List.length_drop]; omega)]
    rw [h1]
    rw [List.take_left' hk, List.drop_left' hk]
    have h2 : goCopy (List.replicate (n - (q.nodes.length - q.head)) (none : Option Job)) (q.nodes.take q.tail) =
        q.nodes.take q.tail ++ List.replicate (n - q.cnt) none := by
      have hlen : (q.nodes.take q.tail).length = q.tail := by simp only [List.length_take]; omega
      simp only [goCopy, List.length_replicate, List.drop_replicate, hlen]
      rw [List.take_of_length_le (by omega)]
      congr 2; omega
    rw [h2, ← List.append_assoc]
    congr 1
    simp only [absO, rot]
    rw [List.take_append, List.take_of_length_le (l := q.nodes.drop q.head) (i := q.cnt) (by rw [hk]; omega)]
    congr 1
    rw [hk, List.take_take]
    congr 1
    omega

/-- a ring that starts at index 0 and whose first `cnt` slots are `a` -/
theorem absO_prefix (q : Queue) (a rest : List (Option Job)) (hn : q.nodes = a ++ rest) (hh : q.head = 0)
    (ha : a.length = q.cnt) : absO q = a := by
  simp only [absO, rot, hh, List.drop_zero, List.take_zero, List.append_nil, hn]
  exact List.take_left' ha

/-! ### Add -/

theorem add_spec (q : Queue) (j : Job) (hi : QInv q) :
    ∃ q', add q j = some (q', true) ∧ QInv q' ∧ absO q' = absO q ++ [some j] ∧ q'.initCap = q.initCap := by
  obtain ⟨hopen, hcap, hpow, hh, ht, hcL, hsize, hsomes⟩ := hi
  have hL : 0 < q.nodes.length := by omega
  -- after the optional grow step
  have key : ∀ q1 : Queue, q1.closed = false → q1.initCap = q.initCap → Pow2Mul q1.initCap q1.nodes.length →
      q1.head < q1.nodes.length → q1.tail = (q1.head + q1.cnt) % q1.nodes.length →
      q1.cnt < q1.nodes.length → (q1.nodes.length = q1.initCap ∨ q1.nodes.length / 2 < q1.cnt + 1) →
      absO q1 = absO q →
      let q' : Queue := { q1 with nodes := q1.nodes.set q1.tail (some j),
                                  tail := (q1.tail + 1) % q1.nodes.length, cnt := q1.cnt + 1 }
      q1.tail < q1.nodes.length ∧ QInv q' ∧ absO q' = absO q ++ [some j] ∧ q'.initCap = q.initCap := by
    intro q1 h1 h2 h3 h4 h5 h6 h7 h8 q'
    have hL1 : 0 < q1.nodes.length := by omega
    have htlt : q1.tail < q1.nodes.length := by rw [h5]; exact Nat.mod_lt _ hL1
    have habs : absO q' = absO q ++ [some j] := by
      apply List.ext_getElem?
      intro i
      rw [absO_get q' (by simpa [q'] using h4) (by simp [q']; omega)]
      rw [← h8, List.getElem?_append, absO_length q1 (by omega) (by omega), absO_get q1 h4 (by omega)]
      simp only [q', List.length_set, List.getElem?_set]
      by_cases hi1 : i < q1.cnt
      · have : i < q1.cnt + 1 := by omega
        simp only [this, hi1, if_true]
        have hne : q1.tail ≠ (q1.head + i) % q1.nodes.length := by
          rw [h5]
          by_cases ha : q1.head + q1.cnt < q1.nodes.length
          · rw [Nat.mod_eq_of_lt ha, Nat.mod_eq_of_lt (by omega)]; omega
          · rw [mod_wrap (by omega) (by omega)]
            by_cases hb : q1.head + i < q1.nodes.length
            · rw [Nat.mod_eq_of_lt hb]; omega
            · rw [mod_wrap (by omega) (by omega)]; omega
        simp [hne]
      · by_cases hi2 : i = q1.cnt
        · subst hi2
          simp only [Nat.lt_add_one, if_true, hi1, if_false, Nat.sub_self, List.getElem?_cons_zero]
          simp [h5, Nat.mod_lt _ hL1]
        · have : ¬ i < q1.cnt + 1 := by omega
          simp only [this, hi1, if_false]
          have : i - q1.cnt ≠ 0 := by omega
          cases hk : i - q1.cnt with
          | zero => exact absurd hk this
          | succ k => simp
    refine ⟨htlt, ⟨h1, by simpa [q', h2] using hcap, by simpa [q'] using h3, by simpa [q'] using h4, ?_,
      by simp [q']; omega, by simpa [q'] using h7, ?_⟩, habs, by simpa [q'] using h2⟩
    · simp only [q', List.length_set]
      rw [h5, Nat.mod_add_mod]; congr 1
    · have hl : absO q' = (abs q ++ [j]).map some := by
        rw [habs, hsomes]; simp
      exact (abs_of_absO hl).2
  simp only [add, hopen, Bool.false_eq_true, if_false]
  by_cases hfull : q.cnt = q.nodes.length
  · -- grow
    simp only [hfull, if_true]
    have hc0 : 0 < q.cnt := by omega
    have hrs := resize_spec q (q.nodes.length * 2) hh ht hc0 hcL (by omega)
    rw [hrs]
    let q1 : Queue := { q with nodes := absO q ++ List.replicate (q.nodes.length * 2 - q.cnt) none, head := 0,
                               tail := q.cnt % (q.nodes.length * 2) }
    have hlen1 : q1.nodes.length = q.nodes.length * 2 := by
      simp only [q1, List.length_append, List.length_replicate, absO_length q hcL (by omega)]; omega
    have hk := key q1 hopen rfl (by rw [hlen1, Nat.mul_comm]; exact Pow2Mul.dbl hpow) (by rw [hlen1]; simp [q1]; omega)
      (by simp [q1, hlen1]) (by rw [hlen1]; simp [q1]; omega) (by right; rw [hlen1]; simp [q1]; omega)
      (absO_prefix q1 _ _ rfl rfl (absO_length q hcL (by omega)))
    obtain ⟨k1, k2, k3, k4⟩ := hk
    exact ⟨_, if_pos k1, k2, k3, k4⟩
  · simp only [hfull, if_false]
    have hk := key q hopen rfl hpow hh ht (by omega) (by rcases hsize with h | h; exact Or.inl h; right; omega) rfl
    obtain ⟨k1, k2, k3, k4⟩ := hk
    exact ⟨_, if_pos k1, k2, k3, k4⟩

/-! ### Remove -/

theorem remove_empty (q : Queue) (h : q.cnt = 0) : remove q = some (q, none) := by simp [remove, h]

theorem remove_spec (q : Queue) (hi : QInv q) (j : Job) (rest : List Job) (habs : abs q = j :: rest) :
    ∃ q', remove q = some (q', some j) ∧ QInv q' ∧ abs q' = rest ∧ q'.initCap = q.initCap := by
  obtain ⟨hopen, hcap, hpow, hh, ht, hcL, hsize, hsomes⟩ := hi
  have hL : 0 < q.nodes.length := by omega
  have hcnt : q.cnt = rest.length + 1 := by
    have := absO_length q hcL (by omega)
    rw [hsomes, habs] at this; simpa using this.symm
  have hc0 : q.cnt ≠ 0 := by omega
  have hhead : q.nodes[q.head]? = some (some j) := by
    have := absO_get q hh hcL 0
    rw [hsomes, habs] at this
    simpa [show 0 < q.cnt by omega, Nat.mod_eq_of_lt hh] using this.symm
  let q1 : Queue := { q with head := (q.head + 1) % q.nodes.length, cnt := q.cnt - 1 }
  have hh1 : q1.head < q1.nodes.length := Nat.mod_lt _ hL
  have ht1 : q1.tail = (q1.head + q1.cnt) % q1.nodes.length := by
    simp only [q1]; rw [ht, Nat.mod_add_mod]; congr 1; omega
  have habs1 : absO q1 = rest.map some := by
    apply List.ext_getElem?
    intro i
    rw [absO_get q1 hh1 (by simp [q1]; omega)]
    have h0 := absO_get q hh hcL (i + 1)
    rw [hsomes, habs] at h0
    simp only [List.map_cons, List.getElem?_cons_succ] at h0
    rw [h0]
    simp only [q1]
    by_cases hi : i < q.cnt - 1
    · have : i + 1 < q.cnt := by omega
      simp only [hi, this, if_true]
      rw [Nat.mod_add_mod]; congr 2; omega
    · have : ¬ i + 1 < q.cnt := by omega
      simp [hi, this]
  simp only [remove, hc0, if_false, hhead]
  have hLne : q.nodes.length ≠ 0 := by omega
  rw [if_neg hLne]
  by_cases hshrink : q.nodes.length / 2 ≥ q.initCap ∧ q.cnt - 1 ≤ q.nodes.length / 2
  · -- shrink: happens exactly when cnt-1 = len/2
    have hne : q.nodes.length ≠ q.initCap := by omega
    have hbig : q.nodes.length / 2 < q.cnt := by
      rcases hsize with h | h
      · exact absurd h hne
      · exact h
    obtain ⟨hpow', heven⟩ := hpow.half hne
    have hn : q1.cnt = q.nodes.length / 2 := by simp only [q1]; omega
    have hrs := resize_spec q1 (q.nodes.length / 2) hh1 ht1 (by omega) (by simp only [q1]; omega) (by omega)
    rw [if_pos hshrink]
    have hrs' : resize { q with head := (q.head + 1) % q.nodes.length, cnt := q.cnt - 1 } (q.nodes.length / 2) = _ := hrs
    rw [hrs']
    let q2 : Queue := { q1 with nodes := absO q1 ++ List.replicate (q.nodes.length / 2 - q1.cnt) none, head := 0,
                                tail := q1.cnt % (q.nodes.length / 2) }
    have hlen2 : q2.nodes.length = q.nodes.length / 2 := by
      simp only [q2, List.length_append, List.length_replicate, absO_length q1 (by simp only [q1]; omega) (by omega)]
      omega
    have habs2 : absO q2 = rest.map some := by
      rw [absO_prefix q2 (absO q1) _ rfl rfl (absO_length q1 (by simp only [q1]; omega) (by omega))]
      exact habs1
    refine ⟨q2, rfl, ⟨hopen, hcap, by rw [hlen2]; exact hpow', by rw [hlen2]; simp [q2]; omega, ?_, ?_, ?_,
      (abs_of_absO habs2).2⟩, (abs_of_absO habs2).1, rfl⟩
    · rw [hlen2]; simp [q2]
    · rw [hlen2]; simp only [q2]; omega
    · right; rw [hlen2]; simp only [q2]; omega
  · rw [if_neg hshrink]
    refine ⟨q1, rfl, ⟨hopen, hcap, hpow, hh1, ht1, by simp only [q1]; omega, ?_, (abs_of_absO habs1).2⟩,
      (abs_of_absO habs1).1, rfl⟩
    by_cases hne : q.nodes.length = q.initCap
    · exact Or.inl hne
    · right
      have := (hpow.half hne).1.le
      simp only [q1]
      have h1 : ¬ (q.cnt - 1 ≤ q.nodes.length / 2) := fun h => hshrink ⟨this, h⟩
      omega

/-! ### Close -/

theorem close_spec (q : Queue) : (close q).closed = true ∧ (close q).cnt = 0 ∧ abs (close q) = [] := by
  simp [close, abs, absO, rot]

/-- a closed queue refuses `Add` and leaves the state alone -/
theorem add_closed (q : Queue) (j : Job) (h : q.closed = true) : add q j = some (q, false) := by
  simp [add, h]

end CentrifugeVerif.Dissolve
