import CentrifugeVerif.Proofs.HistoryHub
/-!
`MemoryBroker`-level lemmas over `Model/HistoryHub.lean`: case analysis of `Publish`, the result
cache, invariants along arbitrary runs.
-/
namespace CentrifugeVerif.HistoryHub
open CentrifugeVerif.MemStream CentrifugeVerif.AbsStream

/-- the idempotency lookup at the start of `Publish` -/
def Broker.idemHit (b : Broker) (ch : String) (o : PubOpts) (now : Nat) : Option Pos :=
  if o.idemKey ≠ "" then b.cacheGet ch o.idemKey now else none

/-- `HistorySize > 0 && HistoryTTL > 0` -/
def PubOpts.history (o : PubOpts) : Prop := o.size > 0 ∧ o.ttl > 0

instance (o : PubOpts) : Decidable o.history := by unfold PubOpts.history; exact inferInstance

/-- the broker after a keyed, stored publish saved its result -/
def Broker.saved (b : Broker) (ch : String) (o : PubOpts) (p : Pos) (now : Nat) : Broker :=
  if o.idemKey ≠ "" then b.cacheSave ch o.idemKey p (idemSeconds o) now else b

@[simp] theorem saved_hub (b : Broker) (ch : String) (o : PubOpts) (p : Pos) (now : Nat) :
    (b.saved ch o p now).hub = b.hub := by
  unfold Broker.saved; split <;> rfl

theorem publish_hit (b : Broker) (ch data : String) (o : PubOpts) (now : Nat) (p : Pos)
    (h : b.idemHit ch o now = some p) : b.publish ch data o now = (b, ⟨p, .idempotency, none⟩) := by
  unfold Broker.idemHit at h
  unfold Broker.publish
  simp only [h]

theorem publish_skip (b : Broker) (ch data : String) (o : PubOpts) (now : Nat)
    (hm : b.idemHit ch o now = none) (hh : o.history)
    (hs : (b.hub.add ch ⟨data, o.version⟩ o (now / 1000)).2.skip = true) :
    b.publish ch data o now =
      ({ b with hub := (b.hub.add ch ⟨data, o.version⟩ o (now / 1000)).1 },
        ⟨(b.hub.add ch ⟨data, o.version⟩ o (now / 1000)).2.pos, .version, none⟩) := by
  unfold Broker.idemHit at hm
  unfold PubOpts.history at hh
  unfold Broker.publish
  simp only [hm, hh, hs]
  simp

theorem publish_store (b : Broker) (ch data : String) (o : PubOpts) (now : Nat)
    (hm : b.idemHit ch o now = none) (hh : o.history)
    (hs : (b.hub.add ch ⟨data, o.version⟩ o (now / 1000)).2.skip = false) :
    b.publish ch data o now =
      (({ b with hub := (b.hub.add ch ⟨data, o.version⟩ o (now / 1000)).1 } : Broker).saved ch o
          (b.hub.add ch ⟨data, o.version⟩ o (now / 1000)).2.pos now,
        ⟨(b.hub.add ch ⟨data, o.version⟩ o (now / 1000)).2.pos, .none,
          some ⟨ch, ⟨(b.hub.add ch ⟨data, o.version⟩ o (now / 1000)).2.pos.offset, ⟨data, o.version⟩⟩,
            (b.hub.add ch ⟨data, o.version⟩ o (now / 1000)).2.pos, o.useDelta,
            (b.hub.add ch ⟨data, o.version⟩ o (now / 1000)).2.prev⟩⟩) := by
  unfold Broker.idemHit at hm
  unfold PubOpts.history at hh
  unfold Broker.publish Broker.saved
  simp only [hm, hh, hs]
  simp

theorem publish_nohistory (b : Broker) (ch data : String) (o : PubOpts) (now : Nat)
    (hm : b.idemHit ch o now = none) (hh : ¬ o.history) :
    b.publish ch data o now =
      (b.saved ch o {} now, ⟨{}, .none, some ⟨ch, ⟨0, ⟨data, o.version⟩⟩, {}, o.useDelta, none⟩⟩) := by
  unfold Broker.idemHit at hm
  unfold PubOpts.history at hh
  unfold Broker.publish Broker.saved
  simp only [hm, hh]
  simp

/-- the four outcomes of `Publish` -/
inductive PublishCase (b : Broker) (ch data : String) (o : PubOpts) (now : Nat) : Prop
  | hit (p : Pos) (h : b.idemHit ch o now = some p)
  | skip (hm : b.idemHit ch o now = none) (hh : o.history)
      (hs : (b.hub.add ch ⟨data, o.version⟩ o (now / 1000)).2.skip = true)
  | store (hm : b.idemHit ch o now = none) (hh : o.history)
      (hs : (b.hub.add ch ⟨data, o.version⟩ o (now / 1000)).2.skip = false)
  | nohistory (hm : b.idemHit ch o now = none) (hh : ¬ o.history)

theorem publish_cases (b : Broker) (ch data : String) (o : PubOpts) (now : Nat) :
    PublishCase b ch data o now := by
  cases hm : b.idemHit ch o now with
  | some p => exact .hit p hm
  | none =>
    by_cases hh : o.history
    · cases hs : (b.hub.add ch ⟨data, o.version⟩ o (now / 1000)).2.skip with
      | true => exact .skip hm hh hs
      | false => exact .store hm hh hs
    · exact .nohistory hm hh

/-! ### invariant along runs -/

theorem publish_inv (b : Broker) (hi : b.hub.Inv) (ch data : String) (o : PubOpts) (now : Nat) :
    (b.publish ch data o now).1.hub.Inv := by
  rcases publish_cases b ch data o now with ⟨p, h⟩ | ⟨hm, hh, hs⟩ | ⟨hm, hh, hs⟩ | ⟨hm, hh⟩
  · rw [publish_hit b ch data o now p h]; exact hi
  · rw [publish_skip b ch data o now hm hh hs]; exact add_inv _ hi _ _ _ _
  · rw [publish_store b ch data o now hm hh hs]; simp; exact add_inv _ hi _ _ _ _
  · rw [publish_nohistory b ch data o now hm hh]; simp; exact hi

theorem step_inv (b : Broker) (hi : b.hub.Inv) (op : Op) : (step b op).1.hub.Inv := by
  cases op with
  | publish ch data o now => exact publish_inv b hi ch data o now
  | history ch f m now => exact get_inv _ hi _ _ _ _
  | remove ch => exact remove_inv _ hi _
  | tick n => exact tick_hub_inv _ hi _

theorem run_inv_from (b : Broker) (hi : b.hub.Inv) (ops : List Op) : (run b ops).hub.Inv := by
  induction ops generalizing b with
  | nil => exact hi
  | cons op ops ih => exact ih _ (step_inv b hi op)

/-! ### result cache -/

/-- the time (ms) an operation happens at, as far as the result cache is concerned -/
def opTimeMs : Op → Nat
  | .publish _ _ _ now => now
  | .history _ _ _ now => now
  | .remove _ => 0
  | .tick n => n * 1000

theorem cacheGet_of_entry (b : Broker) (ch key : String) (now : Nat) (p : Pos) (e : Nat)
    (hc : b.cache (cacheKey ch key) = some (p, e)) (hl : now < e) : b.cacheGet ch key now = some p := by
  unfold Broker.cacheGet
  simp only [hc]
  rw [if_neg (by omega)]

theorem cacheGet_some_iff (b : Broker) (ch key : String) (now : Nat) (p : Pos) :
    b.cacheGet ch key now = some p ↔ ∃ e, b.cache (cacheKey ch key) = some (p, e) ∧ now < e := by
  unfold Broker.cacheGet
  cases hc : b.cache (cacheKey ch key) with
  | none => simp
  | some pe =>
    obtain ⟨q, e⟩ := pe
    simp only
    by_cases hle : e ≤ now
    · simp [hle]; try (intro _ h; omega)
    · simp only [hle, if_false, Option.some.injEq, Prod.mk.injEq]
      constructor
      · intro h; exact ⟨e, ⟨h, rfl⟩, by omega⟩
      · rintro ⟨e', ⟨h1, h2⟩, _⟩; exact h1

/-- a live cache entry survives every operation that happens before its `ExpireAt` — whatever the
operation is (a publish under the same cache key is a hit and saves nothing) -/
theorem step_keeps_entry (b : Broker) (op : Op) (ck : String) (p : Pos) (e : Nat)
    (hc : b.cache ck = some (p, e)) (ht : opTimeMs op < e) : (step b op).1.cache ck = some (p, e) := by
  cases op with
  | publish ch data o now =>
    simp only [step, opTimeMs] at ht ⊢
    have hsave : ∀ (b' : Broker) (q : Pos), b'.cache = b.cache → b.idemHit ch o now = none →
        (b'.saved ch o q now).cache ck = some (p, e) := by
      intro b' q hb' hm
      unfold Broker.saved
      split
      · rename_i hk
        unfold Broker.cacheSave
        simp only
        by_cases hck : ck = cacheKey ch o.idemKey
        · -- same cache key: the lookup would have hit
          exfalso
          subst hck
          have := cacheGet_of_entry b ch o.idemKey now p e hc ht
          unfold Broker.idemHit at hm
          simp [hk, this] at hm
        · simp [hck, hb', hc]
      · rw [hb']; exact hc
    rcases publish_cases b ch data o now with ⟨q, h⟩ | ⟨hm, hh, hs⟩ | ⟨hm, hh, hs⟩ | ⟨hm, hh⟩
    · rw [publish_hit b ch data o now q h]; exact hc
    · rw [publish_skip b ch data o now hm hh hs]; exact hc
    · rw [publish_store b ch data o now hm hh hs]; exact hsave _ _ rfl hm
    · rw [publish_nohistory b ch data o now hm hh]; exact hsave _ _ rfl hm
  | history ch f m now => exact hc
  | remove ch => exact hc
  | tick n =>
    simp only [step, opTimeMs, Broker.tick, Broker.sweepCache] at ht ⊢
    simp only [hc]
    rw [if_neg (by omega)]

theorem run_keeps_entry (b : Broker) (ops : List Op) (ck : String) (p : Pos) (e : Nat)
    (hc : b.cache ck = some (p, e)) (ht : ∀ op ∈ ops, opTimeMs op < e) : (run b ops).cache ck = some (p, e) := by
  induction ops generalizing b with
  | nil => exact hc
  | cons op ops ih =>
    apply ih
    · exact step_keeps_entry b op ck p e hc (ht op (by simp))
    · intro op' hop'; exact ht op' (by simp [hop'])

/-- the sweep of the result cache is unobservable: lookups at or after the sweep time agree -/
theorem sweepCache_unobservable (b : Broker) (t : Nat) (ch key : String) (now : Nat) (h : t ≤ now) :
    (b.sweepCache t).cacheGet ch key now = b.cacheGet ch key now := by
  unfold Broker.cacheGet Broker.sweepCache
  simp only
  cases hc : b.cache (cacheKey ch key) with
  | none => rfl
  | some pe =>
    obtain ⟨p, e⟩ := pe
    simp only
    by_cases hle : e ≤ t
    · have : e ≤ now := by omega
      simp [hle, this]
    · simp [hle]

end CentrifugeVerif.HistoryHub
