import CentrifugeVerif.Proofs.WSHeader
import CentrifugeVerif.Proofs.WSMask
import CentrifugeVerif.Spec.WSSpec
import CentrifugeVerif.Proofs.WSEquiv
import CentrifugeVerif.Proofs.WSTrunc
/-! Writer model against the receiver specification: what the message writer puts on the wire
decodes to the messages written. -/
namespace CentrifugeVerif.WS
open Writer Spec

theorem extLen_length {l7 len : Nat} {bs r2 : Bytes} (h : extLen l7 bs = some (len, r2)) :
    r2.length ≤ bs.length := by
  unfold extLen at h
  split at h
  · simp only [Option.some.injEq, Prod.mk.injEq] at h; rw [← h.2]; exact Nat.le_refl _
  · split at h
    · split at h
      · cases h
      · simp only [Option.some.injEq, Prod.mk.injEq] at h; rw [← h.2]; simp
    · split at h
      · cases h
      · simp only [Option.some.injEq, Prod.mk.injEq] at h; rw [← h.2]; simp

theorem takeKey_length {m : Bool} {bs r3 : Bytes} {key : Key} (h : takeKey m bs = some (key, r3)) :
    r3.length ≤ bs.length := by
  unfold takeKey at h
  split at h
  · simp only [Option.some.injEq, Prod.mk.injEq] at h; rw [← h.2]; exact Nat.le_refl _
  · split at h
    · simp only [Option.some.injEq, Prod.mk.injEq] at h; rw [← h.2]; simp; omega
    · cases h

/-- the fuel of the specification's recursion is irrelevant once it exceeds half the input length -/
theorem decodeQ_fuel (q : Quirks) (cfg : Cfg) (accept : Nat → Bool) : ∀ (fuel fuel' : Nat)
    (frag : Option Frag) (bs : Bytes), bs.length < 2 * fuel → bs.length < 2 * fuel' →
    decodeQ q cfg accept fuel frag bs = decodeQ q cfg accept fuel' frag bs := by
  intro fuel
  induction fuel with
  | zero => intro fuel' frag bs h _; omega
  | succ n ih =>
    intro fuel' frag bs h1 h2
    cases fuel' with
    | zero => omega
    | succ m =>
      match bs with
      | [] => simp [decodeQ]
      | [_] => simp [decodeQ]
      | b0 :: b1 :: r1 =>
        have hrec : ∀ (f : Option Frag) (rest : Bytes), rest.length ≤ r1.length →
            decodeQ q cfg accept n f rest = decodeQ q cfg accept m f rest := by
          intro f rest hl
          simp only [List.length_cons] at h1 h2
          exact ih m f rest (by omega) (by omega)
        cases frag <;> (
          simp only [decodeQ]
          generalize parseHdr b0 b1 = h
          split
          · rfl
          · cases hext : extLen h.len7 r1 with
            | none => rfl
            | some v =>
              obtain ⟨len, r2⟩ := v
              have hl2 := extLen_length hext
              simp only []
              split
              · rfl
              · cases hk : takeKey h.masked r2 with
                | none => rfl
                | some kv =>
                  obtain ⟨key, r3⟩ := kv
                  have hl3 := takeKey_length hk
                  have hd : (r3.drop len).length ≤ r1.length := by simp; omega
                  simp only []
                  simp only [fun f => hrec f _ hd]
        )

def accOf (frag : Option Frag) : Bytes := match frag with | some f => f.acc | none => []
def typOf (frag : Option Frag) (op : Nat) : Nat := match frag with | some f => f.typ | none => op
def compOf (frag : Option Frag) (rsv1 : Bool) : Bool := match frag with | some f => f.compressed | none => rsv1

/-- the bytes `flushFrame` puts on the wire for one frame -/
def frameBytes (server : Bool) (key : Key) (b0 : UInt8) (payload : Bytes) : Bytes :=
  if server then encHeader b0 false payload.length ++ payload
  else encHeader b0 true payload.length ++ (key.toBytes ++ xorMask key 0 payload)

theorem takeKey_masked (key : Key) (rest : Bytes) :
    takeKey true (key.toBytes ++ rest) = some (key, rest) := by
  simp [takeKey, Key.toBytes]

/-- One data or continuation frame as the writer encodes it, read by the specification: the
payload joins the message; a final frame delivers it. -/
theorem decode_data_frame (q : Quirks) (peer : Cfg) (a : Nat → Bool) (fuel : Nat) (frag : Option Frag)
    (wserver : Bool) (hside : peer.server = !wserver) (hrl : peer.readLimit = 0)
    (fin rsv1 : Bool) (op : Nat) (key : Key) (payload X : Bytes)
    (hop : (op = 0 ∧ frag.isSome = true) ∨ (isDataOp op = true ∧ frag = none))
    (hrsv : rsv1 = true → peer.deflate = true ∧ isDataOp op = true)
    (hlen : (accOf frag).length + payload.length < two63) :
    decodeQ q peer a (fuel + 1) frag (frameBytes wserver key (firstByte fin rsv1 op) payload ++ X) =
      (let typ := typOf frag op
       let comp := compOf frag rsv1
       let acc := accOf frag ++ payload
       if fin then
         (if (deliver peer typ comp acc).terminal then [deliver peer typ comp acc]
          else deliver peer typ comp acc :: decodeQ q peer a fuel none X)
       else decodeQ q peer a fuel (some ⟨typ, comp, acc⟩) X) := by
  have hop16 : op < 16 := by
    rcases hop with ⟨h, _⟩ | ⟨h, _⟩
    · omega
    · simp only [isDataOp, Bool.or_eq_true, beq_iff_eq] at h; omega
  have hplen : payload.length < 2 ^ 63 := by unfold two63 at hlen; omega
  have hctl : isControlOp op = false := by
    rcases hop with ⟨h, _⟩ | ⟨h, _⟩
    · subst h; rfl
    · simp only [isDataOp, Bool.or_eq_true, beq_iff_eq] at h
      rcases h with h | h <;> subst h <;> rfl
  -- the body after the header and the key
  generalize hbody : (if wserver then payload else key.toBytes ++ xorMask key 0 payload) = body
  obtain ⟨b0, b1, ext, henc, hfin, hrsv1, hrsv2, hrsv3, hopc, hmask, hext⟩ :=
    encHeader_parse fin rsv1 (!wserver) op hop16 payload.length hplen (body ++ X)
  have hbytes : frameBytes wserver key (firstByte fin rsv1 op) payload ++ X = b0 :: b1 :: (ext ++ (body ++ X)) := by
    unfold frameBytes
    cases wserver
    · simp only [Bool.false_eq_true, if_false, Bool.not_false] at hbody henc ⊢
      rw [henc, ← hbody]; simp
    · simp only [if_true, Bool.not_true] at hbody henc ⊢
      rw [henc, ← hbody]; simp
  rw [hbytes]
  simp only [decodeQ]
  generalize parseHdr b0 b1 = h at *
  have hviol : hdrViolation q peer frag.isSome h = false := by
    obtain ⟨hfin', hr1, hr2, hr3, ho, hm, l7⟩ := h
    simp only at hfin hrsv1 hrsv2 hrsv3 hopc hmask
    subst hfin hrsv1 hrsv2 hrsv3 hopc hmask
    simp only [hdrViolation, hctl, hside]
    rcases hop with ⟨h0, hs⟩ | ⟨hd, hn⟩
    · subst h0
      cases hr : hr1
      · simp [hs, isDataOp]
      · have := (hrsv hr).2; simp [isDataOp] at this
    · subst hn
      have hne : ¬ ho = 0 := by
        simp only [isDataOp, Bool.or_eq_true, beq_iff_eq] at hd; omega
      cases hr : hr1
      · simp [hd, hne]
      · simp [hd, hne, (hrsv hr).1]
  simp only [hviol, Bool.false_eq_true, if_false, hext]
  have hnlt : ¬ payload.length ≥ two63 := by unfold two63; omega
  simp only [hnlt, if_false, hmask]
  -- key and payload
  have hkp : takeKey (!wserver) (body ++ X) = some (if wserver then Key.zero else key,
      (if wserver then payload else xorMask key 0 payload) ++ X) := by
    cases wserver
    · simp only [Bool.false_eq_true, if_false, Bool.not_false] at hbody ⊢
      rw [← hbody, List.append_assoc, takeKey_masked]
    · simp only [if_true, Bool.not_true] at hbody ⊢
      rw [← hbody]; simp [takeKey]
  simp only [hkp, hopc, hctl, Bool.false_eq_true, if_false]
  have hov : overLimit peer ((accOf frag).length + payload.length) = false := by
    simp only [overLimit, hrl, Nat.lt_irrefl, decide_false, Bool.false_and, Bool.false_or,
      decide_eq_false_iff_not]
    simpa using hlen
  have hpl : ((if wserver then payload else xorMask key 0 payload) ++ X).length ≥ payload.length := by
    cases wserver <;> simp [xorMask_length]
  have htake : xorMask (if wserver then Key.zero else key) 0
      (((if wserver then payload else xorMask key 0 payload) ++ X).take payload.length) = payload := by
    cases wserver
    · simp only [Bool.false_eq_true, if_false]
      rw [List.take_append_of_le_length (by rw [xorMask_length]; exact Nat.le_refl _),
        List.take_of_length_le (by rw [xorMask_length]; exact Nat.le_refl _), xorMask_involutive]
    · simp only [if_true]
      rw [List.take_append_of_le_length (Nat.le_refl _), List.take_length]
      exact Reader.xorMask_zero 0 payload
  have hdrop : ((if wserver then payload else xorMask key 0 payload) ++ X).drop payload.length = X := by
    cases wserver <;> simp [xorMask_length]
  cases frag <;> simp_all [Nat.not_lt.mpr, accOf, typOf, compOf] <;> rfl

/-- `wire`, followed by anything, is decoded by the specification to the events `evs`, after which
the decoder is in reassembly state `frag` -/
def DecodesTo (peer : Cfg) (a : Nat → Bool) (wire : Bytes) (evs : List Event) (frag : Option Frag) : Prop :=
  ∀ (X : Bytes) (fuel fuel' : Nat), (wire ++ X).length < 2 * fuel → X.length < 2 * fuel' →
    decodeQ Quirks.rfc peer a fuel none (wire ++ X) = evs ++ decodeQ Quirks.rfc peer a fuel' frag X

theorem decodesTo_nil (peer : Cfg) (a : Nat → Bool) : DecodesTo peer a [] [] none := by
  intro X fuel fuel' h1 h2
  simp only [List.nil_append] at h1 ⊢
  exact decodeQ_fuel _ _ _ _ _ _ _ h1 h2

/-- appending one encoded data/continuation frame -/
theorem decodesTo_frame {peer : Cfg} {a : Nat → Bool} {wire : Bytes} {evs : List Event}
    {frag : Option Frag} (h : DecodesTo peer a wire evs frag)
    (wserver : Bool) (hside : peer.server = !wserver) (hrl : peer.readLimit = 0)
    (fin rsv1 : Bool) (op : Nat) (key : Key) (payload : Bytes)
    (hop : (op = 0 ∧ frag.isSome = true) ∨ (isDataOp op = true ∧ frag = none))
    (hrsv : rsv1 = true → peer.deflate = true ∧ isDataOp op = true)
    (hlen : (accOf frag).length + payload.length < two63) :
    (fin = false → DecodesTo peer a (wire ++ frameBytes wserver key (firstByte fin rsv1 op) payload) evs
        (some ⟨typOf frag op, compOf frag rsv1, accOf frag ++ payload⟩)) ∧
    (fin = true → (deliver peer (typOf frag op) (compOf frag rsv1) (accOf frag ++ payload)).terminal = false →
      DecodesTo peer a (wire ++ frameBytes wserver key (firstByte fin rsv1 op) payload)
        (evs ++ [deliver peer (typOf frag op) (compOf frag rsv1) (accOf frag ++ payload)]) none) := by
  constructor
  · intro hf X fuel fuel' h1 h2
    rw [List.append_assoc] at h1 ⊢
    rw [h _ fuel ((fuel' + (frameBytes wserver key (firstByte fin rsv1 op) payload).length) + 1) h1
      (by simp only [List.length_append]; omega)]
    rw [decode_data_frame Quirks.rfc peer a _ frag wserver hside hrl fin rsv1 op key payload X hop hrsv hlen]
    simp only [hf, Bool.false_eq_true, if_false]
    rw [decodeQ_fuel _ _ _ _ fuel' _ _ (by omega) h2]
  · intro hf ht X fuel fuel' h1 h2
    rw [List.append_assoc] at h1 ⊢
    rw [h _ fuel ((fuel' + (frameBytes wserver key (firstByte fin rsv1 op) payload).length) + 1) h1
      (by simp only [List.length_append]; omega)]
    rw [decode_data_frame Quirks.rfc peer a _ frag wserver hside hrl fin rsv1 op key payload X hop hrsv hlen]
    simp only [hf, if_true, ht, Bool.false_eq_true, if_false]
    rw [decodeQ_fuel _ _ _ _ fuel' _ _ (by omega) h2]
    simp

/-- `flushFrame` for a data/continuation frame on an open connection: one `frameBytes` more on
the wire -/
theorem flushFrame_data (cfg : WCfg) (c : WConn) (w : MW) (final : Bool) (extra : Bytes)
    (hcs : c.closeSent = false) (hctl : isControlOp w.frameType = false)
    (hex : cfg.server = true ∨ extra = []) :
    flushFrame cfg c w final extra =
      ({ wire := c.wire ++ frameBytes cfg.server (cfg.keyAt c.nkeys)
                    (firstByte final w.compress w.frameType) (w.buf ++ extra),
         nkeys := if cfg.server then c.nkeys else c.nkeys + 1,
         closeSent := false },
       if final then endMessage { w with compress := false } .writeClosed
       else { w with compress := false, buf := [], frameType := 0 },
       none) := by
  have hnc : (w.frameType == opClose) = false := by
    cases h : (w.frameType == opClose)
    · rfl
    · simp only [beq_iff_eq, opClose] at h
      rw [h] at hctl; simp [isControlOp] at hctl
  unfold flushFrame connWrite
  simp only [hctl, Bool.false_and, Bool.false_eq_true, if_false]
  cases hs : cfg.server
  · -- client
    have he : extra = [] := by rcases hex with h | h; (rw [hs] at h; cases h); exact h
    subst he
    simp [hcs, hnc, frameBytes, List.append_assoc]
    cases final <;> simp
  · simp [hcs, hnc, frameBytes, List.append_assoc]
    cases final <;> simp

/-- The message writer `w` on connection `c` has written the message bytes `D` of a data message of
type `typ` (`comp`: RSV1 on its first frame) and the wire so far decodes accordingly. -/
structure WSync (peer : Cfg) (a : Nat → Bool) (typ : Nat) (comp : Bool) (evs : List Event)
    (c : WConn) (w : MW) (D : Bytes) : Prop where
  err : w.err = none
  opn : c.closeSent = false
  state : (w.frameType = typ ∧ w.compress = comp ∧ DecodesTo peer a c.wire evs none ∧ D = w.buf) ∨
    (∃ fl, w.frameType = 0 ∧ w.compress = false ∧
      DecodesTo peer a c.wire evs (some ⟨typ, comp, fl⟩) ∧ D = fl ++ w.buf)

section
variable {peer : Cfg} {a : Nat → Bool} {cfg : WCfg} {typ : Nat} {comp : Bool}
  (hside : peer.server = !cfg.server) (hrl : peer.readLimit = 0) (htyp : isDataOp typ = true)
  (hcomp : comp = true → peer.deflate = true)
include hside hrl htyp hcomp

theorem wsync_ctl {evs : List Event} {c : WConn} {w : MW} {D : Bytes}
    (h : WSync peer a typ comp evs c w D) : isControlOp w.frameType = false := by
  rcases h.state with ⟨h1, _⟩ | ⟨fl, h1, _⟩
  · rw [h1]
    simp only [isDataOp, Bool.or_eq_true, beq_iff_eq] at htyp
    rcases htyp with h | h <;> subst h <;> rfl
  · rw [h1]; rfl

/-- a non-final flush keeps writer and decoder in sync -/
theorem flush_nonfinal {evs : List Event} {c : WConn} {w : MW} {D : Bytes}
    (h : WSync peer a typ comp evs c w D) (extra : Bytes) (hex : cfg.server = true ∨ extra = [])
    (hlen : (D ++ extra).length < two63) :
    ∃ c' w', flushFrame cfg c w false extra = (c', w', none) ∧
      WSync peer a typ comp evs c' w' (D ++ extra) ∧ w'.buf = [] := by
  rw [flushFrame_data cfg c w false extra h.opn (wsync_ctl hside hrl htyp hcomp h) hex]
  refine ⟨_, _, rfl, ⟨h.err, rfl, ?_⟩, rfl⟩
  right
  rcases h.state with ⟨h1, h2, h3, h4⟩ | ⟨fl, h1, h2, h3, h4⟩
  · have := (decodesTo_frame h3 cfg.server hside hrl false comp typ (cfg.keyAt c.nkeys) (w.buf ++ extra)
      (Or.inr ⟨htyp, rfl⟩) (fun hc => ⟨hcomp hc, htyp⟩)
      (by simp only [accOf, List.length_nil, Nat.zero_add]; rw [← h4]; exact hlen)).1 rfl
    refine ⟨w.buf ++ extra, rfl, rfl, ?_, by rw [h4]; simp⟩
    simpa [h1, h2, typOf, compOf, accOf] using this
  · have := (decodesTo_frame h3 cfg.server hside hrl false false 0 (cfg.keyAt c.nkeys) (w.buf ++ extra)
      (Or.inl ⟨rfl, rfl⟩) (fun hc => by cases hc)
      (by simp only [accOf]; rw [← List.length_append, ← List.append_assoc, ← h4]; exact hlen)).1 rfl
    refine ⟨fl ++ (w.buf ++ extra), rfl, rfl, ?_, by rw [h4]; simp⟩
    simpa [h1, h2, typOf, compOf, accOf] using this

/-- the final flush delivers the message -/
theorem flush_final {evs : List Event} {c : WConn} {w : MW} {D : Bytes}
    (h : WSync peer a typ comp evs c w D) (extra : Bytes) (hex : cfg.server = true ∨ extra = [])
    (hlen : (D ++ extra).length < two63)
    (hterm : (deliver peer typ comp (D ++ extra)).terminal = false) :
    ∃ c' w', flushFrame cfg c w true extra = (c', w', none) ∧ c'.closeSent = false ∧
      DecodesTo peer a c'.wire (evs ++ [deliver peer typ comp (D ++ extra)]) none := by
  rw [flushFrame_data cfg c w true extra h.opn (wsync_ctl hside hrl htyp hcomp h) hex]
  refine ⟨_, _, rfl, rfl, ?_⟩
  rcases h.state with ⟨h1, h2, h3, h4⟩ | ⟨fl, h1, h2, h3, h4⟩
  · have := (decodesTo_frame h3 cfg.server hside hrl true comp typ (cfg.keyAt c.nkeys) (w.buf ++ extra)
      (Or.inr ⟨htyp, rfl⟩) (fun hc => ⟨hcomp hc, htyp⟩)
      (by simp only [accOf, List.length_nil, Nat.zero_add]; rw [← h4]; exact hlen)).2 rfl
      (by simpa [typOf, compOf, accOf, h4] using hterm)
    simpa [h1, h2, typOf, compOf, accOf, h4] using this
  · have := (decodesTo_frame h3 cfg.server hside hrl true false 0 (cfg.keyAt c.nkeys) (w.buf ++ extra)
      (Or.inl ⟨rfl, rfl⟩) (fun hc => by cases hc)
      (by simp only [accOf]; rw [← List.length_append, ← List.append_assoc, ← h4]; exact hlen)).2 rfl
      (by simpa [typOf, compOf, accOf, h4] using hterm)
    simpa [h1, h2, typOf, compOf, accOf, h4] using this

/-- adding bytes to the buffer keeps the sync -/
theorem wsync_buffer {evs : List Event} {c : WConn} {w : MW} {D : Bytes}
    (h : WSync peer a typ comp evs c w D) (q : Bytes) :
    WSync peer a typ comp evs c { w with buf := w.buf ++ q } (D ++ q) := by
  refine ⟨h.err, h.opn, ?_⟩
  rcases h.state with ⟨h1, h2, h3, h4⟩ | ⟨fl, h1, h2, h3, h4⟩
  · left; exact ⟨h1, h2, h3, by rw [h4]⟩
  · right; exact ⟨fl, h1, h2, h3, by rw [h4, List.append_assoc]⟩

/-- the copy loop of `Write`/`WriteString`: whatever the buffer size, all of `p` is accepted -/
theorem writeLoop_sync (hB : cfg.bufSize > 0) : ∀ (fuel : Nat) (p : Bytes) {evs : List Event}
    {c : WConn} {w : MW} {D : Bytes}, p.length < fuel → WSync peer a typ comp evs c w D →
    w.buf.length ≤ cfg.bufSize → (D ++ p).length < two63 →
    ∃ c' w', writeLoop cfg fuel c w p = (c', w', none) ∧ WSync peer a typ comp evs c' w' (D ++ p) ∧
      w'.buf.length ≤ cfg.bufSize := by
  intro fuel
  induction fuel with
  | zero => intro p _ _ _ _ hf; omega
  | succ n ih =>
    intro p evs c w D hf h hbuf hlen
    unfold writeLoop
    by_cases hp : p.isEmpty = true
    · simp only [hp, if_true]
      have : p = [] := by simpa using hp
      subst this
      exact ⟨c, w, rfl, by simpa using h, hbuf⟩
    · simp only [hp, Bool.false_eq_true, if_false]
      have hpl : p.length > 0 := by
        cases p with
        | nil => simp at hp
        | cons _ _ => simp
      by_cases hn : (cfg.bufSize - w.buf.length == 0) = true
      · -- buffer full: flush a non-final frame, then copy
        simp only [hn, if_true]
        obtain ⟨c1, w1, hfl, hs1, hb1⟩ := flush_nonfinal hside hrl htyp hcomp h [] (Or.inr rfl)
          (by simp only [List.append_nil]; simp only [List.length_append] at hlen; omega)
        rw [hfl]
        simp only [List.append_nil] at hs1
        have hs2 := wsync_buffer hside hrl htyp hcomp hs1 (p.take (min cfg.bufSize p.length))
        obtain ⟨c', w', hl, hs', hb'⟩ := ih (p.drop (min cfg.bufSize p.length)) (c := c1)
          (w := { w1 with buf := w1.buf ++ p.take (min cfg.bufSize p.length) })
          (by simp only [List.length_drop]; omega) hs2
          (by simp only [hb1, List.nil_append, List.length_take]; omega)
          (by rw [List.append_assoc, List.take_append_drop]; exact hlen)
        refine ⟨c', w', hl, ?_, hb'⟩
        rw [List.append_assoc, List.take_append_drop] at hs'
        exact hs'
      · simp only [hn, Bool.false_eq_true, if_false]
        have hsp : cfg.bufSize - w.buf.length > 0 := by
          simp only [beq_iff_eq] at hn; omega
        have hs2 := wsync_buffer hside hrl htyp hcomp h
          (p.take (min (cfg.bufSize - w.buf.length) p.length))
        obtain ⟨c', w', hl, hs', hb'⟩ := ih (p.drop (min (cfg.bufSize - w.buf.length) p.length)) (c := c)
          (w := { w with buf := w.buf ++ p.take (min (cfg.bufSize - w.buf.length) p.length) })
          (by simp only [List.length_drop]; omega) hs2
          (by simp only [List.length_append, List.length_take]; omega)
          (by rw [List.append_assoc, List.take_append_drop]; exact hlen)
        refine ⟨c', w', hl, ?_, hb'⟩
        rw [List.append_assoc, List.take_append_drop] at hs'
        exact hs'

/-- `messageWriter.Write(p)` -/
theorem mwWrite_sync (hB : cfg.bufSize > 0) {evs : List Event} {c : WConn} {w : MW} {D : Bytes} (p : Bytes)
    (h : WSync peer a typ comp evs c w D) (hbuf : w.buf.length ≤ cfg.bufSize)
    (hlen : (D ++ p).length < two63) :
    ∃ c' w', mwWrite cfg c w p = (c', w', none) ∧ WSync peer a typ comp evs c' w' (D ++ p) ∧
      w'.buf.length ≤ cfg.bufSize := by
  unfold mwWrite
  simp only [h.err]
  split
  · rename_i hbig
    simp only [Bool.and_eq_true, decide_eq_true_eq] at hbig
    obtain ⟨c', w', hfl, hs, hb⟩ := flush_nonfinal hside hrl htyp hcomp h p (Or.inl hbig.2) hlen
    exact ⟨c', w', hfl, hs, by rw [hb]; simp⟩
  · exact writeLoop_sync hside hrl htyp hcomp hB _ p (Nat.lt_succ_self _) h hbuf hlen

/-- `messageWriter.WriteString(p)` -/
theorem mwWriteString_sync (hB : cfg.bufSize > 0) {evs : List Event} {c : WConn} {w : MW} {D : Bytes}
    (p : Bytes) (h : WSync peer a typ comp evs c w D) (hbuf : w.buf.length ≤ cfg.bufSize)
    (hlen : (D ++ p).length < two63) :
    ∃ c' w', mwWriteString cfg c w p = (c', w', none) ∧ WSync peer a typ comp evs c' w' (D ++ p) ∧
      w'.buf.length ≤ cfg.bufSize := by
  unfold mwWriteString
  simp only [h.err]
  exact writeLoop_sync hside hrl htyp hcomp hB _ p (Nat.lt_succ_self _) h hbuf hlen

/-- any sequence of `Write` calls -/
theorem mwWrites_sync (hB : cfg.bufSize > 0) : ∀ (ps : List Bytes) {evs : List Event} {c : WConn}
    {w : MW} {D : Bytes}, WSync peer a typ comp evs c w D → w.buf.length ≤ cfg.bufSize →
    (D ++ ps.flatten).length < two63 →
    ∃ c' w', mwWrites cfg c w ps = (c', w', none) ∧ WSync peer a typ comp evs c' w' (D ++ ps.flatten) ∧
      w'.buf.length ≤ cfg.bufSize := by
  intro ps
  induction ps with
  | nil => intro evs c w D h hb _; exact ⟨c, w, rfl, by simpa using h, hb⟩
  | cons p ps ih =>
    intro evs c w D h hb hlen
    simp only [List.flatten_cons] at hlen ⊢
    obtain ⟨c1, w1, h1, hs1, hb1⟩ := mwWrite_sync hside hrl htyp hcomp hB p h hb
      (by simp only [List.length_append] at hlen ⊢; omega)
    obtain ⟨c2, w2, h2, hs2, hb2⟩ := ih hs1 hb1 (by rw [List.append_assoc]; exact hlen)
    refine ⟨c2, w2, ?_, by rw [← List.append_assoc]; exact hs2, hb2⟩
    simp only [mwWrites, h1, h2]

/-- `NextWriter(typ)`, any `Write` calls, `Close`: one more message for the decoder -/
theorem writeStreamed_sync (hB : cfg.bufSize > 0) {evs : List Event} {c : WConn} (chunks : List Bytes)
    (hd : DecodesTo peer a c.wire evs none) (hopen : c.closeSent = false)
    (hlen : chunks.flatten.length < two63)
    (hterm : (deliver peer typ comp chunks.flatten).terminal = false) :
    ∃ c', writeStreamed cfg c typ comp chunks = (c', none) ∧ c'.closeSent = false ∧
      DecodesTo peer a c'.wire (evs ++ [deliver peer typ comp chunks.flatten]) none := by
  unfold writeStreamed beginMessage
  simp only [htyp, Bool.or_true, Bool.not_true, Bool.false_eq_true, if_false, hopen]
  have h0 : WSync peer a typ comp evs c { frameType := typ, compress := comp } [] :=
    ⟨rfl, hopen, Or.inl ⟨rfl, rfl, hd, rfl⟩⟩
  obtain ⟨c1, w1, h1, hs1, hb1⟩ := mwWrites_sync hside hrl htyp hcomp hB chunks h0 (by simp)
    (by simpa using hlen)
  simp only [List.nil_append] at hs1
  rw [h1]
  simp only [mwClose, hs1.err]
  obtain ⟨c2, w2, h2, hc2, hd2⟩ := flush_final hside hrl htyp hcomp hs1 [] (Or.inr rfl)
    (by simpa using hlen) (by simpa using hterm)
  rw [h2]
  exact ⟨c2, rfl, hc2, by simpa using hd2⟩

/-- `NextWriter(typ)`, any `WriteString` calls, `Close` -/
theorem writeStrings_sync (hB : cfg.bufSize > 0) {evs : List Event} {c : WConn} (chunks : List Bytes)
    (hcf : comp = false)
    (hd : DecodesTo peer a c.wire evs none) (hopen : c.closeSent = false)
    (hlen : chunks.flatten.length < two63) :
    ∃ c', writeStrings cfg c typ chunks = (c', none) ∧ c'.closeSent = false ∧
      DecodesTo peer a c'.wire (evs ++ [.msg typ chunks.flatten]) none := by
  subst hcf
  unfold writeStrings beginMessage
  simp only [htyp, Bool.or_true, Bool.not_true, Bool.false_eq_true, if_false, hopen]
  have h0 : WSync peer a typ false evs c { frameType := typ } [] :=
    ⟨rfl, hopen, Or.inl ⟨rfl, rfl, hd, rfl⟩⟩
  have hall : ∀ (ps : List Bytes) {c : WConn} {w : MW} {D : Bytes}, WSync peer a typ false evs c w D →
      w.buf.length ≤ cfg.bufSize → (D ++ ps.flatten).length < two63 →
      ∃ c' w', mwWriteStrings cfg c w ps = (c', w', none) ∧
        WSync peer a typ false evs c' w' (D ++ ps.flatten) ∧ w'.buf.length ≤ cfg.bufSize := by
    intro ps
    induction ps with
    | nil => intro c w D h hb _; exact ⟨c, w, rfl, by simpa using h, hb⟩
    | cons p ps ih =>
      intro c w D h hb hlen
      simp only [List.flatten_cons] at hlen ⊢
      obtain ⟨c1, w1, h1, hs1, hb1⟩ := mwWriteString_sync hside hrl htyp hcomp hB p h hb
        (by simp only [List.length_append] at hlen ⊢; omega)
      obtain ⟨c2, w2, h2, hs2, hb2⟩ := ih hs1 hb1 (by rw [List.append_assoc]; exact hlen)
      refine ⟨c2, w2, ?_, by rw [← List.append_assoc]; exact hs2, hb2⟩
      simp only [mwWriteStrings, h1, h2]
  obtain ⟨c1, w1, h1, hs1, hb1⟩ := hall chunks h0 (by simp) (by simpa using hlen)
  simp only [List.nil_append] at hs1
  rw [h1]
  simp only [mwClose, hs1.err]
  obtain ⟨c2, w2, h2, hc2, hd2⟩ := flush_final hside hrl htyp hcomp hs1 [] (Or.inr rfl)
    (by simpa using hlen) (by simp [deliver, Event.terminal])
  rw [h2]
  exact ⟨c2, rfl, hc2, by simpa [deliver] using hd2⟩

/-- `WriteMessage(typ, data)` without compression: the single-frame fast path of a server, the
`NextWriter` path otherwise -/
theorem writeMessagePlain_sync (hB : cfg.bufSize > 0) {evs : List Event} {c : WConn} (data : Bytes)
    (hcf : comp = false)
    (hd : DecodesTo peer a c.wire evs none) (hopen : c.closeSent = false)
    (hlen : data.length < two63) :
    ∃ c', writeMessagePlain cfg c typ data = (c', none) ∧ c'.closeSent = false ∧
      DecodesTo peer a c'.wire (evs ++ [.msg typ data]) none := by
  unfold writeMessagePlain
  split
  · rename_i hfast
    simp only [Bool.and_eq_true] at hfast
    subst hcf
    unfold beginMessage
    simp only [htyp, Bool.or_true, Bool.not_true, Bool.false_eq_true, if_false, hopen]
    have h0 : WSync peer a typ false evs c { frameType := typ, buf := data.take cfg.bufSize }
        (data.take cfg.bufSize) := ⟨rfl, hopen, Or.inl ⟨rfl, rfl, hd, rfl⟩⟩
    obtain ⟨c2, w2, h2, hc2, hd2⟩ := flush_final hside hrl htyp hcomp h0 (data.drop cfg.bufSize)
      (Or.inl hfast.1) (by rw [List.take_append_drop]; exact hlen)
      (by simp [deliver, Event.terminal])
    rw [h2]
    refine ⟨c2, rfl, hc2, ?_⟩
    simpa [deliver, List.take_append_drop] using hd2
  · subst hcf
    obtain ⟨c', h1, h2, h3⟩ := writeStreamed_sync hside hrl htyp hcomp hB (evs := evs) (c := c) [data] hd hopen
      (by simpa using hlen) (by simp [deliver, Event.terminal])
    exact ⟨c', h1, h2, by simpa [deliver] using h3⟩

end

theorem decodesTo_append {peer : Cfg} {a : Nat → Bool} {w1 w2 : Bytes} {e1 e2 : List Event}
    (h1 : DecodesTo peer a w1 e1 none) (h2 : DecodesTo peer a w2 e2 none) :
    DecodesTo peer a (w1 ++ w2) (e1 ++ e2) none := by
  intro X fuel fuel' hf hf'
  rw [List.append_assoc] at hf ⊢
  rw [h1 (w2 ++ X) fuel (fuel' + w2.length + 1) hf (by simp only [List.length_append]; omega)]
  rw [h2 X (fuel' + w2.length + 1) fuel' (by simp only [List.length_append]; omega) hf']
  simp

section
variable {peer : Cfg} {a : Nat → Bool} {cfg : WCfg} {typ : Nat}
  (hside : peer.server = !cfg.server) (hrl : peer.readLimit = 0) (htyp : isDataOp typ = true)
include hside hrl htyp

theorem writePrepared_sync {evs : List Event} {c : WConn} (data : Bytes)
    (hd : DecodesTo peer a c.wire evs none) (hopen : c.closeSent = false)
    (hlen : data.length < two63) :
    ∃ c', writePrepared cfg c typ data = (c', none) ∧ c'.closeSent = false ∧
      DecodesTo peer a c'.wire (evs ++ [.msg typ data]) none := by
  unfold writePrepared
  obtain ⟨pc, h1, h2, h3⟩ := writeMessagePlain_sync (peer := peer) (a := a)
    (cfg := { cfg with bufSize := 4096, compress := false }) (typ := typ) (comp := false)
    hside hrl htyp (fun h => by cases h) (by show 4096 > 0; omega) (evs := []) (c := { nkeys := c.nkeys }) data rfl
    (decodesTo_nil peer a) rfl hlen
  simp only [h1]
  have hnc : (typ == opClose) = false := by
    simp only [isDataOp, Bool.or_eq_true, beq_iff_eq] at htyp
    rcases htyp with h | h <;> subst h <;> rfl
  simp only [connWrite, hopen, Bool.false_eq_true, if_false, hnc]
  refine ⟨_, rfl, rfl, ?_⟩
  simpa using decodesTo_append hd h3

theorem writeCompressed_sync (hB : cfg.bufSize > 0) (hdefl : peer.deflate = true)
    (hlim : peer.inflatedLimit = 0) {evs : List Event} {c : WConn}
    (data dfl : Bytes) (deflChunks : List Bytes)
    (hchunks : deflChunks.flatten = dfl ++ deflateTail)
    (hcodec : peer.inflate (dfl ++ deflateTail) = some data)
    (hd : DecodesTo peer a c.wire evs none) (hopen : c.closeSent = false)
    (hlen : dfl.length < two63) :
    ∃ c', writeCompressed cfg c typ deflChunks = (c', none) ∧ c'.closeSent = false ∧
      DecodesTo peer a c'.wire (evs ++ [.msg typ data]) none := by
  have hs := twWrites_spec deflChunks {} (by simp)
  simp only [List.length_nil, List.nil_append, Nat.zero_add] at hs
  rw [hchunks] at hs
  have hl : (twWrites {} deflChunks).1.held.length = deflateTail.length := by
    rw [hs.2]; simp only [List.length_append, deflateTail, List.length_cons, List.length_nil]; omega
  obtain ⟨hout, hheld⟩ := List.append_inj' hs.1 hl
  have hdel : deliver peer typ true (twWrites {} deflChunks).2.flatten = .msg typ data := by
    simp [deliver, hout, hcodec, hlim]
  obtain ⟨c', h1, h2, h3⟩ := writeStreamed_sync (peer := peer) (a := a) (cfg := cfg) (typ := typ)
    (comp := true) hside hrl htyp (fun _ => hdefl) hB (evs := evs) (c := c) (twWrites {} deflChunks).2 hd hopen
    (by rw [hout]; exact hlen) (by rw [hdel]; rfl)
  refine ⟨c', ?_, h2, by rw [hdel] at h3; exact h3⟩
  rw [← h1]
  unfold writeCompressed writeStreamed
  cases hb : beginMessage c typ with
  | some e => rfl
  | none =>
    simp only []
    generalize hm : mwWrites cfg c { frameType := typ, compress := true } (twWrites {} deflChunks).2 = r
    obtain ⟨c1, w1, e1⟩ := r
    cases e1 with
    | some e => rfl
    | none => simp [hheld]

end

end CentrifugeVerif.WS
