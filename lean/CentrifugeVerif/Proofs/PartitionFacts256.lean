import CentrifugeVerif.Proofs.Partition
import CentrifugeVerif.Gen.PartitionTags256
/-!
Kernel-evaluated facts about the bundled tag table for 256 partitions (`Gen/PartitionTags256.lean`,
regenerated from `precomputed.go` on every run): length, well-formedness, the slots Redis computes
(specification CRC16 + hash-tag rule), strict monotonicity of the slot list, balance for every cluster size.
-/
namespace CentrifugeVerif.Partition
open CentrifugeVerif.Gen.PartitionTags
set_option maxRecDepth 1000000

theorem len256 : tags256.length = 256 := by decide +kernel
theorem wf256 : tags256.all tagWF = true := by decide +kernel
theorem slotsEq256 : slotsOf tags256 = slots256 := by decide +kernel
theorem sorted256 : strictlyIncreasing slots256 = true := by decide +kernel
theorem bal256_1 : checkRange slots256 1 64 = true := by decide +kernel
theorem bal256_65 : checkRange slots256 65 64 = true := by decide +kernel
theorem bal256_129 : checkRange slots256 129 64 = true := by decide +kernel
theorem bal256_193 : checkRange slots256 193 64 = true := by decide +kernel

theorem balanced256 : ∀ k, 1 ≤ k → k ≤ 256 → Balanced (slotsOf tags256) k := by
  intro k h1 h2
  rw [slotsEq256]
  by_cases h0 : k < 65
  · exact checkRange_sound _ _ _ bal256_1 k (by omega) (by omega)
  by_cases h1 : k < 129
  · exact checkRange_sound _ _ _ bal256_65 k (by omega) (by omega)
  by_cases h2 : k < 193
  · exact checkRange_sound _ _ _ bal256_129 k (by omega) (by omega)
  exact checkRange_sound _ _ _ bal256_193 k (by omega) (by omega)

end CentrifugeVerif.Partition
