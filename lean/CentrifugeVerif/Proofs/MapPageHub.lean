import CentrifugeVerif.Proofs.MapPage
import CentrifugeVerif.Proofs.MapHubAssoc
/-!
The generic pagination theorems of `Proofs/MapPage.lean` lifted to the hub model
(`MapHub.getState` of `Model/MapHub.lean`): the client's loop over `ReadState` and single-key reads.

The cursor string `"score\x00key"` / `"key"` is represented by `Cursor.ofElem`: what `getState` reads
back from the cursor it handed out (decimal score round trip and the split at the first NUL byte are
exercised by the differential run, see props/C21/meta.json).
-/
namespace CentrifugeVerif.MapHub
open CentrifugeVerif.MapPage

/-- the request cursor a client sends back after receiving cursor element `e`. -/
def Cursor.ofElem (ordered : Bool) (e : Elem) : Cursor :=
  if ordered then ⟨[], e.1, e.2⟩ else ⟨e.2, 0, []⟩

/-- the client's loop over the hub model: `ReadState` from the empty cursor while the returned cursor is
non-empty; `none` = a reply that is not a state page (error). -/
def hubPaginate (rc : RawCfg) (h : Hub) (ch : Nat) (limit : Int) (asc : Bool) :
    Nat → Option Cursor → List Pub → Option (List Pub × Bool)
  | 0, _, acc => some (acc, false)
  | fuel + 1, cur, acc =>
    match (getState rc h ch { cursor := cur, limit := limit, asc := asc }).2.res with
    | .state pubs _ c ord =>
      match c with
      | none => some (acc ++ pubs, true)
      | some e => hubPaginate rc h ch limit asc fuel (some (Cursor.ofElem ord e)) (acc ++ pubs)
    | _ => none

/-- stored publication of an element's key. -/
def statePubOf (c : Chan) (e : Elem) : Option Pub := (aget c.state e.2).map (·.pub)

theorem elems_map_snd (c : Chan) : c.elems.map (·.2) = akeys c.state := by
  simp [Chan.elems, akeys, List.map_map, Function.comp_def]

theorem nodup_of_map_nodup {α β : Type} (f : α → β) : ∀ l : List α, (l.map f).Nodup → l.Nodup
  | [], _ => List.nodup_nil
  | a :: l, h => by
    simp only [List.map_cons, List.nodup_cons] at h ⊢
    exact ⟨fun hm => h.1 (List.mem_map_of_mem hm), nodup_of_map_nodup f l h.2⟩

theorem elems_nodup (c : Chan) (h : (akeys c.state).Nodup) : c.elems.Nodup := by
  rw [← elems_map_snd] at h
  exact nodup_of_map_nodup _ _ h

theorem elems_length (c : Chan) : c.elems.length = c.state.length := by simp [Chan.elems]

theorem elems_unordered_score (c : Chan) (hu : c.ordered = false) : ∀ e ∈ c.elems, e.1 = 0 := by
  intro e he
  simp only [Chan.elems, List.mem_map] at he
  obtain ⟨kv, _, rfl⟩ := he
  simp [hu]

theorem statePubOf_isSome_of_mem (c : Chan) : ∀ e ∈ c.elems, (statePubOf c e).isSome = true := by
  intro e he
  simp only [Chan.elems, List.mem_map] at he
  obtain ⟨kv, hkv, rfl⟩ := he
  simp only [statePubOf, Option.isSome_map]
  cases hget : aget c.state kv.1 with
  | some v => rfl
  | none => exact absurd hkv ((aget_none_iff.mp hget) kv.2)

theorem filterMap_length_of_isSome {α β : Type} (f : α → Option β) :
    ∀ l : List α, (∀ a ∈ l, (f a).isSome = true) → (l.filterMap f).length = l.length
  | [], _ => rfl
  | a :: l, h => by
    have ha := h a (List.mem_cons_self)
    cases hfa : f a with
    | none => rw [hfa] at ha; cases ha
    | some b =>
      simp only [List.filterMap_cons, hfa, List.length_cons]
      rw [filterMap_length_of_isSome f l (fun x hx => h x (List.mem_cons_of_mem _ hx))]

section Generic
variable {α : Type} (lt : α → α → Bool)

theorem paginate_acc (L : List α) (limit : Int) :
    ∀ (fuel : Nat) (cur : Option α) (acc : List α),
      paginate lt L limit fuel cur acc
        = (acc ++ (paginate lt L limit fuel cur []).1, (paginate lt L limit fuel cur []).2)
  | 0, _, acc => by simp [paginate]
  | fuel + 1, cur, acc => by
    simp only [paginate]
    cases hc : (getPage lt L cur limit).cursor with
    | none => simp
    | some c =>
      simp only [List.nil_append]
      rw [paginate_acc L limit fuel (some c) (acc ++ (getPage lt L cur limit).items),
          paginate_acc L limit fuel (some c) ((getPage lt L cur limit).items)]
      simp [List.append_assoc]

theorem getPage_cursor_mem (L : List α) (cur : Option α) (limit : Int) (c : α)
    (h : (getPage lt L cur limit).cursor = some c) : c ∈ L := by
  rw [getPage_eq] at h
  split at h
  · cases h
  · split at h
    · cases h
    · split at h
      · simp only at h
        split at h
        · exact List.mem_of_getElem? h
        · cases h
      · cases h

end Generic

/-- one `ReadState` page of the hub model is `getPage` over the channel's sorted elements. -/
theorem getState_page (rc : RawCfg) (cfg : Cfg) (h : Hub) (ch : Nat) (c : Chan) (limit : Int) (asc : Bool)
    (hres : resolve rc = some cfg) (hc : aget h.chans ch = some c) (hl : limit ≠ 0)
    (cu : Option Elem) (hcu : ∀ e, cu = some e → c.ordered = false → e.1 = 0) :
    getState rc h ch { cursor := cu.map (Cursor.ofElem c.ordered), limit := limit, asc := asc }
      = (h, ⟨.state ((getPage (elemLt (c.dir asc)) (isort (elemLt (c.dir asc)) c.elems) cu limit).items.filterMap (statePubOf c))
                c.stream.pos
                (getPage (elemLt (c.dir asc)) (isort (elemLt (c.dir asc)) c.elems) cu limit).cursor c.ordered, []⟩) := by
  have hcur : Option.map (fun cu : Cursor => if c.ordered then (cu.score, cu.skey) else ((0 : Int), cu.key))
      (cu.map (Cursor.ofElem c.ordered)) = cu := by
    cases cu with
    | none => rfl
    | some e =>
      cases ho : c.ordered with
      | true => simp [Cursor.ofElem]
      | false =>
        have := hcu e rfl ho
        obtain ⟨s, k⟩ := e
        simp only at this
        subst this
        simp [Cursor.ofElem]
  unfold getState
  simp only [hres, hc, hcur, hl, if_false, bne_self_eq_false, Bool.false_eq_true, statePubOf]
  rfl

/-- the hub loop is the generic loop, publication by publication. -/
theorem hubPaginate_eq (rc : RawCfg) (cfg : Cfg) (h : Hub) (ch : Nat) (c : Chan) (limit : Int) (asc : Bool)
    (hres : resolve rc = some cfg) (hc : aget h.chans ch = some c) (hl : limit ≠ 0) :
    ∀ (fuel : Nat) (cu : Option Elem) (acc : List Pub),
      (∀ e, cu = some e → c.ordered = false → e.1 = 0) →
      hubPaginate rc h ch limit asc fuel (cu.map (Cursor.ofElem c.ordered)) acc
        = some (acc ++ (paginate (elemLt (c.dir asc)) (isort (elemLt (c.dir asc)) c.elems) limit fuel cu []).1.filterMap (statePubOf c),
                (paginate (elemLt (c.dir asc)) (isort (elemLt (c.dir asc)) c.elems) limit fuel cu []).2)
  | 0, cu, acc, _ => by simp [hubPaginate, paginate]
  | fuel + 1, cu, acc, hcu => by
    simp only [hubPaginate, paginate]
    rw [getState_page rc cfg h ch c limit asc hres hc hl cu hcu]
    simp only
    cases hcur : (getPage (elemLt (c.dir asc)) (isort (elemLt (c.dir asc)) c.elems) cu limit).cursor with
    | none => simp
    | some e =>
      simp only [List.nil_append]
      have hmem := getPage_cursor_mem _ _ cu limit e hcur
      have hmem' : e ∈ c.elems := (isort_perm _ _).mem_iff.mp hmem
      have ih := hubPaginate_eq rc cfg h ch c limit asc hres hc hl fuel (some e)
        (acc ++ (getPage (elemLt (c.dir asc)) (isort (elemLt (c.dir asc)) c.elems) cu limit).items.filterMap (statePubOf c))
        (by intro e' he' hu; cases he'; exact elems_unordered_score c hu e hmem')
      simp only [Option.map_some] at ih
      rw [ih, paginate_acc _ _ _ fuel (some e) ((getPage _ _ cu limit).items)]
      simp [List.filterMap_append, List.append_assoc]

/-- **hub_pages_concat**: for every hub state, every existing channel (any mode, ordered or not), every page
size `limit ≥ 1` and either direction, paginating `ReadState` from the empty cursor while the returned cursor is
non-empty finishes within `size + 1` requests, and the concatenation of the pages is exactly the list of stored
publications in the channel's sort order — one per key. -/
theorem hub_pages_concat (rc : RawCfg) (cfg : Cfg) (h : Hub) (ch : Nat) (c : Chan) (limit : Int) (asc : Bool)
    (hres : resolve rc = some cfg) (hc : aget h.chans ch = some c) (hnd : (akeys c.state).Nodup) (hl : 0 < limit) :
    hubPaginate rc h ch limit asc (c.state.length + 1) none []
      = some ((isort (elemLt (c.dir asc)) c.elems).filterMap (statePubOf c), true) ∧
    ((isort (elemLt (c.dir asc)) c.elems).filterMap (statePubOf c)).length = c.state.length ∧
    (isort (elemLt (c.dir asc)) c.elems).Perm c.elems ∧
    (isort (elemLt (c.dir asc)) c.elems).Pairwise (fun a b => elemLt (c.dir asc) a b = true) := by
  have hnd' := elems_nodup c hnd
  have hmain := MapPage.pages_concat_eq_sorted (elemLt_strictTotal (c.dir asc)) c.elems hnd' limit hl
  unfold paginateAll at hmain
  rw [elems_length] at hmain
  have := hubPaginate_eq rc cfg h ch c limit asc hres hc (by omega) (c.state.length + 1) none []
    (by intro e he; cases he)
  simp only [Option.map_none, List.nil_append, hmain] at this
  refine ⟨this, ?_, isort_perm _ _, isort_sorted (elemLt_strictTotal _) _ hnd'⟩
  rw [filterMap_length_of_isSome, isort_length, elems_length]
  intro e he
  exact statePubOf_isSome_of_mem c e ((isort_perm _ _).mem_iff.mp he)

/-- **single_key_read**: a `ReadState` with `Key` set returns exactly the stored entry of that key (or nothing),
whatever `Limit`, `Cursor` and direction are, with the channel's current position. -/
theorem single_key_read (rc : RawCfg) (cfg : Cfg) (h : Hub) (ch : Nat) (c : Chan) (o : StateOpts)
    (hres : resolve rc = some cfg) (hc : aget h.chans ch = some c) (hk : o.key ≠ [])
    (hrev : ∀ rv, o.rev = some rv → rv.epoch = c.stream.epoch) :
    getState rc h ch o
      = (h, ⟨.state (match aget c.state o.key with | some e => [e.pub] | none => []) c.stream.pos none c.ordered, []⟩) := by
  unfold getState
  simp only [hres, hc]
  cases hrv : o.rev with
  | none =>
    simp only [Bool.false_eq_true, if_false, bne_iff_ne, ne_eq, hk, not_false_eq_true, if_true]
    cases aget c.state o.key <;> rfl
  | some rv =>
    have := hrev rv hrv
    simp only [Stream.pos, this, ne_eq, not_true_eq_false, decide_false, Bool.false_eq_true, if_false,
      bne_iff_ne, hk, not_false_eq_true, if_true]
    cases aget c.state o.key <;> rfl

end CentrifugeVerif.MapHub
