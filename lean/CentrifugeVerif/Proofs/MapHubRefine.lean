import CentrifugeVerif.Proofs.MapHub
import CentrifugeVerif.Spec.RefMap
/-!
# `MapHub.step` refines `RefMap.step`

The executable model of the in-memory map broker (`Model/MapHub.lean`), seen through the abstraction
`abs` (forget heap, deadline table, scores, ordered flag), *is* the reference map of `Spec/RefMap.lean`:
same abstract state after every supported operation, identical outputs (result and broadcasts).
-/
namespace CentrifugeVerif.RefMap
open CentrifugeVerif.MapHub

/-! ### abstraction -/

/-- forget heap, deadline table, scores, ordered flag -/
def absChan (c : Chan) : RChan := ⟨c.stream.epoch, c.stream.top, c.stream.items, c.state⟩

def abs (h : Hub) : RefMap := ⟨h.chans.map (fun kv => (kv.1, absChan kv.2)), h.cache, h.nextEpoch⟩

/-- the implementation's current `ordered` flag of a channel (only labels read-state replies) -/
def orderedOf (h : Hub) (ch : Nat) : Bool :=
  match aget h.chans ch with
  | some c => c.ordered
  | none => false

/-- a step result seen through the abstraction -/
def absOut (r : Hub × MOut) : RefMap × MOut := (abs r.1, r.2)

/-! ### association lists under a map of the values -/

section Assoc
variable {κ ν μ : Type} [DecidableEq κ] (f : ν → μ)

theorem aget_map (l : List (κ × ν)) (k : κ) :
    aget (l.map (fun kv => (kv.1, f kv.2))) k = (aget l k).map f := by
  induction l with
  | nil => rfl
  | cons x t ih =>
    obtain ⟨k', v'⟩ := x
    by_cases hk : k' = k
    · simp [aget, hk]
    · simp [aget, hk, ih]

theorem aset_map (l : List (κ × ν)) (k : κ) (v : ν) :
    (aset l k v).map (fun kv => (kv.1, f kv.2)) = aset (l.map (fun kv => (kv.1, f kv.2))) k (f v) := by
  induction l with
  | nil => rfl
  | cons x t ih =>
    obtain ⟨k', v'⟩ := x
    by_cases hk : k' = k
    · simp [aset, hk]
    · simp [aset, hk, ih]

theorem adel_map (l : List (κ × ν)) (k : κ) :
    (adel l k).map (fun kv => (kv.1, f kv.2)) = adel (l.map (fun kv => (kv.1, f kv.2))) k := by
  induction l with
  | nil => rfl
  | cons x t ih =>
    obtain ⟨k', v'⟩ := x
    by_cases hk : k' = k
    · simp [adel, hk, ih]
    · simp [adel, hk, ih]

theorem aset_self (l : List (κ × ν)) (k : κ) (v : ν) (h : aget l k = some v) : aset l k v = l := by
  induction l with
  | nil => simp [aget] at h
  | cons x t ih =>
    obtain ⟨k', v'⟩ := x
    by_cases hk : k' = k
    · simp [aget, hk] at h; simp [aset, hk, h]
    · simp [aget, hk] at h; simp [aset, hk, ih h]

theorem adel_absent (l : List (κ × ν)) (k : κ) (h : aget l k = none) : adel l k = l := by
  induction l with
  | nil => rfl
  | cons x t ih =>
    obtain ⟨k', v'⟩ := x
    by_cases hk : k' = k
    · simp [aget, hk] at h
    · simp [aget, hk] at h; simp [adel, hk, ih h]

end Assoc

/-! ### `abs` of the hub helpers -/

@[simp] theorem absChan_state (c : Chan) : (absChan c).state = c.state := rfl
@[simp] theorem absChan_top (c : Chan) : (absChan c).top = c.stream.top := rfl
@[simp] theorem absChan_epoch (c : Chan) : (absChan c).epoch = c.stream.epoch := rfl
@[simp] theorem absChan_stream (c : Chan) : (absChan c).stream = c.stream.items := rfl
@[simp] theorem absChan_pos (c : Chan) : (absChan c).pos = c.stream.pos := rfl
@[simp] theorem abs_cache (h : Hub) : (abs h).cache = h.cache := rfl
@[simp] theorem abs_nextEpoch (h : Hub) : (abs h).nextEpoch = h.nextEpoch := rfl

theorem abs_get (h : Hub) (ch : Nat) : aget (abs h).chans ch = (aget h.chans ch).map absChan :=
  aget_map absChan h.chans ch

theorem abs_setChan (h : Hub) (ch : Nat) (c : Chan) :
    abs (h.setChan ch c) = { abs h with chans := aset (abs h).chans ch (absChan c) } := by
  simp only [abs, Hub.setChan, aset_map]

theorem abs_trackTTL (h : Hub) (ck : ChKey) (e : Nat) : abs (h.trackTTL ck e) = abs h := rfl

theorem abs_cachePut (h : Hub) (now ch i : Nat) (p : Pos) (t : Nat) :
    abs (MapHub.cachePut h now ch i p t) = RefMap.cachePut (abs h) now ch i p t := rfl

theorem cacheGet_abs (h : Hub) (now ch i : Nat) :
    RefMap.cacheGet (abs h) now ch i = MapHub.cacheGet h now ch i := by
  unfold RefMap.cacheGet MapHub.cacheGet
  simp only [abs_cache]
  split <;> rename_i hq <;> simp only [hq]

/-- the spec's get-or-fresh channel is the abstraction of the model's get-or-create step -/
theorem touch_abs (cfg : Cfg) (h : Hub) (ch : Nat) :
    touch (abs h) ch = (abs (hubFor cfg h ch), absChan (chanFor cfg h ch)) := by
  unfold touch hubFor chanFor
  rw [abs_get]
  cases hq : aget h.chans ch with
  | none =>
    simp only [Option.map]
    simp only [abs, aset_map]
    rfl
  | some c =>
    simp only [Option.map]
    by_cases hc : (cfg.ordered && !c.ordered) = true
    · simp only [hc, if_true, abs_setChan]
      have : aget (abs h).chans ch = some (absChan c) := by rw [abs_get, hq]; rfl
      have h2 : absChan { c with ordered := true } = absChan c := rfl
      rw [h2, aset_self _ _ _ this]
    · rw [if_neg hc, if_neg hc]

/-! ### the checks agree -/

theorem checkVersion_abs (cfg : Cfg) (c : Chan) (key : Key) (o : PubOpts) :
    checkVersion cfg (absChan c) key o = if versionBlocked cfg c key o then some .version else none := by
  unfold checkVersion versionBlocked
  simp only [absChan_state]
  cases aget c.state key with
  | none => simp
  | some e =>
    simp only []
    by_cases h1 : cfg.hasStream = true <;> by_cases h2 : key = [] <;> by_cases h3 : 0 < o.version <;>
      by_cases h4 : o.vepoch = 0 <;> by_cases h5 : o.vepoch = e.vepoch <;>
      by_cases h6 : o.version ≤ e.version <;> simp [h1, h2, h3, h4, h5, h6]

theorem checkKeyMode_abs (c : Chan) (key : Key) (o : PubOpts) :
    checkKeyMode (absChan c) key o = keyModeBlocked c key o := by
  unfold checkKeyMode keyModeBlocked
  simp only [absChan_state]
  by_cases hk : key = []
  · simp [hk]
  · cases hm : o.mode <;> cases hq : aget c.state key <;> simp [hk]

theorem checkCAS_abs (c : Chan) (key : Key) (cas : Option Pos) :
    checkCAS (absChan c) key cas = (casBlocked c key cas).map (fun _ => .positionMismatch) := by
  unfold checkCAS casBlocked
  simp only [absChan_state, absChan_epoch]
  cases cas with
  | none => rfl
  | some exp =>
    cases aget c.state key with
    | none => rfl
    | some e =>
      simp only []
      by_cases h1 : e.pub.offset = exp.offset <;> by_cases h2 : c.stream.epoch = exp.epoch <;> simp [h1, h2]

/-- the specification's verdict is the decision `decideSup` the model is proved to take (`add_sup`) -/
theorem verdict_abs (cfg : Cfg) (c : Chan) (key : Key) (o : PubOpts) :
    verdict cfg (absChan c) key o = decideSup cfg c key o := by
  unfold verdict decideSup
  rw [checkVersion_abs, checkKeyMode_abs, checkCAS_abs]
  cases hv : versionBlocked cfg c key o with
  | true => simp
  | false =>
    simp only [Bool.false_eq_true, if_false]
    cases hk : keyModeBlocked c key o with
    | some r => rfl
    | none =>
      simp only []
      by_cases hne : key = []
      · simp [hne]
      · cases hc : casBlocked c key o.cas <;> simp [hne]

/-- the current publication a failed compare-and-swap reports is the stored one -/
theorem casBlocked_cur {c : Chan} {key : Key} {cas : Option Pos} {cur : Option Pub}
    (h : casBlocked c key cas = some cur) : cur = (aget c.state key).map (·.pub) := by
  unfold casBlocked at h
  cases cas with
  | none => simp at h
  | some exp =>
    simp only [] at h
    cases hq : aget c.state key with
    | none => simp [hq] at h; simp [← h]
    | some e =>
      simp only [hq] at h
      split at h
      · simp at h; simp [← h]
      · simp at h

/-! ### clear, read-stream, read-state -/

theorem clear_refines (h : Hub) (ch : Nat) : abs (MapHub.clear h ch) = RefMap.clear (abs h) ch := by
  unfold MapHub.clear RefMap.clear
  cases hq : aget h.chans ch with
  | none =>
    have : aget (abs h).chans ch = none := by rw [abs_get, hq]; rfl
    simp only [adel_absent _ _ this]
    rfl
  | some c =>
    simp only [abs, adel_map]

theorem createPos_abs (h : Hub) (ch : Nat) (hq : aget h.chans ch = none) :
    touch (abs h) ch = (abs (h.createPos ch).1, RChan.fresh h.nextEpoch) ∧
    (h.createPos ch).2 = (RChan.fresh h.nextEpoch).pos := by
  have : aget (abs h).chans ch = none := by rw [abs_get, hq]; rfl
  unfold touch
  simp only [this]
  simp only [Hub.createPos, abs, aset_map]
  exact ⟨rfl, rfl⟩

theorem readStream_refines (h : Hub) (ch : Nat) (o : StreamOpts) :
    absOut (getStream h ch o) = readStream (abs h) ch o := by
  unfold getStream readStream absOut
  rw [abs_get]
  cases hq : aget h.chans ch with
  | none =>
    obtain ⟨h1, h2⟩ := createPos_abs h ch hq
    simp only [Option.map, h1, h2]
  | some c =>
    simp only [Option.map]
    cases o.since with
    | none =>
      simp only []
      split <;> rfl
    | some s =>
      simp only []
      split
      · rename_i h1; exact (if_pos h1).symm
      · rename_i h1
        refine Eq.trans ?_ (if_neg h1).symm
        split
        · rename_i h2; exact (if_pos h2).symm
        · rename_i h2; exact (if_neg h2).symm

theorem readKey_refines (rc : RawCfg) (h : Hub) (ch : Nat) (o : StateOpts)
    (hs : o.key ≠ [] ∨ o.limit = 0) :
    absOut (getState rc h ch o) = readKey rc (abs h) ch o (orderedOf h ch) := by
  unfold getState readKey absOut orderedOf
  rw [abs_get]
  cases resolve rc with
  | none => rfl
  | some cfg =>
    simp only []
    cases hq : aget h.chans ch with
    | none =>
      obtain ⟨h1, h2⟩ := createPos_abs h ch hq
      simp only [Option.map, h1, h2]
      cases o.rev with
      | none => rfl
      | some rv => simp only []; split <;> rfl
    | some c =>
      simp only [Option.map]
      -- the part below the epoch check
      have inner : ∀ x : Hub × MOut,
          (abs (if (o.key != []) = true then
                  match aget c.state o.key with
                  | none => (h, (⟨.state [] c.stream.pos none c.ordered, []⟩ : MOut))
                  | some e => (h, ⟨.state [e.pub] c.stream.pos none c.ordered, []⟩)
                else if o.limit = 0 then (h, ⟨.state [] c.stream.pos none c.ordered, []⟩) else x).1,
            (if (o.key != []) = true then
                  match aget c.state o.key with
                  | none => (h, (⟨.state [] c.stream.pos none c.ordered, []⟩ : MOut))
                  | some e => (h, ⟨.state [e.pub] c.stream.pos none c.ordered, []⟩)
                else if o.limit = 0 then (h, ⟨.state [] c.stream.pos none c.ordered, []⟩) else x).2)
          = (if (o.key != []) = true then
              match aget (absChan c).state o.key with
              | none => (abs h, (⟨.state [] (absChan c).pos none c.ordered, []⟩ : MOut))
              | some e => (abs h, ⟨.state [e.pub] (absChan c).pos none c.ordered, []⟩)
            else (abs h, ⟨.state [] (absChan c).pos none c.ordered, []⟩)) := by
        intro x
        by_cases hk : (o.key != []) = true
        · simp only [hk, if_true, absChan_state]
          cases aget c.state o.key <;> rfl
        · have hl : o.limit = 0 := by
            rcases hs with hs | hs
            · exact absurd (by simpa using hs) hk
            · exact hs
          simp only [hk, hl, if_true]
          rfl
      cases o.rev with
      | none =>
        simp only [Bool.false_eq_true, if_false]
        exact inner _
      | some rv =>
        simp only []
        split
        · rename_i h1; exact (if_pos h1).symm
        · rename_i h1
          refine Eq.trans ?_ (if_neg h1).symm
          exact inner _

/-! ### remove -/

/-- model: what `removeOp` does with the result of `remove` (after the idempotency lookup) -/
def rmTail (r : Hub × Pos × Option Pub × Suppress) (now ch : Nat) (o : RmOpts) : Hub × MOut :=
  if r.2.2.2 ≠ .none then
    (r.1, ⟨.update r.2.1 r.2.2.2
      (if r.2.2.2 = .positionMismatch then r.2.2.1.map (fun p => (p.offset, p.data)) else none), []⟩)
  else
    match r.2.2.1 with
    | some pub =>
      (if o.idem ≠ 0 then MapHub.cachePut r.1 now ch o.idem r.2.1 o.ittl else r.1,
        ⟨.update r.2.1 .none none, [⟨ch, pub, r.2.1, false, none⟩]⟩)
    | none =>
      (if o.idem ≠ 0 then MapHub.cachePut r.1 now ch o.idem r.2.1 o.ittl else r.1,
        ⟨.update r.2.1 .none none, []⟩)

/-- spec: `RefMap.remove` on an existing channel -/
def rmCoreC (cfg : Cfg) (m : RefMap) (c : RChan) (now ch : Nat) (key : Key) (o : RmOpts) : RefMap × MOut :=
  match checkCAS c key o.cas with
  | some _ =>
    (m, ⟨.update c.pos .positionMismatch ((aget c.state key).map (fun e => (e.pub.offset, e.pub.data))), []⟩)
  | none =>
    match aget c.state key with
    | none => (m, ⟨.update c.pos .keyNotFound none, []⟩)
    | some e =>
      let pub0 : Pub := { key := key, data := 0, tag := if o.tag ≠ 0 then o.tag else e.pub.tag, score := 0,
                          offset := 0, removed := true, time := now }
      let c1 : RChan := { c with state := adel c.state key }
      let r : RChan × Pub := if cfg.hasStream then append c1 pub0 cfg.streamSize else (c1, pub0)
      let m2 := { m with chans := aset m.chans ch r.1 }
      let m3 := if o.idem ≠ 0 then RefMap.cachePut m2 now ch o.idem r.1.pos o.ittl else m2
      (m3, ⟨.update r.1.pos .none none, [⟨ch, r.2, r.1.pos, false, none⟩]⟩)

/-- spec: `RefMap.remove` after the idempotency lookup -/
def rmCore (cfg : Cfg) (m : RefMap) (now ch : Nat) (key : Key) (o : RmOpts) : RefMap × MOut :=
  match aget m.chans ch with
  | none => (m, ⟨.update ⟨0, 0⟩ (if o.cas.isSome then .positionMismatch else .keyNotFound) none, []⟩)
  | some c => rmCoreC cfg m c now ch key o

theorem remove_of_nochan (cfg : Cfg) (h : Hub) (now ch : Nat) (key : Key) (o : RmOpts)
    (hq : aget h.chans ch = none) :
    MapHub.remove cfg h now ch key o
      = (h, ⟨0, 0⟩, none, if o.cas.isSome then .positionMismatch else .keyNotFound) := by
  unfold MapHub.remove
  simp only [hq]
  split <;> rfl

theorem rmTail_ok (h1 : Hub) (pos : Pos) (pub : Pub) (now ch : Nat) (o : RmOpts) :
    rmTail (h1, pos, some pub, .none) now ch o
      = (if o.idem ≠ 0 then MapHub.cachePut h1 now ch o.idem pos o.ittl else h1,
          ⟨.update pos .none none, [⟨ch, pub, pos, false, none⟩]⟩) := rfl

theorem rmTail_refines (cfg : Cfg) (h : Hub) (now ch : Nat) (key : Key) (o : RmOpts) :
    absOut (rmTail (MapHub.remove cfg h now ch key o) now ch o) = rmCore cfg (abs h) now ch key o := by
  cases hq : aget h.chans ch with
  | none =>
    rw [remove_of_nochan cfg h now ch key o hq]
    unfold rmCore
    rw [abs_get, hq]
    simp only [Option.map]
    cases o.cas.isSome <;> rfl
  | some c =>
    have hcore : rmCore cfg (abs h) now ch key o = rmCoreC cfg (abs h) (absChan c) now ch key o := by
      unfold rmCore; rw [abs_get, hq]; rfl
    rw [hcore]
    refine remove_elim cfg h now ch key o
      (motive := fun r => absOut (rmTail r now ch o) = rmCoreC cfg (abs h) (absChan c) now ch key o)
      ?_ ?_ ?_ ?_ ?_
    · intro hq'; rw [hq] at hq'; cases hq'
    · intro c' cur hq' hc
      rw [hq] at hq'; cases hq'
      have hcur := casBlocked_cur hc
      subst hcur
      simp only [rmCoreC, checkCAS_abs, hc, Option.map, absChan_state]
      cases aget c.state key <;> rfl
    · intro c' hq' hc he
      rw [hq] at hq'; cases hq'
      simp only [rmCoreC, checkCAS_abs, hc, Option.map, absChan_state, he]
      rfl
    · intro c' e hq' hc he hst
      rw [hq] at hq'; cases hq'
      simp only [rmCoreC, checkCAS_abs, hc, Option.map, absChan_state, he, hst, if_true]
      rw [rmTail_ok]
      by_cases hi : o.idem ≠ 0
      · rw [if_pos hi, if_pos hi]; simp only [absOut, abs_cachePut, abs_setChan]; rfl
      · rw [if_neg hi, if_neg hi]; simp only [absOut, abs_setChan]; rfl
    · intro c' e hq' hc he hst
      rw [hq] at hq'; cases hq'
      simp only [rmCoreC, checkCAS_abs, hc, Option.map, absChan_state, he, hst]
      rw [rmTail_ok]
      by_cases hi : o.idem ≠ 0
      · rw [if_pos hi, if_pos hi]; simp only [absOut, abs_cachePut, abs_setChan]; rfl
      · rw [if_neg hi, if_neg hi]; simp only [absOut, abs_setChan]; rfl

theorem remove_refines (rc : RawCfg) (h : Hub) (now ch : Nat) (key : Key) (o : RmOpts) :
    absOut (removeOp rc h now ch key o) = RefMap.remove rc (abs h) now ch key o := by
  unfold removeOp RefMap.remove
  cases resolve rc with
  | none => rfl
  | some cfg =>
    simp only []
    split
    · rfl
    · rw [cacheGet_abs]
      cases (if o.idem ≠ 0 then MapHub.cacheGet h now ch o.idem else none) with
      | some p => rfl
      | none => exact rmTail_refines cfg h now ch key o


/-! ### publish -/

/-- model: what `publish` does with the result of `add` (after the idempotency lookup) -/
def pubTail (r : Hub × Pos × Option Pub × Suppress × Pub) (now ch : Nat) (o : PubOpts) : Hub × MOut :=
  if r.2.2.2.1 ≠ .none then
    (r.1, ⟨.update r.2.1 r.2.2.2.1
      (if r.2.2.2.1 = .positionMismatch then r.2.2.1.map (fun p => (p.offset, p.data)) else none), []⟩)
  else
    (if o.idem ≠ 0 then MapHub.cachePut r.1 now ch o.idem r.2.1 o.ittl else r.1,
      ⟨.update r.2.1 .none none, [⟨ch, r.2.2.2.2, r.2.1, o.delta, r.2.2.1⟩]⟩)

/-- spec: `RefMap.publish` once the channel `c` exists in `m1` -/
def pubCoreC (cfg : Cfg) (m1 : RefMap) (c : RChan) (now ch : Nat) (key : Key) (o : PubOpts) : RefMap × MOut :=
  match verdict cfg c key o with
  | .none =>
    let r := applyPub cfg c now key o
    let prev := if o.delta && key != [] then (aget c.state key).map (·.pub) else none
    let m2 := { m1 with chans := aset m1.chans ch r.1 }
    let m3 := if o.idem ≠ 0 then RefMap.cachePut m2 now ch o.idem r.1.pos o.ittl else m2
    (m3, ⟨.update r.1.pos .none none, [⟨ch, r.2, r.1.pos, o.delta, prev⟩]⟩)
  | .keyExists =>
    let m2 :=
      if o.refresh && decide (cfg.keyTTL > 0) then
        match aget c.state key with
        | some e => { m1 with chans := aset m1.chans ch { c with state := aset c.state key { e with expireAt := now + cfg.keyTTL } } }
        | none => m1
      else m1
    (m2, ⟨.update c.pos .keyExists none, []⟩)
  | .positionMismatch =>
    (m1, ⟨.update c.pos .positionMismatch ((aget c.state key).map (fun e => (e.pub.offset, e.pub.data))), []⟩)
  | r => (m1, ⟨.update c.pos r none, []⟩)

/-- spec: `RefMap.publish` after the idempotency lookup -/
def pubCore (cfg : Cfg) (m : RefMap) (now ch : Nat) (key : Key) (o : PubOpts) : RefMap × MOut :=
  pubCoreC cfg (touch m ch).1 (touch m ch).2 now ch key o

theorem pubTail_sup (h1 : Hub) (pos : Pos) (prev : Option Pub) (sup : Suppress) (pub : Pub) (now ch : Nat)
    (o : PubOpts) (hs : sup ≠ .none) :
    pubTail (h1, pos, prev, sup, pub) now ch o
      = (h1, ⟨.update pos sup
          (if sup = .positionMismatch then prev.map (fun p => (p.offset, p.data)) else none), []⟩) := by
  simp [pubTail, hs]

theorem pubTail_ok (h1 : Hub) (pos : Pos) (prev : Option Pub) (pub : Pub) (now ch : Nat) (o : PubOpts) :
    pubTail (h1, pos, prev, .none, pub) now ch o
      = (if o.idem ≠ 0 then MapHub.cachePut h1 now ch o.idem pos o.ittl else h1,
          ⟨.update pos .none none, [⟨ch, pub, pos, o.delta, prev⟩]⟩) := rfl

theorem pubCoreC_other (cfg : Cfg) (m1 : RefMap) (c : RChan) (now ch : Nat) (key : Key) (o : PubOpts)
    (r : Suppress) (hv : verdict cfg c key o = r) (h1 : r ≠ .none) (h2 : r ≠ .keyExists)
    (h3 : r ≠ .positionMismatch) :
    pubCoreC cfg m1 c now ch key o = (m1, ⟨.update c.pos r none, []⟩) := by
  unfold pubCoreC
  rw [hv]
  cases r <;> simp_all

theorem prevOf_eq (cfg : Cfg) (h : Hub) (ch : Nat) (key : Key) (o : PubOpts) :
    prevOf h ch key o
      = if o.delta && key != [] then (aget (chanFor cfg h ch).state key).map (·.pub) else none := by
  unfold prevOf chanFor
  cases aget h.chans ch with
  | none => simp [Hub.newChan]
  | some c =>
    simp only []
    by_cases hc : (cfg.ordered && !c.ordered) = true
    · rw [if_pos hc]
    · rw [if_neg hc]

/-- the channel an unsuppressed publish writes -/
def okChan (cfg : Cfg) (c : Chan) (now : Nat) (key : Key) (o : PubOpts) : Chan :=
  if key = [] then { c with stream := (streamStep cfg c (pub0Of now key o)).1 } else chanPut cfg c now key o

/-- the publication an unsuppressed publish broadcasts -/
def okPub (cfg : Cfg) (c : Chan) (now : Nat) (key : Key) (o : PubOpts) : Pub :=
  if key = [] ∧ cfg.hasStream = false then pub0Of now key o else (streamStep cfg c (pub0Of now key o)).2.1

theorem applyPub_abs (cfg : Cfg) (c : Chan) (now : Nat) (key : Key) (o : PubOpts) :
    applyPub cfg (absChan c) now key o = (absChan (okChan cfg c now key o), okPub cfg c now key o) := by
  by_cases hk : key = []
  · subst hk
    cases hs : cfg.hasStream <;>
      simp [applyPub, okChan, okPub, streamStep, hs, append, Stream.add, absChan, pub0Of]
  · cases hs : cfg.hasStream <;>
      (simp [applyPub, okChan, okPub, streamStep, hs, hk, append, Stream.add, absChan, pub0Of, chanPut,
        entryOf, verOf] <;> rfl)

theorem okChan_pos (cfg : Cfg) (c : Chan) (now : Nat) (key : Key) (o : PubOpts) :
    (absChan (okChan cfg c now key o)).pos = (streamStep cfg c (pub0Of now key o)).2.2 := by
  by_cases hk : key = []
  · subst hk
    cases hs : cfg.hasStream <;> simp [okChan, streamStep, hs, Stream.add, Stream.pos]
  · cases hs : cfg.hasStream <;> simp [okChan, chanPut, streamStep, hs, hk, Stream.add, Stream.pos]

theorem addOk_abs (cfg : Cfg) (h1 : Hub) (c : Chan) (now ch : Nat) (key : Key) (o : PubOpts)
    (prev : Option Pub) :
    ∃ h2, addOk cfg h1 c now ch key o prev
        = (h2, (streamStep cfg c (pub0Of now key o)).2.2, prev, .none, okPub cfg c now key o) ∧
      abs h2 = { abs h1 with chans := aset (abs h1).chans ch (absChan (okChan cfg c now key o)) } := by
  unfold addOk okChan okPub
  by_cases hk : key = []
  · subst hk
    refine ⟨h1.setChan ch { c with stream := (streamStep cfg c (pub0Of now [] o)).1 }, ?_, ?_⟩
    · rw [if_pos (by rfl)]
      cases hs : cfg.hasStream <;> simp
    · simp only [if_true, abs_setChan]
  · have hb : ¬ ((key == []) = true) := by simpa using hk
    rw [if_neg hb]
    refine ⟨if cfg.keyTTL > 0 then
        (h1.setChan ch (chanPut cfg c now key o)).trackTTL (ch, key) (if cfg.keyTTL > 0 then now + cfg.keyTTL else 0)
      else h1.setChan ch (chanPut cfg c now key o), ?_, ?_⟩
    · simp [hk]
    · simp only [hk, if_false]
      split
      · rw [abs_trackTTL, abs_setChan]
      · rw [abs_setChan]

theorem pubCoreC_refines (cfg : Cfg) (h1 : Hub) (c : Chan) (now ch : Nat) (key : Key) (o : PubOpts)
    (prev : Option Pub)
    (hprev : prev = if o.delta && key != [] then (aget c.state key).map (·.pub) else none) :
    absOut (pubTail (addCore cfg h1 c now ch key o prev) now ch o)
      = pubCoreC cfg (abs h1) (absChan c) now ch key o := by
  refine addCore_elim cfg h1 c now ch key o prev
    (motive := fun r => absOut (pubTail r now ch o) = pubCoreC cfg (abs h1) (absChan c) now ch key o)
    ?_ ?_ ?_ ?_ ?_
  · intro hv
    have hver : verdict cfg (absChan c) key o = .version := by simp [verdict_abs, decideSup, hv]
    rw [pubCoreC_other _ _ _ _ _ _ _ _ hver (by decide) (by decide) (by decide),
      pubTail_sup _ _ _ _ _ _ _ _ (by decide)]
    rfl
  · intro hv hk
    have hver : verdict cfg (absChan c) key o = .keyExists := by simp [verdict_abs, decideSup, hv, hk]
    obtain ⟨_, _, e, he⟩ := keyModeBlocked_keyExists hk
    rw [pubTail_sup _ _ _ _ _ _ _ _ (by decide)]
    unfold pubCoreC
    rw [hver]
    simp only [absChan_state, he]
    by_cases hc : (o.refresh && decide (cfg.keyTTL > 0)) = true
    · rw [if_pos hc, if_pos hc]
      simp only [absOut, refreshHub, he, abs_trackTTL, abs_setChan]
      rfl
    · rw [if_neg hc, if_neg hc]
      rfl
  · intro hv hk
    have hver : verdict cfg (absChan c) key o = .keyNotFound := by simp [verdict_abs, decideSup, hv, hk]
    rw [pubCoreC_other _ _ _ _ _ _ _ _ hver (by decide) (by decide) (by decide),
      pubTail_sup _ _ _ _ _ _ _ _ (by decide)]
    rfl
  · intro hv hk hne cur hc
    have hver : verdict cfg (absChan c) key o = .positionMismatch := by
      simp [verdict_abs, decideSup, hv, hk, hne, hc]
    have hcur := casBlocked_cur hc
    subst hcur
    rw [pubTail_sup _ _ _ _ _ _ _ _ (by decide)]
    unfold pubCoreC
    rw [hver]
    simp only [absChan_state, if_true]
    cases aget c.state key <;> rfl
  · intro hv hk hc
    have hver : verdict cfg (absChan c) key o = .none := by
      by_cases hne : key = []
      · subst hne; simp [verdict_abs, decideSup, hv, hk]
      · simp [verdict_abs, decideSup, hv, hk, hne, hc hne]
    obtain ⟨h2, hok, habs⟩ := addOk_abs cfg h1 c now ch key o prev
    rw [hok, pubTail_ok]
    unfold pubCoreC
    rw [hver]
    simp only [applyPub_abs, okChan_pos, absChan_state, ← hprev]
    by_cases hi : o.idem ≠ 0
    · rw [if_pos hi, if_pos hi]; simp only [absOut, abs_cachePut, habs]
    · rw [if_neg hi, if_neg hi]; simp only [absOut, habs]

theorem pubTail_refines (cfg : Cfg) (h : Hub) (now ch : Nat) (key : Key) (o : PubOpts) :
    absOut (pubTail (add cfg h now ch key o) now ch o) = pubCore cfg (abs h) now ch key o := by
  rw [add_eq]
  unfold pubCore
  rw [touch_abs cfg h ch]
  exact pubCoreC_refines cfg _ _ now ch key o _ (prevOf_eq cfg h ch key o)

theorem publish_refines (rc : RawCfg) (h : Hub) (now ch : Nat) (key : Key) (o : PubOpts) :
    absOut (MapHub.publish rc h now ch key o) = RefMap.publish rc (abs h) now ch key o := by
  unfold MapHub.publish RefMap.publish
  cases resolve rc with
  | none => rfl
  | some cfg =>
    simp only []
    split
    · rfl
    · split
      · rfl
      · rw [cacheGet_abs]
        cases (if o.idem ≠ 0 then MapHub.cacheGet h now ch o.idem else none) with
        | some p => rfl
        | none => exact pubTail_refines cfg h now ch key o


/-! ### the refinement theorem -/

/-- **Refinement (one step).**  For every hub, time and supported operation (publish with any options,
remove, clear, read-stream, single-key / position-only read-state) the model's step seen through `abs`
*is* the reference map's step: same abstract state, identical result and broadcasts. -/
theorem mapHub_refines_refMap (cfg : Nat → RawCfg) (h : Hub) (now : Nat) (op : MOp) (hs : Supported op) :
    abs (MapHub.step cfg h now op).1 = (RefMap.step cfg (orderedOf h) (abs h) now op).1 ∧
    (MapHub.step cfg h now op).2 = (RefMap.step cfg (orderedOf h) (abs h) now op).2 := by
  have split : ∀ (r : Hub × MOut) (r' : RefMap × MOut), absOut r = r' → abs r.1 = r'.1 ∧ r.2 = r'.2 := by
    intro r r' hr; subst hr; exact ⟨rfl, rfl⟩
  cases op with
  | publish ch key o => exact split _ _ (publish_refines (cfg ch) h now ch key o)
  | remove ch key o => exact split _ _ (remove_refines (cfg ch) h now ch key o)
  | clear ch => exact ⟨clear_refines h ch, rfl⟩
  | readState ch o => exact split _ _ (readKey_refines (cfg ch) h ch o hs)
  | readStream ch o => exact split _ _ (readStream_refines h ch o)
  | sweep => exact absurd hs (by simp [Supported])

/-- the reference run: `m` is stepped by `RefMap.step`; the hub is stepped alongside by `MapHub.step`
only to supply the `ordered` label of read-state replies. -/
def refRun (cfg : Nat → RawCfg) : Hub → RefMap → List (Nat × MOp) → RefMap × List MOut
  | _, m, [] => (m, [])
  | h, m, (now, op) :: rest =>
    let r := RefMap.step cfg (orderedOf h) m now op
    let r' := refRun cfg (MapHub.step cfg h now op).1 r.1 rest
    (r'.1, r.2 :: r'.2)

/-- **Refinement (sequences).**  Every run of supported operations of the model is, through `abs`, the
run of the reference map, with the same list of outputs. -/
theorem mapHub_refines_refMap_run (cfg : Nat → RawCfg) :
    ∀ (ops : List (Nat × MOp)) (h : Hub), (∀ x ∈ ops, Supported x.2) →
      abs (MapHub.run cfg h ops).1 = (refRun cfg h (abs h) ops).1 ∧
      (MapHub.run cfg h ops).2 = (refRun cfg h (abs h) ops).2 := by
  intro ops
  induction ops with
  | nil => intro h _; exact ⟨rfl, rfl⟩
  | cons x rest ih =>
    intro h hs
    obtain ⟨now, op⟩ := x
    have h1 := mapHub_refines_refMap cfg h now op (hs (now, op) List.mem_cons_self)
    have h2 := ih (MapHub.step cfg h now op).1 (fun y hy => hs y (List.mem_cons_of_mem _ hy))
    unfold MapHub.run refRun
    simp only []
    rw [← h1.1, ← h1.2]
    exact ⟨h2.1, by rw [h2.2]⟩

/-- the empty hub is the empty reference map -/
theorem abs_init : abs Hub.init = ⟨[], [], 1⟩ := rfl

/-- from the empty hub -/
theorem mapHub_refines_refMap_from_init (cfg : Nat → RawCfg) (ops : List (Nat × MOp))
    (hs : ∀ x ∈ ops, Supported x.2) :
    abs (MapHub.run cfg Hub.init ops).1 = (refRun cfg Hub.init ⟨[], [], 1⟩ ops).1 ∧
    (MapHub.run cfg Hub.init ops).2 = (refRun cfg Hub.init ⟨[], [], 1⟩ ops).2 :=
  mapHub_refines_refMap_run cfg ops Hub.init hs

/-- the hypothesis is satisfiable by a non-trivial sequence (publish, suppressed publish, remove, reads, clear) -/
example : ∀ x ∈ ([(0, .publish 1 [7] { data := 5, version := 3 }),
      (1, .publish 1 [7] { version := 2, mode := .ifNew, cas := some ⟨9, 9⟩ }),
      (2, .readState 1 { key := [7] }), (3, .readStream 1 { limit := -1 }),
      (4, .remove 1 [7] {}), (5, .clear 1)] : List (Nat × MOp)), Supported x.2 := by
  simp [Supported]


end CentrifugeVerif.RefMap
