import CentrifugeVerif.Model.Timers
/-
Lemmas for C36: the scan of `scheduleNextTimer` picks the minimum pending deadline, and the invariant
"the single timer is armed for the minimum pending deadline" is preserved by every operation.
-/
namespace CentrifugeVerif.Timers

/-- `r` is a correct running minimum of the (kind, deadline) pairs `vals` -/
def Good (vals : List (TOp × Nat)) : Option (TOp × Nat) → Prop
  | none => ∀ p ∈ vals, p.2 = 0
  | some (o, t) => 0 < t ∧ (o, t) ∈ vals ∧ ∀ p ∈ vals, 0 < p.2 → t ≤ p.2

theorem good_upd (vals : List (TOp × Nat)) (r : Option (TOp × Nat)) (o : TOp) (v : Nat)
    (h : Good vals r) : Good (vals ++ [(o, v)]) (upd r o v) := by
  cases r with
  | none =>
    show Good (vals ++ [(o, v)]) (if v > 0 then some (o, v) else none)
    by_cases hv : v > 0
    · rw [if_pos hv]
      refine ⟨hv, by simp, ?_⟩
      intro p hp hpos
      rcases List.mem_append.mp hp with hp | hp
      · have := h p hp; omega
      · simp at hp; subst hp; exact Nat.le_refl _
    · rw [if_neg hv]
      intro p hp
      rcases List.mem_append.mp hp with hp | hp
      · exact h p hp
      · simp at hp; subst hp; simp; omega
  | some om =>
    obtain ⟨o', m⟩ := om
    obtain ⟨hm, hmem, hmin⟩ := h
    show Good (vals ++ [(o, v)]) (if v > 0 ∧ v < m then some (o, v) else some (o', m))
    by_cases hv : v > 0 ∧ v < m
    · rw [if_pos hv]
      refine ⟨hv.1, by simp, ?_⟩
      intro p hp hpos
      rcases List.mem_append.mp hp with hp | hp
      · have := hmin p hp hpos; omega
      · simp at hp; subst hp; exact Nat.le_refl _
    · rw [if_neg hv]
      refine ⟨hm, by simp [hmem], ?_⟩
      intro p hp hpos
      rcases List.mem_append.mp hp with hp | hp
      · exact hmin p hp hpos
      · simp at hp; subst hp; simp at hpos ⊢; omega

def deadlineOf (s : St) : TOp → Nat
  | .expire => s.nextExpire
  | .presence => s.nextPresence
  | .ping => s.nextPing
  | .pong => s.nextPong
  | .stale => 0

def pairs (s : St) : List (TOp × Nat) :=
  [(.expire, s.nextExpire), (.presence, s.nextPresence), (.ping, s.nextPing), (.pong, s.nextPong)]

theorem pick_good (s : St) : Good (pairs s) (pick s) := by
  have h0 : Good [] (none : Option (TOp × Nat)) := by simp [Good]
  have h1 := good_upd [] none .expire s.nextExpire h0
  have h2 := good_upd _ _ .presence s.nextPresence h1
  have h3 := good_upd _ _ .ping s.nextPing h2
  have h4 := good_upd _ _ .pong s.nextPong h3
  simpa [pick, pairs] using h4

/-- what `pick` returns is a pending deadline, of the returned kind, and no pending deadline is earlier -/
theorem pick_some (s : St) (o : TOp) (t : Nat) (h : pick s = some (o, t)) :
    0 < t ∧ deadlineOf s o = t ∧ o ≠ .stale ∧ t ∈ pending s ∧ ∀ x ∈ pending s, t ≤ x := by
  have hg := pick_good s
  rw [h] at hg
  obtain ⟨ht, hmem, hmin⟩ := hg
  have hd : deadlineOf s o = t ∧ o ≠ .stale := by
    simp only [pairs, List.mem_cons, Prod.mk.injEq, List.mem_nil_iff, or_false] at hmem
    rcases hmem with ⟨rfl, rfl⟩ | ⟨rfl, rfl⟩ | ⟨rfl, rfl⟩ | ⟨rfl, rfl⟩ <;> simp [deadlineOf]
  refine ⟨ht, hd.1, hd.2, ?_, ?_⟩
  · simp only [pending, List.mem_filter, List.mem_cons, List.mem_nil_iff, or_false, decide_eq_true_eq]
    refine ⟨?_, ht⟩
    simp only [pairs, List.mem_cons, Prod.mk.injEq, List.mem_nil_iff, or_false] at hmem
    rcases hmem with ⟨_, h⟩ | ⟨_, h⟩ | ⟨_, h⟩ | ⟨_, h⟩ <;> simp [h]
  · intro x hx
    simp only [pending, List.mem_filter, List.mem_cons, List.mem_nil_iff, or_false, decide_eq_true_eq] at hx
    obtain ⟨hx, hpos⟩ := hx
    rcases hx with rfl | rfl | rfl | rfl
    · exact hmin (.expire, _) (by simp [pairs]) hpos
    · exact hmin (.presence, _) (by simp [pairs]) hpos
    · exact hmin (.ping, _) (by simp [pairs]) hpos
    · exact hmin (.pong, _) (by simp [pairs]) hpos

theorem pick_none (s : St) (h : pick s = none) : pending s = [] := by
  have hg := pick_good s
  rw [h] at hg
  have h1 := hg (.expire, s.nextExpire) (by simp [pairs])
  have h2 := hg (.presence, s.nextPresence) (by simp [pairs])
  have h3 := hg (.ping, s.nextPing) (by simp [pairs])
  have h4 := hg (.pong, s.nextPong) (by simp [pairs])
  simp at h1 h2 h3 h4
  simp [pending, h1, h2, h3, h4]

theorem pick_ne_none_of_presence (s : St) (h : 0 < s.nextPresence) : pick s ≠ none := by
  intro hn
  have hg := pick_good s
  rw [hn] at hg
  have := hg (.presence, s.nextPresence) (by simp [pairs])
  simp at this
  omega

/-! ### the invariant: the single timer is armed for the earliest pending deadline -/

/-- the timer is armed for exactly what the scan would pick now -/
def Armed (s : St) : Prop := ∃ o t, pick s = some (o, t) ∧ s.armed = some t ∧ s.timerOp = o

/-- a pending expire deadline belongs to a live expiry stamp that is not later than it -/
def ExpOK (c : Cfg) (s : St) : Prop := 0 < s.nextExpire → 0 < s.exp ∧ s.exp * c.sec ≤ s.nextExpire

def Inv (c : Cfg) (s : St) : Prop :=
  s.status = .closed ∨
  (s.status = .connecting ∧ (s.auth = false ∨ s.unusable = true) ∧ s.timerOp = .stale ∧
    s.nextExpire = 0 ∧ s.nextPresence = 0 ∧ s.nextPing = 0 ∧ s.nextPong = 0) ∨
  (s.status = .connected ∧ s.auth = true ∧ Armed s ∧ 0 < s.nextPresence ∧ ExpOK c s)

theorem inv_closed (c : Cfg) (s : St) (h : s.status = .closed) : Inv c s := Or.inl h

theorem close_status (s : St) (code : Nat) : (close s code).1.status = .closed := by
  unfold close
  by_cases h : s.status = .closed <;> simp [h]

theorem close_inv (c : Cfg) (s : St) (code : Nat) : Inv c (close s code).1 :=
  inv_closed c _ (close_status s code)

theorem schedule_inv (c : Cfg) (s : St) (hst : s.status = .connected) (ha : s.auth = true)
    (hp : 0 < s.nextPresence) (he : ExpOK c s) : Inv c (schedule s) := by
  have hne := pick_ne_none_of_presence s hp
  unfold schedule
  have hcl : ¬ s.status = .closed := by rw [hst]; decide
  rw [if_neg hcl]
  cases hpk : pick s with
  | none => exact absurd hpk hne
  | some ot =>
    obtain ⟨o, t⟩ := ot
    refine Or.inr (Or.inr ⟨hst, ha, ⟨o, t, ?_, rfl, rfl⟩, hp, he⟩)
    exact hpk

theorem unix_mul_le (c : Cfg) (now : Nat) : unix c now * c.sec ≤ now := by
  unfold unix
  exact Nat.div_mul_le_self now c.sec

theorem checkExpired_inv (c : Cfg) (s : St) (now : Nat)
    (hst : s.status = .connected) (ha : s.auth = true) (hp : 0 < s.nextPresence) :
    Inv c (checkExpired c s now).1 ∨
      ((checkExpired c s now).1 = s ∧ (s.exp = 0 ∨ (unix c now < s.exp ∧ ¬ (c.csr = false ∧ c.hasRH = true)))) := by
  unfold checkExpired
  have hcl : ¬ s.status = .closed := by rw [hst]; decide
  by_cases he : s.exp = 0
  · right; simp [he]
  · have h1 : ¬ (s.status = .closed ∨ s.exp = 0) := by simp [hcl, he]
    rw [if_neg h1]
    by_cases hgt : s.exp > unix c now
    · rw [if_pos hgt]
      by_cases hm : (!c.csr && c.hasRH) = true
      · rw [if_pos hm]
        left
        refine schedule_inv c { s with nextExpire := now + (s.exp - unix c now) * c.sec } hst ha hp ?_
        intro _
        refine ⟨Nat.pos_of_ne_zero he, ?_⟩
        show s.exp * c.sec ≤ now + (s.exp - unix c now) * c.sec
        have := unix_mul_le c now
        have h2 : s.exp * c.sec = unix c now * c.sec + (s.exp - unix c now) * c.sec := by
          rw [← Nat.add_mul]; congr 1; omega
        omega
      · rw [if_neg hm]
        right
        refine ⟨rfl, Or.inr ⟨hgt, ?_⟩⟩
        intro ⟨h1, h2⟩
        simp [h1, h2] at hm
    · rw [if_neg hgt]
      left; exact close_inv c s _

theorem schedule_keeps (s : St) :
    (schedule s).lastSeen = s.lastSeen ∧ (schedule s).lastPing = s.lastPing ∧ (schedule s).status = s.status ∧
    (schedule s).nextExpire = s.nextExpire ∧ (schedule s).nextPong = s.nextPong ∧ (schedule s).exp = s.exp := by
  unfold schedule
  by_cases h : s.status = .closed
  · rw [if_pos h]; simp
  · rw [if_neg h]
    cases pick s with
    | none => simp
    | some ot => obtain ⟨o, t⟩ := ot; simp

theorem expire_inv (c : Cfg) (s : St) (now : Nat) (hsec : 0 < c.sec)
    (hst : s.status = .connected) (ha : s.auth = true) (hp : 0 < s.nextPresence)
    (hexp : 0 < s.exp) (hle : s.exp * c.sec ≤ now) : Inv c (expire c s now).1 := by
  have hu : s.exp ≤ unix c now := by unfold unix; exact (Nat.le_div_iff_mul_le hsec).mpr hle
  have hcl : ¬ s.status = .closed := by rw [hst]; decide
  have h1 : ¬ (s.status = .closed ∨ s.exp = 0) := by simp [hcl]; omega
  unfold expire
  rw [if_neg h1]
  by_cases hm : (!c.csr && c.hasRH) = true
  · rw [if_pos hm]
    have hss : c.csr = false ∧ c.hasRH = true := by simpa using hm
    cases hpa : popAns s.rhr with
    | mk a rest =>
      cases a with
      | error => exact close_inv c _ _
      | expired => exact close_inv c _ _
      | zero =>
        have hI : Inv c (disableExpiration { s with rhr := rest }) := by
          unfold disableExpiration
          refine schedule_inv c _ hst ha hp ?_
          intro h0; exact absurd h0 (Nat.lt_irrefl 0)
        have he0 : (disableExpiration { s with rhr := rest }).exp = 0 := by
          unfold disableExpiration; rw [(schedule_keeps _).2.2.2.2.2]
        have hce : checkExpired c (disableExpiration { s with rhr := rest }) now =
            (disableExpiration { s with rhr := rest }, []) := by
          unfold checkExpired; rw [if_pos (Or.inr he0)]
        show Inv c (checkExpired c (disableExpiration { s with rhr := rest }) now).1
        rw [hce]; exact hI
      | «at» d =>
        by_cases hea : (Int.ofNat (unix c now) + d).toNat > 0
        · simp only [hea, if_true]
          rcases checkExpired_inv c { s with rhr := rest, exp := (Int.ofNat (unix c now) + d).toNat } now hst ha hp
            with h | ⟨_, h | ⟨_, h⟩⟩
          · exact h
          · have h' : (Int.ofNat (unix c now) + d).toNat = 0 := h
            omega
          · exact absurd hss h
        · simp only [hea, if_false]
          rcases checkExpired_inv c { s with rhr := rest } now hst ha hp with h | ⟨_, h | ⟨h, _⟩⟩
          · exact h
          · simp at h; omega
          · simp at h; omega
  · rw [if_neg hm]
    rcases checkExpired_inv c s now hst ha hp with h | ⟨_, h | ⟨h, _⟩⟩
    · exact h
    · omega
    · omega

/-- `Inv` only looks at the timer fields -/
theorem inv_congr (c : Cfg) (s s' : St) (h1 : s'.status = s.status) (h2 : s'.auth = s.auth)
    (h3 : s'.timerOp = s.timerOp) (h4 : s'.armed = s.armed) (h5 : s'.nextExpire = s.nextExpire)
    (h6 : s'.nextPresence = s.nextPresence) (h7 : s'.nextPing = s.nextPing) (h8 : s'.nextPong = s.nextPong)
    (h9 : s'.exp = s.exp) (h10 : s'.unusable = s.unusable) (h : Inv c s) : Inv c s' := by
  have hpick : pick s' = pick s := by unfold pick; rw [h5, h6, h7, h8]
  rcases h with h | ⟨a, b, d, e, f, g, i⟩ | ⟨a, b, ⟨o, t, hp, har, hop⟩, e, f⟩
  · exact Or.inl (h1 ▸ h)
  · exact Or.inr (Or.inl ⟨h1 ▸ a, by rw [h2, h10]; exact b, h3 ▸ d, h5 ▸ e, h6 ▸ f, h7 ▸ g, h8 ▸ i⟩)
  · refine Or.inr (Or.inr ⟨h1 ▸ a, h2 ▸ b, ⟨o, t, hpick ▸ hp, h4 ▸ har, h3 ▸ hop⟩, h6 ▸ e, ?_⟩)
    unfold ExpOK at *
    rw [h5, h9]; exact f

theorem presenceTick_inv (c : Cfg) (s : St) (now : Nat) (hst : s.status = .connected) (hau : s.auth = true)
    (he : ExpOK c s) (hpos : 0 < now + c.presInterval) : Inv c (presenceTick c s now).1 := by
  unfold presenceTick
  exact inv_congr c (schedule { s with nextPresence := now + c.presInterval }) _
    rfl rfl rfl rfl rfl rfl rfl rfl rfl rfl (schedule_inv c _ hst hau hpos he)

theorem fireOp_inv (c : Cfg) (s : St) (now : Nat) (hsec : 0 < c.sec) (hnow : 0 < now)
    (hst : s.status = .connected) (hau : s.auth = true) (hp : 0 < s.nextPresence) (he : ExpOK c s)
    (hns : s.timerOp ≠ .stale) (hexp : s.timerOp = .expire → 0 < s.nextExpire ∧ s.nextExpire ≤ now) :
    Inv c (fireOp c s now).1 := by
  unfold fireOp
  cases hop : s.timerOp with
  | stale => exact absurd hop hns
  | presence => exact presenceTick_inv c s now hst hau he (by omega)
  | expire =>
    obtain ⟨h1, h2⟩ := hexp hop
    obtain ⟨h3, h4⟩ := he h1
    exact expire_inv c s now hsec hst hau hp h3 (by omega)
  | ping =>
    show Inv c (sendPing c s now).1
    unfold sendPing
    by_cases hpt : c.pongTimeout > 0 ∧ c.uni = false
    · obtain ⟨h1, h2⟩ := hpt
      simp only [h1, h2, and_self, if_true]
      exact schedule_inv c _ hst hau hp he
    · simp only [hpt, if_false]
      exact schedule_inv c _ hst hau hp he
  | pong =>
    show Inv c (checkPong s).1
    unfold checkPong
    by_cases hls : s.lastSeen < s.lastPing
    · rw [if_pos hls]; exact close_inv c _ _
    · rw [if_neg hls]
      exact schedule_inv c _ hst hau hp he

theorem fire_inv (c : Cfg) (s : St) (now : Nat) (hsec : 0 < c.sec) (hnow : 0 < now)
    (h : Inv c s) : Inv c (fire c s now).1 := by
  unfold fire
  cases harm : s.armed with
  | none => exact h
  | some d =>
    by_cases hd : d > now
    · simp only [hd, if_true]; exact h
    · simp only [hd, if_false]
      rcases h with hc | ⟨hst, hau, hop, _⟩ | ⟨hst, hau, ⟨o, t, hpk, har, hop⟩, hp, he⟩
      · rw [if_pos hc]
        exact Or.inl (show ({ s with armed := none } : St).status = .closed from hc)
      · -- connecting: only the stale timer exists
        have hcl : ¬ s.status = .closed := by rw [hst]; decide
        rw [if_neg hcl]
        unfold fireOp
        show Inv c (match s.timerOp with
          | .stale => if (!s.auth || s.unusable) = true then close { s with armed := none } dStale else ({ s with armed := none }, [])
          | .presence => presenceTick c { s with armed := none } now
          | .expire => expire c { s with armed := none } now
          | .ping => sendPing c { s with armed := none } now
          | .pong => checkPong { s with armed := none }).1
        rw [hop]
        have hcond : (!s.auth || s.unusable) = true := by
          rcases hau with h | h <;> simp [h]
        simp only [hcond, if_true]
        exact close_inv c _ _
      · have hcl : ¬ s.status = .closed := by rw [hst]; decide
        rw [if_neg hcl]
        have hdt : d = t := by rw [harm] at har; exact Option.some.inj har
        obtain ⟨ht, hdl, hns, _, _⟩ := pick_some s o t hpk
        refine fireOp_inv c { s with armed := none } now hsec hnow hst hau hp he (by rw [← hop] at hns; exact hns) ?_
        intro hx
        have hx' : s.timerOp = .expire := hx
        rw [hop] at hx'
        subst hx'
        have : s.nextExpire = t := hdl
        show 0 < s.nextExpire ∧ s.nextExpire ≤ now
        omega

theorem applyRefresh_inv (c : Cfg) (s : St) (now : Nat) (d : Int) (hd : 0 < d)
    (hst : s.status = .connected) (hau : s.auth = true) (hp : 0 < s.nextPresence) :
    Inv c (applyRefresh c s now d) := by
  unfold applyRefresh
  refine schedule_inv c _ hst hau hp ?_
  intro _
  show 0 < (Int.ofNat (unix c now) + d).toNat ∧
    (Int.ofNat (unix c now) + d).toNat * c.sec ≤ now + d.toNat * c.sec + c.ecd
  have h1 : (Int.ofNat (unix c now) + d).toNat = unix c now + d.toNat := by
    simp only [Int.ofNat_eq_natCast]; omega
  rw [h1, Nat.add_mul]
  have := unix_mul_le c now
  constructor <;> omega

/-- the operations the theorem covers: no `Client.Refresh` on a connection that has not authenticated yet
(on such a connection it replaces or cancels the stale timer) and `NewClient` only once -/
def Admissible (s : St) : Op → Prop
  | .srefresh _ => s.status ≠ .connecting
  | .new => s.status ≠ .connected
  | _ => True

theorem step_inv (c : Cfg) (s : St) (now : Nat) (op : Op) (hsec : 0 < c.sec) (hnow : 0 < now)
    (hadm : Admissible s op) (h : Inv c s) : Inv c (step c s now op).1 := by
  cases op with
  | fire => exact fire_inv c s now hsec hnow h
  | new =>
    simp only [step]
    by_cases hs : c.staleDelay > 0
    · rw [if_pos hs]
      rcases h with h | ⟨a, b, _, e, f, g, i⟩ | ⟨a, _⟩
      · exact Or.inl h
      · exact Or.inr (Or.inl ⟨a, b, rfl, e, f, g, i⟩)
      · exact absurd a hadm
    · rw [if_neg hs]; exact h
  | connect e jp jr =>
    simp only [step]
    rcases h with h | ⟨a, b, _, e1, f, g, i⟩ | ⟨a, b, _⟩
    · rw [if_pos h]; exact Or.inl h
    · have hcl : ¬ s.status = .closed := by rw [a]; decide
      rw [if_neg hcl]
      by_cases hu : s.unusable = true
      · rw [if_pos hu]; exact close_inv c _ _
      rw [if_neg hu]
      have b : s.auth = false := by
        rcases b with b | b
        · exact b
        · exact absurd b hu
      have hb : ¬ (s.auth = true) := by rw [b]; decide
      rw [if_neg hb]
      refine schedule_inv c _ rfl rfl (by show 0 < now + jr; omega) ?_
      intro hne
      by_cases he : e > 0
      · have h0 : (if e > 0 then unix c now + e else 0) = unix c now + e := by rw [if_pos he]
        show 0 < (if e > 0 then unix c now + e else 0) ∧ (if e > 0 then unix c now + e else 0) * c.sec ≤
          (if (if e > 0 then unix c now + e else 0) > 0 then now + e * c.sec + (if c.csr then c.ecd else 0) else s.nextExpire)
        rw [h0]
        have hpos : unix c now + e > 0 := by omega
        rw [if_pos hpos, Nat.add_mul]
        have := unix_mul_le c now
        constructor <;> omega
      · exfalso
        have h0 : (if e > 0 then unix c now + e else 0) = 0 := by rw [if_neg he]
        have : (if (if e > 0 then unix c now + e else 0) > 0 then now + e * c.sec + (if c.csr then c.ecd else 0)
            else s.nextExpire) = 0 := by rw [h0]; simp [e1]
        have hne' : 0 < (if (if e > 0 then unix c now + e else 0) > 0 then now + e * c.sec + (if c.csr then c.ecd else 0)
            else s.nextExpire) := hne
        omega
    · have hcl : ¬ s.status = .closed := by rw [a]; decide
      rw [if_neg hcl]
      by_cases hu : s.unusable = true
      · rw [if_pos hu]; exact close_inv c _ _
      rw [if_neg hu, if_pos b]
      exact close_inv c _ _
  | connectFail =>
    simp only [step]
    rcases h with h | ⟨a, b, d, e1, f, g, i⟩ | ⟨a, b, _⟩
    · rw [if_pos h]; exact Or.inl h
    · have hcl : ¬ s.status = .closed := by rw [a]; decide
      rw [if_neg hcl]
      by_cases hu : s.unusable = true
      · rw [if_pos hu]; exact close_inv c _ _
      rw [if_neg hu]
      by_cases hb : s.auth = true
      · rw [if_pos hb]; exact close_inv c _ _
      rw [if_neg hb]
      by_cases hun : c.uni = true
      · rw [if_pos hun]; exact close_inv c _ _
      rw [if_neg hun]
      exact Or.inr (Or.inl ⟨a, Or.inr rfl, d, e1, f, g, i⟩)
    · have hcl : ¬ s.status = .closed := by rw [a]; decide
      rw [if_neg hcl]
      by_cases hu : s.unusable = true
      · rw [if_pos hu]; exact close_inv c _ _
      rw [if_neg hu, if_pos b]
      exact close_inv c _ _
  | pong =>
    simp only [step]
    rcases h with h | ⟨a, b, _⟩ | ⟨a, b, har, hp, he⟩
    · rw [if_pos h]; exact Or.inl h
    · have hcl : ¬ s.status = .closed := by rw [a]; decide
      rw [if_neg hcl]
      by_cases hu : s.unusable = true
      · rw [if_pos hu]; exact close_inv c _ _
      rw [if_neg hu]
      have b : s.auth = false := by
        rcases b with b | b
        · exact b
        · exact absurd b hu
      simp only [b, Bool.not_false, if_true]
      exact close_inv c _ _
    · have hcl : ¬ s.status = .closed := by rw [a]; decide
      rw [if_neg hcl]
      by_cases hu : s.unusable = true
      · rw [if_pos hu]; exact close_inv c _ _
      rw [if_neg hu]
      simp only [b, Bool.not_true, Bool.false_eq_true, if_false]
      by_cases hx : s.lastPing = 0 ∨ s.ponged = true
      · rw [if_pos hx]; exact close_inv c _ _
      · rw [if_neg hx]
        exact inv_congr c s _ rfl b.symm rfl rfl rfl rfl rfl rfl rfl rfl (Or.inr (Or.inr ⟨a, b, har, hp, he⟩))
  | refresh an =>
    simp only [step]
    rcases h with h | ⟨a, b, _⟩ | ⟨a, b, har, hp, he⟩
    · rw [if_pos h]; exact Or.inl h
    · have hcl : ¬ s.status = .closed := by rw [a]; decide
      rw [if_neg hcl]
      by_cases hu : s.unusable = true
      · rw [if_pos hu]; exact close_inv c _ _
      rw [if_neg hu]
      have b : s.auth = false := by
        rcases b with b | b
        · exact b
        · exact absurd b hu
      simp only [b, Bool.not_false, if_true]
      exact close_inv c _ _
    · have hcl : ¬ s.status = .closed := by rw [a]; decide
      have hI : Inv c s := Or.inr (Or.inr ⟨a, b, har, hp, he⟩)
      rw [if_neg hcl]
      by_cases hu : s.unusable = true
      · rw [if_pos hu]; exact close_inv c _ _
      rw [if_neg hu]
      simp only [b, Bool.not_true, Bool.false_eq_true, if_false]
      by_cases h1 : (!c.hasRH) = true
      · rw [if_pos h1]; exact hI
      · rw [if_neg h1]
        by_cases h2 : (!c.csr) = true
        · rw [if_pos h2]; exact close_inv c _ _
        · rw [if_neg h2]
          cases an with
          | error => exact hI
          | expired => exact close_inv c _ _
          | zero =>
            show Inv c (disableExpiration s)
            unfold disableExpiration
            exact schedule_inv c _ a b hp (fun h0 => absurd h0 (Nat.lt_irrefl 0))
          | «at» d =>
            by_cases hd : d > 0
            · simp only [hd, if_true]; exact applyRefresh_inv c s now d hd a b hp
            · simp only [hd, if_false]; exact hI
  | srefresh an =>
    simp only [step]
    cases an with
    | expired => exact close_inv c _ _
    | error => exact h
    | zero =>
      rcases h with h | ⟨a, _⟩ | ⟨a, b, har, hp, he⟩
      · rw [if_pos h]; exact Or.inl h
      · exact absurd a hadm
      · have hcl : ¬ s.status = .closed := by rw [a]; decide
        rw [if_neg hcl]
        show Inv c (disableExpiration s)
        unfold disableExpiration
        exact schedule_inv c _ a b hp (fun h0 => absurd h0 (Nat.lt_irrefl 0))
    | «at» d =>
      by_cases hd : d > 0
      · simp only [hd, if_true]
        rcases h with h | ⟨a, _⟩ | ⟨a, b, har, hp, he⟩
        · rw [if_pos h]; exact Or.inl h
        · exact absurd a hadm
        · have hcl : ¬ s.status = .closed := by rw [a]; decide
          rw [if_neg hcl]
          exact applyRefresh_inv c s now d hd a b hp
      · simp only [hd, if_false]; exact close_inv c _ _
  | sub ch ttl csr =>
    simp only [step]
    rcases h with h | ⟨a, b, _⟩ | ⟨a, b, har, hp, he⟩
    · rw [if_pos h]; exact Or.inl h
    · have hcl : ¬ s.status = .closed := by rw [a]; decide
      rw [if_neg hcl]
      by_cases hu : s.unusable = true
      · rw [if_pos hu]; exact close_inv c _ _
      rw [if_neg hu]
      have b : s.auth = false := by
        rcases b with b | b
        · exact b
        · exact absurd b hu
      simp only [b, Bool.not_false, if_true]
      exact close_inv c _ _
    · have hcl : ¬ s.status = .closed := by rw [a]; decide
      have hI : Inv c s := Or.inr (Or.inr ⟨a, b, har, hp, he⟩)
      rw [if_neg hcl]
      by_cases hu : s.unusable = true
      · rw [if_pos hu]; exact close_inv c _ _
      rw [if_neg hu]
      simp only [b, Bool.not_true, Bool.false_eq_true, if_false]
      by_cases h1 : (s.subs.any (·.ch == ch)) = true
      · rw [if_pos h1]; exact hI
      · rw [if_neg h1]
        exact inv_congr c s _ rfl b.symm rfl rfl rfl rfl rfl rfl rfl rfl hI
  | subrefresh ch an =>
    simp only [step]
    rcases h with h | ⟨a, b, _⟩ | ⟨a, b, har, hp, he⟩
    · rw [if_pos h]; exact Or.inl h
    · have hcl : ¬ s.status = .closed := by rw [a]; decide
      rw [if_neg hcl]
      by_cases hu : s.unusable = true
      · rw [if_pos hu]; exact close_inv c _ _
      rw [if_neg hu]
      have b : s.auth = false := by
        rcases b with b | b
        · exact b
        · exact absurd b hu
      simp only [b, Bool.not_false, if_true]
      exact close_inv c _ _
    · have hcl : ¬ s.status = .closed := by rw [a]; decide
      have hI : Inv c s := Or.inr (Or.inr ⟨a, b, har, hp, he⟩)
      rw [if_neg hcl]
      by_cases hu : s.unusable = true
      · rw [if_pos hu]; exact close_inv c _ _
      rw [if_neg hu]
      simp only [b, Bool.not_true, Bool.false_eq_true, if_false]
      cases hf : s.subs.find? (·.ch == ch) with
      | none => exact hI
      | some sb =>
        simp only []
        by_cases h1 : (!c.hasSRH) = true
        · rw [if_pos h1]; exact hI
        · rw [if_neg h1]
          by_cases h2 : (!sb.csr) = true
          · rw [if_pos h2]; exact close_inv c _ _
          · rw [if_neg h2]
            cases an with
            | error => exact hI
            | expired => exact close_inv c _ _
            | zero => dsimp only; exact inv_congr c s _ rfl b.symm rfl rfl rfl rfl rfl rfl rfl rfl hI
            | «at» d =>
              by_cases hd : d < 0
              · simp only [hd, if_true]; exact hI
              · simp only [hd, if_false]
                exact inv_congr c s _ rfl b.symm rfl rfl rfl rfl rfl rfl rfl rfl hI

theorem applyRefresh_keeps (c : Cfg) (s : St) (now : Nat) (d : Int) :
    (applyRefresh c s now d).lastSeen = s.lastSeen ∧ (applyRefresh c s now d).lastPing = s.lastPing ∧
    (applyRefresh c s now d).status = s.status := by
  unfold applyRefresh
  have := schedule_keeps { s with exp := (Int.ofNat (unix c now) + d).toNat, nextExpire := now + d.toNat * c.sec + c.ecd }
  exact ⟨this.1, this.2.1, this.2.2.1⟩

end CentrifugeVerif.Timers
