import CentrifugeVerif.Proofs.Stream
import CentrifugeVerif.Model.HistoryHub
import CentrifugeVerif.Spec.AbsStream
import CentrifugeVerif.Proofs.StreamAbs
/-!
Refinement of the memory broker's history hub (`Model/HistoryHub.lean`) to the bounded-log
specification (`Spec/AbsStream.lean`), and the invariants of the hub.
-/
namespace CentrifugeVerif.HistoryHub
open CentrifugeVerif.MemStream CentrifugeVerif.AbsStream

/-! ### abstraction -/

/-- abstraction of one stream: forget the explicit offsets and the version pair -/
def absS (s : MStream Pub) : AbsChan Pub := ⟨s.epoch, s.top, s.items.map (·.value)⟩

/-- abstraction of the hub: forget deadlines and queues -/
def Hub.abs (h : Hub) : Abs Pub := ⟨fun ch => (h.chans ch).stream.map absS, h.nextEpoch⟩

theorem Abs.ext' {α : Type} {a b : Abs α} (h1 : a.chans = b.chans) (h2 : a.nextEpoch = b.nextEpoch) :
    a = b := by
  cases a; cases b; simp_all

theorem zip_offsets_values (l : List (Item Pub)) :
    List.zipWith (fun o v => ({ offset := o, value := v } : Item Pub)) (l.map (·.offset)) (l.map (·.value)) = l := by
  induction l with
  | nil => rfl
  | cons x xs ih => simp [ih]

/-- under the stream invariant the implicit offsets of the abstraction are the real ones -/
theorem entries_absS (s : MStream Pub) (h : s.Inv) : (absS s).entries = s.items := by
  unfold AbsChan.entries absS
  simp only [List.length_map]
  rw [← h.1]
  exact zip_offsets_values s.items

theorem absS_add (s : MStream Pub) (v : Pub) (size ver : Nat) (ve : String) :
    absS (s.add v size ver ve).1 = (absS s).append v size := by
  simp [absS, MStream.add, AbsChan.append, List.map_drop]

theorem absS_clear (s : MStream Pub) : absS s.clear = (absS s).clear := rfl

theorem absS_new (e : Nat) : absS (MStream.new e) = ⟨e, 0, []⟩ := rfl

/-! ### what the hub functions do to streams and to the epoch counter -/

@[simp] theorem set_chans_same (h : Hub) (ch : String) (c : ChanState) : (h.set ch c).chans ch = c := by
  simp [Hub.set]

theorem set_chans_other (h : Hub) (ch x : String) (c : ChanState) (hx : x ≠ ch) :
    (h.set ch c).chans x = h.chans x := by
  simp [Hub.set, hx]

@[simp] theorem set_nextEpoch (h : Hub) (ch : String) (c : ChanState) : (h.set ch c).nextEpoch = h.nextEpoch := rfl
@[simp] theorem set_metaTTL (h : Hub) (ch : String) (c : ChanState) : (h.set ch c).metaTTL = h.metaTTL := rfl

theorem touchMeta_stream (h : Hub) (ch : String) (m n : Nat) (x : String) :
    ((h.touchMeta ch m n).chans x).stream = (h.chans x).stream := by
  unfold Hub.touchMeta
  simp only
  split
  · by_cases hx : x = ch
    · subst hx; simp
    · simp [set_chans_other _ _ _ _ hx]
  · rfl

@[simp] theorem touchMeta_nextEpoch (h : Hub) (ch : String) (m n : Nat) :
    (h.touchMeta ch m n).nextEpoch = h.nextEpoch := by
  unfold Hub.touchMeta; simp only; split <;> rfl

@[simp] theorem touchMeta_metaTTL (h : Hub) (ch : String) (m n : Nat) :
    (h.touchMeta ch m n).metaTTL = h.metaTTL := by
  unfold Hub.touchMeta; simp only; split <;> rfl

theorem touchExpire_stream (h : Hub) (ch : String) (t n : Nat) (x : String) :
    ((h.touchExpire ch t n).chans x).stream = (h.chans x).stream := by
  unfold Hub.touchExpire
  by_cases hx : x = ch
  · subst hx; simp
  · simp [set_chans_other _ _ _ _ hx]

@[simp] theorem touchExpire_nextEpoch (h : Hub) (ch : String) (t n : Nat) :
    (h.touchExpire ch t n).nextEpoch = h.nextEpoch := rfl

@[simp] theorem touchExpire_metaTTL (h : Hub) (ch : String) (t n : Nat) :
    (h.touchExpire ch t n).metaTTL = h.metaTTL := rfl

theorem touchMeta_abs (h : Hub) (ch : String) (m n : Nat) : (h.touchMeta ch m n).abs = h.abs := by
  apply Abs.ext'
  · funext x; simp [Hub.abs, touchMeta_stream]
  · simp [Hub.abs]

theorem touchExpire_abs (h : Hub) (ch : String) (t n : Nat) : (h.touchExpire ch t n).abs = h.abs := by
  apply Abs.ext'
  · funext x; simp [Hub.abs, touchExpire_stream]
  · simp [Hub.abs]

/-- replacing the stream of one channel -/
theorem set_stream_abs (h : Hub) (ch : String) (c : ChanState) :
    (h.set ch c).abs = h.abs.setChan ch (c.stream.map absS) := by
  apply Abs.ext'
  · funext x
    by_cases hx : x = ch
    · subst hx; simp [Hub.abs, Abs.setChan]
    · simp [Hub.abs, Abs.setChan, set_chans_other _ _ _ _ hx, hx]
  · rfl

/-! ### `getLocked` refines `Abs.read` -/

/-- the domain on which `getLocked` is the specification's read: offsets are `uint64` values
(`since.offset < 2^64`, `top + 1 < 2^64`); forward reads: every `since`; reverse reads: `since`
a position up to `top + 1` (beyond that the code returns nothing — recorded quirk) -/
def FilterOK (top : Nat) (f : Filter) : Prop :=
  match f.since with
  | none => True
  | some p => if f.reverse then p.offset ≤ top + 1 ∧ top + 1 < u64 else p.offset < u64 ∧ top + 1 < u64

theorem getCore_abs (g : Hub) (ch : String) (f : Filter) :
    (g.getCore ch f).1.abs = (g.abs.ensure ch).1 ∧ (g.getCore ch f).2.2 = (g.abs.ensure ch).2.pos := by
  unfold Hub.getCore
  simp only
  cases hst : (g.chans ch).stream with
  | none =>
    have hc : g.abs.chans ch = none := by simp [Hub.abs, hst]
    simp only
    unfold Abs.ensure
    simp only [hc]
    constructor
    · apply Abs.ext'
      · funext x
        by_cases hx : x = ch
        · subst hx; simp [Hub.abs, Abs.setChan, absS_new]
        · simp [Hub.abs, Abs.setChan, set_chans_other _ _ _ _ hx, hx]
      · simp [Hub.abs]
    · simp [AbsChan.pos, MStream.new, Hub.abs]
  | some s =>
    have hc : g.abs.chans ch = some (absS s) := by simp [Hub.abs, hst]
    have he : g.abs.ensure ch = (g.abs, absS s) := by unfold Abs.ensure; simp [hc]
    rw [he]
    simp only
    cases f.since with
    | none => simp only; split <;> exact ⟨rfl, rfl⟩
    | some p => simp only; split <;> (try split) <;> exact ⟨rfl, rfl⟩

/-- state part: `getLocked` only creates a missing channel (fresh epoch, top 0) -/
theorem get_abs (h : Hub) (ch : String) (f : Filter) (m n : Nat) :
    (h.get ch f m n).1.abs = (h.abs.ensure ch).1 ∧ (h.get ch f m n).2.2 = (h.abs.ensure ch).2.pos := by
  unfold Hub.get
  rw [← touchMeta_abs h ch m n]
  exact getCore_abs _ ch f

theorem getCore_pubs (g : Hub) (ch : String) (f : Filter) (s : MStream Pub)
    (hst : (g.chans ch).stream = some s) (hi : s.Inv) (hf : FilterOK s.top f) :
    (g.getCore ch f).2.1 = (absS s).read f := by
  have hent := entries_absS s hi
  have hlen := hi.2
  unfold Hub.getCore
  simp only [hst]
  unfold AbsChan.read
  rw [hent]
  unfold FilterOK at hf
  cases hsince : f.since with
  | none =>
    simp only
    split
    · rename_i h0; simp [h0, takeLim_zero]
    · rw [get_spec s hi]
      cases f.reverse <;> simp [MStream.getSpec]
  | some p =>
    rw [hsince] at hf
    simp only
    cases hrev : f.reverse with
    | false =>
      simp only [hrev, Bool.false_eq_true, if_false] at hf ⊢
      have hnone : ∀ (hgt : s.top ≤ p.offset),
          s.items.filter (fun it => decide (p.offset < it.offset)) = [] := by
        intro hgt
        rw [List.filter_eq_nil_iff]
        intro it hit
        have := contig_mem hi.1 hit
        simp; omega
      split
      · rename_i hc
        simp only [Bool.not_false, Bool.true_and, Bool.and_eq_true, decide_eq_true_eq] at hc
        -- top = since.offset: nothing is newer
        rw [hnone (by omega)]; simp [takeLim_nil]
      · split
        · rename_i hmax
          simp only [Bool.not_false, Bool.true_and, decide_eq_true_eq] at hmax
          -- since = 2^64−1: nothing is newer (tops are uint64 values)
          rw [hnone (by omega)]; simp [takeLim_nil]
        · rename_i hmax
          simp only [Bool.not_false, Bool.true_and, decide_eq_true_eq] at hmax
          have hmod : (p.offset + 1) % u64 = p.offset + 1 := Nat.mod_eq_of_lt (by omega)
          rw [hmod, get_spec s hi]
          simp only [MStream.getSpec]
          rfl
    | true =>
      simp only [hrev, if_true] at hf ⊢
      simp only [Bool.not_true, Bool.false_and, Bool.false_eq_true, if_false]
      by_cases h0 : p.offset = 0
      · simp only [h0, if_true]
        have hbig : u64 - 1 ≥ s.top + 1 := by omega
        have hget : s.get (u64 - 1) true f.limit true = [] := by
          unfold MStream.get
          simp [hbig]
        have hfil : s.items.filter (fun it => decide (it.offset < 0)) = [] := by
          rw [List.filter_eq_nil_iff]; intro it _; simp
        rw [hget, hfil]
        simp [takeLim_nil]
      · simp only [h0, if_false]
        rw [get_spec s hi]
        simp only [MStream.getSpec]
        have hle : ¬ p.offset - 1 > s.top := by omega
        rw [if_neg hle]
        congr 2
        apply List.filter_congr
        intro it _
        simp; omega

/-- output part: on the `FilterOK` domain `getLocked` returns exactly the specification's read -/
theorem get_pubs (h : Hub) (ch : String) (f : Filter) (m n : Nat) (s : MStream Pub)
    (hst : (h.chans ch).stream = some s) (hi : s.Inv) (hf : FilterOK s.top f) :
    (h.get ch f m n).2.1 = (absS s).read f := by
  unfold Hub.get
  apply getCore_pubs
  · rw [touchMeta_stream]; exact hst
  · exact hi
  · exact hf

/-! ### `add`, `remove`, sweeps -/

theorem remove_abs (h : Hub) (ch : String) : (h.remove ch).abs = h.abs.clear ch := by
  unfold Hub.remove Abs.clear
  simp only
  cases hst : (h.chans ch).stream with
  | none =>
    simp only
    apply Abs.ext'
    · funext x
      by_cases hx : x = ch
      · subst hx; simp [Hub.abs, Abs.setChan, hst]
      · simp [Hub.abs, Abs.setChan, hx]
    · rfl
  | some s =>
    simp only
    rw [set_stream_abs]
    simp [Hub.abs, hst, absS_clear]

theorem sweepExpChan_stream (n : Nat) (c : ChanState) :
    (sweepExpChan n c).stream = c.stream ∨ (sweepExpChan n c).stream = c.stream.map MStream.clear := by
  unfold sweepExpChan
  split
  · left; rfl
  · split
    · left; rfl
    · split
      · left; rfl
      · split
        · right; rfl
        · left; rfl

theorem sweepRemChan_stream (n : Nat) (c : ChanState) :
    (sweepRemChan n c).stream = c.stream ∨
      ((sweepRemChan n c).stream = none ∧ ∃ r, c.removes = some r ∧ r ≤ n) := by
  unfold sweepRemChan
  split
  · left; rfl
  · rename_i q _
    split
    · left; rfl
    · split
      · left; rfl
      · rename_i r hr
        split
        · right; refine ⟨rfl, r, hr, ?_⟩; omega
        · left; rfl

/-- per channel, a tick keeps the stream, clears it, or drops it — the latter only when the meta
deadline has passed -/
theorem tick_stream (h : Hub) (n : Nat) (x : String) :
    ((h.tick n).chans x).stream = (h.chans x).stream ∨
    ((h.tick n).chans x).stream = (h.chans x).stream.map MStream.clear ∨
    (((h.tick n).chans x).stream = none ∧ ∃ r, (h.chans x).removes = some r ∧ r ≤ n) := by
  have hE : ∀ y, ((h.sweepExpire n).chans y) = h.chans y ∨ ((h.sweepExpire n).chans y) = sweepExpChan n (h.chans y) := by
    intro y; unfold Hub.sweepExpire; split
    · left; rfl
    · right; rfl
  have hR : ∀ (g : Hub) y, ((g.sweepRemove n).chans y) = g.chans y ∨ ((g.sweepRemove n).chans y) = sweepRemChan n (g.chans y) := by
    intro g y; unfold Hub.sweepRemove; split
    · left; rfl
    · right; rfl
  have hErem : ((h.sweepExpire n).chans x).removes = (h.chans x).removes := by
    rcases hE x with e | e <;> rw [e]
    unfold sweepExpChan
    split
    · rfl
    · split
      · rfl
      · split
        · rfl
        · split <;> rfl
  have hEs : ((h.sweepExpire n).chans x).stream = (h.chans x).stream ∨
      ((h.sweepExpire n).chans x).stream = (h.chans x).stream.map MStream.clear := by
    rcases hE x with e | e
    · left; rw [e]
    · rw [e]; exact sweepExpChan_stream n _
  unfold Hub.tick
  rcases hR (h.sweepExpire n) x with e | e
  · rw [e]
    rcases hEs with e' | e'
    · left; exact e'
    · right; left; exact e'
  · rw [e]
    rcases sweepRemChan_stream n ((h.sweepExpire n).chans x) with e' | ⟨e', r, hr, hle⟩
    · rw [e']
      rcases hEs with e'' | e''
      · left; exact e''
      · right; left; exact e''
    · right; right
      exact ⟨e', r, hErem ▸ hr, hle⟩

@[simp] theorem tick_nextEpoch (h : Hub) (n : Nat) : (h.tick n).nextEpoch = h.nextEpoch := by
  unfold Hub.tick Hub.sweepRemove Hub.sweepExpire
  split <;> split <;> rfl

theorem tick_abs (h : Hub) (n : Nat) : Abs.Tick h.abs (h.tick n).abs := by
  refine ⟨by simp [Hub.abs], ?_⟩
  intro x
  simp only [Hub.abs]
  rcases tick_stream h n x with e | e | ⟨e, _⟩
  · left; rw [e]
  · right; left; rw [e]; cases (h.chans x).stream <;> rfl
  · right; right; rw [e]; rfl

/-! ### `add` -/

/-- the version check of `historyHub.add` against a stream -/
def VersionSkip (o : PubOpts) (s : MStream Pub) : Prop :=
  o.version > 0 ∧ (o.versionEpoch = "" ∨ o.versionEpoch = s.topVersionEpoch) ∧ o.version ≤ s.topVersion

instance (o : PubOpts) (s : MStream Pub) : Decidable (VersionSkip o s) := by
  unfold VersionSkip; exact inferInstance

theorem addCore_skip (g : Hub) (ch : String) (pub : Pub) (o : PubOpts) (prev : Option (Item Pub))
    (s : MStream Pub) (hst : (g.chans ch).stream = some s) (hv : VersionSkip o s) :
    g.addCore ch pub o prev = (g, ⟨⟨s.top, s.epoch⟩, none, true⟩) := by
  unfold Hub.addCore
  simp only [hst]
  have hv' := hv
  unfold VersionSkip at hv'
  rw [if_pos hv']

theorem addCore_store (g : Hub) (ch : String) (pub : Pub) (o : PubOpts) (prev : Option (Item Pub))
    (s : MStream Pub) (hst : (g.chans ch).stream = some s) (hv : ¬ VersionSkip o s) :
    g.addCore ch pub o prev =
      (g.set ch { g.chans ch with stream := some (s.add pub o.size o.version o.versionEpoch).1 },
        ⟨⟨s.top + 1, s.epoch⟩, prev, false⟩) := by
  unfold Hub.addCore
  simp only [hst]
  have hv' := hv
  unfold VersionSkip at hv'
  rw [if_neg hv']
  rfl

theorem addCore_new (g : Hub) (ch : String) (pub : Pub) (o : PubOpts) (prev : Option (Item Pub))
    (hst : (g.chans ch).stream = none) :
    g.addCore ch pub o prev =
      ({ (g.set ch { g.chans ch with
            stream := some ((MStream.new g.nextEpoch : MStream Pub).add pub o.size o.version o.versionEpoch).1 }) with
          nextEpoch := g.nextEpoch + 1 },
        ⟨⟨1, g.nextEpoch⟩, prev, false⟩) := by
  unfold Hub.addCore
  simp only [hst]
  rfl

/-- a stored `add` is the specification's `append` (state and returned position) -/
theorem addCore_abs (g : Hub) (ch : String) (pub : Pub) (o : PubOpts) (prev : Option (Item Pub))
    (hs : (g.addCore ch pub o prev).2.skip = false) :
    (g.addCore ch pub o prev).1.abs = (g.abs.append ch pub o.size).1 ∧
      (g.addCore ch pub o prev).2.pos = (g.abs.append ch pub o.size).2 ∧
      (g.addCore ch pub o prev).2.prev = prev := by
  cases hst : (g.chans ch).stream with
  | some s =>
    by_cases hv : VersionSkip o s
    · rw [addCore_skip g ch pub o prev s hst hv] at hs; cases hs
    · rw [addCore_store g ch pub o prev s hst hv]
      have hc : g.abs.chans ch = some (absS s) := by simp [Hub.abs, hst]
      have he : g.abs.ensure ch = (g.abs, absS s) := by unfold Abs.ensure; simp [hc]
      unfold Abs.append
      rw [he]
      refine ⟨?_, ?_, rfl⟩
      · rw [set_stream_abs]; simp [absS_add]
      · simp [AbsChan.pos, AbsChan.append, absS]
  | none =>
    rw [addCore_new g ch pub o prev hst]
    have hc : g.abs.chans ch = none := by simp [Hub.abs, hst]
    refine ⟨?_, ?_, rfl⟩ <;> unfold Abs.append Abs.ensure <;> simp only [hc]
    · apply Abs.ext'
      · funext x
        by_cases hx : x = ch
        · subst hx; simp [Hub.abs, Abs.setChan, absS_add, absS_new]
        · simp [Hub.abs, Abs.setChan, set_chans_other _ _ _ _ hx, hx]
      · simp [Hub.abs, Abs.setChan]
    · simp [AbsChan.pos, AbsChan.append, Hub.abs]

theorem get_stream_some (h : Hub) (ch : String) (f : Filter) (m n : Nat) (s : MStream Pub)
    (hst : (h.chans ch).stream = some s) : (h.get ch f m n).1 = h.touchMeta ch m n := by
  unfold Hub.get Hub.getCore
  simp only [touchMeta_stream, hst]
  cases f.since with
  | none => simp only; split <;> rfl
  | some p => simp only; split <;> (try split) <;> rfl

theorem get_stream_none (h : Hub) (ch : String) (f : Filter) (m n : Nat)
    (hst : (h.chans ch).stream = none) :
    ((h.get ch f m n).1.chans ch).stream = some (MStream.new h.nextEpoch) := by
  unfold Hub.get Hub.getCore
  simp [touchMeta_stream, hst]

/-- the hub right before `stream.Add` (after delta read and deadline refreshes) -/
def Hub.preAdd (h : Hub) (ch : String) (o : PubOpts) (n : Nat) : Hub :=
  (((h.deltaRead ch o n).1.touchExpire ch o.ttl n).touchMeta ch o.metaTTL n)

theorem versionSkip_some (g : Hub) (ch : String) (o : PubOpts) (s : MStream Pub)
    (hst : (g.chans ch).stream = some s) (hv : VersionSkip o s) :
    g.versionSkip ch o = some ⟨s.top, s.epoch⟩ := by
  unfold Hub.versionSkip
  simp only [hst]
  have hv' := hv
  unfold VersionSkip at hv'
  rw [if_pos hv']

theorem versionSkip_none_of_not (g : Hub) (ch : String) (o : PubOpts) (s : MStream Pub)
    (hst : (g.chans ch).stream = some s) (hv : ¬ VersionSkip o s) : g.versionSkip ch o = none := by
  unfold Hub.versionSkip
  simp only [hst]
  have hv' := hv
  unfold VersionSkip at hv'
  rw [if_neg hv']

theorem versionSkip_none_of_nostream (g : Hub) (ch : String) (o : PubOpts)
    (hst : (g.chans ch).stream = none) : g.versionSkip ch o = none := by
  unfold Hub.versionSkip
  simp only [hst]

theorem add_skip_eq (h : Hub) (ch : String) (pub : Pub) (o : PubOpts) (n : Nat) (p : Pos)
    (hv : h.versionSkip ch o = some p) :
    h.add ch pub o n = (h, ⟨p, none, true⟩) := by
  unfold Hub.add
  simp only [hv]

theorem add_store_eq (h : Hub) (ch : String) (pub : Pub) (o : PubOpts) (n : Nat)
    (hv : h.versionSkip ch o = none) :
    h.add ch pub o n = (h.preAdd ch o n).addCore ch pub o (h.deltaRead ch o n).2 := by
  unfold Hub.add Hub.preAdd
  simp only [hv]

theorem deltaRead_abs (h : Hub) (ch : String) (o : PubOpts) (n : Nat) :
    (h.deltaRead ch o n).1.abs = if o.useDelta then (h.abs.ensure ch).1 else h.abs := by
  unfold Hub.deltaRead
  split
  · exact (get_abs h ch _ _ _).1
  · rfl

theorem deltaRead_stream_some (h : Hub) (ch : String) (o : PubOpts) (n : Nat) (s : MStream Pub)
    (hst : (h.chans ch).stream = some s) :
    (h.deltaRead ch o n).1 = (if o.useDelta then h.touchMeta ch o.metaTTL n else h) ∧
      ∀ x, (((h.deltaRead ch o n).1).chans x).stream = (h.chans x).stream := by
  unfold Hub.deltaRead
  split
  · simp only [get_stream_some h ch _ _ _ s hst]
    exact ⟨trivial, fun x => touchMeta_stream _ _ _ _ _⟩
  · exact ⟨rfl, fun _ => rfl⟩

theorem deltaRead_stream_none (h : Hub) (ch : String) (o : PubOpts) (n : Nat)
    (hst : (h.chans ch).stream = none) :
    (((h.deltaRead ch o n).1).chans ch).stream =
      if o.useDelta then some (MStream.new h.nextEpoch) else none := by
  unfold Hub.deltaRead
  split
  · exact get_stream_none h ch _ _ _ hst
  · exact hst

theorem preAdd_abs (h : Hub) (ch : String) (o : PubOpts) (n : Nat) :
    (h.preAdd ch o n).abs = if o.useDelta then (h.abs.ensure ch).1 else h.abs := by
  unfold Hub.preAdd
  rw [touchMeta_abs, touchExpire_abs, deltaRead_abs]

theorem preAdd_stream (h : Hub) (ch : String) (o : PubOpts) (n : Nat) (x : String) :
    ((h.preAdd ch o n).chans x).stream = (((h.deltaRead ch o n).1).chans x).stream := by
  unfold Hub.preAdd
  rw [touchMeta_stream, touchExpire_stream]

theorem preAdd_stream_some (h : Hub) (ch : String) (o : PubOpts) (n : Nat) (s : MStream Pub)
    (hst : (h.chans ch).stream = some s) : ((h.preAdd ch o n).chans ch).stream = some s := by
  rw [preAdd_stream, (deltaRead_stream_some h ch o n s hst).2, hst]

theorem preAdd_stream_none (h : Hub) (ch : String) (o : PubOpts) (n : Nat)
    (hst : (h.chans ch).stream = none) :
    ((h.preAdd ch o n).chans ch).stream =
      if o.useDelta then some (MStream.new h.nextEpoch) else none := by
  rw [preAdd_stream, deltaRead_stream_none h ch o n hst]

theorem new_not_versionSkip (o : PubOpts) (e : Nat) : ¬ VersionSkip o (MStream.new e) := by
  unfold VersionSkip MStream.new; simp; omega

/-- the three ways `add` can go, with the hub it starts the tail from -/
inductive AddCase (h : Hub) (ch : String) (pub : Pub) (o : PubOpts) (n : Nat) : Prop
  | skip (s : MStream Pub) (hst : (h.chans ch).stream = some s) (hv : VersionSkip o s)
      (he : h.add ch pub o n = (h, ⟨⟨s.top, s.epoch⟩, none, true⟩))
  | store (s : MStream Pub) (hst : (h.chans ch).stream = some s) (hv : ¬ VersionSkip o s)
      (he : h.add ch pub o n =
        ((h.preAdd ch o n).set ch { (h.preAdd ch o n).chans ch with
            stream := some (s.add pub o.size o.version o.versionEpoch).1 },
          ⟨⟨s.top + 1, s.epoch⟩, (h.deltaRead ch o n).2, false⟩))
      (hc : h.add ch pub o n = (h.preAdd ch o n).addCore ch pub o (h.deltaRead ch o n).2)
  | create (hst : (h.chans ch).stream = none)
      (he : (h.add ch pub o n).2 = ⟨⟨1, h.nextEpoch⟩, (h.deltaRead ch o n).2, false⟩)
      (hc : h.add ch pub o n = (h.preAdd ch o n).addCore ch pub o (h.deltaRead ch o n).2)

theorem add_cases (h : Hub) (ch : String) (pub : Pub) (o : PubOpts) (n : Nat) : AddCase h ch pub o n := by
  cases hst : (h.chans ch).stream with
  | some s =>
    have hp := preAdd_stream_some h ch o n s hst
    by_cases hv : VersionSkip o s
    · exact .skip s hst hv (add_skip_eq h ch pub o n _ (versionSkip_some _ ch o s hst hv))
    · have hc := add_store_eq h ch pub o n (versionSkip_none_of_not _ ch o s hst hv)
      exact .store s hst hv (by rw [hc, addCore_store _ ch pub o _ s hp hv]) hc
  | none =>
    have hp := preAdd_stream_none h ch o n hst
    have hc := add_store_eq h ch pub o n (versionSkip_none_of_nostream _ ch o hst)
    by_cases hdl : o.useDelta
    · simp only [hdl, if_true] at hp
      refine .create hst ?_ hc
      rw [hc, addCore_store _ ch pub o _ _ hp (new_not_versionSkip o _)]
      rfl
    · simp only [hdl, Bool.false_eq_true, if_false] at hp
      refine .create hst ?_ hc
      rw [hc, addCore_new _ ch pub o _ hp]
      have : (h.preAdd ch o n).nextEpoch = h.nextEpoch := by
        unfold Hub.preAdd Hub.deltaRead; simp [hdl]
      simp [this]

/-- **version_suppressed_iff** (hub level): `add` skips exactly when the channel has a stream whose
version pair passes the check (no stream ⇒ never; an unversioned publish ⇒ never) -/
theorem add_skip_iff (h : Hub) (ch : String) (pub : Pub) (o : PubOpts) (n : Nat) :
    (h.add ch pub o n).2.skip = true ↔ ∃ s, (h.chans ch).stream = some s ∧ VersionSkip o s := by
  rcases add_cases h ch pub o n with ⟨s, hst, hv, he⟩ | ⟨s, hst, hv, he, _⟩ | ⟨hst, he, _⟩
  · rw [he]; simp only [true_iff]; exact ⟨s, hst, hv⟩
  · rw [he]; simp only [Bool.false_eq_true, false_iff]
    rintro ⟨t, ht, hvt⟩; rw [hst] at ht; cases ht; exact hv hvt
  · rw [he]; simp only [Bool.false_eq_true, false_iff]
    rintro ⟨t, ht, _⟩; rw [hst] at ht; cases ht

/-- a skipped `add` returns the current top position and leaves the hub **completely unchanged**
(streams, deadlines, queues; also with `UseDelta`: the version check precedes the delta read) -/
theorem add_skip_spec (h : Hub) (ch : String) (pub : Pub) (o : PubOpts) (n : Nat)
    (hs : (h.add ch pub o n).2.skip = true) :
    (h.add ch pub o n).1 = h ∧
      (h.add ch pub o n).1.abs = h.abs ∧ (h.add ch pub o n).2.prev = none ∧
      (∀ x, ((h.add ch pub o n).1.chans x).stream = (h.chans x).stream) ∧
      ∃ s, (h.chans ch).stream = some s ∧ (h.add ch pub o n).2.pos = ⟨s.top, s.epoch⟩ := by
  rcases add_cases h ch pub o n with ⟨s, hst, hv, he⟩ | ⟨s, hst, hv, he, _⟩ | ⟨hst, he, _⟩
  · rw [he]
    exact ⟨rfl, rfl, rfl, fun _ => rfl, s, hst, rfl⟩
  · rw [he] at hs; cases hs
  · rw [he] at hs; cases hs

/-- a stored `add` is the specification's `append` -/
theorem add_store_spec (h : Hub) (ch : String) (pub : Pub) (o : PubOpts) (n : Nat)
    (hs : (h.add ch pub o n).2.skip = false) :
    (h.add ch pub o n).1.abs = (h.abs.append ch pub o.size).1 ∧
      (h.add ch pub o n).2.pos = (h.abs.append ch pub o.size).2 := by
  have key : h.add ch pub o n = (h.preAdd ch o n).addCore ch pub o (h.deltaRead ch o n).2 := by
    rcases add_cases h ch pub o n with ⟨s, hst, hv, he⟩ | ⟨s, hst, hv, he, hc⟩ | ⟨hst, he, hc⟩
    · rw [he] at hs; cases hs
    · exact hc
    · exact hc
  rw [key] at hs ⊢
  obtain ⟨h1, h2, _⟩ := addCore_abs _ ch pub o _ hs
  rw [h1, h2, preAdd_abs]
  split
  · rw [append_ensure]; exact ⟨rfl, rfl⟩
  · exact ⟨rfl, rfl⟩

/-! ### streams of other channels are never touched -/

theorem getCore_stream_other (g : Hub) (ch : String) (f : Filter) (x : String) (hx : x ≠ ch) :
    (((g.getCore ch f).1).chans x).stream = (g.chans x).stream := by
  unfold Hub.getCore
  simp only
  cases hst : (g.chans ch).stream with
  | none => simp [set_chans_other _ _ _ _ hx]
  | some s =>
    simp only
    cases f.since with
    | none => simp only; split <;> rfl
    | some p => simp only; split <;> (try split) <;> rfl

theorem get_stream_other (h : Hub) (ch : String) (f : Filter) (m n : Nat) (x : String) (hx : x ≠ ch) :
    (((h.get ch f m n).1).chans x).stream = (h.chans x).stream := by
  unfold Hub.get
  rw [getCore_stream_other _ ch f x hx, touchMeta_stream]

theorem addCore_stream_other (g : Hub) (ch : String) (pub : Pub) (o : PubOpts) (prev : Option (Item Pub))
    (x : String) (hx : x ≠ ch) : (((g.addCore ch pub o prev).1).chans x).stream = (g.chans x).stream := by
  cases hst : (g.chans ch).stream with
  | some s =>
    by_cases hv : VersionSkip o s
    · rw [addCore_skip g ch pub o prev s hst hv]
    · rw [addCore_store g ch pub o prev s hst hv]; simp [set_chans_other _ _ _ _ hx]
  | none => rw [addCore_new g ch pub o prev hst]; simp [set_chans_other _ _ _ _ hx]

theorem deltaRead_stream_other (h : Hub) (ch : String) (o : PubOpts) (n : Nat) (x : String) (hx : x ≠ ch) :
    (((h.deltaRead ch o n).1).chans x).stream = (h.chans x).stream := by
  unfold Hub.deltaRead
  split
  · exact get_stream_other h ch _ _ _ x hx
  · rfl

theorem add_stream_other (h : Hub) (ch : String) (pub : Pub) (o : PubOpts) (n : Nat) (x : String)
    (hx : x ≠ ch) : (((h.add ch pub o n).1).chans x).stream = (h.chans x).stream := by
  rcases add_cases h ch pub o n with ⟨s, hst, hv, he⟩ | ⟨s, hst, hv, he, hc⟩ | ⟨hst, he, hc⟩
  · rw [he]
  · rw [hc, addCore_stream_other _ ch pub o _ x hx, preAdd_stream]
    exact deltaRead_stream_other h ch o n x hx
  · rw [hc, addCore_stream_other _ ch pub o _ x hx, preAdd_stream]
    exact deltaRead_stream_other h ch o n x hx

/-! ### invariant -/

/-- every stream satisfies the contiguity invariant and the abstract state is well-formed -/
def Hub.Inv (h : Hub) : Prop :=
  (∀ ch s, (h.chans ch).stream = some s → s.Inv) ∧ h.abs.Inv

theorem init_inv (m : Nat) : ({ metaTTL := m } : Hub).Inv := by
  refine ⟨?_, ?_, ?_, ?_⟩
  · intro ch s h; cases h
  · intro ch c h; simp [Hub.abs] at h
  · intro c1 c2 x y _ h; simp [Hub.abs] at h
  · simp [Hub.abs]

theorem touchMeta_inv (h : Hub) (hi : h.Inv) (ch : String) (m n : Nat) : (h.touchMeta ch m n).Inv := by
  refine ⟨?_, by rw [touchMeta_abs]; exact hi.2⟩
  intro x s hs; rw [touchMeta_stream] at hs; exact hi.1 x s hs

theorem touchExpire_inv (h : Hub) (hi : h.Inv) (ch : String) (t n : Nat) : (h.touchExpire ch t n).Inv := by
  refine ⟨?_, by rw [touchExpire_abs]; exact hi.2⟩
  intro x s hs; rw [touchExpire_stream] at hs; exact hi.1 x s hs

theorem getCore_inv (g : Hub) (hi : g.Inv) (ch : String) (f : Filter) : (g.getCore ch f).1.Inv := by
  refine ⟨?_, by rw [(getCore_abs g ch f).1]; exact (ensure_spec _ hi.2 ch).1⟩
  intro x s hs
  unfold Hub.getCore at hs
  simp only at hs
  cases hst : (g.chans ch).stream with
  | none =>
    simp only [hst] at hs
    by_cases hx : x = ch
    · subst hx; simp at hs; subst hs; exact new_inv _
    · simp [set_chans_other _ _ _ _ hx] at hs; exact hi.1 x s hs
  | some t =>
    simp only [hst] at hs
    have : ∀ (r : Hub × List (Item Pub) × Pos), r.1 = g → (r.1.chans x).stream = some s → s.Inv := by
      intro r hr h'; rw [hr] at h'; exact hi.1 x s h'
    cases hsin : f.since with
    | none => simp only [hsin] at hs; split at hs <;> exact hi.1 x s hs
    | some p => simp only [hsin] at hs; split at hs <;> (try split at hs) <;> exact hi.1 x s hs

theorem get_inv (h : Hub) (hi : h.Inv) (ch : String) (f : Filter) (m n : Nat) : (h.get ch f m n).1.Inv :=
  getCore_inv _ (touchMeta_inv h hi ch m n) ch f

theorem addCore_inv (g : Hub) (hi : g.Inv) (ch : String) (pub : Pub) (o : PubOpts)
    (prev : Option (Item Pub)) : (g.addCore ch pub o prev).1.Inv := by
  cases hst : (g.chans ch).stream with
  | some s =>
    by_cases hv : VersionSkip o s
    · rw [addCore_skip g ch pub o prev s hst hv]; exact hi
    · have hsk : (g.addCore ch pub o prev).2.skip = false := by rw [addCore_store g ch pub o prev s hst hv]
      refine ⟨?_, by rw [(addCore_abs g ch pub o prev hsk).1]; exact append_inv _ hi.2 _ _ _⟩
      rw [addCore_store g ch pub o prev s hst hv]
      intro x t ht
      by_cases hx : x = ch
      · subst hx; simp at ht; subst ht
        exact (stream_add_inv s (hi.1 _ s hst) _ _ _ _).1
      · simp [set_chans_other _ _ _ _ hx] at ht; exact hi.1 x t ht
  | none =>
    have hsk : (g.addCore ch pub o prev).2.skip = false := by rw [addCore_new g ch pub o prev hst]
    refine ⟨?_, by rw [(addCore_abs g ch pub o prev hsk).1]; exact append_inv _ hi.2 _ _ _⟩
    rw [addCore_new g ch pub o prev hst]
    intro x t ht
    by_cases hx : x = ch
    · subst hx; simp at ht; subst ht
      exact (stream_add_inv _ (new_inv _) _ _ _ _).1
    · simp [set_chans_other _ _ _ _ hx] at ht; exact hi.1 x t ht

theorem deltaRead_inv (h : Hub) (hi : h.Inv) (ch : String) (o : PubOpts) (n : Nat) :
    (h.deltaRead ch o n).1.Inv := by
  unfold Hub.deltaRead
  split
  · exact get_inv h hi ch _ _ _
  · exact hi

theorem add_inv (h : Hub) (hi : h.Inv) (ch : String) (pub : Pub) (o : PubOpts) (n : Nat) :
    (h.add ch pub o n).1.Inv := by
  have hpre : (h.preAdd ch o n).Inv := by
    unfold Hub.preAdd
    exact touchMeta_inv _ (touchExpire_inv _ (deltaRead_inv h hi ch o n) _ _ _) _ _ _
  rcases add_cases h ch pub o n with ⟨s, hst, hv, he⟩ | ⟨s, hst, hv, he, hc⟩ | ⟨hst, he, hc⟩
  · rw [he]; exact hi
  · rw [hc]; exact addCore_inv _ hpre _ _ _ _
  · rw [hc]; exact addCore_inv _ hpre _ _ _ _

theorem remove_inv (h : Hub) (hi : h.Inv) (ch : String) : (h.remove ch).Inv := by
  refine ⟨?_, by rw [remove_abs]; exact AbsStream.clear_inv _ hi.2 _⟩
  intro x s hs
  unfold Hub.remove at hs
  simp only at hs
  cases hst : (h.chans ch).stream with
  | none => simp only [hst] at hs; exact hi.1 x s hs
  | some t =>
    simp only [hst] at hs
    by_cases hx : x = ch
    · subst hx; simp at hs; subst hs; exact MemStream.clear_inv t
    · simp [set_chans_other _ _ _ _ hx] at hs; exact hi.1 x s hs

theorem tick_hub_inv (h : Hub) (hi : h.Inv) (n : Nat) : (h.tick n).Inv := by
  refine ⟨?_, tick_inv _ _ hi.2 (tick_abs h n)⟩
  intro x s hs
  rcases tick_stream h n x with e | e | ⟨e, _⟩
  · rw [e] at hs; exact hi.1 x s hs
  · rw [e] at hs
    cases hst : (h.chans x).stream with
    | none => rw [hst] at hs; cases hs
    | some t => rw [hst] at hs; simp at hs; subst hs; exact MemStream.clear_inv t
  · rw [e] at hs; cases hs

end CentrifugeVerif.HistoryHub
