import CentrifugeVerif.Proofs.SubProtoNT10
/-!
Layer 6 of the no-timeout invariants (`L6`): join / leave counting.  For every generation at most one
join and at most one leave is ever published (J2, L2).
-/
namespace CentrifugeVerif.SubProto

@[simp] theorem logged_append (a b : List Eff) : logged (a ++ b) = logged a ++ logged b := by
  induction a with
  | nil => rfl
  | cons x r ih => cases x <;> simp [logged, ih]

@[simp] theorem logged_gateEff (g : Option Gen) : logged (gateEff g) = [] := by
  cases g <;> simp [gateEff, logged]

/-- at most one event is logged per step, and which -/
theorem step_logged (s : State) (tid : Tid) (t t' : Thread) (o : Outcome) (effs : List Eff)
    (hs : stepThread s tid t o = some (effs, t')) :
    logged effs = [] ∨ ∃ ev, logged effs = [ev] ∧
      ((ev = .commit t.ch t.cmdGen ∧ t.pc = .sCommit) ∨
       (ev = .join t.ch t.cmdGen ∧ t.pc = .sJoin ∧ t'.pc = .done) ∨
       (∃ c, ev = .leave t.ch c.gen ∧ t.pc = .uLeave ∧ t.ctx = some c ∧ t'.pc = .uHubRm ∧ t'.ch = t.ch ∧ t'.target = t.target) ∨
       (ev = .onUnsub t.ch) ∨ ev = .onDisconnect ∨ ev = .replyOk tid ∨ ev = .replyErr tid) := by
  step_cases hs <;> simp_all [logged]

/-- after the commit the attempt still works with its reservation's generation -/
theorem step_PC_self (s : State) (tid : Tid) (t t' : Thread) (o : Outcome) (effs : List Eff)
    (hs : stepThread s tid t o = some (effs, t')) (hnt : o ≠ .tmo)
    (hD : cmdPc t.pc = true → t.cmdGen = t.resGen)
    (hP : postCommitPc t.pc = true → t.cmdGen = t.resGen) (hp : postCommitPc t'.pc = true) :
    t'.cmdGen = t'.resGen := by
  step_cases hs <;> simp_all [notCommitted, unsubReturn, afterHubRm]

/-- pcs from which a join may still be published keep channel and generation -/
theorem step_preJoin_self (s : State) (tid : Tid) (t t' : Thread) (o : Outcome) (effs : List Eff)
    (hs : stepThread s tid t o = some (effs, t')) (hp : preJoinPc t'.pc = true) :
    t'.ch = t.ch ∧ ((preJoinPc t.pc = true ∧ t'.resGen = t.resGen) ∨
      (t.pc = .sReserve ∧ t'.resGen = s.genCounter + 1 ∧ Eff.mint ∈ effs)) := by
  step_cases hs <;> simp_all [notCommitted, unsubReturn, afterHubRm]

/-- the context of an unsubscribe that has deleted its entry is that entry -/
theorem step_XG_self (s : State) (tid : Tid) (t t' : Thread) (o : Outcome) (effs : List Eff)
    (hs : stepThread s tid t o = some (effs, t')) (hnt : o ≠ .tmo)
    (hX : removePc t.pc = true → ∀ e, aget s.channels t.ch = some e → e.gen = t.target → t.ctx = some e)
    (hG : preLeavePc t.pc = true → ∃ c, t.ctx = some c ∧ c.gen = t.target)
    (hp : preLeavePc t'.pc = true) : ∃ c, t'.ctx = some c ∧ c.gen = t'.target := by
  step_cases hs <;> simp_all [notCommitted, unsubReturn, afterHubRm]

/-- entering the cleanup range means: this step deleted the entry of the target generation -/
theorem step_preLeave_self (s : State) (tid : Tid) (t t' : Thread) (o : Outcome) (effs : List Eff)
    (hs : stepThread s tid t o = some (effs, t')) (hp : postDelPc t'.pc = true) :
    t'.ch = t.ch ∧ t'.target = t.target ∧
      (postDelPc t.pc = true ∨ (t.pc = .uRemove ∧ ∃ e, aget s.channels t.ch = some e ∧ e.gen = t.target)) := by
  step_cases hs <;> simp_all [notCommitted, unsubReturn, afterHubRm]


theorem step_preLeave2_self (s : State) (tid : Tid) (t t' : Thread) (o : Outcome) (effs : List Eff)
    (hs : stepThread s tid t o = some (effs, t')) (hp : preLeavePc t'.pc = true) :
    t'.ch = t.ch ∧ t'.target = t.target ∧ logged effs = [] ∧
      (preLeavePc t.pc = true ∨ (t.pc = .uRemove ∧ ∃ e, aget s.channels t.ch = some e ∧ e.gen = t.target)) := by
  step_cases hs <;> simp_all [logged, notCommitted, unsubReturn, afterHubRm]

theorem holdPc_of_cmdPc (pc : Pc) (h : cmdPc pc = true) : holdPc pc = true := by
  cases pc <;> simp_all
theorem postDelPc_of_preLeavePc (pc : Pc) (h : preLeavePc pc = true) : postDelPc pc = true := by
  cases pc <;> simp_all
theorem cmdPc_of_holdPc_commit (pc : Pc) (h : pc = .sCommit) : cmdPc pc = true ∧ holdPc pc = true := by
  subst h; exact ⟨rfl, rfl⟩

structure L6 (s : State) : Prop where
  JB : ∀ ch g, (Ev.join ch g ∈ s.log ∨ Ev.leave ch g ∈ s.log) → g ≤ s.genCounter
  PC : ∀ x t, aget s.threads x = some t → postCommitPc t.pc = true → t.cmdGen = t.resGen
  J1 : ∀ x t, aget s.threads x = some t → preJoinPc t.pc = true → Ev.join t.ch t.resGen ∉ s.log
  J2 : ∀ ch g, List.count (Ev.join ch g) s.log ≤ 1
  XG : ∀ x t, aget s.threads x = some t → preLeavePc t.pc = true → ∃ c, t.ctx = some c ∧ c.gen = t.target
  LU : ∀ x y tx ty, aget s.threads x = some tx → aget s.threads y = some ty → postDelPc tx.pc = true →
    postDelPc ty.pc = true → tx.ch = ty.ch → tx.target = ty.target → x = y
  L1 : ∀ x t, aget s.threads x = some t → preLeavePc t.pc = true → Ev.leave t.ch t.target ∉ s.log
  L4 : ∀ ch g, Ev.leave ch g ∈ s.log → ∀ e, aget s.channels ch = some e → e.gen ≠ g
  L2 : ∀ ch g, List.count (Ev.leave ch g) s.log ≤ 1

theorem L6.init : L6 State.init := by
  constructor <;> simp [State.init, aget]

theorem count_append_single (l : List Ev) (ev x : Ev) :
    List.count x (l ++ [ev]) = List.count x l + (if ev = x then 1 else 0) := by
  rw [List.count_append]
  by_cases h : ev = x
  · subst h; simp
  · simp [h, List.count_cons]

theorem next_L6 (s s' : State) (l : Label) (hi : NTInvFull s) (h6 : L6 s) (hl : l.noTmo = true)
    (hn : next s l = some s') : L6 s' := by
  have hg := hi.base.ghost
  have h1 := hi.base.l1
  have h2 := hi.base.l2
  have h3 := hi.base.l3
  have h5 := hi.l5
  cases l with
  | spawn k ch o =>
    simp only [next, Option.some.injEq] at hn
    subst hn
    have hnew : ∀ x u, aget (s.threads ++ [(s.nextTid, ({ kind := k, ch := ch, opts := o, pc := initPc k } : Thread))]) x = some u →
        aget s.threads x = some u ∨ u = { kind := k, ch := ch, opts := o, pc := initPc k } := by
      intro x u hx
      cases hs : aget s.threads x with
      | some v => rw [aget_append_some _ _ _ _ hs] at hx; cases hx; exact Or.inl rfl
      | none =>
        right
        have hm := aget_mem _ _ _ hx
        simp only [List.mem_append, List.mem_singleton] at hm
        rcases hm with hm | hm
        · exact absurd (List.mem_map_of_mem (f := (·.1)) hm) ((aget_none_iff _ _).mp hs)
        · cases hm; rfl
    refine ⟨h6.JB, ?_, ?_, h6.J2, ?_, ?_, ?_, h6.L4, h6.L2⟩
    · intro x u hx hp
      rcases hnew x u hx with h | h
      · exact h6.PC x u h hp
      · subst h; cases k <;> simp [initPc] at hp
    · intro x u hx hp
      rcases hnew x u hx with h | h
      · exact h6.J1 x u h hp
      · subst h; cases k <;> simp [initPc] at hp
    · intro x u hx hp
      rcases hnew x u hx with h | h
      · exact h6.XG x u h hp
      · subst h; cases k <;> simp [initPc] at hp
    · intro x y tx ty hx hy hpx hpy hc ht
      rcases hnew x tx hx with h | h
      · rcases hnew y ty hy with h' | h'
        · exact h6.LU x y tx ty h h' hpx hpy hc ht
        · subst h'; cases k <;> simp [initPc] at hpy
      · subst h; cases k <;> simp [initPc] at hpx
    · intro x u hx hp
      rcases hnew x u hx with h | h
      · exact h6.L1 x u h hp
      · subst h; cases k <;> simp [initPc] at hp
  | step tid o =>
    have hnt : o ≠ .tmo := by
      intro ho; subst ho; simp [Label.noTmo] at hl
    obtain ⟨t, effs, t', hget, hst, rfl⟩ := next_step_some hn
    have hlog : (after s tid t' effs).log = s.log ++ logged effs := log_applyEffs_eq _ _
    have hle := genCounter_applyEffs_le effs { s with threads := setThread s.threads tid t' }
    have hmint := genCounter_applyEffs_mint effs { s with threads := setThread s.threads tid t' }
    have htb := h1.thrBound tid t hget
    -- the join / leave this step publishes, if any
    have hjoin : ∀ ch g, Ev.join ch g ∈ logged effs →
        ch = t.ch ∧ g = t.resGen ∧ t.pc = .sJoin ∧ t'.pc = .done ∧ logged effs = [Ev.join ch g] := by
      intro ch g hm
      rcases step_logged s tid t t' o effs hst with h | ⟨ev, hev, hc⟩
      · rw [h] at hm; cases hm
      · rw [hev] at hm; simp only [List.mem_singleton] at hm; subst hm
        rcases hc with ⟨h, _⟩ | ⟨h, hp, hp'⟩ | ⟨c, h, _⟩ | h | h | h | h <;> (try cases h)
        exact ⟨rfl, (h6.PC tid t hget (by simp [hp])), hp, hp', hev⟩
    have hleave : ∀ ch g, Ev.leave ch g ∈ logged effs →
        ch = t.ch ∧ g = t.target ∧ t.pc = .uLeave ∧ t'.pc = .uHubRm ∧ logged effs = [Ev.leave ch g] := by
      intro ch g hm
      rcases step_logged s tid t t' o effs hst with h | ⟨ev, hev, hc⟩
      · rw [h] at hm; cases hm
      · rw [hev] at hm; simp only [List.mem_singleton] at hm; subst hm
        rcases hc with ⟨h, _⟩ | ⟨h, _, _⟩ | ⟨c, h, hp, hctx, hp', _, _⟩ | h | h | h | h <;> (try cases h)
        obtain ⟨c', hc', hg'⟩ := h6.XG tid t hget (by simp [hp])
        rw [hctx] at hc'; cases hc'
        exact ⟨rfl, hg', hp, hp', hev⟩
    have hent : ∀ c e, aget (after s tid t' effs).channels c = some e →
        aget s.channels c = some e ∨ (c = t.ch ∧
          ((t.pc = .sReserve ∧ e = Entry.reservation (s.genCounter + 1) ∧ aget s.channels t.ch = none) ∨
           (t.pc = .sCommit ∧ e.subscribed = true ∧ e.gen = t.cmdGen ∧ ∃ e0, aget s.channels t.ch = some e0 ∧ e0.gen = t.cmdGen))) := by
      intro c e he
      rcases channels_applyEffs _ _ _ _ he with h | h
      · exact Or.inl h
      · exact Or.inr (new_entry_cases s hg tid t t' o effs hst hnt c e h)
    refine ⟨?_, ?_, ?_, ?_, ?_, ?_, ?_, ?_, ?_⟩
    · -- JB
      intro ch g hm
      rw [hlog] at hm
      simp only [List.mem_append] at hm
      rcases hm with (hm | hm) | (hm | hm)
      · exact Nat.le_trans (h6.JB ch g (Or.inl hm)) hle
      · obtain ⟨_, hgq, _⟩ := hjoin ch g hm
        rw [hgq]; exact Nat.le_trans htb.1 hle
      · exact Nat.le_trans (h6.JB ch g (Or.inr hm)) hle
      · obtain ⟨_, hgq, _⟩ := hleave ch g hm
        rw [hgq]; exact Nat.le_trans htb.2.2.1 hle
    · -- PC
      intro x u hx hp
      rcases aget_threads_after s tid t t' effs x u hget hx with ⟨_, hxo⟩ | ⟨_, hue⟩ | hue
      · exact h6.PC x u hxo hp
      · rw [hue] at hp ⊢
        have hD : cmdPc t.pc = true → t.cmdGen = t.resGen := by
          intro hc
          have hh : holdPc t.pc = true := holdPc_of_cmdPc _ hc
          obtain ⟨_, _, _, _, hcc⟩ := h2.D tid t hget hh
          exact hcc hc
        exact step_PC_self s tid t t' o effs hst hnt hD (h6.PC tid t hget) hp
      · rw [hue] at hp; simp [autoClose] at hp
    · -- J1
      intro x u hx hp hm
      rw [hlog] at hm
      simp only [List.mem_append] at hm
      rcases aget_threads_after s tid t t' effs x u hget hx with ⟨hne, hxo⟩ | ⟨_, hue⟩ | hue
      · rcases hm with hm | hm
        · exact h6.J1 x u hxo hp hm
        · obtain ⟨_, hgq, hpj, _⟩ := hjoin _ _ hm
          have hnz : u.resGen ≠ 0 := by
            rw [hgq, ← h6.PC tid t hget (by simp [hpj])]
            exact (hg.thr (tid, t) (aget_mem _ _ _ hget)).1 (by simp [hpj])
          exact hne (h1.uniq x tid u t hxo hget hnz hgq)
      · rw [hue] at hp hm
        obtain ⟨hch, hc⟩ := step_preJoin_self s tid t t' o effs hst hp
        rcases hc with ⟨hpt, hres⟩ | ⟨hpt, hres, hmi⟩
        · rcases hm with hm | hm
          · rw [hch, hres] at hm; exact h6.J1 tid t hget hpt hm
          · obtain ⟨_, _, _, hdone, _⟩ := hjoin _ _ hm
            rw [hdone] at hp; simp at hp
        · rcases hm with hm | hm
          · have := h6.JB _ _ (Or.inl hm)
            rw [hres] at this; exact absurd this (Nat.not_succ_le_self _)
          · obtain ⟨_, _, hpj, _⟩ := hjoin _ _ hm
            rw [hpt] at hpj; cases hpj
      · rw [hue] at hp; simp [autoClose] at hp
    · -- J2
      intro ch g
      rw [hlog]
      rcases step_logged s tid t t' o effs hst with h | ⟨ev, hev, _⟩
      · rw [h, List.append_nil]; exact h6.J2 ch g
      · rw [hev, count_append_single]
        by_cases hq : ev = Ev.join ch g
        · subst hq
          obtain ⟨hch, hgq, hpj, _⟩ := hjoin ch g (by rw [hev]; simp)
          have hnot := h6.J1 tid t hget (by simp [hpj])
          rw [← hch, ← hgq] at hnot
          have : List.count (Ev.join ch g) s.log = 0 := List.count_eq_zero.mpr hnot
          simp [this]
        · simp only [hq, if_false, Nat.add_zero]; exact h6.J2 ch g
    · -- XG
      intro x u hx hp
      rcases aget_threads_after s tid t t' effs x u hget hx with ⟨_, hxo⟩ | ⟨_, hue⟩ | hue
      · exact h6.XG x u hxo hp
      · rw [hue] at hp ⊢
        exact step_XG_self s tid t t' o effs hst hnt (h5.X tid t hget) (h6.XG tid t hget) hp
      · rw [hue] at hp; simp [autoClose] at hp
    · -- LU
      intro x y tx ty hx hy hpx hpy hc ht
      -- a thread entering the cleanup range deleted the entry of its target generation at this step
      have henter : ∀ z tz, aget s.threads z = some tz → z ≠ tid → postDelPc tz.pc = true → postDelPc t'.pc = true →
          t'.ch = tz.ch → t'.target = tz.target → False := by
        intro z tz hz hzne hpz hpt' hcz htz
        obtain ⟨r1, r2, r3⟩ := step_preLeave_self s tid t t' o effs hst hpt'
        rcases r3 with hpt | ⟨_, e, he, hge⟩
        · exact hzne (h6.LU z tid tz t hz hget hpz hpt (by rw [← hcz, r1]) (by rw [← htz, r2]))
        · exact h3.Hd z tz hz hpz e (by rw [← hcz, r1]; exact he) (by rw [hge, ← r2, htz])
      rcases aget_threads_after s tid t t' effs x tx hget hx with ⟨hxne, hxo⟩ | ⟨hxe, hxu⟩ | hxu <;>
        rcases aget_threads_after s tid t t' effs y ty hget hy with ⟨hyne, hyo⟩ | ⟨hye, hyu⟩ | hyu
      · exact h6.LU x y tx ty hxo hyo hpx hpy hc ht
      · rw [hyu] at hpy hc ht
        exact absurd (henter x tx hxo hxne hpx hpy hc.symm ht.symm) id
      · rw [hyu] at hpy; simp [autoClose] at hpy
      · rw [hxu] at hpx hc ht
        exact absurd (henter y ty hyo hyne hpy hpx hc ht) id
      · rw [hxe, hye]
      · rw [hyu] at hpy; simp [autoClose] at hpy
      · rw [hxu] at hpx; simp [autoClose] at hpx
      · rw [hxu] at hpx; simp [autoClose] at hpx
      · rw [hxu] at hpx; simp [autoClose] at hpx
    · -- L1
      intro x u hx hp hm
      rw [hlog] at hm
      simp only [List.mem_append] at hm
      rcases aget_threads_after s tid t t' effs x u hget hx with ⟨hne, hxo⟩ | ⟨_, hue⟩ | hue
      · rcases hm with hm | hm
        · exact h6.L1 x u hxo hp hm
        · obtain ⟨hch, hgq, hpl, _⟩ := hleave _ _ hm
          exact hne (h6.LU x tid u t hxo hget (postDelPc_of_preLeavePc _ hp) (by simp [hpl]) hch hgq)
      · rw [hue] at hp hm
        obtain ⟨r1, r2, r3, r4⟩ := step_preLeave2_self s tid t t' o effs hst hp
        rcases hm with hm | hm
        · rw [r1, r2] at hm
          rcases r4 with hpt | ⟨_, e, he, hge⟩
          · exact h6.L1 tid t hget hpt hm
          · exact h6.L4 _ _ hm e he hge
        · rw [r3] at hm; cases hm
      · rw [hue] at hp; simp [autoClose] at hp
    · -- L4
      intro ch g hm e he hge
      rw [hlog] at hm
      simp only [List.mem_append] at hm
      rcases hm with hm | hm
      · rcases hent ch e he with h | ⟨hch, h⟩
        · exact h6.L4 ch g hm e h hge
        · rcases h with ⟨_, hre, _⟩ | ⟨_, _, hgc, e0, he0, hg0⟩
          · have := h6.JB ch g (Or.inr hm)
            rw [← hge, hre] at this
            exact res_gen_gt _ this
          · exact h6.L4 ch g hm e0 (by rw [hch]; exact he0) (by rw [hg0, ← hgc, hge])
      · obtain ⟨hch, hgq, hpl, _⟩ := hleave ch g hm
        rcases hent ch e he with h | ⟨_, h⟩
        · exact h3.Hd tid t hget (by simp [hpl]) e (by rw [← hch]; exact h) (by rw [hge, hgq])
        · rcases h with ⟨hq, _⟩ | ⟨hq, _⟩ <;> (rw [hpl] at hq; cases hq)
    · -- L2
      intro ch g
      rw [hlog]
      rcases step_logged s tid t t' o effs hst with h | ⟨ev, hev, _⟩
      · rw [h, List.append_nil]; exact h6.L2 ch g
      · rw [hev, count_append_single]
        by_cases hq : ev = Ev.leave ch g
        · subst hq
          obtain ⟨hch, hgq, hpl, _⟩ := hleave ch g (by rw [hev]; simp)
          have hnot := h6.L1 tid t hget (by simp [hpl])
          rw [← hch, ← hgq] at hnot
          have : List.count (Ev.leave ch g) s.log = 0 := List.count_eq_zero.mpr hnot
          simp [this]
        · simp only [hq, if_false, Nat.add_zero]; exact h6.L2 ch g

structure NTInvAll (s : State) : Prop where
  full : NTInvFull s
  l6 : L6 s

theorem reachableNT_invAll (s : State) (h : ReachableNT s) : NTInvAll s := by
  refine reachableNT_invariant NTInvAll ⟨⟨⟨Ghost.init, L1.init, L2.init, L3.init⟩, L4.init, L5.init⟩, L6.init⟩ ?_ s h
  intro s s' l hr hi hl hn
  refine ⟨?_, next_L6 s s' l hi.full hi.l6 hl hn⟩
  have hb := hi.full.base
  exact ⟨⟨next_ghost s s' l hb.ghost hn, next_L1 s s' l hb.ghost hb.l1 hl hn,
      next_L2 s s' l hb.ghost hb.l1 hb.l2 hl hn, next_L3 s s' l hb.ghost hb.l1 hb.l2 hb.l3 hl hn⟩,
    next_L4 s s' l hb.ghost hi.full.l4 hl hn,
    next_L5 s s' l hb.ghost hb.l1 hb.l2 hi.full.l5 hl hn⟩

end CentrifugeVerif.SubProto
