import CentrifugeVerif.Proofs.SubProto
import CentrifugeVerif.Proofs.SubProtoEff
namespace CentrifugeVerif.SubProto

theorem next_step_some {s s' : State} {tid : Tid} {o : Outcome} (h : next s (.step tid o) = some s') :
    ∃ t effs t', aget s.threads tid = some t ∧ stepThread s tid t o = some (effs, t') ∧
      s' = applyEffs { s with threads := setThread s.threads tid t' } effs := by
  simp only [next] at h
  split at h
  · cases h
  · rename_i t ht
    split at h
    · cases h
    · rename_i effs t' hst
      simp only [Option.some.injEq] at h
      exact ⟨t, effs, t', ht, hst, h.symm⟩

theorem aget_mem {β : Type} (l : List (Nat × β)) (x : Nat) (v : β) (h : aget l x = some v) : (x, v) ∈ l := by
  induction l with
  | nil => simp [aget] at h
  | cons p r ih =>
    obtain ⟨k, w⟩ := p
    by_cases hk : k = x
    · subst hk; simp [aget] at h; subst h; simp
    · simp only [aget, hk, if_false] at h
      exact List.mem_cons_of_mem _ (ih h)

theorem mem_setThread (ts : List (Tid × Thread)) (tid : Tid) (t' : Thread) (p : Tid × Thread)
    (h : p ∈ setThread ts tid t') : (p ∈ ts ∧ p.1 ≠ tid) ∨ p = (tid, t') := by
  simp only [setThread, List.mem_map] at h
  obtain ⟨q, hq, hqp⟩ := h
  by_cases hk : q.1 = tid
  · simp only [hk, if_true] at hqp; exact Or.inr hqp.symm
  · simp only [hk, if_false] at hqp; subst hqp; exact Or.inl ⟨hq, hk⟩

theorem threads_applyEff (s : State) (e : Eff) (p : Tid × Thread) (h : p ∈ (applyEff s e).threads) :
    p ∈ s.threads ∨ p.2 = autoClose := by
  cases e <;> simp_all
  rcases h with h | h
  · exact Or.inl h
  · exact Or.inr (by rw [h])

theorem threads_applyEffs (es : List Eff) (s : State) (p : Tid × Thread) (h : p ∈ (applyEffs s es).threads) :
    p ∈ s.threads ∨ p.2 = autoClose := by
  induction es generalizing s with
  | nil => exact Or.inl h
  | cons e r ih =>
    rcases ih _ h with h1 | h1
    · exact threads_applyEff s e p h1
    · exact Or.inr h1

/-- who the threads of the successor state are -/
theorem threads_after_step (s : State) (tid : Tid) (t' : Thread) (effs : List Eff) (p : Tid × Thread)
    (h : p ∈ (applyEffs { s with threads := setThread s.threads tid t' } effs).threads) :
    (p ∈ s.threads ∧ p.1 ≠ tid) ∨ p = (tid, t') ∨ p.2 = autoClose := by
  rcases threads_applyEffs _ _ _ h with h1 | h1
  · rcases mem_setThread _ _ _ _ h1 with h2 | h2
    · exact Or.inl h2
    · exact Or.inr (Or.inl h2)
  · exact Or.inr (Or.inr h1)


/-- unfold `stepThread` on a hypothesis `hs : stepThread s tid t o = some (effs, t')` into one goal per
enabled branch, with `effs` and `t'` replaced by the concrete effect list and thread record -/
macro "step_cases" hs:ident : tactic =>
  `(tactic| (unfold stepThread at $hs:ident
             split at $hs:ident <;> (try (repeat' split at $hs:ident)) <;> (try cases $hs:ident)))

@[simp] theorem mem_gateEff (e : Eff) (g : Option Gen) : e ∈ gateEff g ↔ ∃ x, g = some x ∧ e = .closeGate x := by
  cases g <;> simp [gateEff]

/-! ### what a step can do: characterisation of the effect list of `stepThread` -/

/-- every `c.channels` write a step makes -/
theorem step_chanSet (s : State) (tid : Tid) (t t' : Thread) (o : Outcome) (effs : List Eff)
    (hs : stepThread s tid t o = some (effs, t')) (ch : Chan) (e : Entry) (hm : Eff.chanSet ch e ∈ effs) :
    ch = t.ch ∧
    ((t.pc = .sReserve ∧ e = Entry.reservation (s.genCounter + 1)) ∨
     (t.pc = .sReadGen ∧ ∃ e0, aget s.channels t.ch = some e0 ∧ e0.gen = 0 ∧ e = { e0 with gen := s.genCounter + 1 }) ∨
     (t.pc = .sCommit ∧ s.status ≠ .closed ∧ Eff.log (.commit t.ch t.cmdGen) ∈ effs ∧ e.gen = t.cmdGen ∧ e.subscribed = true) ∨
     (t.pc = .uWait ∧ ∃ e0, aget s.channels t.ch = some e0 ∧ e = { e0 with gate := none })) := by
  step_cases hs <;> simp_all

/-- every broker / callback / ghost event a step logs -/
theorem step_log (s : State) (tid : Tid) (t t' : Thread) (o : Outcome) (effs : List Eff)
    (hs : stepThread s tid t o = some (effs, t')) (ev : Ev) (hm : Eff.log ev ∈ effs) :
    (ev = .commit t.ch t.cmdGen ∧ t.pc = .sCommit) ∨
    (ev = .join t.ch t.cmdGen ∧ t.pc = .sJoin) ∨
    (∃ c, ev = .leave t.ch c.gen ∧ t.pc = .uLeave ∧ t.ctx = some c) ∨
    (ev = .onUnsub t.ch) ∨ ev = .onDisconnect ∨ ev = .replyOk tid ∨ ev = .replyErr tid := by
  step_cases hs <;> simp_all

/-- a step marks the connection closed only as `close()`'s first critical section -/
theorem step_markClosed (s : State) (tid : Tid) (t t' : Thread) (o : Outcome) (effs : List Eff)
    (hs : stepThread s tid t o = some (effs, t')) (x : Tid) (hm : Eff.markClosed x ∈ effs) :
    t.pc = .cEnter ∧ t'.pc = .cRemoveClient ∧ x = tid := by
  step_cases hs <;> simp_all

theorem step_unregister (s : State) (tid : Tid) (t t' : Thread) (o : Outcome) (effs : List Eff)
    (hs : stepThread s tid t o = some (effs, t')) (hm : Eff.unregister ∈ effs) : t.pc = .cRemoveClient := by
  step_cases hs <;> simp_all

/-! ### generic facts about effect lists -/

theorem channels_applyEffs (es : List Eff) (s : State) (ch : Chan) (e : Entry)
    (h : aget (applyEffs s es).channels ch = some e) : aget s.channels ch = some e ∨ Eff.chanSet ch e ∈ es := by
  induction es generalizing s with
  | nil => exact Or.inl h
  | cons x r ih =>
    rcases ih _ h with h1 | h1
    · cases x <;> simp_all [aget_aset, aget_adel]
      · rename_i ch' e'
        by_cases hc : ch' = ch <;> simp_all
    · exact Or.inr (List.mem_cons_of_mem _ h1)

theorem log_applyEffs (es : List Eff) (s : State) (ev : Ev) :
    ev ∈ (applyEffs s es).log ↔ ev ∈ s.log ∨ Eff.log ev ∈ es := by
  induction es generalizing s with
  | nil => simp
  | cons x r ih =>
    rw [applyEffs_cons, ih]
    cases x <;> simp_all [or_assoc]

theorem status_applyEffs (es : List Eff) (s : State) :
    (applyEffs s es).status = .closed ↔ s.status = .closed ∨ ∃ x, Eff.markClosed x ∈ es := by
  induction es generalizing s with
  | nil => simp
  | cons x r ih =>
    rw [applyEffs_cons, ih]
    cases x <;> simp_all

theorem registered_applyEffs (es : List Eff) (s : State) :
    (applyEffs s es).registered = true ↔ s.registered = true ∧ Eff.unregister ∉ es := by
  induction es generalizing s with
  | nil => simp
  | cons x r ih =>
    rw [applyEffs_cons, ih]
    cases x <;> simp_all

theorem step_cRemoveClient (s : State) (tid : Tid) (t t' : Thread) (o : Outcome) (effs : List Eff)
    (hs : stepThread s tid t o = some (effs, t')) (hp : t.pc = .cRemoveClient) : Eff.unregister ∈ effs := by
  step_cases hs <;> simp_all

theorem aget_setThread (ts : List (Tid × Thread)) (tid x : Tid) (t' : Thread) :
    aget (setThread ts tid t') x = if x = tid then (aget ts tid).map (fun _ => t') else aget ts x := by
  induction ts with
  | nil => simp [setThread, aget]
  | cons p r ih =>
    obtain ⟨k, w⟩ := p
    simp only [setThread, List.map_cons] at ih ⊢
    by_cases hk : k = tid
    · subst hk
      by_cases hx : x = k
      · subst hx; simp [aget]
      · have : ¬ k = x := fun e => hx e.symm
        simp only [if_true, aget, this, if_false, hx] at ih ⊢
        exact ih
    · by_cases hx : x = tid
      · subst hx
        simp only [hk, if_false, aget, if_true] at ih ⊢
        exact ih
      · by_cases hkx : k = x
        · subst hkx; simp [aget, hk, hx]
        · simp only [hk, if_false, aget, hkx, hx] at ih ⊢
          exact ih

theorem aget_append_some {β : Type} (l r : List (Nat × β)) (x : Nat) (v : β) (h : aget l x = some v) :
    aget (l ++ r) x = some v := by
  induction l with
  | nil => simp [aget] at h
  | cons p q ih =>
    obtain ⟨k, w⟩ := p
    by_cases hk : k = x
    · simp_all [aget]
    · simp_all [aget]

theorem aget_threads_applyEffs (es : List Eff) (s : State) (x : Tid) (v : Thread)
    (h : aget s.threads x = some v) : aget (applyEffs s es).threads x = some v := by
  induction es generalizing s with
  | nil => exact h
  | cons e r ih =>
    apply ih
    cases e <;> simp_all
    exact aget_append_some _ _ _ _ h

end CentrifugeVerif.SubProto
