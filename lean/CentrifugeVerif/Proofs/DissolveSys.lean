import CentrifugeVerif.Proofs.Dissolve
/-!
Invariant of the dissolver system (`Model/Dissolve.lean`, part 2: submitters, workers, closer) and
its preservation by every label.
-/
namespace CentrifugeVerif.Dissolve

/-- states reachable from a fresh dissolver with `nW` workers (`initialCapacity = c > 0`) by any
finite sequence of labels: any interleaving of submitters, workers and closers, any job outcomes, any
choice of the worker woken by `cond.Signal`. -/
inductive Reach (nW c : Nat) : Sys → Prop
  | init : Reach nW c (init nW c)
  | step {s s' : Sys} {l : Label} : Reach nW c s → next s l = some s' → Reach nW c s'

/-- "no job is executed after it succeeded", on the execution log (newest first): an execution of
`j` is acceptable only if no *older* entry is a successful execution of `j`. -/
def RunsOk : List (Job × Bool) → Prop
  | [] => True
  | (j, _) :: older => (j, true) ∉ older ∧ RunsOk older

/-- how many times job `j` is somewhere in the machine: queued, or owned by a worker -/
def cntJ (s : Sys) (j : Job) : Nat := (abs s.q).count j + (heldJobs s.ws).count j

def jc (o : Option Job) (j : Job) : Nat := if o = some j then 1 else 0

structure SInv (s : Sys) : Prop where
  noPanic : s.panicked = false
  noDeqAfterClose : s.deqAfterClose = false
  qOpen : s.q.closed = false → QInv s.q
  qClosed : s.q.closed = true → s.q.cnt = 0 ∧ abs s.q = []
  uniq : ∀ j, cntJ s j ≤ 1
  own : ∀ j, 0 < cntJ s j → j < s.nextId ∧ j ∈ s.accepted ∧ j ∉ s.succeeded
  noLoss : s.q.closed = false → ∀ j ∈ s.accepted, j ∈ s.succeeded ∨ 0 < cntJ s j
  accLt : ∀ j ∈ s.accepted, j < s.nextId
  succLt : ∀ j ∈ s.succeeded, j < s.nextId
  runsOk : RunsOk s.runs
  runsSucc : ∀ j, (j, true) ∈ s.runs → j ∈ s.succeeded
  exitedClosed : W.exited ∈ s.ws → s.q.closed = true
  wakeup : s.q.closed = false → abs s.q ≠ [] → s.ws ≠ [] → ∃ w ∈ s.ws, w ≠ W.parked ∧ w ≠ W.exited

/-! ### small facts -/

theorem abs_length {q : Queue} (hi : QInv q) : (abs q).length = q.cnt := by
  have h1 := absO_length q hi.cnt_le (Nat.le_of_lt hi.head_lt)
  rw [hi.somes] at h1
  simpa using h1

theorem heldJobs_cons (y : W) (ys : List W) (j : Job) :
    (heldJobs (y :: ys)).count j = jc (wjob y) j + (heldJobs ys).count j := by
  simp only [heldJobs, List.filterMap_cons, jc]
  cases h : wjob y with
  | none => simp
  | some k =>
    simp only [List.count_cons, Option.some.injEq]
    by_cases hk : k = j <;> simp [hk] <;> omega

theorem heldJobs_set {ws : List W} {w : Nat} {old : W} (h : ws[w]? = some old) (x : W) (j : Job) :
    (heldJobs (ws.set w x)).count j + jc (wjob old) j = (heldJobs ws).count j + jc (wjob x) j := by
  induction ws generalizing w with
  | nil => simp at h
  | cons y ys ih =>
    cases w with
    | zero =>
      simp only [List.getElem?_cons_zero, Option.some.injEq] at h
      subst h
      simp only [List.set_cons_zero, heldJobs_cons]; omega
    | succ w =>
      simp only [List.getElem?_cons_succ] at h
      simp only [List.set_cons_succ, heldJobs_cons]
      have := ih h; omega

theorem heldJobs_replicate_idle (n : Nat) (j : Job) : (heldJobs (List.replicate n W.idle)).count j = 0 := by
  induction n with
  | zero => simp [heldJobs]
  | succ n ih => simp only [List.replicate_succ, heldJobs_cons, ih, wjob, jc]; simp

theorem heldJobs_wakeAll (ws : List W) (j : Job) : (heldJobs (wakeAll ws)).count j = (heldJobs ws).count j := by
  induction ws with
  | nil => rfl
  | cons y ys ih =>
    simp only [wakeAll, List.map_cons] at ih ⊢
    simp only [heldJobs_cons, ih]
    by_cases hy : y = W.parked
    · simp [hy, wjob]
    · simp [hy]

theorem exited_wakeAll (ws : List W) : W.exited ∈ wakeAll ws → W.exited ∈ ws := by
  intro h
  simp only [wakeAll, List.mem_map] at h
  obtain ⟨x, hx, hxe⟩ := h
  by_cases hp : x = W.parked
  · simp [hp] at hxe
  · simp only [hp, if_false] at hxe; subst hxe; exact hx

theorem mem_set_self {ws : List W} {w : Nat} {old : W} (h : ws[w]? = some old) (x : W) : x ∈ ws.set w x := by
  have : w < ws.length := by
    rcases Nat.lt_or_ge w ws.length with h' | h'
    · exact h'
    · simp [List.getElem?_eq_none h'] at h
  exact List.mem_set this x

theorem set_ne_nil {ws : List W} {w : Nat} {old : W} (h : ws[w]? = some old) (x : W) : ws.set w x ≠ [] := by
  intro hn
  have := mem_set_self h x
  rw [hn] at this; cases this

/-- `cond.Signal()` -/
theorem wake_spec {ws ws' : List W} {pick : Nat} (h : wake ws pick = some ws') :
    (∀ j, (heldJobs ws').count j = (heldJobs ws).count j) ∧ (W.exited ∈ ws' → W.exited ∈ ws) ∧
    (ws ≠ [] → W.exited ∉ ws → ∃ w ∈ ws', w ≠ W.parked ∧ w ≠ W.exited) ∧ ws'.length = ws.length := by
  simp only [wake] at h
  split at h
  · rename_i hp
    cases h
    refine ⟨fun j => ?_, ?_, ?_, ?_⟩
    · have := heldJobs_set hp W.removing j
      simpa [wjob, jc] using this
    · intro he
      rcases List.mem_or_eq_of_mem_set he with he | he
      · exact he
      · cases he
    · intro _ _
      exact ⟨W.removing, mem_set_self hp _, by simp, by simp⟩
    · simp
  · split at h
    · rename_i hall
      cases h
      refine ⟨fun _ => rfl, id, ?_, rfl⟩
      intro hne hex
      cases ws with
      | nil => exact absurd rfl hne
      | cons y ys =>
        refine ⟨y, by simp, ?_, ?_⟩
        · have := List.all_eq_true.mp hall y (by simp)
          simpa using this
        · intro hy; exact hex (by simp [hy])
    · cases h

/-! ### preservation, label by label -/

theorem inv_init (nW c : Nat) (hc : 0 < c) : SInv (init nW c) := by
  refine ⟨rfl, rfl, fun _ => inv_newQueue c hc, ?_, ?_, ?_, ?_, ?_, ?_, trivial, ?_, ?_, ?_⟩
  · intro h; simp [init, newQueue] at h
  · intro j; simp [cntJ, init, abs_newQueue, heldJobs_replicate_idle]
  · intro j h; simp [cntJ, init, abs_newQueue, heldJobs_replicate_idle] at h
  · intro _ j h; simp [init] at h
  · intro j h; simp [init] at h
  · intro j h; simp [init] at h
  · intro j h; simp [init] at h
  · intro h
    simp only [init, List.mem_replicate] at h
    exact absurd h.2 (by simp)
  · intro _ h; simp [init, abs_newQueue] at h

/-- adding `j` (fresh or re-added) to an open queue -/
theorem add_open {q : Queue} (hi : QInv q) (j : Job) :
    ∃ q', add q j = some (q', true) ∧ QInv q' ∧ abs q' = abs q ++ [j] ∧ q'.closed = false := by
  obtain ⟨q', h1, h2, h3, _⟩ := add_spec q j hi
  refine ⟨q', h1, h2, ?_, h2.opened⟩
  simp only [abs, h3, List.filterMap_append]
  simp

theorem count_append_single (l : List Job) (a j : Job) : (l ++ [a]).count j = l.count j + jc (some a) j := by
  simp only [List.count_append, List.count_singleton, jc, Option.some.injEq]
  by_cases h : a = j <;> simp [h]

theorem ne_nil_of_length_eq {ws ws' : List W} (h : ws'.length = ws.length) (hne : ws' ≠ []) : ws ≠ [] := by
  intro hn; subst hn
  exact hne (List.length_eq_zero_iff.mp (by simpa using h))

/-- effect of an accepted `Add` of job `a` on the bookkeeping, shared by `submit` and `readd` -/
theorem cnt_after_add {s : Sys} {q' : Queue} {ws' : List W} {a : Job} (habs : abs q' = abs s.q ++ [a])
    (hws : ∀ j, (heldJobs ws').count j = (heldJobs s.ws).count j + 0) (j : Job) :
    (abs q').count j + (heldJobs ws').count j = cntJ s j + jc (some a) j := by
  simp only [cntJ, habs, count_append_single, hws]; omega

theorem inv_submit {s s' : Sys} {pick : Nat} (hi : SInv s) (h : next s (.submit pick) = some s') : SInv s' := by
  obtain ⟨hp, hd, hqo, hqc, hu, ho, hnl, hacc, hsl, hr, hrs, hex, hw⟩ := hi
  simp only [next] at h
  cases hcl : s.q.closed with
  | true =>
    rw [add_closed s.q s.nextId hcl] at h
    simp only at h
    cases h
    refine ⟨hp, hd, hqo, hqc, hu, ?_, hnl, ?_, ?_, hr, hrs, hex, hw⟩
    · intro j hj
      have := ho j hj
      exact ⟨Nat.lt_succ_of_lt this.1, this.2⟩
    · intro j hj; exact Nat.lt_succ_of_lt (hacc j hj)
    · intro j hj; exact Nat.lt_succ_of_lt (hsl j hj)
  | false =>
    obtain ⟨q', ha, hq', habs, hopen⟩ := add_open (hqo hcl) s.nextId
    rw [ha] at h
    simp only at h
    split at h
    · cases h
    · rename_i ws' hwk
      cases h
      obtain ⟨w1, w2, w3, w4⟩ := wake_spec hwk
      have hfresh : cntJ s s.nextId = 0 := by
        rcases Nat.eq_zero_or_pos (cntJ s s.nextId) with h0 | h0
        · exact h0
        · exact absurd (ho _ h0).1 (Nat.lt_irrefl _)
      have hc : ∀ j, (abs q').count j + (heldJobs ws').count j = cntJ s j + jc (some s.nextId) j :=
        fun j => cnt_after_add habs (fun j => by simp [w1]) j
      refine ⟨hp, hd, fun _ => hq', ?_, ?_, ?_, ?_, ?_, ?_, hr, hrs, ?_, ?_⟩
      · intro hc'; rw [hopen] at hc'; cases hc'
      · intro j
        simp only [cntJ]
        rw [hc]
        by_cases hj : s.nextId = j
        · subst hj; simp [jc, hfresh]
        · have := hu j; simpa [jc, hj] using this
      · intro j hj
        simp only [cntJ] at hj
        rw [hc] at hj
        by_cases hjn : s.nextId = j
        · subst hjn
          refine ⟨Nat.lt_succ_self _, by simp, ?_⟩
          intro hs
          exact absurd (hsl _ hs) (Nat.lt_irrefl _)
        · have h0 : 0 < cntJ s j := by simpa [jc, hjn] using hj
          have := ho j h0
          exact ⟨Nat.lt_succ_of_lt this.1, by simp [this.2.1], this.2.2⟩
      · intro _ j hj
        simp only [cntJ]
        simp only [List.mem_cons] at hj
        rw [hc]
        rcases hj with rfl | hj
        · right; simp [jc]
        · rcases hnl hcl j hj with h' | h'
          · exact Or.inl h'
          · right; omega
      · intro j hj
        simp only [List.mem_cons] at hj
        rcases hj with rfl | hj
        · exact Nat.lt_succ_self _
        · exact Nat.lt_succ_of_lt (hacc j hj)
      · intro j hj; exact Nat.lt_succ_of_lt (hsl j hj)
      · intro he; have := hex (w2 he); rw [hcl] at this; cases this
      · intro _ _ hne
        exact w3 (ne_nil_of_length_eq w4 hne) (fun he => by have := hex he; rw [hcl] at this; cases this)

/-- a worker step that changes neither the queue nor any job ownership -/
theorem inv_ws_only {s : Sys} {ws' : List W} (hi : SInv s)
    (hjobs : ∀ j, (heldJobs ws').count j = (heldJobs s.ws).count j)
    (hex : W.exited ∈ ws' → s.q.closed = true)
    (hwk : s.q.closed = false → abs s.q ≠ [] → ws' ≠ [] → ∃ w ∈ ws', w ≠ W.parked ∧ w ≠ W.exited) :
    SInv { s with ws := ws' } := by
  obtain ⟨hp, hd, hqo, hqc, hu, ho, hnl, hacc, hsl, hr, hrs, _, _⟩ := hi
  have hc : ∀ j, cntJ { s with ws := ws' } j = cntJ s j := fun j => by simp [cntJ, hjobs]
  exact ⟨hp, hd, hqo, hqc, fun j => by rw [hc]; exact hu j, fun j hj => ho j (by rwa [hc] at hj),
    fun h j hj => by rw [hc]; exact hnl h j hj, hacc, hsl, hr, hrs, hex, hwk⟩

theorem inv_wait {s s' : Sys} {w : Nat} (hi : SInv s) (h : next s (.wait w) = some s') : SInv s' := by
  simp only [next] at h
  split at h
  · rename_i hidle
    have hj : ∀ (x : W), wjob x = none → ∀ j, (heldJobs (s.ws.set w x)).count j = (heldJobs s.ws).count j := by
      intro x hx j
      have := heldJobs_set hidle x j
      rw [hx] at this
      simpa [wjob, jc] using this
    have hexm : ∀ (x : W), x ≠ W.exited → W.exited ∈ s.ws.set w x → s.q.closed = true := by
      intro x hx he
      rcases List.mem_or_eq_of_mem_set he with he | he
      · exact hi.exitedClosed he
      · exact absurd he.symm hx
    split at h
    · cases h
      exact inv_ws_only hi (hj _ rfl) (hexm _ (by simp)) (fun hc => by rename_i hcl; rw [hcl] at hc; cases hc)
    · split at h
      · cases h
        exact inv_ws_only hi (hj _ rfl) (hexm _ (by simp))
          (fun _ _ _ => ⟨W.removing, mem_set_self hidle _, by simp, by simp⟩)
      · rename_i hopen hcnt
        cases h
        refine inv_ws_only hi (hj _ rfl) (hexm _ (by simp)) ?_
        intro hc hne _
        have hq := hi.qOpen hc
        have := abs_length hq
        have h0 : s.q.cnt = 0 := by simpa using hcnt
        rw [h0] at this
        exact absurd (List.length_eq_zero_iff.mp this) hne
  · cases h

theorem inv_check {s s' : Sys} {w : Nat} (hi : SInv s) (h : next s (.check w) = some s') : SInv s' := by
  simp only [next] at h
  split at h
  · rename_i hchk
    cases h
    have hj : ∀ (x : W), wjob x = none → ∀ j, (heldJobs (s.ws.set w x)).count j = (heldJobs s.ws).count j := by
      intro x hx j
      have := heldJobs_set hchk x j
      rw [hx] at this
      simpa [wjob, jc] using this
    cases hcl : s.q.closed with
    | true =>
      simp only [if_true]
      exact inv_ws_only hi (hj _ rfl) (fun _ => hcl) (fun hc => by rw [hcl] at hc; cases hc)
    | false =>
      simp only [Bool.false_eq_true, if_false]
      refine inv_ws_only hi (hj _ rfl) ?_ (fun _ _ _ => ⟨W.idle, mem_set_self hchk _, by simp, by simp⟩)
      intro he
      rcases List.mem_or_eq_of_mem_set he with he | he
      · exact hi.exitedClosed he
      · cases he
  · cases h

theorem inv_start {s s' : Sys} {w : Nat} (hi : SInv s) (h : next s (.start w) = some s') : SInv s' := by
  simp only [next] at h
  split at h
  · rename_i j hhold
    cases h
    refine inv_ws_only hi ?_ ?_ (fun _ _ _ => ⟨W.running j, mem_set_self hhold _, by simp, by simp⟩)
    · intro k
      have := heldJobs_set hhold (W.running j) k
      simpa [wjob, jc] using this
    · intro he
      rcases List.mem_or_eq_of_mem_set he with he | he
      · exact hi.exitedClosed he
      · cases he
  · cases h

theorem inv_remove {s s' : Sys} {w : Nat} (hi : SInv s) (h : next s (.remove w) = some s') : SInv s' := by
  simp only [next] at h
  split at h
  · rename_i hrem
    have hjn : ∀ (x : W), wjob x = none → ∀ j, (heldJobs (s.ws.set w x)).count j = (heldJobs s.ws).count j := by
      intro x hx j
      have := heldJobs_set hrem x j
      rw [hx] at this
      simpa [wjob, jc] using this
    have hexm : ∀ (x : W), x ≠ W.exited → W.exited ∈ s.ws.set w x → s.q.closed = true := by
      intro x hx he
      rcases List.mem_or_eq_of_mem_set he with he | he
      · exact hi.exitedClosed he
      · exact absurd he.symm hx
    -- what `Remove` returns
    have hq : (abs s.q = [] ∧ remove s.q = some (s.q, none)) ∨
        (∃ j rest q', abs s.q = j :: rest ∧ remove s.q = some (q', some j) ∧ QInv q' ∧ abs q' = rest ∧
          s.q.closed = false) := by
      cases hcl : s.q.closed with
      | true =>
        obtain ⟨h0, ha⟩ := hi.qClosed hcl
        exact Or.inl ⟨ha, remove_empty _ h0⟩
      | false =>
        have hqi := hi.qOpen hcl
        cases habs : abs s.q with
        | nil =>
          have := abs_length hqi
          rw [habs] at this
          exact Or.inl ⟨rfl, remove_empty _ (by simpa using this.symm)⟩
        | cons j rest =>
          obtain ⟨q', h1, h2, h3, _⟩ := remove_spec s.q hqi j rest habs
          exact Or.inr ⟨j, rest, q', rfl, h1, h2, h3, rfl⟩
    rcases hq with ⟨hempty, hrm⟩ | ⟨j, rest, q', habs, hrm, hq', habs', hopen⟩
    · rw [hrm] at h
      simp only at h
      cases h
      exact inv_ws_only hi (hjn _ rfl) (hexm _ (by simp))
        (fun _ _ _ => ⟨W.check, mem_set_self hrem _, by simp, by simp⟩)
    · rw [hrm] at h
      simp only at h
      cases h
      obtain ⟨hp, hd, hqo, hqc, hu, ho, hnl, hacc, hsl, hr, hrs, hex, hw⟩ := hi
      have hcq : q'.closed = false := hq'.opened
      have hc : ∀ k, (abs q').count k + (heldJobs (s.ws.set w (W.holding j))).count k = cntJ s k := by
        intro k
        have h1 := heldJobs_set hrem (W.holding j) k
        simp only [wjob, jc] at h1
        simp only [cntJ, habs, habs', List.count_cons]
        by_cases hjk : j = k
        · subst hjk; simp at h1 ⊢; omega
        · simp [hjk] at h1 ⊢; omega
      refine ⟨hp, ?_, fun _ => hq', ?_, ?_, ?_, ?_, hacc, hsl, hr, hrs, ?_, ?_⟩
      · simp [hd, hopen]
      · intro hc'; rw [hcq] at hc'; cases hc'
      · intro k; simp only [cntJ]; rw [hc]; exact hu k
      · intro k hk; simp only [cntJ] at hk; rw [hc] at hk; exact ho k hk
      · intro _ k hk; simp only [cntJ]; rw [hc]; exact hnl hopen k hk
      · intro he
        rcases List.mem_or_eq_of_mem_set he with he | he
        · have := hex he; rw [hopen] at this; cases this
        · cases he
      · intro _ _ _
        exact ⟨W.holding j, mem_set_self hrem _, by simp, by simp⟩
  · cases h

theorem runsOk_cons {runs : List (Job × Bool)} {j : Job} {b : Bool} (h : RunsOk runs) (hj : (j, true) ∉ runs) :
    RunsOk ((j, b) :: runs) := ⟨hj, h⟩

theorem inv_finish {s s' : Sys} {w : Nat} {ok : Bool} (hi : SInv s) (h : next s (.finish w ok) = some s') :
    SInv s' := by
  simp only [next] at h
  split at h
  · rename_i j hrun
    obtain ⟨hp, hd, hqo, hqc, hu, ho, hnl, hacc, hsl, hr, hrs, hex, hw⟩ := hi
    have hheld : 0 < cntJ s j := by
      have h1 := heldJobs_set hrun W.idle j
      simp only [wjob, jc] at h1
      simp only [cntJ]; simp at h1; omega
    obtain ⟨hjlt, hjacc, hjns⟩ := ho j hheld
    have hnotrun : (j, true) ∉ s.runs := fun hm => hjns (hrs j hm)
    have hexm : ∀ (x : W), x ≠ W.exited → W.exited ∈ s.ws.set w x → s.q.closed = true := by
      intro x hx he
      rcases List.mem_or_eq_of_mem_set he with he | he
      · exact hex he
      · exact absurd he.symm hx
    cases ok with
    | true =>
      simp only [if_true] at h
      cases h
      have hc : ∀ k, (abs s.q).count k + (heldJobs (s.ws.set w W.idle)).count k + jc (some j) k = cntJ s k := by
        intro k
        have h1 := heldJobs_set hrun W.idle k
        simp only [wjob, jc] at h1 ⊢
        simp only [cntJ]
        by_cases hjk : j = k
        · subst hjk; simp at h1 ⊢; omega
        · simp [hjk] at h1 ⊢; omega
      refine ⟨hp, hd, hqo, hqc, ?_, ?_, ?_, hacc, ?_, runsOk_cons hr hnotrun, ?_, hexm _ (by simp), ?_⟩
      · intro k; simp only [cntJ]; have := hc k; have := hu k; omega
      · intro k hk
        simp only [cntJ] at hk
        have hck := hc k
        have hk' : 0 < cntJ s k := by omega
        obtain ⟨a, b, c⟩ := ho k hk'
        refine ⟨a, b, ?_⟩
        intro hm
        simp only [List.mem_cons] at hm
        rcases hm with rfl | hm
        · have := hu k; simp [jc] at hck; omega
        · exact c hm
      · intro hcl k hk
        simp only [cntJ]
        by_cases hjk : k = j
        · left; simp [hjk]
        · rcases hnl hcl k hk with h' | h'
          · left; simp [h']
          · right
            have hck := hc k
            have : jc (some j) k = 0 := by simp [jc]; exact fun h => hjk h.symm
            omega
      · intro k hk
        simp only [List.mem_cons] at hk
        rcases hk with rfl | hk
        · exact hjlt
        · exact hsl k hk
      · intro k hk
        simp only [List.mem_cons, Prod.mk.injEq] at hk
        rcases hk with ⟨rfl, _⟩ | hk
        · simp
        · simp [hrs k hk]
      · intro _ _ _
        exact ⟨W.idle, mem_set_self hrun _, by simp, by simp⟩
    | false =>
      simp only [Bool.false_eq_true, if_false] at h
      cases h
      have hc : ∀ k, (heldJobs (s.ws.set w (W.retrying j))).count k = (heldJobs s.ws).count k := by
        intro k
        have h1 := heldJobs_set hrun (W.retrying j) k
        simpa [wjob, jc] using h1
      have hcc : ∀ k, (abs s.q).count k + (heldJobs (s.ws.set w (W.retrying j))).count k = cntJ s k :=
        fun k => by simp [cntJ, hc]
      refine ⟨hp, hd, hqo, hqc, ?_, ?_, ?_, hacc, hsl, runsOk_cons hr hnotrun, ?_, hexm _ (by simp), ?_⟩
      · intro k; simp only [cntJ]; rw [hcc]; exact hu k
      · intro k hk; simp only [cntJ] at hk; rw [hcc] at hk; exact ho k hk
      · intro hcl k hk; simp only [cntJ]; rw [hcc]; exact hnl hcl k hk
      · intro k hk
        simp only [List.mem_cons, Prod.mk.injEq] at hk
        rcases hk with ⟨_, hb⟩ | hk
        · cases hb
        · exact hrs k hk
      · intro _ _ _
        exact ⟨W.retrying j, mem_set_self hrun _, by simp, by simp⟩
  · cases h

theorem inv_readd {s s' : Sys} {w pick : Nat} (hi : SInv s) (h : next s (.readd w pick) = some s') : SInv s' := by
  simp only [next] at h
  split at h
  · rename_i j hret
    obtain ⟨hp, hd, hqo, hqc, hu, ho, hnl, hacc, hsl, hr, hrs, hex, hw⟩ := hi
    have hset : ∀ k, (heldJobs (s.ws.set w W.idle)).count k + jc (some j) k = (heldJobs s.ws).count k := by
      intro k
      have h1 := heldJobs_set hret W.idle k
      simpa [wjob, jc] using h1
    cases hcl : s.q.closed with
    | true =>
      rw [add_closed s.q j hcl] at h
      simp only at h
      cases h
      have hle : ∀ k, (abs s.q).count k + (heldJobs (s.ws.set w W.idle)).count k ≤ cntJ s k := by
        intro k; have := hset k; simp only [cntJ]; omega
      refine ⟨hp, hd, hqo, hqc, ?_, ?_, ?_, hacc, hsl, hr, hrs, fun _ => hcl, ?_⟩
      · intro k; simp only [cntJ]; have := hle k; have := hu k; omega
      · intro k hk; simp only [cntJ] at hk; have := hle k; exact ho k (by omega)
      · intro hc; rw [hcl] at hc; cases hc
      · intro hc; rw [hcl] at hc; cases hc
    | false =>
      obtain ⟨q', ha, hq', habs, hopen⟩ := add_open (hqo hcl) j
      rw [ha] at h
      simp only at h
      split at h
      · cases h
      · rename_i ws' hwk
        cases h
        obtain ⟨w1, w2, w3, w4⟩ := wake_spec hwk
        have hc : ∀ k, (abs q').count k + (heldJobs ws').count k = cntJ s k := by
          intro k
          have := hset k
          simp only [cntJ, habs, count_append_single, w1]; omega
        refine ⟨hp, hd, fun _ => hq', ?_, ?_, ?_, ?_, hacc, hsl, hr, hrs, ?_, ?_⟩
        · intro hc'; rw [hopen] at hc'; cases hc'
        · intro k; simp only [cntJ]; rw [hc]; exact hu k
        · intro k hk; simp only [cntJ] at hk; rw [hc] at hk; exact ho k hk
        · intro _ k hk; simp only [cntJ]; rw [hc]; exact hnl hcl k hk
        · intro he
          have := w2 he
          rcases List.mem_or_eq_of_mem_set this with he' | he'
          · have := hex he'; rw [hcl] at this; cases this
          · cases he'
        · intro _ _ hne
          refine w3 (set_ne_nil hret _) ?_
          intro he
          rcases List.mem_or_eq_of_mem_set he with he' | he'
          · have := hex he'; rw [hcl] at this; cases this
          · cases he'
  · cases h

theorem inv_close {s s' : Sys} (hi : SInv s) (h : next s .close = some s') : SInv s' := by
  simp only [next] at h
  cases h
  obtain ⟨hp, hd, hqo, hqc, hu, ho, hnl, hacc, hsl, hr, hrs, hex, hw⟩ := hi
  obtain ⟨c1, c2, c3⟩ := close_spec s.q
  have hle : ∀ k, (abs (close s.q)).count k + (heldJobs (wakeAll s.ws)).count k ≤ cntJ s k := by
    intro k; simp [cntJ, c3, heldJobs_wakeAll]
  refine ⟨hp, hd, ?_, fun _ => ⟨c2, c3⟩, ?_, ?_, ?_, hacc, hsl, hr, hrs, fun _ => c1, ?_⟩
  · intro hc; rw [c1] at hc; cases hc
  · intro k; simp only [cntJ]; have := hle k; have := hu k; omega
  · intro k hk; simp only [cntJ] at hk; have := hle k; exact ho k (by omega)
  · intro hc; rw [c1] at hc; cases hc
  · intro hc; rw [c1] at hc; cases hc

theorem inv_step {s s' : Sys} {l : Label} (hi : SInv s) (h : next s l = some s') : SInv s' := by
  cases l with
  | submit pick => exact inv_submit hi h
  | wait w => exact inv_wait hi h
  | remove w => exact inv_remove hi h
  | check w => exact inv_check hi h
  | start w => exact inv_start hi h
  | finish w ok => exact inv_finish hi h
  | readd w pick => exact inv_readd hi h
  | close => exact inv_close hi h

theorem reach_inv {nW c : Nat} (hc : 0 < c) {s : Sys} (h : Reach nW c s) : SInv s := by
  induction h with
  | init => exact inv_init nW c hc
  | step _ hn ih => exact inv_step ih hn

theorem reach_run {nW c : Nat} {s s' : Sys} (ls : List Label) (h : Reach nW c s) (hr : run s ls = some s') :
    Reach nW c s' := by
  induction ls generalizing s with
  | nil => simp [run] at hr; subst hr; exact h
  | cons l ls ih =>
    simp only [run] at hr
    split at hr
    · cases hr
    · rename_i s1 hs1
      exact ih (Reach.step h hs1) hr

/-! ### FIFO specification of the queue, and helpers for the property theorems -/

inductive QOp where
  | add (j : Job)
  | rem
deriving Repr, DecidableEq

/-- FIFO specification: state = list of queued jobs, output = what `Remove` returned -/
def specStep (l : List Job) : QOp → List Job × Option Job
  | .add j => (l ++ [j], none)
  | .rem => match l with
    | [] => ([], none)
    | x :: xs => (xs, some x)

def implStep (q : Queue) : QOp → Option (Queue × Option Job)
  | .add j => match add q j with
    | some (q', true) => some (q', none)
    | _ => none       -- panic, or refused (cannot happen on an open queue)
  | .rem => remove q

def specRun (l : List Job) : List QOp → List Job × List (Option Job)
  | [] => (l, [])
  | op :: ops =>
    let (l', o) := specStep l op
    let (l'', os) := specRun l' ops
    (l'', o :: os)

def implRun (q : Queue) : List QOp → Option (Queue × List (Option Job))
  | [] => some (q, [])
  | op :: ops =>
    match implStep q op with
    | none => none
    | some (q', o) =>
      match implRun q' ops with
      | none => none
      | some (q'', os) => some (q'', o :: os)

theorem count_le_one_of_mem {l : List Job} {j : Job} (h : l.count j ≤ 1) (hm : j ∈ l) : l.count j = 1 := by
  have := List.count_pos_iff.mpr hm; omega

theorem exists_parked (l : List W) (h : ¬ l.all (fun x => x != W.parked) = true) :
    ∃ p : Nat, l[p]? = some W.parked := by
  induction l with
  | nil => simp at h
  | cons y ys ih =>
    by_cases hy : y = W.parked
    · exact ⟨0, by simp [hy]⟩
    · have : ¬ ys.all (fun x => x != W.parked) = true := by
        intro ha; apply h; simp [List.all_cons, hy, ha]
      obtain ⟨p, hp⟩ := ih this
      exact ⟨p + 1, by simpa using hp⟩

theorem resize_closed {q q' : Queue} {n : Nat} (h : resize q n = some q') :
    q'.closed = q.closed ∧ q'.initCap = q.initCap := by
  simp only [resize] at h
  split at h
  · cases h
  · split at h
    · cases h
    · cases h; exact ⟨rfl, rfl⟩

theorem add_closed_flag {q q' : Queue} {j : Job} {b : Bool} (h : add q j = some (q', b)) : q'.closed = q.closed := by
  simp only [add] at h
  split at h
  · cases h; rfl
  · split at h
    · cases h
    · rename_i q1 hq1
      split at h
      · cases h
        split at hq1
        · exact (resize_closed hq1).1
        · cases hq1; rfl
      · cases h

theorem remove_closed_flag {q q' : Queue} {o : Option Job} (h : remove q = some (q', o)) : q'.closed = q.closed := by
  simp only [remove] at h
  split at h
  · cases h; rfl
  · split at h
    · cases h
    · cases h
    · split at h
      · cases h
      · split at h
        · split at h
          · cases h
          · rename_i q2 hq2
            cases h
            exact (resize_closed hq2).1
        · cases h; rfl

/-- `closed` is monotone -/
theorem next_closed_mono {s s' : Sys} {l : Label} (h : next s l = some s') (hc : s.q.closed = true) :
    s'.q.closed = true := by
  cases l with
  | submit pick =>
    simp only [next] at h
    split at h
    · cases h; exact hc
    · cases h; exact hc
    · rename_i q' hadd
      split at h
      · cases h
      · cases h; simp only; rw [add_closed_flag hadd]; exact hc
  | wait w =>
    simp only [next, hc, if_true] at h
    split at h
    · cases h; exact hc
    · cases h
  | remove w =>
    simp only [next] at h
    split at h
    · split at h
      · cases h; exact hc
      · rename_i q' hrm; cases h; simp only; rw [remove_closed_flag hrm]; exact hc
      · rename_i q' j hrm; cases h; simp only; rw [remove_closed_flag hrm]; exact hc
    · cases h
  | check w =>
    simp only [next] at h
    split at h
    · cases h; exact hc
    · cases h
  | start w =>
    simp only [next] at h
    split at h
    · cases h; exact hc
    · cases h
  | finish w ok =>
    simp only [next] at h
    split at h
    · split at h <;> (cases h; exact hc)
    · cases h
  | readd w pick =>
    simp only [next] at h
    split at h
    · split at h
      · cases h; exact hc
      · cases h; exact hc
      · rename_i q' hadd
        split at h
        · cases h
        · cases h; simp only; rw [add_closed_flag hadd]; exact hc
    · cases h
  | close => simp only [next] at h; cases h; simp [close]

theorem run_open {s s' : Sys} (ls : List Label) (h : run s ls = some s') (ho : s'.q.closed = false) :
    s.q.closed = false := by
  induction ls generalizing s with
  | nil => simp [run] at h; subst h; exact ho
  | cons l ls ih =>
    simp only [run] at h
    split at h
    · cases h
    · rename_i s1 hs1
      have h1 := ih h
      cases hc : s.q.closed with
      | false => rfl
      | true => rw [next_closed_mono hs1 hc] at h1; cases h1

/-- what one step does to the queue contents and the dequeue counter, while the queue stays open -/
theorem fifo_step {s s' : Sys} {l : Label} (hi : SInv s) (h : next s l = some s') (ho : s'.q.closed = false) :
    (s'.deqs = s.deqs ∧ ∃ added, abs s'.q = abs s.q ++ added) ∨
    (s'.deqs = s.deqs + 1 ∧ ∃ j, abs s.q = j :: abs s'.q) := by
  have hso : s.q.closed = false := by
    cases hc : s.q.closed with
    | false => rfl
    | true => rw [next_closed_mono h hc] at ho; cases ho
  have hq := hi.qOpen hso
  cases l with
  | submit pick =>
    simp only [next] at h
    obtain ⟨q', ha, _, habs, _⟩ := add_open hq s.nextId
    rw [ha] at h
    simp only at h
    split at h
    · cases h
    · cases h; exact Or.inl ⟨rfl, [s.nextId], habs⟩
  | wait w =>
    simp only [next] at h
    split at h
    · split at h
      · cases h; exact Or.inl ⟨rfl, [], by simp⟩
      · split at h <;> (cases h; exact Or.inl ⟨rfl, [], by simp⟩)
    · cases h
  | remove w =>
    simp only [next] at h
    split at h
    · cases habs : abs s.q with
      | nil =>
        have h0 : s.q.cnt = 0 := by have := abs_length hq; rw [habs] at this; simpa using this.symm
        rw [remove_empty _ h0] at h
        simp only at h
        cases h
        exact Or.inl ⟨rfl, [], by simp [habs]⟩
      | cons j rest =>
        obtain ⟨q', h1, _, h3, _⟩ := remove_spec s.q hq j rest habs
        rw [h1] at h
        simp only at h
        cases h
        exact Or.inr ⟨rfl, j, by simp [h3]⟩
    · cases h
  | check w =>
    simp only [next] at h
    split at h
    · cases h; exact Or.inl ⟨rfl, [], by simp⟩
    · cases h
  | start w =>
    simp only [next] at h
    split at h
    · cases h; exact Or.inl ⟨rfl, [], by simp⟩
    · cases h
  | finish w ok =>
    simp only [next] at h
    split at h
    · split at h <;> (cases h; exact Or.inl ⟨rfl, [], by simp⟩)
    · cases h
  | readd w pick =>
    simp only [next] at h
    split at h
    · rename_i j _
      obtain ⟨q', ha, _, habs, _⟩ := add_open hq j
      rw [ha] at h
      simp only at h
      split at h
      · cases h
      · cases h; exact Or.inl ⟨rfl, [j], habs⟩
    · cases h
  | close => simp only [next] at h; cases h; simp [close] at ho

theorem run_deqs_le {s s' : Sys} (ls : List Label) (hi : SInv s) (h : run s ls = some s')
    (ho : s'.q.closed = false) : s.deqs ≤ s'.deqs := by
  induction ls generalizing s with
  | nil => simp [run] at h; subst h; exact Nat.le_refl _
  | cons l ls ih =>
    simp only [run] at h
    split at h
    · cases h
    · rename_i s1 hs1
      have h1 := ih (inv_step hi hs1) h
      have ho1 := run_open ls h ho
      rcases fifo_step hi hs1 ho1 with ⟨hd, _⟩ | ⟨hd, _⟩ <;> omega

/-- a non-trivial run used as witness in the property file -/
def exampleRun : List Label :=
  [.wait 0, .wait 1, .submit 0, .remove 0, .start 0, .submit 1, .remove 1, .start 1, .submit 0, .submit 0,
   .submit 0, .finish 0 false, .readd 0 0, .finish 1 true, .wait 1, .remove 1, .start 1, .wait 0, .remove 0,
   .start 0, .finish 1 true, .finish 0 true, .wait 0, .remove 0, .start 0, .close, .submit 0, .finish 0 true,
   .wait 0, .check 0, .wait 1, .check 1]

end CentrifugeVerif.Dissolve
