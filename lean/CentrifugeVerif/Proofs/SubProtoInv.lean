import CentrifugeVerif.Proofs.SubProtoStep
/-!
Inductive invariants of the subscription-protocol LTS that hold in **every** reachable state (all
labels, including failures and the wait-gate timeout):

* `Ghost`  — generations are non-zero; a subscribed `c.channels` entry, a thread past its commit and
  an unsubscribe working on a subscribed context all have the ghost `commit` event of their
  generation in the log; every `join` / `leave` in the log is preceded by the `commit` of its
  generation (`LogOk`).
* `RegOk`  — the connections gauge is 1 exactly while the connection is registered; once the status
  is closed the connection is unregistered or the closing thread stands right before `removeClient`.
-/
namespace CentrifugeVerif.SubProto

/-! ### program-counter classes -/

/-- `cmdGen` has been set by `sReadGen` -/
def postReadGen : Pc → Bool
  | .sCheck1 | .sHubAdd | .sCheck2 | .sPresAdd | .sReply | .sCommit | .sRbHub | .sRbPres | .sRbClose
  | .sCloseGate | .sDpf | .sPush | .sJoin => true
  | _ => false

/-- the attempt's `commitSubscription` installed its context -/
def postCommit : Pc → Bool
  | .sCloseGate | .sDpf | .sPush | .sJoin => true
  | _ => false

@[simp] theorem postReadGen_sReserve : postReadGen .sReserve = false := rfl
@[simp] theorem postCommit_sReserve : postCommit .sReserve = false := rfl
@[simp] theorem postReadGen_sOnSub : postReadGen .sOnSub = false := rfl
@[simp] theorem postCommit_sOnSub : postCommit .sOnSub = false := rfl
@[simp] theorem postReadGen_sReadGen : postReadGen .sReadGen = false := rfl
@[simp] theorem postCommit_sReadGen : postCommit .sReadGen = false := rfl
@[simp] theorem postReadGen_sCheck1 : postReadGen .sCheck1 = true := rfl
@[simp] theorem postCommit_sCheck1 : postCommit .sCheck1 = false := rfl
@[simp] theorem postReadGen_sHubAdd : postReadGen .sHubAdd = true := rfl
@[simp] theorem postCommit_sHubAdd : postCommit .sHubAdd = false := rfl
@[simp] theorem postReadGen_sCheck2 : postReadGen .sCheck2 = true := rfl
@[simp] theorem postCommit_sCheck2 : postCommit .sCheck2 = false := rfl
@[simp] theorem postReadGen_sPresAdd : postReadGen .sPresAdd = true := rfl
@[simp] theorem postCommit_sPresAdd : postCommit .sPresAdd = false := rfl
@[simp] theorem postReadGen_sReply : postReadGen .sReply = true := rfl
@[simp] theorem postCommit_sReply : postCommit .sReply = false := rfl
@[simp] theorem postReadGen_sCommit : postReadGen .sCommit = true := rfl
@[simp] theorem postCommit_sCommit : postCommit .sCommit = false := rfl
@[simp] theorem postReadGen_sRbHub : postReadGen .sRbHub = true := rfl
@[simp] theorem postCommit_sRbHub : postCommit .sRbHub = false := rfl
@[simp] theorem postReadGen_sRbPres : postReadGen .sRbPres = true := rfl
@[simp] theorem postCommit_sRbPres : postCommit .sRbPres = false := rfl
@[simp] theorem postReadGen_sRbClose : postReadGen .sRbClose = true := rfl
@[simp] theorem postCommit_sRbClose : postCommit .sRbClose = false := rfl
@[simp] theorem postReadGen_sCloseGate : postReadGen .sCloseGate = true := rfl
@[simp] theorem postCommit_sCloseGate : postCommit .sCloseGate = true := rfl
@[simp] theorem postReadGen_sDpf : postReadGen .sDpf = true := rfl
@[simp] theorem postCommit_sDpf : postCommit .sDpf = true := rfl
@[simp] theorem postReadGen_sPush : postReadGen .sPush = true := rfl
@[simp] theorem postCommit_sPush : postCommit .sPush = true := rfl
@[simp] theorem postReadGen_sJoin : postReadGen .sJoin = true := rfl
@[simp] theorem postCommit_sJoin : postCommit .sJoin = true := rfl
@[simp] theorem postReadGen_sDeferPres : postReadGen .sDeferPres = false := rfl
@[simp] theorem postCommit_sDeferPres : postCommit .sDeferPres = false := rfl
@[simp] theorem postReadGen_sErrDel : postReadGen .sErrDel = false := rfl
@[simp] theorem postCommit_sErrDel : postCommit .sErrDel = false := rfl
@[simp] theorem postReadGen_sErrHub : postReadGen .sErrHub = false := rfl
@[simp] theorem postCommit_sErrHub : postCommit .sErrHub = false := rfl
@[simp] theorem postReadGen_sErrClose : postReadGen .sErrClose = false := rfl
@[simp] theorem postCommit_sErrClose : postCommit .sErrClose = false := rfl
@[simp] theorem postReadGen_sErrOut : postReadGen .sErrOut = false := rfl
@[simp] theorem postCommit_sErrOut : postCommit .sErrOut = false := rfl
@[simp] theorem postReadGen_uStatus : postReadGen .uStatus = false := rfl
@[simp] theorem postCommit_uStatus : postCommit .uStatus = false := rfl
@[simp] theorem postReadGen_uSnap : postReadGen .uSnap = false := rfl
@[simp] theorem postCommit_uSnap : postCommit .uSnap = false := rfl
@[simp] theorem postReadGen_uWait : postReadGen .uWait = false := rfl
@[simp] theorem postCommit_uWait : postCommit .uWait = false := rfl
@[simp] theorem postReadGen_uTmoLog : postReadGen .uTmoLog = false := rfl
@[simp] theorem postCommit_uTmoLog : postCommit .uTmoLog = false := rfl
@[simp] theorem postReadGen_uRemove : postReadGen .uRemove = false := rfl
@[simp] theorem postCommit_uRemove : postCommit .uRemove = false := rfl
@[simp] theorem postReadGen_uPresRm : postReadGen .uPresRm = false := rfl
@[simp] theorem postCommit_uPresRm : postCommit .uPresRm = false := rfl
@[simp] theorem postReadGen_uLeave : postReadGen .uLeave = false := rfl
@[simp] theorem postCommit_uLeave : postCommit .uLeave = false := rfl
@[simp] theorem postReadGen_uHubRm : postReadGen .uHubRm = false := rfl
@[simp] theorem postCommit_uHubRm : postCommit .uHubRm = false := rfl
@[simp] theorem postReadGen_uOnUnsub : postReadGen .uOnUnsub = false := rfl
@[simp] theorem postCommit_uOnUnsub : postCommit .uOnUnsub = false := rfl
@[simp] theorem postReadGen_uOut : postReadGen .uOut = false := rfl
@[simp] theorem postCommit_uOut : postCommit .uOut = false := rfl
@[simp] theorem postReadGen_cEnter : postReadGen .cEnter = false := rfl
@[simp] theorem postCommit_cEnter : postCommit .cEnter = false := rfl
@[simp] theorem postReadGen_cRemoveClient : postReadGen .cRemoveClient = false := rfl
@[simp] theorem postCommit_cRemoveClient : postCommit .cRemoveClient = false := rfl
@[simp] theorem postReadGen_cDpf : postReadGen .cDpf = false := rfl
@[simp] theorem postCommit_cDpf : postCommit .cDpf = false := rfl
@[simp] theorem postReadGen_cWriter : postReadGen .cWriter = false := rfl
@[simp] theorem postCommit_cWriter : postCommit .cWriter = false := rfl
@[simp] theorem postReadGen_cTClose : postReadGen .cTClose = false := rfl
@[simp] theorem postCommit_cTClose : postCommit .cTClose = false := rfl
@[simp] theorem postReadGen_cLoop : postReadGen .cLoop = false := rfl
@[simp] theorem postCommit_cLoop : postCommit .cLoop = false := rfl
@[simp] theorem postReadGen_cOnDisc : postReadGen .cOnDisc = false := rfl
@[simp] theorem postCommit_cOnDisc : postCommit .cOnDisc = false := rfl
@[simp] theorem postReadGen_cExit : postReadGen .cExit = false := rfl
@[simp] theorem postCommit_cExit : postCommit .cExit = false := rfl
@[simp] theorem postReadGen_done : postReadGen .done = false := rfl
@[simp] theorem postCommit_done : postCommit .done = false := rfl
@[simp] theorem postReadGen_unsubRetPc (k : Kind) : postReadGen (unsubRetPc k) = false := by cases k <;> rfl
@[simp] theorem postCommit_unsubRetPc (k : Kind) : postCommit (unsubRetPc k) = false := by cases k <;> rfl
@[simp] theorem postReadGen_afterRemove (c : Entry) : postReadGen (afterRemove c) = false := by
  unfold afterRemove; split <;> (try split) <;> rfl
@[simp] theorem postCommit_afterRemove (c : Entry) : postCommit (afterRemove c) = false := by
  unfold afterRemove; split <;> (try split) <;> rfl
@[simp] theorem postReadGen_afterCmdFail (t : Thread) : postReadGen (afterCmdFail t) = false := by
  unfold afterCmdFail; split <;> rfl
@[simp] theorem postCommit_afterCmdFail (t : Thread) : postCommit (afterCmdFail t) = false := by
  unfold afterCmdFail; split <;> rfl
@[simp] theorem postCommit_afterChecks (t : Thread) : postCommit (afterChecks t) = false := by
  unfold afterChecks; split <;> (try split) <;> rfl
@[simp] theorem postCommit_afterPres (t : Thread) : postCommit (afterPres t) = false := by
  unfold afterPres; split <;> rfl
@[simp] theorem postReadGen_afterChecks (t : Thread) : postReadGen (afterChecks t) = true := by
  unfold afterChecks; split <;> (try split) <;> rfl
@[simp] theorem postReadGen_afterPres (t : Thread) : postReadGen (afterPres t) = true := by
  unfold afterPres; split <;> rfl
@[simp] theorem afterCmdFail_ne_uLeave (t : Thread) : (afterCmdFail t = .uLeave) = False := by
  unfold afterCmdFail; split <;> simp
@[simp] theorem afterChecks_ne_uLeave (t : Thread) : (afterChecks t = .uLeave) = False := by
  unfold afterChecks; split <;> (try split) <;> simp
@[simp] theorem afterPres_ne_uLeave (t : Thread) : (afterPres t = .uLeave) = False := by
  unfold afterPres; split <;> simp
@[simp] theorem unsubRetPc_ne_uLeave (k : Kind) : (unsubRetPc k = .uLeave) = False := by
  cases k <;> simp [unsubRetPc]

/-! ### thread-local part of `Ghost` -/

/-- `M ev` = "event `ev` is in the log" (kept abstract so that the step lemma is monotone in the log) -/
def ThrOk (M : Ev → Prop) (t : Thread) : Prop :=
  (postReadGen t.pc = true → t.cmdGen ≠ 0) ∧
  (postCommit t.pc = true → M (.commit t.ch t.cmdGen)) ∧
  (∀ c, t.ctx = some c → c.subscribed = true → M (.commit t.ch c.gen)) ∧
  (t.pc = .uLeave → ∀ c, t.ctx = some c → c.subscribed = true)

theorem afterRemove_uLeave (c : Entry) (h : afterRemove c = .uLeave) : c.subscribed = true := by
  unfold afterRemove at h
  split at h
  · cases h
  · split at h
    · simp_all
    · cases h

theorem ThrOk.mono {M M' : Ev → Prop} {t : Thread} (h : ThrOk M t) (hm : ∀ ev, M ev → M' ev) : ThrOk M' t :=
  ⟨h.1, fun hp => hm _ (h.2.1 hp), fun c hc hs => hm _ (h.2.2.1 c hc hs), h.2.2.2⟩

theorem ThrOk.autoClose (M : Ev → Prop) : ThrOk M autoClose := by
  refine ⟨?_, ?_, ?_, ?_⟩ <;> simp [SubProto.autoClose]

/-- the stepping thread's new record satisfies `ThrOk` for the extended log -/
theorem step_thrOk (s : State) (tid : Tid) (t t' : Thread) (o : Outcome) (effs : List Eff) (M M' : Ev → Prop)
    (hs : stepThread s tid t o = some (effs, t'))
    (hent : ∀ e, aget s.channels t.ch = some e → e.gen ≠ 0)
    (hec : ∀ e, aget s.channels t.ch = some e → e.subscribed = true → M (.commit t.ch e.gen))
    (ht : ThrOk M t) (hmono : ∀ ev, M ev → M' ev) (hnew : ∀ ev, Eff.log ev ∈ effs → M' ev) : ThrOk M' t' := by
  obtain ⟨h1, h2, h3, h4⟩ := ht
  step_cases hs <;>
    simp_all [ThrOk, notCommitted, unsubReturn, afterHubRm] <;>
    (try (intro c hc hsub; exact hmono _ (h3 c hc hsub))) <;>
    (try (exact afterRemove_uLeave _)) <;>
    (try (split <;> simp_all))

/-! ### `LogOk`: joins and leaves come after the commit of their generation -/

def LogOk (l : List Ev) : Prop :=
  ∀ pre ev suf, l = pre ++ ev :: suf → ∀ ch g, (ev = .join ch g ∨ ev = .leave ch g) → Ev.commit ch g ∈ pre

theorem LogOk.nil : LogOk [] := by
  intro pre ev suf h; simp at h

theorem LogOk.append {l add : List Ev} (h : LogOk l)
    (hadd : ∀ ev ∈ add, ∀ ch g, (ev = .join ch g ∨ ev = .leave ch g) → Ev.commit ch g ∈ l) : LogOk (l ++ add) := by
  intro pre ev suf heq ch g hev
  rcases List.append_eq_append_iff.mp heq with ⟨a', h1, h2⟩ | ⟨c', h1, h2⟩
  · -- pre = l ++ a', add = a' ++ ev :: suf
    have : ev ∈ add := by rw [h2]; simp
    have := hadd ev this ch g hev
    rw [h1]; exact List.mem_append_left _ this
  · -- l = pre ++ c', ev :: suf = c' ++ add
    cases c' with
    | nil =>
      simp only [List.nil_append] at h2
      have : ev ∈ add := by rw [← h2]; simp
      have := hadd ev this ch g hev
      simp only [List.append_nil] at h1
      rw [← h1]; exact this
    | cons x r =>
      simp only [List.cons_append, List.cons.injEq] at h2
      obtain ⟨rfl, _⟩ := h2
      exact h pre ev r h1 ch g hev

/-- the events an effect list appends to the log, in order -/
def logged : List Eff → List Ev
  | [] => []
  | .log ev :: r => ev :: logged r
  | _ :: r => logged r

theorem mem_logged (es : List Eff) (ev : Ev) : ev ∈ logged es ↔ Eff.log ev ∈ es := by
  induction es with
  | nil => simp [logged]
  | cons x r ih => cases x <;> simp_all [logged]

theorem log_applyEffs_eq (es : List Eff) (s : State) : (applyEffs s es).log = s.log ++ logged es := by
  induction es generalizing s with
  | nil => simp [logged]
  | cons x r ih =>
    rw [applyEffs_cons, ih]
    cases x <;> simp [logged]

/-! ### the invariant -/

structure Ghost (s : State) : Prop where
  entGen : ∀ ch e, aget s.channels ch = some e → e.gen ≠ 0
  entCommit : ∀ ch e, aget s.channels ch = some e → e.subscribed = true → Ev.commit ch e.gen ∈ s.log
  thr : ∀ p ∈ s.threads, ThrOk (· ∈ s.log) p.2
  logOk : LogOk s.log

theorem Ghost.init : Ghost State.init := by
  refine ⟨?_, ?_, ?_, LogOk.nil⟩ <;> simp [State.init, aget]

theorem next_ghost (s s' : State) (l : Label) (h : Ghost s) (hn : next s l = some s') : Ghost s' := by
  cases l with
  | spawn k ch o =>
    simp only [next, Option.some.injEq] at hn
    subst hn
    refine ⟨h.entGen, h.entCommit, ?_, h.logOk⟩
    intro p hp
    simp only [List.mem_append, List.mem_singleton] at hp
    rcases hp with hp | hp
    · exact h.thr p hp
    · subst hp
      refine ⟨?_, ?_, ?_, ?_⟩ <;> cases k <;> simp [initPc]
  | step tid o =>
    obtain ⟨t, effs, t', hget, hst, rfl⟩ := next_step_some hn
    have htm : (tid, t) ∈ s.threads := aget_mem _ _ _ hget
    have htok := h.thr _ htm
    have hlogmono : ∀ ev, ev ∈ s.log → ev ∈ (applyEffs { s with threads := setThread s.threads tid t' } effs).log := by
      intro ev hev; exact (log_applyEffs _ _ _).mpr (Or.inl hev)
    have hlognew : ∀ ev, Eff.log ev ∈ effs → ev ∈ (applyEffs { s with threads := setThread s.threads tid t' } effs).log := by
      intro ev hev; exact (log_applyEffs _ _ _).mpr (Or.inr hev)
    have hcmd : t.pc = .sCommit → t.cmdGen ≠ 0 := fun hp => htok.1 (by simp [hp])
    refine ⟨?_, ?_, ?_, ?_⟩
    · -- generations of entries
      intro ch e he
      rcases channels_applyEffs _ _ _ _ he with h1 | h1
      · exact h.entGen ch e h1
      · obtain ⟨rfl, hc⟩ := step_chanSet s tid t t' o effs hst ch e h1
        rcases hc with ⟨_, rfl⟩ | ⟨_, e0, he0, hz, _⟩ | ⟨hp, _, _, hg, _⟩ | ⟨_, e0, he0, rfl⟩
        · simp [Entry.reservation]
        · exact absurd hz (h.entGen _ _ he0)
        · rw [hg]; exact hcmd hp
        · exact h.entGen _ e0 he0
    · -- subscribed entries carry their commit event
      intro ch e he hsub
      rcases channels_applyEffs _ _ _ _ he with h1 | h1
      · exact hlogmono _ (h.entCommit ch e h1 hsub)
      · obtain ⟨rfl, hc⟩ := step_chanSet s tid t t' o effs hst ch e h1
        rcases hc with ⟨_, rfl⟩ | ⟨_, e0, he0, hz, _⟩ | ⟨_, _, hl, hg, _⟩ | ⟨_, e0, he0, rfl⟩
        · simp [Entry.reservation] at hsub
        · exact absurd hz (h.entGen _ _ he0)
        · rw [hg]; exact hlognew _ hl
        · exact hlogmono _ (h.entCommit _ e0 he0 hsub)
    · -- threads
      intro p hp
      rcases threads_after_step s tid t' effs p hp with ⟨hp1, _⟩ | rfl | hp1
      · exact (h.thr p hp1).mono hlogmono
      · exact step_thrOk s tid t t' o effs (· ∈ s.log) _ hst (fun e he => h.entGen _ e he)
          (fun e he hs => h.entCommit _ e he hs) htok hlogmono hlognew
      · rw [hp1]; exact ThrOk.autoClose _
    · -- log order
      rw [log_applyEffs_eq]
      apply h.logOk.append
      intro ev hev ch g hjl
      have hev' := (mem_logged _ _).mp hev
      rcases step_log s tid t t' o effs hst ev hev' with ⟨rfl, _⟩ | ⟨rfl, hp⟩ | ⟨c, rfl, hp, hc⟩ | rfl | rfl | rfl | rfl
      · rcases hjl with hjl | hjl <;> cases hjl
      · rcases hjl with hjl | hjl
        · cases hjl; exact htok.2.1 (by simp [hp])
        · cases hjl
      · rcases hjl with hjl | hjl
        · cases hjl
        · cases hjl
          -- a leave is only published for a subscribed context (uLeave is reached with ctx.subscribed)
          exact htok.2.2.1 c hc (htok.2.2.2 hp c hc)
      all_goals (rcases hjl with hjl | hjl <;> cases hjl)

/-! ### registration and the connections gauge -/

structure RegOk (s : State) : Prop where
  gauge : s.connGauge = if s.registered then 1 else 0
  closedReg : s.status = .closed →
    s.registered = false ∨ ∃ tid t, aget s.threads tid = some t ∧ t.pc = .cRemoveClient

theorem applyEff_regGauge (s : State) (e : Eff) (h : s.connGauge = if s.registered then 1 else 0) :
    (applyEff s e).connGauge = if (applyEff s e).registered then 1 else 0 := by
  cases e <;> simp_all [applyEff_unregister_connGauge]

theorem applyEffs_regGauge (es : List Eff) (s : State) (h : s.connGauge = if s.registered then 1 else 0) :
    (applyEffs s es).connGauge = if (applyEffs s es).registered then 1 else 0 := by
  induction es generalizing s with
  | nil => exact h
  | cons e r ih => exact ih _ (applyEff_regGauge s e h)

theorem RegOk.init : RegOk State.init := by
  constructor <;> simp [State.init]

theorem next_regOk (s s' : State) (l : Label) (h : RegOk s) (hn : next s l = some s') : RegOk s' := by
  cases l with
  | spawn k ch o =>
    simp only [next, Option.some.injEq] at hn
    subst hn
    refine ⟨h.gauge, ?_⟩
    intro hc
    rcases h.closedReg hc with h1 | ⟨tid, t, h1, h2⟩
    · exact Or.inl h1
    · exact Or.inr ⟨tid, t, aget_append_some _ _ _ _ h1, h2⟩
  | step tid o =>
    obtain ⟨t, effs, t', hget, hst, rfl⟩ := next_step_some hn
    refine ⟨applyEffs_regGauge _ _ h.gauge, ?_⟩
    intro hc
    have hself : aget (applyEffs { s with threads := setThread s.threads tid t' } effs).threads tid = some t' := by
      apply aget_threads_applyEffs
      simp [aget_setThread, hget]
    rcases (status_applyEffs _ _).mp hc with hc1 | ⟨x, hx⟩
    · rcases h.closedReg hc1 with h1 | ⟨w, tw, h1, h2⟩
      · left
        cases hr : (applyEffs { s with threads := setThread s.threads tid t' } effs).registered with
        | false => rfl
        | true => have := ((registered_applyEffs _ _).mp hr).1; simp_all
      · by_cases hw : w = tid
        · subst hw
          rw [hget] at h1; cases h1
          left
          have hu := step_cRemoveClient s w t t' o effs hst h2
          cases hr : (applyEffs { s with threads := setThread s.threads w t' } effs).registered with
          | false => rfl
          | true => exact absurd hu ((registered_applyEffs _ _).mp hr).2
        · right
          refine ⟨w, tw, ?_, h2⟩
          apply aget_threads_applyEffs
          simp [aget_setThread, hw, h1]
    · obtain ⟨_, hp', _⟩ := step_markClosed s tid t t' o effs hst x hx
      exact Or.inr ⟨tid, t', hself, hp'⟩

/-! ### after close no new subscription appears -/

theorem next_closed_reports (s s' : State) (l : Label) (hc : s.status = .closed) (hn : next s l = some s')
    (ch : Chan) (e : Entry) (he : aget s'.channels ch = some e) (hsub : e.subscribed = true) :
    ∃ e0, aget s.channels ch = some e0 ∧ e0.subscribed = true := by
  cases l with
  | spawn k c o =>
    simp only [next, Option.some.injEq] at hn
    subst hn; exact ⟨e, he, hsub⟩
  | step tid o =>
    obtain ⟨t, effs, t', hget, hst, rfl⟩ := next_step_some hn
    rcases channels_applyEffs _ _ _ _ he with h1 | h1
    · exact ⟨e, h1, hsub⟩
    · obtain ⟨rfl, hcs⟩ := step_chanSet s tid t t' o effs hst ch e h1
      rcases hcs with ⟨_, rfl⟩ | ⟨_, e0, he0, _, rfl⟩ | ⟨_, hnc, _⟩ | ⟨_, e0, he0, rfl⟩
      · simp [Entry.reservation] at hsub
      · exact ⟨e0, he0, hsub⟩
      · exact absurd hc hnc
      · exact ⟨e0, he0, hsub⟩

/-! ### small facts used by the property files -/

theorem applyEff_closed (s : State) (e : Eff) (h : s.status = .closed) : (applyEff s e).status = .closed := by
  cases e <;> simp_all

theorem applyEffs_closed (es : List Eff) (s : State) (h : s.status = .closed) : (applyEffs s es).status = .closed := by
  induction es generalizing s with
  | nil => exact h
  | cons e r ih => exact ih _ (applyEff_closed s e h)

theorem applyEffs_log_prefix (es : List Eff) (s : State) : s.log <+: (applyEffs s es).log := by
  rw [log_applyEffs_eq]; exact List.prefix_append _ _

theorem reachable_ghost (s : State) (h : Reachable s) : Ghost s :=
  reachable_invariant Ghost Ghost.init next_ghost s h

theorem reachable_regOk (s : State) (h : Reachable s) : RegOk s :=
  reachable_invariant RegOk RegOk.init next_regOk s h

end CentrifugeVerif.SubProto
