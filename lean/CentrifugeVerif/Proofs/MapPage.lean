import CentrifugeVerif.Model.MapPage
/-!
Proofs about `Model/MapPage.lean`:

* the comparators `bytesLt` / `elemLt asc` are strict total orders;
* `isort` is a permutation of its input and, on duplicate-free input, strictly sorted;
* `search` (Go's `sort.Search`) returns the first index of a monotone predicate;
* `afterCursor` on a strictly sorted list is the number of elements not strictly after the cursor;
* a page with a cursor is non-empty, its cursor is its last item and strictly advances;
* the concatenation of all pages of `paginateAll` (any `limit ≠ 0`) is exactly the sorted key list,
  and the loop finishes within `size + 1` requests: every key is delivered exactly once.
-/
namespace CentrifugeVerif.MapPage

/-- strict total order presented as a Bool comparator -/
structure StrictTotal {α : Type} (lt : α → α → Bool) : Prop where
  irrefl : ∀ a, lt a a = false
  trans : ∀ a b c, lt a b = true → lt b c = true → lt a c = true
  total : ∀ a b, lt a b = true ∨ a = b ∨ lt b a = true

/-! ### The comparators -/

theorem bytesLt_irrefl : ∀ a, bytesLt a a = false
  | [] => rfl
  | a :: as => by simp [bytesLt, bytesLt_irrefl as]

theorem bytesLt_trans : ∀ a b c, bytesLt a b = true → bytesLt b c = true → bytesLt a c = true
  | [], [], _, h, _ => by simp [bytesLt] at h
  | [], _ :: _, [], _, h => by simp [bytesLt] at h
  | [], _ :: _, _ :: _, _, _ => by simp [bytesLt]
  | _ :: _, [], _, h, _ => by simp [bytesLt] at h
  | _ :: _, _ :: _, [], _, h => by simp [bytesLt] at h
  | a :: as, b :: bs, c :: cs, h1, h2 => by
    have ih := bytesLt_trans as bs cs
    simp only [bytesLt] at h1 h2 ⊢
    split at h1
    · split at h2
      · have : a < c := by omega
        simp [this]
      · split at h2
        · simp at h2
        · have : a < c := by omega
          simp [this]
    · split at h1
      · simp at h1
      · split at h2
        · have : a < c := by omega
          simp [this]
        · split at h2
          · simp at h2
          · have h3 : ¬ a < c := by omega
            have h4 : ¬ c < a := by omega
            simp [h3, h4, ih h1 h2]

theorem bytesLt_total : ∀ a b, bytesLt a b = true ∨ a = b ∨ bytesLt b a = true
  | [], [] => by simp
  | [], _ :: _ => by simp [bytesLt]
  | _ :: _, [] => by simp [bytesLt]
  | a :: as, b :: bs => by
    simp only [bytesLt]
    by_cases h1 : a < b
    · simp [h1]
    · by_cases h2 : b < a
      · simp [h1, h2]
      · have : a = b := by omega
        subst this
        simp only [h1, if_false, List.cons.injEq, true_and]
        exact bytesLt_total as bs

/-- 1. Go's bytewise string `<` is a strict total order. -/
theorem bytesLt_strictTotal : StrictTotal bytesLt :=
  ⟨bytesLt_irrefl, bytesLt_trans, bytesLt_total⟩

theorem elemLtAsc_strictTotal : StrictTotal elemLtAsc where
  irrefl a := by simp [elemLtAsc, bytesLt_irrefl]
  trans a b c h1 h2 := by
    simp only [elemLtAsc] at h1 h2 ⊢
    split at h1
    · split at h2
      · have : a.1 < c.1 := by omega
        simp [this]
      · split at h2
        · simp at h2
        · have : a.1 < c.1 := by omega
          simp [this]
    · split at h1
      · simp at h1
      · split at h2
        · have : a.1 < c.1 := by omega
          simp [this]
        · split at h2
          · simp at h2
          · have h3 : ¬ a.1 < c.1 := by omega
            have h4 : ¬ c.1 < a.1 := by omega
            simp [h3, h4, bytesLt_trans _ _ _ h1 h2]
  total a b := by
    obtain ⟨a1, a2⟩ := a
    obtain ⟨b1, b2⟩ := b
    simp only [elemLtAsc]
    by_cases h1 : a1 < b1
    · simp [h1]
    · by_cases h2 : b1 < a1
      · simp [h1, h2]
      · have : a1 = b1 := by omega
        subst this
        simp only [h1, if_false, Prod.mk.injEq, true_and]
        exact bytesLt_total a2 b2

/-- the converse of a strict total order is one -/
theorem StrictTotal.flip {α : Type} {lt : α → α → Bool} (h : StrictTotal lt) :
    StrictTotal (fun a b => lt b a) where
  irrefl a := h.irrefl a
  trans a b c h1 h2 := h.trans c b a h2 h1
  total a b := by
    rcases h.total a b with h1 | h1 | h1
    · exact Or.inr (Or.inr h1)
    · exact Or.inr (Or.inl h1)
    · exact Or.inl h1

/-- 2. the `less` of `getState` (either direction) is a strict total order. -/
theorem elemLt_strictTotal (asc : Bool) : StrictTotal (elemLt asc) := by
  cases asc
  · exact elemLtAsc_strictTotal.flip
  · exact elemLtAsc_strictTotal

theorem StrictTotal.asymm {α : Type} {lt : α → α → Bool} (h : StrictTotal lt) {a b : α}
    (hab : lt a b = true) : lt b a = false := by
  cases hba : lt b a
  · rfl
  · have := h.trans a b a hab hba
    rw [h.irrefl] at this
    cases this

section Generic
variable {α : Type} {lt : α → α → Bool}

/-! ### Insertion sort -/

theorem ins_perm (lt : α → α → Bool) (a : α) : ∀ l : List α, (ins lt a l).Perm (a :: l)
  | [] => List.Perm.refl _
  | b :: l => by
    simp only [ins]
    split
    · exact List.Perm.refl _
    · exact ((ins_perm lt a l).cons b).trans (List.Perm.swap a b l)

/-- 3. the sorted list is a permutation of the keys. -/
theorem isort_perm (lt : α → α → Bool) : ∀ l : List α, (isort lt l).Perm l
  | [] => List.Perm.refl _
  | a :: l => (ins_perm lt a (isort lt l)).trans ((isort_perm lt l).cons a)

theorem isort_length (lt : α → α → Bool) (l : List α) : (isort lt l).length = l.length :=
  (isort_perm lt l).length_eq

theorem ins_sorted_le (h : StrictTotal lt) (a : α) :
    ∀ l : List α, l.Pairwise (fun x y => lt y x = false) →
      (ins lt a l).Pairwise (fun x y => lt y x = false)
  | [], _ => by simp [ins]
  | b :: l, hp => by
    obtain ⟨hb, hl⟩ := List.pairwise_cons.mp hp
    simp only [ins]
    split
    next hab =>
      refine List.pairwise_cons.mpr ⟨?_, hp⟩
      intro x hx
      cases hxa : lt x a
      · rfl
      · have hxb := h.trans x a b hxa hab
        rcases List.mem_cons.mp hx with rfl | hx
        · rw [h.irrefl] at hxb; cases hxb
        · rw [hb x hx] at hxb; cases hxb
    next hab =>
      refine List.pairwise_cons.mpr ⟨?_, ins_sorted_le h a l hl⟩
      intro x hx
      rcases List.mem_cons.mp ((ins_perm lt a l).mem_iff.mp hx) with rfl | hx
      · simpa using hab
      · exact hb x hx

/-- weak sortedness of `isort` (no duplicate-freeness needed). -/
theorem isort_sorted_le (h : StrictTotal lt) :
    ∀ l : List α, (isort lt l).Pairwise (fun x y => lt y x = false)
  | [] => List.Pairwise.nil
  | a :: l => ins_sorted_le h a _ (isort_sorted_le h l)

/-- 4. on duplicate-free keys the sorted list is strictly increasing. -/
theorem isort_sorted (h : StrictTotal lt) (l : List α) (hnd : l.Nodup) :
    (isort lt l).Pairwise (fun a b => lt a b = true) := by
  have hnd' : (isort lt l).Nodup := (isort_perm lt l).nodup_iff.mpr hnd
  have := (isort_sorted_le h l).and hnd'
  refine this.imp ?_
  intro a b ⟨h1, h2⟩
  rcases h.total a b with h3 | h3 | h3
  · exact h3
  · exact absurd h3 h2
  · rw [h1] at h3; cases h3

example : isort (elemLt true) [((5:Int),[1]),(5,[1,0]),(-3,[2]),(7,[])]
    = [(-3,[2]),(5,[1]),(5,[1,0]),(7,[])] := by decide

/-! ### Binary search -/

/-- the first-true index of a predicate on `[0, n)` (or `n`) -/
def IsFirst (n : Nat) (f : Nat → Bool) (r : Nat) : Prop :=
  r ≤ n ∧ (∀ k, k < r → f k = false) ∧ (r < n → f r = true)

theorem IsFirst.unique {n : Nat} {f : Nat → Bool} {r r' : Nat}
    (h1 : IsFirst n f r) (h2 : IsFirst n f r') : r = r' := by
  obtain ⟨a1, b1, c1⟩ := h1
  obtain ⟨a2, b2, c2⟩ := h2
  rcases Nat.lt_trichotomy r r' with hlt | heq | hgt
  · have := c1 (by omega)
    rw [b2 r hlt] at this; cases this
  · exact heq
  · have := c2 (by omega)
    rw [b1 r' hgt] at this; cases this

theorem bsearch_spec (n : Nat) (f : Nat → Bool)
    (hmono : ∀ i j, i ≤ j → j < n → f i = true → f j = true) :
    ∀ fuel i j, i ≤ j → j ≤ n → j - i ≤ fuel → (∀ k, k < i → f k = false) →
      (j < n → f j = true) → IsFirst n f (bsearch f fuel i j)
  | 0, i, j, hij, hjn, hfuel, hlo, hhi => by
    have : i = j := by omega
    subst this
    exact ⟨hjn, hlo, hhi⟩
  | fuel + 1, i, j, hij, hjn, hfuel, hlo, hhi => by
    simp only [bsearch]
    split
    next hlt =>
      have hh1 : i ≤ (i + j) / 2 := by omega
      have hh2 : (i + j) / 2 < j := by omega
      cases hf : f ((i + j) / 2)
      · simp only [Bool.not_false, if_true]
        refine bsearch_spec n f hmono fuel _ j (by omega) hjn (by omega) ?_ hhi
        intro k hk
        cases hfk : f k
        · rfl
        · have := hmono k ((i + j) / 2) (by omega) (by omega) hfk
          rw [hf] at this; cases this
      · simp only [Bool.not_true, Bool.false_eq_true, if_false]
        exact bsearch_spec n f hmono fuel i _ hh1 (by omega) (by omega) hlo (fun _ => hf)
    next hge =>
      have : i = j := by omega
      subst this
      exact ⟨hjn, hlo, hhi⟩

/-- 5. `sort.Search` returns the first index satisfying a monotone predicate (or `n`);
in particular fuel `n` suffices. -/
theorem search_spec (n : Nat) (f : Nat → Bool)
    (hmono : ∀ i j, i ≤ j → j < n → f i = true → f j = true) :
    search n f ≤ n ∧ (∀ k, k < search n f → f k = false) ∧
      (search n f < n → f (search n f) = true) :=
  bsearch_spec n f hmono n 0 n (Nat.zero_le _) (Nat.le_refl _) (by omega)
    (fun _ hk => absurd hk (Nat.not_lt_zero _)) (fun hn => absurd hn (Nat.lt_irrefl _))

example : search 7 (fun i => decide (4 ≤ i)) = 4 := by decide
example : search 7 (fun _ => false) = 7 := by decide
/-- the hypothesis of `search_spec` holds for the first sample predicate. -/
example : ∀ i j, i ≤ j → j < 7 → (fun i => decide (4 ≤ i)) i = true →
    (fun i => decide (4 ≤ i)) j = true := by
  intro i j hij _ hi
  simp only [decide_eq_true_eq] at hi ⊢
  omega

/-! ### Cursor position -/

/-- the predicate handed to `sort.Search` by `find…CursorPosition` -/
def afterPred (lt : α → α → Bool) (L : List α) (c : α) : Nat → Bool :=
  fun i => match L[i]? with | some x => lt c x | none => true

theorem afterCursor_def (lt : α → α → Bool) (L : List α) (c : α) :
    afterCursor lt L c = search L.length (afterPred lt L c) := rfl

theorem afterPred_of_getElem? {L : List α} {c x : α} {i : Nat} (hx : L[i]? = some x) :
    afterPred lt L c i = lt c x := by
  simp [afterPred, hx]

theorem afterPred_mono (h : StrictTotal lt) (L : List α)
    (hs : L.Pairwise (fun a b => lt a b = true)) (c : α) :
    ∀ i j, i ≤ j → j < L.length → afterPred lt L c i = true → afterPred lt L c j = true := by
  intro i j hij hj hi
  have hi' : i < L.length := by omega
  rw [afterPred_of_getElem? (List.getElem?_eq_getElem hi')] at hi
  rw [afterPred_of_getElem? (List.getElem?_eq_getElem hj)]
  rcases Nat.lt_or_eq_of_le hij with hlt | heq
  · exact h.trans _ _ _ hi (List.pairwise_iff_getElem.mp hs i j hi' hj hlt)
  · subst heq; exact hi

theorem afterCursor_isFirst (h : StrictTotal lt) (L : List α)
    (hs : L.Pairwise (fun a b => lt a b = true)) (c : α) :
    IsFirst L.length (afterPred lt L c) (afterCursor lt L c) :=
  search_spec _ _ (afterPred_mono h L hs c)

theorem takeWhile_length_spec (p : α → Bool) :
    ∀ L : List α, (L.takeWhile p).length ≤ L.length ∧
      (∀ k, k < (L.takeWhile p).length → ∃ x, L[k]? = some x ∧ p x = true) ∧
      ((L.takeWhile p).length < L.length →
        ∃ x, L[(L.takeWhile p).length]? = some x ∧ p x = false)
  | [] => by simp
  | a :: L => by
    obtain ⟨ih1, ih2, ih3⟩ := takeWhile_length_spec p L
    cases hp : p a
    · simp [hp]
    · simp only [List.takeWhile_cons, hp, if_true, List.length_cons]
      refine ⟨by omega, ?_, ?_⟩
      · intro k hk
        cases k with
        | zero => exact ⟨a, by simp, hp⟩
        | succ k => simpa using ih2 k (by omega)
      · intro hlt
        simpa using ih3 (by omega)

/-- 6b. for any cursor (present in the list or not) the position found on a strictly sorted list is
the number of leading elements that are not strictly after the cursor. -/
theorem afterCursor_spec (h : StrictTotal lt) (L : List α)
    (hs : L.Pairwise (fun a b => lt a b = true)) (c : α) :
    afterCursor lt L c = (L.takeWhile (fun x => !lt c x)).length := by
  refine (afterCursor_isFirst h L hs c).unique ?_
  obtain ⟨h1, h2, h3⟩ := takeWhile_length_spec (fun x => !lt c x) L
  refine ⟨h1, ?_, ?_⟩
  · intro k hk
    obtain ⟨x, hx, hpx⟩ := h2 k hk
    rw [afterPred_of_getElem? hx]
    simpa using hpx
  · intro hlt
    obtain ⟨x, hx, hpx⟩ := h3 hlt
    rw [afterPred_of_getElem? hx]
    simpa using hpx

/-- 6. on a strictly sorted list the first index strictly after the element at index `e-1`
is `e`. -/
theorem afterCursor_eq (h : StrictTotal lt) (L : List α)
    (hs : L.Pairwise (fun a b => lt a b = true)) (e : Nat) (he1 : 1 ≤ e) (he : e ≤ L.length)
    (c : α) (hc : L[e-1]? = some c) : afterCursor lt L c = e := by
  refine (afterCursor_isFirst h L hs c).unique ⟨he, ?_, ?_⟩
  · intro k hk
    have hk' : k < L.length := by omega
    have he' : e - 1 < L.length := by omega
    rw [afterPred_of_getElem? (List.getElem?_eq_getElem hk')]
    have hce : L[e-1] = c := by
      rw [List.getElem?_eq_getElem he'] at hc; exact Option.some.inj hc
    rcases Nat.lt_or_eq_of_le (Nat.le_sub_one_of_lt hk) with hlt | heq
    · have := List.pairwise_iff_getElem.mp hs k (e-1) hk' he' hlt
      rw [hce] at this
      exact h.asymm this
    · subst heq
      rw [hce]; exact h.irrefl c
  · intro hlt
    have he' : e - 1 < L.length := by omega
    rw [afterPred_of_getElem? (List.getElem?_eq_getElem hlt)]
    have hce : L[e-1] = c := by
      rw [List.getElem?_eq_getElem he'] at hc; exact Option.some.inj hc
    have := List.pairwise_iff_getElem.mp hs (e-1) e he' hlt (by omega)
    rw [hce] at this
    exact this

/-- the sample list is strictly sorted (hypothesis `hs` of 6, 6b, 7). -/
example : ([((-3:Int),[2]),(5,[1]),(5,[1,0]),(7,[])] : List Elem).Pairwise
    (fun a b => elemLt true a b = true) := by decide
example : afterCursor (elemLt true) [((-3:Int),[2]),(5,[1]),(5,[1,0]),(7,[])] (5,[1]) = 2 := by
  decide
example : afterCursor (elemLt true) [((-3:Int),[2]),(5,[1]),(5,[1,0]),(7,[])] (5,[0,9]) = 1 := by
  decide

/-! ### Pages -/

/-- the start index `getPage` computes from the request cursor -/
def startOf (lt : α → α → Bool) (L : List α) : Option α → Nat
  | none => 0
  | some c => afterCursor lt L c

theorem getPage_eq (lt : α → α → Bool) (L : List α) (cur : Option α) (limit : Int) :
    getPage lt L cur limit =
      if L.length = 0 then ⟨[], none⟩ else
      if startOf lt L cur ≥ L.length then ⟨[], none⟩ else
      if limit > 0 then
        ⟨(L.drop (startOf lt L cur)).take
            (min (startOf lt L cur + limit.toNat) L.length - startOf lt L cur),
          if min (startOf lt L cur + limit.toNat) L.length < L.length
          then L[min (startOf lt L cur + limit.toNat) L.length - 1]? else none⟩
      else ⟨L.drop (startOf lt L cur), none⟩ := by
  cases cur <;> rfl

theorem getPage_of_ge (lt : α → α → Bool) (L : List α) (cur : Option α) (limit : Int)
    (hge : L.length ≤ startOf lt L cur) : getPage lt L cur limit = ⟨[], none⟩ := by
  rw [getPage_eq]
  by_cases h0 : L.length = 0
  · rw [if_pos h0]
  · rw [if_neg h0, if_pos (show startOf lt L cur ≥ L.length from hge)]

theorem getPage_of_lt (lt : α → α → Bool) (L : List α) (cur : Option α) (limit : Int)
    (hl : 0 < limit) (hlt : startOf lt L cur < L.length) :
    getPage lt L cur limit =
      ⟨(L.drop (startOf lt L cur)).take
          (min (startOf lt L cur + limit.toNat) L.length - startOf lt L cur),
        if min (startOf lt L cur + limit.toNat) L.length < L.length
        then L[min (startOf lt L cur + limit.toNat) L.length - 1]? else none⟩ := by
  rw [getPage_eq, if_neg (by omega), if_neg (by omega), if_pos hl]

theorem take_append_drop_take : ∀ (L : List α) (s e : Nat), s ≤ e →
    L.take s ++ (L.drop s).take (e - s) = L.take e
  | _, 0, _, _ => by simp
  | [], _ + 1, _, _ => by simp
  | _ :: _, _ + 1, 0, h => by omega
  | a :: L, s + 1, e + 1, h => by
    have := take_append_drop_take L s e (by omega)
    simp only [List.take_succ_cons, List.drop_succ_cons, List.cons_append,
      Nat.add_sub_add_right, this]

/-- 7. a page that carries a cursor is non-empty, the cursor is the page's last item, and it lies
strictly after the request cursor (any request cursor, present in the list or not). -/
theorem getPage_progress (h : StrictTotal lt) (L : List α)
    (hs : L.Pairwise (fun a b => lt a b = true)) (limit : Int) (hl : 0 < limit)
    (cur : Option α) (c' : α) (hc' : (getPage lt L cur limit).cursor = some c') :
    (getPage lt L cur limit).items ≠ [] ∧
      (getPage lt L cur limit).items.getLast? = some c' ∧
      ∀ c, cur = some c → lt c c' = true := by
  by_cases hlt : startOf lt L cur < L.length
  · rw [getPage_of_lt lt L cur limit hl hlt] at hc' ⊢
    simp only at hc' ⊢
    have hpos : 0 < limit.toNat := by omega
    generalize hS : startOf lt L cur = s at *
    generalize hE : min (s + limit.toNat) L.length = e at *
    have hse : s < e := by omega
    have hen : e ≤ L.length := by omega
    split at hc'
    next hen' =>
      have hlen : ((L.drop s).take (e - s)).length = e - s := by
        simp only [List.length_take, List.length_drop]; omega
      refine ⟨?_, ?_, ?_⟩
      · intro hnil
        rw [hnil] at hlen
        simp at hlen; omega
      · rw [List.getLast?_eq_getElem?, hlen, List.getElem?_take_of_lt (by omega),
          List.getElem?_drop, ← hc']
        congr 1; omega
      · intro c hcur
        subst hcur
        simp only [startOf] at hS
        have hfirst := afterCursor_isFirst h L hs c
        rw [hS] at hfirst
        have hfs := hfirst.2.2 hlt
        have := afterPred_mono h L hs c s (e - 1) (by omega) (by omega) hfs
        rw [afterPred_of_getElem? hc'] at this
        exact this
    next => cases hc'
  · rw [getPage_of_ge lt L cur limit (by omega)] at hc'
    cases hc'

example : getPage (elemLt true) [((-3:Int),[2]),(5,[1]),(5,[1,0]),(7,[])] (some (5,[0,9])) 2
    = ⟨[(5,[1]),(5,[1,0])], some (5,[1,0])⟩ := by decide

/-! ### The client's loop -/

theorem paginate_from (h : StrictTotal lt) (L : List α)
    (hs : L.Pairwise (fun a b => lt a b = true)) (limit : Int) (hl : 0 < limit) :
    ∀ (fuel : Nat) (cur : Option α), L.length - startOf lt L cur < fuel →
      paginate lt L limit fuel cur (L.take (startOf lt L cur)) = (L, true)
  | 0, _, hf => by omega
  | fuel + 1, cur, hf => by
    simp only [paginate]
    by_cases hlt : startOf lt L cur < L.length
    · rw [getPage_of_lt lt L cur limit hl hlt]
      simp only
      have hpos : 0 < limit.toNat := by omega
      rw [take_append_drop_take L _ _ (by omega)]
      generalize hE : min (startOf lt L cur + limit.toNat) L.length = e at *
      by_cases hen : e < L.length
      · have he1 : e - 1 < L.length := by omega
        rw [if_pos hen, List.getElem?_eq_getElem he1]
        simp only
        have hac := afterCursor_eq h L hs e (by omega) (by omega) L[e - 1]
          (List.getElem?_eq_getElem he1)
        have ih := paginate_from h L hs limit hl fuel (some L[e - 1])
          (by simp only [startOf, hac]; omega)
        simp only [startOf, hac] at ih
        exact ih
      · rw [if_neg hen]
        simp only
        rw [List.take_of_length_le (by omega)]
    · rw [getPage_of_ge lt L cur limit (by omega)]
      simp only [List.append_nil]
      rw [List.take_of_length_le (by omega)]

/-- 8. MAIN: with a positive page size the client's loop, given `size + 1` requests, terminates
and the concatenation of its pages is exactly the sorted key list. -/
theorem pages_concat_eq_sorted (h : StrictTotal lt) (keys : List α) (hnd : keys.Nodup)
    (limit : Int) (hl : 0 < limit) : paginateAll lt keys limit = (isort lt keys, true) := by
  have := paginate_from h (isort lt keys) (isort_sorted h keys hnd) limit hl
    (keys.length + 1) none (by simp only [startOf, isort_length]; omega)
  simpa [startOf, paginateAll] using this

example : paginateAll (elemLt false) [((5:Int),[1]),(5,[1,0]),(-3,[2]),(7,[])] 2
    = ([(7,[]),(5,[1,0]),(5,[1]),(-3,[2])], true) := by decide
example : paginateAll (elemLt true) [((5:Int),[1]),(5,[1,0]),(-3,[2]),(7,[])] 3
    = ([(-3,[2]),(5,[1]),(5,[1,0]),(7,[])], true) := by decide
/-- with too little fuel the loop is cut short (flag `false`). -/
example : paginate (elemLt true) (isort (elemLt true) [((5:Int),[1]),(-3,[2]),(7,[])]) 1 2 none []
    = ([(-3,[2]),(5,[1])], false) := by decide

theorem getPage_none_neg (lt : α → α → Bool) (L : List α) (limit : Int) (hl : limit < 0) :
    getPage lt L none limit = ⟨L, none⟩ := by
  cases L with
  | nil => rfl
  | cons a L =>
    have h0 : ¬ (a :: L).length = 0 := by simp
    have h1 : ¬ startOf lt (a :: L) none ≥ (a :: L).length := by simp [startOf]
    have h2 : ¬ limit > 0 := by omega
    rw [getPage_eq, if_neg h0, if_neg h1, if_neg h2]
    rfl

/-- 8b. a negative page size returns everything in one page (no hypotheses on the keys). -/
theorem pages_concat_negative_limit (lt : α → α → Bool) (keys : List α) (limit : Int)
    (hl : limit < 0) : paginateAll lt keys limit = (isort lt keys, true) := by
  simp only [paginateAll, paginate]
  rw [getPage_none_neg lt _ limit hl]
  simp

example : paginateAll (elemLt false) [((5:Int),[1]),(5,[1,0]),(-3,[2]),(7,[])] (-1)
    = ([(7,[]),(5,[1,0]),(5,[1]),(-3,[2])], true) := by decide

/-- 9. every key is delivered exactly once. -/
theorem pages_each_key_once (h : StrictTotal lt) (keys : List α) (hnd : keys.Nodup)
    (limit : Int) (hl : 0 < limit) :
    (paginateAll lt keys limit).1.Perm keys ∧ (paginateAll lt keys limit).1.Nodup := by
  rw [pages_concat_eq_sorted h keys hnd limit hl]
  exact ⟨isort_perm lt keys, (isort_perm lt keys).nodup_iff.mpr hnd⟩

/-- the hypotheses of 8/9 hold for the sample key set. -/
example : ([((5:Int),[1]),(5,[1,0]),(-3,[2]),(7,[])] : List Elem).Nodup := by decide
example : (paginateAll (elemLt false) [((5:Int),[1]),(5,[1,0]),(-3,[2]),(7,[])] 2).1.Perm
    [((5:Int),[1]),(5,[1,0]),(-3,[2]),(7,[])] :=
  (pages_each_key_once (elemLt_strictTotal false) _ (by decide) 2 (by decide)).1

end Generic

end CentrifugeVerif.MapPage
