import CentrifugeVerif.Proofs.MapHubAssoc
/-!
Helper definitions and lemmas about the in-memory map broker model (`Model/MapHub.lean`) for C20.
-/
namespace CentrifugeVerif.MapHub

/-! ### the specification side -/

/-- the channel `add` works on: the existing one (after the `ordered` fix-up) or a fresh one -/
def chanFor (cfg : Cfg) (h : Hub) (ch : Nat) : Chan :=
  match aget h.chans ch with
  | some c => if cfg.ordered && !c.ordered then { c with ordered := true } else c
  | none => h.newChan cfg.ordered

/-- the hub after the get-or-create step of `add` -/
def hubFor (cfg : Cfg) (h : Hub) (ch : Nat) : Hub :=
  match aget h.chans ch with
  | some c => if cfg.ordered && !c.ordered then h.setChan ch { c with ordered := true } else h
  | none => { h with chans := aset h.chans ch (h.newChan cfg.ordered), nextEpoch := h.nextEpoch + 1 }

/-- the specification's decision for a publish: version → key mode → CAS -/
def decideSup (cfg : Cfg) (c : Chan) (key : Key) (o : PubOpts) : Suppress :=
  if versionBlocked cfg c key o then .version
  else match keyModeBlocked c key o with
    | some r => r
    | none => if key ≠ [] ∧ (casBlocked c key o.cas).isSome then .positionMismatch else .none

/-- observable content of a channel: (top, stream items, state); a missing channel looks empty -/
def chanView (h : Hub) (ch : Nat) : Nat × List Pub × List (Key × Entry) :=
  match aget h.chans ch with
  | some c => (c.stream.top, c.stream.items, c.state)
  | none => (0, [], [])

/-! ### `add` in pieces -/

/-- the publication `add` starts from -/
def pub0Of (now : Nat) (key : Key) (o : PubOpts) : Pub :=
  { key := key, data := o.data, tag := o.tag, score := o.score, offset := 0, removed := false, time := now }

/-- `prevPub` for delta publications -/
def prevOf (h : Hub) (ch : Nat) (key : Key) (o : PubOpts) : Option Pub :=
  if o.delta && key != [] then
    match aget h.chans ch with
    | some c => (aget c.state key).map (·.pub)
    | none => none
  else none

/-- the hub after the TTL refresh of a suppressed `KeyModeIfNew` publish -/
def refreshHub (cfg : Cfg) (h1 : Hub) (c : Chan) (now ch : Nat) (key : Key) : Hub :=
  match aget c.state key with
  | some e =>
    (h1.setChan ch { c with state := aset c.state key { e with expireAt := now + cfg.keyTTL } }).trackTTL
      (ch, key) (now + cfg.keyTTL)
  | none => h1

/-- the stream part of an unsuppressed `add` -/
def streamStep (cfg : Cfg) (c : Chan) (pub0 : Pub) : Stream × Pub × Pos :=
  if cfg.hasStream then
    ((c.stream.add pub0 cfg.streamSize).1, (c.stream.add pub0 cfg.streamSize).2,
      ⟨(c.stream.add pub0 cfg.streamSize).2.offset, c.stream.epoch⟩)
  else (c.stream, { pub0 with offset := c.stream.top }, c.stream.pos)

/-- version / version epoch stored by an unsuppressed keyed publish -/
def verOf (c : Chan) (key : Key) (o : PubOpts) : Nat × Nat :=
  if o.version = 0 then
    match aget c.state key with
    | some e => (e.version, e.vepoch)
    | none => (o.version, o.vepoch)
  else (o.version, o.vepoch)

/-- the state entry written by an unsuppressed keyed publish -/
def entryOf (cfg : Cfg) (c : Chan) (now : Nat) (key : Key) (o : PubOpts) : Entry :=
  { pub := (streamStep cfg c (pub0Of now key o)).2.1, score := o.score,
    expireAt := if cfg.keyTTL > 0 then now + cfg.keyTTL else 0,
    version := (verOf c key o).1, vepoch := (verOf c key o).2 }

/-- the channel written by an unsuppressed keyed publish -/
def chanPut (cfg : Cfg) (c : Chan) (now : Nat) (key : Key) (o : PubOpts) : Chan :=
  { c with stream := (streamStep cfg c (pub0Of now key o)).1,
           state := aset c.state key (entryOf cfg c now key o),
           scores := if cfg.ordered then aset c.scores key o.score else c.scores }

/-- the unsuppressed exit of `add` -/
def addOk (cfg : Cfg) (h1 : Hub) (c : Chan) (now ch : Nat) (key : Key) (o : PubOpts) (prev : Option Pub) :
    Hub × Pos × Option Pub × Suppress × Pub :=
  if key == [] then
    (h1.setChan ch { c with stream := (streamStep cfg c (pub0Of now key o)).1 },
      (streamStep cfg c (pub0Of now key o)).2.2, prev, .none,
      if cfg.hasStream then (streamStep cfg c (pub0Of now key o)).2.1 else pub0Of now key o)
  else
    (if cfg.keyTTL > 0 then
        (h1.setChan ch (chanPut cfg c now key o)).trackTTL (ch, key) (if cfg.keyTTL > 0 then now + cfg.keyTTL else 0)
      else h1.setChan ch (chanPut cfg c now key o),
      (streamStep cfg c (pub0Of now key o)).2.2, prev, .none, (streamStep cfg c (pub0Of now key o)).2.1)

/-- `add` after the get-or-create step (`h1`, `c`), same control structure as the model -/
def addCore (cfg : Cfg) (h1 : Hub) (c : Chan) (now ch : Nat) (key : Key) (o : PubOpts) (prev : Option Pub) :
    Hub × Pos × Option Pub × Suppress × Pub :=
  if versionBlocked cfg c key o then (h1, c.stream.pos, none, .version, pub0Of now key o) else
  match keyModeBlocked c key o with
  | some .keyExists =>
    (if o.refresh && decide (cfg.keyTTL > 0) then refreshHub cfg h1 c now ch key else h1,
      c.stream.pos, none, .keyExists, pub0Of now key o)
  | some r => (h1, c.stream.pos, none, r, pub0Of now key o)
  | none =>
  match (if key != [] then casBlocked c key o.cas else none) with
  | some cur => (h1, c.stream.pos, cur, .positionMismatch, pub0Of now key o)
  | none => addOk cfg h1 c now ch key o prev

theorem add_eq (cfg : Cfg) (h : Hub) (now ch : Nat) (key : Key) (o : PubOpts) :
    add cfg h now ch key o
      = addCore cfg (hubFor cfg h ch) (chanFor cfg h ch) now ch key o (prevOf h ch key o) := by
  unfold add hubFor chanFor prevOf
  cases aget h.chans ch with
  | none => rfl
  | some c =>
    by_cases hc : (cfg.ordered && !c.ordered) = true
    · simp only [hc, if_true]; rfl
    · simp only [hc]; rfl

/-! ### exits of `addCore` -/

theorem keyModeBlocked_cases (c : Chan) (key : Key) (o : PubOpts) :
    keyModeBlocked c key o = none ∨ keyModeBlocked c key o = some .keyExists ∨
      keyModeBlocked c key o = some .keyNotFound := by
  unfold keyModeBlocked
  split
  · split
    · simp
    · split <;> simp
  · simp

theorem keyModeBlocked_keyExists {c : Chan} {key : Key} {o : PubOpts}
    (hk : keyModeBlocked c key o = some .keyExists) :
    key ≠ [] ∧ o.mode = .ifNew ∧ ∃ e, aget c.state key = some e := by
  unfold keyModeBlocked at hk
  split at hk
  · rename_i h1
    split at hk
    · rename_i h2
      simp at h1 h2
      refine ⟨h1.1, h2.1, ?_⟩
      cases hq : aget c.state key with
      | none => simp [hq] at h2
      | some e => exact ⟨e, rfl⟩
    · split at hk <;> simp at hk
  · simp at hk

theorem keyModeBlocked_keyNotFound {c : Chan} {key : Key} {o : PubOpts}
    (hk : keyModeBlocked c key o = some .keyNotFound) :
    key ≠ [] ∧ o.mode = .ifExists ∧ aget c.state key = none := by
  unfold keyModeBlocked at hk
  split at hk
  · rename_i h1
    split at hk
    · simp at hk
    · split at hk
      · rename_i h2 h3
        simp at h1 h3
        refine ⟨h1.1, h3.1, ?_⟩
        cases hq : aget c.state key with
        | none => rfl
        | some e => simp [hq] at h3
      · simp at hk
  · simp at hk

section Exits
variable (cfg : Cfg) (h1 : Hub) (c : Chan) (now ch : Nat) (key : Key) (o : PubOpts) (prev : Option Pub)

theorem addCore_version (hv : versionBlocked cfg c key o = true) :
    addCore cfg h1 c now ch key o prev = (h1, c.stream.pos, none, .version, pub0Of now key o) := by
  simp [addCore, hv]

theorem addCore_keyExists (hv : versionBlocked cfg c key o = false)
    (hk : keyModeBlocked c key o = some .keyExists) :
    addCore cfg h1 c now ch key o prev
      = (if o.refresh && decide (cfg.keyTTL > 0) then refreshHub cfg h1 c now ch key else h1,
          c.stream.pos, none, .keyExists, pub0Of now key o) := by
  simp only [addCore, hv, hk]; rfl

theorem addCore_keyNotFound (hv : versionBlocked cfg c key o = false)
    (hk : keyModeBlocked c key o = some .keyNotFound) :
    addCore cfg h1 c now ch key o prev = (h1, c.stream.pos, none, .keyNotFound, pub0Of now key o) := by
  simp only [addCore, hv, hk]; rfl

theorem addCore_cas (hv : versionBlocked cfg c key o = false) (hk : keyModeBlocked c key o = none)
    (hne : key ≠ []) (cur : Option Pub) (hc : casBlocked c key o.cas = some cur) :
    addCore cfg h1 c now ch key o prev = (h1, c.stream.pos, cur, .positionMismatch, pub0Of now key o) := by
  simp [addCore, hv, hk, hne, hc]

theorem addCore_ok (hv : versionBlocked cfg c key o = false) (hk : keyModeBlocked c key o = none)
    (hc : key ≠ [] → casBlocked c key o.cas = none) :
    addCore cfg h1 c now ch key o prev = addOk cfg h1 c now ch key o prev := by
  by_cases hne : key = []
  · subst hne; simp [addCore, hv, hk]
  · simp [addCore, hv, hk, hne, hc hne]

/-- case analysis on the exit `addCore` takes -/
theorem addCore_elim {motive : Hub × Pos × Option Pub × Suppress × Pub → Prop}
    (version : versionBlocked cfg c key o = true →
      motive (h1, c.stream.pos, none, .version, pub0Of now key o))
    (keyExists : versionBlocked cfg c key o = false → keyModeBlocked c key o = some .keyExists →
      motive (if o.refresh && decide (cfg.keyTTL > 0) then refreshHub cfg h1 c now ch key else h1,
          c.stream.pos, none, .keyExists, pub0Of now key o))
    (keyNotFound : versionBlocked cfg c key o = false → keyModeBlocked c key o = some .keyNotFound →
      motive (h1, c.stream.pos, none, .keyNotFound, pub0Of now key o))
    (cas : versionBlocked cfg c key o = false → keyModeBlocked c key o = none → key ≠ [] →
      ∀ cur, casBlocked c key o.cas = some cur →
      motive (h1, c.stream.pos, cur, .positionMismatch, pub0Of now key o))
    (ok : versionBlocked cfg c key o = false → keyModeBlocked c key o = none →
      (key ≠ [] → casBlocked c key o.cas = none) → motive (addOk cfg h1 c now ch key o prev)) :
    motive (addCore cfg h1 c now ch key o prev) := by
  cases hv : versionBlocked cfg c key o with
  | true => rw [addCore_version _ _ _ _ _ _ _ _ hv]; exact version hv
  | false =>
    rcases keyModeBlocked_cases c key o with hk | hk | hk
    · by_cases hne : key = []
      · rw [addCore_ok _ _ _ _ _ _ _ _ hv hk (fun h => absurd hne h)]
        exact ok hv hk (fun h => absurd hne h)
      · cases hc : casBlocked c key o.cas with
        | none =>
          rw [addCore_ok _ _ _ _ _ _ _ _ hv hk (fun _ => hc)]
          exact ok hv hk (fun _ => hc)
        | some cur =>
          rw [addCore_cas _ _ _ _ _ _ _ _ hv hk hne cur hc]
          exact cas hv hk hne cur hc
    · rw [addCore_keyExists _ _ _ _ _ _ _ _ hv hk]; exact keyExists hv hk
    · rw [addCore_keyNotFound _ _ _ _ _ _ _ _ hv hk]; exact keyNotFound hv hk

end Exits


/-! ### check order (T1) and CAS (T5) -/

@[simp] theorem addOk_sup (cfg : Cfg) (h1 : Hub) (c : Chan) (now ch : Nat) (key : Key) (o : PubOpts)
    (prev : Option Pub) : (addOk cfg h1 c now ch key o prev).2.2.2.1 = .none := by
  unfold addOk; split <;> rfl

theorem addCore_sup (cfg : Cfg) (h1 : Hub) (c : Chan) (now ch : Nat) (key : Key) (o : PubOpts)
    (prev : Option Pub) : (addCore cfg h1 c now ch key o prev).2.2.2.1 = decideSup cfg c key o := by
  refine addCore_elim cfg h1 c now ch key o prev
    (motive := fun r => r.2.2.2.1 = decideSup cfg c key o) ?_ ?_ ?_ ?_ ?_
  · intro hv; simp [decideSup, hv]
  · intro hv hk; simp [decideSup, hv, hk]
  · intro hv hk; simp [decideSup, hv, hk]
  · intro hv hk hne cur hc; simp [decideSup, hv, hk, hne, hc]
  · intro hv hk hc
    by_cases hne : key = []
    · subst hne; simp [decideSup, hv, hk]
    · simp [decideSup, hv, hk, hne, hc hne]

theorem decideSup_ne_idem (cfg : Cfg) (c : Chan) (key : Key) (o : PubOpts) :
    decideSup cfg c key o ≠ .idempotency := by
  unfold decideSup
  split
  · simp
  · rcases keyModeBlocked_cases c key o with hk | hk | hk <;> simp only [hk]
    · split <;> simp
    · simp
    · simp

theorem casBlocked_none_iff (c : Chan) (key : Key) (exp : Pos) :
    casBlocked c key (some exp) = none ↔
      ∃ e, aget c.state key = some e ∧ e.pub.offset = exp.offset ∧ c.stream.epoch = exp.epoch := by
  unfold casBlocked
  cases hq : aget c.state key with
  | none => simp
  | some e =>
    simp only [Option.some.injEq, exists_eq_left']
    by_cases h1 : e.pub.offset = exp.offset <;> by_cases h2 : c.stream.epoch = exp.epoch <;> simp [h1, h2]

/-! ### the get-or-create step -/

section HubFor
variable (cfg : Cfg) (h : Hub) (ch : Nat)

theorem hubFor_get : aget (hubFor cfg h ch).chans ch = some (chanFor cfg h ch) := by
  unfold hubFor chanFor
  cases hq : aget h.chans ch with
  | none => simp [aget_aset_same]
  | some c =>
    by_cases hc : (cfg.ordered && !c.ordered) = true
    · simp only [hc, if_true, Hub.setChan, aget_aset_same]
    · simp only [hc]; exact hq

theorem hubFor_get_ne (ch' : Nat) (hne : ch' ≠ ch) : aget (hubFor cfg h ch).chans ch' = aget h.chans ch' := by
  unfold hubFor
  cases hq : aget h.chans ch with
  | none => simp [aget_aset_ne _ _ _ _ hne]
  | some c =>
    by_cases hc : (cfg.ordered && !c.ordered) = true
    · simp only [hc, if_true, Hub.setChan, aget_aset_ne _ _ _ _ hne]
    · simp only [hc]; rfl

@[simp] theorem hubFor_keyExpires : (hubFor cfg h ch).keyExpires = h.keyExpires := by
  unfold hubFor; split <;> (try split) <;> rfl
@[simp] theorem hubFor_queue : (hubFor cfg h ch).queue = h.queue := by
  unfold hubFor; split <;> (try split) <;> rfl
@[simp] theorem hubFor_nextKeyCheck : (hubFor cfg h ch).nextKeyCheck = h.nextKeyCheck := by
  unfold hubFor; split <;> (try split) <;> rfl
@[simp] theorem hubFor_cache : (hubFor cfg h ch).cache = h.cache := by
  unfold hubFor; split <;> (try split) <;> rfl

theorem chanFor_of_some {c : Chan} (hq : aget h.chans ch = some c) :
    (chanFor cfg h ch).stream = c.stream ∧ (chanFor cfg h ch).state = c.state := by
  unfold chanFor; rw [hq]; simp only []; split <;> exact ⟨rfl, rfl⟩

theorem chanFor_of_none (hq : aget h.chans ch = none) : chanFor cfg h ch = h.newChan cfg.ordered := by
  unfold chanFor; rw [hq]

theorem chanView_some {h : Hub} {ch : Nat} {c : Chan} (hq : aget h.chans ch = some c) :
    chanView h ch = (c.stream.top, c.stream.items, c.state) := by
  unfold chanView; rw [hq]

theorem chanView_of_get {h h' : Hub} {ch : Nat} (hq : aget h'.chans ch = aget h.chans ch) :
    chanView h' ch = chanView h ch := by
  unfold chanView; rw [hq]

theorem chanView_setChan (h : Hub) (ch : Nat) (c : Chan) :
    chanView (h.setChan ch c) ch = (c.stream.top, c.stream.items, c.state) :=
  chanView_some (c := c) (by simp [Hub.setChan, aget_aset_same])

theorem chanView_setChan_ne (h : Hub) (ch ch' : Nat) (c : Chan) (hne : ch' ≠ ch) :
    chanView (h.setChan ch c) ch' = chanView h ch' :=
  chanView_of_get (by simp [Hub.setChan, aget_aset_ne _ _ _ _ hne])

theorem chanView_trackTTL (h : Hub) (ck : ChKey) (e : Nat) (ch : Nat) :
    chanView (h.trackTTL ck e) ch = chanView h ch := rfl

/-- the view of the channel `add` works on is the view the hub had of it -/
theorem chanView_chanFor :
    ((chanFor cfg h ch).stream.top, (chanFor cfg h ch).stream.items, (chanFor cfg h ch).state) = chanView h ch := by
  cases hq : aget h.chans ch with
  | none => rw [chanFor_of_none cfg h ch hq]; unfold chanView; rw [hq]; rfl
  | some c =>
    obtain ⟨h1, h2⟩ := chanFor_of_some cfg h ch hq
    rw [chanView_some hq, h1, h2]

theorem chanView_hubFor (ch' : Nat) : chanView (hubFor cfg h ch) ch' = chanView h ch' := by
  by_cases hne : ch' = ch
  · subst hne
    rw [chanView_some (hubFor_get cfg h ch')]; exact chanView_chanFor cfg h ch'
  · exact chanView_of_get (hubFor_get_ne cfg h ch ch' hne)

end HubFor

/-! ### frames of `addCore` -/

section Frames
variable (cfg : Cfg) (h1 : Hub) (c : Chan) (now ch : Nat) (key : Key) (o : PubOpts) (prev : Option Pub)

theorem addCore_cache : (addCore cfg h1 c now ch key o prev).1.cache = h1.cache := by
  refine addCore_elim cfg h1 c now ch key o prev (motive := fun r => r.1.cache = h1.cache) ?_ ?_ ?_ ?_ ?_
  · intro _; rfl
  · intro _ _; simp only []; split
    · unfold refreshHub; split <;> rfl
    · rfl
  · intro _ _; rfl
  · intro _ _ _ _ _; rfl
  · intro _ _ _; unfold addOk; split
    · rfl
    · simp only []; split <;> rfl

theorem addCore_get_ne (ch' : Nat) (hne : ch' ≠ ch) :
    aget (addCore cfg h1 c now ch key o prev).1.chans ch' = aget h1.chans ch' := by
  refine addCore_elim cfg h1 c now ch key o prev
    (motive := fun r => aget r.1.chans ch' = aget h1.chans ch') ?_ ?_ ?_ ?_ ?_
  · intro _; rfl
  · intro _ _; simp only []; split
    · unfold refreshHub; split
      · simp only [Hub.trackTTL, Hub.setChan, aget_aset_ne _ _ _ _ hne]
      · rfl
    · rfl
  · intro _ _; rfl
  · intro _ _ _ _ _; rfl
  · intro _ _ _; unfold addOk; split
    · simp only [Hub.setChan, aget_aset_ne _ _ _ _ hne]
    · simp only []; split <;> simp only [Hub.trackTTL, Hub.setChan, aget_aset_ne _ _ _ _ hne]

/-- a suppressed `add` that is not the documented TTL refresh leaves the hub it started from -/
theorem addCore_suppressed_hub
    (hs : (addCore cfg h1 c now ch key o prev).2.2.2.1 ≠ .none)
    (hx : ¬ ((addCore cfg h1 c now ch key o prev).2.2.2.1 = .keyExists ∧ o.refresh = true ∧ cfg.keyTTL > 0)) :
    (addCore cfg h1 c now ch key o prev).1 = h1 := by
  revert hs hx
  refine addCore_elim cfg h1 c now ch key o prev
    (motive := fun r => r.2.2.2.1 ≠ .none →
      ¬ (r.2.2.2.1 = .keyExists ∧ o.refresh = true ∧ cfg.keyTTL > 0) → r.1 = h1) ?_ ?_ ?_ ?_ ?_
  · intro _ _ _; rfl
  · intro _ _ _ hx
    have : ¬ ((o.refresh && decide (cfg.keyTTL > 0)) = true) := by
      intro hc; simp at hc; exact hx ⟨rfl, hc.1, hc.2⟩
    show (if _ then _ else _) = h1
    rw [if_neg this]
  · intro _ _ _ _; rfl
  · intro _ _ _ _ _ _ _; rfl
  · intro _ _ _ hs _; simp at hs

/-- the documented TTL refresh -/
theorem addCore_refresh_hub
    (hs : (addCore cfg h1 c now ch key o prev).2.2.2.1 = .keyExists) (hr : o.refresh = true)
    (ht : cfg.keyTTL > 0) :
    ∃ e, aget c.state key = some e ∧
      (addCore cfg h1 c now ch key o prev).1
        = (h1.setChan ch { c with state := aset c.state key { e with expireAt := now + cfg.keyTTL } }).trackTTL
            (ch, key) (now + cfg.keyTTL) := by
  revert hs
  refine addCore_elim cfg h1 c now ch key o prev
    (motive := fun r => r.2.2.2.1 = .keyExists → ∃ e, aget c.state key = some e ∧
      r.1 = (h1.setChan ch { c with state := aset c.state key { e with expireAt := now + cfg.keyTTL } }).trackTTL
            (ch, key) (now + cfg.keyTTL)) ?_ ?_ ?_ ?_ ?_
  · intro _ hs; simp at hs
  · intro _ hk _
    obtain ⟨_, _, e, he⟩ := keyModeBlocked_keyExists hk
    refine ⟨e, he, ?_⟩
    simp only [hr, ht, decide_true, Bool.and_self, if_true, refreshHub, he]
  · intro _ _ hs; simp at hs
  · intro _ _ _ _ _ hs; simp at hs
  · intro _ _ _ hs; simp at hs

end Frames


/-! ### `add`: check order, frames -/

section AddThms
variable (cfg : Cfg) (h : Hub) (now ch : Nat) (key : Key) (o : PubOpts)

theorem add_sup : (add cfg h now ch key o).2.2.2.1 = decideSup cfg (chanFor cfg h ch) key o := by
  rw [add_eq]; exact addCore_sup ..

theorem add_cache : (add cfg h now ch key o).1.cache = h.cache := by
  rw [add_eq, addCore_cache, hubFor_cache]

theorem add_view_ne (ch' : Nat) (hne : ch' ≠ ch) :
    chanView (add cfg h now ch key o).1 ch' = chanView h ch' := by
  rw [add_eq]
  exact (chanView_of_get (addCore_get_ne _ _ _ _ _ _ _ _ ch' hne)).trans (chanView_hubFor cfg h ch ch')

theorem add_suppressed_frame'
    (hs : (add cfg h now ch key o).2.2.2.1 ≠ .none)
    (hx : ¬ ((add cfg h now ch key o).2.2.2.1 = .keyExists ∧ o.refresh = true ∧ cfg.keyTTL > 0)) :
    (add cfg h now ch key o).1.keyExpires = h.keyExpires ∧ (add cfg h now ch key o).1.queue = h.queue ∧
    (add cfg h now ch key o).1.nextKeyCheck = h.nextKeyCheck ∧ (add cfg h now ch key o).1.cache = h.cache ∧
    ∀ ch', chanView (add cfg h now ch key o).1 ch' = chanView h ch' := by
  rw [add_eq] at hs hx ⊢
  rw [addCore_suppressed_hub _ _ _ _ _ _ _ _ hs hx]
  exact ⟨hubFor_keyExpires .., hubFor_queue .., hubFor_nextKeyCheck .., hubFor_cache ..,
    fun ch' => chanView_hubFor cfg h ch ch'⟩

theorem add_refresh_frame'
    (hs : (add cfg h now ch key o).2.2.2.1 = .keyExists) (hr : o.refresh = true) (ht : cfg.keyTTL > 0) :
    (∀ ch', ch' ≠ ch → chanView (add cfg h now ch key o).1 ch' = chanView h ch') ∧
    (chanView (add cfg h now ch key o).1 ch).1 = (chanView h ch).1 ∧
    (chanView (add cfg h now ch key o).1 ch).2.1 = (chanView h ch).2.1 ∧
    (∀ k, (aget (chanView (add cfg h now ch key o).1 ch).2.2 k).map (fun e => (e.pub, e.score, e.version, e.vepoch))
        = (aget (chanView h ch).2.2 k).map (fun e => (e.pub, e.score, e.version, e.vepoch))) ∧
    ∃ e, aget (chanView (add cfg h now ch key o).1 ch).2.2 key = some e ∧ e.expireAt = now + cfg.keyTTL := by
  refine ⟨fun ch' hne => add_view_ne cfg h now ch key o ch' hne, ?_⟩
  rw [add_eq] at hs ⊢
  obtain ⟨e, he, hh⟩ := addCore_refresh_hub _ _ _ _ _ _ _ _ hs hr ht
  have hv : chanView (addCore cfg (hubFor cfg h ch) (chanFor cfg h ch) now ch key o (prevOf h ch key o)).1 ch
      = ((chanFor cfg h ch).stream.top, (chanFor cfg h ch).stream.items,
          aset (chanFor cfg h ch).state key { e with expireAt := now + cfg.keyTTL }) := by
    rw [hh, chanView_trackTTL, chanView_setChan]
  rw [hv, ← chanView_chanFor cfg h ch]
  refine ⟨rfl, rfl, ?_, ?_⟩
  · intro k
    simp only [aget_aset]
    split
    · rename_i hk; subst hk; simp [he]
    · rfl
  · exact ⟨_, aget_aset_same .., rfl⟩

end AddThms

/-! ### case analysis of `publish`, `remove`, `removeOp` -/

theorem publish_elim (rc : RawCfg) (h : Hub) (now ch : Nat) (key : Key) (o : PubOpts)
    {motive : Hub × MOut → Prop}
    (err : ∀ e, motive (h, ⟨.err e, []⟩))
    (idem : ∀ p, motive (h, ⟨.update p .idempotency none, []⟩))
    (sup : ∀ cfg, resolve rc = some cfg → (add cfg h now ch key o).2.2.2.1 ≠ .none → ∀ cur,
      motive ((add cfg h now ch key o).1,
        ⟨.update (add cfg h now ch key o).2.1 (add cfg h now ch key o).2.2.2.1 cur, []⟩))
    (ok : ∀ cfg, resolve rc = some cfg → (add cfg h now ch key o).2.2.2.1 = .none →
      motive (if o.idem ≠ 0 then cachePut (add cfg h now ch key o).1 now ch o.idem (add cfg h now ch key o).2.1 o.ittl
              else (add cfg h now ch key o).1,
        ⟨.update (add cfg h now ch key o).2.1 .none none,
          [⟨ch, (add cfg h now ch key o).2.2.2.2, (add cfg h now ch key o).2.1, o.delta,
            (add cfg h now ch key o).2.2.1⟩]⟩)) :
    motive (publish rc h now ch key o) := by
  unfold publish
  split
  · exact err _
  · rename_i cfg hcfg
    split
    · exact err _
    · split
      · exact err _
      · split
        · exact idem _
        · simp only []
          split
          · rename_i hs; exact sup cfg hcfg hs _
          · rename_i hs; exact ok cfg hcfg (by simpa using hs)

/-- the removal publication `remove` starts from -/
def rmPub0 (now : Nat) (key : Key) (o : RmOpts) (e : Entry) : Pub :=
  { key := key, data := 0, tag := if o.tag ≠ 0 then o.tag else e.pub.tag, score := 0, offset := 0,
    removed := true, time := now }

/-- the channel after deleting `key` from its state -/
def rmChan (c : Chan) (key : Key) : Chan :=
  { c with state := adel c.state key, scores := if c.ordered then adel c.scores key else c.scores }

theorem remove_elim (cfg : Cfg) (h : Hub) (now ch : Nat) (key : Key) (o : RmOpts)
    {motive : Hub × Pos × Option Pub × Suppress → Prop}
    (nochan : aget h.chans ch = none → ∀ s, (s = .positionMismatch ∨ s = .keyNotFound) →
      motive (h, ⟨0, 0⟩, none, s))
    (cas : ∀ c cur, aget h.chans ch = some c → casBlocked c key o.cas = some cur →
      motive (h, c.stream.pos, cur, .positionMismatch))
    (nokey : ∀ c, aget h.chans ch = some c → casBlocked c key o.cas = none → aget c.state key = none →
      motive (h, c.stream.pos, none, .keyNotFound))
    (okStream : ∀ c e, aget h.chans ch = some c → casBlocked c key o.cas = none → aget c.state key = some e →
      cfg.hasStream = true →
      motive (({ h with keyExpires := adel h.keyExpires (ch, key) } : Hub).setChan ch
          { rmChan c key with stream := (c.stream.add (rmPub0 now key o e) cfg.streamSize).1 },
        ⟨(c.stream.add (rmPub0 now key o e) cfg.streamSize).2.offset, c.stream.epoch⟩,
        some (c.stream.add (rmPub0 now key o e) cfg.streamSize).2, .none))
    (okPlain : ∀ c e, aget h.chans ch = some c → casBlocked c key o.cas = none → aget c.state key = some e →
      cfg.hasStream = false →
      motive (({ h with keyExpires := adel h.keyExpires (ch, key) } : Hub).setChan ch (rmChan c key),
        c.stream.pos, some (rmPub0 now key o e), .none)) :
    motive (remove cfg h now ch key o) := by
  unfold remove
  split
  · rename_i hq
    split
    · exact nochan hq _ (Or.inl rfl)
    · exact nochan hq _ (Or.inr rfl)
  · rename_i c hq
    simp only []
    split
    · rename_i cur hc; exact cas c cur hq hc
    · rename_i hc
      split
      · rename_i he; exact nokey c hq hc he
      · rename_i e he
        split
        · rename_i hst; exact okStream c e hq hc he hst
        · rename_i hst; exact okPlain c e hq hc he (by simpa using hst)

theorem removeOp_elim (rc : RawCfg) (h : Hub) (now ch : Nat) (key : Key) (o : RmOpts)
    {motive : Hub × MOut → Prop}
    (err : ∀ e, motive (h, ⟨.err e, []⟩))
    (idem : ∀ p, motive (h, ⟨.update p .idempotency none, []⟩))
    (sup : ∀ cfg, resolve rc = some cfg → (remove cfg h now ch key o).2.2.2 ≠ .none → ∀ cur,
      motive ((remove cfg h now ch key o).1,
        ⟨.update (remove cfg h now ch key o).2.1 (remove cfg h now ch key o).2.2.2 cur, []⟩))
    (ok : ∀ cfg, resolve rc = some cfg → (remove cfg h now ch key o).2.2.2 = .none →
      motive (if o.idem ≠ 0 then cachePut (remove cfg h now ch key o).1 now ch o.idem (remove cfg h now ch key o).2.1 o.ittl
              else (remove cfg h now ch key o).1,
        ⟨.update (remove cfg h now ch key o).2.1 .none none,
          match (remove cfg h now ch key o).2.2.1 with
          | some pub => [⟨ch, pub, (remove cfg h now ch key o).2.1, false, none⟩]
          | none => []⟩)) :
    motive (removeOp rc h now ch key o) := by
  unfold removeOp
  split
  · exact err _
  · rename_i cfg hcfg
    split
    · exact err _
    · split
      · exact idem _
      · simp only []
        split
        · rename_i hs; exact sup cfg hcfg hs _
        · rename_i hs
          have := ok cfg hcfg (by simpa using hs)
          split <;> rename_i hrp <;> simp only [hrp] at this <;> exact this


/-! ### suppressed operations and errors (T3) -/

theorem publish_suppressed_aux (rc : RawCfg) (h : Hub) (now ch : Nat) (key : Key) (o : PubOpts)
    (pos : Pos) (sup : Suppress) (cur : Option (Nat × Nat))
    (hres : (publish rc h now ch key o).2.res = .update pos sup cur) (hs : sup ≠ .none) :
    (publish rc h now ch key o).2.bcs = [] ∧ (publish rc h now ch key o).1.cache = h.cache ∧
    (sup = .idempotency → (publish rc h now ch key o).1 = h) ∧
    (¬ (sup = .keyExists ∧ o.refresh = true) →
      (∀ ch', chanView (publish rc h now ch key o).1 ch' = chanView h ch') ∧
      (publish rc h now ch key o).1.keyExpires = h.keyExpires ∧
      (publish rc h now ch key o).1.queue = h.queue ∧
      (publish rc h now ch key o).1.nextKeyCheck = h.nextKeyCheck) := by
  revert hres
  refine publish_elim rc h now ch key o (motive := fun r => r.2.res = .update pos sup cur →
    r.2.bcs = [] ∧ r.1.cache = h.cache ∧ (sup = .idempotency → r.1 = h) ∧
    (¬ (sup = .keyExists ∧ o.refresh = true) →
      (∀ ch', chanView r.1 ch' = chanView h ch') ∧ r.1.keyExpires = h.keyExpires ∧
      r.1.queue = h.queue ∧ r.1.nextKeyCheck = h.nextKeyCheck)) ?_ ?_ ?_ ?_
  · intro e hres; simp at hres
  · intro p _; exact ⟨rfl, rfl, fun _ => rfl, fun _ => ⟨fun _ => rfl, rfl, rfl, rfl⟩⟩
  · intro cfg _ hs' cur' hres
    simp only [Res.update.injEq] at hres
    obtain ⟨_, hsup, _⟩ := hres
    refine ⟨rfl, add_cache .., ?_, ?_⟩
    · intro hi
      exact absurd (hsup.trans hi) (by rw [add_sup]; exact decideSup_ne_idem _ _ _ _)
    · intro hx
      have := add_suppressed_frame' cfg h now ch key o hs' (fun hc => hx ⟨hsup ▸ hc.1, hc.2.1⟩)
      exact ⟨this.2.2.2.2, this.1, this.2.1, this.2.2.1⟩
  · intro cfg _ _ hres
    simp only [Res.update.injEq] at hres
    exact absurd hres.2.1.symm hs

theorem publish_err_aux (rc : RawCfg) (h : Hub) (now ch : Nat) (key : Key) (o : PubOpts) (e : Err)
    (hres : (publish rc h now ch key o).2.res = .err e) :
    (publish rc h now ch key o).1 = h ∧ (publish rc h now ch key o).2.bcs = [] := by
  revert hres
  refine publish_elim rc h now ch key o (motive := fun r => r.2.res = .err e → r.1 = h ∧ r.2.bcs = [])
    ?_ ?_ ?_ ?_
  · intro _ _; exact ⟨rfl, rfl⟩
  · intro _ _; exact ⟨rfl, rfl⟩
  · intro _ _ _ _ hres; simp at hres
  · intro _ _ _ hres; simp at hres

theorem remove_suppressed_hub (cfg : Cfg) (h : Hub) (now ch : Nat) (key : Key) (o : RmOpts)
    (hs : (remove cfg h now ch key o).2.2.2 ≠ .none) : (remove cfg h now ch key o).1 = h := by
  revert hs
  refine remove_elim cfg h now ch key o (motive := fun r => r.2.2.2 ≠ .none → r.1 = h) ?_ ?_ ?_ ?_ ?_
  · intro _ _ _ _; rfl
  · intro _ _ _ _ _; rfl
  · intro _ _ _ _ _; rfl
  · intro _ _ _ _ _ _ hs; simp at hs
  · intro _ _ _ _ _ _ hs; simp at hs

theorem remove_suppressed_aux (rc : RawCfg) (h : Hub) (now ch : Nat) (key : Key) (o : RmOpts)
    (pos : Pos) (sup : Suppress) (cur : Option (Nat × Nat))
    (hres : (removeOp rc h now ch key o).2.res = .update pos sup cur) (hs : sup ≠ .none) :
    (removeOp rc h now ch key o).1 = h ∧ (removeOp rc h now ch key o).2.bcs = [] := by
  revert hres
  refine removeOp_elim rc h now ch key o
    (motive := fun r => r.2.res = .update pos sup cur → r.1 = h ∧ r.2.bcs = []) ?_ ?_ ?_ ?_
  · intro _ _; exact ⟨rfl, rfl⟩
  · intro _ _; exact ⟨rfl, rfl⟩
  · intro cfg _ hs' _ _; exact ⟨remove_suppressed_hub cfg h now ch key o hs', rfl⟩
  · intro cfg _ _ hres
    simp only [Res.update.injEq] at hres
    exact absurd hres.2.1.symm hs

theorem remove_err_aux (rc : RawCfg) (h : Hub) (now ch : Nat) (key : Key) (o : RmOpts) (e : Err)
    (hres : (removeOp rc h now ch key o).2.res = .err e) :
    (removeOp rc h now ch key o).1 = h ∧ (removeOp rc h now ch key o).2.bcs = [] := by
  revert hres
  refine removeOp_elim rc h now ch key o (motive := fun r => r.2.res = .err e → r.1 = h ∧ r.2.bcs = [])
    ?_ ?_ ?_ ?_
  · intro _ _; exact ⟨rfl, rfl⟩
  · intro _ _; exact ⟨rfl, rfl⟩
  · intro _ _ _ _ hres; simp at hres
  · intro _ _ _ hres; simp at hres

/-! ### unsuppressed operations (T4) -/

/-- the stream publication of an unsuppressed stream-backed `add` -/
def pubOf (c : Chan) (now : Nat) (key : Key) (o : PubOpts) : Pub :=
  { pub0Of now key o with offset := c.stream.top + 1 }

/-- stream items after appending `p` and trimming to `size` -/
def itemsAfter (c : Chan) (p : Pub) (size : Nat) : List Pub :=
  (c.stream.items ++ [p]).drop ((c.stream.items ++ [p]).length - size)

theorem streamStep_stream (cfg : Cfg) (c : Chan) (now : Nat) (key : Key) (o : PubOpts)
    (hst : cfg.hasStream = true) :
    streamStep cfg c (pub0Of now key o)
      = (⟨c.stream.top + 1, itemsAfter c (pubOf c now key o) cfg.streamSize, c.stream.epoch⟩,
          pubOf c now key o, ⟨c.stream.top + 1, c.stream.epoch⟩) := by
  simp [streamStep, hst, Stream.add, itemsAfter, pubOf]

theorem streamStep_plain (cfg : Cfg) (c : Chan) (p : Pub) (hst : cfg.hasStream = false) :
    streamStep cfg c p = (c.stream, { p with offset := c.stream.top }, c.stream.pos) := by
  simp [streamStep, hst]

theorem addCore_ok_view (cfg : Cfg) (h1 : Hub) (c : Chan) (now ch : Nat) (key : Key) (o : PubOpts)
    (prev : Option Pub) (hs : (addCore cfg h1 c now ch key o prev).2.2.2.1 = .none) :
    (addCore cfg h1 c now ch key o prev).2.1 = (streamStep cfg c (pub0Of now key o)).2.2 ∧
    (addCore cfg h1 c now ch key o prev).2.2.1 = prev ∧
    (addCore cfg h1 c now ch key o prev).2.2.2.2
      = (if key = [] ∧ cfg.hasStream = false then pub0Of now key o else (streamStep cfg c (pub0Of now key o)).2.1) ∧
    chanView (addCore cfg h1 c now ch key o prev).1 ch
      = ((streamStep cfg c (pub0Of now key o)).1.top, (streamStep cfg c (pub0Of now key o)).1.items,
          if key = [] then c.state else aset c.state key (entryOf cfg c now key o)) := by
  revert hs
  refine addCore_elim cfg h1 c now ch key o prev (motive := fun r => r.2.2.2.1 = .none →
    r.2.1 = (streamStep cfg c (pub0Of now key o)).2.2 ∧ r.2.2.1 = prev ∧
    r.2.2.2.2 = (if key = [] ∧ cfg.hasStream = false then pub0Of now key o
                  else (streamStep cfg c (pub0Of now key o)).2.1) ∧
    chanView r.1 ch = ((streamStep cfg c (pub0Of now key o)).1.top,
      (streamStep cfg c (pub0Of now key o)).1.items,
      if key = [] then c.state else aset c.state key (entryOf cfg c now key o))) ?_ ?_ ?_ ?_ ?_
  · intro _ hs; simp at hs
  · intro _ _ hs; simp at hs
  · intro _ _ hs; simp at hs
  · intro _ _ _ _ _ hs; simp at hs
  · intro _ _ _ _
    unfold addOk
    by_cases hne : key = []
    · subst hne
      have hb : (([] : Key) == []) = true := rfl
      rw [if_pos hb]
      refine ⟨rfl, rfl, ?_, ?_⟩
      · cases cfg.hasStream <;> simp
      · rw [chanView_setChan]; simp
    · have hb : ¬ ((key == []) = true) := by simpa using hne
      rw [if_neg hb]
      refine ⟨rfl, rfl, ?_, ?_⟩
      · simp [hne]
      · rw [if_neg hne]
        split
        · rw [chanView_trackTTL, chanView_setChan]; rfl
        · rw [chanView_setChan]; rfl

theorem chanView_cachePut_ite (b : Prop) [Decidable b] (h : Hub) (now ch i : Nat) (p : Pos) (t : Nat) (ch' : Nat) :
    chanView (if b then cachePut h now ch i p t else h) ch' = chanView h ch' := by
  split <;> rfl

theorem publish_ok_aux (rc : RawCfg) (cfg : Cfg) (h : Hub) (now ch : Nat) (key : Key) (o : PubOpts)
    (pos : Pos) (cur : Option (Nat × Nat)) (hcfg : resolve rc = some cfg)
    (hres : (publish rc h now ch key o).2.res = .update pos .none cur) :
    pos = (streamStep cfg (chanFor cfg h ch) (pub0Of now key o)).2.2 ∧
    (publish rc h now ch key o).2.bcs
      = [⟨ch, if key = [] ∧ cfg.hasStream = false then pub0Of now key o
              else (streamStep cfg (chanFor cfg h ch) (pub0Of now key o)).2.1,
          pos, o.delta, prevOf h ch key o⟩] ∧
    chanView (publish rc h now ch key o).1 ch
      = ((streamStep cfg (chanFor cfg h ch) (pub0Of now key o)).1.top,
          (streamStep cfg (chanFor cfg h ch) (pub0Of now key o)).1.items,
          if key = [] then (chanFor cfg h ch).state
          else aset (chanFor cfg h ch).state key (entryOf cfg (chanFor cfg h ch) now key o)) ∧
    ∀ ch', ch' ≠ ch → chanView (publish rc h now ch key o).1 ch' = chanView h ch' := by
  revert hres
  refine publish_elim rc h now ch key o (motive := fun r => r.2.res = .update pos .none cur →
    pos = (streamStep cfg (chanFor cfg h ch) (pub0Of now key o)).2.2 ∧
    r.2.bcs = [⟨ch, if key = [] ∧ cfg.hasStream = false then pub0Of now key o
              else (streamStep cfg (chanFor cfg h ch) (pub0Of now key o)).2.1,
          pos, o.delta, prevOf h ch key o⟩] ∧
    chanView r.1 ch = ((streamStep cfg (chanFor cfg h ch) (pub0Of now key o)).1.top,
          (streamStep cfg (chanFor cfg h ch) (pub0Of now key o)).1.items,
          if key = [] then (chanFor cfg h ch).state
          else aset (chanFor cfg h ch).state key (entryOf cfg (chanFor cfg h ch) now key o)) ∧
    ∀ ch', ch' ≠ ch → chanView r.1 ch' = chanView h ch') ?_ ?_ ?_ ?_
  · intro _ hres; simp at hres
  · intro _ hres; simp at hres
  · intro _ _ hs _ hres
    simp only [Res.update.injEq] at hres
    exact absurd hres.2.1 hs
  · intro cfg' hcfg' hs hres
    have : cfg' = cfg := by rw [hcfg] at hcfg'; exact (Option.some.inj hcfg').symm
    subst this
    simp only [Res.update.injEq] at hres
    have hpos := hres.1
    have hv := add_view_ne cfg' h now ch key o
    rw [add_eq] at hs hpos hv ⊢
    obtain ⟨h1, h2, h3, h4⟩ := addCore_ok_view _ _ _ _ _ _ _ _ hs
    refine ⟨hpos.symm.trans h1, ?_, ?_, ?_⟩
    · simp only [h2, h3, hpos]
    · rw [chanView_cachePut_ite]; exact h4
    · intro ch' hne; rw [chanView_cachePut_ite]; exact hv ch' hne


theorem remove_ok_view (cfg : Cfg) (h : Hub) (now ch : Nat) (key : Key) (o : RmOpts)
    (hs : (remove cfg h now ch key o).2.2.2 = .none) :
    ∃ c e, aget h.chans ch = some c ∧ aget c.state key = some e ∧ casBlocked c key o.cas = none ∧
      (cfg.hasStream = true →
        (remove cfg h now ch key o).2.1 = ⟨c.stream.top + 1, c.stream.epoch⟩ ∧
        (remove cfg h now ch key o).2.2.1 = some { rmPub0 now key o e with offset := c.stream.top + 1 } ∧
        chanView (remove cfg h now ch key o).1 ch
          = (c.stream.top + 1,
              itemsAfter c { rmPub0 now key o e with offset := c.stream.top + 1 } cfg.streamSize,
              adel c.state key)) ∧
      (cfg.hasStream = false →
        (remove cfg h now ch key o).2.1 = c.stream.pos ∧
        (remove cfg h now ch key o).2.2.1 = some (rmPub0 now key o e) ∧
        chanView (remove cfg h now ch key o).1 ch = (c.stream.top, c.stream.items, adel c.state key)) ∧
      ∀ ch', ch' ≠ ch → chanView (remove cfg h now ch key o).1 ch' = chanView h ch' := by
  revert hs
  refine remove_elim cfg h now ch key o (motive := fun r => r.2.2.2 = .none →
    ∃ c e, aget h.chans ch = some c ∧ aget c.state key = some e ∧ casBlocked c key o.cas = none ∧
      (cfg.hasStream = true →
        r.2.1 = ⟨c.stream.top + 1, c.stream.epoch⟩ ∧
        r.2.2.1 = some { rmPub0 now key o e with offset := c.stream.top + 1 } ∧
        chanView r.1 ch
          = (c.stream.top + 1,
              itemsAfter c { rmPub0 now key o e with offset := c.stream.top + 1 } cfg.streamSize,
              adel c.state key)) ∧
      (cfg.hasStream = false →
        r.2.1 = c.stream.pos ∧ r.2.2.1 = some (rmPub0 now key o e) ∧
        chanView r.1 ch = (c.stream.top, c.stream.items, adel c.state key)) ∧
      ∀ ch', ch' ≠ ch → chanView r.1 ch' = chanView h ch') ?_ ?_ ?_ ?_ ?_
  · intro _ s hs' hs; rcases hs' with rfl | rfl <;> simp at hs
  · intro _ _ _ _ hs; simp at hs
  · intro _ _ _ _ hs; simp at hs
  · intro c e hq hc he hst _
    refine ⟨c, e, hq, he, hc, fun _ => ⟨rfl, rfl, ?_⟩, fun hf => absurd hst (by simp [hf]), ?_⟩
    · rw [chanView_setChan]; rfl
    · intro ch' hne; rw [chanView_setChan_ne _ _ _ _ hne]; rfl
  · intro c e hq hc he hst _
    refine ⟨c, e, hq, he, hc, fun hf => absurd hst (by simp [hf]), fun _ => ⟨rfl, rfl, ?_⟩, ?_⟩
    · rw [chanView_setChan]; rfl
    · intro ch' hne; rw [chanView_setChan_ne _ _ _ _ hne]; rfl

theorem removeOp_ok_aux (rc : RawCfg) (cfg : Cfg) (h : Hub) (now ch : Nat) (key : Key) (o : RmOpts)
    (pos : Pos) (cur : Option (Nat × Nat)) (hcfg : resolve rc = some cfg)
    (hres : (removeOp rc h now ch key o).2.res = .update pos .none cur) :
    ∃ c e, aget h.chans ch = some c ∧ aget c.state key = some e ∧ casBlocked c key o.cas = none ∧
      (cfg.hasStream = true →
        pos = ⟨c.stream.top + 1, c.stream.epoch⟩ ∧
        (removeOp rc h now ch key o).2.bcs
          = [⟨ch, { rmPub0 now key o e with offset := c.stream.top + 1 }, pos, false, none⟩] ∧
        chanView (removeOp rc h now ch key o).1 ch
          = (c.stream.top + 1,
              itemsAfter c { rmPub0 now key o e with offset := c.stream.top + 1 } cfg.streamSize,
              adel c.state key)) ∧
      (cfg.hasStream = false →
        pos = c.stream.pos ∧
        (removeOp rc h now ch key o).2.bcs = [⟨ch, rmPub0 now key o e, pos, false, none⟩] ∧
        chanView (removeOp rc h now ch key o).1 ch = (c.stream.top, c.stream.items, adel c.state key)) ∧
      ∀ ch', ch' ≠ ch → chanView (removeOp rc h now ch key o).1 ch' = chanView h ch' := by
  revert hres
  refine removeOp_elim rc h now ch key o (motive := fun r => r.2.res = .update pos .none cur →
    ∃ c e, aget h.chans ch = some c ∧ aget c.state key = some e ∧ casBlocked c key o.cas = none ∧
      (cfg.hasStream = true →
        pos = ⟨c.stream.top + 1, c.stream.epoch⟩ ∧
        r.2.bcs = [⟨ch, { rmPub0 now key o e with offset := c.stream.top + 1 }, pos, false, none⟩] ∧
        chanView r.1 ch
          = (c.stream.top + 1,
              itemsAfter c { rmPub0 now key o e with offset := c.stream.top + 1 } cfg.streamSize,
              adel c.state key)) ∧
      (cfg.hasStream = false →
        pos = c.stream.pos ∧ r.2.bcs = [⟨ch, rmPub0 now key o e, pos, false, none⟩] ∧
        chanView r.1 ch = (c.stream.top, c.stream.items, adel c.state key)) ∧
      ∀ ch', ch' ≠ ch → chanView r.1 ch' = chanView h ch') ?_ ?_ ?_ ?_
  · intro _ hres; simp at hres
  · intro _ hres; simp at hres
  · intro _ _ hs _ hres
    simp only [Res.update.injEq] at hres
    exact absurd hres.2.1 hs
  · intro cfg' hcfg' hs hres
    have : cfg' = cfg := by rw [hcfg] at hcfg'; exact (Option.some.inj hcfg').symm
    subst this
    simp only [Res.update.injEq] at hres
    have hpos := hres.1
    obtain ⟨c, e, hq, he, hc, h1, h2, h3⟩ := remove_ok_view cfg' h now ch key o hs
    refine ⟨c, e, hq, he, hc, ?_, ?_, ?_⟩
    · intro hst
      obtain ⟨a1, a2, a3⟩ := h1 hst
      refine ⟨hpos.symm.trans a1, ?_, ?_⟩
      · simp only [a2, hpos]
      · rw [chanView_cachePut_ite]; exact a3
    · intro hst
      obtain ⟨a1, a2, a3⟩ := h2 hst
      refine ⟨hpos.symm.trans a1, ?_, ?_⟩
      · simp only [a2, hpos]
      · rw [chanView_cachePut_ite]; exact a3
    · intro ch' hne; rw [chanView_cachePut_ite]; exact h3 ch' hne


theorem entryOf_pub_stream (cfg : Cfg) (c : Chan) (now : Nat) (key : Key) (o : PubOpts)
    (hst : cfg.hasStream = true) : (entryOf cfg c now key o).pub = pubOf c now key o := by
  unfold entryOf; rw [streamStep_stream cfg c now key o hst]

theorem publish_unsuppressed_stream_aux (rc : RawCfg) (cfg : Cfg) (h : Hub) (now ch : Nat) (key : Key)
    (o : PubOpts) (pos : Pos) (cur : Option (Nat × Nat))
    (hcfg : resolve rc = some cfg) (hst : cfg.hasStream = true)
    (hres : (publish rc h now ch key o).2.res = .update pos .none cur) :
    ∃ pub prev,
      pub.offset = (chanFor cfg h ch).stream.top + 1 ∧ pub.key = key ∧ pub.removed = false ∧
      pub.data = o.data ∧
      pos = ⟨(chanFor cfg h ch).stream.top + 1, (chanFor cfg h ch).stream.epoch⟩ ∧
      (publish rc h now ch key o).2.bcs = [⟨ch, pub, pos, o.delta, prev⟩] ∧
      (chanView (publish rc h now ch key o).1 ch).1 = (chanFor cfg h ch).stream.top + 1 ∧
      (chanView (publish rc h now ch key o).1 ch).2.1
        = ((chanFor cfg h ch).stream.items ++ [pub]).drop
            (((chanFor cfg h ch).stream.items ++ [pub]).length - cfg.streamSize) ∧
      (key ≠ [] → ∃ e, aget (chanView (publish rc h now ch key o).1 ch).2.2 key = some e ∧ e.pub = pub) ∧
      (∀ k, k ≠ key → aget (chanView (publish rc h now ch key o).1 ch).2.2 k = aget (chanView h ch).2.2 k) ∧
      ∀ ch', ch' ≠ ch → chanView (publish rc h now ch key o).1 ch' = chanView h ch' := by
  obtain ⟨h1, h2, h3, h4⟩ := publish_ok_aux rc cfg h now ch key o pos cur hcfg hres
  rw [streamStep_stream cfg _ now key o hst] at h1 h2 h3
  have hif : ¬ (key = [] ∧ cfg.hasStream = false) := by simp [hst]
  rw [if_neg hif] at h2
  refine ⟨pubOf (chanFor cfg h ch) now key o, prevOf h ch key o, rfl, rfl, rfl, rfl, h1, h2,
    by rw [h3], by rw [h3]; rfl, ?_, ?_, h4⟩
  · intro hne
    rw [h3]
    simp only [hne, if_false]
    exact ⟨_, aget_aset_same .., entryOf_pub_stream cfg _ now key o hst⟩
  · intro k hk
    rw [h3, ← chanView_chanFor cfg h ch]
    by_cases hne : key = []
    · simp [hne]
    · simp only [hne, if_false]; exact aget_aset_ne _ _ _ _ hk

theorem publish_unsuppressed_plain_aux (rc : RawCfg) (cfg : Cfg) (h : Hub) (now ch : Nat) (key : Key)
    (o : PubOpts) (pos : Pos) (cur : Option (Nat × Nat))
    (hcfg : resolve rc = some cfg) (hst : cfg.hasStream = false)
    (hres : (publish rc h now ch key o).2.res = .update pos .none cur) :
    ∃ pub prev,
      pub.key = key ∧ pub.removed = false ∧ pub.data = o.data ∧
      pos = (chanFor cfg h ch).stream.pos ∧
      (publish rc h now ch key o).2.bcs = [⟨ch, pub, pos, o.delta, prev⟩] ∧
      (chanView (publish rc h now ch key o).1 ch).1 = (chanView h ch).1 ∧
      (chanView (publish rc h now ch key o).1 ch).2.1 = (chanView h ch).2.1 ∧
      (key ≠ [] → ∃ e, aget (chanView (publish rc h now ch key o).1 ch).2.2 key = some e ∧ e.pub = pub) ∧
      (∀ k, k ≠ key → aget (chanView (publish rc h now ch key o).1 ch).2.2 k = aget (chanView h ch).2.2 k) ∧
      ∀ ch', ch' ≠ ch → chanView (publish rc h now ch key o).1 ch' = chanView h ch' := by
  obtain ⟨h1, h2, h3, h4⟩ := publish_ok_aux rc cfg h now ch key o pos cur hcfg hres
  rw [streamStep_plain cfg _ _ hst] at h1 h2 h3
  refine ⟨_, prevOf h ch key o, ?_, ?_, ?_, h1, h2, by rw [h3, ← chanView_chanFor cfg h ch],
    by rw [h3, ← chanView_chanFor cfg h ch], ?_, ?_, h4⟩
  · split <;> rfl
  · split <;> rfl
  · split <;> rfl
  · intro hne
    rw [h3]
    simp only [hne, if_false, false_and]
    refine ⟨_, aget_aset_same .., ?_⟩
    unfold entryOf; rw [streamStep_plain cfg _ _ hst]
  · intro k hk
    rw [h3, ← chanView_chanFor cfg h ch]
    by_cases hne : key = []
    · simp [hne]
    · simp only [hne, if_false]; exact aget_aset_ne _ _ _ _ hk

theorem remove_unsuppressed_stream_aux (rc : RawCfg) (cfg : Cfg) (h : Hub) (now ch : Nat) (key : Key)
    (o : RmOpts) (pos : Pos) (cur : Option (Nat × Nat))
    (hcfg : resolve rc = some cfg) (hst : cfg.hasStream = true)
    (hres : (removeOp rc h now ch key o).2.res = .update pos .none cur) :
    ∃ c pub,
      aget h.chans ch = some c ∧ (aget c.state key).isSome ∧
      pub.offset = c.stream.top + 1 ∧ pub.key = key ∧ pub.removed = true ∧
      pos = ⟨c.stream.top + 1, c.stream.epoch⟩ ∧
      (removeOp rc h now ch key o).2.bcs = [⟨ch, pub, pos, false, none⟩] ∧
      (chanView (removeOp rc h now ch key o).1 ch).1 = c.stream.top + 1 ∧
      (chanView (removeOp rc h now ch key o).1 ch).2.1
        = (c.stream.items ++ [pub]).drop ((c.stream.items ++ [pub]).length - cfg.streamSize) ∧
      aget (chanView (removeOp rc h now ch key o).1 ch).2.2 key = none ∧
      (∀ k, k ≠ key → aget (chanView (removeOp rc h now ch key o).1 ch).2.2 k = aget c.state k) ∧
      ∀ ch', ch' ≠ ch → chanView (removeOp rc h now ch key o).1 ch' = chanView h ch' := by
  obtain ⟨c, e, hq, he, _, h1, _, h3⟩ := removeOp_ok_aux rc cfg h now ch key o pos cur hcfg hres
  obtain ⟨a1, a2, a3⟩ := h1 hst
  refine ⟨c, _, hq, by simp [he], rfl, rfl, rfl, a1, a2, by rw [a3], by rw [a3]; rfl, ?_, ?_, h3⟩
  · rw [a3]; exact aget_adel_same ..
  · intro k hk; rw [a3]; exact aget_adel_ne _ _ _ hk


/-! ### invariants (T6) -/

/-- offsets in a stream are strictly increasing, positive and bounded by `top` -/
def StreamInv (s : Stream) : Prop :=
  s.items.Pairwise (fun a b => a.offset < b.offset) ∧ ∀ p ∈ s.items, 1 ≤ p.offset ∧ p.offset ≤ s.top

/-- channel invariant: state keys are unique, stream offsets strictly increase within `1..top`, every
state entry holds a live publication of its own key with an offset the stream has handed out -/
def ChanInv (c : Chan) : Prop :=
  (akeys c.state).Nodup ∧
  c.stream.items.Pairwise (fun a b => a.offset < b.offset) ∧
  (∀ p ∈ c.stream.items, 1 ≤ p.offset ∧ p.offset ≤ c.stream.top) ∧
  (∀ k e, aget c.state k = some e → e.pub.offset ≤ c.stream.top ∧ e.pub.key = k ∧ e.pub.removed = false)

/-- hub invariant: channel names are unique, every channel satisfies `ChanInv` and has a positive
epoch below `nextEpoch`, epochs are pairwise different, `nextEpoch` is positive -/
def HubInv (h : Hub) : Prop :=
  (akeys h.chans).Nodup ∧
  (∀ ch c, aget h.chans ch = some c → ChanInv c ∧ 1 ≤ c.stream.epoch ∧ c.stream.epoch < h.nextEpoch) ∧
  (∀ ch1 ch2 c1 c2, aget h.chans ch1 = some c1 → aget h.chans ch2 = some c2 →
    c1.stream.epoch = c2.stream.epoch → ch1 = ch2) ∧
  1 ≤ h.nextEpoch

theorem ChanInv.streamInv {c : Chan} (h : ChanInv c) : StreamInv c.stream := ⟨h.2.1, h.2.2.1⟩

theorem streamInv_add (s : Stream) (p : Pub) (n : Nat) (hs : StreamInv s) : StreamInv (s.add p n).1 := by
  unfold Stream.add
  constructor
  · refine List.Pairwise.sublist (List.drop_sublist _ _) ?_
    refine List.pairwise_append.2 ⟨hs.1, List.pairwise_singleton _ _, ?_⟩
    intro a ha b hb
    simp only [List.mem_singleton] at hb
    subst hb
    have := (hs.2 a ha).2
    show a.offset < s.top + 1
    omega
  · intro q hq
    have hq' := List.mem_of_mem_drop hq
    rcases List.mem_append.1 hq' with h | h
    · have := hs.2 q h
      exact ⟨this.1, Nat.le_succ_of_le this.2⟩
    · simp only [List.mem_singleton] at h
      subst h
      exact ⟨Nat.le_add_left 1 s.top, Nat.le_refl _⟩

theorem streamStep_inv (cfg : Cfg) (c : Chan) (p : Pub) (hs : StreamInv c.stream) :
    StreamInv (streamStep cfg c p).1 ∧ c.stream.top ≤ (streamStep cfg c p).1.top ∧
    (streamStep cfg c p).1.epoch = c.stream.epoch ∧
    (streamStep cfg c p).2.1.offset ≤ (streamStep cfg c p).1.top ∧
    (streamStep cfg c p).2.1.key = p.key ∧ (streamStep cfg c p).2.1.removed = p.removed := by
  unfold streamStep
  split
  · exact ⟨streamInv_add _ _ _ hs, Nat.le_succ _, rfl, Nat.le_refl _, rfl, rfl⟩
  · exact ⟨hs, Nat.le_refl _, rfl, Nat.le_refl _, rfl, rfl⟩

theorem chanInv_newChan (h : Hub) (b : Bool) : ChanInv (h.newChan b) := by
  refine ⟨List.nodup_nil, List.Pairwise.nil, ?_, ?_⟩
  · intro p hp; simp [Hub.newChan] at hp
  · intro k e he; simp [Hub.newChan] at he

theorem chanInv_refresh {c : Chan} (hc : ChanInv c) (key : Key) (e : Entry) (x : Nat)
    (he : aget c.state key = some e) :
    ChanInv { c with state := aset c.state key { e with expireAt := x } } := by
  refine ⟨akeys_aset_nodup _ _ _ hc.1, hc.2.1, hc.2.2.1, ?_⟩
  intro k e' he'
  simp only [aget_aset] at he'
  split at he'
  · rename_i hk
    subst hk
    have := hc.2.2.2 k e he
    simp only [Option.some.injEq] at he'
    subst he'
    exact this
  · exact hc.2.2.2 k e' he'

theorem chanInv_streamOnly {c : Chan} (hc : ChanInv c) (cfg : Cfg) (p : Pub) :
    ChanInv { c with stream := (streamStep cfg c p).1 } := by
  obtain ⟨h1, h2, _, _, _, _⟩ := streamStep_inv cfg c p hc.streamInv
  refine ⟨hc.1, h1.1, h1.2, ?_⟩
  intro k e he
  have := hc.2.2.2 k e he
  exact ⟨Nat.le_trans this.1 h2, this.2⟩

theorem chanInv_put {c : Chan} (hc : ChanInv c) (cfg : Cfg) (now : Nat) (key : Key) (o : PubOpts) :
    ChanInv (chanPut cfg c now key o) := by
  obtain ⟨h1, h2, _, h4, h5, h6⟩ := streamStep_inv cfg c (pub0Of now key o) hc.streamInv
  refine ⟨akeys_aset_nodup _ _ _ hc.1, h1.1, h1.2, ?_⟩
  intro k e he
  simp only [chanPut, aget_aset] at he
  split at he
  · rename_i hk
    subst hk
    simp only [Option.some.injEq] at he
    subst he
    exact ⟨h4, h5, h6⟩
  · have := hc.2.2.2 k e he
    exact ⟨Nat.le_trans this.1 h2, this.2⟩

theorem chanInv_rm {c : Chan} (hc : ChanInv c) (key : Key) : ChanInv (rmChan c key) := by
  refine ⟨akeys_adel_nodup _ _ hc.1, hc.2.1, hc.2.2.1, ?_⟩
  intro k e he
  simp only [rmChan, aget_adel] at he
  split at he
  · simp at he
  · exact hc.2.2.2 k e he

theorem chanInv_rm_add {c : Chan} (hc : ChanInv c) (key : Key) (p : Pub) (n : Nat) :
    ChanInv { rmChan c key with stream := (c.stream.add p n).1 } := by
  have h1 := streamInv_add c.stream p n hc.streamInv
  refine ⟨akeys_adel_nodup _ _ hc.1, h1.1, h1.2, ?_⟩
  intro k e he
  simp only [rmChan, aget_adel] at he
  split at he
  · simp at he
  · have := hc.2.2.2 k e he
    exact ⟨Nat.le_succ_of_le this.1, this.2⟩

theorem hubInv_congr {h h' : Hub} (hc : h'.chans = h.chans) (hn : h'.nextEpoch = h.nextEpoch)
    (hi : HubInv h) : HubInv h' := by
  unfold HubInv; rw [hc, hn]; exact hi

theorem hubInv_update {h h' : Hub} {ch : Nat} {c c' : Chan} (hi : HubInv h)
    (hq : aget h.chans ch = some c) (hc' : ChanInv c') (he : c'.stream.epoch = c.stream.epoch)
    (hc : h'.chans = aset h.chans ch c') (hn : h'.nextEpoch = h.nextEpoch) : HubInv h' := by
  obtain ⟨i1, i2, i3, i4⟩ := hi
  unfold HubInv; rw [hc, hn]
  refine ⟨akeys_aset_nodup _ _ _ i1, ?_, ?_, i4⟩
  · intro ch2 c2 h2
    rw [aget_aset] at h2
    split at h2
    · simp only [Option.some.injEq] at h2
      subst h2
      have := i2 ch c hq
      exact ⟨hc', he ▸ this.2.1, he ▸ this.2.2⟩
    · exact i2 ch2 c2 h2
  · intro ch1 ch2 c1 c2 h1 h2 hee
    rw [aget_aset] at h1 h2
    split at h1 <;> split at h2
    · rename_i a b; rw [a, b]
    · rename_i a b
      simp only [Option.some.injEq] at h1
      subst h1
      rw [a]; exact i3 ch ch2 c c2 hq h2 (he ▸ hee)
    · rename_i a b
      simp only [Option.some.injEq] at h2
      subst h2
      rw [b]; exact i3 ch1 ch c1 c h1 hq (hee.trans he)
    · exact i3 ch1 ch2 c1 c2 h1 h2 hee

theorem hubInv_create {h h' : Hub} {ch : Nat} {c' : Chan} (hi : HubInv h)
    (hc' : ChanInv c') (he : c'.stream.epoch = h.nextEpoch)
    (hc : h'.chans = aset h.chans ch c') (hn : h'.nextEpoch = h.nextEpoch + 1) : HubInv h' := by
  obtain ⟨i1, i2, i3, i4⟩ := hi
  unfold HubInv; rw [hc, hn]
  refine ⟨akeys_aset_nodup _ _ _ i1, ?_, ?_, Nat.le_succ_of_le i4⟩
  · intro ch2 c2 h2
    rw [aget_aset] at h2
    split at h2
    · simp only [Option.some.injEq] at h2
      subst h2
      exact ⟨hc', he ▸ i4, he ▸ Nat.lt_succ_self _⟩
    · have := i2 ch2 c2 h2
      exact ⟨this.1, this.2.1, Nat.lt_succ_of_lt this.2.2⟩
  · intro ch1 ch2 c1 c2 h1 h2 hee
    rw [aget_aset] at h1 h2
    split at h1 <;> split at h2
    · rename_i a b; rw [a, b]
    · rename_i a b
      simp only [Option.some.injEq] at h1
      subst h1
      have := (i2 ch2 c2 h2).2.2
      omega
    · rename_i a b
      simp only [Option.some.injEq] at h2
      subst h2
      have := (i2 ch1 c1 h1).2.2
      omega
    · exact i3 ch1 ch2 c1 c2 h1 h2 hee

theorem hubInv_delete {h h' : Hub} {ch : Nat} (hi : HubInv h)
    (hc : h'.chans = adel h.chans ch) (hn : h'.nextEpoch = h.nextEpoch) : HubInv h' := by
  obtain ⟨i1, i2, i3, i4⟩ := hi
  unfold HubInv; rw [hc, hn]
  refine ⟨akeys_adel_nodup _ _ i1, ?_, ?_, i4⟩
  · intro ch2 c2 h2
    rw [aget_adel] at h2
    split at h2
    · simp at h2
    · exact i2 ch2 c2 h2
  · intro ch1 ch2 c1 c2 h1 h2 hee
    rw [aget_adel] at h1 h2
    split at h1 <;> split at h2
    · simp at h1
    · simp at h1
    · simp at h2
    · exact i3 ch1 ch2 c1 c2 h1 h2 hee

theorem hubInv_init' : HubInv Hub.init := by
  refine ⟨List.nodup_nil, ?_, ?_, Nat.le_refl _⟩
  · intro ch c h; simp [Hub.init] at h
  · intro ch1 ch2 c1 c2 h; simp [Hub.init] at h

theorem hubInv_createPos {h : Hub} (hi : HubInv h) (ch : Nat) : HubInv (h.createPos ch).1 :=
  hubInv_create hi (chanInv_newChan h false) rfl rfl rfl

theorem hubFor_inv (cfg : Cfg) (h : Hub) (ch : Nat) (hi : HubInv h) : HubInv (hubFor cfg h ch) := by
  unfold hubFor
  split
  · rename_i c hq
    split
    · exact hubInv_update (c' := { c with ordered := true }) hi hq (hi.2.1 ch c hq).1 rfl rfl rfl
    · exact hi
  · exact hubInv_create hi (chanInv_newChan h cfg.ordered) rfl rfl rfl

theorem addCore_inv (cfg : Cfg) (h1 : Hub) (c : Chan) (now ch : Nat) (key : Key) (o : PubOpts)
    (prev : Option Pub) (hi : HubInv h1) (hq : aget h1.chans ch = some c) :
    HubInv (addCore cfg h1 c now ch key o prev).1 := by
  have hc := (hi.2.1 ch c hq).1
  refine addCore_elim cfg h1 c now ch key o prev (motive := fun r => HubInv r.1) ?_ ?_ ?_ ?_ ?_
  · intro _; exact hi
  · intro _ _
    show HubInv (if _ then _ else _)
    split
    · unfold refreshHub
      split
      · rename_i e he
        exact hubInv_update hi hq (chanInv_refresh hc key e _ he) rfl rfl rfl
      · exact hi
    · exact hi
  · intro _ _; exact hi
  · intro _ _ _ _ _; exact hi
  · intro _ _ _
    unfold addOk
    split
    · exact hubInv_update hi hq (chanInv_streamOnly hc cfg _) (streamStep_inv cfg c _ hc.streamInv).2.2.1 rfl rfl
    · show HubInv (if _ then _ else _)
      split
      · exact hubInv_update hi hq (chanInv_put hc cfg now key o) (streamStep_inv cfg c _ hc.streamInv).2.2.1 rfl rfl
      · exact hubInv_update hi hq (chanInv_put hc cfg now key o) (streamStep_inv cfg c _ hc.streamInv).2.2.1 rfl rfl

theorem add_inv (cfg : Cfg) (h : Hub) (now ch : Nat) (key : Key) (o : PubOpts) (hi : HubInv h) :
    HubInv (add cfg h now ch key o).1 := by
  rw [add_eq]
  exact addCore_inv _ _ _ _ _ _ _ _ (hubFor_inv cfg h ch hi) (hubFor_get cfg h ch)

theorem publish_inv (rc : RawCfg) (h : Hub) (now ch : Nat) (key : Key) (o : PubOpts) (hi : HubInv h) :
    HubInv (publish rc h now ch key o).1 := by
  refine publish_elim rc h now ch key o (motive := fun r => HubInv r.1) ?_ ?_ ?_ ?_
  · intro _; exact hi
  · intro _; exact hi
  · intro cfg _ _ _; exact add_inv cfg h now ch key o hi
  · intro cfg _ _
    show HubInv (if _ then _ else _)
    split
    · exact hubInv_congr rfl rfl (add_inv cfg h now ch key o hi)
    · exact add_inv cfg h now ch key o hi

theorem remove_inv (cfg : Cfg) (h : Hub) (now ch : Nat) (key : Key) (o : RmOpts) (hi : HubInv h) :
    HubInv (remove cfg h now ch key o).1 := by
  refine remove_elim cfg h now ch key o (motive := fun r => HubInv r.1) ?_ ?_ ?_ ?_ ?_
  · intro _ _ _; exact hi
  · intro _ _ _ _; exact hi
  · intro _ _ _ _; exact hi
  · intro c e hq _ _ _
    exact hubInv_update hi hq (chanInv_rm_add (hi.2.1 ch c hq).1 key _ _) rfl rfl rfl
  · intro c e hq _ _ _
    exact hubInv_update hi hq (chanInv_rm (hi.2.1 ch c hq).1 key) rfl rfl rfl

theorem removeOp_inv (rc : RawCfg) (h : Hub) (now ch : Nat) (key : Key) (o : RmOpts) (hi : HubInv h) :
    HubInv (removeOp rc h now ch key o).1 := by
  refine removeOp_elim rc h now ch key o (motive := fun r => HubInv r.1) ?_ ?_ ?_ ?_
  · intro _; exact hi
  · intro _; exact hi
  · intro cfg _ _ _; exact remove_inv cfg h now ch key o hi
  · intro cfg _ _
    show HubInv (if _ then _ else _)
    split
    · exact hubInv_congr rfl rfl (remove_inv cfg h now ch key o hi)
    · exact remove_inv cfg h now ch key o hi

theorem clear_inv (h : Hub) (ch : Nat) (hi : HubInv h) : HubInv (clear h ch) := by
  unfold clear
  split
  · exact hubInv_congr rfl rfl hi
  · exact hubInv_delete hi rfl rfl

theorem getState_inv (rc : RawCfg) (h : Hub) (ch : Nat) (o : StateOpts) (hi : HubInv h) :
    HubInv (getState rc h ch o).1 := by
  unfold getState
  split
  · exact hi
  · split
    · have := hubInv_createPos hi ch
      simp only []
      repeat' split
      all_goals exact this
    · simp only []
      repeat' split
      all_goals exact hi

theorem getStream_inv (h : Hub) (ch : Nat) (o : StreamOpts) (hi : HubInv h) :
    HubInv (getStream h ch o).1 := by
  unfold getStream
  split
  · exact hubInv_createPos hi ch
  · simp only []
    split
    · split <;> exact hi
    · split
      · exact hi
      · split <;> exact hi


/-- phase 1 of the key sweeper never touches channels or epochs -/
theorem phase1Loop_chans (cfg : Nat → RawCfg) (now : Nat) :
    ∀ (fuel : Nat) (h : Hub) (evs : List ExpEvent) (r : Hub × Nat × List ExpEvent),
      phase1Loop cfg now fuel h evs = some r → r.1.chans = h.chans ∧ r.1.nextEpoch = h.nextEpoch := by
  intro fuel
  induction fuel with
  | zero => intro h evs r hr; simp [phase1Loop] at hr
  | succ n ih =>
    intro h evs r hr
    unfold phase1Loop at hr
    simp only [] at hr
    repeat' split at hr
    all_goals first
      | (simp only [Option.some.injEq] at hr; subst hr; exact ⟨rfl, rfl⟩)
      | (have hh := ih _ _ _ hr; exact hh)

theorem phase1_chans (cfg : Nat → RawCfg) (h : Hub) (now : Nat) (r : Hub × List ExpEvent)
    (hr : phase1 cfg h now = some r) : r.1.chans = h.chans ∧ r.1.nextEpoch = h.nextEpoch := by
  unfold phase1 at hr
  split at hr
  · simp only [Option.some.injEq] at hr; subst hr; exact ⟨rfl, rfl⟩
  · split at hr
    · simp at hr
    · rename_i h1 next evs hl
      have := phase1Loop_chans cfg now _ _ _ _ hl
      split at hr <;> (simp only [Option.some.injEq] at hr; subst hr; exact this)

theorem phase2_inv (h : Hub) (now1 now2 : Nat) (ev : ExpEvent) (hi : HubInv h) :
    HubInv (phase2 h now1 now2 ev).1 := by
  unfold phase2
  split
  · exact hi
  · rename_i c hq
    split
    · exact hi
    · split
      · simp only []
        split
        · exact hubInv_update hi hq (chanInv_rm_add (hi.2.1 _ c hq).1 ev.key _ _) rfl rfl rfl
        · exact hubInv_update hi hq (chanInv_rm (hi.2.1 _ c hq).1 ev.key) rfl rfl rfl
      · split
        · exact hubInv_congr rfl rfl hi
        · exact hi

theorem phase2All_inv (now1 now2 : Nat) : ∀ (evs : List ExpEvent) (h : Hub), HubInv h →
    HubInv (phase2All now1 now2 h evs).1 := by
  intro evs
  induction evs with
  | nil => intro h hi; exact hi
  | cons ev evs ih =>
    intro h hi
    unfold phase2All
    exact ih _ (phase2_inv h now1 now2 ev hi)

theorem sweep_inv (cfg : Nat → RawCfg) (h : Hub) (now : Nat) (hi : HubInv h) :
    HubInv (sweep cfg h now).1 := by
  unfold sweep
  split
  · exact hi
  · rename_i h1 evs hp
    have := phase1_chans cfg h now _ hp
    exact phase2All_inv now now evs h1 (hubInv_congr this.1 this.2 hi)

theorem step_inv (cfg : Nat → RawCfg) (h : Hub) (now : Nat) (op : MOp) (hi : HubInv h) :
    HubInv (step cfg h now op).1 := by
  cases op with
  | publish ch key o => exact publish_inv _ h now ch key o hi
  | remove ch key o => exact removeOp_inv _ h now ch key o hi
  | clear ch => exact clear_inv h ch hi
  | readState ch o => exact getState_inv _ h ch o hi
  | readStream ch o => exact getStream_inv h ch o hi
  | sweep => exact sweep_inv cfg h now hi

theorem run_inv (cfg : Nat → RawCfg) : ∀ (ops : List (Nat × MOp)) (h : Hub), HubInv h →
    HubInv (run cfg h ops).1 := by
  intro ops
  induction ops with
  | nil => intro h hi; exact hi
  | cons x rest ih =>
    intro h hi
    obtain ⟨now, op⟩ := x
    unfold run
    exact ih _ (step_inv cfg h now op hi)


end CentrifugeVerif.MapHub
