import CentrifugeVerif.Model.CRC16
import CentrifugeVerif.Spec.RedisSlot
/-!
Kernel-checked exhaustive facts about the CRC16 table of `redis_cluster_slot.go` (regenerated into
`Gen/Crc16Tab.lean`) against the bitwise CRC-16/XMODEM definition of `Spec/RedisSlot.lean`.
Kept in a module of its own: the two `decide +kernel` proofs enumerate all 65536 register values
(several minutes of kernel time) and are rebuilt only when the table or the specification change.
-/
namespace CentrifugeVerif.CRC16
open CentrifugeVerif.Spec.RedisSlot
open CentrifugeVerif.Gen.Crc16Tab

def allBelow : Nat → (Nat → Bool) → Bool
  | 0, _ => true
  | n + 1, f => f n && allBelow n f

theorem allBelow_spec : ∀ (n : Nat) (f : Nat → Bool), allBelow n f = true → ∀ x, x < n → f x = true
  | 0, _, _, x, hx => by omega
  | n + 1, f, h, x, hx => by
    simp only [allBelow, Bool.and_eq_true] at h
    by_cases hxn : x = n
    · subst hxn; exact h.1
    · exact allBelow_spec n f h.2 x (by omega)

/-- row `h` of the table: for every low byte `l`, eight shifts of the register `(h<<8) ^ l`
give `t ^ (l<<8)` -/
def checkRow (h t : Nat) : Bool :=
  allBelow 256 (fun l => crcStep8 ((h <<< 8) ^^^ l) == (t ^^^ (l <<< 8)))

def checkRows : List Nat → Nat → Bool
  | [], _ => true
  | t :: ts, h => checkRow h t && checkRows ts (h + 1)

set_option maxRecDepth 100000 in
/-- all 256 table entries × all 256 low bytes (= all 65536 register values), by kernel evaluation -/
theorem rows_ok : checkRows crc16tab 0 = true := by decide +kernel

theorem tab_length : crc16tab.length = 256 := by decide +kernel

/-- byte-splitting identities of a 16-bit register value -/
def idChk (c : Nat) : Bool :=
  (c == ((((c >>> 8) &&& 0xFF) <<< 8) ^^^ (c &&& 0xFF))) && (((c &&& 0xFF) <<< 8) == ((c <<< 8) &&& 0xFFFF))
    && (((c >>> 8) &&& 0xFF) < 256) && ((c &&& 0xFF) < 256)

set_option maxRecDepth 100000 in
theorem ids_ok : allBelow 65536 idChk = true := by decide +kernel

end CentrifugeVerif.CRC16
