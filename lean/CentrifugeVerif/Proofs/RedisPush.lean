import CentrifugeVerif.Model.RedisPush
/-!
Helper lemmas for C33 (`Props/C33.lean`): when the model of `extractPushDataPre` /
`parseDeltaPushPre` yields the `panic` outcome, totality of the current (guarded) functions, and the lemmas behind
the build → extract round trip.
-/
namespace CentrifugeVerif.RedisPush

theorem sliceTo_panic_iff (s : Bytes) (b : Int) :
    sliceTo s b = .panic ↔ (b < 0 ∨ (s.length : Int) < b) := by
  unfold sliceTo
  split <;> simp <;> omega

theorem sliceFrom_panic_iff (s : Bytes) (a : Int) :
    sliceFrom s a = .panic ↔ (a < 0 ∨ (s.length : Int) < a) := by
  unfold sliceFrom
  split <;> simp <;> omega

theorem sliceTo_ok (s : Bytes) (b : Int) (h0 : 0 ≤ b) (h1 : b ≤ (s.length : Int)) :
    sliceTo s b = .val (s.take b.toNat) := by
  unfold sliceTo; simp [h0, h1]

theorem sliceFrom_ok (s : Bytes) (a : Int) (h0 : 0 ≤ a) (h1 : a ≤ (s.length : Int)) :
    sliceFrom s a = .val (s.drop a.toNat) := by
  unfold sliceFrom; simp [h0, h1]

theorem deltaTailPre_panic_iff (h : DeltaHead) (prev input : Bytes) :
    deltaTailPre h prev input = .panic ↔
      ∃ lS r l, splitColon input = some (lS, r) ∧ atoi lS = some l ∧ l < 0 := by
  unfold deltaTailPre
  split
  · simp_all
  · rename_i lS r hs
    split
    · simp_all
    · rename_i l hl
      split
      · rename_i hlt
        constructor
        · intro hc; cases hc
        · rintro ⟨lS', r', l', h1, h2, h3⟩
          simp_all
          omega
      · rename_i hge
        by_cases hneg : l < 0
        · have : sliceTo r l = .panic := (sliceTo_panic_iff _ _).2 (Or.inl hneg)
          rw [this]
          constructor
          · intro _; exact ⟨lS, r, l, hs, hl, hneg⟩
          · intro _; rfl
        · have : sliceTo r l = .val (r.take l.toNat) := sliceTo_ok _ _ (by omega) (by omega)
          rw [this]
          constructor
          · intro hc; cases hc
          · rintro ⟨lS', r', l', h1, h2, h3⟩
            rw [hs] at h1; cases h1
            rw [hl] at h2; cases h2
            exact absurd h3 hneg

theorem deltaBodyPre_panic_iff (h : DeltaHead) :
    deltaBodyPre h = .panic ↔ (bodyPanicClass h).isSome = true := by
  unfold deltaBodyPre bodyPanicClass
  by_cases hneg : h.prevLen < 0
  · have h1 : ¬ ((h.rest.length : Int) < h.prevLen) := by omega
    have h2 : sliceTo h.rest h.prevLen = .panic := (sliceTo_panic_iff _ _).2 (Or.inl hneg)
    simp [hneg, h1, h2, Outcome.bind]
  · by_cases heq : h.prevLen = (h.rest.length : Int)
    · have h1 : ¬ ((h.rest.length : Int) < h.prevLen) := by omega
      have h2 : sliceTo h.rest h.prevLen = .val (h.rest.take h.prevLen.toNat) :=
        sliceTo_ok _ _ (by omega) (by omega)
      have h3 : sliceFrom h.rest (h.prevLen + 1) = .panic :=
        (sliceFrom_panic_iff _ _).2 (Or.inr (by omega))
      rw [if_neg h1, h2]
      simp only [Outcome.bind]
      rw [h3, if_neg hneg, if_pos heq]
      simp
    · by_cases hlt : (h.rest.length : Int) < h.prevLen
      · simp [hneg, heq, hlt]
      · have h2 : sliceTo h.rest h.prevLen = .val (h.rest.take h.prevLen.toNat) :=
          sliceTo_ok _ _ (by omega) (by omega)
        have h3 : sliceFrom h.rest (h.prevLen + 1) = .val (h.rest.drop (h.prevLen + 1).toNat) :=
          sliceFrom_ok _ _ (by omega) (by omega)
        have h4 : (h.prevLen + 1).toNat = h.prevLen.toNat + 1 := by omega
        simp only [hneg, heq, hlt, h2, h3, Outcome.bind, if_false, h4]
        rw [deltaTailPre_panic_iff]
        constructor
        · rintro ⟨lS, r, l, e1, e2, e3⟩
          simp [e1, e2, e3]
        · intro hc
          split at hc
          · simp at hc
          · rename_i lS r e1
            split at hc
            · simp at hc
            · rename_i l e2
              refine ⟨lS, r, l, e1, e2, ?_⟩
              by_cases hl : l < 0
              · exact hl
              · simp [hl] at hc

theorem parseDeltaPushPre_panic_iff (input : Bytes) :
    parseDeltaPushPre input = .panic ↔ (deltaPanicClass input).isSome = true := by
  unfold parseDeltaPushPre deltaPanicClass
  split
  · simp
  · exact deltaBodyPre_panic_iff _

theorem indexSep_le : ∀ (s : Bytes) (p : Nat), indexSep s = some p → p + 2 ≤ s.length
  | [], p, h => by simp [indexSep] at h
  | [_], p, h => by simp [indexSep] at h
  | a :: b :: rest, p, h => by
    unfold indexSep at h
    simp only at h
    split at h
    · cases h; simp
    · cases hi : indexSep (b :: rest) with
      | none => simp [hi] at h
      | some q =>
        simp [hi] at h
        have := indexSep_le (b :: rest) q hi
        simp at this ⊢
        omega

theorem extractJoinLeave_ne_panic (data content : Bytes) (t : Nat) :
    extractJoinLeave data content t ≠ .panic := by
  unfold extractJoinLeave
  split <;> simp

theorem extractPositionedPre_panic_iff (data content : Bytes) :
    extractPositionedPre data content = .panic ↔
      (indexSep content = some 1 ∨ indexSep content = some 2) := by
  unfold extractPositionedPre
  split
  · rename_i h; simp [h]
  · rename_i h; simp [h]
  · rename_i pos hne hpos
    have hle := indexSep_le _ _ hpos
    have hlen : (content.take pos).length = pos := by simp; omega
    by_cases h3 : pos < 3
    · have : sliceFrom (content.take pos) 3 = .panic :=
        (sliceFrom_panic_iff _ _).2 (Or.inr (by rw [hlen]; omega))
      simp only [this, Outcome.bind, hpos, true_iff]
      have : pos ≠ 0 := hne
      have : pos = 1 ∨ pos = 2 := by omega
      rcases this with h | h <;> simp [h]
    · have : sliceFrom (content.take pos) 3 = .val ((content.take pos).drop 3) :=
        sliceFrom_ok _ _ (by omega) (by rw [hlen]; omega)
      simp only [this, Outcome.bind, hpos]
      constructor
      · intro hc; split at hc <;> cases hc
      · intro hc
        rcases hc with hc | hc <;> (injection hc with hc; omega)

theorem extractDeltaPre_panic_iff (content : Bytes) :
    extractDeltaPre content = .panic ↔ parseDeltaPushPre content = .panic := by
  unfold extractDeltaPre
  cases h : parseDeltaPushPre content with
  | panic => simp [Outcome.bind]
  | val r => cases r <;> simp [Outcome.bind]

theorem extractPushDataPre_panic_iff (data : Bytes) :
    extractPushDataPre data = .panic ↔ (panicClass data).isSome = true := by
  unfold extractPushDataPre panicClass
  by_cases hp : data.take 2 ≠ [95, 95]
  · simp [hp]
  · rw [if_neg hp, if_neg hp]
    cases hc : data.drop 2 with
    | nil => simp
    | cons ct tl =>
      simp only
      by_cases h1 : ct = 106
      · simp [h1, extractJoinLeave_ne_panic]
      · by_cases h2 : ct = 108
        · simp [h2, extractJoinLeave_ne_panic]
        · by_cases h3 : ct = 112
          · subst h3
            simp only [if_neg h1, if_neg h2, if_true]
            rw [extractPositionedPre_panic_iff]
            constructor
            · rintro (h | h) <;> simp [h]
            · intro h
              split at h <;> simp_all
          · by_cases h4 : ct = 100
            · subst h4
              simp only [if_neg h1, if_neg h2, if_neg h3, if_true]
              rw [extractDeltaPre_panic_iff, parseDeltaPushPre_panic_iff]
            · simp [h1, h2, h3, h4]

/-! ### the current (guarded) code is total and agrees with the pre-fix code wherever that did not panic -/

theorem deltaTail_ne_panic (h : DeltaHead) (prev input : Bytes) :
    deltaTail h prev input ≠ .panic := by
  unfold deltaTail
  split
  · simp
  · split
    · simp
    · rename_i l _
      split
      · simp
      · rename_i hg
        have : sliceTo ‹Bytes› l = .val (List.take l.toNat ‹Bytes›) := sliceTo_ok _ _ (by omega) (by omega)
        simp [this, Outcome.bind]

theorem deltaBody_ne_panic (h : DeltaHead) : deltaBody h ≠ .panic := by
  unfold deltaBody
  split
  · simp
  · rename_i hg
    have h2 : sliceTo h.rest h.prevLen = .val (h.rest.take h.prevLen.toNat) :=
      sliceTo_ok _ _ (by omega) (by omega)
    have h3 : sliceFrom h.rest (h.prevLen + 1) = .val (h.rest.drop (h.prevLen + 1).toNat) :=
      sliceFrom_ok _ _ (by omega) (by omega)
    simp only [h2, h3, Outcome.bind]
    exact deltaTail_ne_panic _ _ _

theorem parseDeltaPush_ne_panic (input : Bytes) : parseDeltaPush input ≠ .panic := by
  unfold parseDeltaPush
  split
  · simp
  · exact deltaBody_ne_panic _

theorem extractPositioned_ne_panic (data content : Bytes) :
    extractPositioned data content ≠ .panic := by
  unfold extractPositioned
  split
  · simp
  · simp
  · simp only
    split
    · simp
    · rename_i hl
      have : sliceFrom (List.take ‹Nat› content) 3 = .val ((List.take ‹Nat› content).drop 3) :=
        sliceFrom_ok _ _ (by omega) (by omega)
      simp only [this, Outcome.bind]
      split <;> simp

theorem extractPushData_ne_panic (data : Bytes) : extractPushData data ≠ .panic := by
  unfold extractPushData
  split
  · simp
  · simp only
    split
    · simp
    · split
      · exact extractJoinLeave_ne_panic _ _ _
      · split
        · exact extractJoinLeave_ne_panic _ _ _
        · split
          · exact extractPositioned_ne_panic _ _
          · split
            · unfold extractDelta
              have := parseDeltaPush_ne_panic (List.drop 2 data)
              cases h : parseDeltaPush (List.drop 2 data) with
              | panic => exact absurd h this
              | val r => cases r <;> simp [Outcome.bind]
            · simp

theorem deltaTail_agrees (h : DeltaHead) (prev input : Bytes) (r) :
    deltaTailPre h prev input = .val r → deltaTail h prev input = .val r := by
  unfold deltaTailPre deltaTail
  split
  · exact id
  · split
    · exact id
    · rename_i l _
      by_cases hneg : l < 0
      · have hp : sliceTo ‹Bytes› l = .panic := (sliceTo_panic_iff _ _).2 (Or.inl hneg)
        have : ¬ ((List.length ‹Bytes› : Int) < l) := by omega
        simp [this, hp, Outcome.bind]
      · by_cases hlt : (List.length ‹Bytes› : Int) < l
        · simp [hlt]
        · simp [hneg, hlt]

theorem deltaBody_agrees (h : DeltaHead) (r) :
    deltaBodyPre h = .val r → deltaBody h = .val r := by
  unfold deltaBodyPre deltaBody
  by_cases hneg : h.prevLen < 0
  · have hp : sliceTo h.rest h.prevLen = .panic := (sliceTo_panic_iff _ _).2 (Or.inl hneg)
    have : ¬ ((h.rest.length : Int) < h.prevLen) := by omega
    simp [this, hp, Outcome.bind]
  · by_cases hlt : (h.rest.length : Int) < h.prevLen
    · have : h.prevLen < 0 ∨ (h.rest.length : Int) ≤ h.prevLen := Or.inr (by omega)
      simp [hlt, this]
    · by_cases heq : h.prevLen = (h.rest.length : Int)
      · have h2 : sliceTo h.rest h.prevLen = .val (h.rest.take h.prevLen.toNat) :=
          sliceTo_ok _ _ (by omega) (by omega)
        have h3 : sliceFrom h.rest (h.prevLen + 1) = .panic :=
          (sliceFrom_panic_iff _ _).2 (Or.inr (by omega))
        rw [if_neg hlt, h2]
        simp only [Outcome.bind]
        rw [h3]
        intro hc; cases hc
      · have : ¬ (h.prevLen < 0 ∨ (h.rest.length : Int) ≤ h.prevLen) := by omega
        rw [if_neg hlt, if_neg this]
        cases sliceTo h.rest h.prevLen with
        | panic => simp [Outcome.bind]
        | val a =>
          cases sliceFrom h.rest (h.prevLen + 1) with
          | panic => simp [Outcome.bind]
          | val b => simp only [Outcome.bind]; exact deltaTail_agrees _ _ _ _

theorem parseDeltaPush_agrees (input : Bytes) (r) :
    parseDeltaPushPre input = .val r → parseDeltaPush input = .val r := by
  unfold parseDeltaPushPre parseDeltaPush
  split
  · exact id
  · exact deltaBody_agrees _ _

theorem extractPositioned_agrees (data content : Bytes) (r) :
    extractPositionedPre data content = .val r → extractPositioned data content = .val r := by
  unfold extractPositionedPre extractPositioned
  split
  · exact id
  · exact id
  · rename_i pos hne hpos
    simp only
    have hle := indexSep_le _ _ hpos
    have hlen : (content.take pos).length = pos := by simp; omega
    by_cases h3 : pos < 3
    · have : sliceFrom (content.take pos) 3 = .panic :=
        (sliceFrom_panic_iff _ _).2 (Or.inr (by rw [hlen]; omega))
      simp [this, Outcome.bind]
    · have : ¬ ((content.take pos).length < 3) := by rw [hlen]; exact h3
      rw [if_neg this]
      exact id

theorem extractPushData_agrees (data : Bytes) (r) :
    extractPushDataPre data = .val r → extractPushData data = .val r := by
  unfold extractPushDataPre extractPushData
  split
  · exact id
  · simp only
    split
    · exact id
    · split
      · exact id
      · split
        · exact id
        · split
          · exact extractPositioned_agrees _ _ _
          · split
            · unfold extractDeltaPre extractDelta
              cases h : parseDeltaPushPre (List.drop 2 data) with
              | panic => simp [Outcome.bind]
              | val q =>
                rw [parseDeltaPush_agrees _ _ h]
                exact id
            · exact id

/-! ### build → extract round trip -/

theorem indexSep_append : ∀ (h p : Bytes), (∀ b ∈ h, b ≠ 95) →
    indexSep (h ++ 95 :: 95 :: p) = some h.length
  | [], p, _ => by simp [indexSep]
  | a :: t, p, hn => by
    have ha : a ≠ 95 := hn a (by simp)
    have ih := indexSep_append t p (fun b hb => hn b (by simp [hb]))
    cases t with
    | nil => simp [indexSep, ha] at ih ⊢
    | cons b t' =>
      rw [List.cons_append]
      unfold indexSep
      simp only [List.cons_append, ha, false_and, if_false]
      rw [List.cons_append] at ih
      rw [ih]; simp

theorem indexByte_append (c : UInt8) : ∀ (h p : Bytes), (∀ b ∈ h, b ≠ c) →
    indexByte c (h ++ c :: p) = some h.length
  | [], p, _ => by simp [indexByte]
  | a :: t, p, hn => by
    have ha : a ≠ c := hn a (by simp)
    have ih := indexByte_append c t p (fun b hb => hn b (by simp [hb]))
    simp [indexByte, ha, ih]

theorem digitByte_facts : ∀ d, d < 10 → isDigit (digitByte d) = true ∧ (digitByte d).toNat - 48 = d ∧
    digitByte d ≠ 58 ∧ digitByte d ≠ 95 ∧ digitByte d ≠ 45 ∧ digitByte d ≠ 43 := by decide

theorem digitsVal_append : ∀ (s t : Bytes) (acc : Nat),
    digitsVal (s ++ t) acc = (digitsVal s acc).bind (fun v => digitsVal t v)
  | [], t, acc => by simp [digitsVal]
  | c :: cs, t, acc => by
    simp only [List.cons_append, digitsVal]
    split
    · exact digitsVal_append cs t _
    · simp

theorem digitsVal_decimalF : ∀ (f n : Nat), n < 10 ^ f → digitsVal (decimalF f n) 0 = some n
  | 0, n, h => by simp at h; subst h; simp [decimalF, digitsVal]
  | f + 1, n, h => by
    unfold decimalF
    split
    · rename_i h10
      have := digitByte_facts n h10
      simp [digitsVal, this.1, this.2.1]
    · rename_i h10
      have hq : n / 10 < 10 ^ f := by
        rw [Nat.div_lt_iff_lt_mul (by decide)]; rw [Nat.pow_succ] at h; exact h
      have ih := digitsVal_decimalF f (n / 10) hq
      have hd := digitByte_facts (n % 10) (Nat.mod_lt _ (by decide))
      rw [digitsVal_append, ih]
      simp [digitsVal, hd.1, hd.2.1]
      omega

theorem decimalF_mem : ∀ (f n : Nat) (b : UInt8), b ∈ decimalF f n →
    isDigit b = true ∧ b ≠ 58 ∧ b ≠ 95 ∧ b ≠ 45 ∧ b ≠ 43
  | 0, n, b, h => by simp [decimalF] at h
  | f + 1, n, b, h => by
    unfold decimalF at h
    split at h
    · rename_i h10
      simp at h; subst h
      have := digitByte_facts n h10
      exact ⟨this.1, this.2.2⟩
    · simp at h
      rcases h with h | h
      · exact decimalF_mem f _ b h
      · subst h
        have := digitByte_facts (n % 10) (Nat.mod_lt _ (by decide))
        exact ⟨this.1, this.2.2⟩

theorem decimalF_length_le : ∀ (f n : Nat), (decimalF f n).length ≤ f
  | 0, _ => by simp [decimalF]
  | f + 1, n => by
    unfold decimalF
    split
    · simp
    · have := decimalF_length_le f (n / 10)
      simp; omega

theorem decimalF_ne_nil (f n : Nat) : decimalF (f + 1) n ≠ [] := by
  unfold decimalF; split <;> simp

theorem digitsVal_ge : ∀ (s : Bytes) (acc v : Nat), digitsVal s acc = some v → acc ≤ v
  | [], acc, v, h => by simp [digitsVal] at h; omega
  | c :: cs, acc, v, h => by
    simp only [digitsVal] at h
    split at h
    · have := digitsVal_ge cs _ v h; omega
    · cases h

theorem parseUintGo_of_digitsVal : ∀ (s : Bytes) (acc v : Nat), digitsVal s acc = some v → v < 2 ^ 64 →
    parseUintGo s acc = .ok v
  | [], acc, v, h, _ => by simp [digitsVal] at h; simp [parseUintGo, h]
  | c :: cs, acc, v, h, hv => by
    simp only [digitsVal] at h
    split at h
    · rename_i hd
      have hge := digitsVal_ge cs _ v h
      have : ¬ (acc * 10 + (c.toNat - 48) ≥ 2 ^ 64) := by omega
      simp only [parseUintGo, hd, Bool.not_true, Bool.false_eq_true, if_false, this]
      exact parseUintGo_of_digitsVal cs _ v h hv
    · cases h

theorem pow_bound : (2:Nat) ^ 64 < 10 ^ 20 := by decide

theorem parseUint_decimal (n : Nat) (h : n < 2 ^ 64) : parseUint (decimal n) = .ok n := by
  unfold parseUint decimal
  have hne := decimalF_ne_nil 19 n
  have : (decimalF 20 n).isEmpty = false := by
    cases hc : decimalF 20 n with
    | nil => exact absurd hc hne
    | cons _ _ => rfl
  rw [this]
  simp only [Bool.false_eq_true, if_false]
  exact parseUintGo_of_digitsVal _ _ _ (digitsVal_decimalF 20 n (Nat.lt_trans h pow_bound)) h

theorem atoi_decimal (n : Nat) (h : n < 2 ^ 63) : atoi (decimal n) = some (n : Int) := by
  have hne := decimalF_ne_nil 19 n
  have hv : digitsVal (decimal n) 0 = some n :=
    digitsVal_decimalF 20 n (Nat.lt_trans (Nat.lt_trans h (by decide : (2:Nat)^63 < 2^64)) pow_bound)
  unfold decimal at *
  cases hc : decimalF 20 n with
  | nil => exact absurd hc hne
  | cons c rest =>
    have hm := decimalF_mem 20 n c (by rw [hc]; simp)
    rw [hc] at hv
    unfold atoi
    have h45 : (c == 45) = false := by simp [hm.2.2.2.1]
    have hsign : ¬ (c = 45 ∨ c = 43) := by simp [hm.2.2.2.1, hm.2.2.2.2]
    simp only [h45, hsign, if_false, List.isEmpty_cons, Bool.false_eq_true, hv, h]
    simp

open CentrifugeVerif.Gen.RedisPushFmt

theorem drop_len_add : ∀ (h p : Bytes) (k : Nat), (h ++ p).drop (h.length + k) = p.drop k
  | [], p, k => by simp
  | a :: t, p, k => by
    have := drop_len_add t p k
    simp only [List.cons_append, List.length_cons]
    rw [show t.length + 1 + k = (t.length + k) + 1 by omega, List.drop_succ_cons]
    exact this

/-- what the receiving node must decode from a positioned / delta publication frame -/
def expectPub (off : Nat) (epoch payload : Bytes) (delta : Bool) (prev : Bytes) : Push :=
  { data := payload, typ := 0, epoch := epoch, offset := off, delta := delta, prev := prev, ok := true }

theorem extractPositionedPre_frame (data : Bytes) (off : Nat) (epoch payload : Bytes)
    (hoff : off < 2 ^ 64) (hep : ∀ b ∈ epoch, b ≠ 95) :
    extractPositionedPre data (([112, 49, 58] ++ decimal off ++ 58 :: epoch) ++ 95 :: 95 :: payload) =
      .val (expectPub off epoch payload false []) := by
  have hdec := decimalF_mem 20 off
  have hno : ∀ b ∈ ([112, 49, 58] ++ decimal off ++ 58 :: epoch : Bytes), b ≠ 95 := by
    intro b hb
    simp only [List.mem_append, List.mem_cons] at hb
    rcases hb with (hb | hb) | hb | hb
    · simp at hb; rcases hb with h | h | h <;> subst h <;> decide
    · exact (hdec b hb).2.2.1
    · subst hb; decide
    · exact hep b hb
  have hidx := indexSep_append _ payload hno
  have hdrop := drop_len_add ([112, 49, 58] ++ decimal off ++ 58 :: epoch) (95 :: 95 :: payload) 2
  unfold extractPositionedPre
  rw [hidx]
  have hlen : ([112, 49, 58] ++ decimal off ++ 58 :: epoch : Bytes).length =
      ((decimal off).length + epoch.length + 3) + 1 := by simp; omega
  rw [hlen]
  simp only
  rw [← hlen, List.take_left']
  rotate_left
  · rfl
  rw [hdrop]
  have h3 : sliceFrom ([112, 49, 58] ++ decimal off ++ 58 :: epoch) 3 = .val (decimal off ++ 58 :: epoch) := by
    rw [sliceFrom_ok _ _ (by decide) (by simp; omega)]
    simp
  rw [h3]
  simp only [Outcome.bind]
  have hib : indexByte 58 (decimal off ++ 58 :: epoch) = some (decimal off).length :=
    indexByte_append 58 _ _ (fun b hb => (hdec b hb).2.1)
  rw [hib]
  have hdl : (decimal off).length = ((decimal off).length - 1) + 1 := by
    have := decimalF_ne_nil 19 off
    unfold decimal
    cases hc : decimalF 20 off with
    | nil => exact absurd hc this
    | cons _ _ => simp
  rw [hdl]
  simp only
  rw [← hdl, List.take_left' rfl, parseUint_decimal off hoff]
  simp [expectPub, UintRes.value, UintRes.isOk]

theorem splitColon_append (h p : Bytes) (hn : ∀ b ∈ h, b ≠ 58) :
    splitColon (h ++ 58 :: p) = some (h, p) := by
  unfold splitColon
  rw [indexByte_append 58 h p hn]
  simp only
  rw [List.take_left' rfl]
  have := drop_len_add h (58 :: p) 1
  rw [this]; rfl

theorem decimal_no_colon (n : Nat) : ∀ b ∈ decimal n, b ≠ 58 :=
  fun b hb => (decimalF_mem 20 n b hb).2.1

theorem deltaHead_frame (off : Nat) (epoch prev payload : Bytes)
    (hoff : off < 2 ^ 64) (hep : ∀ b ∈ epoch, b ≠ 58) (hpv : prev.length < 2 ^ 63) :
    deltaHead ([100, 49, 58] ++ (decimal off ++ 58 :: (epoch ++ 58 :: (decimal prev.length ++ 58 ::
        (prev ++ 58 :: (decimal payload.length ++ 58 :: payload)))))) =
      .ok { offset := off, epoch := epoch, prevLen := prev.length,
            rest := prev ++ 58 :: (decimal payload.length ++ 58 :: payload) } := by
  unfold deltaHead
  have : List.take 3 ([100, 49, 58] ++ (decimal off ++ 58 :: (epoch ++ 58 :: (decimal prev.length ++ 58 ::
      (prev ++ 58 :: (decimal payload.length ++ 58 :: payload)))))) = d1Prefix := by simp [d1Prefix]
  rw [if_neg (by rw [this]; simp)]
  simp only [show ∀ l : Bytes, List.drop 3 ([100, 49, 58] ++ l) = l from fun l => by simp]
  rw [splitColon_append _ _ (decimal_no_colon off)]
  simp only [parseUint_decimal off hoff]
  rw [splitColon_append _ _ hep]
  simp only
  rw [splitColon_append _ _ (decimal_no_colon _)]
  simp only [atoi_decimal _ hpv]

theorem parseDeltaPushPre_frame (off : Nat) (epoch prev payload : Bytes)
    (hoff : off < 2 ^ 64) (hep : ∀ b ∈ epoch, b ≠ 58)
    (hpv : prev.length < 2 ^ 63) (hpl : payload.length < 2 ^ 63) :
    parseDeltaPushPre ([100, 49, 58] ++ (decimal off ++ 58 :: (epoch ++ 58 :: (decimal prev.length ++ 58 ::
        (prev ++ 58 :: (decimal payload.length ++ 58 :: payload)))))) =
      .val (.ok { offset := off, epoch := epoch, prevLen := prev.length, prev := prev,
                  payloadLen := payload.length, payload := payload }) := by
  have hhead := deltaHead_frame off epoch prev payload hoff hep hpv
  unfold parseDeltaPushPre
  rw [hhead]
  simp only
  unfold deltaBodyPre
  simp only
  have hlen : ¬ (((prev ++ 58 :: (decimal payload.length ++ 58 :: payload)).length : Int) < (prev.length : Int)) := by
    simp; omega
  rw [if_neg hlen]
  rw [sliceTo_ok _ _ (by omega) (by simp; omega)]
  rw [sliceFrom_ok _ _ (by omega) (by simp; omega)]
  simp only [Outcome.bind]
  have e1 : List.take (prev.length : Int).toNat (prev ++ 58 :: (decimal payload.length ++ 58 :: payload)) = prev := by
    simp
  have e2 : List.drop ((prev.length : Int) + 1).toNat (prev ++ 58 :: (decimal payload.length ++ 58 :: payload)) =
      decimal payload.length ++ 58 :: payload := by
    have : ((prev.length : Int) + 1).toNat = prev.length + 1 := by omega
    rw [this, drop_len_add]; rfl
  rw [e1, e2]
  unfold deltaTailPre
  rw [splitColon_append _ _ (decimal_no_colon _)]
  simp only [atoi_decimal _ hpl]
  rw [if_neg (by omega)]
  rw [sliceTo_ok _ _ (by omega) (by omega)]
  simp [Outcome.bind]

end CentrifugeVerif.RedisPush
