import CentrifugeVerif.Proofs.RecoveryCache
import CentrifugeVerif.Props.C39
/-!
C03, populate-then-retry path: the reply merges the (at most one) recovered publication with what the
subscriber's buffer collected while the cache-empty handler published.  Uses the C39 theorems about
`merge`.
-/
namespace CentrifugeVerif.Recovery
open CentrifugeVerif.Merge

/-- the cache-mode trimming keeps only the maximum-offset entry of a strictly increasing list -/
theorem trim_last (l : List MPub) (hp : l.Pairwise (fun x y => x.offset < y.offset)) :
    ∀ m ∈ (if decide (l.length > 1) then l.drop (l.length - 1) else l),
      m ∈ l ∧ ∀ x ∈ l, x.offset ≤ m.offset := by
  intro m hm
  by_cases hl : l.length > 1
  · simp only [hl, decide_true, if_true] at hm
    have hsplit := List.take_append_drop (l.length - 1) l
    have hml : m ∈ l := List.mem_of_mem_drop hm
    refine ⟨hml, ?_⟩
    intro x hx
    rw [← hsplit] at hp hx
    have hdl : (l.drop (l.length - 1)).length = 1 := by rw [List.length_drop]; omega
    have hd1 : l.drop (l.length - 1) = [m] := by
      match hd : l.drop (l.length - 1), hdl with
      | [y], _ => rw [hd] at hm; simp at hm; rw [hm]
    rw [List.mem_append] at hx
    rcases hx with hx | hx
    · exact Nat.le_of_lt ((List.pairwise_append.mp hp).2.2 x hx m hm)
    · rw [hd1] at hx; simp at hx; rw [hx]; exact Nat.le_refl _
  · simp only [hl, decide_false, Bool.false_eq_true, if_false] at hm
    refine ⟨hm, ?_⟩
    intro x hx
    have : l.length ≤ 1 := by omega
    match l, this with
    | [], _ => cases hm
    | [y], _ => simp at hm hx; rw [hm, hx]; exact Nat.le_refl _

/-- what `finish` delivers in cache mode without delta: a non-placeholder entry of the merged input
with the maximum offset among all non-placeholder inputs -/
theorem finish_cache_pubs (r : Bool) (rp b : List MPub) (top e off : Nat) (w : Bool) :
    ∀ m ∈ (finish true false r rp b top e off w).pubs,
      m.filtered = false ∧ m ∈ rp ++ b ∧ ∀ y ∈ rp ++ b, y.filtered = false → y.offset ≤ m.offset := by
  intro m hm
  unfold finish at hm
  split at hm
  · simp [Outcome.pubs] at hm
  · rename_i l mx hmerge
    simp only [Outcome.pubs, Bool.true_and, Bool.not_false, Bool.and_true] at hm
    cases r
    · simp at hm
    · rw [if_pos rfl] at hm
      have hsorted := merge_sorted_nodup rp b l mx hmerge
      obtain ⟨hml, hmax⟩ := trim_last l hsorted m hm
      obtain ⟨hnf, hmem⟩ := merge_no_placeholder rp b l mx hmerge m hml
      refine ⟨hnf, hmem, ?_⟩
      intro y hy hyf
      have : y.offset ∈ l.map (·.offset) :=
        (merge_set rp b l mx hmerge y.offset).mpr ((mem_nfOffsets _ _).mpr ⟨y, hy, hyf, rfl⟩)
      obtain ⟨x, hx, hxo⟩ := List.mem_map.mp this
      have := hmax x hx
      omega

/-- two strictly increasing (by offset) lists with the same members are equal -/
theorem eq_of_sorted_mem_iff (a b : List MPub)
    (ha : a.Pairwise (fun x y => x.offset < y.offset)) (hb : b.Pairwise (fun x y => x.offset < y.offset))
    (h : ∀ x, x ∈ a ↔ x ∈ b) : a = b := by
  induction a generalizing b with
  | nil =>
    cases b with
    | nil => rfl
    | cons y ys => exact absurd ((h y).mpr List.mem_cons_self) (by simp)
  | cons x xs ih =>
    cases b with
    | nil => exact absurd ((h x).mp List.mem_cons_self) (by simp)
    | cons y ys =>
      rw [List.pairwise_cons] at ha hb
      have hxy : x = y := by
        rcases List.mem_cons.mp ((h x).mp List.mem_cons_self) with h1 | h1
        · exact h1
        · rcases List.mem_cons.mp ((h y).mpr List.mem_cons_self) with h2 | h2
          · exact h2.symm
          · have := ha.1 y h2; have := hb.1 x h1; omega
      subst hxy
      congr 1
      apply ih ys ha.2 hb.2
      intro z
      constructor
      · intro hz
        rcases List.mem_cons.mp ((h z).mp (List.mem_cons_of_mem _ hz)) with h1 | h1
        · subst h1; have := ha.1 z hz; omega
        · exact h1
      · intro hz
        rcases List.mem_cons.mp ((h z).mpr (List.mem_cons_of_mem _ hz)) with h1 | h1
        · subst h1; have := hb.1 z hz; omega
        · exact h1

theorem toM_pass {pass : Pub → Bool} {p : Pub} (h : pass p = true) : toM pass p = toPlain p := by
  simp [toM, toPlain, h]

theorem toM_filtered (pass : Pub → Bool) (p : Pub) : (toM pass p).filtered = false ↔ pass p = true := by
  simp [toM]

end CentrifugeVerif.Recovery
