import CentrifugeVerif.Model.ConnProto
/-!
Lemmas about the dispatch model (`Model/ConnProto.lean`) used by `Props/C09.lean`.
-/
namespace CentrifugeVerif.ConnProto

/-- shape facts about one effect: what a handler / callback may and may not do -/
structure EffOK (e : Eff) : Prop where
  /-- a parked callback excludes everything else -/
  pend_excl : e.pend.isSome → e.reply = none ∧ e.disc = none ∧ e.spawn = none
  /-- only the pong branch of `dispatchCommand` accepts a pong -/
  no_pong : e.pong = false

theorem answer_ok (st : Core) (e : Option (Sum Nat Nat)) (k : String) : EffOK (answer st e k) := by
  unfold answer; split <;> constructor <;> simp

theorem answer_answers (st : Core) (e : Option (Sum Nat Nat)) (k : String) :
    (answer st e k).reply.isSome ∨ (answer st e k).spawn.isSome := by
  unfold answer; split <;> simp

theorem answer_pend (st : Core) (e : Option (Sum Nat Nat)) (k : String) : (answer st e k).pend = none := by
  unfold answer; split <;> simp

theorem answer_hs (st : Core) (e : Option (Sum Nat Nat)) (k : String) : (answer st e k).hs = [] := by
  unfold answer; split <;> simp

theorem answer_disc (st : Core) (e : Option (Sum Nat Nat)) (k : String) : (answer st e k).disc = none := by
  unfold answer; split <;> simp

theorem answer_unmodelled (st : Core) (e : Option (Sum Nat Nat)) (k : String) :
    (answer st e k).unmodelled = false := by
  unfold answer; split <;> simp

theorem answer_pong (st : Core) (e : Option (Sum Nat Nat)) (k : String) : (answer st e k).pong = false := by
  unfold answer; split <;> simp

/-- the callback body: always answers (a reply or a spawned close), never parks, never logs a
handler, never returns a disconnect -/
theorem complete_facts (st : Core) (p : Pending) :
    let e := complete st p
    (e.reply.isSome ∨ e.spawn.isSome) ∧ e.pend = none ∧ e.hs = [] ∧ e.disc = none ∧
      e.unmodelled = false ∧ e.pong = false := by
  unfold complete
  repeat' split
  all_goals simp [answer_answers, answer_pend, answer_hs, answer_disc, answer_unmodelled, answer_pong]

/-- the command got an answer of some sort: a reply, a parked callback, or a close -/
def Answered (e : Eff) : Prop :=
  e.reply.isSome ∨ e.spawn.isSome ∨ e.pend.isSome ∨ e.disc.isSome

/-- what every handler guarantees -/
structure Good (e : Eff) : Prop where
  answered : Answered e
  excl : e.pend.isSome → e.reply = none ∧ e.spawn = none ∧ e.disc = none
  nopong : e.pong = false
  modelled : e.unmodelled = false

theorem invoke_good (st : Core) (h : String) (p : Pending) (a : Bool) : Good (invoke st h p a) := by
  have hc := complete_facts st p
  unfold invoke
  split
  · constructor <;> simp [Answered]
  · simp only at hc ⊢
    obtain ⟨h1, h2, _, h4, h5, h6⟩ := hc
    constructor
    · rcases h1 with h1 | h1 <;> simp [Answered, h1]
    · simp [h2]
    · simp [h6]
    · simp [h5]

theorem errReply_good (st : Core) (code : Nat) : Good (errReply st code) := by
  constructor <;> simp [errReply, Answered]

theorem disconnect_good (st : Core) (code : Nat) : Good (disconnect st code) := by
  constructor <;> simp [disconnect, Answered]

theorem handleConnect_good (cfg : Cfg) (st : Core) (c : Cmd) : Good (handleConnect cfg st c) := by
  unfold handleConnect
  split
  · exact disconnect_good _ _
  · simp only
    split <;> constructor <;> simp [errReply, disconnect, Answered]

theorem handleChannelCmd_good (st : Core) (c : Cmd) (has : Bool) (k : PKind) (h : String) :
    Good (handleChannelCmd st c has k h) := by
  unfold handleChannelCmd
  split
  · exact errReply_good _ _
  · split
    · exact disconnect_good _ _
    · exact invoke_good _ _ _ _

theorem handlePublish_good (cfg : Cfg) (st : Core) (c : Cmd) : Good (handlePublish cfg st c) := by
  unfold handlePublish
  split
  · split <;> exact handleChannelCmd_good _ _ _ _ _
  · exact handleChannelCmd_good _ _ _ _ _

theorem handleRefresh_good (cfg : Cfg) (st : Core) (c : Cmd) : Good (handleRefresh cfg st c) := by
  unfold handleRefresh
  repeat' split
  all_goals first | exact errReply_good _ _ | exact disconnect_good _ _ | exact invoke_good _ _ _ _

theorem handleSubRefresh_good (cfg : Cfg) (st : Core) (c : Cmd) : Good (handleSubRefresh cfg st c) := by
  unfold handleSubRefresh
  repeat' split
  all_goals first | exact errReply_good _ _ | exact disconnect_good _ _ | exact invoke_good _ _ _ _

theorem handleUnsubscribe_good (cfg : Cfg) (st : Core) (c : Cmd) : Good (handleUnsubscribe cfg st c) := by
  unfold handleUnsubscribe
  repeat' split
  all_goals first | exact disconnect_good _ _ | (constructor <;> simp [Answered])

/-- map subscriptions (`Type ∈ {1,2,3}`) are outside the model -/
def Cmd.modelled (c : Cmd) : Bool := !(c.subscribe && (c.typ = 1 || c.typ = 2 || c.typ = 3))

theorem handleSubscribe_good (cfg : Cfg) (st : Core) (c : Cmd) (hm : c.modelled = true)
    (hs : c.subscribe = true) : Good (handleSubscribe cfg st c) := by
  unfold handleSubscribe
  simp [Cmd.modelled, hs] at hm
  repeat' split
  all_goals first
    | exact errReply_good _ _ | exact disconnect_good _ _ | exact invoke_good _ _ _ _
    | (simp_all)

theorem handlerChain_good (cfg : Cfg) (st : Core) (c : Cmd) (hm : c.modelled = true)
    (hs : c.sendSelected = false) : Good (handlerChain cfg st c) := by
  unfold handlerChain
  by_cases h1 : c.connect = true
  · rw [if_pos h1]; exact handleConnect_good _ _ _
  rw [if_neg h1]
  by_cases h2 : c.ping = true
  · rw [if_pos h2]; exact errReply_good _ _
  rw [if_neg h2]
  by_cases h3 : c.subscribe = true
  · rw [if_pos h3]; exact handleSubscribe_good _ _ _ hm h3
  rw [if_neg h3]
  by_cases h4 : c.unsubscribe = true
  · rw [if_pos h4]; exact handleUnsubscribe_good _ _ _
  rw [if_neg h4]
  by_cases h5 : c.publish = true
  · rw [if_pos h5]; exact handlePublish_good _ _ _
  rw [if_neg h5]
  by_cases h6 : c.presence = true
  · rw [if_pos h6]; exact handleChannelCmd_good _ _ _ _ _
  rw [if_neg h6]
  by_cases h7 : c.presenceStats = true
  · rw [if_pos h7]; exact handleChannelCmd_good _ _ _ _ _
  rw [if_neg h7]
  by_cases h8 : c.history = true
  · rw [if_pos h8]; exact handleChannelCmd_good _ _ _ _ _
  rw [if_neg h8]
  by_cases h9 : c.rpc = true
  · rw [if_pos h9]
    by_cases hr : (!cfg.hRpc) = true
    · rw [if_pos hr]; exact errReply_good _ _
    · rw [if_neg hr]; exact invoke_good _ _ _ _
  rw [if_neg h9]
  by_cases h10 : c.send = true
  · exfalso
    simp [Cmd.sendSelected, h10] at hs
    simp_all
  rw [if_neg h10]
  by_cases h11 : c.refresh = true
  · rw [if_pos h11]; exact handleRefresh_good _ _ _
  rw [if_neg h11]
  by_cases h12 : c.subRefresh = true
  · rw [if_pos h12]; exact handleSubRefresh_good _ _ _
  rw [if_neg h12]
  exact disconnect_good _ _

/-- every command that is owed a reply is answered by `dispatchCommand` in exactly one of the
ways: one reply / error reply, a parked callback, or a close (the reply may be accompanied by a
spawned close) -/
theorem dispatch_good (cfg : Cfg) (st : Core) (lp : PingSt) (c : Cmd) (hm : c.modelled = true)
    (ho : owesReply c = true) : Good (dispatch cfg st lp c) := by
  simp [owesReply] at ho
  unfold dispatch
  split
  · exact disconnect_good _ _
  · split
    · rename_i h; simp [isPong] at h; omega
    · split
      · exact disconnect_good _ _
      · exact handlerChain_good _ _ _ hm ho.2

/-- handlers never touch `status` except connect (connecting → connected) -/
theorem complete_status (st : Core) (p : Pending) : (complete st p).st.status = st.status := by
  unfold complete
  repeat' split
  all_goals simp [answer]
  all_goals (repeat' split) <;> simp

/-! ## Reply accounting -/

/-- number of reply frames written for the command with tag `k` -/
def rc (k : Nat) (st : St) : Nat := (st.frameLog.filter (fun f => f.tag == some k)).length
/-- number of parked callbacks of the command with tag `k` -/
def pc (k : Nat) (st : St) : Nat := (st.pending.filter (fun p => p.tag == some k)).length
/-- number of times the command with tag `k` was answered by closing the connection -/
def xc (k : Nat) (st : St) : Nat := (st.excused.filter (· == k)).length
/-- number of dispatched commands with tag `k` that are owed a reply -/
def oc (k : Nat) (st : St) : Nat := (st.owed.filter (fun p => p.1 == k)).length

structure Acc (st : St) : Prop where
  bal : ∀ k, rc k st + pc k st + xc k st = oc k st
  fresh : ∀ k, st.nCmds ≤ k → oc k st = 0
  once : ∀ k, oc k st ≤ 1

theorem filter_eraseIdx {α} (f : α → Bool) : ∀ (l : List α) (i : Nat) (p : α), l[i]? = some p →
    ((l.eraseIdx i).filter f).length + (if f p then 1 else 0) = (l.filter f).length
  | [], i, p, h => by simp at h
  | a :: l, 0, p, h => by
    simp at h; subst h
    by_cases hf : f a <;> simp [hf]
  | a :: l, i + 1, p, h => by
    simp at h
    have := filter_eraseIdx f l i p h
    by_cases hf : f a <;> simp [hf] <;> omega

theorem RBody.frame_tag (b : RBody) (id : Nat) (tag : Option Nat) : (b.frame id tag).tag = tag := by
  cases b <;> rfl

theorem pushFrames_untagged (e : Eff) (k : Nat) :
    (pushFrames e).filter (fun f => f.tag == some k) = [] := by
  unfold pushFrames; split <;> simp [Frame.tag]

/-- committing an effect of an untagged command changes no count -/
theorem commit_untagged (st : St) (e : Eff) (id k : Nat) :
    rc k (commit st e id none) = rc k st ∧ pc k (commit st e id none) = pc k st ∧
    xc k (commit st e id none) = xc k st ∧ oc k (commit st e id none) = oc k st ∧
    (commit st e id none).nCmds = st.nCmds := by
  refine ⟨?_, ?_, ?_, ?_, ?_⟩
  · simp only [rc, commit, List.filter_append, List.length_append, pushFrames_untagged, List.length_nil, Nat.add_zero]
    split
    · simp
    · cases e.reply <;> simp [RBody.frame_tag]
  · simp only [pc, commit, List.filter_append, List.length_append]
    cases e.pend <;> simp
  · simp [xc, commit]
  · simp [oc, commit]
  · simp [commit]

/-- committing the effect of the command with tag `n`: other tags are untouched, tag `n` gains
exactly one of reply / parked callback / excuse -/
theorem commit_tagged (st : St) (e : Eff) (id n : Nat)
    (hex : e.pend.isSome → e.reply = none) :
    (∀ k, k ≠ n → rc k (commit st e id (some n)) = rc k st ∧
      pc k (commit st e id (some n)) = pc k st ∧ xc k (commit st e id (some n)) = xc k st) ∧
    rc n (commit st e id (some n)) + pc n (commit st e id (some n)) + xc n (commit st e id (some n))
      = rc n st + pc n st + xc n st + 1 ∧
    (∀ k, oc k (commit st e id (some n)) = oc k st) ∧
    (commit st e id (some n)).nCmds = st.nCmds := by
  refine ⟨?_, ?_, ?_, ?_⟩
  · intro k hk
    have hk' : (n == k) = false := by simp; omega
    refine ⟨?_, ?_, ?_⟩
    · simp only [rc, commit, List.filter_append, List.length_append, pushFrames_untagged, List.length_nil, Nat.add_zero]
      split
      · simp
      · cases e.reply <;> simp [RBody.frame_tag]; omega
    · simp only [pc, commit, List.filter_append, List.length_append]
      cases e.pend <;> simp; omega
    · simp only [xc, commit, List.filter_append, List.length_append]
      split <;> simp <;> (try intros) <;> omega
  · simp only [rc, pc, xc, commit, List.filter_append, List.length_append, pushFrames_untagged, List.length_nil, Nat.add_zero]
    cases hp : e.pend with
    | some p =>
      have := hex (by simp [hp])
      simp [this]
      omega
    | none =>
      cases hr : e.reply with
      | none => simp; omega
      | some b =>
        by_cases hc : e.st.status = .closed
        · simp [hc]; omega
        · simp [hc, RBody.frame_tag]; omega
  · intro k; simp [oc, commit]
  · simp [commit]

theorem oc_append (k : Nat) (st : St) (x : List (Nat × Nat)) (n : Nat) :
    oc k { st with nCmds := n, owed := st.owed ++ x } = oc k st + (x.filter (fun p => p.1 == k)).length := by
  simp [oc, List.filter_append]

theorem handleCommand_acc (cfg : Cfg) (st : St) (c : Cmd) (hm : c.modelled = true) (h : Acc st) :
    Acc (handleCommand cfg st c).st := by
  unfold handleCommand
  split
  · exact h
  split
  · exact h
  simp only
  by_cases ho : owesReply c = true
  · -- tagged with n = st.nCmds
    simp only [ho, if_true]
    have hg := dispatch_good cfg st.core st.lastPing c hm ho
    generalize dispatch cfg st.core st.lastPing c = e at hg
    let st1 : St := { st with nCmds := st.nCmds + 1, owed := st.owed ++ [(st.nCmds, c.id)] }
    have hc := commit_tagged st1 e c.id st.nCmds (fun hp => (hg.excl hp).1)
    obtain ⟨hother, hself, hoc, hn⟩ := hc
    have hfresh := h.fresh st.nCmds (Nat.le_refl _)
    have hbal0 := h.bal st.nCmds
    constructor
    · intro k
      by_cases hk : k = st.nCmds
      · subst hk
        rw [hself, hoc]
        simp [st1, rc, pc, xc, oc, List.filter_append] at hbal0 hfresh ⊢
        omega
      · obtain ⟨a, b, d⟩ := hother k hk
        rw [a, b, d, hoc]
        have := h.bal k
        simp [st1, rc, pc, xc, oc, List.filter_append] at this ⊢
        have hk' : ¬ st.nCmds = k := fun x => hk x.symm
        simp [hk']
        exact this
    · intro k hk
      rw [hoc]
      rw [hn] at hk
      simp [st1] at hk
      have := h.fresh k (by omega)
      simp [st1, oc, List.filter_append] at this ⊢
      refine ⟨this, ?_⟩
      omega
    · intro k
      rw [hoc]
      by_cases hk : k = st.nCmds
      · subst hk
        simp [st1, oc, List.filter_append] at hfresh ⊢
        omega
      · have := h.once k
        have hk' : ¬ st.nCmds = k := fun x => hk x.symm
        simp [st1, oc, List.filter_append, hk'] at this ⊢
        exact this
  · simp only [ho, Bool.false_eq_true, if_false, List.append_nil]
    generalize dispatch cfg st.core st.lastPing c = e
    constructor
    · intro k
      obtain ⟨a, b, d, f, _⟩ := commit_untagged { st with nCmds := st.nCmds + 1 } e c.id k
      rw [a, b, d, f]
      exact h.bal k
    · intro k hk
      obtain ⟨_, _, _, f, g⟩ := commit_untagged { st with nCmds := st.nCmds + 1 } e c.id k
      rw [f]; rw [g] at hk
      exact h.fresh k (by simp at hk; omega)
    · intro k
      obtain ⟨_, _, _, f, _⟩ := commit_untagged { st with nCmds := st.nCmds + 1 } e c.id k
      rw [f]; exact h.once k

/-- all commands of an op are inside the model -/
def Op.modelled : Op → Bool
  | .frame cmds _ => cmds.all Cmd.modelled
  | _ => true

theorem handleFrame_acc (cfg : Cfg) : ∀ (cmds : List Cmd) (st : St) (sp : List Nat) (t : Tail) (b : Bool),
    cmds.all Cmd.modelled = true → Acc st → Acc (handleFrame cfg st sp cmds t b).st
  | [], st, sp, t, b, _, h => by
    unfold handleFrame; split <;> simp_all
  | c :: cs, st, sp, t, b, hm, h => by
    simp at hm
    have h1 := handleCommand_acc cfg st c hm.1 h
    rw [handleFrame]
    split
    · exact h1
    · exact handleFrame_acc cfg cs _ _ t true (by simpa using hm.2) h1

theorem closeWith_counts (cfg : Cfg) (st : St) (code k : Nat) :
    rc k (closeWith cfg st code) = rc k st ∧ pc k (closeWith cfg st code) = pc k st ∧
    xc k (closeWith cfg st code) = xc k st ∧ oc k (closeWith cfg st code) = oc k st ∧
    (closeWith cfg st code).nCmds = st.nCmds := by
  unfold closeWith
  split
  · simp
  · refine ⟨?_, ?_, ?_, ?_, ?_⟩ <;> simp [rc, pc, xc, oc, List.filter_append]
    intro _; simp [Frame.tag]

theorem closeWith_acc (cfg : Cfg) (st : St) (code : Nat) (h : Acc st) : Acc (closeWith cfg st code) := by
  constructor
  · intro k; obtain ⟨a, b, c, d, _⟩ := closeWith_counts cfg st code k; rw [a, b, c, d]; exact h.bal k
  · intro k hk; obtain ⟨_, _, _, d, e⟩ := closeWith_counts cfg st code k; rw [d]; rw [e] at hk; exact h.fresh k hk
  · intro k; obtain ⟨_, _, _, d, _⟩ := closeWith_counts cfg st code k; rw [d]; exact h.once k

theorem spawnClose_acc (cfg : Cfg) (st : St) (sp : List Nat) (h : Acc st) : Acc (spawnClose cfg st sp) := by
  cases sp <;> simp [spawnClose] <;> first | exact h | exact closeWith_acc _ _ _ h

theorem fireOne_acc (st : St) (i : Nat) (h : Acc st) : Acc (fireOne st i).1 := by
  unfold fireOne
  split
  · exact h
  · rename_i p hp
    simp only
    have hf := complete_facts st.core p
    simp only at hf
    generalize complete st.core p = e at hf
    let st0 : St := { st with pending := st.pending.eraseIdx i }
    cases htag : p.tag with
    | none =>
      constructor
      · intro k
        obtain ⟨a, b, c, d, _⟩ := commit_untagged st0 { e with pend := none } p.id k
        rw [a, b, c, d]
        have := h.bal k
        have he := filter_eraseIdx (fun q : Pending => q.tag == some k) st.pending i p hp
        simp [htag] at he
        simp [st0, rc, pc, xc, oc] at this ⊢
        omega
      · intro k hk
        obtain ⟨_, _, _, d, g⟩ := commit_untagged st0 { e with pend := none } p.id k
        rw [d]; rw [g] at hk; exact h.fresh k hk
      · intro k
        obtain ⟨_, _, _, d, _⟩ := commit_untagged st0 { e with pend := none } p.id k
        rw [d]; exact h.once k
    | some n =>
      obtain ⟨hother, hself, hoc, hn⟩ := commit_tagged st0 { e with pend := none } p.id n (by simp)
      constructor
      · intro k
        have he := filter_eraseIdx (fun q : Pending => q.tag == some k) st.pending i p hp
        by_cases hk : k = n
        · subst hk
          rw [hself, hoc]
          have := h.bal k
          simp [htag] at he
          simp [st0, rc, pc, xc, oc] at this ⊢
          omega
        · obtain ⟨a, b, c⟩ := hother k hk
          rw [a, b, c, hoc]
          have := h.bal k
          have hk' : ¬ n = k := fun x => hk x.symm
          simp [htag, hk'] at he
          simp [st0, rc, pc, xc, oc] at this ⊢
          omega
      · intro k hk; rw [hoc]; rw [hn] at hk; exact h.fresh k hk
      · intro k; rw [hoc]; exact h.once k

theorem fireAll_acc : ∀ (is : List Nat) (st : St) (sp : List Nat), Acc st → Acc (fireAll st sp is).1
  | [], st, sp, h => by simpa [fireAll] using h
  | i :: is, st, sp, h => by
    rw [fireAll]
    exact fireAll_acc is _ _ (fireOne_acc st i h)

theorem step_acc (cfg : Cfg) (st : St) (o : Op) (hm : o.modelled = true) (h : Acc st) :
    Acc (step cfg st o).st := by
  cases o with
  | frame cmds tail =>
    simp only [step]
    exact spawnClose_acc _ _ _ (handleFrame_acc cfg cmds st [] tail false (by simpa [Op.modelled] using hm) h)
  | fire idxs =>
    simp only [step]
    exact spawnClose_acc _ _ _ (fireAll_acc idxs st [] h)
  | ping =>
    simp only [step]
    split
    · constructor
      · intro k; have := h.bal k; simp [rc, pc, xc, oc, List.filter_append, Frame.tag] at this ⊢; exact this
      · intro k hk; exact h.fresh k hk
      · intro k; exact h.once k
    · exact h
  | eof => exact closeWith_acc _ _ _ h

theorem acc_init : Acc {} := by
  constructor <;> intro k <;> simp [rc, pc, xc, oc]

theorem run_acc (cfg : Cfg) : ∀ (ops : List Op) (st : St), ops.all Op.modelled = true → Acc st →
    Acc (run cfg st ops)
  | [], st, _, h => by simpa [run] using h
  | o :: os, st, hm, h => by
    simp at hm
    rw [run]
    exact run_acc cfg os _ (by simpa using hm.2) (step_acc cfg st o hm.1 h)

/-! ## An excuse means the connection is being closed -/

/-- mid-op form: a close has run or has been spawned -/
def Exc (st : St) (sp : List Nat) : Prop := st.excused ≠ [] → st.core.status = .closed ∨ sp ≠ []

theorem handleCommand_exc (cfg : Cfg) (st : St) (sp : List Nat) (c : Cmd) (hm : c.modelled = true)
    (h : Exc st sp) : Exc (handleCommand cfg st c).st (sp ++ (handleCommand cfg st c).spawns) := by
  unfold handleCommand
  split
  · rename_i hc; intro _; exact Or.inl hc
  split
  · intro _; right; simp
  rename_i hopen _
  simp only
  intro hne
  by_cases hold : st.excused = []
  · -- the excuse is new
    by_cases ho : owesReply c = true
    · simp only [ho, if_true] at hne ⊢
      have hg := dispatch_good cfg st.core st.lastPing c hm ho
      generalize dispatch cfg st.core st.lastPing c = e at hg hne ⊢
      simp [commit, hold] at hne
      obtain ⟨hfr, hp⟩ := hne
      rcases hg.answered with h1 | h1 | h1 | h1
      · left
        simp [commit]
        by_cases hcl : e.st.status = .closed
        · exact hcl
        · simp [hcl] at hfr; simp [hfr] at h1
      · right; cases hs : e.spawn <;> simp_all
      · simp [hp] at h1
      · right; cases hs : e.disc <;> simp_all
    · simp [ho, commit, hold] at hne
  · rcases h hold with h1 | h1
    · exact absurd h1 hopen
    · right; simp [h1]

theorem handleFrame_exc (cfg : Cfg) : ∀ (cmds : List Cmd) (st : St) (sp : List Nat) (t : Tail) (b : Bool),
    cmds.all Cmd.modelled = true → Exc st sp →
    Exc (handleFrame cfg st sp cmds t b).st (handleFrame cfg st sp cmds t b).spawns
  | [], st, sp, t, b, _, h => by
    unfold handleFrame
    split
    · exact h
    · intro _; right; simp
    · rename_i heq; cases heq
  | c :: cs, st, sp, t, b, hm, h => by
    simp at hm
    have h1 := handleCommand_exc cfg st sp c hm.1 h
    rw [handleFrame]
    split
    · exact h1
    · exact handleFrame_exc cfg cs _ _ t true (by simpa using hm.2) h1

theorem fireOne_exc (st : St) (sp : List Nat) (i : Nat) (h : Exc st sp) :
    Exc (fireOne st i).1 (sp ++ (fireOne st i).2) := by
  unfold fireOne
  split
  · intro hne; rcases h hne with h1 | h1
    · exact Or.inl h1
    · right; simp [h1]
  · rename_i p hp
    simp only
    have hf := complete_facts st.core p
    have hs := complete_status st.core p
    simp only at hf
    generalize complete st.core p = e at hf hs
    intro hne
    by_cases hcl : st.core.status = .closed
    · left; simp [commit, hs, hcl]
    · by_cases hold : st.excused = []
      · simp [commit, hold, hs, hcl] at hne
        cases htag : p.tag with
        | none => simp [htag] at hne
        | some n =>
          simp [htag] at hne
          rcases hf.1 with h1 | h1
          · simp [hne] at h1
          · right; cases hsp : e.spawn <;> simp_all
      · rcases h hold with h1 | h1
        · exact absurd h1 hcl
        · right; simp [h1]

theorem fireAll_exc : ∀ (is : List Nat) (st : St) (sp : List Nat), Exc st sp →
    Exc (fireAll st sp is).1 (fireAll st sp is).2
  | [], st, sp, h => by simpa [fireAll] using h
  | i :: is, st, sp, h => by
    rw [fireAll]
    exact fireAll_exc is _ _ (fireOne_exc st sp i h)

theorem closeWith_closed (cfg : Cfg) (st : St) (code : Nat) : (closeWith cfg st code).core.status = .closed := by
  unfold closeWith; split <;> simp_all

theorem closeWith_excused (cfg : Cfg) (st : St) (code : Nat) : (closeWith cfg st code).excused = st.excused := by
  unfold closeWith; split <;> simp

/-- op-level form -/
def ExcInv (st : St) : Prop := st.excused ≠ [] → st.core.status = .closed

theorem spawnClose_excinv (cfg : Cfg) (st : St) (sp : List Nat) (h : Exc st sp) :
    ExcInv (spawnClose cfg st sp) := by
  cases sp with
  | nil => intro hne; rcases h hne with h1 | h1 <;> simp_all [spawnClose]
  | cons a l => intro _; exact closeWith_closed _ _ _

theorem step_excinv (cfg : Cfg) (st : St) (o : Op) (hm : o.modelled = true) (h : ExcInv st) :
    ExcInv (step cfg st o).st := by
  have h0 : Exc st [] := fun hne => Or.inl (h hne)
  cases o with
  | frame cmds tail =>
    exact spawnClose_excinv _ _ _ (handleFrame_exc cfg cmds st [] tail false (by simpa [Op.modelled] using hm) h0)
  | fire idxs => exact spawnClose_excinv _ _ _ (fireAll_exc idxs st [] h0)
  | ping => simp only [step]; split <;> exact h
  | eof => intro _; exact closeWith_closed _ _ _

theorem run_excinv (cfg : Cfg) : ∀ (ops : List Op) (st : St), ops.all Op.modelled = true → ExcInv st →
    ExcInv (run cfg st ops)
  | [], st, _, h => by simpa [run] using h
  | o :: os, st, hm, h => by
    simp at hm
    rw [run]
    exact run_excinv cfg os _ (by simpa using hm.2) (step_excinv cfg st o hm.1 h)

/-! ## The ping/pong sign trick -/

/-- `lastPing > 0` exactly when the last ping-related event is a server ping that no pong has
answered yet; `lastPing = 0` exactly when no ping was ever sent -/
structure PingInv (st : St) : Prop where
  pinged : st.lastPing = .pinged ↔ st.pingLog.getLast? = some .ping
  none : st.lastPing = .none ↔ st.pingLog = []

theorem commit_pinginv (st : St) (e : Eff) (id : Nat) (tag : Option Nat) (h : PingInv st) :
    PingInv (commit st e id tag) := by
  unfold commit
  by_cases hp : e.pong = true
  · constructor <;> simp [hp]
  · constructor <;> simp [hp, h.pinged, h.none]

theorem handleCommand_pinginv (cfg : Cfg) (st : St) (c : Cmd) (h : PingInv st) :
    PingInv (handleCommand cfg st c).st := by
  unfold handleCommand
  split
  · exact h
  split
  · exact h
  · apply commit_pinginv
    exact ⟨h.pinged, h.none⟩

theorem handleFrame_pinginv (cfg : Cfg) : ∀ (cmds : List Cmd) (st : St) (sp : List Nat) (t : Tail) (b : Bool),
    PingInv st → PingInv (handleFrame cfg st sp cmds t b).st
  | [], st, sp, t, b, h => by
    unfold handleFrame
    split
    · exact h
    · exact h
    · rename_i heq; cases heq
  | c :: cs, st, sp, t, b, h => by
    rw [handleFrame]
    split
    · exact handleCommand_pinginv cfg st c h
    · exact handleFrame_pinginv cfg cs _ _ t true (handleCommand_pinginv cfg st c h)

theorem closeWith_pinginv (cfg : Cfg) (st : St) (code : Nat) (h : PingInv st) : PingInv (closeWith cfg st code) := by
  unfold closeWith; split
  · exact h
  · exact ⟨h.pinged, h.none⟩

theorem spawnClose_pinginv (cfg : Cfg) (st : St) (sp : List Nat) (h : PingInv st) : PingInv (spawnClose cfg st sp) := by
  cases sp <;> simp [spawnClose] <;> first | exact h | exact closeWith_pinginv _ _ _ h

theorem fireOne_pinginv (st : St) (i : Nat) (h : PingInv st) : PingInv (fireOne st i).1 := by
  unfold fireOne
  split
  · exact h
  · apply commit_pinginv; exact ⟨h.pinged, h.none⟩

theorem fireAll_pinginv : ∀ (is : List Nat) (st : St) (sp : List Nat), PingInv st → PingInv (fireAll st sp is).1
  | [], st, sp, h => by simpa [fireAll] using h
  | i :: is, st, sp, h => by rw [fireAll]; exact fireAll_pinginv is _ _ (fireOne_pinginv st i h)

theorem step_pinginv (cfg : Cfg) (st : St) (o : Op) (h : PingInv st) : PingInv (step cfg st o).st := by
  cases o with
  | frame cmds tail => exact spawnClose_pinginv _ _ _ (handleFrame_pinginv cfg cmds st [] tail false h)
  | fire idxs => exact spawnClose_pinginv _ _ _ (fireAll_pinginv idxs st [] h)
  | ping =>
    simp only [step]; split
    · constructor <;> simp
    · exact h
  | eof => exact closeWith_pinginv _ _ _ h

theorem run_pinginv (cfg : Cfg) : ∀ (ops : List Op) (st : St), PingInv st → PingInv (run cfg st ops)
  | [], st, h => by simpa [run] using h
  | o :: os, st, h => by rw [run]; exact run_pinginv cfg os _ (step_pinginv cfg st o h)

end CentrifugeVerif.ConnProto
