import CentrifugeVerif.Gen.ControlCodec
/-!
# Helper lemmas over the regenerated control codec (`Gen/ControlCodec.lean`)

`controlpbFilterFromProto` / `protoFilterFromControlpb` are the two recursive label-filter conversions
of node.go, regenerated from their source; the lemmas below say that converting a filter to its
control-message form and back gives the same filter, for every filter tree.
-/
namespace CentrifugeVerif.Gen.ControlCodec

mutual
theorem filter_roundtrip : ∀ f : GFilterNode, protoFilterFromControlpb (controlpbFilterFromProto f) = f
  | .mk .. => by simp [controlpbFilterFromProto, protoFilterFromControlpb, filter_roundtrip_list]
theorem filter_roundtrip_list :
    ∀ l : GFilterNodes, protoFilterFromControlpbList (controlpbFilterFromProtoList l) = l
  | .nil => by simp [controlpbFilterFromProtoList, protoFilterFromControlpbList]
  | .cons n ns => by
      simp [controlpbFilterFromProtoList, protoFilterFromControlpbList, filter_roundtrip n,
        filter_roundtrip_list ns]
end

theorem filter_comp : protoFilterFromControlpb ∘ controlpbFilterFromProto = id :=
  funext filter_roundtrip

theorem filter_roundtrip_opt (f : Option GFilterNode) :
    (f.map controlpbFilterFromProto).map protoFilterFromControlpb = f := by
  cases f <;> simp [filter_roundtrip]

/-- unsubscribe round trip (restated as `control_roundtrip_unsubscribe` in `Props/C27.lean`; kept here so that the
C28 proofs do not depend on the subscribe theorems of C27). -/
theorem unsubscribe_roundtrip (u ch : String) (o : GUnsubscribeOptions) :
    (remoteUnsubscribe (encodeUnsubscribe u ch o)).view = (localUnsubscribe u ch o).view := by
  simp only [remoteUnsubscribe, encodeUnsubscribe, localUnsubscribe]
  cases o.unsubscribe <;> by_cases h : (u = "" ∧ o.allUsers = true) <;> simp [h, filter_comp]

end CentrifugeVerif.Gen.ControlCodec
