import CentrifugeVerif.Model.SubReply
import CentrifugeVerif.Props.C39
/-! Helper lemmas for C01 (subscribe reply). -/
namespace CentrifugeVerif.SubReply
open CentrifugeVerif.Merge

theorem toMPubs_offsets (s : Nat) (l : List HPub) :
    (toMPubs s l).map (·.offset) = l.map (·.offset) := by
  induction l generalizing s with
  | nil => rfl
  | cons p ps ih => simp [toMPubs, ih]

theorem mem_toMPubs {s : Nat} {l : List HPub} {m : MPub} (h : m ∈ toMPubs s l) :
    ∃ p ∈ l, p.offset = m.offset ∧ p.filtered = m.filtered := by
  induction l generalizing s with
  | nil => simp [toMPubs] at h
  | cons p ps ih =>
    simp only [toMPubs, List.mem_cons] at h
    rcases h with rfl | h
    · exact ⟨p, List.mem_cons_self, rfl, rfl⟩
    · obtain ⟨q, hq, h1, h2⟩ := ih h
      exact ⟨q, List.mem_cons_of_mem _ hq, h1, h2⟩

theorem toMPubs_mem {s : Nat} {l : List HPub} {p : HPub} (h : p ∈ l) :
    ∃ m ∈ toMPubs s l, m.offset = p.offset ∧ m.filtered = p.filtered := by
  induction l generalizing s with
  | nil => cases h
  | cons q qs ih =>
    rcases List.mem_cons.mp h with rfl | h
    · exact ⟨_, List.mem_cons_self, rfl, rfl⟩
    · obtain ⟨m, hm, h1, h2⟩ := ih (s := s + 1) h
      exact ⟨m, List.mem_cons_of_mem _ hm, h1, h2⟩

/-- a contiguous run whose first element is `a` and whose last element is `t` is exactly
`a, a+1, …, t`. -/
theorem range'_last (a n t : Nat) (hn : 0 < n)
    (h : (List.range' a n).getLast? = some t) : t + 1 = a + n := by
  rw [List.getLast?_range'] at h
  have hn' : n ≠ 0 := by omega
  simp only [hn', if_false, Option.some.injEq] at h
  omega

/-- a "recovered" decision means: recovery was requested, the epochs agree, and the history
run starts right after the requested offset and ends at the stream top. -/
theorem recDecision_recovered {req : Req} {h : Hist} {l : List MPub}
    (hd : recDecision req h = some (some l)) :
    l = toMPubs 0 h.pubs ∧ recoveredOK h req.offset = true := by
  unfold recDecision at hd
  by_cases hrc : req.recover = true
  · simp only [hrc, if_true] at hd
    split at hd
    · split at hd <;> simp at hd
    · unfold isStreamRecovered at hd
      by_cases hok : recoveredOK h req.offset = true
      · simp only [hok, if_true, Option.some.injEq] at hd
        exact ⟨hd.symm, hok⟩
      · simp only [hok, Bool.false_eq_true, if_false] at hd
        split at hd <;> simp at hd
  · simp [hrc] at hd

theorem recDecision_not_recovered_or {req : Req} {h : Hist} {r : Option (List MPub)}
    (hd : recDecision req h = some r) : r = none ∨ r = some (toMPubs 0 h.pubs) := by
  cases r with
  | none => exact Or.inl rfl
  | some l => exact Or.inr (by rw [(recDecision_recovered hd).1])

theorem lastOffset_le_of_mem_le {l : List MPub} {m : Nat} (h : ∀ p ∈ l, p.offset ≤ m) :
    lastOffset l ≤ m := by
  unfold lastOffset
  cases hl : l.getLast? with
  | none => simp
  | some q => simpa using h q (List.mem_of_getLast? hl)

theorem latestOf_ge_top (top : Nat) (merged : List MPub) (maxSeen : Nat) :
    top ≤ latestOf top merged maxSeen ∧ maxSeen ≤ latestOf top merged maxSeen := by
  unfold latestOf adj1
  constructor <;> (split <;> split <;> (try split) <;> omega)

/-- when every merged offset is bounded by `maxSeen`, the committed offset is `max top maxSeen` -/
theorem latestOf_eq_max {top : Nat} {merged : List MPub} {maxSeen : Nat}
    (h : ∀ p ∈ merged, p.offset ≤ maxSeen) : latestOf top merged maxSeen = max top maxSeen := by
  have := lastOffset_le_of_mem_le h
  unfold latestOf adj1
  split <;> split <;> (try split) <;> omega

end CentrifugeVerif.SubReply
