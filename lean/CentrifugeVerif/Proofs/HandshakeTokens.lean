import CentrifugeVerif.Spec.Upgrade
/-!
Helper lemmas for C31: the scanner `tokenListContainsValue` (model `lineContains`) against the
declarative list membership of `Spec/Upgrade.lean`.
-/
namespace CentrifugeVerif.UpgradeSpec
open CentrifugeVerif.Sha1 (Bytes ascii)
open CentrifugeVerif.Handshake

theorem lineContains_step (v : Bytes) (f : Nat) (s : Bytes) :
    lineContains v (f + 1) s =
      (if (nextToken (skipSpace s)).1.isEmpty then false
       else match skipSpace (nextToken (skipSpace s)).2 with
         | [] => foldEq (nextToken (skipSpace s)).1 v
         | c :: rest => if c ≠ 44 then false else if foldEq (nextToken (skipSpace s)).1 v then true
                        else lineContains v f rest) := by
  rfl

theorem comma_not_lws : isLWS 44 = false := by decide
theorem comma_not_token : isTokenOctet 44 = false := by decide

theorem lws_not_token (c : UInt8) (h : isLWS c = true) : isTokenOctet c = false := by
  unfold isLWS at h
  simp only [Bool.or_eq_true, beq_iff_eq] at h
  rcases h with rfl | rfl <;> decide

/-! ### splitComma -/

theorem splitComma_ne_nil (s : Bytes) : splitComma s ≠ [] := by
  induction s with
  | nil => simp [splitComma]
  | cons c cs ih =>
    unfold splitComma
    split
    · simp
    · split <;> simp

theorem splitComma_cons (c : UInt8) (cs : Bytes) :
    splitComma (c :: cs) = (match splitComma cs with
      | [] => [[]]
      | e :: es => if c == 44 then [] :: e :: es else (c :: e) :: es) := rfl

theorem splitComma_nocomma (e : Bytes) (h : ∀ c ∈ e, c ≠ 44) : splitComma e = [e] := by
  induction e with
  | nil => rfl
  | cons c cs ih =>
    have hc : c ≠ 44 := h c (by simp)
    rw [splitComma_cons, ih (fun x hx => h x (by simp [hx]))]
    simp [hc]

theorem splitComma_append (e rest : Bytes) (h : ∀ c ∈ e, c ≠ 44) :
    splitComma (e ++ 44 :: rest) = e :: splitComma rest := by
  induction e with
  | nil =>
    simp only [List.nil_append]
    rw [splitComma_cons]
    cases hs : splitComma rest with
    | nil => exact absurd hs (splitComma_ne_nil rest)
    | cons x xs => simp
  | cons c cs ih =>
    have hc : c ≠ 44 := h c (by simp)
    simp only [List.cons_append]
    rw [splitComma_cons, ih (fun x hx => h x (by simp [hx]))]
    simp [hc]

/-! ### scanner decompositions -/

theorem skipSpace_decomp (s : Bytes) : ∃ ws, s = ws ++ skipSpace s ∧ IsOWS ws ∧
    (∀ c rest, skipSpace s = c :: rest → isLWS c = false) := by
  induction s with
  | nil => exact ⟨[], rfl, (by intro c hc; cases hc), (by intro c rest h; simp [skipSpace] at h)⟩
  | cons c cs ih =>
    unfold skipSpace
    by_cases hc : isLWS c = true
    · obtain ⟨ws, h1, h2, h3⟩ := ih
      refine ⟨c :: ws, ?_, ?_, ?_⟩
      · simp only [hc, if_true, List.cons_append]; rw [← h1]
      · intro x hx
        rcases List.mem_cons.mp hx with rfl | hx
        · exact hc
        · exact h2 x hx
      · simp only [hc, if_true]; exact h3
    · refine ⟨[], (by simp [hc]), (by intro x hx; cases hx), ?_⟩
      simp only [hc, Bool.false_eq_true, if_false]
      intro x rest h
      injection h with h1 h2
      subst h1
      simpa using hc

theorem nextToken_decomp (s : Bytes) : s = (nextToken s).1 ++ (nextToken s).2 ∧
    (∀ c ∈ (nextToken s).1, isTokenOctet c = true) ∧
    (∀ c rest, (nextToken s).2 = c :: rest → isTokenOctet c = false) := by
  induction s with
  | nil => simp [nextToken]
  | cons c cs ih =>
    unfold nextToken
    by_cases hc : isTokenOctet c = true
    · simp only [hc, if_true]
      obtain ⟨h1, h2, h3⟩ := ih
      refine ⟨?_, ?_, h3⟩
      · simp only [List.cons_append]; rw [← h1]
      · intro x hx
        rcases List.mem_cons.mp hx with rfl | hx
        · exact hc
        · exact h2 x hx
    · simp only [hc, Bool.false_eq_true, if_false]
      refine ⟨(by simp), (by intro x hx; cases hx), ?_⟩
      intro x rest h
      injection h with h1 h2
      subst h1
      simpa using hc

theorem skipSpace_append (ws x : Bytes) (hws : IsOWS ws) (hx : ∀ c rest, x = c :: rest → isLWS c = false) :
    skipSpace (ws ++ x) = x := by
  induction ws with
  | nil =>
    simp only [List.nil_append]
    cases x with
    | nil => rfl
    | cons c rest => unfold skipSpace; simp [hx c rest rfl]
  | cons w ws ih =>
    have hw : isLWS w = true := hws w (by simp)
    simp only [List.cons_append]
    unfold skipSpace
    simp only [hw, if_true]
    exact ih (fun c hc => hws c (by simp [hc]))

theorem nextToken_append (t y : Bytes) (ht : ∀ c ∈ t, isTokenOctet c = true)
    (hy : ∀ c rest, y = c :: rest → isTokenOctet c = false) : nextToken (t ++ y) = (t, y) := by
  induction t with
  | nil =>
    simp only [List.nil_append]
    cases y with
    | nil => rfl
    | cons c rest => unfold nextToken; simp [hy c rest rfl]
  | cons c cs ih =>
    have hc : isTokenOctet c = true := ht c (by simp)
    simp only [List.cons_append]
    unfold nextToken
    simp only [hc, if_true]
    rw [ih (fun x hx => ht x (by simp [hx]))]

theorem token_not_lws (c : UInt8) (h : isTokenOctet c = true) : isLWS c = false := by
  cases hl : isLWS c with
  | false => rfl
  | true => rw [lws_not_token c hl] at h; cases h

theorem elem_no_comma (ws1 t ws2 : Bytes) (h1 : IsOWS ws1) (h2 : IsOWS ws2)
    (ht : ∀ c ∈ t, isTokenOctet c = true) : ∀ c ∈ ws1 ++ t ++ ws2, c ≠ 44 := by
  intro c hc h44
  subst h44
  simp only [List.mem_append] at hc
  rcases hc with (hc | hc) | hc
  · have := h1 _ hc; rw [comma_not_lws] at this; cases this
  · have := ht _ hc; rw [comma_not_token] at this; cases this
  · have := h2 _ hc; rw [comma_not_lws] at this; cases this

/-- scanning one well-formed element followed by the end of the line or a comma -/
theorem scan_elem (e t tail : Bytes) (he : IsElem e t) (htail : tail = [] ∨ ∃ r, tail = 44 :: r) :
    (nextToken (skipSpace (e ++ tail))).1 = t ∧
      skipSpace (nextToken (skipSpace (e ++ tail))).2 = tail := by
  obtain ⟨ws1, ws2, rfl, h1, h2, hne, ht⟩ := he
  have htail_tok : ∀ c rest, ws2 ++ tail = c :: rest → isTokenOctet c = false := by
    intro c rest h
    cases ws2 with
    | nil =>
      simp only [List.nil_append] at h
      rcases htail with rfl | ⟨r, rfl⟩
      · cases h
      · injection h with h _; subst h; exact comma_not_token
    | cons w ws =>
      simp only [List.cons_append] at h
      injection h with h _; subst h
      exact lws_not_token _ (h2 _ (by simp))
  have htail_lws : ∀ c rest, tail = c :: rest → isLWS c = false := by
    intro c rest h
    rcases htail with rfl | ⟨r, rfl⟩
    · cases h
    · injection h with h _; subst h; exact comma_not_lws
  have hhead : ∀ c rest, t ++ (ws2 ++ tail) = c :: rest → isLWS c = false := by
    intro c rest h
    cases t with
    | nil => exact absurd rfl hne
    | cons x xs =>
      simp only [List.cons_append] at h
      injection h with h _; subst h
      exact token_not_lws _ (ht _ (by simp))
  have e1 : ws1 ++ t ++ ws2 ++ tail = ws1 ++ (t ++ (ws2 ++ tail)) := by simp
  rw [e1, skipSpace_append ws1 _ h1 hhead, nextToken_append t _ ht htail_tok]
  exact ⟨rfl, skipSpace_append ws2 tail h2 htail_lws⟩

/-- **soundness for every header line**: when the scanner finds the token, the line has it as a
well-formed list element (all elements before it being well-formed too). -/
theorem lineContains_sound (v : Bytes) : ∀ (f : Nat) (s : Bytes), lineContains v f s = true → ListHas s v := by
  intro f
  induction f with
  | zero => intro s h; simp [lineContains] at h
  | succ f ih =>
    intro s h
    rw [lineContains_step] at h
    obtain ⟨ws1, hs, hws1, _⟩ := skipSpace_decomp s
    obtain ⟨ht1, httok, _⟩ := nextToken_decomp (skipSpace s)
    obtain ⟨ws2, hs1, hws2, _⟩ := skipSpace_decomp (nextToken (skipSpace s)).2
    generalize hT : (nextToken (skipSpace s)).1 = t at h ht1 httok
    generalize hS1 : (nextToken (skipSpace s)).2 = s1 at h ht1 hs1
    by_cases hte : t.isEmpty = true
    · simp [hte] at h
    · simp only [hte, Bool.false_eq_true, if_false] at h
      have htne : t ≠ [] := by intro h0; subst h0; exact hte rfl
      have hnc := elem_no_comma ws1 t ws2 hws1 hws2 httok
      have helem : IsElem (ws1 ++ t ++ ws2) t := ⟨ws1, ws2, rfl, hws1, hws2, htne, httok⟩
      cases hs2 : skipSpace s1 with
      | nil =>
        simp only [hs2] at h
        have hse : s = ws1 ++ t ++ ws2 := by
          rw [hs, ht1, hs1, hs2]; simp
        refine ⟨ws1 ++ t ++ ws2, ?_, t, helem, h⟩
        rw [hse, splitComma_nocomma _ hnc]; simp
      | cons c rest =>
        simp only [hs2] at h
        by_cases hc : c = 44
        · subst hc
          have hse : s = (ws1 ++ t ++ ws2) ++ 44 :: rest := by
            rw [hs, ht1, hs1, hs2]; simp
          have hsplit : splitComma s = (ws1 ++ t ++ ws2) :: splitComma rest := by
            rw [hse, splitComma_append _ _ hnc]
          simp only [ne_eq, not_true_eq_false, if_false] at h
          by_cases hf : foldEq t v = true
          · exact ⟨ws1 ++ t ++ ws2, by rw [hsplit]; simp, t, helem, hf⟩
          · simp only [hf, Bool.false_eq_true, if_false] at h
            obtain ⟨e', he', t', hel', hf'⟩ := ih rest h
            exact ⟨e', by rw [hsplit]; simp [he'], t', hel', hf'⟩
        · simp [hc] at h

/-- **completeness on well-formed lines** -/
theorem lineContains_complete (v : Bytes) : ∀ (f : Nat) (s : Bytes), s.length < f →
    WellFormedList s → ListHas s v → lineContains v f s = true := by
  intro f
  induction f with
  | zero => intro s h; omega
  | succ f ih =>
    intro s hlen hwf hhas
    rw [lineContains_step]
    -- first element of the line
    by_cases hcomma : ∀ c ∈ s, c ≠ 44
    · -- a single element
      have hsp := splitComma_nocomma s hcomma
      obtain ⟨t, het⟩ := hwf s (by rw [hsp]; simp)
      have hscan := scan_elem s t [] het (Or.inl rfl)
      simp only [List.append_nil] at hscan
      obtain ⟨e', he', t', hel', hf'⟩ := hhas
      rw [hsp] at he'
      simp only [List.mem_singleton] at he'
      subst he'
      have hscan' := scan_elem e' t' [] hel' (Or.inl rfl)
      simp only [List.append_nil] at hscan'
      have htt : t' = t := by rw [← hscan'.1, hscan.1]
      subst htt
      have htne : t'.isEmpty = false := by
        obtain ⟨_, _, _, _, _, hne, _⟩ := hel'
        cases t' with
        | nil => exact absurd rfl hne
        | cons _ _ => rfl
      rw [hscan.1, hscan.2]
      simp [htne, hf']
    · -- e ++ ',' :: rest
      have : ∃ e rest, s = e ++ 44 :: rest ∧ ∀ c ∈ e, c ≠ 44 := by
        clear hlen hwf hhas ih
        induction s with
        | nil => exact absurd (by intro c hc; cases hc) hcomma
        | cons x xs ihx =>
          by_cases hx : x = 44
          · exact ⟨[], xs, by simp [hx], by intro c hc; cases hc⟩
          · have : ¬ ∀ c ∈ xs, c ≠ 44 := by
              intro hall
              apply hcomma
              intro c hc
              rcases List.mem_cons.mp hc with rfl | hc
              · exact hx
              · exact hall c hc
            obtain ⟨e, rest, h1, h2⟩ := ihx this
            refine ⟨x :: e, rest, by simp [h1], ?_⟩
            intro c hc
            rcases List.mem_cons.mp hc with rfl | hc
            · exact hx
            · exact h2 c hc
      obtain ⟨e, rest, hse, hne⟩ := this
      have hsplit : splitComma s = e :: splitComma rest := by rw [hse, splitComma_append _ _ hne]
      obtain ⟨t, het⟩ := hwf e (by rw [hsplit]; simp)
      have hscan := scan_elem e t (44 :: rest) het (Or.inr ⟨rest, rfl⟩)
      rw [← hse] at hscan
      have htne : t.isEmpty = false := by
        obtain ⟨_, _, _, _, _, hne', _⟩ := het
        cases t with
        | nil => exact absurd rfl hne'
        | cons _ _ => rfl
      rw [hscan.1, hscan.2]
      simp only [htne, Bool.false_eq_true, if_false, ne_eq, not_true_eq_false]
      by_cases hf : foldEq t v = true
      · simp [hf]
      · simp only [hf, Bool.false_eq_true, if_false]
        apply ih rest
        · have : s.length = e.length + 1 + rest.length := by rw [hse]; simp; omega
          omega
        · intro e' he'
          exact hwf e' (by rw [hsplit]; simp [he'])
        · obtain ⟨e', he', t', hel', hf'⟩ := hhas
          rw [hsplit] at he'
          rcases List.mem_cons.mp he' with rfl | he'
          · have hscan' := scan_elem e' t' (44 :: rest) hel' (Or.inr ⟨rest, rfl⟩)
            rw [← hse] at hscan'
            have : t' = t := by rw [← hscan'.1, hscan.1]
            subst this
            exact absurd hf' hf
          · exact ⟨e', he', t', hel', hf'⟩

end CentrifugeVerif.UpgradeSpec
