import CentrifugeVerif.Model.Keyed
/-!
Lemmas about the keyed delivery model (C25).
-/
namespace CentrifugeVerif.Keyed

theorem alookup_aset_self {β : Type} (k : String) (v : β) (l : List (String × β)) :
    alookup k (aset k v l) = some v := by
  simp [aset, alookup]

theorem alookup_aerase_self {β : Type} (k : String) (l : List (String × β)) :
    alookup k (aerase k l) = none := by
  induction l with
  | nil => simp [aerase, alookup]
  | cons h t ih =>
    obtain ⟨k', v⟩ := h
    by_cases hk : k' = k
    · simp [aerase, hk, ih]
    · simp [aerase, hk, alookup, ih]

theorem alookup_aerase_ne {β : Type} (k k2 : String) (l : List (String × β)) (h : k2 ≠ k) :
    alookup k2 (aerase k l) = alookup k2 l := by
  induction l with
  | nil => simp [aerase, alookup]
  | cons hd t ih =>
    obtain ⟨k', v⟩ := hd
    by_cases hk : k' = k
    · subst hk
      have : ¬ k' = k2 := fun e => h e.symm
      simp [aerase, alookup, this, ih]
    · by_cases hk2 : k' = k2
      · subst hk2
        simp [aerase, h, alookup]
      · simp [aerase, hk, alookup, hk2, ih]

theorem alookup_aset_ne {β : Type} (k k2 : String) (v : β) (l : List (String × β)) (h : k2 ≠ k) :
    alookup k2 (aset k v l) = alookup k2 l := by
  have : ¬ k = k2 := fun e => h e.symm
  simp [aset, alookup, this, alookup_aerase_ne k k2 l h]

/-- What `writePub` does, as a specification: nothing unless the key is tracked with an older version;
otherwise exactly one push whose ghost `prev` is the old version, and the new key state has the pushed
version. -/
theorem writePub_spec (cid : ConnId) (c : Conn) (k : Key) (v : Nat) (d : Data) (prep : Prep) :
    (∀ ks, alookup k c.keys = some ks → v ≤ ks.version → writePub cid c k v d prep = (c, [])) ∧
    (alookup k c.keys = none → writePub cid c k v d prep = (c, [])) ∧
    (∀ ks, alookup k c.keys = some ks → ks.version < v →
      ∃ delta res ks', (writePub cid c k v d prep).2 = [Ev.push cid k v ks.version delta res] ∧
        (writePub cid c k v d prep).1 = { c with keys := aset k ks' c.keys } ∧ ks'.version = v ∧
        (delta = true → c.delta = true ∧ ks.deltaReady = true ∧ ks.version = prep.prevVersion ∧
          ∃ base, prep.prevData = some base ∧ prep.deltaSub = true ∧
            (ks.held = some base → res = some d ∧ ks'.held = some d)) ∧
        (delta = false → res = some d ∧ ks'.held = some d)) := by
  refine ⟨?_, ?_, ?_⟩
  · intro ks h hv
    simp [writePub, h, hv]
  · intro h
    simp [writePub, h]
  · intro ks h hv
    have hv' : ¬ v ≤ ks.version := Nat.not_le.mpr hv
    unfold writePub
    simp only [h, hv', if_false]
    by_cases hu : (c.delta && prep.deltaSub && ks.deltaReady && ks.version == prep.prevVersion) = true
    · simp only [hu, if_true]
      cases hp : prep.prevData with
      | none =>
        refine ⟨false, some d, _, rfl, rfl, rfl, ?_, ?_⟩ <;> simp
      | some base =>
        simp only [Bool.and_eq_true, beq_iff_eq] at hu
        obtain ⟨⟨⟨h1, h2⟩, h3⟩, h4⟩ := hu
        by_cases hf : sameFamily base d = true
        · simp only [hf, if_true]
          refine ⟨true, _, _, rfl, rfl, rfl, ?_, ?_⟩
          · intro _
            refine ⟨h1, h3, h4, base, rfl, h2, ?_⟩
            intro hh
            simp [hh]
          · intro hc; cases hc
        · simp only [hf]
          refine ⟨false, some d, _, rfl, rfl, rfl, ?_, ?_⟩ <;> simp
    · simp only [hu]
      refine ⟨false, some d, _, rfl, rfl, rfl, ?_, ?_⟩ <;> simp

end CentrifugeVerif.Keyed
