import CentrifugeVerif.Model.MapHub
/-!
Lemmas about the association lists (`aget` / `aset` / `adel`) that model Go maps in `Model/MapHub.lean`.
-/
namespace CentrifugeVerif.MapHub

section Assoc
variable {κ ν : Type} [DecidableEq κ]

@[simp] theorem aget_nil (k : κ) : aget ([] : List (κ × ν)) k = none := rfl

theorem aget_aset_same (l : List (κ × ν)) (k : κ) (v : ν) : aget (aset l k v) k = some v := by
  induction l with
  | nil => simp [aset, aget]
  | cons x t ih =>
    obtain ⟨k', v'⟩ := x
    by_cases h : k' = k
    · simp [aset, aget, h]
    · simp [aset, aget, h, ih]

theorem aget_aset_ne (l : List (κ × ν)) (k k2 : κ) (v : ν) (hne : k2 ≠ k) :
    aget (aset l k v) k2 = aget l k2 := by
  induction l with
  | nil => simp [aset, aget, Ne.symm hne]
  | cons x t ih =>
    obtain ⟨k', v'⟩ := x
    by_cases h : k' = k
    · subst h
      simp [aset, aget, Ne.symm hne]
    · by_cases h2 : k' = k2
      · subst h2; simp [aset, aget, h]
      · simp [aset, aget, h, h2, ih]

theorem aget_aset (l : List (κ × ν)) (k k2 : κ) (v : ν) :
    aget (aset l k v) k2 = if k2 = k then some v else aget l k2 := by
  by_cases h : k2 = k
  · subst h; simp [aget_aset_same]
  · simp [h, aget_aset_ne l k k2 v h]

theorem aget_adel_same (l : List (κ × ν)) (k : κ) : aget (adel l k) k = none := by
  induction l with
  | nil => rfl
  | cons x t ih =>
    obtain ⟨k', v'⟩ := x
    by_cases h : k' = k
    · simp [adel, h, ih]
    · simp [adel, aget, h, ih]

theorem aget_adel_ne (l : List (κ × ν)) (k k2 : κ) (hne : k2 ≠ k) : aget (adel l k) k2 = aget l k2 := by
  induction l with
  | nil => rfl
  | cons x t ih =>
    obtain ⟨k', v'⟩ := x
    by_cases h : k' = k
    · subst h
      simp [adel, aget, Ne.symm hne, ih]
    · by_cases h2 : k' = k2
      · subst h2; simp [adel, aget, h]
      · simp [adel, aget, h, h2, ih]

theorem aget_adel (l : List (κ × ν)) (k k2 : κ) :
    aget (adel l k) k2 = if k2 = k then none else aget l k2 := by
  by_cases h : k2 = k
  · subst h; simp [aget_adel_same]
  · simp [h, aget_adel_ne l k k2 h]

/-- `aget` finds a binding that is in the list. -/
theorem aget_some_mem {l : List (κ × ν)} {k : κ} {v : ν} (h : aget l k = some v) : (k, v) ∈ l := by
  induction l with
  | nil => simp [aget] at h
  | cons x t ih =>
    obtain ⟨k', v'⟩ := x
    by_cases hk : k' = k
    · simp [aget, hk] at h; subst h; subst hk; simp
    · simp [aget, hk] at h; exact List.mem_cons_of_mem _ (ih h)

theorem aget_none_iff {l : List (κ × ν)} {k : κ} : aget l k = none ↔ ∀ v, (k, v) ∉ l := by
  induction l with
  | nil => simp [aget]
  | cons x t ih =>
    obtain ⟨k', v'⟩ := x
    by_cases hk : k' = k
    · subst hk
      simp only [aget, if_true]
      constructor
      · intro h; cases h
      · intro h; exact absurd (List.mem_cons_self) (h v')
    · simp only [aget, hk, if_false, ih]
      constructor
      · intro h v hm
        rcases List.mem_cons.mp hm with hm | hm
        · exact hk (by cases hm; rfl)
        · exact h v hm
      · intro h v hm; exact h v (List.mem_cons_of_mem _ hm)

/-- keys of an association list -/
def akeys (l : List (κ × ν)) : List κ := l.map (·.1)

theorem akeys_aset_nodup (l : List (κ × ν)) (k : κ) (v : ν) (h : (akeys l).Nodup) : (akeys (aset l k v)).Nodup := by
  induction l with
  | nil => simp [aset, akeys]
  | cons x t ih =>
    obtain ⟨k', v'⟩ := x
    simp only [akeys, List.map_cons, List.nodup_cons] at h
    by_cases hk : k' = k
    · subst hk; simpa [aset, akeys] using h
    · simp only [aset, hk, if_false, akeys, List.map_cons, List.nodup_cons]
      refine ⟨?_, ih h.2⟩
      intro hm
      have : k' ∈ akeys (aset t k v) := hm
      -- keys of `aset t k v` are keys of `t` or `k`
      have hsub : ∀ (t : List (κ × ν)), ∀ x ∈ akeys (aset t k v), x ∈ akeys t ∨ x = k := by
        intro t
        induction t with
        | nil => intro x hx; simp [aset, akeys] at hx; exact Or.inr hx
        | cons y t iht =>
          obtain ⟨k2, v2⟩ := y
          intro x hx
          by_cases h2 : k2 = k
          · subst h2; simp [aset, akeys] at hx ⊢; rcases hx with hx | hx
            · exact Or.inl (Or.inl hx)
            · exact Or.inl (Or.inr hx)
          · simp [aset, h2, akeys] at hx ⊢
            rcases hx with hx | hx
            · exact Or.inl (Or.inl hx)
            · rcases iht x (by simpa [akeys] using hx) with h3 | h3
              · left; right; simpa [akeys] using h3
              · exact Or.inr h3
      rcases hsub t k' this with h3 | h3
      · exact h.1 (by simpa [akeys] using h3)
      · exact hk h3

theorem akeys_adel_sub (l : List (κ × ν)) (k x : κ) (h : x ∈ akeys (adel l k)) : x ∈ akeys l ∧ x ≠ k := by
  induction l with
  | nil => simp [adel, akeys] at h
  | cons y t ih =>
    obtain ⟨k2, v2⟩ := y
    by_cases h2 : k2 = k
    · subst h2
      simp only [adel, if_true] at h
      have := ih h
      exact ⟨by simp [akeys] at this ⊢; exact Or.inr this.1, this.2⟩
    · simp only [adel, h2, if_false, akeys, List.map_cons, List.mem_cons] at h
      rcases h with h | h
      · subst h; exact ⟨by simp [akeys], h2⟩
      · have := ih (by simpa [akeys] using h)
        exact ⟨by simp [akeys] at this ⊢; exact Or.inr this.1, this.2⟩

theorem akeys_adel_nodup (l : List (κ × ν)) (k : κ) (h : (akeys l).Nodup) : (akeys (adel l k)).Nodup := by
  induction l with
  | nil => simp [adel, akeys]
  | cons y t ih =>
    obtain ⟨k2, v2⟩ := y
    simp only [akeys, List.map_cons, List.nodup_cons] at h
    by_cases h2 : k2 = k
    · simp only [adel, h2, if_true]; exact ih h.2
    · simp only [adel, h2, if_false, akeys, List.map_cons, List.nodup_cons]
      refine ⟨?_, ih h.2⟩
      intro hm
      exact h.1 (by have := (akeys_adel_sub t k k2 (by simpa [akeys] using hm)).1; simpa [akeys] using this)

end Assoc

end CentrifugeVerif.MapHub
