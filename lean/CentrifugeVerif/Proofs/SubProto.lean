import CentrifugeVerif.Model.SubProto
/-!
Helper lemmas for the subscription-protocol LTS: association lists, the structural invariant
(`Struct`: map keys are duplicate free, the subscriptions gauge equals the number of hub entries)
which every primitive effect preserves, and the induction principle over `Reachable`.
-/
namespace CentrifugeVerif.SubProto

/-! ### association lists -/

theorem aget_none_iff {β : Type} (l : List (Nat × β)) (x : Nat) :
    aget l x = none ↔ x ∉ l.map (·.1) := by
  induction l with
  | nil => simp [aget]
  | cons p r ih =>
    obtain ⟨k, v⟩ := p
    by_cases h : k = x
    · subst h; simp [aget]
    · have h' : ¬ x = k := fun e => h e.symm
      simp only [aget, h, if_false, ih, List.map_cons, List.mem_cons, not_or, h', not_false_eq_true, true_and]

theorem keys_adel {β : Type} (l : List (Nat × β)) (x y : Nat) :
    y ∈ (adel l x).map (·.1) ↔ y ∈ l.map (·.1) ∧ y ≠ x := by
  induction l with
  | nil => simp [adel]
  | cons p r ih =>
    obtain ⟨k, v⟩ := p
    by_cases h : k = x
    · subst h
      simp only [adel, if_true, ih, List.map_cons, List.mem_cons]
      constructor
      · rintro ⟨h1, h2⟩; exact ⟨Or.inr h1, h2⟩
      · rintro ⟨h1 | h1, h2⟩
        · exact absurd h1 h2
        · exact ⟨h1, h2⟩
    · simp only [adel, h, if_false, List.map_cons, List.mem_cons, ih]
      constructor
      · rintro (h1 | ⟨h1, h2⟩)
        · exact ⟨Or.inl h1, by rw [h1]; exact h⟩
        · exact ⟨Or.inr h1, h2⟩
      · rintro ⟨h1 | h1, h2⟩
        · exact Or.inl h1
        · exact Or.inr ⟨h1, h2⟩

theorem nodup_adel {β : Type} (l : List (Nat × β)) (x : Nat) (h : (l.map (·.1)).Nodup) :
    ((adel l x).map (·.1)).Nodup := by
  induction l with
  | nil => simp [adel]
  | cons p r ih =>
    obtain ⟨k, v⟩ := p
    simp only [List.map_cons, List.nodup_cons] at h
    by_cases hk : k = x
    · simp [adel, hk, ih h.2]
    · simp only [adel, hk, if_false, List.map_cons, List.nodup_cons]
      refine ⟨?_, ih h.2⟩
      intro hm
      exact h.1 ((keys_adel r x k).mp hm).1

theorem nodup_aset {β : Type} (l : List (Nat × β)) (x : Nat) (v : β) (h : (l.map (·.1)).Nodup) :
    ((aset l x v).map (·.1)).Nodup := by
  simp only [aset, List.map_cons, List.nodup_cons]
  refine ⟨?_, nodup_adel l x h⟩
  intro hm
  exact ((keys_adel l x x).mp hm).2 rfl

theorem adel_absent {β : Type} (l : List (Nat × β)) (x : Nat) (h : aget l x = none) : adel l x = l := by
  induction l with
  | nil => rfl
  | cons p r ih =>
    obtain ⟨k, v⟩ := p
    by_cases hk : k = x
    · simp [aget, hk] at h
    · simp only [aget, hk, if_false] at h
      simp [adel, hk, ih h]

theorem length_adel_present {β : Type} (l : List (Nat × β)) (x : Nat) (v : β)
    (hn : (l.map (·.1)).Nodup) (h : aget l x = some v) : (adel l x).length + 1 = l.length := by
  induction l with
  | nil => simp [aget] at h
  | cons p r ih =>
    obtain ⟨k, w⟩ := p
    simp only [List.map_cons, List.nodup_cons] at hn
    by_cases hk : k = x
    · subst hk
      have : aget r k = none := (aget_none_iff r k).mpr hn.1
      simp [adel, adel_absent r k this]
    · simp only [aget, hk, if_false] at h
      simp [adel, hk, ih hn.2 h]

theorem aget_adel_ne {β : Type} (l : List (Nat × β)) (x y : Nat) (hxy : x ≠ y) :
    aget (adel l x) y = aget l y := by
  induction l with
  | nil => rfl
  | cons p r ih =>
    obtain ⟨k, w⟩ := p
    by_cases hk : k = x
    · subst hk
      simp only [adel, if_true, aget, hxy, if_false, ih]
    · by_cases hky : k = y
      · subst hky
        simp only [adel, hk, if_false, aget, if_true]
      · simp only [adel, hk, if_false, aget, hky, ih]

theorem aget_adel_self {β : Type} (l : List (Nat × β)) (x : Nat) : aget (adel l x) x = none := by
  induction l with
  | nil => rfl
  | cons p r ih =>
    obtain ⟨k, w⟩ := p
    by_cases hk : k = x
    · subst hk; simp only [adel, if_true, ih]
    · simp only [adel, hk, if_false, aget, ih]

theorem aget_aset {β : Type} (l : List (Nat × β)) (x y : Nat) (v : β) :
    aget (aset l x v) y = if x = y then some v else aget l y := by
  by_cases hxy : x = y
  · subst hxy; simp [aset, aget]
  · simp only [aset, aget, hxy, if_false, aget_adel_ne l x y hxy]

theorem aget_adel {β : Type} (l : List (Nat × β)) (x y : Nat) :
    aget (adel l x) y = if x = y then none else aget l y := by
  by_cases hxy : x = y
  · subst hxy; simp [aget_adel_self]
  · simp only [hxy, if_false, aget_adel_ne l x y hxy]

theorem mem_sdel (l : List Nat) (x y : Nat) : y ∈ sdel l x ↔ y ∈ l ∧ y ≠ x := by
  induction l with
  | nil => simp [sdel]
  | cons k r ih =>
    by_cases hk : k = x
    · subst hk
      simp only [sdel, if_true, ih, List.mem_cons]
      constructor
      · rintro ⟨h1, h2⟩; exact ⟨Or.inr h1, h2⟩
      · rintro ⟨h1 | h1, h2⟩
        · exact absurd h1 h2
        · exact ⟨h1, h2⟩
    · simp only [sdel, hk, if_false, List.mem_cons, ih]
      constructor
      · rintro (h1 | ⟨h1, h2⟩)
        · exact ⟨Or.inl h1, by rw [h1]; exact hk⟩
        · exact ⟨Or.inr h1, h2⟩
      · rintro ⟨h1 | h1, h2⟩
        · exact Or.inl h1
        · exact Or.inr ⟨h1, h2⟩

theorem nodup_sdel (l : List Nat) (x : Nat) (h : l.Nodup) : (sdel l x).Nodup := by
  induction l with
  | nil => simp [sdel]
  | cons k r ih =>
    simp only [List.nodup_cons] at h
    by_cases hk : k = x
    · simp [sdel, hk, ih h.2]
    · simp only [sdel, hk, if_false, List.nodup_cons]
      exact ⟨fun hm => h.1 ((mem_sdel r x k).mp hm).1, ih h.2⟩

theorem nodup_sadd (l : List Nat) (x : Nat) (h : l.Nodup) : (sadd l x).Nodup := by
  simp only [sadd, List.nodup_cons]
  exact ⟨fun hm => ((mem_sdel l x x).mp hm).2 rfl, nodup_sdel l x h⟩

/-! ### the structural invariant -/

/-- Go-map well-formedness of the model state plus the gauge/hub lockstep:
`c.channels`, the hub (per client) and the presence set have no duplicate keys; the
subscriptions-inflight gauge counts exactly the hub entries. -/
structure Struct (s : State) : Prop where
  hubNodup : (s.hub.map (·.1)).Nodup
  chanNodup : (s.channels.map (·.1)).Nodup
  presNodup : s.presence.Nodup
  gauge : s.subGauge = s.hub.length

theorem Struct.init : Struct State.init := by
  constructor <;> simp [State.init]

theorem applyEff_struct (s : State) (e : Eff) (h : Struct s) : Struct (applyEff s e) := by
  cases e with
  | mint => exact ⟨h.1, h.2, h.3, h.4⟩
  | chanSet ch en => exact ⟨h.1, nodup_aset _ _ _ h.2, h.3, h.4⟩
  | chanDel ch => exact ⟨h.1, nodup_adel _ _ h.2, h.3, h.4⟩
  | hubSet ch g =>
    simp only [applyEff]
    cases hg : aget s.hub ch with
    | none =>
      refine ⟨nodup_aset _ _ _ h.1, h.2, h.3, ?_⟩
      simp [aset, adel_absent _ _ hg, h.4]
    | some g' =>
      refine ⟨nodup_aset _ _ _ h.1, h.2, h.3, ?_⟩
      have := length_adel_present _ _ _ h.1 hg
      simp [aset, h.4]; omega
  | hubDelIf ch g =>
    simp only [applyEff]
    cases hg : aget s.hub ch with
    | none => exact h
    | some g' =>
      by_cases hgg : g' = g
      · simp only [hgg, if_true]
        refine ⟨nodup_adel _ _ h.1, h.2, h.3, ?_⟩
        have := length_adel_present _ _ _ h.1 hg
        simp [h.4]; omega
      · simp only [hgg, if_false]; exact h
  | presAdd ch => exact ⟨h.1, h.2, nodup_sadd _ _ h.3, h.4⟩
  | presDel ch => exact ⟨h.1, h.2, nodup_sdel _ _ h.3, h.4⟩
  | closeGate g =>
    simp only [applyEff]
    split <;> exact ⟨h.1, h.2, h.3, h.4⟩
  | log e => exact ⟨h.1, h.2, h.3, h.4⟩
  | markClosed t => exact ⟨h.1, h.2, h.3, h.4⟩
  | unregister =>
    simp only [applyEff]
    split <;> exact ⟨h.1, h.2, h.3, h.4⟩
  | writerClose => exact ⟨h.1, h.2, h.3, h.4⟩
  | unlock => exact ⟨h.1, h.2, h.3, h.4⟩
  | spawnClose => exact ⟨h.1, h.2, h.3, h.4⟩

theorem applyEffs_struct (es : List Eff) (s : State) (h : Struct s) : Struct (applyEffs s es) := by
  induction es generalizing s with
  | nil => exact h
  | cons e r ih => exact ih _ (applyEff_struct s e h)

theorem next_struct (s s' : State) (l : Label) (h : Struct s) (hn : next s l = some s') : Struct s' := by
  cases l with
  | spawn k ch o =>
    simp only [next, Option.some.injEq] at hn
    subst hn
    exact ⟨h.1, h.2, h.3, h.4⟩
  | step tid o =>
    simp only [next] at hn
    split at hn
    · cases hn
    · split at hn
      · cases hn
      · simp only [Option.some.injEq] at hn
        subst hn
        exact applyEffs_struct _ _ ⟨h.1, h.2, h.3, h.4⟩

/-- induction over executions -/
theorem run_invariant (P : State → Prop) (hstep : ∀ s s' l, P s → next s l = some s' → P s')
    (ls : List Label) (s s' : State) (hs : P s) (hr : run s ls = some s') : P s' := by
  induction ls generalizing s with
  | nil => simp only [run, Option.some.injEq] at hr; exact hr ▸ hs
  | cons l r ih =>
    simp only [run] at hr
    split at hr
    · cases hr
    · rename_i s1 h1
      exact ih s1 (hstep s s1 l hs h1) hr

theorem reachable_invariant (P : State → Prop) (h0 : P State.init)
    (hstep : ∀ s s' l, P s → next s l = some s' → P s') (s : State) (hr : Reachable s) : P s := by
  obtain ⟨ls, hl⟩ := hr
  exact run_invariant P hstep ls _ _ h0 hl

theorem reachable_struct (s : State) (hr : Reachable s) : Struct s :=
  reachable_invariant Struct Struct.init next_struct s hr

end CentrifugeVerif.SubProto
