import CentrifugeVerif.Proofs.Partition
import CentrifugeVerif.Gen.PartitionTags4096
/-!
Kernel-evaluated facts about the bundled tag table for 4096 partitions (`Gen/PartitionTags4096.lean`,
regenerated from `precomputed.go` on every run): length, well-formedness, the slots Redis computes
(specification CRC16 + hash-tag rule), strict monotonicity of the slot list.
-/
namespace CentrifugeVerif.Partition
open CentrifugeVerif.Gen.PartitionTags
set_option maxRecDepth 1000000

theorem len4096 : tags4096.length = 4096 := by decide +kernel
theorem wf4096 : tags4096.all tagWF = true := by decide +kernel
theorem slotsEq4096 : slotsOf tags4096 = slots4096 := by decide +kernel
theorem sorted4096 : strictlyIncreasing slots4096 = true := by decide +kernel

end CentrifugeVerif.Partition
