import CentrifugeVerif.Proofs.WSReader
import CentrifugeVerif.Proofs.WSMask
import CentrifugeVerif.Spec.WSSpec
/-! The reader model against the receiver specification. -/
namespace CentrifugeVerif.WS.Reader
open CentrifugeVerif.WS CentrifugeVerif.WS.Spec

theorem xorMask_zero (pos : Nat) (bs : Bytes) : xorMask Key.zero pos bs = bs := by
  induction bs generalizing pos with
  | nil => rfl
  | cons b bs ih =>
    simp only [xorMask, ih]
    congr 1
    have : Key.zero.get pos = 0 := by
      unfold Key.get Key.zero
      split <;> rfl
    rw [this]; simp

/-- the header checks of `advanceFrame` reject exactly what the specification (with RSV1 tolerated
on control and continuation frames) rejects -/
theorem headerErrs_isEmpty (cfg : Cfg) (rf : Bool) (h : Hdr) :
    (headerErrs cfg rf h).isEmpty = !hdrViolation Quirks.go cfg (!rf) h := by
  obtain ⟨fin, rsv1, rsv2, rsv3 , op, masked, len7⟩ := h
  simp only [headerErrs, hdrViolation, Quirks.go]
  by_cases h0 : op = 0
  · subst h0; cases fin <;> cases rsv1 <;> cases rsv2 <;> cases rsv3 <;> cases masked <;> cases rf <;>
      cases hd : cfg.deflate <;> cases hs : cfg.server <;> simp [isControlOp, isDataOp]
  · by_cases h1 : op = 1
    · subst h1; cases fin <;> cases rsv1 <;> cases rsv2 <;> cases rsv3 <;> cases masked <;> cases rf <;>
        cases hd : cfg.deflate <;> cases hs : cfg.server <;> simp [isControlOp, isDataOp]
    · by_cases h2 : op = 2
      · subst h2; cases fin <;> cases rsv1 <;> cases rsv2 <;> cases rsv3 <;> cases masked <;> cases rf <;>
          cases hd : cfg.deflate <;> cases hs : cfg.server <;> simp [isControlOp, isDataOp]
      · by_cases hc : isControlOp op = true
        · have hnd : isDataOp op = false := by
            simp only [isControlOp, isDataOp, Bool.or_eq_true, beq_iff_eq] at hc ⊢
            simp only [Bool.or_eq_false_iff, beq_eq_false_iff_ne]; omega
          have hn0 : (op == 0) = false := by simpa using h0
          by_cases hl : len7 > 125 <;>
          cases fin <;> cases rsv1 <;> cases rsv2 <;> cases rsv3 <;> cases masked <;> cases rf <;>
            cases hd : cfg.deflate <;> cases hs : cfg.server <;> simp [hc, hnd, hn0, hl]
        · have hc' : isControlOp op = false := by simpa using hc
          have hnd : isDataOp op = false := by
            simp only [isDataOp, Bool.or_eq_false_iff, beq_eq_false_iff_ne]; omega
          have hn0 : (op == 0) = false := by simpa using h0
          cases fin <;> cases rsv1 <;> cases rsv2 <;> cases rsv3 <;> cases masked <;> cases rf <;>
            cases hd : cfg.deflate <;> cases hs : cfg.server <;> simp [hc', hnd, hn0]

/-- step 3 of `advanceFrame` in terms of the specification's `extLen` -/
theorem readLen_eq (st : RState) (h128 : st.readRemaining < 128) :
    readLen st = match extLen st.readRemaining st.input with
      | none => .error (.eof, { st with input := [] })
      | some (len, r2) =>
        if st.readRemaining == 127 && decide (len ≥ two63) then
          .error (.readLimit, { st with input := r2, devs := st.devs ++ [Dev.len64Msb] })
        else .ok { st with input := r2, readRemaining := len } := by
  unfold readLen extLen readN
  by_cases h6 : st.readRemaining = 126
  · simp only [h6, beq_self_eq_true, if_true, Nat.lt_irrefl, if_false]
    by_cases hl : st.input.length < 2
    · simp [hl]
    · simp [hl]
  · by_cases h7 : st.readRemaining = 127
    · simp only [h7, show ¬ (127 < 126) by omega, show ((127 : Nat) == 126) = false by rfl, if_false,
        beq_self_eq_true, if_true, Bool.true_and, Bool.false_eq_true]
      by_cases hl : st.input.length < 8
      · simp [hl]
      · simp only [hl, if_false]
        by_cases hm : beVal (st.input.take 8) ≥ two63
        · simp [hm]
        · simp [hm]
    · have h6' : (st.readRemaining == 126) = false := by simpa using h6
      have h7' : (st.readRemaining == 127) = false := by simpa using h7
      simp only [h6', h7', Bool.false_eq_true, if_false, Bool.false_and]
      by_cases hl : st.readRemaining < 126
      · simp [hl]
      · omega

/-- step 4 in terms of the specification's `takeKey` -/
theorem readMask_eq (m : Bool) (st : RState) :
    readMask m st = match takeKey m st.input with
      | none => none
      | some (key, r3) =>
        some (if m then { st with input := r3, maskKey := key, maskPos := 0 } else st) := by
  unfold readMask takeKey readN
  cases m
  · simp
  · simp only [if_true, Bool.not_true, Bool.false_eq_true, if_false]
    match hi : st.input with
    | [] => simp
    | [_] => simp
    | [_, _] => simp
    | [_, _, _] => simp
    | a :: b :: c :: d :: r =>
      have : ¬ (r.length + 1 + 1 + 1 + 1 < 4) := by omega
      simp [this]

theorem parseHdr_len7_lt (b0 b1 : UInt8) : (parseHdr b0 b1).len7 < 128 := by
  simp only [parseHdr]
  have : (b1 &&& 0x7f) ≤ 0x7f := UInt8.and_le_right
  have := UInt8.le_iff_toNat_le.mp this
  have h2 : (0x7f : UInt8).toNat = 127 := rfl
  omega

theorem writeControl_fields (st : RState) (op : Nat) (d : Bytes) :
    ∃ w c, (writeControl st op d).1 = { st with written := w, closeSent := c } := by
  unfold writeControl
  split
  · exact ⟨st.written, st.closeSent, rfl⟩
  · split
    · exact ⟨st.written, st.closeSent, rfl⟩
    · exact ⟨_, _, rfl⟩

theorem handleProtocolError_events (st : RState) (msg : String) :
    ∃ st', handleProtocolError st msg = .err (.proto msg) st' ∧ st'.events = st.events := by
  unfold handleProtocolError
  obtain ⟨w, c, h⟩ := writeControl_fields st opClose ((formatClose 1002 msg.toUTF8.toList).take 125)
  exact ⟨_, rfl, by rw [h]⟩

/-- the state after the masking key was read (step 4) -/
def afterKey (st : RState) (masked : Bool) (key : Key) (r2 r3 : Bytes) (len : Nat) : RState :=
  if masked then { st with input := r3, readRemaining := len, maskKey := key, maskPos := 0 }
  else { st with input := r2, readRemaining := len }

theorem afterKey_fields (st : RState) (masked : Bool) (key : Key) (r2 r3 : Bytes) (len : Nat) :
    (afterKey st masked key r2 r3 len).input = (if masked then r3 else r2) ∧
    (afterKey st masked key r2 r3 len).readRemaining = len ∧
    (afterKey st masked key r2 r3 len).readFinal = st.readFinal ∧
    (afterKey st masked key r2 r3 len).readLength = st.readLength ∧
    (afterKey st masked key r2 r3 len).readDecompress = st.readDecompress ∧
    (afterKey st masked key r2 r3 len).events = st.events ∧
    (masked = true → (afterKey st masked key r2 r3 len).maskKey = key ∧
      (afterKey st masked key r2 r3 len).maskPos = 0) := by
  unfold afterKey
  cases masked <;> simp

/-- steps 3-7 in specification vocabulary -/
theorem frameBody_eq (cfg : Cfg) (h : Hdr) (st : RState) (h128 : st.readRemaining < 128) :
    frameBody cfg h st =
      match extLen st.readRemaining st.input with
      | none => .err .eof { st with input := [] }
      | some (len, r2) =>
        if st.readRemaining == 127 && decide (len ≥ two63) then
          .err .readLimit { st with input := r2, devs := st.devs ++ [Dev.len64Msb] }
        else
          match takeKey h.masked r2 with
          | none => .err .eof { st with input := [], readRemaining := len }
          | some (key, r3) =>
            if h.opcode == 0 || isDataOp h.opcode then
              dataFrame cfg h.opcode (afterKey st h.masked key r2 r3 len)
            else controlFrame cfg h.opcode (afterKey st h.masked key r2 r3 len) := by
  unfold frameBody
  rw [readLen_eq st h128]
  cases hext : extLen st.readRemaining st.input with
  | none => rfl
  | some v =>
    obtain ⟨len, r2⟩ := v
    simp only []
    by_cases hmsb : (st.readRemaining == 127 && decide (len ≥ two63)) = true
    · simp only [hmsb, if_true]
    · simp only [hmsb, if_false, Bool.false_eq_true]
      rw [readMask_eq]
      simp only []
      cases hk : takeKey h.masked r2 with
      | none => rfl
      | some kv =>
        obtain ⟨key, r3⟩ := kv
        simp only []
        rfl

theorem ctl_not_data {op : Nat} (h : isControlOp op = true) : (op == 0 || isDataOp op) = false := by
  simp only [isControlOp, Bool.or_eq_true, beq_iff_eq] at h
  simp only [isDataOp, Bool.or_eq_false_iff, beq_eq_false_iff_ne]
  omega

theorem advanceFrame_short (cfg : Cfg) (st : RState) (h0 : st.readRemaining = 0)
    (hl : st.input.length < 2) : advanceFrame cfg st = .err .eof { st with input := [] } := by
  unfold advanceFrame readN
  simp [h0, hl]

theorem advanceFrame_cons (cfg : Cfg) (st : RState) (h0 : st.readRemaining = 0) (b0 b1 : UInt8)
    (r1 : Bytes) (hi : st.input = b0 :: b1 :: r1) :
    advanceFrame cfg st =
      let h := parseHdr b0 b1
      let st1 : RState := { st with
        input := r1,
        readRemaining := h.len7,
        readDecompress := h.rsv1 && cfg.deflate,
        readFinal := if isDataOp h.opcode || h.opcode == 0 then h.fin else st.readFinal }
      if !(headerErrs cfg st.readFinal h).isEmpty then
        handleProtocolError st1 (", ".intercalate (headerErrs cfg st.readFinal h))
      else frameBody cfg h st1 := by
  unfold advanceFrame readN
  have : ¬ (r1.length + 1 + 1 < 2) := by omega
  simp [h0, hi, this]

/-- step 5 against the specification's limit test -/
theorem dataFrame_over (cfg : Cfg) (op : Nat) (st : RState)
    (h : overLimit cfg (st.readLength + st.readRemaining) = true) :
    ∃ st', dataFrame cfg op st = .err .readLimit st' ∧ st'.events = st.events := by
  unfold dataFrame
  simp only []
  by_cases h63 : st.readLength + st.readRemaining ≥ two63
  · rw [if_pos h63]
    obtain ⟨w, c, hw⟩ := writeControl_fields
      { st with readLength := st.readLength + st.readRemaining } opClose (formatClose 1009 [])
    exact ⟨_, rfl, by rw [hw]⟩
  · rw [if_neg h63]
    have : (decide (cfg.readLimit > 0) && decide (st.readLength + st.readRemaining > cfg.readLimit)) = true := by
      simp only [overLimit, Bool.or_eq_true, decide_eq_true_eq] at h
      rcases h with h | h
      · exact h
      · exact absurd h h63
    rw [if_pos this]
    obtain ⟨w, c, hw⟩ := writeControl_fields
      { st with readLength := st.readLength + st.readRemaining } opClose (formatClose 1009 [])
    exact ⟨_, rfl, by rw [hw]⟩

theorem dataFrame_under (cfg : Cfg) (op : Nat) (st : RState)
    (h : overLimit cfg (st.readLength + st.readRemaining) = false) :
    dataFrame cfg op st = .ok op { st with readLength := st.readLength + st.readRemaining } := by
  unfold dataFrame
  simp only [overLimit, Bool.or_eq_false_iff, decide_eq_false_iff_not] at h
  simp only []
  rw [if_neg h.2, if_neg (by simpa using h.1)]

/-- steps 6-7: the payload is available or not -/
theorem controlFrame_eq (cfg : Cfg) (op : Nat) (st : RState) :
    controlFrame cfg op st =
      if st.input.length < st.readRemaining then .err .eof { st with input := [], readRemaining := 0 }
      else processControl op
        (if cfg.server then xorMask st.maskKey 0 (st.input.take st.readRemaining)
         else st.input.take st.readRemaining)
        { st with input := st.input.drop st.readRemaining, readRemaining := 0 } := by
  unfold controlFrame readN
  by_cases h0 : st.readRemaining > 0
  · by_cases hl : st.input.length < st.readRemaining
    · simp [h0, hl]
    · simp [h0, hl]
  · have hz : st.readRemaining = 0 := by omega
    simp only [hz, Nat.lt_irrefl, if_false, Nat.not_lt_zero, List.take_zero, List.drop_zero, xorMask,
      ite_self]
    cases st
    simp only at hz
    subst hz
    rfl

/-- the default close handler against §5.5.1/§7.4 (with the 1-byte body tolerated) -/
theorem processControl_close (payload : Bytes) (st : RState) (op : Nat) (h9 : (op == opPing) = false)
    (h10 : (op == opPong) = false) :
    ∃ e st', processControl op payload st = .err e st' ∧ st'.events = st.events ∧
      e.toEvent = closeEvent Quirks.go goValidCloseCode payload := by
  unfold processControl
  simp only [h9, h10, Bool.false_eq_true, if_false]
  match payload with
  | [] =>
    obtain ⟨w, c, hw⟩ := writeControl_fields st opClose (formatClose 1005 [])
    exact ⟨_, _, rfl, by simp [hw], by simp [closeEvent, RErr.toEvent]⟩
  | [x] =>
    obtain ⟨st', he, hev⟩ := handleProtocolError_events st "invalid close payload length"
    exact ⟨_, _, he, hev, by simp [closeEvent, RErr.toEvent, Quirks.go]⟩
  | a :: b :: text =>
    simp only [closeEvent]
    by_cases hc : (!goValidCloseCode (a.toNat * 256 + b.toNat)) = true
    · rw [if_pos hc, if_pos hc]
      obtain ⟨st', he, hev⟩ := handleProtocolError_events st
        ("bad close code " ++ toString (a.toNat * 256 + b.toNat))
      exact ⟨_, _, he, hev, rfl⟩
    · rw [if_neg hc, if_neg hc]
      by_cases hu : (!utf8Valid text) = true
      · rw [if_pos hu, if_pos hu]
        obtain ⟨st', he, hev⟩ := handleProtocolError_events st "invalid utf8 payload in close frame"
        exact ⟨_, _, he, hev, rfl⟩
      · rw [if_neg hu, if_neg hu]
        obtain ⟨w, c, hw⟩ := writeControl_fields st opClose (formatClose (a.toNat * 256 + b.toNat) [])
        exact ⟨_, _, rfl, by simp [hw], rfl⟩

/-- what the reader's state has to satisfy between frames for a given reassembly state -/
def Inv (frag : Option Frag) (st : RState) : Prop :=
  st.readRemaining = 0 ∧ st.readFinal = frag.isNone ∧
  st.readLength = (match frag with | some f => f.acc.length | none => 0)

theorem noViolation_facts {cfg : Cfg} {inMsg : Bool} {h : Hdr}
    (hv : hdrViolation Quirks.go cfg inMsg h = false) :
    h.masked = cfg.server ∧ (h.rsv1 = true → cfg.deflate = true) ∧
    (isControlOp h.opcode = true ∨ h.opcode = 0 ∨ isDataOp h.opcode = true) ∧
    (h.opcode = 0 → inMsg = true) ∧ (isDataOp h.opcode = true → inMsg = false) := by
  obtain ⟨fin, rsv1, rsv2, rsv3, op, masked, len7⟩ := h
  simp only [hdrViolation, Quirks.go] at hv
  simp only []
  by_cases h0 : op = 0
  · subst h0
    cases rsv1 <;> cases rsv2 <;> cases rsv3 <;> cases masked <;> cases inMsg <;>
      cases hd : cfg.deflate <;> cases hs : cfg.server <;> simp_all [isControlOp, isDataOp]
  · have hn0 : (op == 0) = false := by simpa using h0
    generalize hc : isControlOp op = c at hv ⊢
    generalize hdd : isDataOp op = d at hv ⊢
    cases c <;> cases d <;> cases fin <;> cases rsv1 <;> cases rsv2 <;> cases rsv3 <;> cases masked <;>
      cases inMsg <;> cases hd : cfg.deflate <;> cases hs : cfg.server <;> simp_all

theorem beVal_take2_lt (bs : Bytes) : beVal (bs.take 2) < 65536 := by
  match bs with
  | [] => simp [beVal]
  | [a] => simp [beVal]; have := a.toNat_lt; omega
  | a :: b :: r =>
    simp [beVal]
    have := a.toNat_lt; have := b.toNat_lt; omega

theorem extLen_small {l7 len : Nat} {bs r2 : Bytes} (h : extLen l7 bs = some (len, r2)) (h7 : l7 ≠ 127)
    (h128 : l7 < 128) : len < two63 := by
  unfold extLen at h
  split at h
  · simp only [Option.some.injEq, Prod.mk.injEq] at h
    rw [← h.1]; unfold two63; omega
  · split at h
    · split at h
      · cases h
      · simp only [Option.some.injEq, Prod.mk.injEq] at h
        rw [← h.1]
        have := beVal_take2_lt bs
        unfold two63; omega
    · rename_i h1 h2
      simp only [beq_iff_eq] at h2
      omega

theorem deliver_error_spec {cfg : Cfg} {typ : Nat} {dec : Bool} {acc : Bytes} {st r : RState}
    (h : deliver cfg typ dec acc st = .error r) :
    r.events = st.events ++ [Spec.deliver cfg typ dec acc] ∧ (Spec.deliver cfg typ dec acc).terminal = true := by
  unfold deliver at h
  unfold Spec.deliver
  split at h
  · rename_i hd
    simp only [hd, if_true]
    split at h
    · rename_i hi
      simp only [Except.error.injEq] at h
      rw [← h, hi]; simp [finish, RErr.toEvent, Event.terminal]
    · rename_i out hi
      split at h
      · rename_i hlim
        simp only [Except.error.injEq] at h
        obtain ⟨w, c, hw⟩ := writeControl_fields st opClose (formatClose 1009 tooBigReason)
        rw [← h, hi, hw]
        simp only [hlim, if_true]
        simp [finish, RErr.toEvent, Event.terminal]
      · cases h
  · cases h

theorem deliver_ok_spec {cfg : Cfg} {typ : Nat} {dec : Bool} {acc : Bytes} {st st3 : RState}
    (h : deliver cfg typ dec acc st = .ok st3) :
    st3 = { st with events := st.events ++ [Spec.deliver cfg typ dec acc] } ∧
    (Spec.deliver cfg typ dec acc).terminal = false := by
  unfold deliver at h
  unfold Spec.deliver
  split at h
  · rename_i hd
    simp only [hd, if_true]
    split at h
    · cases h
    · rename_i out hi
      split at h
      · cases h
      · rename_i hlim
        simp only [Except.ok.injEq] at h
        rw [← h, hi]
        simp only [hlim, if_false, Bool.false_eq_true]
        simp [Event.terminal]
  · rename_i hd
    simp only [Except.ok.injEq] at h
    simp only [hd, if_false, Bool.false_eq_true]
    rw [← h]; simp [Event.terminal]

theorem isNone_not (o : Option Frag) : (!o.isNone) = o.isSome := by cases o <;> rfl

theorem finish_events (e : RErr) (st : RState) : (finish e st).events = st.events ++ [e.toEvent] := rfl

set_option maxHeartbeats 1000000 in
/-- Main lemma: from any between-frames state, the reader's events are the events the (relaxed)
specification derives from the remaining input. -/
theorem run_eq_decodeQ (cfg : Cfg) : ∀ (fuel : Nat) (frag : Option Frag) (st : RState), Inv frag st →
    (run cfg fuel frag st).events =
      st.events ++ decodeQ Quirks.go cfg goValidCloseCode fuel frag st.input := by
  intro fuel
  induction fuel with
  | zero => intro frag st _; simp [run, decodeQ, finish, RErr.toEvent]
  | succ n ih =>
    intro frag st hinv
    obtain ⟨hrr, hrf, hrl⟩ := hinv
    rw [run]
    match hin : st.input with
    | [] =>
      rw [advanceFrame_short cfg st hrr (by simp [hin])]
      simp [decodeQ, finish, RErr.toEvent]
    | [x] =>
      rw [advanceFrame_short cfg st hrr (by simp [hin])]
      simp [decodeQ, finish, RErr.toEvent]
    | b0 :: b1 :: r1 =>
      rw [advanceFrame_cons cfg st hrr b0 b1 r1 hin]
      simp only [decodeQ]
      generalize hh : parseHdr b0 b1 = h
      have h128 : h.len7 < 128 := by rw [← hh]; exact parseHdr_len7_lt b0 b1
      rw [headerErrs_isEmpty, hrf, isNone_not]
      by_cases hv : hdrViolation Quirks.go cfg frag.isSome h = true
      · -- protocol violation in the first two bytes
        simp only [hv, Bool.not_true, Bool.not_false, if_true]
        obtain ⟨st', he, hev⟩ := handleProtocolError_events
          { st with input := r1, readRemaining := h.len7, readDecompress := h.rsv1 && cfg.deflate,
                    readFinal := if isDataOp h.opcode || h.opcode == 0 then h.fin else frag.isNone }
          (", ".intercalate (headerErrs cfg frag.isNone h))
        rw [hrf] at *
        rw [he]
        simp only [finish_events, hev, RErr.toEvent]
      · have hv' : hdrViolation Quirks.go cfg frag.isSome h = false := by simpa using hv
        obtain ⟨hmask, hrsv, hops, hcont, hdat⟩ := noViolation_facts hv'
        simp only [hv', Bool.not_false, Bool.not_true, Bool.false_eq_true, if_false]
        rw [frameBody_eq cfg h _ h128]
        simp only []
        cases hext : extLen h.len7 r1 with
        | none => simp [finish_events, RErr.toEvent]
        | some v =>
          obtain ⟨len, r2⟩ := v
          simp only []
          by_cases hmsb : (h.len7 == 127 && decide (len ≥ two63)) = true
          · have hge : len ≥ two63 := by
              simp only [Bool.and_eq_true, decide_eq_true_eq] at hmsb; exact hmsb.2
            have h7 : h.len7 = 127 := by
              simp only [Bool.and_eq_true, beq_iff_eq] at hmsb; exact hmsb.1
            simp [h7, hge, finish_events, RErr.toEvent, Quirks.go]
          · have hlt : ¬ len ≥ two63 := by
              by_cases h7 : h.len7 = 127
              · simpa [h7] using hmsb
              · have := extLen_small hext h7 h128; omega
            simp only [hmsb, hlt, if_false, Bool.false_eq_true]
            cases hk : takeKey h.masked r2 with
            | none => simp [finish_events, RErr.toEvent]
            | some kv =>
              obtain ⟨key, r3⟩ := kv
              simp only [Bool.and_false, decide_false, Bool.false_eq_true, if_false]
              -- the state after the key: only its relevant fields matter from here on
              have flds := afterKey_fields
                { st with input := r1, readRemaining := h.len7, readDecompress := h.rsv1 && cfg.deflate,
                          readFinal := if isDataOp h.opcode || h.opcode == 0 then h.fin else frag.isNone }
                h.masked key r2 r3 len
              simp only [] at flds
              generalize afterKey _ h.masked key r2 r3 len = st3 at flds ⊢
              obtain ⟨f_in, f_rem, f_fin, f_len, f_dec, f_ev, f_key⟩ := flds
              have hr3 : (if h.masked then r3 else r2) = r3 := by
                cases hm : h.masked
                · simp only [takeKey, hm, Bool.not_false, if_true, Option.some.injEq, Prod.mk.injEq] at hk
                  simp [hk.2]
                · simp
              rw [hr3] at f_in
              have hkey0 : cfg.server = false → key = Key.zero := by
                intro hs
                rw [← hmask] at hs
                simp only [takeKey, hs, Bool.not_false, if_true, Option.some.injEq, Prod.mk.injEq] at hk
                exact hk.1.symm
              rw [hmask] at f_key
              -- payload bytes as the reader unmasks them = as the specification unmasks them
              have hpay : ∀ (pos : Nat) (bs : Bytes), pos = 0 ∨ cfg.server = false →
                  (if cfg.server then xorMask st3.maskKey pos bs else bs) = xorMask key pos bs := by
                intro pos bs _
                cases hs : cfg.server
                · rw [hkey0 hs, xorMask_zero]; rfl
                · rw [(f_key hs).1]; rfl
              by_cases hctl : isControlOp h.opcode = true
              · -- control frame
                simp only [ctl_not_data hctl, hctl, Bool.false_eq_true, if_false, if_true]
                rw [controlFrame_eq, f_in, f_rem]
                by_cases hl : r3.length < len
                · simp only [hl, if_true, finish_events, RErr.toEvent, f_ev]
                · simp only [hl, if_false]
                  rw [hpay 0 _ (Or.inl rfl)]
                  by_cases h9 : h.opcode = 9
                  · -- ping
                    simp only [h9, processControl, opPing, opPong, show ((9 : Nat) == 10) = false from rfl,
                      beq_self_eq_true, Bool.false_eq_true, if_false, if_true]
                    obtain ⟨w, c, hw⟩ := writeControl_fields
                      { st3 with input := r3.drop len, readRemaining := 0,
                                 events := st3.events ++ [Event.ping (xorMask key 0 (r3.take len))] }
                      10 (xorMask key 0 (r3.take len))
                    simp only [opPong] at hw
                    rw [hw]
                    simp only [show (!(isDataOp 9 || (9 : Nat) == 0)) = true from rfl, if_true]
                    rw [ih frag _ ⟨rfl, by simp only [f_fin, ctl_not_data hctl, h9]; simpa [isDataOp] using hrf ▸ rfl,
                      by simp only [f_len]; exact hrl⟩]
                    simp [f_ev]
                  · have h9' : (h.opcode == 9) = false := by simpa using h9
                    by_cases h10 : h.opcode = 10
                    · -- pong
                      simp only [h10, processControl, opPing, opPong, show ((10 : Nat) == 9) = false from rfl,
                        beq_self_eq_true, Bool.false_eq_true, if_false, if_true]
                      simp only [show (!(isDataOp 10 || (10 : Nat) == 0)) = true from rfl, if_true]
                      rw [ih frag _ ⟨rfl, by simp only [f_fin, ctl_not_data hctl, h10]; simpa [isDataOp] using hrf ▸ rfl,
                        by simp only [f_len]; exact hrl⟩]
                      simp [f_ev]
                    · -- close
                      have h10' : (h.opcode == 10) = false := by simpa using h10
                      obtain ⟨e, st', hpc, hev, hce⟩ := processControl_close (xorMask key 0 (r3.take len))
                        { st3 with input := r3.drop len, readRemaining := 0 } h.opcode
                        (by simpa [opPing] using h9') (by simpa [opPong] using h10')
                      rw [hpc]
                      simp only [h9', h10', Bool.false_eq_true, if_false, finish_events, hev, hce, f_ev]
              · -- data or continuation frame
                have hctl' : isControlOp h.opcode = false := by simpa using hctl
                have hdat' : (h.opcode == 0 || isDataOp h.opcode) = true := by
                  rcases hops with h1 | h1 | h1
                  · exact absurd h1 hctl
                  · simp [h1]
                  · simp [h1]
                simp only [hdat', hctl', if_true, if_false, Bool.false_eq_true]
                have hfin3 : st3.readFinal = h.fin := by
                  rw [f_fin, Bool.or_comm, hdat']; rfl
                have hrdec : (h.rsv1 && cfg.deflate) = h.rsv1 := by
                  cases hr1 : h.rsv1
                  · rfl
                  · simp [hrsv hr1]
                have hchunk : ∀ bs : Bytes,
                    (if cfg.server then xorMask st3.maskKey st3.maskPos bs else bs) = xorMask key 0 bs := by
                  intro bs
                  cases hs : cfg.server
                  · rw [hkey0 hs, xorMask_zero]; rfl
                  · rw [(f_key hs).1, (f_key hs).2]; rfl
                have hacc : st3.readLength + st3.readRemaining =
                    (match frag with | some f => f.acc | none => []).length + len := by
                  rw [f_len, f_rem, hrl]; cases frag <;> rfl
                cases hov : overLimit cfg ((match frag with | some f => f.acc | none => []).length + len)
                · -- within the limit
                  rw [dataFrame_under cfg _ st3 (by rw [hacc]; exact hov)]
                  simp only []
                  have hi1 : (!(isDataOp h.opcode || h.opcode == 0)) = false := by
                    rw [Bool.or_comm, hdat']; rfl
                  have hi2 : (frag.isNone && !isDataOp h.opcode) = false := by
                    cases hd : isDataOp h.opcode
                    · have h0 : h.opcode = 0 := by
                        rcases hops with h1 | h1 | h1
                        · exact absurd h1 hctl
                        · exact h1
                        · rw [hd] at h1; cases h1
                      have := hcont h0
                      cases frag <;> simp_all
                    · simp
                  have hi3 : (frag.isSome && isDataOp h.opcode) = false := by
                    cases hd : isDataOp h.opcode
                    · simp
                    · rw [hdat hd]; rfl
                  simp only [hi1, hi2, hi3, Bool.false_eq_true, if_false]
                  unfold readPayload
                  simp only [f_in, f_rem]
                  by_cases hl : r3.length < len
                  · simp only [hl, if_true, finish_events, RErr.toEvent, f_ev]
                  · simp only [hl, if_false, hchunk, hfin3]
                    have hclen : (xorMask key 0 (r3.take len)).length = len := by
                      rw [xorMask_length, List.length_take]; omega
                    cases hfin : h.fin
                    · -- more fragments follow
                      simp only [Bool.not_false, if_true]
                      rw [ih _ _ ⟨rfl, by simp [hfin3, hfin], by
                        simp only [List.length_append, hclen, f_len, f_rem, hrl]
                        cases frag <;> simp⟩]
                      simp only [f_ev, f_dec, hrdec]
                      cases frag <;> rfl
                    · -- final fragment: deliver
                      simp only [Bool.not_true, Bool.false_eq_true, if_false, f_dec, hrdec]
                      split
                      · rename_i r hdel
                        obtain ⟨h1, h2⟩ := deliver_error_spec hdel
                        rw [h1]
                        cases frag <;> simp_all
                      · rename_i st6 hdel
                        obtain ⟨h1, h2⟩ := deliver_ok_spec hdel
                        rw [h1, ih none _ ⟨rfl, by simp [hfin3, hfin], rfl⟩]
                        cases frag <;> simp_all
                · -- over the limit
                  obtain ⟨st', he, hev⟩ := dataFrame_over cfg h.opcode st3 (by rw [hacc]; exact hov)
                  rw [he]
                  simp only [finish_events, hev, f_ev, RErr.toEvent, if_true]

/-- the relaxations only matter on streams the RFC decoder rejects as protocol violations -/
theorem hdrViolation_go_le {cfg : Cfg} {inMsg : Bool} {h : Hdr}
    (hv : hdrViolation Quirks.rfc cfg inMsg h = false) : hdrViolation Quirks.go cfg inMsg h = false := by
  obtain ⟨fin, rsv1, rsv2, rsv3, op, masked, len7⟩ := h
  simp only [hdrViolation, Quirks.go, Quirks.rfc] at hv ⊢
  generalize isControlOp op = c at hv ⊢
  generalize isDataOp op = d at hv ⊢
  generalize (op == 0) = z at hv ⊢
  generalize decide (len7 > 125) = l at hv ⊢
  cases c <;> cases d <;> cases z <;> cases l <;> cases fin <;> cases rsv1 <;> cases rsv2 <;> cases rsv3 <;>
    cases masked <;> cases inMsg <;> cases hd : cfg.deflate <;> cases hs : cfg.server <;> simp_all

theorem closeEvent_go_eq (accept : Nat → Bool) (p : Bytes)
    (h : closeEvent Quirks.rfc accept p ≠ .protoError) :
    closeEvent Quirks.go accept p = closeEvent Quirks.rfc accept p := by
  match p with
  | [] => rfl
  | [_] => simp [closeEvent, Quirks.rfc] at h
  | _ :: _ :: _ => rfl

theorem decodeQ_go_eq_rfc (cfg : Cfg) (accept : Nat → Bool) : ∀ (fuel : Nat) (frag : Option Frag)
    (bs : Bytes), Event.protoError ∉ decodeQ Quirks.rfc cfg accept fuel frag bs →
    decodeQ Quirks.go cfg accept fuel frag bs = decodeQ Quirks.rfc cfg accept fuel frag bs := by
  intro fuel
  induction fuel with
  | zero => intro frag bs _; rfl
  | succ n ih =>
    intro frag bs hp
    match bs with
    | [] => simp [decodeQ]
    | [_] => simp [decodeQ]
    | b0 :: b1 :: r1 =>
      cases frag <;> (
        simp only [decodeQ] at hp ⊢
        generalize parseHdr b0 b1 = h at hp ⊢
        split at hp
        · simp at hp
        · rename_i hvr0
          have hvr := Bool.eq_false_iff.mpr hvr0
          rw [hdrViolation_go_le hvr]
          simp only [hvr, Bool.false_eq_true, if_false] at hp ⊢
          cases hext : extLen h.len7 r1 with
          | none => rfl
          | some v =>
            obtain ⟨len, r2⟩ := v
            simp only [hext] at hp ⊢
            by_cases hge : len ≥ two63
            · simp [hge, Quirks.rfc] at hp
            · simp only [hge, if_false] at hp ⊢
              cases hk : takeKey h.masked r2 with
              | none => rfl
              | some kv =>
                obtain ⟨key, r3⟩ := kv
                simp only [hk] at hp ⊢
                cases hctl : isControlOp h.opcode
                · simp only [hctl, Bool.false_eq_true, if_false] at hp ⊢
                  split
                  · rfl
                  · rename_i hov
                    simp only [hov, if_false] at hp
                    split
                    · rfl
                    · rename_i hl
                      simp only [hl, if_false] at hp
                      split
                      · rename_i hfin
                        simp only [hfin, if_true] at hp
                        split
                        · rfl
                        · rename_i hterm
                          simp only [hterm, if_false] at hp
                          rw [ih _ _ (fun hm => hp (List.mem_cons_of_mem _ hm))]
                      · rename_i hfin
                        simp only [hfin, if_false] at hp
                        exact ih _ _ hp
                · simp only [hctl, if_true] at hp ⊢
                  by_cases hl : r3.length < len
                  · simp only [hl, if_true]
                  · simp only [hl, if_false] at hp ⊢
                    cases h9 : (h.opcode == 9)
                    · simp only [h9, Bool.false_eq_true, if_false] at hp ⊢
                      cases h10 : (h.opcode == 10)
                      · simp only [h10, Bool.false_eq_true, if_false] at hp ⊢
                        rw [closeEvent_go_eq]
                        intro hc; rw [hc] at hp; simp at hp
                      · simp only [h10, if_true] at hp ⊢
                        rw [ih _ _ (fun hm => hp (List.mem_cons_of_mem _ hm))]
                    · simp only [h9, if_true] at hp ⊢
                      rw [ih _ _ (fun hm => hp (List.mem_cons_of_mem _ hm))]
      )

/-- equal, or equal up to the last event, which is "too big" on the left where it is "protocol
error" on the right -/
def EqUptoMsb (A B : List Event) : Prop :=
  A = B ∨ ∃ pre, A = pre ++ [Event.tooBig] ∧ B = pre ++ [Event.protoError]

theorem EqUptoMsb.rfl' (A : List Event) : EqUptoMsb A A := Or.inl rfl

theorem EqUptoMsb.cons (e : Event) {A B : List Event} (h : EqUptoMsb A B) : EqUptoMsb (e :: A) (e :: B) := by
  rcases h with h | ⟨pre, h1, h2⟩
  · exact Or.inl (by rw [h])
  · exact Or.inr ⟨e :: pre, by rw [h1]; rfl, by rw [h2]; rfl⟩

/-- With only the `msbAsTooBig` relaxation left, the relaxed and the RFC decoder agree on every
stream, except that a 64-bit length with the top bit set ends the event list with "too big"
instead of "protocol error". -/
theorem decodeQ_go_vs_rfc (cfg : Cfg) (accept : Nat → Bool) : ∀ (fuel : Nat) (frag : Option Frag)
    (bs : Bytes), EqUptoMsb (decodeQ Quirks.go cfg accept fuel frag bs)
      (decodeQ Quirks.rfc cfg accept fuel frag bs) := by
  intro fuel
  induction fuel with
  | zero => intro frag bs; exact Or.inl rfl
  | succ n ih =>
    intro frag bs
    match bs with
    | [] => simp [decodeQ, EqUptoMsb]
    | [_] => simp [decodeQ, EqUptoMsb]
    | b0 :: b1 :: r1 =>
      cases frag <;> (
        simp only [decodeQ]
        generalize parseHdr b0 b1 = h
        have hvq : ∀ b, hdrViolation Quirks.go cfg b h = hdrViolation Quirks.rfc cfg b h := fun _ => rfl
        have hcq : ∀ p, closeEvent Quirks.go accept p = closeEvent Quirks.rfc accept p := fun _ => rfl
        simp only [hvq, hcq]
        split
        · exact Or.inl rfl
        · cases hext : extLen h.len7 r1 with
          | none => exact Or.inl rfl
          | some v =>
            obtain ⟨len, r2⟩ := v
            simp only []
            by_cases hge : len ≥ two63
            · simp only [hge, if_true]
              exact Or.inr ⟨[], rfl, rfl⟩
            · simp only [hge, if_false]
              cases hk : takeKey h.masked r2 with
              | none => exact Or.inl rfl
              | some kv =>
                obtain ⟨key, r3⟩ := kv
                simp only []
                cases hctl : isControlOp h.opcode
                · simp only [Bool.false_eq_true, if_false]
                  split
                  · exact Or.inl rfl
                  · split
                    · exact Or.inl rfl
                    · split
                      · split
                        · exact Or.inl rfl
                        · exact EqUptoMsb.cons _ (ih _ _)
                      · exact ih _ _
                · simp only [if_true]
                  split
                  · exact Or.inl rfl
                  · split
                    · exact EqUptoMsb.cons _ (ih _ _)
                    · split
                      · exact EqUptoMsb.cons _ (ih _ _)
                      · exact Or.inl rfl
      )

end CentrifugeVerif.WS.Reader
