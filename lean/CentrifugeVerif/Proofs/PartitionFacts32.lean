import CentrifugeVerif.Proofs.Partition
import CentrifugeVerif.Gen.PartitionTags32
/-!
Kernel-evaluated facts about the bundled tag table for 32 partitions (`Gen/PartitionTags32.lean`,
regenerated from `precomputed.go` on every run): length, well-formedness, the slots Redis computes
(specification CRC16 + hash-tag rule), strict monotonicity of the slot list, balance for every cluster size.
-/
namespace CentrifugeVerif.Partition
open CentrifugeVerif.Gen.PartitionTags
set_option maxRecDepth 1000000

theorem len32 : tags32.length = 32 := by decide +kernel
theorem wf32 : tags32.all tagWF = true := by decide +kernel
theorem slotsEq32 : slotsOf tags32 = slots32 := by decide +kernel
theorem sorted32 : strictlyIncreasing slots32 = true := by decide +kernel
theorem bal32_1 : checkRange slots32 1 32 = true := by decide +kernel

theorem balanced32 : ∀ k, 1 ≤ k → k ≤ 32 → Balanced (slotsOf tags32) k := by
  intro k h1 h2
  rw [slotsEq32]
  exact checkRange_sound _ _ _ bal32_1 k (by omega) (by omega)

end CentrifugeVerif.Partition
