import CentrifugeVerif.Model.RecoveryHub
import CentrifugeVerif.Proofs.Merge
/-!
Helper lemmas for C02 / C03: lists of publications whose offsets form a `List.range'`, the stream
invariant and its preservation, the shape of `RStream.since`, and the merge of an already sorted
recovered list with an empty buffer.
-/
namespace CentrifugeVerif.Recovery
open CentrifugeVerif.Merge

/-- offsets of a list of publications -/
abbrev offs (l : List Pub) : List Nat := l.map (·.offset)

theorem take_range' (s n k : Nat) : (List.range' s n).take k = List.range' s (min k n) := by
  induction n generalizing s k with
  | zero => simp
  | succ n ih =>
    cases k with
    | zero => simp
    | succ k =>
      rw [List.range'_succ, List.take_succ_cons, ih, Nat.succ_min_succ, List.range'_succ]

theorem offs_nil_iff {l : List Pub} {a n : Nat} (h : offs l = List.range' a n) : l = [] ↔ n = 0 := by
  have := congrArg List.length h
  simp at this
  constructor
  · intro hl; subst hl; simpa using this.symm
  · intro hn; subst hn; simpa using this

theorem offs_cons {p : Pub} {ps : List Pub} {a n : Nat} (h : offs (p :: ps) = List.range' a n) :
    ∃ m, n = m + 1 ∧ p.offset = a ∧ offs ps = List.range' (a + 1) m := by
  cases n with
  | zero => simp at h
  | succ m =>
    rw [List.range'_succ] at h
    simp only [offs, List.map_cons, List.cons.injEq] at h
    exact ⟨m, rfl, h.1, h.2⟩

/-- the `index[offset]` lookup + walk to the end on a contiguous list -/
theorem dropWhile_offs (l : List Pub) (a n so : Nat) (h : offs l = List.range' a n) :
    (a ≤ so ∧ so < a + n → l.dropWhile (fun p => p.offset != so) = l.drop (so - a)) ∧
    (¬(a ≤ so ∧ so < a + n) → l.dropWhile (fun p => p.offset != so) = []) := by
  induction l generalizing a n with
  | nil => 
    have : n = 0 := (offs_nil_iff h).mp rfl
    subst this
    constructor
    · intro hh; omega
    · intro _; rfl
  | cons p ps ih =>
    obtain ⟨m, rfl, hp, hps⟩ := offs_cons h
    have ih' := ih (a + 1) m hps
    rw [List.dropWhile_cons]
    by_cases hso : so = a
    · subst hso
      simp [hp]
    · have hne : (p.offset != so) = true := by simp [hp]; omega
      simp only [hne, if_true]
      constructor
      · intro hh
        have h1 : a + 1 ≤ so ∧ so < a + 1 + m := by omega
        rw [ih'.1 h1]
        have : so - a = (so - (a + 1)) + 1 := by omega
        rw [this, List.drop_succ_cons]
      · intro hh
        apply ih'.2
        omega

theorem offs_drop {l : List Pub} {a n : Nat} (h : offs l = List.range' a n) (k : Nat) :
    offs (l.drop k) = List.range' (a + k) (n - k) := by
  simp only [offs, List.map_drop] at *
  rw [h, List.drop_range']
  simp

theorem offs_take {l : List Pub} {a n : Nat} (h : offs l = List.range' a n) (k : Nat) :
    offs (l.take k) = List.range' a (min k n) := by
  simp only [offs, List.map_take] at *
  rw [h, take_range']

theorem offs_takeLim {l : List Pub} {a n : Nat} (h : offs l = List.range' a n) (limit : Nat) :
    offs (takeLim limit l) = List.range' a (if limit = 0 then n else min limit n) := by
  unfold takeLim
  split
  · exact h
  · exact offs_take h limit

theorem offs_head_last {l : List Pub} {a n : Nat} (h : offs l = List.range' a n) (hn : 0 < n) :
    ∃ p ps q, l = p :: ps ∧ l.getLast? = some q ∧ p.offset = a ∧ q.offset = a + n - 1 := by
  cases l with
  | nil => have := (offs_nil_iff h).mp rfl; omega
  | cons p ps =>
    obtain ⟨m, rfl, hp, _⟩ := offs_cons h
    have hl : (offs (p :: ps)).getLast? = some (a + (m + 1) - 1) := by
      rw [h, List.getLast?_range']; simp
    rw [List.getLast?_map] at hl
    cases hq : (p :: ps).getLast? with
    | none => rw [hq] at hl; simp at hl
    | some q =>
      rw [hq] at hl
      simp only [Option.map_some, Option.some.injEq] at hl
      exact ⟨p, ps, q, rfl, rfl, hp, hl⟩

theorem mem_offs {l : List Pub} {a n : Nat} (h : offs l = List.range' a n) (o : Nat) :
    (∃ p ∈ l, p.offset = o) ↔ a ≤ o ∧ o < a + n := by
  rw [← List.mem_range'_1, ← h]
  simp [offs]

theorem pairwise_of_offs {l : List Pub} {a n : Nat} (h : offs l = List.range' a n) :
    l.Pairwise (fun x y => x.offset < y.offset) := by
  have := List.pairwise_lt_range' (s := a) (n := n)
  rw [← h] at this
  exact List.pairwise_map.mp this

/-! ### the stream invariant -/

/-- `Inv`: offsets of everything ever published in this epoch are `1 … top`, the retained list is a
suffix of that log (so it is the contiguous range `(top - len, top]`), the epoch is not the empty
one, and `top + 1` does not wrap. -/
structure RStream.Inv (s : RStream) : Prop where
  bound : s.top + 1 < U64
  logOff : offs s.log = List.range' 1 s.top
  suffix : s.items = s.log.drop (s.top - s.items.length)
  len : s.items.length ≤ s.top
  epos : 0 < s.epoch

theorem RStream.Inv.itemsOff {s : RStream} (hi : s.Inv) :
    offs s.items = List.range' (s.top - s.items.length + 1) s.items.length := by
  have := offs_drop hi.logOff (s.top - s.items.length)
  rw [← hi.suffix] at this
  rw [this]
  have := hi.len
  congr 1 <;> omega

theorem RStream.Inv.logLen {s : RStream} (hi : s.Inv) : s.log.length = s.top := by
  have := congrArg List.length hi.logOff
  simpa using this

theorem inv_new (e : Nat) (he : 0 < e) : (RStream.new e).Inv :=
  ⟨by simp [RStream.new, U64], rfl, rfl, Nat.le_refl _, he⟩

theorem inv_clear {s : RStream} (hi : s.Inv) : s.clear.Inv :=
  ⟨hi.bound, hi.logOff, by simp [RStream.clear, hi.logLen], by simp [RStream.clear], hi.epos⟩

theorem inv_add {s : RStream} (hi : s.Inv) (hb : s.top + 2 < U64) (tag id size : Nat) :
    (s.add tag id size).Inv := by
  have hmod : (s.top + 1) % U64 = s.top + 1 := Nat.mod_eq_of_lt hi.bound
  have hlen := hi.len
  have hll := hi.logLen
  refine ⟨?_, ?_, ?_, ?_, hi.epos⟩
  · simp only [RStream.add, hmod]; omega
  · simp only [RStream.add, hmod, offs, List.map_append, List.map_cons, List.map_nil]
    have := hi.logOff
    simp only [offs] at this
    rw [this, List.range'_concat]
    simp [Nat.add_comm]
  · simp only [RStream.add, hmod, List.length_drop, List.length_append, List.length_cons, List.length_nil]
    conv => lhs; rw [hi.suffix]
    rw [← List.drop_append_of_le_length (by rw [hll]; omega)]
    rw [List.drop_drop]
    congr 1
    rw [List.length_drop, hll]
    omega
  · simp only [RStream.add, hmod, List.length_drop, List.length_append, List.length_cons, List.length_nil]
    omega

/-! ### `isStreamRecovered ∘ since` in closed form -/

theorem recFlag_nil (top off : Nat) : recFlag [] top off = (top == off) := rfl

theorem recFlag_offs {pubs : List Pub} {a m : Nat} (h : offs pubs = List.range' a m) (hm : 0 < m)
    (top off : Nat) : recFlag pubs top off = (a == (off + 1) % U64 && a + m - 1 == top) := by
  obtain ⟨p, ps, q, hl, hq, hp, hqo⟩ := offs_head_last h hm
  subst hl
  unfold recFlag
  rw [hq]
  simp only [hp, hqo]

/-- lower end of the retained range: the retained offsets are `(lo, top]` -/
def RStream.lo (s : RStream) : Nat := s.top - s.items.length

/-- the recovery publication limit cuts the answer short -/
def truncated (limit : Nat) (s : RStream) (off : Nat) : Prop := limit ≠ 0 ∧ limit < s.top - off

instance (limit : Nat) (s : RStream) (off : Nat) : Decidable (truncated limit s off) := by
  unfold truncated; infer_instance

/-- closed form of the stream recovery decision on a stream satisfying the invariant -/
theorem isr_spec (s : RStream) (hi : s.Inv) (off ep limit : Nat) (hoff : off < U64) (pass : Pub → Bool) :
    isStreamRecovered (s.since off ep limit) s.top s.epoch off ep pass =
      if (ep = 0 ∨ ep = s.epoch) ∧ off ≤ s.top ∧ s.lo ≤ off ∧ ¬ truncated limit s off
      then some ((s.log.drop off).map (toM pass)) else none := by
  have hio := hi.itemsOff
  have hlen := hi.len
  have hb := hi.bound
  have hll := hi.logLen
  have hmodt : (s.top + 1) % U64 = s.top + 1 := Nat.mod_eq_of_lt hb
  unfold isStreamRecovered
  by_cases hep : ep ≠ 0 ∧ s.epoch ≠ ep
  · rw [if_pos hep, if_neg]
    intro hc; rcases hc.1 with h | h
    · exact hep.1 h
    · exact hep.2 h.symm
  · rw [if_neg hep]
    have hepOK : ep = 0 ∨ ep = s.epoch := by
      by_cases h0 : ep = 0
      · exact Or.inl h0
      · right; by_cases h1 : s.epoch = ep
        · exact h1.symm
        · exact absurd ⟨h0, h1⟩ hep
    unfold RStream.since
    by_cases hfast : s.top = off ∧ ep = s.epoch
    · rw [if_pos hfast, recFlag_nil]
      obtain ⟨h1, _⟩ := hfast
      subst h1
      have : ¬ truncated limit s s.top := by unfold truncated; omega
      have hlo : s.lo ≤ s.top := by unfold RStream.lo; omega
      have hd : s.log.drop s.top = [] := List.drop_of_length_le (by omega)
      simp [hepOK, this, hlo, hd]
    · rw [if_neg hfast]
      unfold RStream.getFwd
      rw [hmodt]
      by_cases hmax : off + 1 = U64
      · -- MaxUint64: `off + 1` wraps to 0
        have hso : (off + 1) % U64 = 0 := by rw [hmax]; exact Nat.mod_self _
        rw [hso]
        have hnot : ¬ (0 ≥ s.top + 1) := by omega
        rw [if_neg hnot]
        have hdw := (dropWhile_offs s.items _ _ 0 hio).2 (by omega)
        simp only [hdw, List.isEmpty_nil, if_true]
        have hcond : ¬ ((ep = 0 ∨ ep = s.epoch) ∧ off ≤ s.top ∧ s.lo ≤ off ∧ ¬ truncated limit s off) := by
          intro hc; omega
        rw [if_neg hcond]
        have hto := offs_takeLim hio limit
        by_cases hn : s.items.length = 0
        · have : s.items = [] := List.length_eq_zero_iff.mp hn
          have htl : takeLim limit s.items = [] := by unfold takeLim; split <;> simp [this]
          simp only [htl, recFlag_nil]
          have : (s.top == off) = false := by simp; omega
          simp [this]
        · have hm : 0 < (if limit = 0 then s.items.length else min limit s.items.length) := by
            split <;> omega
          rw [recFlag_offs hto hm, hso]
          have : (s.top - s.items.length + 1 == 0) = false := by simp
          simp [this]
      · have hso : (off + 1) % U64 = off + 1 := Nat.mod_eq_of_lt (by omega)
        rw [hso]
        by_cases hge : off + 1 ≥ s.top + 1
        · rw [if_pos hge, recFlag_nil]
          by_cases heq : s.top = off
          · subst heq
            have : ¬ truncated limit s s.top := by unfold truncated; omega
            have hlo : s.lo ≤ s.top := by unfold RStream.lo; omega
            have hd : s.log.drop s.top = [] := List.drop_of_length_le (by omega)
            simp [hepOK, this, hlo, hd]
          · have : (s.top == off) = false := by simp [heq]
            have hcond : ¬ ((ep = 0 ∨ ep = s.epoch) ∧ off ≤ s.top ∧ s.lo ≤ off ∧ ¬ truncated limit s off) := by
              intro hc; omega
            simp [this, hcond]
        · rw [if_neg hge]
          by_cases hin : s.lo ≤ off
          · -- the position is retained: walk from off+1
            have hrange : s.top - s.items.length + 1 ≤ off + 1 ∧
                off + 1 < s.top - s.items.length + 1 + s.items.length := by
              unfold RStream.lo at hin; omega
            have hdw := (dropWhile_offs s.items _ _ (off + 1) hio).1 hrange
            have hk : off + 1 - (s.top - s.items.length + 1) = off - s.lo := by unfold RStream.lo; omega
            rw [hk] at hdw
            have hdo : offs (s.items.drop (off - s.lo)) = List.range' (off + 1) (s.top - off) := by
              rw [offs_drop hio]
              unfold RStream.lo at *
              congr 1 <;> omega
            have hne : s.items.drop (off - s.lo) ≠ [] := by
              intro h0; have := (offs_nil_iff hdo).mp h0; omega
            have hie : (s.items.drop (off - s.lo)).isEmpty = false := by
              cases hd : s.items.drop (off - s.lo) with
              | nil => exact absurd hd hne
              | cons x xs => rfl
            simp only [hdw, hie, Bool.false_eq_true, if_false]
            have hto := offs_takeLim hdo limit
            have hlogdrop : s.items.drop (off - s.lo) = s.log.drop off := by
              rw [hi.suffix, List.drop_drop]
              congr 1
              unfold RStream.lo at *; omega
            by_cases htr : truncated limit s off
            · have hcond : ¬ ((ep = 0 ∨ ep = s.epoch) ∧ off ≤ s.top ∧ s.lo ≤ off ∧ ¬ truncated limit s off) := by
                intro hc; exact hc.2.2.2 htr
              rw [if_neg hcond]
              unfold truncated at htr
              have hM : (if limit = 0 then s.top - off else min limit (s.top - off)) = limit := by
                rw [if_neg htr.1]; exact Nat.min_eq_left (by omega)
              rw [hM] at hto
              rw [recFlag_offs hto (by omega), hso]
              have : (off + 1 + limit - 1 == s.top) = false := by
                rw [beq_eq_false_iff_ne]; omega
              rw [this]
              simp
            · have hcond : (ep = 0 ∨ ep = s.epoch) ∧ off ≤ s.top ∧ s.lo ≤ off ∧ ¬ truncated limit s off :=
                ⟨hepOK, by omega, hin, htr⟩
              rw [if_pos hcond]
              unfold truncated at htr
              have hM : (if limit = 0 then s.top - off else min limit (s.top - off)) = s.top - off := by
                split
                · rfl
                · exact Nat.min_eq_right (by omega)
              rw [hM] at hto
              have hfull : takeLim limit (s.items.drop (off - s.lo)) = s.items.drop (off - s.lo) := by
                unfold takeLim
                split
                · rfl
                · apply List.take_of_length_le
                  have hl' : (s.items.drop (off - s.lo)).length = s.top - off := by
                    have := congrArg List.length hdo
                    simpa [offs] using this
                  omega
              rw [recFlag_offs hto (by omega), hso]
              have : (off + 1 + (s.top - off) - 1 == s.top) = true := by
                rw [beq_iff_eq]; omega
              rw [this, hfull, hlogdrop]
              simp
          · -- the position was trimmed / cleared: Front of the list is used
            have hdw := (dropWhile_offs s.items _ _ (off + 1) hio).2 (by unfold RStream.lo at hin; omega)
            simp only [hdw, List.isEmpty_nil, if_true]
            have hcond : ¬ ((ep = 0 ∨ ep = s.epoch) ∧ off ≤ s.top ∧ s.lo ≤ off ∧ ¬ truncated limit s off) := by
              intro hc; exact hin hc.2.2.1
            rw [if_neg hcond]
            have hto := offs_takeLim hio limit
            by_cases hn : s.items.length = 0
            · have : s.items = [] := List.length_eq_zero_iff.mp hn
              have htl : takeLim limit s.items = [] := by unfold takeLim; split <;> simp [this]
              simp only [htl, recFlag_nil]
              have : (s.top == off) = false := by simp; omega
              simp [this]
            · have hm : 0 < (if limit = 0 then s.items.length else min limit s.items.length) := by
                split <;> omega
              rw [recFlag_offs hto hm, hso]
              have : (s.top - s.items.length + 1 == off + 1) = false := by
                unfold RStream.lo at hin; simp; omega
              simp [this]

/-! ### merging an already sorted recovered list with an empty buffer -/

theorem isort_sorted (l : List MPub) (h : l.Pairwise (fun x y => x.offset ≤ y.offset)) : isort l = l := by
  induction l with
  | nil => rfl
  | cons p ps ih =>
    rw [List.pairwise_cons] at h
    simp only [isort, ih h.2]
    cases ps with
    | nil => rfl
    | cons q qs =>
      have := h.1 q (List.mem_cons_self)
      simp [ins, this]

theorem uniq_strict (seen : List Nat) (l : List MPub)
    (h : l.Pairwise (fun x y => x.offset < y.offset)) (hs : ∀ p ∈ l, p.offset ∉ seen) :
    uniq seen l = l.filter (fun p => !p.filtered) := by
  induction l generalizing seen with
  | nil => rfl
  | cons p ps ih =>
    rw [List.pairwise_cons] at h
    have hp := hs p List.mem_cons_self
    have hrest : ∀ q ∈ ps, q.offset ∉ seen := fun q hq => hs q (List.mem_cons_of_mem _ hq)
    by_cases hf : p.filtered = true
    · simp only [uniq, hf, if_true, List.filter_cons, Bool.not_true, Bool.false_eq_true, if_false]
      exact ih seen h.2 hrest
    · have hf' : p.filtered = false := by simpa using hf
      simp only [uniq, hf', Bool.false_eq_true, if_false, hp, List.filter_cons, Bool.not_false, if_true]
      congr 1
      apply ih _ h.2
      intro q hq hmem
      rcases List.mem_cons.mp hmem with h1 | h1
      · have := h.1 q hq; omega
      · exact hrest q hq h1

theorem merge_sorted_nobuf (r : List MPub) (h : r.Pairwise (fun x y => x.offset < y.offset)) :
    merge r [] = some (r.filter (fun p => !p.filtered), maxSeen r) := by
  have hle : r.Pairwise (fun x y => x.offset ≤ y.offset) := h.imp (fun h => Nat.le_of_lt h)
  unfold merge
  simp only [List.isEmpty_nil, if_true, Bool.not_true, Bool.false_and, Bool.false_eq_true, if_false]
  rw [isort_sorted r hle, uniq_strict [] r h (by simp)]

theorem maxSeen_le (r : List MPub) (top : Nat) (h : ∀ p ∈ r, p.offset ≤ top) : maxSeen r ≤ top := by
  unfold maxSeen
  rcases maxSeen_foldl_attained r 0 with h0 | ⟨p, hp, h0⟩
  · omega
  · rw [← h0]; exact h p hp

theorem filter_toM (pass : Pub → Bool) (l : List Pub) :
    (l.map (toM pass)).filter (fun p => !p.filtered) = (l.filter pass).map toPlain := by
  induction l with
  | nil => rfl
  | cons p ps ih =>
    by_cases hp : pass p = true
    · simp [toM, toPlain, hp, ← ih]
    · have hp' : pass p = false := by simpa using hp
      simp [toM, hp', ← ih]

/-- on a list whose offsets are `a, a+1, …`, dropping `k` = keeping offsets `≥ a + k` -/
theorem drop_eq_filter (l : List Pub) (a n k : Nat) (h : offs l = List.range' a n) :
    l.drop k = l.filter (fun p => decide (a + k ≤ p.offset)) := by
  induction l generalizing a n k with
  | nil => simp
  | cons p ps ih =>
    obtain ⟨m, rfl, hp, hps⟩ := offs_cons h
    cases k with
    | zero =>
      rw [List.drop_zero]
      symm
      apply List.filter_eq_self.mpr
      intro q hq
      have := (mem_offs h q.offset).mp ⟨q, hq, rfl⟩
      simp; omega
    | succ k =>
      rw [List.drop_succ_cons, ih (a + 1) m k hps, List.filter_cons]
      have : decide (a + (k + 1) ≤ p.offset) = false := by simp; omega
      rw [this]
      simp only [Bool.false_eq_true, if_false]
      congr 1
      funext q
      congr 1
      apply propext
      omega

theorem log_after (s : RStream) (hi : s.Inv) (off : Nat) :
    s.log.drop off = s.log.filter (fun p => decide (off < p.offset)) := by
  rw [drop_eq_filter s.log 1 s.top off hi.logOff]
  congr 1
  funext q
  congr 1
  apply propext
  omega

/-! ### stream-mode subscribe in closed form (no concurrently buffered publications) -/

/-- the condition under which the code reports `recovered = true`, in computational form -/
def streamCond (limit : Nat) (s : RStream) (req : Req) : Prop :=
  (req.epoch = 0 ∨ req.epoch = s.epoch) ∧ req.offset ≤ s.top ∧ s.lo ≤ req.offset ∧ ¬ truncated limit s req.offset

instance (limit : Nat) (s : RStream) (req : Req) : Decidable (streamCond limit s req) := by
  unfold streamCond; infer_instance

theorem dropStale_nil (off : Nat) (l : List MPub) : dropStale off [] l = l := rfl

theorem finish_nil (cacheMode delta : Bool) (top epoch reqOff : Nat) (was : Bool) :
    finish cacheMode delta false [] [] top epoch reqOff was = .reply false [] top epoch top was := by
  cases cacheMode <;> cases delta <;> simp [finish, merge, isort, uniq, maxSeen, skipped, gapsCovered]

theorem streamSubscribe_spec (limit : Nat) (s : RStream) (hi : s.Inv) (req : Req) (hoff : req.offset < U64)
    (pass : Pub → Bool) :
    streamSubscribe limit s req pass [] =
      if streamCond limit s req then
        .reply true (((s.log.filter (fun p => decide (req.offset < p.offset))).filter pass).map toPlain)
          req.offset s.epoch s.top true
      else if req.reject then .unrecoverable
      else .reply false [] s.top s.epoch s.top true := by
  have hspec := isr_spec s hi req.offset req.epoch limit hoff pass
  unfold streamSubscribe
  by_cases hep : req.epoch = 0 ∨ req.epoch = s.epoch
  · have hb : (req.epoch == 0 || req.epoch == s.epoch) = true := by
      rcases hep with h | h <;> simp [h]
    simp only [hb, Bool.not_true, Bool.false_eq_true, if_false]
    rw [hspec]
    by_cases hc : streamCond limit s req
    · have hc' : (req.epoch = 0 ∨ req.epoch = s.epoch) ∧ req.offset ≤ s.top ∧ s.lo ≤ req.offset ∧
          ¬ truncated limit s req.offset := hc
      rw [if_pos hc, if_pos hc']
      simp only
      -- the recovered list is strictly increasing, every offset ≤ top
      have hdo : offs (s.log.drop req.offset) = List.range' (1 + req.offset) (s.top - req.offset) :=
        offs_drop hi.logOff req.offset
      have hpw := pairwise_of_offs hdo
      have hpwM : ((s.log.drop req.offset).map (toM pass)).Pairwise (fun x y => x.offset < y.offset) := by
        rw [List.pairwise_map]; exact hpw
      have hle : ∀ p ∈ (s.log.drop req.offset).map (toM pass), p.offset ≤ s.top := by
        intro p hp
        obtain ⟨q, hq, rfl⟩ := List.mem_map.mp hp
        have := (mem_offs hdo q.offset).mp ⟨q, hq, rfl⟩
        have h2 := hc.2.1
        simp only [toM]; omega
      unfold finish
      rw [merge_sorted_nobuf _ hpwM, filter_toM, log_after s hi]
      simp only [dropStale_nil, Bool.false_and, Bool.false_eq_true, if_false, if_true, Bool.not_false,
        Bool.and_true, Bool.and_self]
      have hmx := maxSeen_le _ _ hle
      rw [log_after s hi] at hmx
      have hlast : ∀ p, (((s.log.filter (fun p => decide (req.offset < p.offset))).filter pass).map toPlain).getLast? = some p →
          p.offset ≤ s.top := by
        intro p hp
        have hmem := List.mem_of_getLast? hp
        obtain ⟨q, hq, rfl⟩ := List.mem_map.mp hmem
        have hq2 := (List.mem_filter.mp hq).1
        rw [← log_after s hi] at hq2
        have := (mem_offs hdo q.offset).mp ⟨q, hq2, rfl⟩
        have h2 := hc.2.1
        simp only [toPlain]; omega
      cases hgl : (((s.log.filter (fun p => decide (req.offset < p.offset))).filter pass).map toPlain).getLast? with
      | none =>
        try simp only
        rw [if_neg (by omega)]
      | some p =>
        have := hlast p hgl
        try simp only
        have h1 : ¬ (p.offset > s.top) := by omega
        rw [if_neg h1, if_neg (by omega)]
    · have hc' : ¬ ((req.epoch = 0 ∨ req.epoch = s.epoch) ∧ req.offset ≤ s.top ∧ s.lo ≤ req.offset ∧
          ¬ truncated limit s req.offset) := hc
      rw [if_neg hc, if_neg hc']
      simp only
      cases req.reject with
      | true => simp
      | false => simp [finish_nil]
  · have hb : (req.epoch == 0 || req.epoch == s.epoch) = false := by
      simp only [not_or] at hep
      simp [hep.1, hep.2]
    have hc : ¬ streamCond limit s req := fun h => hep h.1
    simp only [hb, Bool.not_false, if_true]
    rw [if_neg hc]
    cases req.reject with
    | true => simp
    | false => simp [finish_nil]

theorem pw_inj {l : List Pub} (h : l.Pairwise (fun x y => x.offset < y.offset)) {a b : Pub}
    (ha : a ∈ l) (hb : b ∈ l) (he : a.offset = b.offset) : a = b := by
  induction l with
  | nil => cases ha
  | cons x xs ih =>
    rw [List.pairwise_cons] at h
    rcases List.mem_cons.mp ha with rfl | ha' <;> rcases List.mem_cons.mp hb with rfl | hb'
    · rfl
    · have := h.1 b hb'; omega
    · have := h.1 a ha'; omega
    · exact ih h.2 ha' hb'

theorem finish_false_empty (c d r : Bool) (rp b : List MPub) (top e off : Nat) (w : Bool)
    (h : (finish c d r rp b top e off w).recovered = false) :
    (finish c d r rp b top e off w).pubs = [] := by
  unfold finish at h ⊢
  split
  · rfl
  · rename_i l mx hm
    rw [hm] at h
    simp only [Outcome.recovered] at h
    subst h
    rfl

/-- shape of the stream-mode subscribe for an arbitrary buffer: the recovery decision does not
depend on what was buffered -/
theorem streamSubscribe_shape (limit : Nat) (s : RStream) (hi : s.Inv) (req : Req) (hoff : req.offset < U64)
    (pass : Pub → Bool) (buffered : List MPub) :
    streamSubscribe limit s req pass buffered =
      if streamCond limit s req then
        finish false false true ((s.log.drop req.offset).map (toM pass)) buffered s.top s.epoch req.offset true
      else if req.reject then .unrecoverable
      else finish false false false [] buffered s.top s.epoch req.offset true := by
  have hspec := isr_spec s hi req.offset req.epoch limit hoff pass
  unfold streamSubscribe
  by_cases hep : req.epoch = 0 ∨ req.epoch = s.epoch
  · have hb : (req.epoch == 0 || req.epoch == s.epoch) = true := by
      rcases hep with h | h <;> simp [h]
    simp only [hb, Bool.not_true, Bool.false_eq_true, if_false]
    rw [hspec]
    by_cases hc : streamCond limit s req
    · have hc' : (req.epoch = 0 ∨ req.epoch = s.epoch) ∧ req.offset ≤ s.top ∧ s.lo ≤ req.offset ∧
          ¬ truncated limit s req.offset := hc
      rw [if_pos hc, if_pos hc']
    · have hc' : ¬ ((req.epoch = 0 ∨ req.epoch = s.epoch) ∧ req.offset ≤ s.top ∧ s.lo ≤ req.offset ∧
          ¬ truncated limit s req.offset) := hc
      rw [if_neg hc, if_neg hc']
  · have hb : (req.epoch == 0 || req.epoch == s.epoch) = false := by
      simp only [not_or] at hep
      simp [hep.1, hep.2]
    have hc : ¬ streamCond limit s req := fun h => hep h.1
    simp only [hb, Bool.not_false, if_true]
    rw [if_neg hc]

theorem finish_cases (c d r : Bool) (rp b : List MPub) (top e off : Nat) (w : Bool) :
    finish c d r rp b top e off w = .insufficient ∨ (finish c d r rp b top e off w).recovered = r := by
  unfold finish
  split
  · exact Or.inl rfl
  · exact Or.inr rfl

theorem streamSubscribe_cases (limit : Nat) (s : RStream) (req : Req) (pass : Pub → Bool)
    (buffered : List MPub) :
    streamSubscribe limit s req pass buffered = .unrecoverable ∨
    ∃ r rp, streamSubscribe limit s req pass buffered =
      finish false false r rp buffered s.top s.epoch req.offset true := by
  unfold streamSubscribe
  simp only
  cases hr : req.reject <;> cases he : (!(req.epoch == 0 || req.epoch == s.epoch)) <;>
    cases hm : isStreamRecovered (s.since req.offset req.epoch limit) s.top s.epoch req.offset req.epoch pass <;>
    simp only [Bool.false_eq_true, ↓reduceIte] <;>
    first | (left; rfl) | (left; trivial) | (right; exact ⟨_, _, rfl⟩)

/-- "every offset in `(off, top]` is retained" -/
def gapRetained (s : RStream) (off : Nat) : Prop :=
  ∀ o, off < o → o ≤ s.top → ∃ p ∈ s.items, p.offset = o

theorem gap_iff (s : RStream) (hi : s.Inv) (off : Nat) (hle : off ≤ s.top) :
    gapRetained s off ↔ s.lo ≤ off := by
  have hio := hi.itemsOff
  have hlen := hi.len
  unfold gapRetained RStream.lo
  constructor
  · intro h
    by_cases heq : off = s.top
    · omega
    · have := (mem_offs hio (off + 1)).mp (h (off + 1) (by omega) (by omega))
      omega
  · intro h o h1 h2
    exact (mem_offs hio o).mpr (by omega)

end CentrifugeVerif.Recovery
