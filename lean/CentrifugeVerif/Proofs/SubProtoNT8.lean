import CentrifugeVerif.Proofs.SubProtoNT7
/-!
Layer 4 of the no-timeout invariants (`L4`): `close()`.  Threads of kind `close` stay at `close()` /
`unsubscribe` program counters (KC); a thread inside `close()` holds `connectMu` (M); once the status is
closed, the closing thread still has every subscribed `c.channels` entry on its work list — in its
snapshot, or being unsubscribed right now — and when it has released `connectMu` no subscribed entry is
left (Q).
-/
namespace CentrifugeVerif.SubProto

/-- a thread of kind `close` only ever stands at `close()` / `unsubscribe` program counters -/
theorem step_closeKind (s : State) (tid : Tid) (t t' : Thread) (o : Outcome) (effs : List Eff)
    (hs : stepThread s tid t o = some (effs, t')) (hk : t.kind = .close) (hp : closeKindPc t.pc = true) :
    t'.kind = .close ∧ closeKindPc t'.pc = true := by
  step_cases hs <;> simp_all [notCommitted, unsubReturn, afterHubRm]

theorem step_lock (s : State) (tid : Tid) (t t' : Thread) (o : Outcome) (effs : List Eff)
    (hs : stepThread s tid t o = some (effs, t')) (hk : t.kind = .close) (hp : closeKindPc t.pc = true) :
    (Eff.unlock ∈ effs → t.pc = .cExit ∧ t'.pc = .done) ∧
    (inClosePc t.pc = true → inClosePc t'.pc = true ∨ (Eff.unlock ∈ effs ∧ t'.pc = .done)) ∧
    (inClosePc t.pc = false → inClosePc t'.pc = true → (Eff.markClosed tid ∈ effs ∧ s.connectMu = none ∧ s.status ≠ .closed)) := by
  step_cases hs <;> simp_all [notCommitted, unsubReturn, afterHubRm]

theorem step_markClosed' (s : State) (tid : Tid) (t t' : Thread) (o : Outcome) (effs : List Eff)
    (hs : stepThread s tid t o = some (effs, t')) (x : Tid) (hm : Eff.markClosed x ∈ effs) :
    x = tid ∧ t.pc = .cEnter ∧ s.connectMu = none ∧ s.status ≠ .closed ∧ t'.pc = .cRemoveClient ∧
      t'.pending = s.channels.map (·.1) := by
  step_cases hs <;> simp_all

theorem step_unlock (s : State) (tid : Tid) (t t' : Thread) (o : Outcome) (effs : List Eff)
    (hs : stepThread s tid t o = some (effs, t')) (hm : Eff.unlock ∈ effs) : t.pc = .cExit := by
  step_cases hs <;> simp_all


/-- the closing thread `tc` still has the subscribed entry `(ch, e)` on its work list -/
def covers (tc : Thread) (ch : Chan) (e : Entry) : Prop :=
  ch ∈ tc.pending ∨ (tc.ch = ch ∧ (snapPc tc.pc = true ∨ (removePc tc.pc = true ∧ tc.target = e.gen)))

theorem step_cover_self (s : State) (tid : Tid) (t t' : Thread) (o : Outcome) (effs : List Eff)
    (hs : stepThread s tid t o = some (effs, t')) (hnt : o ≠ .tmo) (hk : t.kind = .close) (hp : inClosePc t.pc = true) (ch : Chan) (e : Entry)
    (he : aget s.channels ch = some e) (hsb : e.subscribed = true) (hcov : covers t ch e)
    (he' : aget (after s tid t' effs).channels ch = some e) : covers t' ch e := by
  unfold covers at hcov ⊢
  step_cases hs <;> simp_all [after, aget_aset, aget_adel, mem_sdel, notCommitted, unsubReturn, afterHubRm] <;>
    (try (rcases hcov with hc | hc <;> simp_all)) <;>
    (try (exact (Decidable.em _).symm.imp id Eq.symm))


theorem step_notPend_self (s : State) (tid : Tid) (t t' : Thread) (o : Outcome) (effs : List Eff)
    (hs : stepThread s tid t o = some (effs, t')) (hk : t.kind = .close) (hp : inClosePc t.pc = true)
    (h1 : unsubWorkPc t.pc = true → t.ch ∉ t.pending) (h2 : donePendPc t.pc = true → t.pending = []) :
    (unsubWorkPc t'.pc = true → t'.ch ∉ t'.pending) ∧ (donePendPc t'.pc = true → t'.pending = []) := by
  step_cases hs <;> simp_all [mem_sdel, notCommitted, unsubReturn, afterHubRm]



theorem step_cPcKind (s : State) (tid : Tid) (t t' : Thread) (o : Outcome) (effs : List Eff)
    (hs : stepThread s tid t o = some (effs, t')) (h : cPc t.pc = true → t.kind = .close) :
    cPc t'.pc = true → t'.kind = .close := by
  step_cases hs <;> simp_all [notCommitted, unsubReturn, afterHubRm]

theorem step_connectMu (s : State) (tid : Tid) (t t' : Thread) (o : Outcome) (effs : List Eff)
    (hs : stepThread s tid t o = some (effs, t')) :
    (after s tid t' effs).connectMu =
      if Eff.markClosed tid ∈ effs then some tid else if Eff.unlock ∈ effs then none else s.connectMu := by
  step_cases hs <;> simp_all [after] <;> (try (cases t.capGate <;> simp [gateEff]))


structure L4 (s : State) : Prop where
  KC : ∀ x t, aget s.threads x = some t → (t.kind = .close → closeKindPc t.pc = true) ∧ (cPc t.pc = true → t.kind = .close)
  M : ∀ x t, aget s.threads x = some t → t.kind = .close → inClosePc t.pc = true → s.connectMu = some x
  Q : s.status = .closed →
    (∃ c tc, s.connectMu = some c ∧ aget s.threads c = some tc ∧ tc.kind = .close ∧ inClosePc tc.pc = true ∧
      (∀ ch e, aget s.channels ch = some e → e.subscribed = true → covers tc ch e) ∧
      (unsubWorkPc tc.pc = true → tc.ch ∉ tc.pending) ∧ (donePendPc tc.pc = true → tc.pending = [])) ∨
    (s.connectMu = none ∧ ∀ ch e, aget s.channels ch = some e → e.subscribed = false)

theorem L4.init : L4 State.init := by
  constructor <;> simp [State.init, aget]

theorem aget_key_mem {β : Type} (l : List (Nat × β)) (x : Nat) (v : β) (h : aget l x = some v) : x ∈ l.map (·.1) :=
  List.mem_map_of_mem (f := (·.1)) (aget_mem l x v h)

theorem inClosePc_cExit_of (pc : Pc) (h : pc = .cExit) : inClosePc pc = true := by subst h; rfl

theorem next_L4 (s s' : State) (l : Label) (hg : Ghost s) (h4 : L4 s) (hl : l.noTmo = true)
    (hn : next s l = some s') : L4 s' := by
  cases l with
  | spawn k ch o =>
    simp only [next, Option.some.injEq] at hn
    subst hn
    have hnew : ∀ x u, aget (s.threads ++ [(s.nextTid, ({ kind := k, ch := ch, opts := o, pc := initPc k } : Thread))]) x = some u →
        aget s.threads x = some u ∨ u = { kind := k, ch := ch, opts := o, pc := initPc k } := by
      intro x u hx
      cases hs : aget s.threads x with
      | some v => rw [aget_append_some _ _ _ _ hs] at hx; cases hx; exact Or.inl rfl
      | none =>
        right
        have hm := aget_mem _ _ _ hx
        simp only [List.mem_append, List.mem_singleton] at hm
        rcases hm with hm | hm
        · exact absurd (List.mem_map_of_mem (f := (·.1)) hm) ((aget_none_iff _ _).mp hs)
        · cases hm; rfl
    refine ⟨?_, ?_, ?_⟩
    · intro x u hx
      rcases hnew x u hx with h | h
      · exact h4.KC x u h
      · subst h; cases k <;> simp [initPc]
    · intro x u hx hk hp
      rcases hnew x u hx with h | h
      · exact h4.M x u h hk hp
      · subst h; cases k <;> simp [initPc] at hp hk
    · intro hc
      rcases h4.Q hc with ⟨c, tc, h1, h2, h3⟩ | h
      · exact Or.inl ⟨c, tc, h1, aget_append_some _ _ _ _ h2, h3⟩
      · exact Or.inr h
  | step tid o =>
    have hnt : o ≠ .tmo := by
      intro ho; subst ho; simp [Label.noTmo] at hl
    obtain ⟨t, effs, t', hget, hst, rfl⟩ := next_step_some hn
    have hKCt := h4.KC tid t hget
    have hmu := step_connectMu s tid t t' o effs hst
    -- when the connection is closed already, a subscribed entry of the successor state is an old one
    have hold_sub : s.status = .closed → ∀ ch e, aget (after s tid t' effs).channels ch = some e →
        e.subscribed = true → aget s.channels ch = some e := by
      intro hc ch e he hsb
      rcases channels_applyEffs _ _ _ _ he with h | h
      · exact h
      · obtain ⟨_, hcs⟩ := step_chanSet_nt s tid t t' o effs hst hnt ch e h
        rcases hcs with ⟨_, hre, _⟩ | ⟨_, e0, he0, hz⟩ | ⟨_, hnc, _⟩
        · rw [hre] at hsb; simp [Entry.reservation] at hsb
        · exact absurd hz (hg.entGen _ _ he0)
        · exact absurd hc hnc
    -- a step of a thread that is not inside close() neither takes nor releases connectMu … unless it enters
    have hnomark_closed : s.status = .closed → ∀ x, Eff.markClosed x ∉ effs := by
      intro hc x hm
      exact (step_markClosed' s tid t t' o effs hst x hm).2.2.2.1 hc
    have hunlock : Eff.unlock ∈ effs → t.kind = .close ∧ inClosePc t.pc = true := by
      intro hm
      have hp := step_unlock s tid t t' o effs hst hm
      exact ⟨hKCt.2 (by simp [hp]), by simp [hp]⟩
    refine ⟨?_, ?_, ?_⟩
    · -- KC
      intro x u hx
      rcases aget_threads_after s tid t t' effs x u hget hx with ⟨_, hxo⟩ | ⟨_, hue⟩ | hue
      · exact h4.KC x u hxo
      · rw [hue]
        refine ⟨fun hk => ?_, step_cPcKind s tid t t' o effs hst hKCt.2⟩
        have hk0 : t.kind = .close := by
          have := (step_kind_res s tid t t' o effs hst).1; rw [← this]; exact hk
        exact (step_closeKind s tid t t' o effs hst hk0 (hKCt.1 hk0)).2
      · rw [hue]; simp [autoClose]
    · -- M
      intro x u hx hk hp
      rcases aget_threads_after s tid t t' effs x u hget hx with ⟨hne, hxo⟩ | ⟨hxe, hue⟩ | hue
      · have hm := h4.M x u hxo hk hp
        rw [hmu]
        have h1 : Eff.markClosed tid ∉ effs := by
          intro hmk
          have := (step_markClosed' s tid t t' o effs hst tid hmk).2.2.1
          rw [hm] at this; cases this
        have h2 : Eff.unlock ∉ effs := by
          intro hul
          obtain ⟨hk2, hp2⟩ := hunlock hul
          have := h4.M tid t hget hk2 hp2
          rw [hm] at this; cases this; exact hne rfl
        simp [h1, h2, hm]
      · rw [hue] at hk hp
        have hk0 : t.kind = .close := by
          have := (step_kind_res s tid t t' o effs hst).1; rw [← this]; exact hk
        obtain ⟨l1, l2, l3⟩ := step_lock s tid t t' o effs hst hk0 (hKCt.1 hk0)
        rw [hmu, hxe]
        cases hin : inClosePc t.pc with
        | true =>
          have hm := h4.M tid t hget hk0 hin
          have h1 : Eff.markClosed tid ∉ effs := by
            intro hmk
            have := (step_markClosed' s tid t t' o effs hst tid hmk).2.2.1
            rw [hm] at this; cases this
          have h2 : Eff.unlock ∉ effs := by
            intro hul
            have := (l1 hul).2
            rw [this] at hp; simp at hp
          simp [h1, h2, hm]
        | false =>
          have := (l3 hin hp).1
          simp [this]
      · rw [hue] at hp; simp [autoClose] at hp
    · -- Q
      intro hc'
      rcases (status_applyEffs _ _).mp hc' with hc | ⟨x, hx⟩
      · -- closed before the step
        have hnm := hnomark_closed hc
        rcases h4.Q hc with ⟨c, tc, hmuc, hgc, hkc, hpc, hcov, hnp, hdp⟩ | ⟨hmun, hall⟩
        · by_cases hct : c = tid
          · -- the closing thread itself steps
            subst hct
            rw [hget] at hgc; cases hgc
            obtain ⟨l1, l2, l3⟩ := step_lock s c t t' o effs hst hkc (hKCt.1 hkc)
            obtain ⟨np1, np2⟩ := step_notPend_self s c t t' o effs hst hkc hpc hnp hdp
            rcases l2 hpc with hin' | ⟨hul, hdone⟩
            · left
              have h2 : Eff.unlock ∉ effs := by
                intro hul; have := (l1 hul).2; rw [this] at hin'; simp at hin'
              refine ⟨c, t', ?_, aget_threads_after_self s c t t' effs hget, ?_, hin', ?_, np1, np2⟩
              · rw [hmu]; simp [hnm c, h2, hmuc]
              · rw [(step_kind_res s c t t' o effs hst).1]; exact hkc
              · intro ch e he hsb
                have he0 := hold_sub hc ch e he hsb
                exact step_cover_self s c t t' o effs hst hnt hkc hpc ch e he0 hsb (hcov ch e he0 hsb) he
            · right
              refine ⟨by rw [hmu]; simp [hnm c, hul], ?_⟩
              intro ch e he
              rcases Bool.eq_false_or_eq_true e.subscribed with hsb | hsb
              · exfalso
                have he0 := hold_sub hc ch e he hsb
                have hcv := hcov ch e he0 hsb
                have hpe := (l1 hul).1
                have hpend := hdp (by simp [hpe])
                unfold covers at hcv
                rw [hpend, hpe] at hcv
                simp at hcv
              · exact hsb
          · -- another thread steps: the closing thread is untouched
            left
            have h2 : Eff.unlock ∉ effs := by
              intro hul
              obtain ⟨hk2, hp2⟩ := hunlock hul
              have := h4.M tid t hget hk2 hp2
              rw [hmuc] at this; cases this; exact hct rfl
            refine ⟨c, tc, ?_, aget_threads_after_other s tid t' effs c tc hct hgc, hkc, hpc, ?_, hnp, hdp⟩
            · rw [hmu]; simp [hnm tid, h2, hmuc]
            · intro ch e he hsb
              exact hcov ch e (hold_sub hc ch e he hsb) hsb
        · right
          have h2 : Eff.unlock ∉ effs := by
            intro hul
            obtain ⟨hk2, hp2⟩ := hunlock hul
            have := h4.M tid t hget hk2 hp2
            rw [hmun] at this; cases this
          refine ⟨by rw [hmu]; simp [hnm tid, h2, hmun], ?_⟩
          intro ch e he
          rcases Bool.eq_false_or_eq_true e.subscribed with hsb | hsb
          · have := hall ch e (hold_sub hc ch e he hsb)
            rw [hsb] at this; cases this
          · exact hsb
      · -- this step is close()'s first critical section
        obtain ⟨hxt, hpe, _, _, hp', hpend⟩ := step_markClosed' s tid t t' o effs hst x hx
        subst hxt
        left
        have hk0 : t.kind = .close := hKCt.2 (by simp [hpe])
        refine ⟨x, t', by rw [hmu]; simp [hx], aget_threads_after_self s x t t' effs hget, ?_, by simp [hp'], ?_, by simp [hp'], by simp [hp']⟩
        · rw [(step_kind_res s x t t' o effs hst).1]; exact hk0
        · intro ch e he hsb
          -- the entering step does not write c.channels: the entry is an old one, hence in the snapshot
          have he0 : aget s.channels ch = some e := by
            rcases channels_applyEffs _ _ _ _ he with h | h
            · exact h
            · obtain ⟨_, hcs⟩ := step_chanSet_nt s x t t' o effs hst hnt ch e h
              rcases hcs with ⟨hq, _⟩ | ⟨hq, _⟩ | ⟨hq, _⟩ <;> (rw [hpe] at hq; cases hq)
          left
          rw [hpend]
          exact aget_key_mem _ _ _ he0

end CentrifugeVerif.SubProto
