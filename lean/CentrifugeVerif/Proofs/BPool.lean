import CentrifugeVerif.Model.BPool
/-!
Helper lemmas for C42: the uint32 bit tricks really compute ⌈log2⌉ / ⌊log2⌋, and the bucket
invariants of the three pools are preserved by every operation for every resolution of the
pool's nondeterminism.
-/
namespace CentrifugeVerif.BPool

/-! ## bit length -/

theorem bitLenAux_lt (f x : Nat) (h : x < 2 ^ f) : x < 2 ^ bitLenAux f x := by
  induction f generalizing x with
  | zero => simp at h; simp [bitLenAux, h]
  | succ f ih =>
    unfold bitLenAux
    split
    · next h0 => simp [h0]
    · next h0 =>
      have h2 : x / 2 < 2 ^ f := by rw [Nat.pow_succ] at h; omega
      have := ih (x / 2) h2
      rw [Nat.add_comm, Nat.pow_succ]; omega

theorem bitLenAux_le_of_lt (f x k : Nat) (h : x < 2 ^ k) : bitLenAux f x ≤ k := by
  induction f generalizing x k with
  | zero => simp [bitLenAux]
  | succ f ih =>
    unfold bitLenAux
    split
    · omega
    · next h0 =>
      cases k with
      | zero => simp at h; omega
      | succ k =>
        have h2 : x / 2 < 2 ^ k := by rw [Nat.pow_succ] at h; omega
        have := ih (x / 2) k h2
        omega

theorem bitLenAux_ge (f x : Nat) (hx : x ≠ 0) : 2 ^ (bitLenAux f x - 1) ≤ x ∨ bitLenAux f x = 0 := by
  induction f generalizing x with
  | zero => right; rfl
  | succ f ih =>
    left
    unfold bitLenAux
    rw [if_neg hx]
    by_cases h2 : x / 2 = 0
    · have : bitLenAux f (x / 2) = 0 := by rw [h2]; cases f <;> simp [bitLenAux]
      rw [this]; simp; omega
    · rcases ih (x / 2) h2 with h | h
      · have hb : 1 + bitLenAux f (x / 2) - 1 = (bitLenAux f (x / 2) - 1) + 1 ∨ bitLenAux f (x / 2) = 0 := by omega
        rcases hb with hb | hb
        · rw [hb, Nat.pow_succ]; omega
        · rw [hb]; simp; omega
      · rw [h]; simp; omega

theorem bitLenAux_pos (f x : Nat) (hx : x ≠ 0) (h : x < 2 ^ f) : 0 < bitLenAux f x := by
  have := bitLenAux_lt f x h
  rcases Nat.eq_zero_or_pos (bitLenAux f x) with h0 | h0
  · rw [h0] at this; simp at this; omega
  · exact h0

theorem len32_le : len32 x ≤ 32 := by
  unfold len32
  generalize 32 = f
  induction f generalizing x with
  | zero => simp [bitLenAux]
  | succ f ih => unfold bitLenAux; split; omega; have := @ih (x / 2); omega

/-! ## ⌈log2⌉ and ⌊log2⌋ -/

theorem two32_eq : two32 = 2 ^ 32 := by decide

/-- `n ≤ 2^(nextLogBase2 n)` for every uint32 `n > 0`. -/
theorem le_pow_nextLogBase2 (n : Nat) (h0 : 0 < n) (h : n < two32) : n ≤ 2 ^ nextLogBase2 n := by
  unfold nextLogBase2 dec32 len32
  rw [if_neg (by omega)]
  have := bitLenAux_lt 32 (n - 1) (by rw [two32_eq] at h; omega)
  omega

/-- the rounded-up logarithm is the least such exponent. -/
theorem nextLogBase2_le (n k : Nat) (h0 : 0 < n) (h : n ≤ 2 ^ k) : nextLogBase2 n ≤ k := by
  unfold nextLogBase2 dec32 len32
  rw [if_neg (by omega)]
  exact bitLenAux_le_of_lt 32 (n - 1) k (by omega)

theorem shl1_of_lt (n : Nat) (h : n < 32) : shl1 n = 2 ^ n := by
  unfold shl1
  apply Nat.mod_eq_of_lt
  rw [two32_eq]
  exact Nat.pow_lt_pow_right (by omega) h

theorem shl1_32 : shl1 32 = 0 := by decide

/-- `2^(prevLogBase2 c) ≤ c` for every uint32 `c > 0`. -/
theorem pow_prevLogBase2_le (c : Nat) (h0 : 0 < c) (h : c < two32) : 2 ^ prevLogBase2 c ≤ c := by
  unfold prevLogBase2
  simp only
  have hL : nextLogBase2 c ≤ 32 := by unfold nextLogBase2; exact len32_le
  split
  · next heq =>
    rcases Nat.lt_or_ge (nextLogBase2 c) 32 with hl | hl
    · rw [shl1_of_lt _ hl] at heq; omega
    · have : nextLogBase2 c = 32 := by omega
      rw [this, shl1_32] at heq; omega
  · next hne =>
    unfold dec32
    split
    · next hz =>
      exfalso
      rw [hz] at hne
      unfold nextLogBase2 dec32 len32 at hz
      rw [if_neg (by omega)] at hz
      by_cases hc : c - 1 = 0
      · have : c = 1 := by omega
        subst this; exact hne (by decide)
      · have := bitLenAux_pos 32 (c - 1) hc (by rw [two32_eq] at h; omega)
        omega
    · next hz =>
      by_cases hc : c - 1 = 0
      · have : c = 1 := by omega
        subst this; exact absurd (by decide) hne
      · have := bitLenAux_ge 32 (c - 1) hc
        unfold nextLogBase2 dec32 len32
        rw [if_neg (by omega)]
        have hp := bitLenAux_pos 32 (c - 1) hc (by rw [two32_eq] at h; omega)
        rcases this with h1 | h1
        · omega
        · omega

/-- the rounded-down logarithm never exceeds the rounded-up one. -/
theorem prevLogBase2_le_next (c : Nat) : prevLogBase2 c ≤ nextLogBase2 c ∨ nextLogBase2 c = 0 := by
  unfold prevLogBase2
  simp only
  split
  · left; omega
  · unfold dec32; split
    · right; assumption
    · left; omega

theorem nextLogBase2G_eq (v : Nat) (h : v ≠ 0) : nextLogBase2G v = nextLogBase2 v := by
  unfold nextLogBase2G nextLogBase2
  rw [if_neg h]
  have := @len32_le (dec32 v)
  omega

theorem prevLogBase2G_eq (v : Nat) (h : v ≠ 0) : prevLogBase2G v = prevLogBase2 v := by
  unfold prevLogBase2G prevLogBase2
  rw [if_neg h]
  simp only [nextLogBase2G_eq v h]

theorem prevLogBase2_le (c k : Nat) (h0 : 0 < c) (h : c ≤ 2 ^ k) (hk : k < 32) : prevLogBase2 c ≤ k := by
  have hn := nextLogBase2_le c k h0 h
  rcases prevLogBase2_le_next c with h1 | h1
  · omega
  · unfold prevLogBase2; simp only; rw [h1]
    split
    · omega
    · next hne =>
      -- next = 0 means c - 1 = 0, i.e. c = 1 = 1 << 0
      exfalso
      unfold nextLogBase2 dec32 len32 at h1
      rw [if_neg (by omega)] at h1
      by_cases hc : c - 1 = 0
      · have : c = 1 := by omega
        subst this; exact hne (by decide)
      · have hlt : c - 1 < 2 ^ 32 := by
          have : 2 ^ k < 2 ^ 32 := Nat.pow_lt_pow_right (by omega) hk
          omega
        have := bitLenAux_pos 32 (c - 1) hc hlt
        omega

theorem toU32_of_nonneg (l : Int) (h0 : 0 ≤ l) (h : l < (two32 : Int)) : toU32 l = l.toNat := by
  unfold toU32
  rw [Int.emod_eq_of_lt h0 h]

/-! ## buffers -/

@[simp] theorem Buf.reslice0_len (b : Buf) : b.reslice0.len = 0 := rfl
@[simp] theorem Buf.reslice0_cap (b : Buf) : b.reslice0.cap = b.cap := by
  simp [Buf.reslice0, Buf.cap]
@[simp] theorem Buf.clearVis_cap (b : Buf) : b.clearVis.cap = b.cap := by
  simp [Buf.clearVis, Buf.cap]
@[simp] theorem Buf.clearAll_cap (b : Buf) : b.clearAll.cap = b.cap := by
  simp [Buf.clearAll, Buf.cap]
@[simp] theorem Buf.fresh_len (l c : Nat) : (Buf.fresh l c).len = l := by simp [Buf.fresh, Buf.len]
theorem Buf.fresh_cap (l c : Nat) (h : l ≤ c) : (Buf.fresh l c).cap = c := by
  simp [Buf.fresh, Buf.cap]; omega

/-- all elements of the backing array are zero -/
def Buf.clean (b : Buf) : Prop := (∀ x ∈ b.vis, x = false) ∧ (∀ x ∈ b.hid, x = false)

theorem Buf.fresh_clean (l c : Nat) : (Buf.fresh l c).clean := by
  constructor <;> intro x hx <;> simp [Buf.fresh] at hx <;> exact hx.2

theorem Buf.reslice_some (b : Buf) (n : Nat) (h : n ≤ b.cap) :
    ∃ b', b.reslice n = some b' ∧ b'.len = n ∧ b'.cap = b.cap ∧ (b.clean → b'.clean) := by
  refine ⟨⟨(b.vis ++ b.hid).take n, (b.vis ++ b.hid).drop n⟩, by simp [Buf.reslice, h], ?_, ?_, ?_⟩
  · simp [Buf.len, Buf.cap] at *; omega
  · simp [Buf.cap] at *; omega
  · rintro ⟨h1, h2⟩
    constructor
    · intro x hx
      have := List.mem_of_mem_take hx
      rcases List.mem_append.mp this with h | h
      · exact h1 x h
      · exact h2 x h
    · intro x hx
      have := List.mem_of_mem_drop hx
      rcases List.mem_append.mp this with h | h
      · exact h1 x h
      · exact h2 x h

theorem Buf.clearAll_reslice0_clean (b : Buf) : b.clearAll.reslice0.clean := by
  constructor
  · intro x hx; simp [Buf.reslice0] at hx
  · intro x hx
    simp only [Buf.reslice0, Buf.clearAll, List.mem_append, List.mem_replicate] at hx
    rcases hx with h | h <;> exact h.2

theorem Buf.clearVis_reslice0_clean (b : Buf) (h : ∀ x ∈ b.hid, x = false) : b.clearVis.reslice0.clean := by
  constructor
  · intro x hx; simp [Buf.reslice0] at hx
  · intro x hx
    simp only [Buf.reslice0, Buf.clearVis, List.mem_append, List.mem_replicate] at hx
    rcases hx with h' | h'
    · exact h'.2
    · exact h x h'

/-! ## pools -/

theorem Pools.mem_add {p : Pools} {i j : Nat} {b x : Buf} (h : x ∈ p.add i b j) :
    (j = i ∧ x = b) ∨ x ∈ p j := by
  unfold Pools.add at h
  split at h
  · next hj => rcases List.mem_cons.mp h with h | h
               · left; exact ⟨hj, h⟩
               · right; exact h
  · right; exact h

theorem Pools.mem_remove {p : Pools} {i pos j : Nat} {x : Buf} (h : x ∈ p.remove i pos j) : x ∈ p j := by
  unfold Pools.remove at h
  split at h
  · exact List.mem_of_mem_eraseIdx h
  · exact h

theorem poolGet_some {p : Pools} {i : Nat} {c : Option Nat} {b : Buf} {p' : Pools}
    (h : poolGet p i c = some (b, p')) : b ∈ p i ∧ ∀ j x, x ∈ p' j → x ∈ p j := by
  unfold poolGet at h
  split at h
  · cases h
  · next pos =>
    split at h
    · cases h
    · next b0 hb =>
      cases h
      exact ⟨List.mem_of_getElem? hb, fun j x hx => Pools.mem_remove hx⟩

/-- bucket invariant, parametrised by what is known about a pooled buffer besides its capacity -/
def Inv (P : Buf → Prop) (p : Pools) : Prop := ∀ i b, b ∈ p i → 2 ^ i ≤ b.cap ∧ P b

theorem Inv.empty (P : Buf → Prop) : Inv P Pools.empty := by
  intro i b h; simp [Pools.empty] at h

theorem Inv.remove {P : Buf → Prop} {p : Pools} (h : Inv P p) (i pos : Nat) : Inv P (p.remove i pos) :=
  fun j b hb => h j b (Pools.mem_remove hb)

theorem Inv.add {P : Buf → Prop} {p : Pools} (h : Inv P p) (i : Nat) (b : Buf)
    (hc : 2 ^ i ≤ b.cap) (hb : P b) : Inv P (p.add i b) := by
  intro j x hx
  rcases Pools.mem_add hx with ⟨rfl, rfl⟩ | h'
  · exact ⟨hc, hb⟩
  · exact h j x h'

end CentrifugeVerif.BPool
