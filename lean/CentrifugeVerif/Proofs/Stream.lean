import CentrifugeVerif.Model.Stream
/-!
Lemmas about `Model/Stream.lean`: the contiguity invariant is kept by every mutator and, under the
invariant, `Get` is the filter `getSpec` of the retained items (all useOffset × reverse × limit
combinations, index-miss fallbacks included).
-/
namespace CentrifugeVerif.MemStream

variable {α : Type}

/-- lists whose offsets are the contiguous run `a, a+1, …` -/
def Contig (a : Nat) (l : List (Item α)) : Prop := l.map (·.offset) = List.range' a l.length

theorem contig_nil (a : Nat) : Contig a ([] : List (Item α)) := by simp [Contig]

theorem contig_cons {a : Nat} {x : Item α} {xs : List (Item α)} :
    Contig a (x :: xs) ↔ x.offset = a ∧ Contig (a + 1) xs := by
  simp [Contig, List.range'_succ]

theorem contig_mem {a : Nat} {l : List (Item α)} (h : Contig a l) {it : Item α} (hm : it ∈ l) :
    a ≤ it.offset ∧ it.offset < a + l.length := by
  have : it.offset ∈ l.map (·.offset) := List.mem_map_of_mem hm
  rw [h] at this
  exact List.mem_range'_1.mp this

/-- forward filter of a contiguous list is a `drop` -/
theorem contig_filter_ge {a : Nat} {l : List (Item α)} (h : Contig a l) (o : Nat) :
    l.filter (fun it => decide (o ≤ it.offset)) = l.drop (o - a) := by
  induction l generalizing a with
  | nil => simp
  | cons x xs ih =>
    obtain ⟨hx, hxs⟩ := contig_cons.mp h
    by_cases hle : o ≤ a
    · have h0 : o - a = 0 := by omega
      rw [h0, List.drop_zero, List.filter_eq_self]
      intro it hit
      have := contig_mem h hit
      simp; omega
    · have : o - a = (o - (a + 1)) + 1 := by omega
      rw [this, List.drop_succ_cons, List.filter_cons]
      have : ¬ o ≤ x.offset := by omega
      simp [this, ih hxs]

/-- backward filter of a contiguous list is a `take` -/
theorem contig_filter_le {a : Nat} {l : List (Item α)} (h : Contig a l) (o : Nat) :
    l.filter (fun it => decide (it.offset ≤ o)) = if o < a then [] else l.take (o - a + 1) := by
  induction l generalizing a with
  | nil => simp
  | cons x xs ih =>
    obtain ⟨hx, hxs⟩ := contig_cons.mp h
    by_cases hlt : o < a
    · simp only [hlt, if_true, List.filter_eq_nil_iff]
      intro it hit
      have := contig_mem h hit
      simp; omega
    · have hxo : x.offset ≤ o := by omega
      simp only [hlt, if_false, List.filter_cons, hxo, decide_true, if_true, List.take_succ_cons]
      rw [ih hxs]
      by_cases h2 : o < a + 1
      · have : o - a = 0 := by omega
        simp [h2, this]
      · have : o - a = o - (a + 1) + 1 := by omega
        simp [h2, this]

theorem fromOffset_contig {a : Nat} {l : List (Item α)} (h : Contig a l) (o : Nat) :
    fromOffset o l = if a ≤ o ∧ o < a + l.length then some (l.drop (o - a)) else none := by
  induction l generalizing a with
  | nil => simp [fromOffset]
  | cons x xs ih =>
    obtain ⟨hx, hxs⟩ := contig_cons.mp h
    unfold fromOffset
    simp only [List.length_cons]
    by_cases he : x.offset = o
    · have : o - a = 0 := by omega
      have hc : a ≤ o ∧ o < a + (xs.length + 1) := by omega
      simp [he, this, hc]
    · rw [if_neg he, ih hxs]
      by_cases hc : a + 1 ≤ o ∧ o < a + 1 + xs.length
      · have hc' : a ≤ o ∧ o < a + (xs.length + 1) := by omega
        have : o - a = o - (a + 1) + 1 := by omega
        rw [if_pos hc, if_pos hc', this, List.drop_succ_cons]
      · have hc' : ¬ (a ≤ o ∧ o < a + (xs.length + 1)) := by omega
        rw [if_neg hc, if_neg hc']

theorem uptoOffsetRev_contig {a : Nat} {l : List (Item α)} (h : Contig a l) (o : Nat)
    (acc : List (Item α)) :
    uptoOffsetRev o acc l =
      if a ≤ o ∧ o < a + l.length then some ((l.take (o - a + 1)).reverse ++ acc) else none := by
  induction l generalizing a acc with
  | nil => simp [uptoOffsetRev]
  | cons x xs ih =>
    obtain ⟨hx, hxs⟩ := contig_cons.mp h
    unfold uptoOffsetRev
    simp only [List.length_cons]
    by_cases he : x.offset = o
    · have : o - a = 0 := by omega
      have hc : a ≤ o ∧ o < a + (xs.length + 1) := by omega
      simp [he, this, hc]
    · rw [if_neg he, ih hxs]
      by_cases hc : a + 1 ≤ o ∧ o < a + 1 + xs.length
      · have hc' : a ≤ o ∧ o < a + (xs.length + 1) := by omega
        have : o - a + 1 = (o - (a + 1) + 1) + 1 := by omega
        rw [if_pos hc, if_pos hc', this, List.take_succ_cons]
        simp
      · have hc' : ¬ (a ≤ o ∧ o < a + (xs.length + 1)) := by omega
        rw [if_neg hc, if_neg hc']

theorem takeLim_nil {β : Type} (limit : Int) : takeLim limit ([] : List β) = [] := by
  unfold takeLim; split <;> simp

theorem takeLim_zero {β : Type} (l : List β) : takeLim 0 l = [] := by
  simp [takeLim]

theorem takeLim_length_le {β : Type} (limit : Int) (l : List β) : (takeLim limit l).length ≤ l.length := by
  unfold takeLim; split <;> simp [List.length_take]; omega

/-- with a non-negative limit at most `limit` entries come back -/
theorem takeLim_length_le_limit {β : Type} (limit : Int) (l : List β) (h : 0 ≤ limit) :
    (takeLim limit l).length ≤ limit.toNat := by
  unfold takeLim
  have : ¬ limit < 0 := by omega
  simp [this, List.length_take]; omega

theorem takeLim_sublist_prefix {β : Type} (limit : Int) (l : List β) : takeLim limit l <+: l := by
  unfold takeLim; split
  · exact List.prefix_refl _
  · exact List.take_prefix _ _

theorem inv_contig {s : MStream α} (h : s.Inv) : Contig (s.top - s.items.length + 1) s.items := h.1

/-- a fresh stream satisfies the invariant -/
theorem new_inv (e : Nat) : (MStream.new e : MStream α).Inv := by
  simp [MStream.new, MStream.Inv]

/-- **`Add` keeps the invariant**, assigns `top + 1`, and keeps at most `size` items. -/
theorem stream_add_inv (s : MStream α) (h : s.Inv) (v : α) (size ver : Nat) (ve : String) :
    (s.add v size ver ve).1.Inv ∧ (s.add v size ver ve).2 = s.top + 1 ∧
      (s.add v size ver ve).1.top = s.top + 1 ∧
      (s.add v size ver ve).1.items.length = min size (s.items.length + 1) ∧
      (s.add v size ver ve).1.epoch = s.epoch := by
  obtain ⟨h1, h2⟩ := h
  refine ⟨?_, rfl, rfl, ?_, rfl⟩
  · unfold MStream.add MStream.Inv
    simp only [List.map_drop, List.map_append, List.map_cons, List.map_nil, List.length_drop,
      List.length_append, List.length_cons, List.length_nil, h1]
    have hc : List.range' (s.top - s.items.length + 1) s.items.length ++ [s.top + 1] =
        List.range' (s.top - s.items.length + 1) (s.items.length + 1) := by
      rw [List.range'_concat]; congr 2; omega
    rw [hc, List.drop_range']
    constructor
    · congr 1 <;> omega
    · omega
  · unfold MStream.add
    simp only [List.length_drop, List.length_append, List.length_cons, List.length_nil]
    omega

/-- after `Add` (with `size > 0`) the new item is the last retained one -/
theorem stream_add_last (s : MStream α) (v : α) (size ver : Nat) (ve : String) (hs : 0 < size) :
    (s.add v size ver ve).1.items.getLast? = some { offset := s.top + 1, value := v } := by
  unfold MStream.add
  simp only
  rw [List.getLast?_drop]
  simp; omega

theorem clear_inv (s : MStream α) : s.clear.Inv := by simp [MStream.clear, MStream.Inv]

theorem reset_inv (s : MStream α) (e : Nat) : (s.reset e).Inv := by simp [MStream.reset, MStream.Inv]

/-- **`Get` = the filter of the retained items** for every `offset`, `useOffset`, `limit`
(positive, zero, negative) and direction, index-miss fallbacks included. -/
theorem get_spec (s : MStream α) (h : s.Inv) (offset : Nat) (useOffset : Bool) (limit : Int)
    (reverse : Bool) :
    s.get offset useOffset limit reverse = s.getSpec offset useOffset limit reverse := by
  obtain ⟨hc, hl⟩ := h
  have hc : Contig (s.top - s.items.length + 1) s.items := hc
  have hzero : ∀ (w : List (Item α)), (if limit = 0 then [] else takeLim limit w) = takeLim limit w := by
    intro w; split
    · rename_i h0; rw [h0, takeLim_zero]
    · rfl
  cases useOffset <;> cases reverse
  · -- no offset, forward
    simp only [MStream.get, MStream.getSpec, Bool.false_and, Bool.false_eq_true, if_false]
    cases hi : s.items with
    | nil => simp [takeLim_nil]
    | cons x xs => simp [hzero]
  · -- no offset, reverse
    simp only [MStream.get, MStream.getSpec, Bool.false_and, Bool.false_eq_true, if_false]
    cases hi : s.items with
    | nil => simp [takeLim_nil]
    | cons x xs => simp [hzero]
  · -- offset, forward
    simp only [MStream.get, MStream.getSpec, Bool.true_and, decide_eq_true_eq, if_true,
      Bool.false_eq_true, if_false]
    rw [contig_filter_ge hc]
    by_cases hbig : offset ≥ s.top + 1
    · have : s.items.drop (offset - (s.top - s.items.length + 1)) = [] := by
        apply List.drop_eq_nil_of_le; omega
      simp [hbig, this, takeLim_nil]
    · rw [if_neg hbig, fromOffset_contig hc]
      by_cases hin : s.top - s.items.length + 1 ≤ offset ∧ offset < s.top - s.items.length + 1 + s.items.length
      · simp [hin, hzero]
      · have h0 : offset - (s.top - s.items.length + 1) = 0 := by omega
        rw [if_neg hin, h0, List.drop_zero]
        cases hi : s.items with
        | nil => simp [takeLim_nil]
        | cons x xs => simp [hzero]
  · -- offset, reverse
    simp only [MStream.get, MStream.getSpec, Bool.true_and, decide_eq_true_eq, if_true]
    by_cases hbig : offset ≥ s.top + 1
    · have : offset > s.top := by omega
      simp [hbig, this]
    · have hnb : ¬ offset > s.top := by omega
      rw [if_neg hbig, if_neg hnb, uptoOffsetRev_contig hc, contig_filter_le hc]
      by_cases hin : s.top - s.items.length + 1 ≤ offset ∧ offset < s.top - s.items.length + 1 + s.items.length
      · have : ¬ offset < s.top - s.items.length + 1 := by omega
        simp [hin, this, hzero]
      · have : offset < s.top - s.items.length + 1 := by omega
        simp [hin, this, takeLim_nil]

/-- corollary: the number of returned items never exceeds a non-negative limit -/
theorem get_length_le_limit (s : MStream α) (offset : Nat) (useOffset : Bool) (limit : Int)
    (reverse : Bool) (hl : 0 ≤ limit) : (s.get offset useOffset limit reverse).length ≤ limit.toNat := by
  unfold MStream.get
  split
  · simp
  · simp only
    split
    · simp
    · split
      · simp
      · exact takeLim_length_le_limit _ _ hl

end CentrifugeVerif.MemStream
