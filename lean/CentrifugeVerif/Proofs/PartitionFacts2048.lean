import CentrifugeVerif.Proofs.Partition
import CentrifugeVerif.Gen.PartitionTags2048
/-!
Kernel-evaluated facts about the bundled tag table for 2048 partitions (`Gen/PartitionTags2048.lean`,
regenerated from `precomputed.go` on every run): length, well-formedness, the slots Redis computes
(specification CRC16 + hash-tag rule), strict monotonicity of the slot list.
-/
namespace CentrifugeVerif.Partition
open CentrifugeVerif.Gen.PartitionTags
set_option maxRecDepth 1000000

theorem len2048 : tags2048.length = 2048 := by decide +kernel
theorem wf2048 : tags2048.all tagWF = true := by decide +kernel
theorem slotsEq2048 : slotsOf tags2048 = slots2048 := by decide +kernel
theorem sorted2048 : strictlyIncreasing slots2048 = true := by decide +kernel

end CentrifugeVerif.Partition
