import CentrifugeVerif.Proofs.HandshakeKey
/-!
Helper lemmas for C31: exactly which strings Go's `base64.StdEncoding.Decode` (as used by
`isValidChallengeKey`: 24 characters, `n == 16`) accepts — accounting of significant
characters (rules out `\r`/`\n`, which the Go decoder skips) and the shape of the accepted text.
-/
namespace CentrifugeVerif.C31
open CentrifugeVerif.Sha1 (Bytes ascii be sha1)
open CentrifugeVerif.Base64
open CentrifugeVerif.Handshake

/-- base64 alphabet character -/
def isAlpha (c : UInt8) : Bool := (dec6 c).isSome

/-- characters that count towards the encoded length: alphabet characters and `=` -/
def sigCount : Bytes → Nat
  | [] => 0
  | c :: cs => (if isAlpha c || c == 61 then 1 else 0) + sigCount cs

theorem sigCount_le_length (s : Bytes) : sigCount s ≤ s.length := by
  induction s with
  | nil => simp [sigCount]
  | cons c cs ih => simp only [sigCount, List.length_cons]; split <;> omega

theorem sigCount_skipNL (l : Bytes) : sigCount (skipNL l) ≤ sigCount l := by
  induction l with
  | nil => simp [skipNL]
  | cons c cs ih =>
    unfold skipNL
    split
    · simp only [sigCount]; omega
    · exact Nat.le_refl _

theorem sigCount_cons_pad (cs : Bytes) : sigCount (61 :: cs) = 1 + sigCount cs := by
  simp [sigCount]

/-- a quantum consumes `4 - j` significant characters -/
theorem quantum_sig : ∀ (src : Bytes) (j k : Nat) (rest : Bytes) (t : Bool), j ≤ 3 →
    quantum src j = .quantum k rest t → sigCount rest + 4 ≤ sigCount src + j := by
  intro src
  induction src with
  | nil => intro j k rest t _ h; unfold quantum at h; split at h <;> cases h
  | cons c cs ih =>
    intro j k rest t hj h
    unfold quantum at h
    cases hd : dec6 c with
    | some v =>
      have hca : isAlpha c = true := by simp [isAlpha, hd]
      simp only [hd] at h
      split at h
      · injection h with h1 h2 h3
        subst h2
        simp only [sigCount, hca, Bool.true_or, if_true]
        omega
      · have := ih (j + 1) k rest t (by omega) h
        simp only [sigCount, hca, Bool.true_or, if_true]
        omega
    | none =>
      simp only [hd] at h
      split at h
      · have := ih j k rest t hj h
        simp only [sigCount]
        omega
      · split at h
        · cases h
        · rename_i hc61
          have hc : c = 61 := by simpa using hc61
          subst hc
          rw [sigCount_cons_pad]
          split at h
          · cases h
          · split at h
            · split at h
              · cases h
              · rename_i d ds hsk
                split at h
                · cases h
                · rename_i hd61
                  have hdd : d = 61 := by simpa using hd61
                  subst hdd
                  injection h with h1 h2 h3
                  subst h2
                  have h1' := sigCount_skipNL ds
                  have h2' := sigCount_skipNL cs
                  rw [hsk, sigCount_cons_pad] at h2'
                  omega
            · injection h with h1 h2 h3
              subst h2
              have := sigCount_skipNL cs
              omega


theorem skipNL_length_le (l : Bytes) : (skipNL l).length ≤ l.length := by
  induction l with
  | nil => simp [skipNL]
  | cons c cs ih => unfold skipNL; split <;> simp <;> omega

theorem quantum_len : ∀ (src : Bytes) (j k : Nat) (rest : Bytes) (t : Bool),
    quantum src j = .quantum k rest t → rest.length < src.length := by
  intro src
  induction src with
  | nil => intro j k rest t h; unfold quantum at h; split at h <;> cases h
  | cons c cs ih =>
    intro j k rest t h
    unfold quantum at h
    cases hd : dec6 c with
    | some v =>
      simp only [hd] at h
      split at h
      · injection h with h1 h2 h3; subst h2; simp
      · have := ih (j + 1) k rest t h; simp; omega
    | none =>
      simp only [hd] at h
      split at h
      · have := ih j k rest t h; simp; omega
      · split at h
        · cases h
        · split at h
          · cases h
          · split at h
            · split at h
              · cases h
              · rename_i d ds hsk
                split at h
                · cases h
                · injection h with h1 h2 h3
                  subst h2
                  have h1' := skipNL_length_le ds
                  have h2' := skipNL_length_le cs
                  rw [hsk] at h2'
                  simp at h2' ⊢
                  omega
            · injection h with h1 h2 h3
              subst h2
              have := skipNL_length_le cs
              simp; omega

/-- a successful decode of `d = m - n` bytes needs `4·⌈d/3⌉` significant characters -/
theorem goDecodeLen_ok_sig (cap : Nat) : ∀ (f : Nat) (src : Bytes) (n m : Nat), src.length < f →
    goDecodeLen cap f src n = .ok m → n ≤ m ∧ 4 * ((m - n + 2) / 3) ≤ sigCount src := by
  intro f
  induction f with
  | zero => intro src n m h; omega
  | succ f ih =>
    intro src n m hlen h
    unfold goDecodeLen at h
    split at h
    · injection h with h; subst h; simp
    · cases h
    · rename_i k rest trailing hq
      have hk := quantum_count src 0 k rest trailing (by omega) hq
      have hs := quantum_sig src 0 k rest trailing (by omega) hq
      have hl := quantum_len src 0 k rest trailing hq
      split at h
      · cases h
      · split at h
        · cases h
        · have := ih rest (n + (k - 1)) m (by omega) h
          omega

/-! ### shape of accepted strings -/

/-- only alphabet characters and `=` -/
def Clean (src : Bytes) : Prop := ∀ c ∈ src, isAlpha c = true ∨ c = 61

theorem dec6_pad : dec6 61 = none := by decide
theorem isNL_pad : isNL 61 = false := by decide

theorem alpha_not_nl (c : UInt8) (h : isAlpha c = true) : isNL c = false := by
  cases hn : isNL c with
  | false => rfl
  | true =>
    simp only [isNL, Bool.or_eq_true, beq_iff_eq] at hn
    rcases hn with rfl | rfl
    · revert h; decide
    · revert h; decide

theorem clean_not_nl (c : UInt8) (h : isAlpha c = true ∨ c = 61) : isNL c = false := by
  rcases h with h | rfl
  · exact alpha_not_nl c h
  · exact isNL_pad

theorem skipNL_clean (l : Bytes) (h : Clean l) : skipNL l = l := by
  cases l with
  | nil => rfl
  | cons c cs =>
    unfold skipNL
    simp [clean_not_nl c (h c (by simp))]

theorem clean_tail {c : UInt8} {cs : Bytes} (h : Clean (c :: cs)) : Clean cs :=
  fun x hx => h x (by simp [hx])

theorem list_len2 (l : Bytes) (h : l.length = 2) : ∃ x y, l = [x, y] := by
  match l, h with
  | [x, y], _ => exact ⟨x, y, rfl⟩

theorem list_len3 (l : Bytes) (h : l.length = 3) : ∃ x y z, l = [x, y, z] := by
  match l, h with
  | [x, y, z], _ => exact ⟨x, y, z, rfl⟩

theorem quantum_shape : ∀ (src : Bytes) (j k : Nat) (rest : Bytes) (t : Bool), Clean src → j ≤ 3 →
    quantum src j = .quantum k rest t →
    ∃ a : Bytes, (∀ c ∈ a, isAlpha c = true) ∧ a.length + j = k ∧
      ((k = 4 ∧ src = a ++ rest ∧ t = false) ∨
       (k = 3 ∧ src = a ++ 61 :: rest ∧ t = !rest.isEmpty) ∨
       (k = 2 ∧ src = a ++ 61 :: 61 :: rest ∧ t = !rest.isEmpty)) := by
  intro src
  induction src with
  | nil => intro j k rest t _ _ h; unfold quantum at h; split at h <;> cases h
  | cons c cs ih =>
    intro j k rest t hcl hj h
    unfold quantum at h
    cases hd : dec6 c with
    | some v =>
      have hca : isAlpha c = true := by simp [isAlpha, hd]
      simp only [hd] at h
      split at h
      · rename_i hj3
        injection h with h1 h2 h3
        subst h1 h2 h3
        exact ⟨[c], by simp [hca], by simp [hj3], Or.inl ⟨rfl, rfl, rfl⟩⟩
      · obtain ⟨a, ha, hlen, hsh⟩ := ih (j + 1) k rest t (clean_tail hcl) (by omega) h
        refine ⟨c :: a, ?_, by simp; omega, ?_⟩
        · intro x hx
          rcases List.mem_cons.mp hx with rfl | hx
          · exact hca
          · exact ha x hx
        · rcases hsh with ⟨h1, h2, h3⟩ | ⟨h1, h2, h3⟩ | ⟨h1, h2, h3⟩
          · exact Or.inl ⟨h1, by rw [h2]; rfl, h3⟩
          · exact Or.inr (Or.inl ⟨h1, by rw [h2]; rfl, h3⟩)
          · exact Or.inr (Or.inr ⟨h1, by rw [h2]; rfl, h3⟩)
    | none =>
      have hc61 : c = 61 := by
        rcases hcl c (by simp) with h' | h'
        · simp [isAlpha, hd] at h'
        · exact h'
      subst hc61
      simp only [hd, isNL_pad, Bool.false_eq_true, if_false, ne_eq, not_true_eq_false] at h
      have hcs := clean_tail hcl
      rw [skipNL_clean cs hcs] at h
      split at h
      · cases h
      · split at h
        · rename_i hj2
          cases cs with
          | nil => simp at h
          | cons d ds =>
            simp only at h
            split at h
            · cases h
            · rename_i hd61
              have hdd : d = 61 := by simpa using hd61
              subst hdd
              have hds : Clean ds := clean_tail hcs
              rw [skipNL_clean ds hds] at h
              injection h with h1 h2 h3
              subst h1 h2 h3
              exact ⟨[], by simp, by simp [hj2], Or.inr (Or.inr ⟨rfl, by simp, rfl⟩)⟩
        · rename_i hj2' hj2
          injection h with h1 h2 h3
          subst h1 h2 h3
          exact ⟨[], by simp, by simp; omega, Or.inr (Or.inl ⟨rfl, by simp, rfl⟩)⟩

theorem quantum_atEnd : ∀ (src : Bytes) (j : Nat), quantum src j = .atEnd → j = 0 ∧ ∀ c ∈ src, isNL c = true := by
  intro src
  induction src with
  | nil => intro j h; unfold quantum at h; split at h <;> simp_all
  | cons c cs ih =>
    intro j h
    unfold quantum at h
    cases hd : dec6 c with
    | some v =>
      simp only [hd] at h
      split at h
      · cases h
      · have := (ih (j + 1) h).1; omega
    | none =>
      simp only [hd] at h
      split at h
      · rename_i hnl
        obtain ⟨h1, h2⟩ := ih j h
        refine ⟨h1, ?_⟩
        intro x hx
        rcases List.mem_cons.mp hx with rfl | hx
        · exact hnl
        · exact h2 x hx
      · split at h
        · cases h
        · split at h
          · cases h
          · split at h
            · split at h
              · cases h
              · split at h <;> cases h
            · cases h

/-- what is left after the full quanta: nothing, `xx==` or `xxx=` -/
def Tail (p : Bytes) (r : Nat) : Prop :=
  (p = [] ∧ r = 0) ∨
  (∃ x y, p = [x, y, 61, 61] ∧ isAlpha x = true ∧ isAlpha y = true ∧ r = 1) ∨
  (∃ x y z, p = [x, y, z, 61] ∧ isAlpha x = true ∧ isAlpha y = true ∧ isAlpha z = true ∧ r = 2)

theorem goDecodeLen_shape (cap : Nat) : ∀ (f : Nat) (src : Bytes) (n m : Nat), Clean src → src.length < f →
    goDecodeLen cap f src n = .ok m →
    ∃ (q : Nat) (a p : Bytes) (r : Nat), src = a ++ p ∧ a.length = 4 * q ∧ (∀ c ∈ a, isAlpha c = true) ∧
      m = n + 3 * q + r ∧ Tail p r := by
  intro f
  induction f with
  | zero => intro src n m _ h; omega
  | succ f ih =>
    intro src n m hcl hlen h
    unfold goDecodeLen at h
    split at h
    · rename_i hq
      injection h with h; subst h
      have hnl := (quantum_atEnd src 0 hq).2
      have : src = [] := by
        cases src with
        | nil => rfl
        | cons c cs =>
          have h1 := hnl c (by simp)
          rw [clean_not_nl c (hcl c (by simp))] at h1
          cases h1
      subst this
      exact ⟨0, [], [], 0, rfl, rfl, by simp, by simp, Or.inl ⟨rfl, rfl⟩⟩
    · cases h
    · rename_i k rest trailing hq
      have hl := quantum_len src 0 k rest trailing hq
      obtain ⟨a0, ha0, hlen0, hsh⟩ := quantum_shape src 0 k rest trailing hcl (by omega) hq
      split at h
      · cases h
      · split at h
        · cases h
        · rename_i _ htr
          have htr' : trailing = false := by simpa using htr
          have hrest : Clean rest := by
            intro x hx
            rcases hsh with ⟨_, h2, _⟩ | ⟨_, h2, _⟩ | ⟨_, h2, _⟩ <;> exact hcl x (by rw [h2]; simp [hx])
          obtain ⟨q', a', p', r', hr1, hr2, hr3, hr4, hr5⟩ := ih rest (n + (k - 1)) m hrest (by omega) h
          rcases hsh with ⟨hk, hsrc, _⟩ | ⟨hk, hsrc, ht⟩ | ⟨hk, hsrc, ht⟩
          · refine ⟨q' + 1, a0 ++ a', p', r', by rw [hsrc, hr1]; simp, by simp; omega, ?_, by omega, hr5⟩
            intro x hx
            rcases List.mem_append.mp hx with hx | hx
            · exact ha0 x hx
            · exact hr3 x hx
          · -- xxx=
            have hre : rest = [] := by
              rw [htr'] at ht
              cases rest with
              | nil => rfl
              | cons _ _ => simp at ht
            subst hre
            obtain ⟨rfl, rfl⟩ := List.append_eq_nil_iff.mp hr1.symm
            have hq0 : q' = 0 := by simp at hr2; omega
            have hr0 : r' = 0 := by
              rcases hr5 with ⟨_, h0⟩ | ⟨x, y, hp, _⟩ | ⟨x, y, z, hp, _⟩
              · exact h0
              · cases hp
              · cases hp
            obtain ⟨x, y, z, rfl⟩ := list_len3 a0 (by omega)
            · refine ⟨0, [], [x, y, z, 61], 2, by rw [hsrc]; simp, rfl, by simp, by omega, ?_⟩
              exact Or.inr (Or.inr ⟨x, y, z, rfl, ha0 x (by simp), ha0 y (by simp), ha0 z (by simp), rfl⟩)
          · -- xx==
            have hre : rest = [] := by
              rw [htr'] at ht
              cases rest with
              | nil => rfl
              | cons _ _ => simp at ht
            subst hre
            obtain ⟨rfl, rfl⟩ := List.append_eq_nil_iff.mp hr1.symm
            have hq0 : q' = 0 := by simp at hr2; omega
            have hr0 : r' = 0 := by
              rcases hr5 with ⟨_, h0⟩ | ⟨x, y, hp, _⟩ | ⟨x, y, z, hp, _⟩
              · exact h0
              · cases hp
              · cases hp
            obtain ⟨x, y, rfl⟩ := list_len2 a0 (by omega)
            · refine ⟨0, [], [x, y, 61, 61], 1, by rw [hsrc]; simp, rfl, by simp, by omega, ?_⟩
              exact Or.inr (Or.inl ⟨x, y, rfl, ha0 x (by simp), ha0 y (by simp), rfl⟩)

theorem sigCount_eq_length_clean (s : Bytes) (h : sigCount s = s.length) : Clean s := by
  induction s with
  | nil => intro c hc; cases hc
  | cons c cs ih =>
    have hle := sigCount_le_length cs
    simp only [sigCount, List.length_cons] at h
    by_cases hc : (isAlpha c || c == 61) = true
    · simp only [hc, if_true] at h
      intro x hx
      rcases List.mem_cons.mp hx with rfl | hx
      · simpa using hc
      · exact ih (by omega) x hx
    · simp only [hc, Bool.false_eq_true, if_false] at h
      omega

/-- **`isValidChallengeKey` accepts only RFC-shaped keys**: 22 base64 alphabet characters followed
by `==` (the base64 text of a 16-byte value, RFC 6455 §4.1 / RFC 4648 §4). -/
theorem valid_key_shape (s : Bytes) (h : isValidChallengeKey s = .valid) :
    s.length = 24 ∧ (∀ c ∈ s.take 22, isAlpha c = true) ∧ s.drop 22 = [61, 61] := by
  unfold isValidChallengeKey at h
  split at h
  · cases h
  · rename_i hlen
    have h24 : s.length = 24 := by simpa using hlen
    split at h
    · rename_i n hdec
      split at h
      · rename_i hn
        subst hn
        unfold goDecode at hdec
        have hsig := (goDecodeLen_ok_sig _ _ s 0 16 (by omega) hdec).2
        have hle := sigCount_le_length s
        have hclean := sigCount_eq_length_clean s (by omega)
        obtain ⟨q, a, p, r, hs, hal, haa, hm, htail⟩ := goDecodeLen_shape _ _ s 0 16 hclean (by omega) hdec
        rcases htail with ⟨hp, hr⟩ | ⟨x, y, hp, hx, hy, hr⟩ | ⟨x, y, z, hp, _, _, _, hr⟩
        · omega
        · subst hp hr
          have hq : q = 5 := by omega
          subst hq
          refine ⟨h24, ?_, ?_⟩
          · intro c hc
            rw [hs, List.take_append, hal] at hc
            simp only [List.mem_append] at hc
            rcases hc with hc | hc
            · exact haa c (List.mem_of_mem_take hc)
            · simp at hc
              rcases hc with rfl | rfl
              · exact hx
              · exact hy
          · rw [hs, List.drop_append, hal]
            have : List.drop 22 a = [] := List.drop_eq_nil_of_le (by omega)
            rw [this]
            simp
        · omega
      · cases h
    · cases h
    · cases h

/-- **… and accepts all of them** -/
theorem valid_of_key_shape (s : Bytes) (h24 : s.length = 24) (ha : ∀ c ∈ s.take 22, isAlpha c = true)
    (hp : s.drop 22 = [61, 61]) : isValidChallengeKey s = .valid := by
  match s, h24 with
  | [c0, c1, c2, c3, c4, c5, c6, c7, c8, c9, c10, c11, c12, c13, c14, c15, c16, c17, c18, c19, c20, c21, c22, c23], _ =>
    simp only [List.drop_succ_cons, List.drop_zero, List.cons.injEq, and_true] at hp
    obtain ⟨rfl, rfl⟩ := hp
    simp only [isAlpha] at ha
    obtain ⟨v0, hv0⟩ := Option.isSome_iff_exists.mp (ha c0 (by simp))
    obtain ⟨v1, hv1⟩ := Option.isSome_iff_exists.mp (ha c1 (by simp))
    obtain ⟨v2, hv2⟩ := Option.isSome_iff_exists.mp (ha c2 (by simp))
    obtain ⟨v3, hv3⟩ := Option.isSome_iff_exists.mp (ha c3 (by simp))
    obtain ⟨v4, hv4⟩ := Option.isSome_iff_exists.mp (ha c4 (by simp))
    obtain ⟨v5, hv5⟩ := Option.isSome_iff_exists.mp (ha c5 (by simp))
    obtain ⟨v6, hv6⟩ := Option.isSome_iff_exists.mp (ha c6 (by simp))
    obtain ⟨v7, hv7⟩ := Option.isSome_iff_exists.mp (ha c7 (by simp))
    obtain ⟨v8, hv8⟩ := Option.isSome_iff_exists.mp (ha c8 (by simp))
    obtain ⟨v9, hv9⟩ := Option.isSome_iff_exists.mp (ha c9 (by simp))
    obtain ⟨v10, hv10⟩ := Option.isSome_iff_exists.mp (ha c10 (by simp))
    obtain ⟨v11, hv11⟩ := Option.isSome_iff_exists.mp (ha c11 (by simp))
    obtain ⟨v12, hv12⟩ := Option.isSome_iff_exists.mp (ha c12 (by simp))
    obtain ⟨v13, hv13⟩ := Option.isSome_iff_exists.mp (ha c13 (by simp))
    obtain ⟨v14, hv14⟩ := Option.isSome_iff_exists.mp (ha c14 (by simp))
    obtain ⟨v15, hv15⟩ := Option.isSome_iff_exists.mp (ha c15 (by simp))
    obtain ⟨v16, hv16⟩ := Option.isSome_iff_exists.mp (ha c16 (by simp))
    obtain ⟨v17, hv17⟩ := Option.isSome_iff_exists.mp (ha c17 (by simp))
    obtain ⟨v18, hv18⟩ := Option.isSome_iff_exists.mp (ha c18 (by simp))
    obtain ⟨v19, hv19⟩ := Option.isSome_iff_exists.mp (ha c19 (by simp))
    obtain ⟨v20, hv20⟩ := Option.isSome_iff_exists.mp (ha c20 (by simp))
    obtain ⟨v21, hv21⟩ := Option.isSome_iff_exists.mp (ha c21 (by simp))
    simp [isValidChallengeKey, decodedLen, goDecode, goDecodeLen, quantum, hv0, hv1, hv2, hv3, hv4, hv5, hv6, hv7, hv8, hv9, hv10, hv11, hv12, hv13, hv14, hv15, hv16, hv17, hv18, hv19, hv20, hv21, dec6_pad, isNL_pad, skipNL]

/-- a key is accepted iff it is 22 base64 alphabet characters followed by `==` -/
theorem valid_key_iff (s : Bytes) :
    isValidChallengeKey s = .valid ↔
      s.length = 24 ∧ (∀ c ∈ s.take 22, isAlpha c = true) ∧ s.drop 22 = [61, 61] :=
  ⟨valid_key_shape s, fun ⟨h1, h2, h3⟩ => valid_of_key_shape s h1 h2 h3⟩

theorem isAlpha_enc6 : ∀ n < 64, isAlpha (enc6 n) = true := by decide

/-- every key a conforming client can send — the base64 encoding of a 16-byte nonce — is accepted -/
theorem encoded_nonce_valid (nonce : Bytes) (h : nonce.length = 16) : isValidChallengeKey (encode nonce) = .valid := by
  match nonce, h with
  | [b0, b1, b2, b3, b4, b5, b6, b7, b8, b9, b10, b11, b12, b13, b14, b15], _ =>
    have hb0 := b0.toNat_lt
    have hb1 := b1.toNat_lt
    have hb2 := b2.toNat_lt
    have hb3 := b3.toNat_lt
    have hb4 := b4.toNat_lt
    have hb5 := b5.toNat_lt
    have hb6 := b6.toNat_lt
    have hb7 := b7.toNat_lt
    have hb8 := b8.toNat_lt
    have hb9 := b9.toNat_lt
    have hb10 := b10.toNat_lt
    have hb11 := b11.toNat_lt
    have hb12 := b12.toNat_lt
    have hb13 := b13.toNat_lt
    have hb14 := b14.toNat_lt
    have hb15 := b15.toNat_lt
    apply valid_of_key_shape
    · simp [encode]
    · simp only [encode, List.take_succ_cons, List.take_zero]
      intro c hc
      simp only [List.mem_cons, List.not_mem_nil, or_false] at hc
      rcases hc with rfl | rfl | rfl | rfl | rfl | rfl | rfl | rfl | rfl | rfl | rfl | rfl | rfl | rfl | rfl | rfl |
        rfl | rfl | rfl | rfl | rfl | rfl <;> (apply isAlpha_enc6; omega)
    · simp [encode]

end CentrifugeVerif.C31
