import CentrifugeVerif.Model.Partition
import CentrifugeVerif.Proofs.RedisKeys
/-!
Lemmas for C35: soundness of the executable balance / distinctness checkers of
`Model/Partition.lean`, and the package's own CRC16 / `TagSlot` against the Redis specification.
-/
namespace CentrifugeVerif.Partition
open CentrifugeVerif.Spec

theorem spanEq_spec (v : Nat) : ∀ l : List Nat,
    l = List.replicate (spanEq v l).1 v ++ (spanEq v l).2 ∧ (∀ x, (spanEq v l).2.head? = some x → x ≠ v)
  | [] => by simp [spanEq]
  | x :: xs => by
    unfold spanEq
    by_cases h : x = v
    · subst h
      have ih := spanEq_spec x xs
      simp only [if_true]
      constructor
      · rw [List.replicate_succ, List.cons_append, ← ih.1]
      · exact ih.2
    · simp [h]

theorem count_replicate_append (v c : Nat) (r : List Nat) (j : Nat) :
    (List.replicate c v ++ r).count j = (if j = v then c else 0) + r.count j := by
  rw [List.count_append, List.count_replicate]
  by_cases h : j = v
  · subst h; simp
  · have : ¬ (v = j) := fun e => h e.symm
    simp [h, this]

/-- soundness of `walk` -/
theorem walk_sound : ∀ (f : Nat) (l : List Nat) (i lo hi : Nat), walk l i f lo hi = true →
    (∀ x ∈ l, i ≤ x ∧ x < i + f) ∧ (∀ j, i ≤ j → j < i + f → lo ≤ l.count j ∧ l.count j ≤ hi)
  | 0, l, i, lo, hi, h => by
    simp only [walk, List.isEmpty_iff] at h
    subst h
    constructor
    · intro x hx; cases hx
    · intro j h1 h2; omega
  | f + 1, l, i, lo, hi, h => by
    simp only [walk, Bool.and_eq_true, Nat.ble_eq] at h
    obtain ⟨⟨h1, h2⟩, h3⟩ := h
    have ih := walk_sound f (spanEq i l).2 (i + 1) lo hi h3
    have hs := (spanEq_spec i l).1
    constructor
    · intro x hx
      rw [hs] at hx
      rcases List.mem_append.1 hx with hx | hx
      · have := (List.mem_replicate.1 hx).2
        omega
      · have := ih.1 x hx
        omega
    · intro j hj1 hj2
      have hc : l.count j = (if j = i then (spanEq i l).1 else 0) + (spanEq i l).2.count j := by
        conv => lhs; rw [hs]
        exact count_replicate_append i _ _ j
      by_cases hji : j = i
      · subst hji
        have hz : (spanEq j l).2.count j = 0 := by
          apply List.count_eq_zero.2
          intro hmem
          have := ih.1 j hmem
          omega
        rw [hc, hz]; simp; exact ⟨h1, h2⟩
      · have := ih.2 j (by omega) (by omega)
        rw [hc]; simp [hji]; exact this

theorem checkK_sound (slots : List Nat) (k : Nat) (h : checkK slots k = true) : Balanced slots k := by
  unfold checkK at h
  have := (walk_sound k _ 0 _ _ h).2
  intro i hi j hj
  have a := this i (Nat.zero_le _) (by omega)
  have b := this j (Nat.zero_le _) (by omega)
  unfold countOn
  omega

theorem checkRange_sound (slots : List Nat) : ∀ (cnt k0 : Nat), checkRange slots k0 cnt = true →
    ∀ k, k0 ≤ k → k < k0 + cnt → Balanced slots k
  | 0, k0, _, k, h1, h2 => by omega
  | cnt + 1, k0, h, k, h1, h2 => by
    simp only [checkRange, Bool.and_eq_true] at h
    by_cases hk : k = k0
    · subst hk; exact checkK_sound slots k h.1
    · exact checkRange_sound slots cnt (k0 + 1) h.2 k (by omega) (by omega)

theorem strictlyIncreasing_pairwise : ∀ l : List Nat, strictlyIncreasing l = true → l.Pairwise (· < ·)
  | [] , _ => List.Pairwise.nil
  | [a], _ => by simp
  | a :: b :: tl, h => by
    simp only [strictlyIncreasing, Bool.and_eq_true, Nat.blt_eq] at h
    have ih := strictlyIncreasing_pairwise (b :: tl) h.2
    rw [List.pairwise_cons]
    refine ⟨?_, ih⟩
    intro x hx
    rcases List.mem_cons.1 hx with hx | hx
    · subst hx; exact h.1
    · have := (List.pairwise_cons.1 ih).1 x hx
      omega

theorem strictlyIncreasing_nodup (l : List Nat) (h : strictlyIncreasing l = true) : l.Nodup := by
  have := strictlyIncreasing_pairwise l h
  exact this.imp (fun hab => Nat.ne_of_lt hab)

/-! ### the package's CRC16 / TagSlot = what Redis computes for `{tag}` -/

theorem partCrcBit_eq (c : Nat) : partCrcBit c = RedisSlot.crcStep c := by
  unfold partCrcBit RedisSlot.crcStep
  by_cases h : c &&& 0x8000 = 0
  · simp [h]
  · simp only [h, ne_eq, not_false_eq_true, if_true, if_false]
    rw [Nat.and_xor_distrib_right]
    have : (0x1021 : Nat) &&& 0xFFFF = 0x1021 := by decide
    rw [this]

theorem partCrcByte_eq (c : Nat) (b : UInt8) : partCrcByte c b = RedisSlot.crcByte c b := by
  unfold partCrcByte RedisSlot.crcByte RedisSlot.crcStep8
  simp only [partCrcBit_eq]

theorem partCrc16_eq (bs : Bytes) : partCrc16 bs = RedisSlot.crc16 bs := by
  unfold partCrc16 RedisSlot.crc16
  congr 1
  funext c b
  exact partCrcByte_eq c b

theorem tagWF_mem (t : Bytes) (h : tagWF t = true) : t ≠ [] ∧ ∀ b ∈ t, b ≠ 123 ∧ b ≠ 125 ∧ b ≠ 46 := by
  unfold tagWF at h
  simp only [Bool.and_eq_true, Bool.not_eq_true', List.isEmpty_eq_false_iff, List.all_eq_true,
    Bool.or_eq_true, decide_eq_true_eq] at h
  refine ⟨h.1, ?_⟩
  intro b hb
  have := h.2 b hb
  refine ⟨?_, ?_, ?_⟩ <;> (intro e; subst e; revert this; decide)

theorem takeWhile_all (t : Bytes) (h : ∀ b ∈ t, b ≠ 125) : t.takeWhile (· ≠ 125) = t := by
  induction t with
  | nil => rfl
  | cons a tl ih =>
    have ha := h a (by simp)
    have ih' := ih (fun b hb => h b (by simp [hb]))
    simp [ha]
    simpa using ih'

/-- for a well-formed tag, Redis hashes exactly the tag bytes of `{tag}` -/
theorem hashTag_tagKey (t : Bytes) (h : tagWF t = true) : RedisSlot.hashTag (tagKey t) = t := by
  obtain ⟨hne, hm⟩ := tagWF_mem t h
  have := RedisKeys.hashTag_shape [] t [] (by intro b hb; cases hb)
  simp only [List.nil_append] at this
  unfold tagKey
  rw [this, takeWhile_all t (fun b hb => (hm b hb).2.1)]
  simp [hne]

/-- the package's `TagSlot` agrees with Redis on every well-formed tag -/
theorem tagSlot_eq_redis (t : Bytes) (h : tagWF t = true) : tagSlot t = RedisSlot.slot (tagKey t) := by
  unfold tagSlot RedisSlot.slot
  rw [hashTag_tagKey t h, partCrc16_eq]
  rfl

/-- glue for chunked range checks -/
theorem balanced_of_ranges (slots : List Nat) (n : Nat)
    (h : ∀ k, 1 ≤ k → k < 1 + n → Balanced slots k) : ∀ k, 1 ≤ k → k ≤ n → Balanced slots k :=
  fun k h1 h2 => h k h1 (by omega)

end CentrifugeVerif.Partition
