import CentrifugeVerif.Model.Medium
/-
Lemmas for C38: the medium's queue/coalescing transition system and the live step it feeds.
-/
namespace CentrifugeVerif.Medium
open CentrifugeVerif.Live

/-! ### the medium only ever forwards a subsequence -/

theorem coalesce_sublist (k : Nat) (cur : Item) (q : List Item) :
    ((coalesce k cur q).1 :: (coalesce k cur q).2).Sublist (cur :: q) := by
  induction k generalizing cur q with
  | zero => simp [coalesce]
  | succ k ih =>
    cases q with
    | nil => simp [coalesce]
    | cons x q =>
      cases x with
      | insuff => simp [coalesce]
      | pub p =>
        simp only [coalesce]
        exact List.Sublist.cons _ (ih (.pub p) q)

def arrOf : Ev → List Item
  | .arrive i => [i]
  | .writer _ => []

theorem arrivals_cons (e : Ev) (es : List Ev) : arrivals (e :: es) = arrOf e ++ arrivals es := by
  cases e <;> simp [arrivals, arrOf]

/-- the queue is only used when the queue option is on -/
def QInv (o : Opts) (q : List Item) : Prop := o.queue = false → q = []

theorem step_qinv (o : Opts) (q : List Item) (e : Ev) (h : QInv o q) : QInv o (step o q e).1 := by
  intro hq
  have hq0 := h hq
  subst hq0
  cases e with
  | arrive i => simp [step, hq]
  | writer k => simp [step]

theorem step_sublist (o : Opts) (q : List Item) (e : Ev) (h : QInv o q) :
    ((step o q e).2 ++ (step o q e).1).Sublist (q ++ arrOf e) := by
  cases e with
  | arrive i =>
    by_cases hq : o.queue = true
    · cases i with
      | pub p =>
        by_cases hs : qsize q > o.effMax
        · simp [step, hq, hs, arrOf]
        · simp [step, hq, hs, arrOf]
      | insuff => simp [step, hq, arrOf]
    · have hq' : o.queue = false := by simpa using hq
      have := h hq'
      subst this
      simp [step, hq', arrOf]
  | writer k =>
    cases q with
    | nil => simp [step, arrOf]
    | cons first rest =>
      by_cases hd : o.delay = 0
      · simp [step, hd, arrOf]
      · cases first with
        | insuff => simp [step, hd, arrOf]
        | pub p =>
          simp only [step, hd, if_false, arrOf, List.append_nil]
          exact coalesce_sublist k (.pub p) rest

theorem runEvs_sublist (o : Opts) (q : List Item) (evs : List Ev) (h : QInv o q) :
    ((runEvs o q evs).2 ++ (runEvs o q evs).1).Sublist (q ++ arrivals evs) := by
  induction evs generalizing q with
  | nil => simp [runEvs, arrivals]
  | cons e es ih =>
    have h1 := step_sublist o q e h
    have h2 := ih (step o q e).1 (step_qinv o q e h)
    simp only [runEvs, arrivals_cons]
    -- b1 ++ b2 ++ q2 <+ b1 ++ (q1 ++ arr es) = (b1 ++ q1) ++ arr es <+ (q ++ arr e) ++ arr es
    have h3 : ((step o q e).2 ++ ((runEvs o (step o q e).1 es).2 ++ (runEvs o (step o q e).1 es).1)).Sublist
        ((step o q e).2 ++ ((step o q e).1 ++ arrivals es)) := List.Sublist.append (List.Sublist.refl _) h2
    have h4 : (((step o q e).2 ++ (step o q e).1) ++ arrivals es).Sublist ((q ++ arrOf e) ++ arrivals es) :=
      List.Sublist.append h1 (List.Sublist.refl _)
    simpa [List.append_assoc] using h3.trans (by simpa [List.append_assoc] using h4)

/-! ### insufficient-state markers are never dropped or coalesced away -/

def nInsuff : List Item → Nat
  | [] => 0
  | .insuff :: is => nInsuff is + 1
  | .pub _ :: is => nInsuff is

theorem nInsuff_append (a b : List Item) : nInsuff (a ++ b) = nInsuff a + nInsuff b := by
  induction a with
  | nil => simp [nInsuff]
  | cons x xs ih => cases x <;> simp [nInsuff, ih] <;> omega

theorem coalesce_nInsuff (k : Nat) (p : Pub) (q : List Item) :
    nInsuff [(coalesce k (.pub p) q).1] + nInsuff (coalesce k (.pub p) q).2 = nInsuff q := by
  induction k generalizing p q with
  | zero => simp [coalesce, nInsuff]
  | succ k ih =>
    cases q with
    | nil => simp [coalesce, nInsuff]
    | cons x q =>
      cases x with
      | insuff => simp [coalesce, nInsuff]; omega
      | pub p' => simpa [coalesce, nInsuff] using ih p' q

theorem step_nInsuff (o : Opts) (q : List Item) (e : Ev) (h : QInv o q) :
    nInsuff (step o q e).2 + nInsuff (step o q e).1 = nInsuff q + nInsuff (arrOf e) := by
  cases e with
  | arrive i =>
    by_cases hq : o.queue = true
    · cases i with
      | pub p =>
        by_cases hs : qsize q > o.effMax
        · simp [step, hq, hs, arrOf, nInsuff]
        · simp [step, hq, hs, arrOf, nInsuff, nInsuff_append]
      | insuff => simp [step, hq, arrOf, nInsuff, nInsuff_append]
    · have hq' : o.queue = false := by simpa using hq
      have := h hq'
      subst this
      simp [step, hq', arrOf, nInsuff]
  | writer k =>
    cases q with
    | nil => simp [step, arrOf, nInsuff]
    | cons first rest =>
      by_cases hd : o.delay = 0
      · cases first <;> simp [step, hd, arrOf, nInsuff] <;> omega
      · cases first with
        | insuff => simp [step, hd, arrOf, nInsuff]; omega
        | pub p =>
          have := coalesce_nInsuff k p rest
          simp only [step, hd, if_false, arrOf, nInsuff, Nat.add_zero]
          exact this

theorem runEvs_nInsuff (o : Opts) (q : List Item) (evs : List Ev) (h : QInv o q) :
    nInsuff (runEvs o q evs).2 + nInsuff (runEvs o q evs).1 = nInsuff q + nInsuff (arrivals evs) := by
  induction evs generalizing q with
  | nil => simp [runEvs, arrivals, nInsuff]
  | cons e es ih =>
    have h1 := step_nInsuff o q e h
    have h2 := ih (step o q e).1 (step_qinv o q e h)
    simp only [runEvs, arrivals_cons, nInsuff_append]
    omega

theorem nInsuff_pos_mem (l : List Item) (h : 0 < nInsuff l) : Item.insuff ∈ l := by
  induction l with
  | nil => simp [nInsuff] at h
  | cons x xs ih =>
    cases x with
    | insuff => simp
    | pub p => simp [nInsuff] at h; simp [ih h]

theorem mem_nInsuff_pos (l : List Item) (h : Item.insuff ∈ l) : 0 < nInsuff l := by
  induction l with
  | nil => simp at h
  | cons x xs ih =>
    cases x with
    | insuff => simp [nInsuff]
    | pub p =>
      simp at h
      simp [nInsuff, ih h]

/-! ### the live step behind the medium -/

theorem liveStep_pos (s : Sub) (i : Inc) :
    ((liveStep s i).1.pos = s.pos ∧ consumed [(liveStep s i).2] = []) ∨
    ((liveStep s i).1.pos = s.pos + 1 ∧ i.offset = s.pos + 1 ∧ consumed [(liveStep s i).2] = [s.pos + 1]) := by
  unfold liveStep
  by_cases h1 : i.lag = true
  · simp [h1, consumed]
  · by_cases h2 : i.epoch ≠ s.epoch ∧ s.epoch ≠ 0
    · simp [h1, h2, consumed]
    · simp only [h1, h2, if_false]
      by_cases h3 : i.offset > s.pos + 1
      · simp [h3, consumed]
      · by_cases h4 : i.offset < s.pos + 1
        · simp [h3, h4, consumed]
        · have : i.offset = s.pos + 1 := by omega
          right
          by_cases hf : i.filtered = true <;> simp [this, hf, consumed]

theorem consumed_cons (a : Action) (as : List Action) : consumed (a :: as) = consumed [a] ++ consumed as := by
  cases a <;> simp [consumed]

theorem run_contiguous (s : Sub) (incs : List Inc) :
    s.pos ≤ (run s incs).1.pos ∧
    consumed (run s incs).2 = List.range' (s.pos + 1) ((run s incs).1.pos - s.pos) := by
  induction incs generalizing s with
  | nil => simp [run, consumed]
  | cons i is ih =>
    have hi := ih (liveStep s i).1
    simp only [run]
    rw [consumed_cons]
    rcases liveStep_pos s i with ⟨hp, hc⟩ | ⟨hp, _, hc⟩
    · rw [hc]
      rw [hp] at hi
      simpa using hi
    · rw [hc]
      rw [hp] at hi
      refine ⟨by omega, ?_⟩
      rw [hi.2]
      have : (run (liveStep s i).1 is).1.pos - s.pos = ((run (liveStep s i).1 is).1.pos - (s.pos + 1)) + 1 := by omega
      rw [this, List.range'_succ]
      simp

theorem liveStep_no_insuff_ge (s : Sub) (i : Inc) (h : isInsufficient (liveStep s i).2 = false) :
    i.offset ≤ (liveStep s i).1.pos := by
  unfold liveStep at *
  by_cases h1 : i.lag = true
  · simp [h1, isInsufficient] at h
  · by_cases h2 : i.epoch ≠ s.epoch ∧ s.epoch ≠ 0
    · simp [h1, h2, isInsufficient] at h
    · simp only [h1, h2, if_false] at *
      by_cases h3 : i.offset > s.pos + 1
      · simp [h3, isInsufficient] at h
      · by_cases h4 : i.offset < s.pos + 1
        · simp [h3, h4]; omega
        · simp [h3, h4]

theorem run_no_insuff_ge (s : Sub) (incs : List Inc)
    (h : ∀ a ∈ (run s incs).2, isInsufficient a = false) :
    ∀ i ∈ incs, i.offset ≤ (run s incs).1.pos := by
  induction incs generalizing s with
  | nil => simp
  | cons i is ih =>
    simp only [run] at *
    intro j hj
    have hmono := (run_contiguous (liveStep s i).1 is).1
    rcases List.mem_cons.mp hj with rfl | hj
    · have := liveStep_no_insuff_ge s j (h _ (by simp))
      omega
    · exact ih (liveStep s i).1 (fun a ha => h a (by simp [ha])) j hj

theorem delivered_cons (a : Action) (as : List Action) :
    delivered (a :: as) = delivered [a] ++ delivered as := by
  cases a <;> simp [delivered]

theorem liveStep_delivered (s : Sub) (i : Inc) :
    delivered [(liveStep s i).2] = [] ∨ delivered [(liveStep s i).2] = [i.offset] := by
  unfold liveStep
  by_cases h1 : i.lag = true
  · simp [h1, delivered]
  · by_cases h2 : i.epoch ≠ s.epoch ∧ s.epoch ≠ 0
    · simp [h1, h2, delivered]
    · simp only [h1, h2, if_false]
      by_cases h3 : i.offset > s.pos + 1
      · simp [h3, delivered]
      · by_cases h4 : i.offset < s.pos + 1
        · simp [h3, h4, delivered]
        · by_cases hf : i.filtered = true <;> simp [h3, h4, hf, delivered]

theorem run_delivered_sublist (s : Sub) (incs : List Inc) :
    (delivered (run s incs).2).Sublist (incs.map (·.offset)) := by
  induction incs generalizing s with
  | nil => simp [run, delivered]
  | cons i is ih =>
    simp only [run, List.map_cons]
    rw [delivered_cons]
    rcases liveStep_delivered s i with h | h
    · rw [h]; simpa using List.Sublist.cons _ (ih _)
    · rw [h]; simpa using List.Sublist.cons_cons i.offset (ih _)

/-! ### the sentinel -/

/-- positions stay clear of the sentinel -/
def Below (s : Sub) : Prop := s.pos + 1 < maxU64

instance (s : Sub) : Decidable (Below s) := by unfold Below; exact inferInstance

def ItemBelow : Item → Prop
  | .pub p => p.offset + 1 < maxU64
  | .insuff => True

theorem sentinel_insufficient (s : Sub) (h : Below s) :
    isInsufficient (liveStep s (toInc .insuff)).2 = true ∧ (liveStep s (toInc .insuff)).1.pos = s.pos := by
  unfold Below at h
  unfold liveStep toInc
  by_cases h2 : (0 : Nat) ≠ s.epoch ∧ s.epoch ≠ 0
  · simp [h2, isInsufficient]
  · simp only [h2, if_false]
    have : maxU64 > s.pos + 1 := h
    simp [this, isInsufficient]

theorem liveStep_below (s : Sub) (it : Item) (hs : Below s) (hi : ItemBelow it) :
    Below (liveStep s (toInc it)).1 := by
  cases it with
  | insuff => unfold Below; rw [(sentinel_insufficient s hs).2]; exact hs
  | pub p =>
    unfold Below ItemBelow at *
    rcases liveStep_pos s (toInc (.pub p)) with ⟨hp, _⟩ | ⟨hp, ho, _⟩
    · omega
    · simp [toInc] at ho
      omega

theorem positioned_sentinel (s : Sub) (bc : List Item) (hs : Below s) (hb : ∀ it ∈ bc, ItemBelow it)
    (hm : Item.insuff ∈ bc) : ∃ a ∈ (positioned s bc).2, isInsufficient a = true := by
  induction bc generalizing s with
  | nil => simp at hm
  | cons it rest ih =>
    simp only [positioned, List.map_cons, run]
    rcases List.mem_cons.mp hm with h | h
    · subst h
      exact ⟨_, by simp, (sentinel_insufficient s hs).1⟩
    · have hb' : ∀ it ∈ rest, ItemBelow it := fun x hx => hb x (by simp [hx])
      obtain ⟨a, ha, hia⟩ := ih (liveStep s (toInc it)).1 (liveStep_below s it hs (hb it (by simp))) hb' h
      exact ⟨a, by simp [positioned] at ha; simp [ha], hia⟩

end CentrifugeVerif.Medium
