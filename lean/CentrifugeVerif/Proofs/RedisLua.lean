import CentrifugeVerif.Model.LuaRedis
/-
Symbolic-execution toolkit for the translated Lua scripts: how `run` distributes over the monad
operations the generated code uses, and equation lemmas for the Redis commands of the stream-broker
scripts.  With these, `simp` evaluates a translated script on symbolic keys/arguments/state.
-/
namespace CentrifugeVerif.LuaRedis
open CentrifugeVerif.Lua CentrifugeVerif.Redis

@[simp] theorem run_pure {α : Type} (a : α) (s : Redis) : run (pure a : RedisM α) s = (.ok a, s) := rfl

theorem run_bind {α β : Type} (x : RedisM α) (f : α → RedisM β) (s : Redis) :
    run (x >>= f) s = match run x s with
      | (.ok a, s') => run (f a) s'
      | (.error e, s') => (.error e, s') := by
  simp only [run, ExceptT.run_bind]
  show (StateT.run (ExceptT.run x >>= _) s) = _
  simp only [StateT.run_bind]
  show (match (ExceptT.run x).run s with | (a, s') => _) = _
  rcases h : (ExceptT.run x).run s with ⟨a, s'⟩
  cases a <;> rfl

@[simp] theorem run_map {α β : Type} (x : RedisM α) (f : α → β) (s : Redis) :
    run (f <$> x) s = match run x s with
      | (.ok a, s') => (.ok (f a), s')
      | (.error e, s') => (.error e, s') := by
  rw [← bind_pure_comp, run_bind]
  rcases run x s with ⟨a, s'⟩
  cases a <;> rfl

@[simp] theorem run_liftE_ok {α : Type} (a : α) (s : Redis) : run (liftE (.ok a)) s = (.ok a, s) := rfl
@[simp] theorem run_liftE_err {α : Type} (e : LuaErr) (s : Redis) :
    run (liftE (.error e : Except LuaErr α)) s = (.error e, s) := rfl
@[simp] theorem run_throw {α : Type} (e : LuaErr) (s : Redis) : run (throw e : RedisM α) s = (.error e, s) := rfl
@[simp] theorem run_ite {α : Type} (c : Prop) [Decidable c] (a b : RedisM α) (s : Redis) :
    run (if c then a else b) s = if c then run a s else run b s := by split <;> rfl
@[simp] theorem run_call (args : List LVal) (s : Redis) : run (call args) s = callFn args s := rfl

@[simp] theorem except_pure {ε α : Type} (a : α) : (pure a : Except ε α) = .ok a := rfl
@[simp] theorem except_ok_bind {ε α β : Type} (a : α) (f : α → Except ε β) : (Except.ok a >>= f) = f a := rfl
@[simp] theorem except_error_bind {ε α β : Type} (e : ε) (f : α → Except ε β) :
    ((Except.error e : Except ε α) >>= f) = .error e := rfl
@[simp] theorem except_map_ok {ε α β : Type} (a : α) (f : α → β) : (f <$> (Except.ok a : Except ε α)) = .ok (f a) := rfl

/-! command names are already lower case -/
@[simp] theorem lower_hget : strLower "hget" = "hget" := by decide
@[simp] theorem lower_hmget : strLower "hmget" = "hmget" := by decide
@[simp] theorem lower_hset : strLower "hset" = "hset" := by decide
@[simp] theorem lower_hincrby : strLower "hincrby" = "hincrby" := by decide
@[simp] theorem lower_expire : strLower "expire" = "expire" := by decide
@[simp] theorem lower_del : strLower "del" = "del" := by decide
@[simp] theorem lower_xadd : strLower "xadd" = "xadd" := by decide
@[simp] theorem lower_xrange : strLower "xrange" = "xrange" := by decide
@[simp] theorem lower_xrevrange : strLower "xrevrange" = "xrevrange" := by decide
@[simp] theorem lower_publish : strLower "publish" = "publish" := by decide

/-! equation lemmas of `exec` for the commands of the stream-broker scripts -/
theorem exec_hget (r : Redis) (k f : String) :
    exec r "hget" [k, f] = (do let h ← getHash r k; pure (optBulk (hlookup h f), r)) := rfl

theorem exec_hmget2 (r : Redis) (k f1 f2 : String) :
    exec r "hmget" [k, f1, f2] =
      (do let h ← getHash r k; pure (.arr [optBulk (hlookup h f1), optBulk (hlookup h f2)], r)) := rfl

theorem exec_hmget3 (r : Redis) (k f1 f2 f3 : String) :
    exec r "hmget" [k, f1, f2, f3] =
      (do let h ← getHash r k
          pure (.arr [optBulk (hlookup h f1), optBulk (hlookup h f2), optBulk (hlookup h f3)], r)) := rfl

theorem exec_hset1 (r : Redis) (k f v : String) :
    exec r "hset" [k, f, v] =
      (do let h ← getHash r k
          pure (.int (([f].eraseDups.filter (fun x => (hlookup h x).isNone)).length : Nat),
                putHash r k (hset1 h f v))) := rfl

theorem exec_hset2 (r : Redis) (k f1 v1 f2 v2 : String) :
    exec r "hset" [k, f1, v1, f2, v2] =
      (do let h ← getHash r k
          pure (.int (([f1, f2].eraseDups.filter (fun x => (hlookup h x).isNone)).length : Nat),
                putHash r k (hset1 (hset1 h f1 v1) f2 v2))) := rfl

theorem exec_hincrby (r : Redis) (k f n : String) :
    exec r "hincrby" [k, f, n] =
      (do let d ← parseInt n
          let h ← getHash r k
          let cur ← match hlookup h f with
            | none => pure (0 : Int)
            | some s => match parseDecInt s with
              | some i => pure i
              | none => rerr "ERR hash value is not an integer"
          let v := cur + d
          if v > 9223372036854775807 ∨ v < -9223372036854775808 then
            rerr "ERR increment or decrement would overflow"
          else pure (.int v, putHash r k (hset1 h f (toString v)))) := rfl

theorem exec_del1 (r : Redis) (k : String) :
    exec r "del" [k] = pure (.int (([k].eraseDups.filter (fun x => (r.db x).isSome)).length : Nat), r.put k none) := rfl

/-! frame facts about hash updates -/

theorem find_map_set (t : List (String × String)) (f g v : String) (hne : f ≠ g) :
    List.find? (fun x => x.1 == g) (List.map (fun p => if (p.1 == f) = true then (f, v) else p) t)
      = List.find? (fun x => x.1 == g) t := by
  induction t with
  | nil => rfl
  | cons p t ih =>
    simp only [List.map_cons, List.find?_cons]
    by_cases hp : (p.1 == f) = true
    · have hpf : p.1 = f := by simpa using hp
      have h1 : (p.1 == g) = false := by simp [hpf, hne]
      have h2 : (f == g) = false := by simp [hne]
      simp only [hp, if_true, h1, h2]
      exact ih
    · have hp' : (if (p.1 == f) = true then (f, v) else p) = p := by simp [hp]
      rw [hp']
      cases hg : (p.1 == g)
      · simp only []; exact ih
      · rfl

theorem hlookup_hset1_ne (h : List (String × String)) (f g v : String) (hne : f ≠ g) :
    hlookup (hset1 h f v) g = hlookup h g := by
  unfold hset1 hlookup
  split
  · rw [find_map_set h f g v hne]
  · simp [List.find?_append, hne]

theorem hset1_ne_nil (h : List (String × String)) (f v : String) : (hset1 h f v).isEmpty = false := by
  unfold hset1
  split
  · rename_i hany
    cases h with
    | nil => simp at hany
    | cons p t => simp
  · simp

theorem getHash_putHash (s : Redis) (k : String) (h : List (String × String)) (hne : h.isEmpty = false) :
    getHash (putHash s k h) k = .ok h := by
  simp [putHash, hne, Redis.setVal, Redis.put, getHash]

end CentrifugeVerif.LuaRedis
