import CentrifugeVerif.Proofs.SubProtoNT6
/-!
The combined no-timeout invariant and what it gives at settled states.
-/
namespace CentrifugeVerif.SubProto

structure NTInv (s : State) : Prop where
  ghost : Ghost s
  l1 : L1 s
  l2 : L2 s
  l3 : L3 s

theorem reachableNT_inv (s : State) (h : ReachableNT s) : NTInv s := by
  refine reachableNT_invariant NTInv ⟨Ghost.init, L1.init, L2.init, L3.init⟩ ?_ s h
  intro s s' l _ hi hl hn
  exact ⟨next_ghost s s' l hi.ghost hn, next_L1 s s' l hi.ghost hi.l1 hl hn,
    next_L2 s s' l hi.ghost hi.l1 hi.l2 hl hn, next_L3 s s' l hi.ghost hi.l1 hi.l2 hi.l3 hl hn⟩

theorem settled_thread_done (s : State) (hs : s.settled) (x : Tid) (t : Thread) (h : aget s.threads x = some t) :
    t.pc = .done := hs (x, t) (aget_mem _ _ _ h)

/-- at a settled state every `c.channels` entry is a subscribed one and has its hub entry -/
theorem settled_entries (s : State) (hi : NTInv s) (hs : s.settled) (ch : Chan) (e : Entry)
    (he : aget s.channels ch = some e) : e.subscribed = true ∧ aget s.hub ch = some e.gen := by
  have hsub : e.subscribed = true := by
    rcases Bool.eq_false_or_eq_true e.subscribed with h | h
    · exact h
    · obtain ⟨x, t, hx, _, _, hp⟩ := hi.l2.A ch e he h
      rw [settled_thread_done s hs x t hx] at hp
      simp at hp
  exact ⟨hsub, hi.l3.C ch e he hsub⟩

/-- at a settled state every hub entry belongs to a subscribed `c.channels` entry of the same generation -/
theorem settled_hub (s : State) (hi : NTInv s) (hs : s.settled) (ch : Chan) (g : Gen)
    (hh : aget s.hub ch = some g) : ∃ e, aget s.channels ch = some e ∧ e.subscribed = true ∧ e.gen = g := by
  rcases hi.l3.B ch g hh with ⟨e, he, hg⟩ | ⟨x, t, hx, _, ho⟩
  · exact ⟨e, he, (settled_entries s hi hs ch e he).1, hg⟩
  · rw [owesP, settled_thread_done s hs x t hx] at ho
    simp at ho

end CentrifugeVerif.SubProto
