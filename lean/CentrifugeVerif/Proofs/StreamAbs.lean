import CentrifugeVerif.Spec.AbsStream
/-!
Lemmas about the specification `Spec/AbsStream.lean` itself: its well-formedness invariant is kept
by every abstract operation, offsets are contiguous by construction, epochs are never reused.
-/
namespace CentrifugeVerif.AbsStream
open CentrifugeVerif.MemStream

variable {α : Type}

theorem entries_length (c : AbsChan α) : c.entries.length = c.log.length := by
  simp [AbsChan.entries, List.length_zipWith]

/-- the implicit offsets are the contiguous run ending at `top` -/
theorem entries_offsets (c : AbsChan α) :
    c.entries.map (·.offset) = List.range' (c.top - c.log.length + 1) c.log.length := by
  unfold AbsChan.entries
  generalize c.top - c.log.length + 1 = a
  generalize c.log = l
  induction l generalizing a with
  | nil => simp
  | cons x xs ih => simp [List.range'_succ, ih]

theorem append_top (c : AbsChan α) (v : α) (size : Nat) : (c.append v size).top = c.top + 1 := rfl
theorem append_epoch (c : AbsChan α) (v : α) (size : Nat) : (c.append v size).epoch = c.epoch := rfl

theorem append_log_length (c : AbsChan α) (v : α) (size : Nat) :
    (c.append v size).log.length = min size (c.log.length + 1) := by
  simp [AbsChan.append]; omega

/-- a stored publication is the newest retained one (for `size > 0`) -/
theorem append_log_last (c : AbsChan α) (v : α) (size : Nat) (hs : 0 < size) :
    (c.append v size).log.getLast? = some v := by
  unfold AbsChan.append
  simp only
  rw [List.getLast?_drop]
  simp; omega

theorem setChan_same (a : Abs α) (ch : String) (c : Option (AbsChan α)) : (a.setChan ch c).chans ch = c := by
  simp [Abs.setChan]

theorem setChan_other (a : Abs α) (ch x : String) (c : Option (AbsChan α)) (hx : x ≠ ch) :
    (a.setChan ch c).chans x = a.chans x := by
  simp [Abs.setChan, hx]

/-- replacing a channel's content while keeping its epoch keeps well-formedness -/
theorem setChan_inv (a : Abs α) (hi : a.Inv) (ch : String) (c c' : AbsChan α)
    (hc : a.chans ch = some c) (he : c'.epoch = c.epoch) (hl : c'.log.length ≤ c'.top) :
    (a.setChan ch (some c')).Inv := by
  obtain ⟨h1, h2, h3⟩ := hi
  constructor
  · intro x d hd
    by_cases hx : x = ch
    · subst hx
      rw [setChan_same] at hd
      cases hd
      have := h1 _ _ hc
      exact ⟨hl, by omega, by simp [Abs.setChan]; omega⟩
    · rw [setChan_other _ _ _ _ hx] at hd
      simpa [Abs.setChan] using h1 _ _ hd
  refine ⟨?_, h3⟩
  · intro c1 c2 x y hne hx hy
    by_cases h1c : c1 = ch <;> by_cases h2c : c2 = ch
    · exact absurd (h1c.trans h2c.symm) hne
    · subst h1c
      rw [setChan_same] at hx; cases hx
      rw [setChan_other _ _ _ _ h2c] at hy
      rw [he]; exact h2 _ _ _ _ hne hc hy
    · subst h2c
      rw [setChan_same] at hy; cases hy
      rw [setChan_other _ _ _ _ h1c] at hx
      rw [he]; exact h2 _ _ _ _ hne hx hc
    · rw [setChan_other _ _ _ _ h1c] at hx
      rw [setChan_other _ _ _ _ h2c] at hy
      exact h2 _ _ _ _ hne hx hy

/-- dropping a channel keeps well-formedness -/
theorem dropChan_inv (a : Abs α) (hi : a.Inv) (ch : String) : (a.setChan ch none).Inv := by
  obtain ⟨h1, h2, h3⟩ := hi
  constructor
  · intro x d hd
    by_cases hx : x = ch
    · subst hx; rw [setChan_same] at hd; cases hd
    · rw [setChan_other _ _ _ _ hx] at hd
      simpa [Abs.setChan] using h1 _ _ hd
  refine ⟨?_, h3⟩
  · intro c1 c2 x y hne hx hy
    by_cases h1c : c1 = ch
    · subst h1c; rw [setChan_same] at hx; cases hx
    · by_cases h2c : c2 = ch
      · subst h2c; rw [setChan_same] at hy; cases hy
      · rw [setChan_other _ _ _ _ h1c] at hx
        rw [setChan_other _ _ _ _ h2c] at hy
        exact h2 _ _ _ _ hne hx hy

/-- `ensure`: the channel exists afterwards, other channels are untouched, a created channel has a
fresh epoch (the old counter value) and top 0; well-formedness is kept; the counter never decreases -/
theorem ensure_spec (a : Abs α) (hi : a.Inv) (ch : String) :
    (a.ensure ch).1.Inv ∧ (a.ensure ch).1.chans ch = some (a.ensure ch).2 ∧
      (∀ x, x ≠ ch → (a.ensure ch).1.chans x = a.chans x) ∧
      a.nextEpoch ≤ (a.ensure ch).1.nextEpoch ∧
      (a.chans ch = none → (a.ensure ch).2 = ⟨a.nextEpoch, 0, []⟩) ∧
      (∀ c, a.chans ch = some c → a.ensure ch = (a, c)) := by
  unfold Abs.ensure
  cases hc : a.chans ch with
  | some c => simp [hi, hc]
  | none =>
    obtain ⟨h1, h2, h3⟩ := hi
    refine ⟨⟨?_, ?_, by simp⟩, by simp [Abs.setChan], ?_, by simp, by simp, by simp⟩
    · intro x d hd
      by_cases hx : x = ch
      · subst hx
        simp [Abs.setChan] at hd
        subst hd
        simp; omega
      · simp [Abs.setChan, hx] at hd
        have := h1 _ _ hd
        simp; omega
    · intro c1 c2 x y hne hx hy
      simp only [Abs.setChan] at hx hy
      by_cases h1c : c1 = ch <;> by_cases h2c : c2 = ch
      · exact absurd (h1c.trans h2c.symm) hne
      · simp [h1c, h2c] at hx hy; subst hx
        have := h1 _ _ hy; simp; omega
      · simp [h1c, h2c] at hx hy; subst hy
        have := h1 _ _ hx; simp; omega
      · simp [h1c, h2c] at hx hy
        exact h2 _ _ _ _ hne hx hy
    · intro x hx; simp [Abs.setChan, hx]

theorem read_inv (a : Abs α) (hi : a.Inv) (ch : String) (f : Filter) : (a.read ch f).1.Inv :=
  (ensure_spec a hi ch).1

theorem append_inv (a : Abs α) (hi : a.Inv) (ch : String) (v : α) (size : Nat) :
    (a.append ch v size).1.Inv := by
  obtain ⟨h1, h2, _, _, _, _⟩ := ensure_spec a hi ch
  unfold Abs.append
  apply setChan_inv _ h1 ch _ _ h2 (append_epoch _ _ _)
  have := (h1.1 _ _ h2).1
  rw [append_log_length, append_top]; omega

theorem clear_inv (a : Abs α) (hi : a.Inv) (ch : String) : (a.clear ch).Inv := by
  unfold Abs.clear
  cases hc : a.chans ch with
  | none =>
    have : a.setChan ch (Option.map AbsChan.clear none) = a := by
      cases a; simp only [Abs.setChan, Option.map_none]; congr; funext x
      by_cases hx : x = ch
      · subst hx; simp; exact hc.symm
      · simp [hx]
    rw [this]; exact hi
  | some c =>
    exact setChan_inv a hi ch c c.clear hc rfl (by simp [AbsChan.clear])

/-- expiry keeps well-formedness (and hands out no epoch) -/
theorem tick_inv (a a' : Abs α) (hi : a.Inv) (ht : Abs.Tick a a') : a'.Inv := by
  obtain ⟨h1, h2, h3⟩ := hi
  obtain ⟨hn, hc⟩ := ht
  -- every channel of a' stems from the same channel of a with the same epoch and top
  have key : ∀ x d, a'.chans x = some d → ∃ c, a.chans x = some c ∧ d.epoch = c.epoch ∧ d.top = c.top ∧
      d.log.length ≤ c.log.length := by
    intro x d hd
    rcases hc x with e | e | e
    · exact ⟨d, by rw [← e]; exact hd, rfl, rfl, Nat.le_refl _⟩
    · rw [e] at hd
      cases hx : a.chans x with
      | none => rw [hx] at hd; cases hd
      | some c => rw [hx] at hd; cases hd; exact ⟨c, rfl, rfl, rfl, by simp [AbsChan.clear]⟩
    · rw [e] at hd; cases hd
  refine ⟨?_, ?_, by omega⟩
  · intro x d hd
    obtain ⟨c, hc', he, ht, hl⟩ := key x d hd
    have := h1 _ _ hc'
    omega
  · intro c1 c2 x y hne hx hy
    obtain ⟨c, hc1, he1, _, _⟩ := key c1 x hx
    obtain ⟨d, hc2, he2, _, _⟩ := key c2 y hy
    rw [he1, he2]; exact h2 _ _ _ _ hne hc1 hc2

/-- appending after `ensure` is appending -/
theorem append_ensure (a : Abs α) (ch : String) (v : α) (size : Nat) :
    (a.ensure ch).1.append ch v size = a.append ch v size := by
  unfold Abs.append
  cases hc : a.chans ch with
  | some c =>
    have : a.ensure ch = (a, c) := by unfold Abs.ensure; simp [hc]
    rw [this]
    simp only [this]
  | none =>
    have he : a.ensure ch = ({ (a.setChan ch (some ⟨a.nextEpoch, 0, []⟩)) with nextEpoch := a.nextEpoch + 1 },
        ⟨a.nextEpoch, 0, []⟩) := by unfold Abs.ensure; simp [hc]
    rw [he]
    have he2 : ({ (a.setChan ch (some ⟨a.nextEpoch, 0, []⟩)) with nextEpoch := a.nextEpoch + 1 } : Abs α).ensure ch =
        ({ (a.setChan ch (some ⟨a.nextEpoch, 0, []⟩)) with nextEpoch := a.nextEpoch + 1 }, ⟨a.nextEpoch, 0, []⟩) := by
      unfold Abs.ensure; simp [Abs.setChan]
    rw [he2]

/-- reading after `ensure` changes nothing more -/
theorem ensure_ensure (a : Abs α) (ch : String) : (a.ensure ch).1.ensure ch = a.ensure ch := by
  cases hc : a.chans ch with
  | some c =>
    have : a.ensure ch = (a, c) := by unfold Abs.ensure; simp [hc]
    rw [this]; exact this
  | none =>
    have he : a.ensure ch = ({ (a.setChan ch (some ⟨a.nextEpoch, 0, []⟩)) with nextEpoch := a.nextEpoch + 1 },
        ⟨a.nextEpoch, 0, []⟩) := by unfold Abs.ensure; simp [hc]
    rw [he]
    unfold Abs.ensure; simp [Abs.setChan]

end CentrifugeVerif.AbsStream
