import CentrifugeVerif.Model.Queue
/-!
Helper lemmas for C12: the ring buffer `RingQ` refines a FIFO list.
-/
namespace CentrifugeVerif.Queue

/-- ring index without a variable modulus (so that `omega` can finish) -/
theorem mod_wrap {h i n : Nat} (hh : h < n) (hi : i ≤ n) :
    (h + i) % n = if h + i < n then h + i else h + i - n := by
  split
  · exact Nat.mod_eq_of_lt ‹_›
  · rw [Nat.mod_eq_sub_mod (by omega)]; exact Nat.mod_eq_of_lt (by omega)

theorem bytes_append (a b : List Item) : bytes (a ++ b) = bytes a + bytes b := by
  simp [bytes, List.sum_append]

theorem bytes_cons (a : Item) (b : List Item) : bytes (a :: b) = a.size + bytes b := by
  simp [bytes]

@[simp] theorem bytes_nil : bytes [] = 0 := rfl

namespace RingQ

/-- The representation invariant of `queue.Queue`. -/
structure Inv (q : RingQ) : Prop where
  initPos : 0 < q.initCap
  closedShape : q.closed = true → q.nodes = [] ∧ q.cnt = 0
  openShape : q.closed = false →
    q.initCap ≤ q.cap ∧ q.head < q.cap ∧ q.cnt ≤ q.cap ∧ q.tail = (q.head + q.cnt) % q.cap
  sizeEq : q.size = bytes q.toList

@[simp] theorem toList_length (q : RingQ) : q.toList.length = q.cnt := by simp [toList]

theorem toList_getElem? (q : RingQ) (i : Nat) :
    q.toList[i]? = if i < q.cnt then some (q.slot ((q.head + i) % q.cap)) else none := by
  unfold toList
  rw [List.getElem?_map]
  split
  · rw [List.getElem?_range ‹_›]; rfl
  · rw [List.getElem?_eq_none (by simp; omega)]; rfl

theorem toList_eq_nil_of_cnt {q : RingQ} (h : q.cnt = 0) : q.toList = [] := by
  simp [toList, h]

/-- two rings with the same count and the same live slots present the same list -/
theorem toList_congr {q q' : RingQ} (hc : q'.cnt = q.cnt)
    (hs : ∀ i, i < q.cnt → q'.slot ((q'.head + i) % q'.cap) = q.slot ((q.head + i) % q.cap)) :
    q'.toList = q.toList := by
  apply List.ext_getElem?
  intro i
  rw [toList_getElem?, toList_getElem?, hc]
  split
  · rw [hs i ‹_›]
  · rfl

theorem new_inv {c : Nat} (hc : 0 < c) : (new c).Inv := by
  refine ⟨hc, by simp [new], ?_, by simp [new, toList]⟩
  intro _
  simp [new, cap]
  exact hc

@[simp] theorem new_toList (c : Nat) : (new c).toList = [] := by simp [new, toList]


theorem slot_eq (q : RingQ) (i : Nat) : q.slot i = (q.nodes[i]?).getD Item.zero := by
  simp [slot, List.getD_eq_getElem?_getD]

theorem live_eq_toList {q : RingQ} (hcap : q.head < q.cap) (hcnt : q.cnt ≤ q.cap) (hpos : 0 < q.cnt)
    (ht : q.tail = (q.head + q.cnt) % q.cap) : q.live = q.toList := by
  rw [mod_wrap hcap hcnt] at ht
  apply List.ext_getElem?
  intro i
  rw [toList_getElem?]
  unfold live
  by_cases hw : q.head + q.cnt < q.cap
  · rw [if_pos hw] at ht
    rw [if_pos (by omega)]
    rw [List.getElem?_take, List.getElem?_drop]
    by_cases hi : i < q.cnt
    · rw [if_pos (by omega), if_pos hi, mod_wrap hcap (by omega), if_pos (by omega), slot_eq]
      have : q.head + i < q.nodes.length := by simp [cap] at hw; omega
      rw [List.getElem?_eq_getElem this]; rfl
    · rw [if_neg (by omega), if_neg hi]
  · rw [if_neg hw] at ht
    rw [if_neg (by omega)]
    rw [List.getElem?_append]
    simp only [List.length_drop, List.getElem?_drop, List.getElem?_take]
    have hlen : q.nodes.length = q.cap := rfl
    by_cases hi : i < q.cnt
    · rw [if_pos hi, mod_wrap hcap (by omega), slot_eq]
      by_cases h2 : q.head + i < q.cap
      · rw [if_pos (by omega), if_pos h2]
        rw [List.getElem?_eq_getElem (by omega)]; rfl
      · rw [if_neg (by omega), if_neg h2, if_pos (by omega)]
        have : i - (q.nodes.length - q.head) = q.head + i - q.cap := by omega
        rw [this, List.getElem?_eq_getElem (by omega)]; rfl
    · rw [if_neg hi, if_neg (by omega), if_neg (by omega)]

/-- `resize` keeps the contents and re-establishes the ring shape. -/
theorem resize_spec {q : RingQ} (hI : q.Inv) (ho : q.closed = false) {n : Nat}
    (hn : q.cnt ≤ n) (hpos : 0 < n) (hinit : q.initCap ≤ n) :
    (q.resize n).toList = q.toList ∧ (q.resize n).Inv ∧ (q.resize n).cnt = q.cnt ∧
      (q.resize n).cap = n ∧ (q.resize n).closed = false ∧ (q.resize n).initCap = q.initCap ∧
      (q.resize n).size = q.size := by
  obtain ⟨hi0, _, hopen, hsz⟩ := hI
  obtain ⟨hic, hh, hc, ht⟩ := hopen ho
  unfold resize
  by_cases h0 : q.cnt = 0
  · rw [if_pos h0]
    have hl : ({ q with head := 0, tail := 0, nodes := List.replicate n Item.zero } : RingQ).toList = q.toList := by
      simp [toList, h0]
    refine ⟨hl, ⟨hi0, by simp [ho], ?_, by rw [hl]; exact hsz⟩, rfl, by simp [cap], ho, rfl, rfl⟩
    intro _
    simp [cap, h0]
    exact ⟨hinit, hpos⟩
  · rw [if_neg h0]
    have hlive := live_eq_toList hh hc (by omega) ht
    have hlen : (q.live.take n).length = q.cnt := by
      rw [hlive]; simp; omega
    have hl : ({ q with nodes := q.live.take n ++ List.replicate (n - (q.live.take n).length) Item.zero,
                        tail := q.cnt % n, head := 0 } : RingQ).toList = q.toList := by
      apply List.ext_getElem?
      intro i
      rw [toList_getElem?]
      simp only [cap, List.length_append, List.length_replicate, hlen]
      have hcapn : q.cnt + (n - q.cnt) = n := by omega
      rw [hcapn]
      by_cases hi : i < q.cnt
      · rw [if_pos hi, Nat.zero_add]
        rw [Nat.mod_eq_of_lt (show i < n by omega)]
        simp only [slot, List.getD_eq_getElem?_getD]
        rw [List.getElem?_append, if_pos (by omega), List.getElem?_take, if_pos (by omega), hlive]
        rw [List.getElem?_eq_getElem (by simp; exact hi)]
        rfl
      · rw [if_neg hi, List.getElem?_eq_none (by simp; omega)]
    refine ⟨hl, ⟨hi0, by simp [ho], ?_, by rw [hl]; exact hsz⟩, rfl, ?_, ho, rfl, rfl⟩
    · intro _
      simp only [cap, List.length_append, List.length_replicate, hlen]
      have hcapn : q.cnt + (n - q.cnt) = n := by omega
      rw [hcapn]
      exact ⟨hinit, hpos, hn, by simp⟩
    · simp only [cap, List.length_append, List.length_replicate, hlen]; omega

theorem push_spec {q : RingQ} (hI : q.Inv) (ho : q.closed = false) (hroom : q.cnt < q.cap) (x : Item) :
    (q.push x).toList = q.toList ++ [x] ∧ (q.push x).Inv ∧ (q.push x).cnt = q.cnt + 1 ∧
      (q.push x).cap = q.cap ∧ (q.push x).closed = false ∧ (q.push x).initCap = q.initCap := by
  obtain ⟨hi0, _, hopen, hsz⟩ := hI
  obtain ⟨hic, hh, hc, ht⟩ := hopen ho
  have htw := ht
  rw [mod_wrap hh hc] at htw
  have hl : (q.push x).toList = q.toList ++ [x] := by
    apply List.ext_getElem?
    intro i
    rw [toList_getElem?, List.getElem?_append, toList_length, toList_getElem?]
    simp only [push, cap, List.length_set, slot, List.getD_eq_getElem?_getD, List.getElem?_set]
    by_cases hi : i < q.cnt
    · rw [if_pos (by omega), if_pos hi, if_pos hi]
      have hne : q.tail ≠ (q.head + i) % q.nodes.length := by
        rw [mod_wrap hh (by omega), htw]; simp only [cap] at *; split <;> split <;> omega
      rw [if_neg hne]
    · rw [if_neg hi]
      by_cases hi2 : i = q.cnt
      · subst hi2
        rw [if_pos (by omega), if_pos ht, if_pos (by rw [ht]; exact Nat.mod_lt _ (by omega))]
        simp
      · rw [if_neg (by omega), List.getElem?_eq_none (by simp; omega)]
  refine ⟨hl, ⟨hi0, by simp [push, ho], ?_, ?_⟩, rfl, by simp [push, cap], ho, rfl⟩
  · intro _
    simp only [push, cap, List.length_set]
    refine ⟨hic, hh, by simp only [cap] at hroom; omega, ?_⟩
    rw [ht, ← Nat.add_assoc]; simp [cap, Nat.mod_add_mod]
  · rw [hl, bytes_append]; simp [push, hsz, bytes]

theorem add_spec {q : RingQ} (hI : q.Inv) (ho : q.closed = false) (x : Item) :
    (q.add x).2 = .ok ∧ (q.add x).1.toList = q.toList ++ [x] ∧ (q.add x).1.Inv ∧
      (q.add x).1.closed = false := by
  have hopen := hI.openShape ho
  unfold add
  rw [if_neg (by simp [ho])]
  by_cases hfull : q.cnt = q.cap
  · have hr := resize_spec hI ho (n := q.cnt * 2) (by omega) (by omega) (by omega)
    obtain ⟨hl, hI', hc', hcap', ho', _, _⟩ := hr
    simp only [if_pos hfull]
    have hroom : (q.resize (q.cnt * 2)).cnt < (q.resize (q.cnt * 2)).cap := by omega
    have htl : (q.resize (q.cnt * 2)).tail < (q.resize (q.cnt * 2)).cap := by
      rw [(hI'.openShape ho').2.2.2]; exact Nat.mod_lt _ (by omega)
    rw [if_pos htl]
    have hp := push_spec hI' ho' hroom x
    exact ⟨rfl, by rw [hp.1, hl], hp.2.1, hp.2.2.2.2.1⟩
  · simp only [if_neg hfull]
    have htl : q.tail < q.cap := by rw [hopen.2.2.2]; exact Nat.mod_lt _ (by omega)
    rw [if_pos htl]
    have hp := push_spec hI ho (by omega) x
    exact ⟨rfl, hp.1, hp.2.1, hp.2.2.2.2.1⟩

theorem add_closed {q : RingQ} (hc : q.closed = true) (x : Item) : q.add x = (q, .closed) := by
  simp [add, hc]

theorem growLoop_ge (fuel c need : Nat) (hc : 0 < c) (hf : need ≤ c + fuel) :
    need ≤ growLoop fuel c need ∧ c ≤ growLoop fuel c need := by
  induction fuel generalizing c with
  | zero => simp [growLoop]; omega
  | succ f ih =>
    unfold growLoop
    split
    · have := ih (c * 2) (by omega) (by omega)
      exact ⟨this.1, by omega⟩
    · omega

theorem foldl_push_spec (xs : List Item) {q : RingQ} (hI : q.Inv) (ho : q.closed = false)
    (hroom : q.cnt + xs.length ≤ q.cap) :
    (xs.foldl push q).toList = q.toList ++ xs ∧ (xs.foldl push q).Inv ∧ (xs.foldl push q).closed = false := by
  induction xs generalizing q with
  | nil => simp [hI, ho]
  | cons x xs ih =>
    simp only [List.foldl_cons]
    simp only [List.length_cons] at hroom
    have hp := push_spec hI ho (by omega) x
    have := ih hp.2.1 hp.2.2.2.2.1 (by rw [hp.2.2.1, hp.2.2.2.1]; omega)
    rw [this.1, hp.1]
    exact ⟨by simp, this.2⟩

theorem addMany_spec {q : RingQ} (hI : q.Inv) (ho : q.closed = false) (xs : List Item) :
    (q.addMany xs).2 = .ok ∧ (q.addMany xs).1.toList = q.toList ++ xs ∧ (q.addMany xs).1.Inv ∧
      (q.addMany xs).1.closed = false := by
  have hopen := hI.openShape ho
  unfold addMany
  rw [if_neg (by simp [ho])]
  by_cases hneed : q.cnt + xs.length > q.cap
  · simp only [if_pos hneed]
    have hcap0 : ¬ q.cap = 0 := by omega
    simp only [if_neg hcap0]
    have hg := growLoop_ge (q.cnt + xs.length) q.cap (q.cnt + xs.length) (by omega) (by omega)
    obtain ⟨hl, hI', hc', hcap', ho', _, _⟩ :=
      resize_spec hI ho (n := growLoop (q.cnt + xs.length) q.cap (q.cnt + xs.length)) (by omega) (by omega) (by omega)
    have hf := foldl_push_spec xs hI' ho' (by omega)
    exact ⟨trivial, by rw [hf.1, hl], hf.2⟩
  · simp only [if_neg hneed]
    have hf := foldl_push_spec xs hI ho (by omega)
    exact ⟨trivial, hf⟩

theorem addMany_closed {q : RingQ} (hc : q.closed = true) (xs : List Item) : q.addMany xs = (q, .closed) := by
  simp [addMany, hc]

/-- advancing `head` by one slot (whatever happens to the vacated slot) removes the oldest item -/
theorem toList_advance {q q' : RingQ} (hh : q.head < q.cap) (hpos : 0 < q.cnt) (hc : q.cnt ≤ q.cap)
    (hlen : q'.nodes.length = q.cap) (hag : ∀ j, j ≠ q.head → q'.nodes[j]? = q.nodes[j]?)
    (hhead : q'.head = (q.head + 1) % q.cap) (hcnt : q'.cnt = q.cnt - 1) :
    q.toList = q.slot q.head :: q'.toList := by
  apply List.ext_getElem?
  intro i
  rw [toList_getElem?]
  cases i with
  | zero => simp [hpos, Nat.mod_eq_of_lt hh]
  | succ i =>
    rw [List.getElem?_cons_succ, toList_getElem?, hcnt, hhead]
    by_cases hi : i + 1 < q.cnt
    · rw [if_pos hi, if_pos (by omega)]
      simp only [cap, hlen, slot, List.getD_eq_getElem?_getD]
      have e1 : ((q.head + 1) % q.nodes.length + i) % q.nodes.length = (q.head + (i + 1)) % q.nodes.length := by
        rw [Nat.mod_add_mod]; congr 1; omega
      rw [e1]
      have hne : (q.head + (i + 1)) % q.nodes.length ≠ q.head := by
        have := mod_wrap (h := q.head) (i := i + 1) (n := q.nodes.length) hh (by simp only [cap] at hc; omega)
        rw [this]; simp only [cap] at *; split <;> omega
      rw [hag _ hne]
    · rw [if_neg hi, if_neg (by omega)]

theorem tail_advance {q : RingQ} (hpos : 0 < q.cnt)
    (ht : q.tail = (q.head + q.cnt) % q.cap) :
    q.tail = ((q.head + 1) % q.cap + (q.cnt - 1)) % q.cap := by
  rw [ht, Nat.mod_add_mod]; congr 1; omega

theorem pop1_spec {q : RingQ} (hI : q.Inv) (ho : q.closed = false) (hpos : 0 < q.cnt) :
    q.toList = q.pop1.2 :: q.pop1.1.toList ∧ q.pop1.1.Inv ∧ q.pop1.1.closed = false ∧
      q.pop1.1.cnt = q.cnt - 1 := by
  obtain ⟨hi0, _, hopen, hsz⟩ := hI
  obtain ⟨hic, hh, hc, ht⟩ := hopen ho
  have hl : q.toList = q.pop1.2 :: q.pop1.1.toList := by
    apply toList_advance hh hpos hc
    · simp [pop1, cap]
    · intro j hj
      simp only [pop1, List.getElem?_set]
      rw [if_neg (by omega)]
    · rfl
    · rfl
  refine ⟨hl, ⟨hi0, by simp [pop1, ho], ?_, ?_⟩, ho, rfl⟩
  · intro _
    simp only [pop1, cap, List.length_set]
    have hcp : 0 < q.nodes.length := by simp only [cap] at hh; omega
    exact ⟨hic, Nat.mod_lt _ hcp, by simp only [cap] at hc; omega, tail_advance hpos ht⟩
  · have : q.pop1.1.size = q.size - q.pop1.2.size := rfl
    rw [this, hsz, hl, bytes_cons]; omega

theorem popN_spec (n : Nat) {q : RingQ} (hI : q.Inv) (ho : q.closed = false) (hn : n ≤ q.cnt) :
    (q.popN n).2 = q.toList.take n ∧ (q.popN n).1.toList = q.toList.drop n ∧ (q.popN n).1.Inv ∧
      (q.popN n).1.closed = false ∧ (q.popN n).1.cnt = q.cnt - n := by
  induction n generalizing q with
  | zero => simp [popN, hI, ho]
  | succ n ih =>
    have hp := pop1_spec hI ho (by omega)
    have := ih hp.2.1 hp.2.2.1 (by rw [hp.2.2.2]; omega)
    simp only [popN]
    rw [hp.1]
    simp only [List.take_succ_cons, List.drop_succ_cons]
    refine ⟨by rw [this.1], this.2.1, this.2.2.1, this.2.2.2.1, ?_⟩
    rw [this.2.2.2.2, hp.2.2.2]; omega

theorem shrinkLoop_spec (fuel k ic cnt : Nat) (acc : Option Nat)
    (hacc : ∀ n, acc = some n → ic ≤ n ∧ cnt ≤ n) :
    ∀ n, shrinkLoop fuel k ic cnt acc = some n → ic ≤ n ∧ cnt ≤ n := by
  induction fuel generalizing k acc with
  | zero => simpa [shrinkLoop] using hacc
  | succ f ih =>
    unfold shrinkLoop
    split
    · rename_i h
      apply ih
      intro n hn
      cases hn
      exact h
    · exact hacc

theorem shrinkOnly_spec {q : RingQ} (hI : q.Inv) (ho : q.closed = false) :
    q.shrinkOnly.toList = q.toList ∧ q.shrinkOnly.Inv ∧ q.shrinkOnly.closed = false ∧
      q.shrinkOnly.cnt = q.cnt := by
  unfold shrinkOnly
  split
  · rename_i n hn
    have := shrinkLoop_spec _ _ _ _ none (by simp) n hn
    have hr := resize_spec hI ho (n := n) this.2 (by have := hI.initPos; omega) this.1
    exact ⟨hr.1, hr.2.1, hr.2.2.2.2.1, hr.2.2.1⟩
  · exact ⟨rfl, hI, ho, rfl⟩

/-- resetting `head`/`tail` of an empty open queue -/
theorem reset_spec {q : RingQ} (hI : q.Inv) (ho : q.closed = false) (h0 : q.cnt = 0) :
    ({ q with head := 0, tail := 0 } : RingQ).toList = q.toList ∧
      ({ q with head := 0, tail := 0 } : RingQ).Inv := by
  obtain ⟨hi0, _, hopen, hsz⟩ := hI
  obtain ⟨hic, hh, hc, ht⟩ := hopen ho
  have hl : ({ q with head := 0, tail := 0 } : RingQ).toList = q.toList := by simp [toList, h0]
  refine ⟨hl, ⟨hi0, by simp [ho], ?_, by rw [hl]; exact hsz⟩⟩
  intro _
  simp only [cap] at *
  exact ⟨hic, by omega, hc, by simp [h0]⟩

theorem doShrink_spec {q : RingQ} (hI : q.Inv) (ho : q.closed = false) :
    q.doShrink.toList = q.toList ∧ q.doShrink.Inv ∧ q.doShrink.closed = false ∧ q.doShrink.cnt = q.cnt := by
  unfold doShrink
  by_cases h0 : q.cnt = 0
  · simp only [if_pos h0]
    have hr := reset_spec hI ho h0
    have hs := shrinkOnly_spec hr.2 (show ({ q with head := 0, tail := 0 } : RingQ).closed = false from ho)
    exact ⟨by rw [hs.1, hr.1], hs.2.1, hs.2.2.1, hs.2.2.2⟩
  · simp only [if_neg h0]
    exact shrinkOnly_spec hI ho

/-- the shrink timer may fire on a closed queue (it was already running when `Close` stopped it) -/
theorem doShrink_closed {q : RingQ} (hI : q.Inv) (hc : q.closed = true) :
    q.doShrink.toList = q.toList ∧ q.doShrink.Inv ∧ q.doShrink.closed = true := by
  obtain ⟨hi0, hcl, _, hsz⟩ := hI
  obtain ⟨hn, h0⟩ := hcl hc
  have hst : ({ q with head := 0, tail := 0 } : RingQ).shrinkTarget = none := by
    simp only [shrinkTarget, cap, hn, List.length_nil]
    simp [shrinkLoop]; omega
  have : q.doShrink = { q with head := 0, tail := 0 } := by
    unfold doShrink
    simp only [if_pos h0, shrinkOnly, hst]
  rw [this]
  have hl : ({ q with head := 0, tail := 0 } : RingQ).toList = q.toList := by simp [toList, h0]
  exact ⟨hl, ⟨hi0, fun _ => ⟨hn, h0⟩, by simp [hc], by rw [hl]; exact hsz⟩, hc⟩

theorem cnt_eq_length (q : RingQ) : q.cnt = q.toList.length := by simp

theorem toList_head {q : RingQ} (hI : q.Inv) (ho : q.closed = false) (hpos : 0 < q.cnt) :
    q.toList = q.slot q.head :: q.toList.tail := by
  have := (pop1_spec hI ho hpos).1
  rw [this]; rfl

theorem remove_spec {q : RingQ} (hI : q.Inv) (ho : q.closed = false) (hpos : 0 < q.cnt) :
    ∃ x, q.remove.2 = some x ∧ q.toList = x :: q.remove.1.toList ∧ q.remove.1.Inv ∧
      q.remove.1.closed = false := by
  obtain ⟨hi0, hcs, hopen, hsz⟩ := hI
  obtain ⟨hic, hh, hc, ht⟩ := hopen ho
  let q1 : RingQ := { q with head := (q.head + 1) % q.cap, cnt := q.cnt - 1, size := q.size - (q.slot q.head).size }
  have hl : q.toList = q.slot q.head :: q1.toList :=
    toList_advance hh hpos hc rfl (fun _ _ => rfl) rfl rfl
  have hcp : 0 < q.nodes.length := by simp only [cap] at hh; omega
  have hI1 : q1.Inv := by
    refine ⟨hi0, by simp [q1, ho], ?_, ?_⟩
    · intro _
      exact ⟨hic, Nat.mod_lt _ hcp, by simp only [q1, cap] at *; omega, tail_advance hpos ht⟩
    · show q.size - (q.slot q.head).size = bytes q1.toList
      rw [hsz, hl, bytes_cons]; omega
  refine ⟨q.slot q.head, ?_⟩
  unfold remove
  rw [if_neg (by omega)]
  simp only []
  by_cases hs : q1.initCap ≤ q1.cap / 2 ∧ q1.cnt ≤ q1.cap / 2
  · have hr := resize_spec hI1 (show q1.closed = false from ho) (n := q1.cap / 2) hs.2
      (by have : 0 < q1.initCap := hi0; omega) hs.1
    rw [if_pos hs]
    exact ⟨trivial, by rw [hr.1]; exact hl, hr.2.1, hr.2.2.2.2.1⟩
  · rw [if_neg hs]
    exact ⟨trivial, hl, hI1, ho⟩

theorem remove_empty {q : RingQ} (h0 : q.cnt = 0) : q.remove = (q, none) := by simp [remove, h0]

theorem count_eq (q : RingQ) (m : Int) : q.count m = takeCount q.toList.length m := by
  simp [count, takeCount]

theorem count_le (q : RingQ) (m : Int) : q.count m ≤ q.cnt := by
  unfold count
  split
  · omega
  · omega

theorem removeMany_spec {q : RingQ} (hI : q.Inv) (ho : q.closed = false) (hpos : 0 < q.cnt) (m : Int) :
    (q.removeMany m).2 = some (q.toList.take (q.count m)) ∧
      (q.removeMany m).1.toList = q.toList.drop (q.count m) ∧ (q.removeMany m).1.Inv ∧
      (q.removeMany m).1.closed = false := by
  have hp := popN_spec (q.count m) hI ho (count_le q m)
  have hs := shrinkOnly_spec hp.2.2.1 hp.2.2.2.1
  unfold removeMany
  rw [if_neg (by omega)]
  simp only []
  exact ⟨by rw [hp.1], by rw [hs.1, hp.2.1], hs.2.1, hs.2.2.1⟩

theorem removeManyInto_spec {q : RingQ} (hI : q.Inv) (ho : q.closed = false) (hpos : 0 < q.cnt)
    (b : Nat) (m : Int) :
    (q.removeManyInto b m).2 = some (q.toList.take (min (q.count m) b)) ∧
      (q.removeManyInto b m).1.toList = q.toList.drop (min (q.count m) b) ∧ (q.removeManyInto b m).1.Inv ∧
      (q.removeManyInto b m).1.closed = false := by
  have hle : min (q.count m) b ≤ q.cnt := by have := count_le q m; omega
  have hp := popN_spec (min (q.count m) b) hI ho hle
  unfold removeManyInto
  rw [if_neg (by omega)]
  simp only []
  by_cases h0 : (q.popN (min (q.count m) b)).1.cnt = 0
  · rw [if_pos h0]
    have hr := reset_spec hp.2.2.1 hp.2.2.2.1 h0
    exact ⟨by rw [hp.1], by rw [hr.1, hp.2.1], hr.2, hp.2.2.2.1⟩
  · rw [if_neg h0]
    exact ⟨by rw [hp.1], hp.2.1, hp.2.2.1, hp.2.2.2.1⟩

theorem removeManyIntoShrink_spec {q : RingQ} (hI : q.Inv) (ho : q.closed = false) (hpos : 0 < q.cnt)
    (b : Nat) (m : Int) :
    (q.removeManyIntoShrink b m).2 = some (q.toList.take (min (q.count m) b)) ∧
      (q.removeManyIntoShrink b m).1.toList = q.toList.drop (min (q.count m) b) ∧
      (q.removeManyIntoShrink b m).1.Inv ∧ (q.removeManyIntoShrink b m).1.closed = false := by
  have hle : min (q.count m) b ≤ q.cnt := by have := count_le q m; omega
  have hp := popN_spec (min (q.count m) b) hI ho hle
  have hs := doShrink_spec hp.2.2.1 hp.2.2.2.1
  unfold removeManyIntoShrink
  rw [if_neg (by omega)]
  simp only []
  exact ⟨by rw [hp.1], by rw [hs.1, hp.2.1], hs.2.1, hs.2.2.1⟩

theorem drain_spec (n : Nat) {q : RingQ} (hh : q.head < q.cap) (hc : q.cnt ≤ q.cap) (hn : n = q.cnt) :
    (q.drain n).2 = q.toList := by
  induction n generalizing q with
  | zero => simp [drain, toList_eq_nil_of_cnt hn.symm]
  | succ n ih =>
    simp only [drain]
    have hcp : 0 < q.nodes.length := by simp only [cap] at hh; omega
    rw [ih (q := { q with head := (q.head + 1) % q.cap, cnt := q.cnt - 1 })
      (Nat.mod_lt _ hcp) (by simp only [cap] at *; omega) (by simp; omega)]
    exact (toList_advance (q' := { q with head := (q.head + 1) % q.cap, cnt := q.cnt - 1 })
      hh (by omega) hc rfl (fun _ _ => rfl) rfl rfl).symm

theorem drain_initCap (n : Nat) (q : RingQ) : (q.drain n).1.initCap = q.initCap := by
  induction n generalizing q with
  | zero => rfl
  | succ n ih => simp only [drain]; rw [ih]

theorem close_inv {q : RingQ} (hI : q.Inv) : q.close.Inv ∧ q.close.toList = [] ∧ q.close.closed = true := by
  refine ⟨⟨hI.initPos, fun _ => ⟨rfl, rfl⟩, by simp [close], by simp [close, toList]⟩, by simp [close, toList], rfl⟩

theorem closeRemaining_spec {q : RingQ} (hI : q.Inv) (ho : q.closed = false) :
    q.closeRemaining.2 = q.toList ∧ q.closeRemaining.1.Inv ∧ q.closeRemaining.1.toList = [] ∧
      q.closeRemaining.1.closed = true := by
  obtain ⟨hic, hh, hc, ht⟩ := hI.openShape ho
  unfold closeRemaining
  rw [if_neg (by simp [ho])]
  simp only []
  refine ⟨drain_spec q.cnt hh hc rfl, ?_, by simp [close, toList], rfl⟩
  exact ⟨by show 0 < (q.drain q.cnt).1.initCap; rw [drain_initCap]; exact hI.initPos,
    fun _ => ⟨rfl, rfl⟩, by simp [close], by simp [close, toList]⟩

theorem closed_toList {q : RingQ} (hI : q.Inv) (hc : q.closed = true) : q.toList = [] :=
  toList_eq_nil_of_cnt (hI.closedShape hc).2

theorem size_eq_bytes {q : RingQ} (hI : q.Inv) : q.size = bytes q.toList := hI.sizeEq

end RingQ

/-- simulation relation between the ring buffer and the FIFO specification -/
def Rel (q : RingQ) (f : Fifo) : Prop := q.Inv ∧ q.toList = f.items ∧ q.closed = f.closed

namespace RingQ

theorem rel_new {c : Nat} (hc : 0 < c) : Rel (new c) ⟨[], false⟩ := ⟨new_inv hc, new_toList c, rfl⟩

theorem cnt_zero_iff {q : RingQ} {f : Fifo} (h : Rel q f) : q.cnt = 0 ↔ f.items = [] := by
  rw [← h.2.1, cnt_eq_length]; exact List.length_eq_zero_iff

theorem step_refines {q : RingQ} {f : Fifo} (h : Rel q f) (op : Op) :
    Rel (q.step op).1 (f.step op).1 ∧ (q.step op).2 = (f.step op).2 := by
  obtain ⟨hI, hl, hc⟩ := h
  have hrel : Rel q f := ⟨hI, hl, hc⟩
  cases hcl : q.closed with
  | true =>
    have hfc : f.closed = true := by rw [← hc, hcl]
    have hnil : f.items = [] := by rw [← hl]; exact closed_toList hI hcl
    have h0 : q.cnt = 0 := (hI.closedShape hcl).2
    cases op with
    | add x => simp [step, Fifo.step, add_closed hcl, hfc, addOut, hrel]
    | addMany xs => simp [step, Fifo.step, addMany_closed hcl, hfc, addOut, hrel]
    | remove => simp [step, Fifo.step, remove_empty h0, hnil, hrel]
    | removeMany m => simp [step, Fifo.step, removeMany, h0, hnil, hrel]
    | removeManyInto b m => simp [step, Fifo.step, removeManyInto, h0, hnil, hrel]
    | removeManyIntoShrink b m => simp [step, Fifo.step, removeManyIntoShrink, h0, hnil, hrel]
    | shrink t =>
      cases t with
      | true =>
        have := doShrink_closed hI hcl
        exact ⟨⟨this.2.1, this.1.trans hl, this.2.2.trans hfc.symm⟩, rfl⟩
      | false => simp [step, Fifo.step, finishCollect0, hcl, hrel]
    | close =>
      have := close_inv hI
      exact ⟨⟨this.1, this.2.1, this.2.2⟩, rfl⟩
    | closeRemaining => simp [step, Fifo.step, closeRemaining, hcl, hfc, hrel]
    | len => simp [step, Fifo.step, hrel, h0, hnil]
    | size => simp [step, Fifo.step, hrel, hI.sizeEq, hl]
    | closed => simp [step, Fifo.step, hrel, hc]
  | false =>
    have hfc : f.closed = false := by rw [← hc, hcl]
    cases op with
    | add x =>
      have := add_spec hI hcl x
      simp only [step, Fifo.step, hfc, Bool.false_eq_true, ↓reduceIte]
      refine ⟨⟨this.2.2.1, by rw [this.2.1, hl], by rw [this.2.2.2]⟩, ?_⟩
      simp [this.1, addOut]
    | addMany xs =>
      have := addMany_spec hI hcl xs
      simp only [step, Fifo.step, hfc, Bool.false_eq_true, ↓reduceIte]
      refine ⟨⟨this.2.2.1, by rw [this.2.1, hl], by rw [this.2.2.2]⟩, ?_⟩
      simp [this.1, addOut]
    | remove =>
      by_cases h0 : q.cnt = 0
      · have hnil := (cnt_zero_iff hrel).mp h0
        simp [step, Fifo.step, remove_empty h0, hnil, hrel]
      · obtain ⟨x, hx, hxl, hxI, hxc⟩ := remove_spec hI hcl (by omega)
        rw [hl] at hxl
        simp only [step, Fifo.step, hxl, hx]
        exact ⟨⟨hxI, rfl, by rw [hxc, hfc]⟩, trivial⟩
    | removeMany m =>
      by_cases h0 : q.cnt = 0
      · have hnil := (cnt_zero_iff hrel).mp h0
        simp [step, Fifo.step, removeMany, h0, hnil, hrel]
      · have hne : f.items ≠ [] := fun e => h0 ((cnt_zero_iff hrel).mpr e)
        have := removeMany_spec hI hcl (by omega) m
        simp only [step, Fifo.step, if_neg hne]
        rw [count_eq, hl] at this
        exact ⟨⟨this.2.2.1, this.2.1, by rw [this.2.2.2, hfc]⟩, by rw [this.1]⟩
    | removeManyInto b m =>
      by_cases h0 : q.cnt = 0
      · have hnil := (cnt_zero_iff hrel).mp h0
        simp [step, Fifo.step, removeManyInto, h0, hnil, hrel]
      · have hne : f.items ≠ [] := fun e => h0 ((cnt_zero_iff hrel).mpr e)
        have := removeManyInto_spec hI hcl (by omega) b m
        simp only [step, Fifo.step, if_neg hne]
        rw [count_eq, hl] at this
        exact ⟨⟨this.2.2.1, this.2.1, by rw [this.2.2.2, hfc]⟩, by rw [this.1]⟩
    | removeManyIntoShrink b m =>
      by_cases h0 : q.cnt = 0
      · have hnil := (cnt_zero_iff hrel).mp h0
        simp [step, Fifo.step, removeManyIntoShrink, h0, hnil, hrel]
      · have hne : f.items ≠ [] := fun e => h0 ((cnt_zero_iff hrel).mpr e)
        have := removeManyIntoShrink_spec hI hcl (by omega) b m
        simp only [step, Fifo.step, if_neg hne]
        rw [count_eq, hl] at this
        exact ⟨⟨this.2.2.1, this.2.1, by rw [this.2.2.2, hfc]⟩, by rw [this.1]⟩
    | shrink t =>
      have := doShrink_spec hI hcl
      cases t with
      | true => exact ⟨⟨this.2.1, this.1.trans hl, this.2.2.1.trans hfc.symm⟩, rfl⟩
      | false =>
        simp only [step, Fifo.step, finishCollect0, hcl]
        exact ⟨⟨this.2.1, this.1.trans hl, this.2.2.1.trans hfc.symm⟩, trivial⟩
    | close =>
      have := close_inv hI
      exact ⟨⟨this.1, this.2.1, this.2.2⟩, rfl⟩
    | closeRemaining =>
      have := closeRemaining_spec hI hcl
      simp only [step, Fifo.step, hfc, Bool.false_eq_true, ↓reduceIte]
      exact ⟨⟨this.2.1, this.2.2.1, this.2.2.2⟩, by rw [this.1, hl]⟩
    | len => simp [step, Fifo.step, hrel, ← hl]
    | size => simp [step, Fifo.step, hrel, hI.sizeEq, hl]
    | closed => simp [step, Fifo.step, hrel, hc]

theorem run_refines {q : RingQ} {f : Fifo} (h : Rel q f) (ops : List Op) :
    Rel (q.run ops).1 (f.run ops).1 ∧ (q.run ops).2 = (f.run ops).2 := by
  induction ops generalizing q f with
  | nil => exact ⟨h, rfl⟩
  | cons op ops ih =>
    have hs := step_refines h op
    have := ih hs.1
    simp only [run, Fifo.run]
    exact ⟨this.1, by rw [hs.2, this.2]⟩
end RingQ
end CentrifugeVerif.Queue
