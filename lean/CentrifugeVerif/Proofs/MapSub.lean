import CentrifugeVerif.Model.MapSub
/-!
Lemmas for C22: the stream window as a suffix of the ghost log, and last-writer-wins replay.
-/
namespace CentrifugeVerif.MapSub

theorem pubsFrom_length (base : Nat) (l : List Change) : (pubsFrom base l).length = l.length := by
  induction l generalizing base with
  | nil => rfl
  | cons c r ih => simp [pubsFrom, ih]

theorem pubsFrom_off_gt (base : Nat) (l : List Change) : ∀ p ∈ pubsFrom base l, p.off > base := by
  induction l generalizing base with
  | nil => simp [pubsFrom]
  | cons c r ih =>
    intro p hp
    simp only [pubsFrom, List.mem_cons] at hp
    rcases hp with hp | hp
    · subst hp; simp
    · have := ih (base + 1) p hp; omega

/-- keeping the publications with offset > n (n ≥ base) drops exactly the first n - base of them. -/
theorem filter_pubsFrom (base n : Nat) (l : List Change) (h : base ≤ n) :
    (pubsFrom base l).filter (fun p => p.off > n) = pubsFrom n (l.drop (n - base)) := by
  induction l generalizing base with
  | nil => simp [pubsFrom]
  | cons c r ih =>
    by_cases hb : base = n
    · subst hb
      simp only [Nat.sub_self, List.drop_zero]
      have : ∀ p ∈ pubsFrom base (c :: r), (decide (p.off > base)) = true := by
        intro p hp; simpa using pubsFrom_off_gt base (c :: r) p hp
      exact List.filter_eq_self.mpr this
    · have hlt : base < n := Nat.lt_of_le_of_ne h hb
      have h1 : ¬ (base + 1 > n) := by omega
      have h2 : n - base = (n - (base + 1)) + 1 := by omega
      simp only [pubsFrom, List.filter_cons, h1, decide_false, Bool.false_eq_true, if_false]
      rw [h2, List.drop_succ_cons]
      exact ih (base + 1) (by omega)

/-- the changes after offset `n`, with their offsets -/
def after (b : Broker) (n : Nat) : List Pub := pubsFrom n (b.log.drop n)

theorem after_nil_of_ge (b : Broker) (n : Nat) (h : b.top ≤ n) : after b n = [] := by
  unfold after Broker.top at *
  rw [List.drop_eq_nil_of_le h]; rfl

theorem after_head (b : Broker) (n : Nat) (h : n < b.top) :
    ∃ (c : Change) (r : List Pub), after b n = ({ off := n + 1, key := c.key, val := c.val } : Pub) :: r := by
  unfold after Broker.top at *
  cases hd : b.log.drop n with
  | nil => have := List.drop_eq_nil_iff.mp hd; omega
  | cons c r => exact ⟨c, _, rfl⟩

/-! ### last-writer-wins replay -/

abbrev KV := String → Option Nat

def upd (m : KV) (c : Change) : KV := fun k => if k = c.key then c.val else m k

def applyAll (m : KV) : List Change → KV
  | [] => m
  | c :: r => applyAll (upd m c) r

def touched (k : String) (cs : List Change) : Prop := ∃ c ∈ cs, c.key = k

theorem applyAll_untouched (m : KV) (cs : List Change) (k : String) (h : ¬ touched k cs) :
    applyAll m cs k = m k := by
  induction cs generalizing m with
  | nil => rfl
  | cons c r ih =>
    have h1 : ¬ touched k r := fun ⟨x, hx, hk⟩ => h ⟨x, List.mem_cons_of_mem _ hx, hk⟩
    have h2 : k ≠ c.key := fun e => h ⟨c, List.mem_cons_self, e.symm⟩
    simp only [applyAll]
    rw [ih (upd m c) h1]
    simp [upd, h2]

/-- two maps that agree on every key the suffix does not touch are equal after replaying the suffix. -/
theorem applyAll_agree (m m0 : KV) (cs : List Change)
    (h : ∀ k, ¬ touched k cs → m k = m0 k) : applyAll m cs = applyAll m0 cs := by
  induction cs generalizing m m0 with
  | nil => funext k; exact h k (fun ⟨_, hx, _⟩ => by cases hx)
  | cons c r ih =>
    simp only [applyAll]
    apply ih
    intro k hk
    by_cases hc : k = c.key
    · simp [upd, hc]
    · simp only [upd, hc, if_false]
      apply h
      rintro ⟨x, hx, hxk⟩
      rcases List.mem_cons.mp hx with hx | hx
      · subst hx; exact hc hxk.symm
      · exact hk ⟨x, hx, hxk⟩

theorem applyAll_append (m : KV) (a b : List Change) : applyAll m (a ++ b) = applyAll (applyAll m a) b := by
  induction a generalizing m with
  | nil => rfl
  | cons c r ih => simp [applyAll, ih]

/-! ### entries with their offsets (what a state page shows) -/

abbrev KVO := String → Option (Nat × Nat)      -- value, offset of the last change

def updO (m : KVO) (c : Change) (off : Nat) : KVO :=
  fun k => if k = c.key then (c.val.map fun v => (v, off)) else m k

def semL (m : KVO) (base : Nat) : List Change → KVO
  | [] => m
  | c :: r => semL (updO m c (base + 1)) (base + 1) r

theorem semL_untouched (m : KVO) (base : Nat) (cs : List Change) (k : String) (h : ¬ touched k cs) :
    semL m base cs k = m k := by
  induction cs generalizing m base with
  | nil => rfl
  | cons c r ih =>
    have h1 : ¬ touched k r := fun ⟨x, hx, hk⟩ => h ⟨x, List.mem_cons_of_mem _ hx, hk⟩
    have h2 : k ≠ c.key := fun e => h ⟨c, List.mem_cons_self, e.symm⟩
    simp only [semL]
    rw [ih _ _ h1]
    simp [updO, h2]

/-- an entry whose offset is at most `base` was not written by the changes replayed from `base`. -/
theorem semL_old_entry (m : KVO) (base : Nat) (cs : List Change) (k : String) (v o : Nat)
    (h : semL m base cs k = some (v, o)) (ho : o ≤ base) : m k = some (v, o) ∧ ¬ touched k cs := by
  induction cs generalizing m base with
  | nil => exact ⟨h, fun ⟨_, hx, _⟩ => by cases hx⟩
  | cons c r ih =>
    simp only [semL] at h
    obtain ⟨h1, h2⟩ := ih (updO m c (base + 1)) (base + 1) h (by omega)
    by_cases hc : k = c.key
    · simp only [updO, hc, if_true] at h1
      cases hv : c.val with
      | none => simp [hv] at h1
      | some x => simp [hv] at h1; omega
    · simp only [updO, hc, if_false] at h1
      refine ⟨h1, ?_⟩
      rintro ⟨x, hx, hxk⟩
      rcases List.mem_cons.mp hx with hx | hx
      · subst hx; exact hc hxk.symm
      · exact h2 ⟨x, hx, hxk⟩

theorem semL_append (m : KVO) (base : Nat) (a b : List Change) :
    semL m base (a ++ b) = semL (semL m base a) (base + a.length) b := by
  induction a generalizing m base with
  | nil => rfl
  | cons c r ih =>
    simp only [List.cons_append, semL, List.length_cons]
    rw [ih]
    congr 1
    omega

/-- forgetting offsets commutes with replay -/
theorem semL_vals (m : KVO) (base : Nat) (cs : List Change) :
    (fun k => (semL m base cs k).map (·.1)) = applyAll (fun k => (m k).map (·.1)) cs := by
  induction cs generalizing m base with
  | nil => rfl
  | cons c r ih =>
    simp only [semL, applyAll]
    rw [ih]
    congr 1
    funext k
    by_cases hc : k = c.key
    · simp only [updO, upd, hc, if_true]
      cases c.val <;> rfl
    · simp [updO, upd, hc]

end CentrifugeVerif.MapSub
