import CentrifugeVerif.Proofs.SubProtoInv
import CentrifugeVerif.Model.SubProtoSpec
/-!
Invariants of executions in which the unsubscribe wait gate never times out (`ReachableNT`), layer 1:
entry shape, generation bounds, uniqueness of reservation generations.
-/
namespace CentrifugeVerif.SubProto

@[simp] theorem holdPc_sReserve : holdPc .sReserve = false := rfl
@[simp] theorem holdPc_sOnSub : holdPc .sOnSub = true := rfl
@[simp] theorem holdPc_sReadGen : holdPc .sReadGen = true := rfl
@[simp] theorem holdPc_sCheck1 : holdPc .sCheck1 = true := rfl
@[simp] theorem holdPc_sHubAdd : holdPc .sHubAdd = true := rfl
@[simp] theorem holdPc_sCheck2 : holdPc .sCheck2 = true := rfl
@[simp] theorem holdPc_sPresAdd : holdPc .sPresAdd = true := rfl
@[simp] theorem holdPc_sReply : holdPc .sReply = true := rfl
@[simp] theorem holdPc_sCommit : holdPc .sCommit = true := rfl
@[simp] theorem holdPc_sRbHub : holdPc .sRbHub = false := rfl
@[simp] theorem holdPc_sRbPres : holdPc .sRbPres = false := rfl
@[simp] theorem holdPc_sRbClose : holdPc .sRbClose = false := rfl
@[simp] theorem holdPc_sCloseGate : holdPc .sCloseGate = false := rfl
@[simp] theorem holdPc_sDpf : holdPc .sDpf = false := rfl
@[simp] theorem holdPc_sPush : holdPc .sPush = false := rfl
@[simp] theorem holdPc_sJoin : holdPc .sJoin = false := rfl
@[simp] theorem holdPc_sDeferPres : holdPc .sDeferPres = false := rfl
@[simp] theorem holdPc_sErrDel : holdPc .sErrDel = false := rfl
@[simp] theorem holdPc_sErrHub : holdPc .sErrHub = false := rfl
@[simp] theorem holdPc_sErrClose : holdPc .sErrClose = false := rfl
@[simp] theorem holdPc_sErrOut : holdPc .sErrOut = false := rfl
@[simp] theorem holdPc_uStatus : holdPc .uStatus = false := rfl
@[simp] theorem holdPc_uSnap : holdPc .uSnap = false := rfl
@[simp] theorem holdPc_uWait : holdPc .uWait = false := rfl
@[simp] theorem holdPc_uTmoLog : holdPc .uTmoLog = false := rfl
@[simp] theorem holdPc_uRemove : holdPc .uRemove = false := rfl
@[simp] theorem holdPc_uPresRm : holdPc .uPresRm = false := rfl
@[simp] theorem holdPc_uLeave : holdPc .uLeave = false := rfl
@[simp] theorem holdPc_uHubRm : holdPc .uHubRm = false := rfl
@[simp] theorem holdPc_uOnUnsub : holdPc .uOnUnsub = false := rfl
@[simp] theorem holdPc_uOut : holdPc .uOut = false := rfl
@[simp] theorem holdPc_cEnter : holdPc .cEnter = false := rfl
@[simp] theorem holdPc_cRemoveClient : holdPc .cRemoveClient = false := rfl
@[simp] theorem holdPc_cDpf : holdPc .cDpf = false := rfl
@[simp] theorem holdPc_cWriter : holdPc .cWriter = false := rfl
@[simp] theorem holdPc_cTClose : holdPc .cTClose = false := rfl
@[simp] theorem holdPc_cLoop : holdPc .cLoop = false := rfl
@[simp] theorem holdPc_cOnDisc : holdPc .cOnDisc = false := rfl
@[simp] theorem holdPc_cExit : holdPc .cExit = false := rfl
@[simp] theorem holdPc_done : holdPc .done = false := rfl
@[simp] theorem cmdPc_sReserve : cmdPc .sReserve = false := rfl
@[simp] theorem cmdPc_sOnSub : cmdPc .sOnSub = false := rfl
@[simp] theorem cmdPc_sReadGen : cmdPc .sReadGen = false := rfl
@[simp] theorem cmdPc_sCheck1 : cmdPc .sCheck1 = true := rfl
@[simp] theorem cmdPc_sHubAdd : cmdPc .sHubAdd = true := rfl
@[simp] theorem cmdPc_sCheck2 : cmdPc .sCheck2 = true := rfl
@[simp] theorem cmdPc_sPresAdd : cmdPc .sPresAdd = true := rfl
@[simp] theorem cmdPc_sReply : cmdPc .sReply = true := rfl
@[simp] theorem cmdPc_sCommit : cmdPc .sCommit = true := rfl
@[simp] theorem cmdPc_sRbHub : cmdPc .sRbHub = false := rfl
@[simp] theorem cmdPc_sRbPres : cmdPc .sRbPres = false := rfl
@[simp] theorem cmdPc_sRbClose : cmdPc .sRbClose = false := rfl
@[simp] theorem cmdPc_sCloseGate : cmdPc .sCloseGate = false := rfl
@[simp] theorem cmdPc_sDpf : cmdPc .sDpf = false := rfl
@[simp] theorem cmdPc_sPush : cmdPc .sPush = false := rfl
@[simp] theorem cmdPc_sJoin : cmdPc .sJoin = false := rfl
@[simp] theorem cmdPc_sDeferPres : cmdPc .sDeferPres = false := rfl
@[simp] theorem cmdPc_sErrDel : cmdPc .sErrDel = false := rfl
@[simp] theorem cmdPc_sErrHub : cmdPc .sErrHub = false := rfl
@[simp] theorem cmdPc_sErrClose : cmdPc .sErrClose = false := rfl
@[simp] theorem cmdPc_sErrOut : cmdPc .sErrOut = false := rfl
@[simp] theorem cmdPc_uStatus : cmdPc .uStatus = false := rfl
@[simp] theorem cmdPc_uSnap : cmdPc .uSnap = false := rfl
@[simp] theorem cmdPc_uWait : cmdPc .uWait = false := rfl
@[simp] theorem cmdPc_uTmoLog : cmdPc .uTmoLog = false := rfl
@[simp] theorem cmdPc_uRemove : cmdPc .uRemove = false := rfl
@[simp] theorem cmdPc_uPresRm : cmdPc .uPresRm = false := rfl
@[simp] theorem cmdPc_uLeave : cmdPc .uLeave = false := rfl
@[simp] theorem cmdPc_uHubRm : cmdPc .uHubRm = false := rfl
@[simp] theorem cmdPc_uOnUnsub : cmdPc .uOnUnsub = false := rfl
@[simp] theorem cmdPc_uOut : cmdPc .uOut = false := rfl
@[simp] theorem cmdPc_cEnter : cmdPc .cEnter = false := rfl
@[simp] theorem cmdPc_cRemoveClient : cmdPc .cRemoveClient = false := rfl
@[simp] theorem cmdPc_cDpf : cmdPc .cDpf = false := rfl
@[simp] theorem cmdPc_cWriter : cmdPc .cWriter = false := rfl
@[simp] theorem cmdPc_cTClose : cmdPc .cTClose = false := rfl
@[simp] theorem cmdPc_cLoop : cmdPc .cLoop = false := rfl
@[simp] theorem cmdPc_cOnDisc : cmdPc .cOnDisc = false := rfl
@[simp] theorem cmdPc_cExit : cmdPc .cExit = false := rfl
@[simp] theorem cmdPc_done : cmdPc .done = false := rfl
@[simp] theorem cleanupPc_sReserve : cleanupPc .sReserve = false := rfl
@[simp] theorem cleanupPc_sOnSub : cleanupPc .sOnSub = false := rfl
@[simp] theorem cleanupPc_sReadGen : cleanupPc .sReadGen = false := rfl
@[simp] theorem cleanupPc_sCheck1 : cleanupPc .sCheck1 = false := rfl
@[simp] theorem cleanupPc_sHubAdd : cleanupPc .sHubAdd = false := rfl
@[simp] theorem cleanupPc_sCheck2 : cleanupPc .sCheck2 = false := rfl
@[simp] theorem cleanupPc_sPresAdd : cleanupPc .sPresAdd = false := rfl
@[simp] theorem cleanupPc_sReply : cleanupPc .sReply = false := rfl
@[simp] theorem cleanupPc_sCommit : cleanupPc .sCommit = false := rfl
@[simp] theorem cleanupPc_sRbHub : cleanupPc .sRbHub = false := rfl
@[simp] theorem cleanupPc_sRbPres : cleanupPc .sRbPres = false := rfl
@[simp] theorem cleanupPc_sRbClose : cleanupPc .sRbClose = false := rfl
@[simp] theorem cleanupPc_sCloseGate : cleanupPc .sCloseGate = false := rfl
@[simp] theorem cleanupPc_sDpf : cleanupPc .sDpf = false := rfl
@[simp] theorem cleanupPc_sPush : cleanupPc .sPush = false := rfl
@[simp] theorem cleanupPc_sJoin : cleanupPc .sJoin = false := rfl
@[simp] theorem cleanupPc_sDeferPres : cleanupPc .sDeferPres = false := rfl
@[simp] theorem cleanupPc_sErrDel : cleanupPc .sErrDel = false := rfl
@[simp] theorem cleanupPc_sErrHub : cleanupPc .sErrHub = false := rfl
@[simp] theorem cleanupPc_sErrClose : cleanupPc .sErrClose = false := rfl
@[simp] theorem cleanupPc_sErrOut : cleanupPc .sErrOut = false := rfl
@[simp] theorem cleanupPc_uStatus : cleanupPc .uStatus = false := rfl
@[simp] theorem cleanupPc_uSnap : cleanupPc .uSnap = false := rfl
@[simp] theorem cleanupPc_uWait : cleanupPc .uWait = false := rfl
@[simp] theorem cleanupPc_uTmoLog : cleanupPc .uTmoLog = false := rfl
@[simp] theorem cleanupPc_uRemove : cleanupPc .uRemove = false := rfl
@[simp] theorem cleanupPc_uPresRm : cleanupPc .uPresRm = true := rfl
@[simp] theorem cleanupPc_uLeave : cleanupPc .uLeave = true := rfl
@[simp] theorem cleanupPc_uHubRm : cleanupPc .uHubRm = true := rfl
@[simp] theorem cleanupPc_uOnUnsub : cleanupPc .uOnUnsub = false := rfl
@[simp] theorem cleanupPc_uOut : cleanupPc .uOut = false := rfl
@[simp] theorem cleanupPc_cEnter : cleanupPc .cEnter = false := rfl
@[simp] theorem cleanupPc_cRemoveClient : cleanupPc .cRemoveClient = false := rfl
@[simp] theorem cleanupPc_cDpf : cleanupPc .cDpf = false := rfl
@[simp] theorem cleanupPc_cWriter : cleanupPc .cWriter = false := rfl
@[simp] theorem cleanupPc_cTClose : cleanupPc .cTClose = false := rfl
@[simp] theorem cleanupPc_cLoop : cleanupPc .cLoop = false := rfl
@[simp] theorem cleanupPc_cOnDisc : cleanupPc .cOnDisc = false := rfl
@[simp] theorem cleanupPc_cExit : cleanupPc .cExit = false := rfl
@[simp] theorem cleanupPc_done : cleanupPc .done = false := rfl
@[simp] theorem holdPc_unsubRetPc (k : Kind) : holdPc (unsubRetPc k) = false := by cases k <;> rfl
@[simp] theorem holdPc_afterRemove (c : Entry) : holdPc (afterRemove c) = false := by
  unfold afterRemove; split <;> (try split) <;> rfl
@[simp] theorem holdPc_afterCmdFail (t : Thread) : holdPc (afterCmdFail t) = false := by
  unfold afterCmdFail; split <;> rfl
@[simp] theorem holdPc_afterChecks (t : Thread) : holdPc (afterChecks t) = true := by
  unfold afterChecks; split <;> (try split) <;> rfl
@[simp] theorem holdPc_afterPres (t : Thread) : holdPc (afterPres t) = true := by
  unfold afterPres; split <;> rfl
@[simp] theorem cmdPc_afterChecks (t : Thread) : cmdPc (afterChecks t) = true := by
  unfold afterChecks; split <;> (try split) <;> rfl
@[simp] theorem cmdPc_afterPres (t : Thread) : cmdPc (afterPres t) = true := by
  unfold afterPres; split <;> rfl

@[simp] theorem holdPc_ite (c : Prop) [Decidable c] (a b : Pc) :
    holdPc (if c then a else b) = if c then holdPc a else holdPc b := apply_ite holdPc c a b
@[simp] theorem cmdPc_ite (c : Prop) [Decidable c] (a b : Pc) :
    cmdPc (if c then a else b) = if c then cmdPc a else cmdPc b := apply_ite cmdPc c a b
@[simp] theorem cleanupPc_ite (c : Prop) [Decidable c] (a b : Pc) :
    cleanupPc (if c then a else b) = if c then cleanupPc a else cleanupPc b := apply_ite cleanupPc c a b
@[simp] theorem cleanupPc_unsubRetPc (k : Kind) : cleanupPc (unsubRetPc k) = false := by cases k <;> rfl
@[simp] theorem cmdPc_unsubRetPc (k : Kind) : cmdPc (unsubRetPc k) = false := by cases k <;> rfl
@[simp] theorem cmdPc_afterCmdFail (t : Thread) : cmdPc (afterCmdFail t) = false := by
  unfold afterCmdFail; split <;> rfl
@[simp] theorem cleanupPc_afterCmdFail (t : Thread) : cleanupPc (afterCmdFail t) = false := by
  unfold afterCmdFail; split <;> rfl
@[simp] theorem cleanupPc_afterChecks (t : Thread) : cleanupPc (afterChecks t) = false := by
  unfold afterChecks; split <;> (try split) <;> rfl
@[simp] theorem cleanupPc_afterPres (t : Thread) : cleanupPc (afterPres t) = false := by
  unfold afterPres; split <;> rfl
@[simp] theorem cmdPc_afterRemove (c : Entry) : cmdPc (afterRemove c) = false := by
  unfold afterRemove; split <;> (try split) <;> rfl

/-- the state after thread `tid` took a step with effects `effs` and new record `t'` -/
abbrev after (s : State) (tid : Tid) (t' : Thread) (effs : List Eff) : State :=
  applyEffs { s with threads := setThread s.threads tid t' } effs

/-! ### executions without wait-gate timeouts -/

def Label.noTmo : Label → Bool
  | .step _ .tmo => false
  | _ => true

def ReachableNT (s : State) : Prop := ∃ ls, (∀ l ∈ ls, l.noTmo = true) ∧ run State.init ls = some s

theorem reachableNT_reachable (s : State) (h : ReachableNT s) : Reachable s := by
  obtain ⟨ls, _, h⟩ := h; exact ⟨ls, h⟩

theorem reachableNT_invariant (P : State → Prop) (h0 : P State.init)
    (hstep : ∀ s s' l, ReachableNT s → P s → l.noTmo = true → next s l = some s' → P s') (s : State)
    (hr : ReachableNT s) : P s := by
  obtain ⟨ls, hnt, hl⟩ := hr
  -- induct on the list from the right: generalise over the start state with its own reachability
  suffices H : ∀ (ls : List Label) (s0 : State), ReachableNT s0 → P s0 → (∀ l ∈ ls, l.noTmo = true) →
      ∀ s1, run s0 ls = some s1 → P s1 from
    H ls State.init ⟨[], by simp, rfl⟩ h0 hnt s hl
  intro ls
  induction ls with
  | nil => intro s0 _ hp _ s1 hr; simp only [run, Option.some.injEq] at hr; exact hr ▸ hp
  | cons l r ih =>
    intro s0 hr0 hp hnt s1 hr
    simp only [run] at hr
    split at hr
    · cases hr
    · rename_i s2 h2
      have hl : l.noTmo = true := hnt l (by simp)
      have hr2 : ReachableNT s2 := by
        obtain ⟨ls0, hn0, hl0⟩ := hr0
        refine ⟨ls0 ++ [l], ?_, ?_⟩
        · intro x hx
          simp only [List.mem_append, List.mem_singleton] at hx
          rcases hx with hx | hx
          · exact hn0 x hx
          · exact hx ▸ hl
        · have : ∀ (a : List Label) (s : State) (b : List Label), run s (a ++ b) = (run s a).bind (fun s' => run s' b) := by
            intro a
            induction a with
            | nil => intro s b; rfl
            | cons x xs ihx =>
              intro s b
              simp only [List.cons_append, run]
              cases next s x with
              | none => rfl
              | some s' => exact ihx s' b
          rw [this, hl0]
          simp [run, h2]
      exact ih s2 hr2 (hstep s0 s2 l hr0 hp hl h2) (fun x hx => hnt x (by simp [hx])) s1 hr

/-! ### more facts about effect lists -/

theorem genCounter_applyEffs_le (es : List Eff) (s : State) : s.genCounter ≤ (applyEffs s es).genCounter := by
  induction es generalizing s with
  | nil => exact Nat.le_refl _
  | cons e r ih =>
    refine Nat.le_trans ?_ (ih _)
    cases e <;> simp

theorem closedGates_applyEffs (es : List Eff) (s : State) (g : Gen) (h : g ∈ (applyEffs s es).closedGates) :
    g ∈ s.closedGates ∨ Eff.closeGate g ∈ es := by
  induction es generalizing s with
  | nil => exact Or.inl h
  | cons e r ih =>
    rcases ih _ h with h1 | h1
    · cases e <;> simp_all [applyEff_closeGate_closedGates]
      rename_i g'
      split at h1
      · exact Or.inl h1
      · simp only [List.mem_cons] at h1
        rcases h1 with h1 | h1
        · exact Or.inr (Or.inl h1)
        · exact Or.inl h1
    · exact Or.inr (List.mem_cons_of_mem _ h1)

/-- threads of the successor state, by lookup -/
theorem aget_threads_after (s : State) (tid : Tid) (t t' : Thread) (effs : List Eff) (x : Tid) (u : Thread)
    (hget : aget s.threads tid = some t) (h : aget (after s tid t' effs).threads x = some u) :
    (x ≠ tid ∧ aget s.threads x = some u) ∨ (x = tid ∧ u = t') ∨ u = autoClose := by
  have hm := aget_mem _ _ _ h
  rcases threads_applyEffs _ _ _ hm with h1 | h1
  · -- the pair is in `setThread …`; compare with the lookup there
    by_cases hx : x = tid
    · subst hx
      have hs : aget (setThread s.threads x t') x = some t' := by simp [aget_setThread, hget]
      have := aget_threads_applyEffs effs { s with threads := setThread s.threads x t' } x t' hs
      rw [h] at this
      exact Or.inr (Or.inl ⟨rfl, by cases this; rfl⟩)
    · cases hs : aget (setThread s.threads tid t') x with
      | some v =>
        have := aget_threads_applyEffs effs { s with threads := setThread s.threads tid t' } x v hs
        rw [h] at this; cases this
        rw [aget_setThread] at hs; simp only [hx, if_false] at hs
        exact Or.inl ⟨hx, hs⟩
      | none =>
        -- not found among the old threads although the pair is there: impossible
        have := (aget_none_iff _ _).mp hs
        exact absurd (List.mem_map_of_mem (f := (·.1)) h1) this
  · exact Or.inr (Or.inr h1)

theorem aget_threads_after_self (s : State) (tid : Tid) (t t' : Thread) (effs : List Eff)
    (hget : aget s.threads tid = some t) : aget (after s tid t' effs).threads tid = some t' := by
  apply aget_threads_applyEffs
  simp [aget_setThread, hget]

theorem aget_threads_after_other (s : State) (tid : Tid) (t' : Thread) (effs : List Eff) (x : Tid) (u : Thread)
    (hx : x ≠ tid) (h : aget s.threads x = some u) : aget (after s tid t' effs).threads x = some u := by
  apply aget_threads_applyEffs
  simp [aget_setThread, hx, h]

end CentrifugeVerif.SubProto
