import CentrifugeVerif.Proofs.SubProtoNT3
/-!
`L2` and its preservation by every step that is not a wait-gate timeout.
-/
namespace CentrifugeVerif.SubProto

structure L2 (s : State) : Prop where
  D : ∀ x t, aget s.threads x = some t → holdPc t.pc = true →
    ∃ e, aget s.channels t.ch = some e ∧ e.gen = t.resGen ∧ e.subscribed = false ∧
      (cmdPc t.pc = true → t.cmdGen = t.resGen)
  W : ∀ x t, aget s.threads x = some t → waitPc t.pc = true → t.capGate = some t.target
  F : ∀ x t, aget s.threads x = some t → removePc t.pc = true →
    ∀ e, aget s.channels t.ch = some e → e.gen = t.target → e.subscribed = true
  G : ∀ ch e, aget s.channels ch = some e → e.subscribed = false → e.gen ∉ s.closedGates
  K1 : ∀ x t, aget s.threads x = some t → closeGatePc t.pc = true →
    t.cmdGen = t.resGen ∧ (∀ g, t.capGate = some g → g = t.resGen) ∧
      (∀ e, aget s.channels t.ch = some e → e.gen = t.resGen → e.subscribed = true)
  K2 : ∀ x t, aget s.threads x = some t → rbPc t.pc = true →
    t.cmdGen = t.resGen ∧ (∀ g, t.capGate = some g → g = t.resGen) ∧
      (∀ e, aget s.channels t.ch = some e → e.gen ≠ t.resGen)
  K3 : ∀ x t, aget s.threads x = some t → errPc t.pc = true →
    (∀ g, t.capGate = some g → g = t.resGen) ∧ (∀ e, aget s.channels t.ch = some e → e.gen ≠ t.resGen)
  A : ∀ ch e, aget s.channels ch = some e → e.subscribed = false →
    ∃ x t, aget s.threads x = some t ∧ t.ch = ch ∧ t.resGen = e.gen ∧ holderPc t.pc = true

theorem L2.init : L2 State.init := by
  constructor <;> simp [State.init, aget]

theorem res_gen_gt (n : Nat) (h : (Entry.reservation (n + 1)).gen ≤ n) : False := by
  simp only [Entry.reservation] at h
  exact absurd h (Nat.not_succ_le_self n)

theorem holderPc_of_holdPc (pc : Pc) (h : holdPc pc = true) : holderPc pc = true := by
  cases pc <;> simp_all

theorem gate_gen_of_shape {s : State} (h1 : L1 s) (ch : Chan) (e : Entry) (he : aget s.channels ch = some e)
    (g : Gen) (hg : e.gate = some g) : g = e.gen := by
  rcases Bool.eq_false_or_eq_true e.subscribed with hsb | hsb
  · have := (h1.shape ch e he).1 hsb; rw [this] at hg; cases hg
  · have := ((h1.shape ch e he).2 hsb).1; rw [this] at hg; cases hg; rfl

/-- The entries a step writes are either fresh reservations, or subscribed. -/
theorem new_entry_cases (s : State) (hg : Ghost s) (tid : Tid) (t t' : Thread) (o : Outcome) (effs : List Eff)
    (hst : stepThread s tid t o = some (effs, t')) (hnt : o ≠ .tmo) (ch : Chan) (e : Entry)
    (hm : Eff.chanSet ch e ∈ effs) :
    ch = t.ch ∧ ((t.pc = .sReserve ∧ e = Entry.reservation (s.genCounter + 1) ∧ aget s.channels t.ch = none) ∨
      (t.pc = .sCommit ∧ e.subscribed = true ∧ e.gen = t.cmdGen ∧ ∃ e0, aget s.channels t.ch = some e0 ∧ e0.gen = t.cmdGen)) := by
  obtain ⟨rfl, hc⟩ := step_chanSet_nt s tid t t' o effs hst hnt ch e hm
  refine ⟨rfl, ?_⟩
  rcases hc with ⟨hp, he, _⟩ | ⟨_, e0, he0, hz⟩ | ⟨hp, _, hgen, hsub, _, he0⟩
  · exact Or.inl ⟨hp, he, step_reserve_none s tid t t' o effs hst _ e hm hp⟩
  · exact absurd hz (hg.entGen _ _ he0)
  · exact Or.inr ⟨hp, hsub, hgen, he0⟩

/-- A reservation held by another thread is untouched by the step. -/
theorem reservation_stable (s : State) (hg : Ghost s) (h1 : L1 s) (h2 : L2 s) (tid : Tid) (t t' : Thread) (o : Outcome)
    (effs : List Eff) (hget : aget s.threads tid = some t) (hst : stepThread s tid t o = some (effs, t'))
    (hnt : o ≠ .tmo) (x : Tid) (tx : Thread) (hx : aget s.threads x = some tx) (hne : x ≠ tid) (e : Entry)
    (he : aget s.channels tx.ch = some e) (hgen : e.gen = tx.resGen) (hsb : e.subscribed = false) :
    aget (after s tid t' effs).channels tx.ch = some e := by
  have hnz : tx.resGen ≠ 0 := by rw [← hgen]; exact hg.entGen _ _ he
  have hcommit : t.pc = .sCommit → ∀ e0, aget s.channels t.ch = some e0 → e0.gen = t.cmdGen → tx.ch = t.ch → False := by
    intro hp e0 he0 hg0 hch
    obtain ⟨e1, he1, hg1, _, hc1⟩ := h2.D tid t hget (by simp [hp])
    rw [hch] at he
    rw [he] at he0 he1; cases he0; cases he1
    exact hne (h1.uniq x tid tx t hx hget hnz (by rw [← hgen, hg1]))
  rw [← he]
  apply channels_applyEffs_frame
  · intro e2 hm
    obtain ⟨hch, hc⟩ := new_entry_cases s hg tid t t' o effs hst hnt _ e2 hm
    rcases hc with ⟨_, _, hnone⟩ | ⟨hp, _, _, e0, he0, hg0⟩
    · rw [hch, hnone] at he; cases he
    · exact hcommit hp e0 he0 hg0 hch
  · intro hm
    obtain ⟨hch, e0, he0, hc⟩ := step_chanDel s tid t t' o effs hst _ hm
    rcases hc with ⟨hp, hg0⟩ | ⟨hp, hg0⟩ | ⟨hp, hg0⟩
    · exact hcommit hp e0 he0 hg0 hch
    · rw [hch] at he; rw [he] at he0; cases he0
      exact hne (h1.uniq x tid tx t hx hget hnz (by rw [← hgen, hg0]))
    · rw [hch] at he; rw [he] at he0; cases he0
      have := h2.F tid t hget (by simp [hp]) e he hg0
      rw [hsb] at this; cases this

theorem next_L2 (s s' : State) (l : Label) (hg : Ghost s) (h1 : L1 s) (h2 : L2 s) (hl : l.noTmo = true)
    (hn : next s l = some s') : L2 s' := by
  cases l with
  | spawn k ch o =>
    simp only [next, Option.some.injEq] at hn
    subst hn
    have hnew : ∀ x u, aget (s.threads ++ [(s.nextTid, ({ kind := k, ch := ch, opts := o, pc := initPc k } : Thread))]) x = some u →
        aget s.threads x = some u ∨ u = { kind := k, ch := ch, opts := o, pc := initPc k } := by
      intro x u hx
      cases hs : aget s.threads x with
      | some v => rw [aget_append_some _ _ _ _ hs] at hx; cases hx; exact Or.inl rfl
      | none =>
        right
        have hm := aget_mem _ _ _ hx
        simp only [List.mem_append, List.mem_singleton] at hm
        rcases hm with hm | hm
        · exact absurd (List.mem_map_of_mem (f := (·.1)) hm) ((aget_none_iff _ _).mp hs)
        · cases hm; rfl
    refine ⟨?_, ?_, ?_, h2.G, ?_, ?_, ?_, ?_⟩
    · intro x u hx hp
      rcases hnew x u hx with h | h
      · exact h2.D x u h hp
      · subst h; cases k <;> simp [initPc] at hp
    · intro x u hx hp
      rcases hnew x u hx with h | h
      · exact h2.W x u h hp
      · subst h; cases k <;> simp [initPc] at hp
    · intro x u hx hp
      rcases hnew x u hx with h | h
      · exact h2.F x u h hp
      · subst h; cases k <;> simp [initPc] at hp
    · intro x u hx hp
      rcases hnew x u hx with h | h
      · exact h2.K1 x u h hp
      · subst h; cases k <;> simp [initPc] at hp
    · intro x u hx hp
      rcases hnew x u hx with h | h
      · exact h2.K2 x u h hp
      · subst h; cases k <;> simp [initPc] at hp
    · intro x u hx hp
      rcases hnew x u hx with h | h
      · exact h2.K3 x u h hp
      · subst h; cases k <;> simp [initPc] at hp
    · intro c e he hsb
      obtain ⟨x, u, hx, hr⟩ := h2.A c e he hsb
      exact ⟨x, u, aget_append_some _ _ _ _ hx, hr⟩
  | step tid o =>
    have hnt : o ≠ .tmo := by
      intro ho; subst ho; simp [Label.noTmo] at hl
    obtain ⟨t, effs, t', hget, hst, rfl⟩ := next_step_some hn
    have hDt := h2.D tid t hget
    have hshape_t : ∀ e, aget s.channels t.ch = some e → e.subscribed = false → e.gate = some e.gen :=
      fun e he hsb => ((h1.shape _ e he).2 hsb).1
    have hgate_t : ∀ e, aget s.channels t.ch = some e → ∀ g, e.gate = some g → g = e.gen :=
      fun e he g hgt => gate_gen_of_shape h1 _ e he g hgt
    have hle := genCounter_applyEffs_le effs { s with threads := setThread s.threads tid t' }
    -- an entry of the successor state is an old entry or freshly written
    have hent : ∀ c e, aget (after s tid t' effs).channels c = some e →
        aget s.channels c = some e ∨ (c = t.ch ∧
          ((t.pc = .sReserve ∧ e = Entry.reservation (s.genCounter + 1) ∧ aget s.channels t.ch = none) ∨
           (t.pc = .sCommit ∧ e.subscribed = true ∧ e.gen = t.cmdGen ∧ ∃ e0, aget s.channels t.ch = some e0 ∧ e0.gen = t.cmdGen))) := by
      intro c e he
      rcases channels_applyEffs _ _ _ _ he with h | h
      · exact Or.inl h
      · exact Or.inr (new_entry_cases s hg tid t t' o effs hst hnt c e h)
    refine ⟨?_, ?_, ?_, ?_, ?_, ?_, ?_, ?_⟩
    · -- D
      intro x u hx hp
      rcases aget_threads_after s tid t t' effs x u hget hx with ⟨hne, hxo⟩ | ⟨_, hue⟩ | hue
      · obtain ⟨e, he, hgen, hsb, hc⟩ := h2.D x u hxo hp
        exact ⟨e, reservation_stable s hg h1 h2 tid t t' o effs hget hst hnt x u hxo hne e he hgen hsb, hgen, hsb, hc⟩
      · rw [hue] at hp ⊢
        exact step_D_self s tid t t' o effs hst hnt hDt (fun e he => hg.entGen _ e he) hp
      · rw [hue] at hp; simp [autoClose] at hp
    · -- W
      intro x u hx hp
      rcases aget_threads_after s tid t t' effs x u hget hx with ⟨_, hxo⟩ | ⟨_, hue⟩ | hue
      · exact h2.W x u hxo hp
      · rw [hue] at hp ⊢
        exact (step_FW_self s tid t t' o effs hst hnt
          (fun e he hsb => (h1.shape _ e he).2 hsb) (fun e he hsb => h2.G _ e he hsb)
          (h2.W tid t hget) (h2.F tid t hget)).1 hp
      · rw [hue] at hp; simp [autoClose] at hp
    · -- F
      intro x u hx hp e he hgen
      rcases aget_threads_after s tid t t' effs x u hget hx with ⟨_, hxo⟩ | ⟨_, hue⟩ | hue
      · rcases hent _ e he with h | ⟨_, h⟩
        · exact h2.F x u hxo hp e h hgen
        · rcases h with ⟨_, hre, _⟩ | ⟨_, hsub, _⟩
          · have hb := (h1.thrBound x u hxo).2.2.1
            rw [← hgen, hre] at hb
            exact absurd hb (fun h => res_gen_gt _ h)
          · exact hsub
      · rw [hue] at hp he hgen
        exact (step_FW_self s tid t t' o effs hst hnt
          (fun e he hsb => (h1.shape _ e he).2 hsb) (fun e he hsb => h2.G _ e he hsb)
          (h2.W tid t hget) (h2.F tid t hget)).2 hp e he hgen
      · rw [hue] at hp; simp [autoClose] at hp
    · -- G
      intro c e he hsb hcl
      -- where the entry comes from
      have hold_or_new := hent c e he
      -- where the closed gate comes from
      rcases closedGates_applyEffs _ _ _ hcl with hc | hc
      · rcases hold_or_new with h | ⟨_, h⟩
        · exact h2.G c e h hsb hc
        · rcases h with ⟨_, hre, _⟩ | ⟨_, hsub, _⟩
          · have := h1.gateBound _ hc
            rw [hre] at this; exact res_gen_gt _ this
          · rw [hsub] at hsb; cases hsb
      · -- the gate is closed by this very step
        have hbound : e.gen ≤ s.genCounter := by
          rcases step_closeGate_nt s tid t t' o effs hst hnt _ hc with ⟨hcap, _⟩ | ⟨_, e0, he0, _, hg0⟩
          · exact (h1.thrBound tid t hget).2.2.2 _ hcap
          · have := gate_gen_of_shape h1 _ e0 he0 _ hg0
            rw [this]; exact h1.entBound _ e0 he0
        rcases hold_or_new with h | ⟨_, h⟩
        · -- an old reservation whose gate is closed now: its owner is the stepping thread
          obtain ⟨w, tw, hw, hwch, hwres, _⟩ := h2.A c e h hsb
          have hnz : tw.resGen ≠ 0 := by rw [hwres]; exact hg.entGen _ _ h
          rcases step_closeGate_nt s tid t t' o effs hst hnt _ hc with ⟨hcap, hpc⟩ | ⟨hp, e0, he0, hg0, hgt0⟩
          · rcases hpc with hpc | hpc | hpc
            · obtain ⟨_, kc, ke⟩ := h2.K1 tid t hget hpc
              have hres := kc _ hcap
              have hwt : w = tid := h1.uniq w tid tw t hw hget hnz (by rw [hwres, hres])
              subst hwt; rw [hget] at hw; cases hw
              rw [← hwch] at h
              have := ke e h hres
              rw [hsb] at this; cases this
            · obtain ⟨_, kc, ke⟩ := h2.K2 tid t hget (by simp [hpc])
              have hres := kc _ hcap
              have hwt : w = tid := h1.uniq w tid tw t hw hget hnz (by rw [hwres, hres])
              subst hwt; rw [hget] at hw; cases hw
              rw [← hwch] at h
              exact ke e h hres
            · obtain ⟨kc, ke⟩ := h2.K3 tid t hget (by simp [hpc])
              have hres := kc _ hcap
              have hwt : w = tid := h1.uniq w tid tw t hw hget hnz (by rw [hwres, hres])
              subst hwt; rw [hget] at hw; cases hw
              rw [← hwch] at h
              exact ke e h hres
          · -- closed by an unsubscribe deleting an entry: that entry is subscribed, it has no gate
            have hs0 := h2.F tid t hget (by simp [hp]) e0 he0 hg0
            have := (h1.shape _ e0 he0).1 hs0
            rw [this] at hgt0; cases hgt0
        · rcases h with ⟨_, hre, _⟩ | ⟨_, hsub, _⟩
          · rw [hre] at hbound; exact res_gen_gt _ hbound
          · rw [hsub] at hsb; cases hsb
    · -- K1
      intro x u hx hp
      rcases aget_threads_after s tid t t' effs x u hget hx with ⟨_, hxo⟩ | ⟨_, hue⟩ | hue
      · obtain ⟨k0, kc, ke⟩ := h2.K1 x u hxo hp
        refine ⟨k0, kc, ?_⟩
        intro e he hgen
        rcases hent _ e he with h | ⟨_, h⟩
        · exact ke e h hgen
        · rcases h with ⟨_, hre, _⟩ | ⟨_, hsub, _⟩
          · have hb := (h1.thrBound x u hxo).1
            rw [← hgen, hre] at hb
            exact absurd hb (fun h => res_gen_gt _ h)
          · exact hsub
      · rw [hue] at hp ⊢
        exact step_K1_self s tid t t' o effs hst hnt hshape_t hDt hp
      · rw [hue] at hp; simp [autoClose] at hp
    · -- K2
      intro x u hx hp
      rcases aget_threads_after s tid t t' effs x u hget hx with ⟨_, hxo⟩ | ⟨_, hue⟩ | hue
      · obtain ⟨k0, kc, ke⟩ := h2.K2 x u hxo hp
        refine ⟨k0, kc, ?_⟩
        intro e he hgen
        rcases hent _ e he with h | ⟨hch, h⟩
        · exact ke e h hgen
        · rcases h with ⟨_, hre, _⟩ | ⟨_, _, hgc, e0, he0, hg0⟩
          · have hb := (h1.thrBound x u hxo).1
            rw [← hgen, hre] at hb
            exact absurd hb (fun h => res_gen_gt _ h)
          · rw [hch] at ke
            exact ke e0 he0 (by rw [hg0, ← hgc, hgen])
      · rw [hue] at hp ⊢
        exact step_K2_self s tid t t' o effs hst hnt hshape_t hDt (h2.K2 tid t hget) hp
      · rw [hue] at hp; simp [autoClose] at hp
    · -- K3
      intro x u hx hp
      rcases aget_threads_after s tid t t' effs x u hget hx with ⟨_, hxo⟩ | ⟨_, hue⟩ | hue
      · obtain ⟨kc, ke⟩ := h2.K3 x u hxo hp
        refine ⟨kc, ?_⟩
        intro e he hgen
        rcases hent _ e he with h | ⟨hch, h⟩
        · exact ke e h hgen
        · rcases h with ⟨_, hre, _⟩ | ⟨_, _, hgc, e0, he0, hg0⟩
          · have hb := (h1.thrBound x u hxo).1
            rw [← hgen, hre] at hb
            exact absurd hb (fun h => res_gen_gt _ h)
          · rw [hch] at ke
            exact ke e0 he0 (by rw [hg0, ← hgc, hgen])
      · rw [hue] at hp ⊢
        exact step_K3_self s tid t t' o effs hst hnt hgate_t (h2.K3 tid t hget) hp
      · rw [hue] at hp; simp [autoClose] at hp
    · -- A
      intro c e he hsb
      rcases channels_applyEffs _ _ _ _ he with h | h
      · obtain ⟨w, tw, hw, hwch, hwres, hwpc⟩ := h2.A c e h hsb
        by_cases hwt : w = tid
        · subst hwt
          rw [hget] at hw; cases hw
          subst hwch
          have hc : cmdPc t.pc = true → t.cmdGen = t.resGen := by
            intro hcp
            have hh : holdPc t.pc = true := by
              cases hpc : t.pc <;> simp_all
            obtain ⟨_, _, _, _, hcc⟩ := hDt hh
            exact hcc hcp
          obtain ⟨r1, r2, r3⟩ := step_A_self s w t t' o effs hst hnt hc e hwpc h hwres.symm hsb he
          exact ⟨w, t', aget_threads_after_self s w t t' effs hget, r1, by rw [r2, hwres], r3⟩
        · exact ⟨w, tw, aget_threads_after_other s tid t' effs w tw hwt hw, hwch, hwres, hwpc⟩
      · obtain ⟨hch, hc⟩ := new_entry_cases s hg tid t t' o effs hst hnt c e h
        rcases hc with ⟨hp, _, _⟩ | ⟨_, hsub, _⟩
        · obtain ⟨r1, r2, r3⟩ := step_A_new s tid t t' o effs hst hp c e h
          exact ⟨tid, t', aget_threads_after_self s tid t t' effs hget, by rw [r1, hch], r2, r3⟩
        · rw [hsub] at hsb; cases hsb

end CentrifugeVerif.SubProto
