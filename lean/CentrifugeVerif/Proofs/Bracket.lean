import CentrifugeVerif.Model.Bracket
/-!
Invariant proof for C10 (`Model/Bracket.lean`) in the configuration where the property holds:
offset-0 publications checked (the proposed fix), client-side subscription, replies through the
queue, no per-channel batching, subscribe attempts and unsubscribe calls not overlapping.
-/
namespace CentrifugeVerif.Bracket

/-! ### the scanning automaton -/

theorem scanFrom_append (o : Bool) (a b : List Frame) :
    scanFrom o (a ++ b) = (scanFrom o a).bind (fun o' => scanFrom o' b) := by
  induction a generalizing o with
  | nil => simp [scanFrom]
  | cons f fs ih =>
    simp only [List.cons_append, scanFrom]
    cases stepF o f with
    | none => simp
    | some o1 => simp [ih]

theorem scanFrom_snoc {l : List Frame} {o : Bool} (f : Frame) (h : scanFrom false l = some o) :
    scanFrom false (l ++ [f]) = stepF o f := by
  rw [scanFrom_append, h]
  simp only [Option.bind_some, scanFrom]
  cases stepF o f <;> simp

theorem scanFrom_prefix {o : Bool} {a b : List Frame} (h : (scanFrom o (a ++ b)).isSome) :
    (scanFrom o a).isSome := by
  rw [scanFrom_append] at h
  cases hs : scanFrom o a with
  | none => simp [hs] at h
  | some x => simp

/-- the configurations for which `bracket` is proved -/
structure Good (cfg : Cfg) : Prop where
  fix : cfg.offset0Checked = true
  cs : cfg.serverSide = false
  q : cfg.rwq = false
  nb : cfg.batching = false
  ser : cfg.serial = true

/-- enqueue order of everything that was emitted -/
def emitted (s : State) : List Frame := s.wire ++ s.inflight ++ s.queue

/-- situations in which the bracket must currently be open -/
def NeedsOpen (s : State) : Prop :=
  (∃ g, s.chan = some (g, true)) ∨ s.checked ≠ [] ∨
  (∃ t, s.S = some t ∧ (t.pc = .replied ∨ t.pc = .committed ∨ t.pc = .stopped)) ∨
  (∃ u, s.U = some u ∧ (u.pc = .snap ∨ u.pc = .removed))

structure Inv (s : State) : Prop where
  ok : ∃ o, scanFrom false (emitted s) = some o ∧ (NeedsOpen s → o = true)
  batchNil : s.batch = []
  hubOfList : (s.looked ≠ [] ∨ s.checked ≠ []) → s.hub ≠ none
  chanHub : ∀ g, s.chan = some (g, true) → s.hub = some g
  idle : s.S = none → s.U = none → s.chan = none → s.hub = none
  sU : ∀ t, s.S = some t → s.U = none
  sPre : ∀ t, s.S = some t → (t.pc = .reserved ∨ t.pc = .started) →
    s.chan = some (t.gen, false) ∧ s.hub = none
  sMid : ∀ t, s.S = some t →
    (t.pc = .hubAdded ∨ t.pc = .subUnlocked ∨ t.pc = .presAdded ∨ t.pc = .bufLocked ∨ t.pc = .replied) →
    s.chan = some (t.gen, false) ∧ s.hub = some t.gen
  sPost : ∀ t, s.S = some t → (t.pc = .committed ∨ t.pc = .stopped) →
    s.chan = some (t.gen, true) ∧ s.hub = some t.gen
  sNoPushed : ∀ t, s.S = some t → t.pc ≠ .pushed
  uSnap : ∀ u, s.U = some u → u.pc = .snap → s.chan = some (u.gen, true) ∧ s.hub = some u.gen
  uRem : ∀ u, s.U = some u → u.pc = .removed → s.chan = none ∧ s.hub = some u.gen
  uHub : ∀ u, s.U = some u → u.pc = .hubRemoved →
    s.chan = none ∧ s.hub = none ∧ s.looked = [] ∧ s.checked = []

theorem inv_init : Inv State.init := by
  refine ⟨⟨false, by decide, ?_⟩, rfl, ?_, ?_, ?_, ?_, ?_, ?_, ?_, ?_, ?_, ?_, ?_⟩ <;>
    simp [State.init, NeedsOpen]




theorem needsOpen_congr {s s' : State} (h1 : s'.chan = s.chan) (h2 : s'.checked = s.checked)
    (h3 : s'.S = s.S) (h4 : s'.U = s.U) : NeedsOpen s' ↔ NeedsOpen s := by
  simp [NeedsOpen, h1, h2, h3, h4]

theorem inv_wGrab {cfg : Cfg} {s s' : State} (hi : Inv s) (h : next cfg s .wGrab = some s') : Inv s' := by
  simp only [next] at h
  split at h
  · rename_i hc
    simp only [Bool.and_eq_true, List.isEmpty_iff] at hc
    cases h
    obtain ⟨⟨o, ho, hopen⟩, hb, hl, hch, hidle, hsU, hsPre, hsMid, hsPost, hsNP, huSnap, huRem, huHub⟩ := hi
    refine ⟨⟨o, ?_, ?_⟩, hb, hl, hch, hidle, hsU, hsPre, hsMid, hsPost, hsNP, huSnap, huRem, huHub⟩
    · simpa [emitted, hc.1] using ho
    · exact fun h => hopen ((needsOpen_congr rfl rfl rfl rfl).mp h)
  · cases h

theorem inv_wWrite {cfg : Cfg} {s s' : State} (hi : Inv s) (h : next cfg s .wWrite = some s') : Inv s' := by
  simp only [next] at h
  split at h
  · cases h
    obtain ⟨⟨o, ho, hopen⟩, hb, hl, hch, hidle, hsU, hsPre, hsMid, hsPost, hsNP, huSnap, huRem, huHub⟩ := hi
    refine ⟨⟨o, ?_, ?_⟩, hb, hl, hch, hidle, hsU, hsPre, hsMid, hsPost, hsNP, huSnap, huRem, huHub⟩
    · simpa [emitted] using ho
    · exact fun h => hopen ((needsOpen_congr rfl rfl rfl rfl).mp h)
  · cases h

theorem inv_tFlush {cfg : Cfg} {s s' : State} (hi : Inv s) (h : next cfg s .tFlush = some s') : Inv s' := by
  simp only [next] at h
  split at h
  · rename_i hc
    simp [hi.batchNil] at hc
  · cases h



theorem bStart_cases {cfg : Cfg} {s s' : State} {k : Kind} {id : Nat} (hg : Good cfg)
    (h : next cfg s (.bStart k id) = some s') :
    s' = s ∨ (s.hub ≠ none ∧ s' = { s with looked := s.looked ++ [(k, id)] }) := by
  simp only [next] at h
  split at h
  · cases h
  · split at h
    · cases h; exact Or.inl rfl
    · rename_i g hh
      have hne : s.hub ≠ none := by simp [hh]
      cases k <;> simp only [hg.fix, if_true] at h
      · cases h; exact Or.inr ⟨hne, rfl⟩
      · split at h
        · split at h
          · cases h; exact Or.inl rfl
          · cases h
          · cases h; exact Or.inr ⟨hne, rfl⟩
        · cases h; exact Or.inr ⟨hne, rfl⟩
      · cases h; exact Or.inr ⟨hne, rfl⟩
      · cases h; exact Or.inr ⟨hne, rfl⟩

theorem inv_bStart {cfg : Cfg} {s s' : State} {k : Kind} {id : Nat} (hg : Good cfg) (hi : Inv s)
    (h : next cfg s (.bStart k id) = some s') : Inv s' := by
  rcases bStart_cases hg h with rfl | ⟨hne, rfl⟩
  · exact hi
  · obtain ⟨⟨o, ho, hopen⟩, hb, hl, hch, hidle, hsU, hsPre, hsMid, hsPost, hsNP, huSnap, huRem, huHub⟩ := hi
    refine ⟨⟨o, by simpa [emitted] using ho, fun h => hopen ((needsOpen_congr rfl rfl rfl rfl).mp h)⟩,
      hb, fun _ => hne, hch, hidle, hsU, hsPre, hsMid, hsPost, hsNP, huSnap, huRem, ?_⟩
    intro u hu hpc
    exact absurd (huHub u hu hpc).2.1 hne



theorem looked_ne_of_get {l : List (Kind × Nat)} {i : Nat} {k : Kind × Nat} (h : l[i]? = some k) : l ≠ [] := by
  intro hl; subst hl; simp at h

theorem inv_bCheck {cfg : Cfg} {s s' : State} {i : Nat} (hi : Inv s)
    (h : next cfg s (.bCheck i) = some s') : Inv s' := by
  simp only [next] at h
  split at h
  · cases h
  · rename_i k hk
    have hne := looked_ne_of_get hk
    obtain ⟨⟨o, ho, hopen⟩, hb, hl, hch, hidle, hsU, hsPre, hsMid, hsPost, hsNP, huSnap, huRem, huHub⟩ := hi
    have hhub : s.hub ≠ none := hl (Or.inl hne)
    have huHub' : ∀ u, s.U = some u → u.pc = .hubRemoved → False :=
      fun u hu hpc => hne (huHub u hu hpc).2.2.1
    split at h
    · rename_i g hc
      cases h
      have hopen' : o = true := hopen (Or.inl ⟨g, hc⟩)
      refine ⟨⟨o, by simpa [emitted] using ho, fun _ => hopen'⟩,
        hb, fun _ => hhub, hch, hidle, hsU, hsPre, hsMid, hsPost, hsNP, huSnap, huRem, ?_⟩
      intro u hu hpc; exact absurd hpc (fun hpc => huHub' u hu hpc)
    · cases h
      refine ⟨⟨o, by simpa [emitted] using ho, fun h => hopen ((needsOpen_congr rfl rfl rfl rfl).mp h)⟩,
        hb, fun _ => hhub, hch, hidle, hsU, hsPre, hsMid, hsPost, hsNP, huSnap, huRem, ?_⟩
      intro u hu hpc; exact absurd hpc (fun hpc => huHub' u hu hpc)

theorem inv_bEnqueue {cfg : Cfg} {s s' : State} {i : Nat} (hg : Good cfg) (hi : Inv s)
    (h : next cfg s (.bEnqueue i) = some s') : Inv s' := by
  simp only [next] at h
  split at h
  · cases h
  · rename_i k hk
    have hne := looked_ne_of_get hk
    obtain ⟨⟨o, ho, hopen⟩, hb, hl, hch, hidle, hsU, hsPre, hsMid, hsPost, hsNP, huSnap, huRem, huHub⟩ := hi
    have hhub : s.hub ≠ none := hl (Or.inr hne)
    have huHub' : ∀ u, s.U = some u → u.pc = .hubRemoved → False :=
      fun u hu hpc => hne (huHub u hu hpc).2.2.2
    have hopen' : o = true := hopen (Or.inr (Or.inl hne))
    simp only [emitChanPush, hg.nb, Bool.false_eq_true, if_false, Option.some.injEq] at h
    cases h
    refine ⟨⟨true, ?_, fun _ => rfl⟩,
        hb, fun _ => hhub, hch, hidle, hsU, hsPre, hsMid, hsPost, hsNP, huSnap, huRem, ?_⟩
    · have : emitted { s with checked := s.checked.eraseIdx i, queue := s.queue ++ [Frame.push k.1 k.2] }
          = emitted s ++ [Frame.push k.1 k.2] := by simp [emitted]
      simp only [this]
      rw [scanFrom_snoc _ ho, hopen']; rfl
    · intro u hu hpc; exact absurd hpc (fun hpc => huHub' u hu hpc)



theorem list_nil_of_hub_none {s : State} (hi : Inv s) (h : s.hub = none) : s.looked = [] ∧ s.checked = [] := by
  have := hi.hubOfList
  constructor
  · by_cases hl : s.looked = []
    · exact hl
    · exact absurd h (this (Or.inl hl))
  · by_cases hl : s.checked = []
    · exact hl
    · exact absurd h (this (Or.inr hl))

theorem inv_sSpawn {cfg : Cfg} {s s' : State} (hg : Good cfg) (hi : Inv s)
    (h : next cfg s .sSpawn = some s') : Inv s' := by
  simp only [next, hg.ser] at h
  split at h
  · rename_i hc
    simp only [Bool.not_true, Bool.false_or, Bool.and_eq_true, Option.isNone_iff_eq_none] at hc
    obtain ⟨⟨hS, hC⟩, hU⟩ := hc
    cases h
    have hhub := hi.idle hS hU hC
    have hnil := list_nil_of_hub_none hi hhub
    obtain ⟨⟨o, ho, hopen⟩, hb, hl, hch, hidle, hsU, hsPre, hsMid, hsPost, hsNP, huSnap, huRem, huHub⟩ := hi
    refine ⟨⟨o, by simpa [emitted] using ho, ?_⟩, hb, hl, ?_, ?_, ?_, ?_, ?_, ?_, ?_, ?_, ?_, ?_⟩
    · intro hn
      simp [NeedsOpen, hnil.2, hU] at hn
    all_goals simp_all
  · cases h



theorem inv_sStep {cfg : Cfg} {s s' : State} (hg : Good cfg) (hi : Inv s)
    (h : next cfg s .sStep = some s') : Inv s' := by
  simp only [next] at h
  split at h
  · rename_i t hS
    obtain ⟨pc, gen⟩ := t
    have hU := hi.sU _ hS
    cases pc <;> simp only [sStep, hg.cs, hg.q, emitReply, emitQueue, Bool.false_eq_true, if_false] at h
    · -- reserved
      cases h
      have := hi.sPre _ hS (Or.inl rfl)
      obtain ⟨⟨o, ho, hopen⟩, hb, hl, hch, hidle, hsU, hsPre, hsMid, hsPost, hsNP, huSnap, huRem, huHub⟩ := hi
      refine ⟨⟨o, by simpa [emitted] using ho, ?_⟩, hb, hl, hch, ?_, ?_, ?_, ?_, ?_, ?_, ?_, ?_, ?_⟩
      · intro hn; apply hopen; simp_all [NeedsOpen]
      all_goals simp_all
    · -- started
      split at h
      · cases h
        have := hi.sPre _ hS (Or.inr rfl)
        obtain ⟨⟨o, ho, hopen⟩, hb, hl, hch, hidle, hsU, hsPre, hsMid, hsPost, hsNP, huSnap, huRem, huHub⟩ := hi
        refine ⟨⟨o, by simpa [emitted] using ho, ?_⟩, hb, ?_, ?_, ?_, ?_, ?_, ?_, ?_, ?_, ?_, ?_, ?_⟩
        · intro hn; apply hopen; simp_all [NeedsOpen]
        all_goals simp_all
      · cases h
    · -- hubAdded
      cases h
      have := hi.sMid _ hS (Or.inl rfl)
      obtain ⟨⟨o, ho, hopen⟩, hb, hl, hch, hidle, hsU, hsPre, hsMid, hsPost, hsNP, huSnap, huRem, huHub⟩ := hi
      refine ⟨⟨o, by simpa [emitted] using ho, ?_⟩, hb, hl, hch, ?_, ?_, ?_, ?_, ?_, ?_, ?_, ?_, ?_⟩
      · intro hn; apply hopen; simp_all [NeedsOpen]
      all_goals simp_all
    · -- subUnlocked
      cases h
      have := hi.sMid _ hS (Or.inr (Or.inl rfl))
      obtain ⟨⟨o, ho, hopen⟩, hb, hl, hch, hidle, hsU, hsPre, hsMid, hsPost, hsNP, huSnap, huRem, huHub⟩ := hi
      refine ⟨⟨o, by simpa [emitted] using ho, ?_⟩, hb, hl, hch, ?_, ?_, ?_, ?_, ?_, ?_, ?_, ?_, ?_⟩
      · intro hn; apply hopen; simp_all [NeedsOpen]
      all_goals simp_all
    · -- presAdded
      cases h
      have := hi.sMid _ hS (Or.inr (Or.inr (Or.inl rfl)))
      obtain ⟨⟨o, ho, hopen⟩, hb, hl, hch, hidle, hsU, hsPre, hsMid, hsPost, hsNP, huSnap, huRem, huHub⟩ := hi
      refine ⟨⟨o, by simpa [emitted] using ho, ?_⟩, hb, hl, hch, ?_, ?_, ?_, ?_, ?_, ?_, ?_, ?_, ?_⟩
      · intro hn; apply hopen; simp_all [NeedsOpen]
      all_goals simp_all
    · -- bufLocked: the subscribe reply is enqueued
      cases h
      have := hi.sMid _ hS (Or.inr (Or.inr (Or.inr (Or.inl rfl))))
      obtain ⟨⟨o, ho, hopen⟩, hb, hl, hch, hidle, hsU, hsPre, hsMid, hsPost, hsNP, huSnap, huRem, huHub⟩ := hi
      refine ⟨⟨true, ?_, fun _ => rfl⟩, hb, hl, hch, ?_, ?_, ?_, ?_, ?_, ?_, ?_, ?_, ?_⟩
      · have : emitted { s with queue := s.queue ++ [Frame.subStart], S := some { pc := .replied, gen := gen } }
            = emitted s ++ [Frame.subStart] := by simp [emitted]
        simp only [this]
        rw [scanFrom_snoc _ ho]; rfl
      all_goals simp_all
    · -- replied: commit
      have hm := hi.sMid _ hS (Or.inr (Or.inr (Or.inr (Or.inr rfl))))
      simp only [hm.1, if_true] at h
      cases h
      obtain ⟨⟨o, ho, hopen⟩, hb, hl, hch, hidle, hsU, hsPre, hsMid, hsPost, hsNP, huSnap, huRem, huHub⟩ := hi
      have hopen' : o = true := hopen (Or.inr (Or.inr (Or.inl ⟨_, hS, Or.inl rfl⟩)))
      refine ⟨⟨o, by simpa [emitted] using ho, fun _ => hopen'⟩, hb, hl, ?_, ?_, ?_, ?_, ?_, ?_, ?_, ?_, ?_, ?_⟩
      all_goals simp_all
    · -- committed: StopBuffering
      cases h
      have := hi.sPost _ hS (Or.inl rfl)
      obtain ⟨⟨o, ho, hopen⟩, hb, hl, hch, hidle, hsU, hsPre, hsMid, hsPost, hsNP, huSnap, huRem, huHub⟩ := hi
      have hopen' : o = true := hopen (Or.inr (Or.inr (Or.inl ⟨_, hS, Or.inr (Or.inl rfl)⟩)))
      refine ⟨⟨o, by simpa [emitted] using ho, fun _ => hopen'⟩, hb, hl, hch, ?_, ?_, ?_, ?_, ?_, ?_, ?_, ?_, ?_⟩
      all_goals simp_all
    · -- pushed: impossible client-side
      exact absurd rfl (hi.sNoPushed _ hS)
    · -- stopped: close(subscribingCh)
      cases h
      have := hi.sPost _ hS (Or.inr rfl)
      obtain ⟨⟨o, ho, hopen⟩, hb, hl, hch, hidle, hsU, hsPre, hsMid, hsPost, hsNP, huSnap, huRem, huHub⟩ := hi
      have hopen' : o = true := hopen (Or.inr (Or.inr (Or.inl ⟨_, hS, Or.inr (Or.inr rfl)⟩)))
      refine ⟨⟨o, by simpa [emitted] using ho, fun _ => hopen'⟩, hb, hl, hch, ?_, ?_, ?_, ?_, ?_, ?_, ?_, ?_, ?_⟩
      all_goals simp_all
  · cases h



theorem inv_uSpawn {cfg : Cfg} {s s' : State} {v : Bool} (hg : Good cfg) (hi : Inv s)
    (h : next cfg s (.uSpawn v) = some s') : Inv s' := by
  simp only [next, hg.ser] at h
  split at h
  · rename_i hc
    simp only [Bool.not_true, Bool.false_or, Bool.and_eq_true, Option.isNone_iff_eq_none] at hc
    obtain ⟨hU, hS⟩ := hc
    split at h
    · rename_i g hC
      cases h
      have hh := hi.chanHub g hC
      obtain ⟨⟨o, ho, hopen⟩, hb, hl, hch, hidle, hsU, hsPre, hsMid, hsPost, hsNP, huSnap, huRem, huHub⟩ := hi
      have hopen' : o = true := hopen (Or.inl ⟨g, hC⟩)
      refine ⟨⟨o, by simpa [emitted] using ho, fun _ => hopen'⟩, hb, hl, hch, ?_, ?_, ?_, ?_, ?_, ?_, ?_, ?_, ?_⟩
      all_goals simp_all
    · cases h
    · rename_i hC
      cases h
      have hhub := hi.idle hS hU hC
      have hnil := list_nil_of_hub_none hi hhub
      obtain ⟨⟨o, ho, hopen⟩, hb, hl, hch, hidle, hsU, hsPre, hsMid, hsPost, hsNP, huSnap, huRem, huHub⟩ := hi
      refine ⟨⟨o, by simpa [emitted] using ho, ?_⟩, hb, hl, hch, ?_, ?_, ?_, ?_, ?_, ?_, ?_, ?_, ?_⟩
      · intro hn; simp [NeedsOpen, hnil.2, hS, hC] at hn
      all_goals simp_all
  · cases h

theorem inv_uStep {cfg : Cfg} {s s' : State} (hg : Good cfg) (hi : Inv s)
    (h : next cfg s .uStep = some s') : Inv s' := by
  simp only [next] at h
  split at h
  · rename_i u hU
    obtain ⟨pc, gen, viaPush, owns⟩ := u
    have hS : s.S = none := by
      cases hs : s.S with
      | none => rfl
      | some t => have := hi.sU t hs; simp [hU] at this
    cases pc <;> simp only [uStep, hg.q, hg.nb, emitReply, emitQueue, Bool.false_eq_true, if_false] at h
    · -- snap: delete from c.channels
      have hm := hi.uSnap _ hU rfl
      simp only [hm.1, if_true] at h
      cases h
      obtain ⟨⟨o, ho, hopen⟩, hb, hl, hch, hidle, hsU, hsPre, hsMid, hsPost, hsNP, huSnap, huRem, huHub⟩ := hi
      have hopen' : o = true := hopen (Or.inr (Or.inr (Or.inr ⟨_, hU, Or.inl rfl⟩)))
      refine ⟨⟨o, by simpa [emitted] using ho, fun _ => hopen'⟩, hb, hl, ?_, ?_, ?_, ?_, ?_, ?_, ?_, ?_, ?_, ?_⟩
      all_goals simp_all
    · -- removed: hub removal under the shard write lock
      split at h
      · rename_i hc
        simp only [shardFree, Bool.and_eq_true, List.isEmpty_iff, Bool.not_eq_true'] at hc
        cases h
        have hm := hi.uRem _ hU rfl
        obtain ⟨⟨o, ho, hopen⟩, hb, hl, hch, hidle, hsU, hsPre, hsMid, hsPost, hsNP, huSnap, huRem, huHub⟩ := hi
        have hopen' : o = true := hopen (Or.inr (Or.inr (Or.inr ⟨_, hU, Or.inr rfl⟩)))
        refine ⟨⟨o, by simpa [emitted] using ho, fun _ => hopen'⟩, hb, ?_, ?_, ?_, ?_, ?_, ?_, ?_, ?_, ?_, ?_, ?_⟩
        all_goals simp_all
      · cases h
    · -- hubRemoved: unsubscribe reply / push is enqueued
      have hm := hi.uHub _ hU rfl
      have hq : (if viaPush = true then some { s with queue := s.queue ++ [Frame.subEnd], U := none }
            else some { s with queue := s.queue ++ [Frame.subEnd], U := none }) = some s' := h
      have hs' : s' = { s with queue := s.queue ++ [Frame.subEnd], U := none } := by
        split at hq <;> cases hq <;> rfl
      subst hs'
      obtain ⟨⟨o, ho, hopen⟩, hb, hl, hch, hidle, hsU, hsPre, hsMid, hsPost, hsNP, huSnap, huRem, huHub⟩ := hi
      refine ⟨⟨false, ?_, ?_⟩, hb, hl, ?_, ?_, ?_, ?_, ?_, ?_, ?_, ?_, ?_, ?_⟩
      · have : emitted { s with queue := s.queue ++ [Frame.subEnd], U := none }
            = emitted s ++ [Frame.subEnd] := by simp [emitted]
        simp only [this]
        rw [scanFrom_snoc _ ho]; rfl
      · intro hn; simp [NeedsOpen, hm.1, hm.2.2.2, hS] at hn
      all_goals simp_all
  · cases h

/-- every label preserves the invariant -/
theorem inv_next {cfg : Cfg} {s s' : State} (hg : Good cfg) (hi : Inv s) (l : Label)
    (h : next cfg s l = some s') : Inv s' := by
  cases l with
  | sSpawn => exact inv_sSpawn hg hi h
  | sStep => exact inv_sStep hg hi h
  | uSpawn v => exact inv_uSpawn hg hi h
  | uStep => exact inv_uStep hg hi h
  | bStart k id => exact inv_bStart hg hi h
  | bCheck i => exact inv_bCheck hi h
  | bEnqueue i => exact inv_bEnqueue hg hi h
  | wGrab => exact inv_wGrab hi h
  | wWrite => exact inv_wWrite hi h
  | tFlush => exact inv_tFlush hi h

theorem inv_run {cfg : Cfg} (hg : Good cfg) (ls : List Label) {s s' : State} (hi : Inv s)
    (h : run cfg s ls = some s') : Inv s' := by
  induction ls generalizing s with
  | nil => simp [run] at h; subst h; exact hi
  | cons l r ih =>
    simp only [run] at h
    cases hn : next cfg s l with
    | none => simp [hn] at h
    | some s1 =>
      simp only [hn, Option.bind_some] at h
      exact ih (inv_next hg hi l hn) h

theorem inv_reachable {cfg : Cfg} (hg : Good cfg) {s : State} (hr : Reachable cfg s) : Inv s := by
  obtain ⟨ls, h⟩ := hr
  exact inv_run hg ls inv_init h

end CentrifugeVerif.Bracket
