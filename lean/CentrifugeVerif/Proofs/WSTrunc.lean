import CentrifugeVerif.Model.WS.Writer
/-! `truncWriter` passes on everything but the last four bytes of the stream, for every chunking. -/
namespace CentrifugeVerif.WS.Writer
open CentrifugeVerif.WS

theorem twWrite_spec (t : TW) (p : Bytes) (h : t.held.length ≤ 4) :
    (twWrite t p).2.flatten ++ (twWrite t p).1.held = t.held ++ p ∧
    (twWrite t p).1.held.length = min 4 (t.held.length + p.length) := by
  unfold twWrite
  simp only []
  generalize hk : (if t.held.length < 4 then min (4 - t.held.length) p.length else 0) = k
  have hkp : k ≤ p.length := by subst hk; split <;> omega
  split
  · -- early return: everything went into the buffer
    rename_i hc
    simp only [Bool.and_eq_true, decide_eq_true_eq, List.isEmpty_iff, List.drop_eq_nil_iff] at hc
    have hk2 : k = p.length := by omega
    simp only [List.flatten_nil, List.nil_append, List.length_append, List.length_take]
    subst hk2
    simp only [List.take_length, Nat.min_self, true_and]
    rw [if_pos hc.1] at hk
    omega
  · rename_i hc
    simp only [Bool.and_eq_true, decide_eq_true_eq, List.isEmpty_iff, List.drop_eq_nil_iff, not_and,
      Nat.not_le] at hc
    -- the buffer is full now
    have hfull : (t.held ++ p.take k).length = 4 := by
      simp only [List.length_append, List.length_take, Nat.min_eq_left hkp]
      by_cases h4 : t.held.length < 4
      · have := hc h4
        rw [if_pos h4] at hk
        omega
      · rw [if_neg h4] at hk
        omega
    generalize hheld : t.held ++ p.take k = held at hfull
    have hp : t.held ++ p = held ++ p.drop k := by
      rw [← hheld, List.append_assoc, List.take_append_drop]
    generalize hq : p.drop k = q at hp
    have hql : q.length + k = p.length := by rw [← hq]; simp; omega
    rw [hp]
    simp only [List.flatten_cons, List.flatten_nil, List.append_nil, List.length_append,
      List.length_drop]
    rcases Nat.lt_or_ge q.length 4 with hlt | hge
    · have hm : min q.length 4 = q.length := by omega
      rw [hm]
      simp only [Nat.sub_self, List.take_zero, List.append_nil, List.drop_zero]
      constructor
      · rw [← List.append_assoc, List.take_append_drop]
      · have : t.held.length + p.length ≥ 4 := by
          have := congrArg List.length hp
          simp only [List.length_append] at this
          omega
        omega
    · have hm : min q.length 4 = 4 := by omega
      rw [hm]
      have hd : held.drop 4 = [] := by simp [hfull]
      have ht : held.take 4 = held := by rw [List.take_of_length_le (by omega)]
      rw [hd, ht]
      simp only [List.nil_append]
      constructor
      · rw [List.append_assoc, List.take_append_drop]
      · have := congrArg List.length hp
        simp only [List.length_append] at this
        omega

theorem twWrites_spec : ∀ (cs : List Bytes) (t : TW), t.held.length ≤ 4 →
    (twWrites t cs).2.flatten ++ (twWrites t cs).1.held = t.held ++ cs.flatten ∧
    (twWrites t cs).1.held.length = min 4 (t.held.length + cs.flatten.length) := by
  intro cs
  induction cs with
  | nil => intro t h; simp [twWrites]; omega
  | cons p ps ih =>
    intro t h
    have h1 := twWrite_spec t p h
    have hl : (twWrite t p).1.held.length ≤ 4 := by rw [h1.2]; omega
    have h2 := ih (twWrite t p).1 hl
    simp only [twWrites, List.flatten_cons, List.flatten_append, List.length_append]
    constructor
    · rw [List.append_assoc, h2.1, ← List.append_assoc, h1.1, List.append_assoc]
    · rw [h2.2, h1.2]; omega

end CentrifugeVerif.WS.Writer
