import CentrifugeVerif.Proofs.Partition
import CentrifugeVerif.Gen.PartitionTags1024
/-!
Kernel-evaluated facts about the bundled tag table for 1024 partitions (`Gen/PartitionTags1024.lean`,
regenerated from `precomputed.go` on every run): length, well-formedness, the slots Redis computes
(specification CRC16 + hash-tag rule), strict monotonicity of the slot list.
-/
namespace CentrifugeVerif.Partition
open CentrifugeVerif.Gen.PartitionTags
set_option maxRecDepth 1000000

theorem len1024 : tags1024.length = 1024 := by decide +kernel
theorem wf1024 : tags1024.all tagWF = true := by decide +kernel
theorem slotsEq1024 : slotsOf tags1024 = slots1024 := by decide +kernel
theorem sorted1024 : strictlyIncreasing slots1024 = true := by decide +kernel

end CentrifugeVerif.Partition
