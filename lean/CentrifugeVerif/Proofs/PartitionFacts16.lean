import CentrifugeVerif.Proofs.Partition
import CentrifugeVerif.Gen.PartitionTags16
/-!
Kernel-evaluated facts about the bundled tag table for 16 partitions (`Gen/PartitionTags16.lean`,
regenerated from `precomputed.go` on every run): length, well-formedness, the slots Redis computes
(specification CRC16 + hash-tag rule), strict monotonicity of the slot list, balance for every cluster size.
-/
namespace CentrifugeVerif.Partition
open CentrifugeVerif.Gen.PartitionTags
set_option maxRecDepth 1000000

theorem len16 : tags16.length = 16 := by decide +kernel
theorem wf16 : tags16.all tagWF = true := by decide +kernel
theorem slotsEq16 : slotsOf tags16 = slots16 := by decide +kernel
theorem sorted16 : strictlyIncreasing slots16 = true := by decide +kernel
theorem bal16_1 : checkRange slots16 1 16 = true := by decide +kernel

theorem balanced16 : ∀ k, 1 ≤ k → k ≤ 16 → Balanced (slotsOf tags16) k := by
  intro k h1 h2
  rw [slotsEq16]
  exact checkRange_sound _ _ _ bal16_1 k (by omega) (by omega)

end CentrifugeVerif.Partition
