import CentrifugeVerif.Proofs.SubProtoNT9
/-!
The full no-timeout invariant (layers 1-5) and `closed_settled_empty`.
-/
namespace CentrifugeVerif.SubProto

structure NTInvFull (s : State) : Prop where
  base : NTInv s
  l4 : L4 s
  l5 : L5 s

theorem reachableNT_invFull (s : State) (h : ReachableNT s) : NTInvFull s := by
  refine reachableNT_invariant NTInvFull ⟨⟨Ghost.init, L1.init, L2.init, L3.init⟩, L4.init, L5.init⟩ ?_ s h
  intro s s' l _ hi hl hn
  exact ⟨⟨next_ghost s s' l hi.base.ghost hn, next_L1 s s' l hi.base.ghost hi.base.l1 hl hn,
      next_L2 s s' l hi.base.ghost hi.base.l1 hi.base.l2 hl hn,
      next_L3 s s' l hi.base.ghost hi.base.l1 hi.base.l2 hi.base.l3 hl hn⟩,
    next_L4 s s' l hi.base.ghost hi.l4 hl hn,
    next_L5 s s' l hi.base.ghost hi.base.l1 hi.base.l2 hi.l5 hl hn⟩

theorem alist_nil_of_aget_none {β : Type} (l : List (Nat × β)) (h : ∀ x, aget l x = none) : l = [] := by
  cases l with
  | nil => rfl
  | cons p r =>
    obtain ⟨k, v⟩ := p
    have := h k
    simp [aget] at this

/-- closed, nothing in flight, no timeout ever fired: no `c.channels` entry, no hub entry, no presence entry -/
theorem closed_settled_maps_empty (s : State) (hi : NTInvFull s) (hc : s.status = .closed) (hs : s.settled) :
    s.channels = [] ∧ s.hub = [] ∧ s.presence = [] := by
  have hchan : ∀ ch, aget s.channels ch = none := by
    intro ch
    cases he : aget s.channels ch with
    | none => rfl
    | some e =>
      exfalso
      have hsub := (settled_entries s hi.base hs ch e he).1
      rcases hi.l4.Q hc with ⟨c, tc, _, hgc, _, hpc, _⟩ | ⟨_, hall⟩
      · rw [settled_thread_done s hs c tc hgc] at hpc; simp at hpc
      · have := hall ch e he; rw [hsub] at this; cases this
  have hhub : ∀ ch, aget s.hub ch = none := by
    intro ch
    cases hh : aget s.hub ch with
    | none => rfl
    | some g =>
      obtain ⟨e, he, _⟩ := settled_hub s hi.base hs ch g hh
      rw [hchan ch] at he; cases he
  refine ⟨alist_nil_of_aget_none _ hchan, alist_nil_of_aget_none _ hhub, ?_⟩
  cases hp : s.presence with
  | nil => rfl
  | cons ch r =>
    exfalso
    rcases hi.l5.P ch (by rw [hp]; simp) with ⟨e, he, _⟩ | ⟨x, t, hx, _, ho⟩
    · rw [hchan ch] at he; cases he
    · rw [presOwner, settled_thread_done s hs x t hx] at ho
      simp at ho

end CentrifugeVerif.SubProto
