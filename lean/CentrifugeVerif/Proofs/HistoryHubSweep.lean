import CentrifugeVerif.Proofs.HistoryHub
/-!
The two sweeper goroutines of `historyHub` wake up at the same instants and serialise on the hub
lock in an unspecified order.  The model runs `expireStreams` first; this file shows the order is
irrelevant, and that one wake-up at second `n` subsumes earlier missed ones for a single channel.
-/
namespace CentrifugeVerif.HistoryHub
open CentrifugeVerif.MemStream

theorem sweepExpChan_removes (n : Nat) (c : ChanState) :
    (sweepExpChan n c).removes = c.removes ∧ (sweepExpChan n c).remQ = c.remQ := by
  unfold sweepExpChan
  split
  · exact ⟨rfl, rfl⟩
  · split
    · exact ⟨rfl, rfl⟩
    · split
      · exact ⟨rfl, rfl⟩
      · split <;> exact ⟨rfl, rfl⟩

theorem sweepRemChan_expires (n : Nat) (c : ChanState) :
    (sweepRemChan n c).expires = c.expires ∧ (sweepRemChan n c).expQ = c.expQ := by
  unfold sweepRemChan
  split
  · exact ⟨rfl, rfl⟩
  · split
    · exact ⟨rfl, rfl⟩
    · split
      · exact ⟨rfl, rfl⟩
      · split <;> exact ⟨rfl, rfl⟩

theorem chan_ext (a b : ChanState) (h1 : a.stream = b.stream) (h2 : a.expires = b.expires)
    (h3 : a.expQ = b.expQ) (h4 : a.removes = b.removes) (h5 : a.remQ = b.remQ) : a = b := by
  cases a; cases b; simp_all

/-- does the data sweep at second `n` clear the channel? (a function of its deadline and queue item) -/
def expFire (n : Nat) (e q : Option Nat) : Bool :=
  match q, e with
  | some q, some e => decide (q ≤ n) && decide (e ≤ q ∨ e ≤ n)
  | _, _ => false

/-- does the meta sweep at second `n` drop the channel? -/
def remFire (n : Nat) (r q : Option Nat) : Bool :=
  match q, r with
  | some q, some r => decide (q ≤ n) && decide (r ≤ q ∨ r ≤ n)
  | _, _ => false

theorem sweepExpChan_stream' (n : Nat) (c : ChanState) :
    (sweepExpChan n c).stream = if expFire n c.expires c.expQ then c.stream.map MStream.clear else c.stream := by
  obtain ⟨s, e, eq, r, rq⟩ := c
  cases eq with
  | none => simp [sweepExpChan, expFire]
  | some q =>
    cases e with
    | none => simp only [sweepExpChan, expFire]; split <;> simp
    | some e =>
      simp only [sweepExpChan, expFire]
      by_cases hq : q > n
      · have : ¬ q ≤ n := by omega
        simp [hq, this]
      · have : q ≤ n := by omega
        by_cases hf : e ≤ q ∨ e ≤ n <;> simp [hq, this, hf]

theorem sweepRemChan_stream' (n : Nat) (c : ChanState) :
    (sweepRemChan n c).stream = if remFire n c.removes c.remQ then none else c.stream := by
  obtain ⟨s, e, eq, r, rq⟩ := c
  cases rq with
  | none => simp [sweepRemChan, remFire]
  | some q =>
    cases r with
    | none => simp only [sweepRemChan, remFire]; split <;> simp
    | some r =>
      simp only [sweepRemChan, remFire]
      by_cases hq : q > n
      · have : ¬ q ≤ n := by omega
        simp [hq, this]
      · have : q ≤ n := by omega
        by_cases hf : r ≤ q ∨ r ≤ n <;> simp [hq, this, hf]

/-- the data sweep's effect on the deadline fields depends on those fields only -/
theorem sweepExpChan_congr (n : Nat) (c c' : ChanState) (h1 : c.expires = c'.expires) (h2 : c.expQ = c'.expQ) :
    (sweepExpChan n c).expires = (sweepExpChan n c').expires ∧ (sweepExpChan n c).expQ = (sweepExpChan n c').expQ := by
  obtain ⟨s, e, eq, r, rq⟩ := c
  obtain ⟨s', e', eq', r', rq'⟩ := c'
  simp only at h1 h2
  subst h1; subst h2
  cases eq with
  | none => simp [sweepExpChan]
  | some q =>
    cases e with
    | none => simp only [sweepExpChan]; split <;> simp
    | some e =>
      simp only [sweepExpChan]
      by_cases hq : q > n
      · simp [hq]
      · by_cases hf : e ≤ q ∨ e ≤ n <;> simp [hq, hf]

theorem sweepRemChan_congr (n : Nat) (c c' : ChanState) (h1 : c.removes = c'.removes) (h2 : c.remQ = c'.remQ) :
    (sweepRemChan n c).removes = (sweepRemChan n c').removes ∧ (sweepRemChan n c).remQ = (sweepRemChan n c').remQ := by
  obtain ⟨s, e, eq, r, rq⟩ := c
  obtain ⟨s', e', eq', r', rq'⟩ := c'
  simp only at h1 h2
  subst h1; subst h2
  cases rq with
  | none => simp [sweepRemChan]
  | some q =>
    cases r with
    | none => simp only [sweepRemChan]; split <;> simp
    | some r =>
      simp only [sweepRemChan]
      by_cases hq : q > n
      · simp [hq]
      · by_cases hf : r ≤ q ∨ r ≤ n <;> simp [hq, hf]

/-- per channel the two sweeps commute -/
theorem sweepChan_comm (n : Nat) (c : ChanState) :
    sweepRemChan n (sweepExpChan n c) = sweepExpChan n (sweepRemChan n c) := by
  have e1 := sweepExpChan_removes n c
  have r1 := sweepRemChan_expires n c
  have e2 := sweepExpChan_removes n (sweepRemChan n c)
  have r2 := sweepRemChan_expires n (sweepExpChan n c)
  have ec := sweepExpChan_congr n (sweepRemChan n c) c r1.1 r1.2
  have rc := sweepRemChan_congr n (sweepExpChan n c) c e1.1 e1.2
  apply chan_ext
  · rw [sweepRemChan_stream', sweepExpChan_stream', sweepExpChan_stream', sweepRemChan_stream',
      e1.1, e1.2, r1.1, r1.2]
    cases expFire n c.expires c.expQ <;> cases remFire n c.removes c.remQ <;> simp
  · rw [r2.1, ec.1]
  · rw [r2.2, ec.2]
  · rw [rc.1, e2.1]
  · rw [rc.2, e2.2]

/-- **the order of the two sweeper goroutines at one wake-up does not matter** -/
theorem sweeps_commute (h : Hub) (n : Nat) :
    (h.sweepExpire n).sweepRemove n = (h.sweepRemove n).sweepExpire n := by
  unfold Hub.sweepExpire Hub.sweepRemove
  by_cases g1 : h.nextExpireCheck = 0 ∨ h.nextExpireCheck > n <;>
    by_cases g2 : h.nextRemoveCheck = 0 ∨ h.nextRemoveCheck > n <;>
    simp only [g1, g2, if_true, if_false]
  have hq1 : (fun x => (sweepExpChan n (sweepRemChan n (h.chans x))).expQ) =
      (fun x => (sweepExpChan n (h.chans x)).expQ) := by
    funext x
    exact (sweepExpChan_congr n _ _ (sweepRemChan_expires n _).1 (sweepRemChan_expires n _).2).2
  have hq2 : (fun x => (sweepRemChan n (sweepExpChan n (h.chans x))).remQ) =
      (fun x => (sweepRemChan n (h.chans x)).remQ) := by
    funext x
    exact (sweepRemChan_congr n _ _ (sweepExpChan_removes n _).1 (sweepExpChan_removes n _).2).2
  have hc : (fun x => sweepRemChan n (sweepExpChan n (h.chans x))) =
      (fun x => sweepExpChan n (sweepRemChan n (h.chans x))) := by
    funext x; exact sweepChan_comm n _
  simp only [hq1, hq2, hc]

/-- a data sweep at second `n'` subsumes an earlier one at `n ≤ n'` (per channel): missing or
coalescing wake-ups changes nothing for the channel's state at `n'` -/
theorem sweepExpChan_coalesce (n n' : Nat) (hn : n ≤ n') (c : ChanState) :
    sweepExpChan n' (sweepExpChan n c) = sweepExpChan n' c := by
  obtain ⟨s, e, eq, r, rq⟩ := c
  cases eq with
  | none => simp [sweepExpChan]
  | some q =>
    cases e with
    | none =>
      by_cases hq : q > n
      · simp [sweepExpChan, hq]
      · have hq' : ¬ q > n' := by omega
        simp [sweepExpChan, hq, hq']
    | some e =>
      by_cases hq : q > n
      · simp [sweepExpChan, hq]
      · have hq' : ¬ q > n' := by omega
        by_cases hf : e ≤ q ∨ e ≤ n
        · have hf' : e ≤ q ∨ e ≤ n' := by omega
          simp [sweepExpChan, hq, hq', hf, hf']
        · by_cases he : e > n'
          · have hf' : ¬ (e ≤ q ∨ e ≤ n') := by omega
            simp [sweepExpChan, hq, hq', hf, hf', he]
          · have hf' : e ≤ q ∨ e ≤ n' := by omega
            simp [sweepExpChan, hq, hq', hf, hf', he]

theorem sweepRemChan_coalesce (n n' : Nat) (hn : n ≤ n') (c : ChanState) :
    sweepRemChan n' (sweepRemChan n c) = sweepRemChan n' c := by
  obtain ⟨s, e, eq, r, rq⟩ := c
  cases rq with
  | none => simp [sweepRemChan]
  | some q =>
    cases r with
    | none =>
      by_cases hq : q > n
      · simp [sweepRemChan, hq]
      · have hq' : ¬ q > n' := by omega
        simp [sweepRemChan, hq, hq']
    | some r =>
      by_cases hq : q > n
      · simp [sweepRemChan, hq]
      · have hq' : ¬ q > n' := by omega
        by_cases hf : r ≤ q ∨ r ≤ n
        · have hf' : r ≤ q ∨ r ≤ n' := by omega
          simp [sweepRemChan, hq, hq', hf, hf']
        · by_cases he : r > n'
          · have hf' : ¬ (r ≤ q ∨ r ≤ n') := by omega
            simp [sweepRemChan, hq, hq', hf, hf', he]
          · have hf' : r ≤ q ∨ r ≤ n' := by omega
            simp [sweepRemChan, hq, hq', hf, hf', he]

end CentrifugeVerif.HistoryHub
