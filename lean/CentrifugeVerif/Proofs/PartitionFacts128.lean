import CentrifugeVerif.Proofs.Partition
import CentrifugeVerif.Gen.PartitionTags128
/-!
Kernel-evaluated facts about the bundled tag table for 128 partitions (`Gen/PartitionTags128.lean`,
regenerated from `precomputed.go` on every run): length, well-formedness, the slots Redis computes
(specification CRC16 + hash-tag rule), strict monotonicity of the slot list, balance for every cluster size.
-/
namespace CentrifugeVerif.Partition
open CentrifugeVerif.Gen.PartitionTags
set_option maxRecDepth 1000000

theorem len128 : tags128.length = 128 := by decide +kernel
theorem wf128 : tags128.all tagWF = true := by decide +kernel
theorem slotsEq128 : slotsOf tags128 = slots128 := by decide +kernel
theorem sorted128 : strictlyIncreasing slots128 = true := by decide +kernel
theorem bal128_1 : checkRange slots128 1 64 = true := by decide +kernel
theorem bal128_65 : checkRange slots128 65 64 = true := by decide +kernel

theorem balanced128 : ∀ k, 1 ≤ k → k ≤ 128 → Balanced (slotsOf tags128) k := by
  intro k h1 h2
  rw [slotsEq128]
  by_cases h0 : k < 65
  · exact checkRange_sound _ _ _ bal128_1 k (by omega) (by omega)
  exact checkRange_sound _ _ _ bal128_65 k (by omega) (by omega)

end CentrifugeVerif.Partition
