import CentrifugeVerif.Model.Writer
import CentrifugeVerif.Proofs.Queue
/-!
Helper lemmas for C12, part 2: invariants of the writer transition system (`Model/Writer.lean`).
-/
namespace CentrifugeVerif.Writer
open Queue

/-! ## Queue operations, total forms (open or closed queue) -/

theorem q_rel (q : RingQ) (hI : q.Inv) : Rel q ⟨q.toList, q.closed⟩ := ⟨hI, rfl, rfl⟩

theorem q_add (q : RingQ) (hI : q.Inv) (x : Item) :
    ((q.add x).2 = .ok ∧ q.closed = false ∧ (q.add x).1.toList = q.toList ++ [x] ∧ (q.add x).1.Inv ∧
        (q.add x).1.closed = false) ∨
    ((q.add x).2 = .closed ∧ q.closed = true ∧ (q.add x).1 = q) := by
  cases hc : q.closed with
  | false => left; have := RingQ.add_spec hI hc x; exact ⟨this.1, rfl, this.2.1, this.2.2.1, this.2.2.2⟩
  | true => right; rw [RingQ.add_closed hc]; exact ⟨rfl, rfl, rfl⟩

theorem q_addMany (q : RingQ) (hI : q.Inv) (xs : List Item) :
    ((q.addMany xs).2 = .ok ∧ q.closed = false ∧ (q.addMany xs).1.toList = q.toList ++ xs ∧ (q.addMany xs).1.Inv ∧
        (q.addMany xs).1.closed = false) ∨
    ((q.addMany xs).2 = .closed ∧ q.closed = true ∧ (q.addMany xs).1 = q) := by
  cases hc : q.closed with
  | false => left; have := RingQ.addMany_spec hI hc xs; exact ⟨this.1, rfl, this.2.1, this.2.2.1, this.2.2.2⟩
  | true => right; rw [RingQ.addMany_closed hc]; exact ⟨rfl, rfl, rfl⟩

/-- what a `RemoveManyInto`/`RemoveManyIntoShrink` call does to the abstract content -/
def RemSpec (q q' : RingQ) (r : Option (List Item)) : Prop :=
  q'.Inv ∧ q'.closed = q.closed ∧
    match r with
    | none => q.toList = [] ∧ q'.toList = []
    | some items => q.toList = items ++ q'.toList

theorem q_removeManyInto (q : RingQ) (hI : q.Inv) (b : Nat) (m : Int) :
    RemSpec q (q.removeManyInto b m).1 (q.removeManyInto b m).2 := by
  have h := RingQ.step_refines (q_rel q hI) (.removeManyInto b m)
  simp only [RingQ.step, Fifo.step] at h
  by_cases he : q.toList = []
  · simp only [he, if_true] at h
    obtain ⟨⟨hI', hl', hc'⟩, ho⟩ := h
    simp only [Out.items.injEq] at ho
    refine ⟨hI', hc', ?_⟩
    rw [ho]; exact ⟨he, hl'⟩
  · simp only [he, if_false] at h
    obtain ⟨⟨hI', hl', hc'⟩, ho⟩ := h
    simp only [Out.items.injEq] at ho
    refine ⟨hI', hc', ?_⟩
    rw [ho]; simp only []
    rw [hl']; exact (List.take_append_drop _ _).symm

theorem q_removeManyIntoShrink (q : RingQ) (hI : q.Inv) (b : Nat) (m : Int) :
    RemSpec q (q.removeManyIntoShrink b m).1 (q.removeManyIntoShrink b m).2 := by
  have h := RingQ.step_refines (q_rel q hI) (.removeManyIntoShrink b m)
  simp only [RingQ.step, Fifo.step] at h
  by_cases he : q.toList = []
  · simp only [he, if_true] at h
    obtain ⟨⟨hI', hl', hc'⟩, ho⟩ := h
    simp only [Out.items.injEq] at ho
    refine ⟨hI', hc', ?_⟩
    rw [ho]; exact ⟨he, hl'⟩
  · simp only [he, if_false] at h
    obtain ⟨⟨hI', hl', hc'⟩, ho⟩ := h
    simp only [Out.items.injEq] at ho
    refine ⟨hI', hc', ?_⟩
    rw [ho]; simp only []
    rw [hl']; exact (List.take_append_drop _ _).symm

theorem q_doShrink (q : RingQ) (hI : q.Inv) :
    q.doShrink.Inv ∧ q.doShrink.toList = q.toList ∧ q.doShrink.closed = q.closed := by
  have h := (RingQ.step_refines (q_rel q hI) (.shrink true)).1
  exact ⟨h.1, h.2.1, h.2.2⟩

theorem q_close (q : RingQ) (hI : q.Inv) : q.close.Inv ∧ q.close.toList = [] ∧ q.close.closed = true :=
  RingQ.close_inv hI

theorem q_closeRemaining (q : RingQ) (hI : q.Inv) :
    q.closeRemaining.1.Inv ∧ q.closeRemaining.1.toList = [] ∧ q.closeRemaining.2 = q.toList ∧
      (q.closed = false → q.closeRemaining.1.closed = true) ∧ (q.closed = true → q.closeRemaining.1.closed = true) := by
  cases hc : q.closed with
  | false =>
    have := RingQ.closeRemaining_spec hI hc
    exact ⟨this.2.1, this.2.2.1, this.1, fun _ => this.2.2.2, fun h => by cases h⟩
  | true =>
    have hl := RingQ.closed_toList hI hc
    have e : q.closeRemaining = (q, []) := by simp [RingQ.closeRemaining, hc]
    rw [e]
    exact ⟨hI, hl, hl.symm, fun h => by simp at h, fun _ => hc⟩

theorem q_cnt_zero_iff (q : RingQ) : q.cnt = 0 ↔ q.toList = [] := by
  rw [RingQ.cnt_eq_length]; exact List.length_eq_zero_iff

/-! ## The writer invariant -/

theorem txq_append (a b : List TEntry) : txq (a ++ b) = txq a ++ txq b := by
  induction a with
  | nil => rfl
  | cons e a ih =>
    cases e with
    | call items many ok => cases ok <;> simp [txq, ih]
    | direct x => simp [txq, ih]

@[simp] theorem txq_call_ok (items : List Item) (many : Bool) : txq [.call items many true] = items := by
  simp [txq]
@[simp] theorem txq_call_fail (items : List Item) (many : Bool) : txq [.call items many false] = [] := by
  simp [txq]
@[simp] theorem txq_direct (x : Item) : txq [.direct x] = [] := by simp [txq]

/-- whether (and how) `close` has been called: the flush flag of the close in progress or finished -/
def closeFlag (w : W) : Option Bool :=
  match w.holder with
  | .cStart f | .cWrite _ f | .cEnd f => some f
  | _ => w.closeDone

def closingPast : Holder → Bool
  | .cWrite _ _ | .cEnd _ => true
  | _ => false

structure WInv (c : Cfg) (w : W) : Prop where
  qinv : w.q.Inv
  /-- exactly-once, in order: what was accepted = what the transport got ++ what the holder of `w.mu`
  carries ++ what is still queued (unless `close(false)` discarded the queue: then a prefix) -/
  order : w.failed = false →
    ∃ rest, w.enq = txq w.tx ++ w.holder.inflight ++ rest ∧ (w.dropped = false → rest = w.q.toList)
  k1 : w.dropped = true → closeFlag w = some false
  k2 : (w.closeDone.isSome = true ∨ closingPast w.holder = true) → w.q.closed = true
  k3 : w.closed = false → closeFlag w = none
  k5 : w.dropped = true → w.q.closed = true
  slow : ∀ r ∈ w.results, (r.2.1 = .slow ↔ (0 < c.maxQueueSize ∧ c.maxQueueSize < r.2.2))

theorem WInv.init (c : Cfg) (hc : 0 < c.initCap) : WInv c (W.init c) := by
  refine ⟨RingQ.new_inv hc, fun _ => ⟨[], by simp [W.init, txq, Holder.inflight], fun _ => by simp [W.init]⟩,
    by simp [W.init], by simp [W.init, closingPast], by simp [W.init, closeFlag], by simp [W.init],
    by simp [W.init]⟩

/-- a holder state that carries no items and is not part of `close` -/
def Holder.plain : Holder → Bool
  | .free | .gLocked | .gBuf _ | .tStart | .tBuf _ | .tAfter _ => true
  | _ => false

/-- frame rule: a step that does not touch the observable bookkeeping (and at most reshapes the ring,
or moves the holder of `w.mu` between states that carry nothing) keeps the invariant -/
theorem WInv.frame {c : Cfg} {w w' : W} (h : WInv c w)
    (hq : w'.q.Inv ∧ w'.q.toList = w.q.toList ∧ w'.q.closed = w.q.closed)
    (henq : w'.enq = w.enq) (htx : w'.tx = w.tx)
    (hh : w'.holder = w.holder ∨ (w'.holder.plain = true ∧ w.holder.plain = true))
    (hd : w'.dropped = w.dropped)
    (hf : w'.failed = w.failed) (hcd : w'.closeDone = w.closeDone) (hc : w'.closed = w.closed)
    (hr : w'.results = w.results) : WInv c w' := by
  have hinf : w'.holder.inflight = w.holder.inflight := by
    rcases hh with hh | ⟨h1, h2⟩
    · rw [hh]
    · cases hw : w.holder <;> cases hw' : w'.holder <;> simp_all [Holder.plain, Holder.inflight]
  have hcf : closeFlag w' = closeFlag w := by
    rcases hh with hh | ⟨h1, h2⟩
    · simp [closeFlag, hh, hcd]
    · cases hw : w.holder <;> cases hw' : w'.holder <;> simp_all [Holder.plain, closeFlag]
  have hcp : closingPast w'.holder = closingPast w.holder := by
    rcases hh with hh | ⟨h1, h2⟩
    · rw [hh]
    · cases hw : w.holder <;> cases hw' : w'.holder <;> simp_all [Holder.plain, closingPast]
  refine ⟨hq.1, ?_, ?_, ?_, ?_, ?_, ?_⟩
  · intro hf'
    rw [hf] at hf'
    obtain ⟨rest, h1, h2⟩ := h.order hf'
    exact ⟨rest, by rw [henq, htx, hinf]; exact h1, by rw [hd, hq.2.1]; exact h2⟩
  · rw [hd, hcf]; exact h.k1
  · rw [hcd, hcp, hq.2.2]; exact h.k2
  · rw [hc, hcf]; exact h.k3
  · rw [hd, hq.2.2]; exact h.k5
  · rw [hr]; exact h.slow

theorem finishCollect_frame (c : Cfg) (w : W) (hI : w.q.Inv) :
    (finishCollect c w).q.Inv ∧ (finishCollect c w).q.toList = w.q.toList ∧
      (finishCollect c w).q.closed = w.q.closed ∧ (finishCollect c w).enq = w.enq ∧
      (finishCollect c w).tx = w.tx ∧ (finishCollect c w).holder = w.holder ∧
      (finishCollect c w).dropped = w.dropped ∧ (finishCollect c w).failed = w.failed ∧
      (finishCollect c w).closeDone = w.closeDone ∧ (finishCollect c w).closed = w.closed ∧
      (finishCollect c w).results = w.results := by
  unfold finishCollect
  split
  · exact ⟨hI, rfl, rfl, rfl, rfl, rfl, rfl, rfl, rfl, rfl, rfl⟩
  · split
    · have := q_doShrink w.q hI
      exact ⟨this.1, this.2.1, this.2.2, rfl, rfl, rfl, rfl, rfl, rfl, rfl, rfl⟩
    · exact ⟨hI, rfl, rfl, rfl, rfl, rfl, rfl, rfl, rfl, rfl, rfl⟩

theorem schedule_frame (w : W) (d : Nat) :
    (schedule w d).q = w.q ∧ (schedule w d).enq = w.enq ∧ (schedule w d).tx = w.tx ∧
      (schedule w d).holder = w.holder ∧ (schedule w d).dropped = w.dropped ∧
      (schedule w d).failed = w.failed ∧ (schedule w d).closeDone = w.closeDone ∧
      (schedule w d).closed = w.closed ∧ (schedule w d).results = w.results := by
  unfold schedule; split <;> simp

theorem inv_add {c : Cfg} {w w' : W} (h : WInv c w) (xs : List Item) (many : Bool)
    (hs : step c w (.add xs many) = some w') : WInv c w' := by
  simp only [step] at hs
  -- the queue call, normalised
  have key : ∀ (q' : RingQ) (r : RingQ.AddRes),
      ((r = .ok ∧ w.q.closed = false ∧ q'.toList = w.q.toList ++ xs ∧ q'.Inv ∧ q'.closed = false) ∨
        (r = .closed ∧ w.q.closed = true ∧ q' = w.q) ∨ r = .panic) →
      (match r with
        | .ok => some { w with q := q', enq := w.enq ++ xs, pendCheck := w.pendCheck ++ [xs] }
        | .closed => some { w with results := w.results ++ [(xs, Res.connClosed, 0)] }
        | .panic => none) = some w' → WInv c w' := by
    intro q' r hr hm
    rcases hr with ⟨rfl, hc, hl, hI, hc'⟩ | ⟨rfl, hc, rfl⟩ | rfl
    · simp only [Option.some.injEq] at hm
      subst hm
      refine ⟨hI, ?_, h.k1, ?_, h.k3, ?_, h.slow⟩
      · intro hf
        obtain ⟨rest, h1, h2⟩ := h.order hf
        refine ⟨rest ++ xs, ?_, ?_⟩
        · show w.enq ++ xs = txq w.tx ++ w.holder.inflight ++ (rest ++ xs)
          rw [h1]; simp [List.append_assoc]
        · intro hd; show rest ++ xs = q'.toList; rw [hl, h2 hd]
      · intro hp
        have := h.k2 hp
        rw [hc] at this; cases this
      · intro hd
        have := h.k5 hd
        rw [hc] at this; cases this
    · simp only [Option.some.injEq] at hm
      subst hm
      refine ⟨h.qinv, h.order, h.k1, h.k2, h.k3, h.k5, ?_⟩
      intro r hr
      rcases List.mem_append.mp hr with hr | hr
      · exact h.slow r hr
      · simp only [List.mem_singleton] at hr
        subst hr
        simp
    · simp at hm
  cases many with
  | true =>
    simp only [if_true] at hs
    refine key (w.q.addMany xs).1 (w.q.addMany xs).2 ?_ hs
    rcases q_addMany w.q h.qinv xs with ⟨a, b, c', d, e⟩ | ⟨a, b, c'⟩
    · exact Or.inl ⟨a, b, c', d, e⟩
    · exact Or.inr (Or.inl ⟨a, b, c'⟩)
  | false =>
    simp only [Bool.false_eq_true, if_false] at hs
    match xs, hs with
    | [x], hs =>
      refine key (w.q.add x).1 (w.q.add x).2 ?_ hs
      rcases q_add w.q h.qinv x with ⟨a, b, c', d, e⟩ | ⟨a, b, c'⟩
      · exact Or.inl ⟨a, b, c', d, e⟩
      · exact Or.inr (Or.inl ⟨a, b, c'⟩)
    | [], hs => simp at hs
    | _ :: _ :: _, hs => simp at hs

theorem inv_check {c : Cfg} {w w' : W} (h : WInv c w) (i : Nat)
    (hs : step c w (.check i) = some w') : WInv c w' := by
  simp only [step] at hs
  split at hs
  · simp at hs
  · rename_i xs _
    have hsz : w.q.size = bytes w.q.toList := h.qinv.sizeEq
    split at hs
    · rename_i hover
      simp only [Option.some.injEq] at hs
      subst hs
      refine ⟨h.qinv, h.order, h.k1, h.k2, h.k3, h.k5, ?_⟩
      intro r hr
      rcases List.mem_append.mp hr with hr | hr
      · exact h.slow r hr
      · simp only [List.mem_singleton] at hr
        subst hr
        simp only [true_iff]
        rw [← hsz]; exact hover
    · rename_i hover
      simp only [Option.some.injEq] at hs
      subst hs
      refine ⟨h.qinv, h.order, h.k1, h.k2, h.k3, h.k5, ?_⟩
      intro r hr
      rcases List.mem_append.mp hr with hr | hr
      · exact h.slow r hr
      · simp only [List.mem_singleton] at hr
        subst hr
        simp only [reduceCtorEq, false_iff]
        rw [← hsz]; exact hover

theorem inv_simple {c : Cfg} {w w' : W} (h : WInv c w) (l : Lbl)
    (hl : l = .sched ∨ (∃ d, l = .tick d) ∨ l = .fire ∨ l = .tLock ∨ l = .tFin ∨ l = .shrinkFire)
    (hs : step c w l = some w') : WInv c w' := by
  have hq0 : w.q.Inv ∧ w.q.toList = w.q.toList ∧ w.q.closed = w.q.closed := ⟨h.qinv, rfl, rfl⟩
  rcases hl with rfl | ⟨d, rfl⟩ | rfl | rfl | rfl | rfl
  · simp only [step] at hs
    split at hs
    · simp only [Option.some.injEq] at hs
      subst hs
      split
      · have := schedule_frame { w with pendSched := w.pendSched - 1 } c.writeDelay
        exact h.frame (by rw [this.1]; exact hq0) this.2.1 this.2.2.1 (Or.inl this.2.2.2.1) this.2.2.2.2.1
          this.2.2.2.2.2.1 this.2.2.2.2.2.2.1 this.2.2.2.2.2.2.2.1 this.2.2.2.2.2.2.2.2
      · exact h.frame hq0 rfl rfl (Or.inl rfl) rfl rfl rfl rfl rfl
    · simp at hs
  · simp only [step, Option.some.injEq] at hs
    subst hs
    exact h.frame hq0 rfl rfl (Or.inl rfl) rfl rfl rfl rfl rfl
  · simp only [step] at hs
    split at hs
    · split at hs
      · simp only [Option.some.injEq] at hs
        subst hs
        exact h.frame hq0 rfl rfl (Or.inl rfl) rfl rfl rfl rfl rfl
      · simp at hs
    · simp at hs
  · simp only [step] at hs
    split at hs
    · rename_i hfree
      simp only [Option.some.injEq] at hs
      subst hs
      exact h.frame hq0 rfl rfl (Or.inr ⟨rfl, by rw [hfree.1]; rfl⟩) rfl rfl rfl rfl rfl
    · simp at hs
  · simp only [step] at hs
    split at hs
    · simp only [Option.some.injEq] at hs
      subst hs
      have := finishCollect_frame c w h.qinv
      exact h.frame ⟨this.1, this.2.1, this.2.2.1⟩ this.2.2.2.1 this.2.2.2.2.1 (Or.inl this.2.2.2.2.2.1)
        this.2.2.2.2.2.2.1 this.2.2.2.2.2.2.2.1 this.2.2.2.2.2.2.2.2.1 this.2.2.2.2.2.2.2.2.2.1
        this.2.2.2.2.2.2.2.2.2.2
    · simp at hs
  · simp only [step] at hs
    split at hs
    · split at hs
      · simp only [Option.some.injEq] at hs
        subst hs
        have := q_doShrink w.q h.qinv
        exact h.frame this rfl rfl (Or.inl rfl) rfl rfl rfl rfl rfl
      · simp at hs
    · simp at hs

theorem inv_direct {c : Cfg} {w w' : W} (h : WInv c w) (x : Item) (ok : Bool)
    (hs : step c w (.direct x ok) = some w') : WInv c w' := by
  simp only [step, Option.some.injEq] at hs
  subst hs
  refine ⟨h.qinv, ?_, h.k1, h.k2, h.k3, h.k5, h.slow⟩
  intro hf
  obtain ⟨rest, h1, h2⟩ := h.order hf
  refine ⟨rest, ?_, h2⟩
  show w.enq = txq (w.tx ++ [if ok then TEntry.direct x else TEntry.call [x] false false]) ++ _ ++ rest
  rw [txq_append]
  cases ok <;> simpa using h1

theorem inv_g {c : Cfg} {w w' : W} (h : WInv c w) (choice : Bool)
    (hs : step c w (.g choice) = some w') : WInv c w' := by
  have hq0 : w.q.Inv ∧ w.q.toList = w.q.toList ∧ w.q.closed = w.q.closed := ⟨h.qinv, rfl, rfl⟩
  simp only [step, gStep] at hs
  split at hs
  · -- wait
    split at hs
    · simp only [Option.some.injEq] at hs; subst hs
      exact h.frame hq0 rfl rfl (Or.inl rfl) rfl rfl rfl rfl rfl
    · split at hs
      · simp only [Option.some.injEq] at hs; subst hs
        exact h.frame hq0 rfl rfl (Or.inl rfl) rfl rfl rfl rfl rfl
      · simp at hs
  · -- checkLen
    split at hs <;>
    · simp only [Option.some.injEq] at hs; subst hs
      exact h.frame hq0 rfl rfl (Or.inl rfl) rfl rfl rfl rfl rfl
  · -- sleeping
    split at hs
    · split at hs
      · simp only [Option.some.injEq] at hs; subst hs
        exact h.frame hq0 rfl rfl (Or.inl rfl) rfl rfl rfl rfl rfl
      · simp at hs
    · split at hs
      · simp only [Option.some.injEq] at hs; subst hs
        exact h.frame hq0 rfl rfl (Or.inl rfl) rfl rfl rfl rfl rfl
      · simp at hs
  · -- lock
    split at hs
    · rename_i hfree
      simp only [Option.some.injEq] at hs; subst hs
      exact h.frame hq0 rfl rfl (Or.inr ⟨rfl, by rw [hfree]; rfl⟩) rfl rfl rfl rfl rfl
    · simp at hs
  · -- finish
    simp only [Option.some.injEq] at hs; subst hs
    have := finishCollect_frame c w h.qinv
    exact h.frame ⟨this.1, this.2.1, this.2.2.1⟩ this.2.2.2.1 this.2.2.2.2.1 (Or.inl this.2.2.2.2.2.1)
      this.2.2.2.2.2.2.1 this.2.2.2.2.2.2.2.1 this.2.2.2.2.2.2.2.2.1 this.2.2.2.2.2.2.2.2.2.1
      this.2.2.2.2.2.2.2.2.2.2
  · -- retClosed
    simp only [Option.some.injEq] at hs; subst hs
    exact h.frame hq0 rfl rfl (Or.inl rfl) rfl rfl rfl rfl rfl
  · simp at hs
  · simp at hs

/-- removing a batch from the queue into the hands of the holder of `w.mu` -/
theorem inv_take {c : Cfg} {w : W} (h : WInv c w) (hpl : w.holder.plain = true) {q' : RingQ}
    {r : Option (List Item)} (hr : RemSpec w.q q' r) (hnew : Holder) (hnewInf : ∀ items, r = some items →
      hnew.inflight = items ∧ closeFlag { w with q := q', holder := hnew } = closeFlag w ∧ closingPast hnew = false)
    (hnone : r = none → hnew.plain = true) (w' : W)
    (hw' : w'.q = q' ∧ w'.holder = hnew ∧ w'.enq = w.enq ∧ w'.tx = w.tx ∧ w'.dropped = w.dropped ∧
      w'.failed = w.failed ∧ w'.closeDone = w.closeDone ∧ w'.closed = w.closed ∧ w'.results = w.results) :
    WInv c w' := by
  obtain ⟨hq, hh, henq, htx, hd, hf, hcd, hc, hres⟩ := hw'
  obtain ⟨hI', hcl', hsp⟩ := hr
  cases r with
  | none =>
    obtain ⟨he, he'⟩ := hsp
    exact h.frame (by rw [hq]; exact ⟨hI', by rw [he, he'], hcl'⟩) henq htx
      (Or.inr ⟨by rw [hh]; exact hnone rfl, hpl⟩) hd hf hcd hc hres
  | some items =>
    simp only at hsp
    obtain ⟨hinf, hcf, hcp⟩ := hnewInf items rfl
    have hinf0 : w.holder.inflight = [] := by
      cases hw : w.holder <;> simp_all [Holder.plain, Holder.inflight]
    have hcf' : closeFlag w' = closeFlag w := by
      rw [← hcf]; simp only [closeFlag, hh, hcd]
    refine ⟨by rw [hq]; exact hI', ?_, ?_, ?_, ?_, ?_, by rw [hres]; exact h.slow⟩
    · intro hf'
      rw [hf] at hf'
      obtain ⟨rest, h1, h2⟩ := h.order hf'
      rw [hinf0] at h1
      cases hdr : w.dropped with
      | true =>
        have hclosed := h.k5 hdr
        have hnil := RingQ.closed_toList h.qinv hclosed
        rw [hnil] at hsp
        have hi : items = [] := (List.append_eq_nil_iff.mp hsp.symm).1
        refine ⟨rest, ?_, ?_⟩
        · rw [henq, htx, hh, hinf, hi]; simpa using h1
        · rw [hd, hdr]; intro hx; cases hx
      | false =>
        have hrest := h2 hdr
        refine ⟨q'.toList, ?_, fun _ => by rw [hq]⟩
        rw [henq, htx, hh, hinf, h1, hrest, hsp]; simp [List.append_assoc]
    · rw [hd, hcf']; exact h.k1
    · rw [hcd, hh, hcp, hq, hcl']
      intro hp
      rcases hp with hp | hp
      · exact h.k2 (Or.inl hp)
      · cases hp
    · rw [hc, hcf']; exact h.k3
    · rw [hd, hq, hcl']; exact h.k5

/-- handing the carried batch to the transport (`ok`) or failing to -/
theorem inv_write {c : Cfg} {w : W} (h : WInv c w) (items : List Item) (many ok : Bool) (hnew : Holder)
    (hinf : w.holder.inflight = items) (hnewInf : hnew.inflight = [])
    (hcf : ∀ cd, closeFlag { w with holder := hnew, closeDone := cd } = closeFlag { w with closeDone := cd })
    (hcp : closingPast hnew = true → closingPast w.holder = true) (w' : W)
    (hw' : w'.q = w.q ∧ w'.holder = hnew ∧ w'.enq = w.enq ∧ w'.tx = w.tx ++ [.call items many ok] ∧
      w'.dropped = w.dropped ∧ (w'.failed = (w.failed || !ok)) ∧ w'.closeDone = w.closeDone ∧
      w'.closed = w.closed ∧ w'.results = w.results) :
    WInv c w' := by
  obtain ⟨hq, hh, henq, htx, hd, hf, hcd, hc, hres⟩ := hw'
  have hcf' : closeFlag w' = closeFlag w := by
    have := hcf w.closeDone
    simp only [closeFlag, hh, hcd] at this ⊢
    exact this
  refine ⟨by rw [hq]; exact h.qinv, ?_, ?_, ?_, ?_, ?_, by rw [hres]; exact h.slow⟩
  · intro hf'
    rw [hf] at hf'
    cases ok with
    | false => simp at hf'
    | true =>
      simp only [Bool.not_true, Bool.or_false] at hf'
      obtain ⟨rest, h1, h2⟩ := h.order hf'
      refine ⟨rest, ?_, by rw [hd, hq]; exact h2⟩
      rw [henq, htx, hh, hnewInf, txq_append, h1, hinf]; simp
  · rw [hd, hcf']; exact h.k1
  · rw [hcd, hh, hq]
    intro hp
    rcases hp with hp | hp
    · exact h.k2 (Or.inl hp)
    · exact h.k2 (Or.inr (hcp hp))
  · rw [hc, hcf']; exact h.k3
  · rw [hd, hq]; exact h.k5

theorem inv_h {c : Cfg} {w w' : W} (h : WInv c w) (ok : Bool)
    (hs : step c w (.h ok) = some w') : WInv c w' := by
  have hq0 : w.q.Inv ∧ w.q.toList = w.q.toList ∧ w.q.closed = w.q.closed := ⟨h.qinv, rfl, rfl⟩
  simp only [step, hStep] at hs
  split at hs
  · simp at hs
  · -- gLocked
    rename_i hh
    split at hs <;>
    · simp only [Option.some.injEq] at hs; subst hs
      exact h.frame hq0 rfl rfl (Or.inr ⟨rfl, by rw [hh]; rfl⟩) rfl rfl rfl rfl rfl
  · -- gBuf
    rename_i n hh
    have hr : RemSpec w.q
        (if c.mode = .delay then w.q.removeManyInto n n else w.q.removeManyIntoShrink n n).1
        (if c.mode = .delay then w.q.removeManyInto n n else w.q.removeManyIntoShrink n n).2 := by
      split
      · exact q_removeManyInto w.q h.qinv n n
      · exact q_removeManyIntoShrink w.q h.qinv n n
    generalize (if c.mode = .delay then w.q.removeManyInto n n else w.q.removeManyIntoShrink n n) = pr at hs hr
    obtain ⟨q', r⟩ := pr
    cases r with
    | none =>
      simp only [Option.some.injEq] at hs; subst hs
      exact inv_take h (by rw [hh]; rfl) hr .free (fun _ hx => by cases hx) (fun _ => rfl) _
        ⟨rfl, rfl, rfl, rfl, rfl, rfl, rfl, rfl, rfl⟩
    | some items =>
      simp only [Option.some.injEq] at hs; subst hs
      exact inv_take h (by rw [hh]; rfl) hr (.gWrite items)
        (fun it hx => by cases hx; exact ⟨rfl, by simp [closeFlag, hh], rfl⟩) (fun hx => by cases hx) _
        ⟨rfl, rfl, rfl, rfl, rfl, rfl, rfl, rfl, rfl⟩
  · -- gWrite
    rename_i items hh
    split at hs
    · rename_i hok
      simp only [Option.some.injEq] at hs; subst hs
      exact inv_write h items (items.length != 1) true .free (by rw [hh]; rfl) rfl
        (fun cd => by simp [closeFlag, hh]) (fun hx => by cases hx) _
        ⟨rfl, rfl, rfl, rfl, rfl, by simp, rfl, rfl, rfl⟩
    · simp only [Option.some.injEq] at hs; subst hs
      exact inv_write h items (items.length != 1) false .free (by rw [hh]; rfl) rfl
        (fun cd => by simp [closeFlag, hh]) (fun hx => by cases hx) _
        ⟨rfl, rfl, rfl, rfl, rfl, by simp, rfl, rfl, rfl⟩
  · -- tStart
    rename_i hh
    split at hs <;>
    · simp only [Option.some.injEq] at hs; subst hs
      exact h.frame hq0 rfl rfl (Or.inr ⟨rfl, by rw [hh]; rfl⟩) rfl rfl rfl rfl rfl
  · -- tBuf
    rename_i n hh
    have hr := q_removeManyInto w.q h.qinv n n
    generalize w.q.removeManyInto n n = pr at hs hr
    obtain ⟨q', r⟩ := pr
    cases r with
    | none =>
      simp only [Option.some.injEq] at hs; subst hs
      exact inv_take h (by rw [hh]; rfl) hr .free (fun _ hx => by cases hx) (fun _ => rfl) _
        ⟨rfl, rfl, rfl, rfl, rfl, rfl, rfl, rfl, rfl⟩
    | some items =>
      simp only [Option.some.injEq] at hs; subst hs
      exact inv_take h (by rw [hh]; rfl) hr (.tWrite items)
        (fun it hx => by cases hx; exact ⟨rfl, by simp [closeFlag, hh], rfl⟩) (fun hx => by cases hx) _
        ⟨rfl, rfl, rfl, rfl, rfl, rfl, rfl, rfl, rfl⟩
  · -- tWrite
    rename_i items hh
    split at hs
    · simp only [Option.some.injEq] at hs; subst hs
      exact inv_write h items (items.length != 1) true (.tAfter false) (by rw [hh]; rfl) rfl
        (fun cd => by simp [closeFlag, hh]) (fun hx => by cases hx) _
        ⟨rfl, rfl, rfl, rfl, rfl, by simp, rfl, rfl, rfl⟩
    · simp only [Option.some.injEq] at hs; subst hs
      exact inv_write h items (items.length != 1) false (.tAfter true) (by rw [hh]; rfl) rfl
        (fun cd => by simp [closeFlag, hh]) (fun hx => by cases hx) _
        ⟨rfl, rfl, rfl, rfl, rfl, by simp, rfl, rfl, rfl⟩
  · -- tAfter
    rename_i err hh
    simp only [Option.some.injEq] at hs; subst hs
    split
    · have := schedule_frame w (if 0 < c.maxFrame ∧ c.maxFrame ≤ (w.q.cnt : Int) then 0 else c.writeDelay)
      exact h.frame (by rw [this.1]; exact hq0) this.2.1 this.2.2.1
        (Or.inr ⟨rfl, by rw [hh]; rfl⟩) this.2.2.2.2.1 this.2.2.2.2.2.1 this.2.2.2.2.2.2.1
        this.2.2.2.2.2.2.2.1 this.2.2.2.2.2.2.2.2
    · exact h.frame hq0 rfl rfl (Or.inr ⟨rfl, by rw [hh]; rfl⟩) rfl rfl rfl rfl rfl
  · -- cStart
    rename_i flush hh
    have hcl : w.closed = true := by
      cases hc : w.closed with
      | true => rfl
      | false => have := h.k3 hc; simp [closeFlag, hh] at this
    cases flush with
    | true =>
      simp only [if_true] at hs
      have hnd : w.dropped = false := by
        cases hd : w.dropped with
        | false => rfl
        | true => have := h.k1 hd; simp [closeFlag, hh] at this
      have hcr := q_closeRemaining w.q h.qinv
      generalize w.q.closeRemaining = pr at hs hcr
      obtain ⟨q', items⟩ := pr
      simp only at hcr
      simp only [Option.some.injEq] at hs; subst hs
      have hq'c : q'.closed = true := by
        cases hqc : w.q.closed with
        | false => exact hcr.2.2.2.1 hqc
        | true => exact hcr.2.2.2.2 hqc
      refine ⟨hcr.1, ?_, ?_, ?_, ?_, ?_, h.slow⟩
      · intro hf
        obtain ⟨rest, h1, h2⟩ := h.order hf
        rw [hh] at h1
        refine ⟨[], ?_, fun _ => hcr.2.1.symm⟩
        show w.enq = txq w.tx ++ (if items.isEmpty then Holder.cEnd true else Holder.cWrite items true).inflight ++ []
        rw [h1, h2 hnd, ← hcr.2.2.1]
        cases items <;> simp [Holder.inflight]
      · intro hd; rw [hnd] at hd; cases hd
      · intro _; exact hq'c
      · intro hc; rw [hcl] at hc; cases hc
      · intro _; exact hq'c
    | false =>
      simp only [Bool.false_eq_true, if_false, Option.some.injEq] at hs; subst hs
      have hcq := q_close w.q h.qinv
      refine ⟨hcq.1, ?_, ?_, ?_, ?_, ?_, h.slow⟩
      · intro hf
        obtain ⟨rest, h1, h2⟩ := h.order hf
        rw [hh] at h1
        refine ⟨rest, h1, ?_⟩
        intro hd
        simp only [Bool.or_eq_false_iff, decide_eq_false_iff_not, Nat.not_lt, Nat.le_zero_eq] at hd
        show rest = w.q.close.toList
        rw [hcq.2.1, h2 hd.1]
        exact (q_cnt_zero_iff w.q).mp hd.2
      · intro _; rfl
      · intro _; exact hcq.2.2
      · intro hc; rw [hcl] at hc; cases hc
      · intro _; exact hcq.2.2
  · -- cWrite
    rename_i items flush hh
    split at hs
    · simp only [Option.some.injEq] at hs; subst hs
      exact inv_write h items true true (.cEnd flush) (by rw [hh]; rfl) rfl
        (fun cd => by simp [closeFlag, hh]) (fun _ => by rw [hh]; rfl) _
        ⟨rfl, rfl, rfl, rfl, rfl, by simp, rfl, rfl, rfl⟩
    · simp only [Option.some.injEq] at hs; subst hs
      exact inv_write h items true false (.cEnd flush) (by rw [hh]; rfl) rfl
        (fun cd => by simp [closeFlag, hh]) (fun _ => by rw [hh]; rfl) _
        ⟨rfl, rfl, rfl, rfl, rfl, by simp, rfl, rfl, rfl⟩
  · -- cEnd
    rename_i flush hh
    simp only [Option.some.injEq] at hs; subst hs
    have hqc : w.q.closed = true := h.k2 (Or.inr (by rw [hh]; rfl))
    refine ⟨h.qinv, ?_, ?_, ?_, ?_, h.k5, h.slow⟩
    · intro hf
      obtain ⟨rest, h1, h2⟩ := h.order hf
      rw [hh] at h1
      exact ⟨rest, h1, h2⟩
    · intro hd; have := h.k1 hd; simpa [closeFlag, hh] using this
    · intro _; exact hqc
    · intro hc; have := h.k3 hc; simp [closeFlag, hh] at this

theorem inv_close {c : Cfg} {w w' : W} (h : WInv c w) (flush : Bool)
    (hs : step c w (.close flush) = some w') : WInv c w' := by
  simp only [step] at hs
  split at hs
  · rename_i hfree
    split at hs
    · simp only [Option.some.injEq] at hs; subst hs; exact h
    · rename_i hnc
      simp only [Option.some.injEq] at hs; subst hs
      have hc : w.closed = false := by simpa using hnc
      have hcf := h.k3 hc
      have hnd : w.dropped = false := by
        cases hd : w.dropped with
        | false => rfl
        | true => have := h.k1 hd; rw [hcf] at this; cases this
      refine ⟨h.qinv, ?_, ?_, ?_, ?_, h.k5, h.slow⟩
      · intro hf
        obtain ⟨rest, h1, h2⟩ := h.order hf
        rw [hfree] at h1
        exact ⟨rest, h1, h2⟩
      · intro hd; rw [hnd] at hd; cases hd
      · intro hp
        rcases hp with hp | hp
        · exact h.k2 (Or.inl hp)
        · cases hp
      · intro hx; cases hx
  · simp at hs

theorem inv_step {c : Cfg} {w w' : W} (h : WInv c w) (l : Lbl) (hs : step c w l = some w') : WInv c w' := by
  cases l with
  | add xs many => exact inv_add h xs many hs
  | check i => exact inv_check h i hs
  | sched => exact inv_simple h _ (Or.inl rfl) hs
  | direct x ok => exact inv_direct h x ok hs
  | tick d => exact inv_simple h _ (Or.inr (Or.inl ⟨d, rfl⟩)) hs
  | g choice => exact inv_g h choice hs
  | h ok => exact inv_h h ok hs
  | fire => exact inv_simple h _ (Or.inr (Or.inr (Or.inl rfl))) hs
  | tLock => exact inv_simple h _ (Or.inr (Or.inr (Or.inr (Or.inl rfl)))) hs
  | tFin => exact inv_simple h _ (Or.inr (Or.inr (Or.inr (Or.inr (Or.inl rfl))))) hs
  | close flush => exact inv_close h flush hs
  | shrinkFire => exact inv_simple h _ (Or.inr (Or.inr (Or.inr (Or.inr (Or.inr rfl))))) hs

theorem inv_run {c : Cfg} {w w' : W} (h : WInv c w) (ls : List Lbl) (hs : run c w ls = some w') : WInv c w' := by
  induction ls generalizing w with
  | nil => simp only [run, Option.some.injEq] at hs; subst hs; exact h
  | cons l ls ih =>
    simp only [run] at hs
    split at hs
    · rename_i w1 h1; exact ih (inv_step h l h1) hs
    · simp at hs

theorem inv_reachable {c : Cfg} (hc : 0 < c.initCap) {w : W} (hr : Reachable c w) : WInv c w := by
  obtain ⟨ls, hs⟩ := hr
  exact inv_run (WInv.init c hc) ls hs

/-! ## Timer mode: a queued message always has a flush on its way -/

/-- a flush invocation holds `w.mu` and will still look at the queue -/
def Holder.flushing : Holder → Bool
  | .tStart | .tBuf _ | .tWrite _ | .tAfter false => true
  | _ => false

/-- "something will still flush": an armed flush timer, a fired flush waiting for `w.mu`, a flush in
progress, or a producer that has added but not yet scheduled -/
def covered (w : W) : Prop :=
  w.flushAt.isSome = true ∨ 0 < w.flushPending ∨ w.holder.flushing = true ∨ w.pendCheck ≠ [] ∨ 0 < w.pendSched

structure TInv (w : W) : Prop where
  gdone : w.g = .done
  hnog : w.holder ≠ .gLocked ∧ (∀ n, w.holder ≠ .gBuf n) ∧ (∀ l, w.holder ≠ .gWrite l)
  sched : w.timerScheduled = true → w.closed = false → (w.flushAt.isSome = true ∨ 0 < w.flushPending)
  errFailed : w.holder = .tAfter true → w.failed = true
  live : w.closed = false → w.failed = false → w.slowSeen = false → 0 < w.q.cnt → covered w

theorem TInv.init (c : Cfg) (hm : c.mode = .timer) : TInv (W.init c) := by
  refine ⟨by simp [W.init, hm], by simp [W.init], by simp [W.init], by simp [W.init], ?_⟩
  intro _ _ _ h; simp [W.init, RingQ.new] at h

theorem cnt_of_toList {q q' : RingQ} (h : q'.toList = q.toList) : q'.cnt = q.cnt := by
  rw [RingQ.cnt_eq_length, RingQ.cnt_eq_length, h]

theorem tinv_step {c : Cfg} (hm : c.mode = .timer) {w w' : W} (hw : WInv c w) (h : TInv w) (l : Lbl)
    (hs : step c w l = some w') : TInv w' := by
  obtain ⟨hg, hnog, hsch, herr, hlive⟩ := h
  have hncl : w.closed = false → w.holder ≠ .cStart true ∧ w.holder ≠ .cStart false ∧
      (∀ i f, w.holder ≠ .cWrite i f) ∧ (∀ f, w.holder ≠ .cEnd f) := by
    intro hc
    have := hw.k3 hc
    refine ⟨?_, ?_, ?_, ?_⟩ <;> (intros; intro hh; simp [closeFlag, hh] at this)
  cases l with
  | add xs many =>
    simp only [step] at hs
    split at hs
    · simp only [Option.some.injEq] at hs; subst hs
      exact ⟨hg, hnog, hsch, herr, fun _ _ _ _ => Or.inr (Or.inr (Or.inr (Or.inl (by simp))))⟩
    · simp only [Option.some.injEq] at hs; subst hs
      exact ⟨hg, hnog, hsch, herr, hlive⟩
    · simp at hs
  | check i =>
    simp only [step] at hs
    split at hs
    · simp at hs
    · split at hs
      · simp only [Option.some.injEq] at hs; subst hs
        exact ⟨hg, hnog, hsch, herr, fun _ _ hsl _ => by simp at hsl⟩
      · simp only [Option.some.injEq] at hs; subst hs
        refine ⟨hg, hnog, hsch, herr, fun _ _ _ _ => ?_⟩
        right; right; right; right
        simp [hm]
  | sched =>
    simp only [step] at hs
    split at hs
    · rename_i hen
      simp only [Option.some.injEq] at hs; subst hs
      split
      · rename_i hcond
        simp only [Bool.not_eq_true', Bool.and_eq_true, decide_eq_true_eq] at hcond
        simp only [schedule, hcond.2, Bool.false_eq_true, if_false]
        exact ⟨hg, hnog, fun _ _ => Or.inl rfl, herr, fun _ _ _ _ => Or.inl rfl⟩
      · rename_i hcond
        refine ⟨hg, hnog, hsch, herr, ?_⟩
        intro hc hf hsl hcnt
        have hc' : w.closed = false := hc
        have hts : w.timerScheduled = true := by
          cases hts : w.timerScheduled with
          | true => rfl
          | false => exact absurd (by simp [hc', hts]) hcond
        rcases hsch hts hc with h1 | h1
        · exact Or.inl h1
        · exact Or.inr (Or.inl h1)
    · simp at hs
  | direct x ok =>
    simp only [step, Option.some.injEq] at hs; subst hs
    exact ⟨hg, hnog, hsch, herr, hlive⟩
  | tick d =>
    simp only [step, Option.some.injEq] at hs; subst hs
    exact ⟨hg, hnog, hsch, herr, hlive⟩
  | g choice =>
    simp only [step, gStep, hg] at hs
    simp at hs
  | fire =>
    simp only [step] at hs
    split at hs
    · split at hs
      · simp only [Option.some.injEq] at hs; subst hs
        exact ⟨hg, hnog, fun _ _ => Or.inr (by simp), herr, fun _ _ _ _ => Or.inr (Or.inl (by simp))⟩
      · simp at hs
    · simp at hs
  | tLock =>
    simp only [step] at hs
    split at hs
    · simp only [Option.some.injEq] at hs; subst hs
      exact ⟨hg, by simp, fun hx => by simp at hx, by simp, fun _ _ _ _ => Or.inr (Or.inr (Or.inl rfl))⟩
    · simp at hs
  | tFin =>
    simp only [step] at hs
    split at hs
    · simp only [Option.some.injEq] at hs; subst hs
      have hfc := finishCollect_frame c w hw.qinv
      have hcnt := cnt_of_toList hfc.2.1
      have hother : (finishCollect c w).g = w.g ∧ (finishCollect c w).timerScheduled = w.timerScheduled ∧
          (finishCollect c w).flushAt = w.flushAt ∧ (finishCollect c w).flushPending = w.flushPending ∧
          (finishCollect c w).pendCheck = w.pendCheck ∧ (finishCollect c w).pendSched = w.pendSched ∧
          (finishCollect c w).slowSeen = w.slowSeen := by
        unfold finishCollect; split
        · simp
        · split <;> simp
      obtain ⟨e1, e2, e3, e4, e5, e6, e7⟩ := hother
      refine ⟨by simp [e1, hg], by simpa [hfc.2.2.2.2.2.1] using hnog, ?_, ?_, ?_⟩
      · simp only [e2, e3, e4, hfc.2.2.2.2.2.2.2.2.2.1]; exact hsch
      · simp only [hfc.2.2.2.2.2.1, hfc.2.2.2.2.2.2.2.1]; exact herr
      · simp only [hfc.2.2.2.2.2.2.2.2.2.1, hfc.2.2.2.2.2.2.2.1, e7, hcnt, covered, e3, e4, e5, e6, hfc.2.2.2.2.2.1]
        exact hlive
    · simp at hs
  | shrinkFire =>
    simp only [step] at hs
    split at hs
    · split at hs
      · simp only [Option.some.injEq] at hs; subst hs
        have := q_doShrink w.q hw.qinv
        have hcnt := cnt_of_toList this.2.1
        exact ⟨hg, hnog, hsch, herr, by simp only [hcnt, covered]; exact hlive⟩
      · simp at hs
    · simp at hs
  | close flush =>
    simp only [step] at hs
    split at hs
    · split at hs
      · simp only [Option.some.injEq] at hs; subst hs
        exact ⟨hg, hnog, hsch, herr, hlive⟩
      · simp only [Option.some.injEq] at hs; subst hs
        exact ⟨hg, by simp, fun _ hx => by simp at hx, by simp, fun hx => by simp at hx⟩
    · simp at hs
  | h ok =>
    simp only [step, hStep] at hs
    split at hs
    · simp at hs
    · rename_i hh; exact absurd hh hnog.1
    · rename_i n hh; exact absurd hh (hnog.2.1 n)
    · rename_i l hh; exact absurd hh (hnog.2.2 l)
    · -- tStart
      rename_i hh
      split at hs
      · rename_i h0
        simp only [Option.some.injEq] at hs; subst hs
        exact ⟨hg, by simp, hsch, by simp, fun _ _ _ hc => by simp [h0] at hc⟩
      · simp only [Option.some.injEq] at hs; subst hs
        exact ⟨hg, by simp, hsch, by simp, fun _ _ _ _ => Or.inr (Or.inr (Or.inl rfl))⟩
    · -- tBuf
      rename_i n hh
      have hr := q_removeManyInto w.q hw.qinv n n
      generalize w.q.removeManyInto n n = pr at hs hr
      obtain ⟨q', r⟩ := pr
      cases r with
      | none =>
        simp only [Option.some.injEq] at hs; subst hs
        have h0 : q'.cnt = 0 := (q_cnt_zero_iff q').mpr hr.2.2.2
        exact ⟨hg, by simp, hsch, by simp, fun _ _ _ hc => by simp [h0] at hc⟩
      | some items =>
        simp only [Option.some.injEq] at hs; subst hs
        exact ⟨hg, by simp, hsch, by simp, fun _ _ _ _ => Or.inr (Or.inr (Or.inl rfl))⟩
    · -- tWrite
      rename_i items hh
      split at hs
      · simp only [Option.some.injEq] at hs; subst hs
        exact ⟨hg, by simp, hsch, by simp, fun _ _ _ _ => Or.inr (Or.inr (Or.inl rfl))⟩
      · simp only [Option.some.injEq] at hs; subst hs
        exact ⟨hg, by simp, hsch, by simp, fun _ hf => by simp at hf⟩
    · -- tAfter
      rename_i err hh
      simp only [Option.some.injEq] at hs; subst hs
      split
      · rename_i hcond
        simp only [Bool.not_eq_true', Bool.and_eq_true, decide_eq_true_eq] at hcond
        unfold schedule
        split
        · rename_i hts
          refine ⟨hg, by simp, hsch, by simp, ?_⟩
          intro hc _ _ _
          rcases hsch hts hc with h1 | h1
          · exact Or.inl h1
          · exact Or.inr (Or.inl h1)
        · exact ⟨hg, by simp, fun _ _ => Or.inl rfl, by simp, fun _ _ _ _ => Or.inl rfl⟩
      · rename_i hcond
        refine ⟨hg, by simp, hsch, by simp, ?_⟩
        intro hc hf hsl hcnt
        exfalso
        apply hcond
        have herr' : err = false := by
          cases he : err with
          | false => rfl
          | true => subst he; have := herr hh; simp at hf; rw [this] at hf; cases hf
        simp only [herr', Bool.not_false, Bool.not_eq_true', Bool.and_eq_true, decide_eq_true_eq, true_and]
        simp at hc hcnt
        exact ⟨hcnt, hc⟩
    · -- cStart
      rename_i flush hh
      have hcl : w.closed = true := by
        cases hc : w.closed with
        | true => rfl
        | false => have := (hncl hc); cases flush <;> simp_all
      split at hs
      · generalize w.q.closeRemaining = pr at hs
        obtain ⟨q', items⟩ := pr
        simp only [Option.some.injEq] at hs; subst hs
        refine ⟨hg, ?_, fun _ hx => by simp [hcl] at hx, ?_, fun hx => by simp [hcl] at hx⟩
        · cases hi : items.isEmpty <;> simp [hi]
        · cases hi : items.isEmpty <;> simp [hi]
      · simp only [Option.some.injEq] at hs; subst hs
        exact ⟨hg, by simp, fun _ hx => by simp [hcl] at hx, by simp, fun hx => by simp [hcl] at hx⟩
    · -- cWrite
      rename_i items flush hh
      have hcl : w.closed = true := by
        cases hc : w.closed with
        | true => rfl
        | false => exact absurd hh ((hncl hc).2.2.1 items flush)
      split at hs <;>
      · simp only [Option.some.injEq] at hs; subst hs
        exact ⟨hg, by simp, fun _ hx => by simp [hcl] at hx, by simp, fun hx => by simp [hcl] at hx⟩
    · -- cEnd
      rename_i flush hh
      have hcl : w.closed = true := by
        cases hc : w.closed with
        | true => rfl
        | false => exact absurd hh ((hncl hc).2.2.2 flush)
      simp only [Option.some.injEq] at hs; subst hs
      exact ⟨hg, by simp, fun _ hx => by simp [hcl] at hx, by simp, fun hx => by simp [hcl] at hx⟩

theorem tinv_run {c : Cfg} (hm : c.mode = .timer) {w w' : W} (hw : WInv c w) (h : TInv w) (ls : List Lbl)
    (hs : run c w ls = some w') : TInv w' := by
  induction ls generalizing w with
  | nil => simp only [run, Option.some.injEq] at hs; subst hs; exact h
  | cons l ls ih =>
    simp only [run] at hs
    split at hs
    · rename_i w1 h1; exact ih (inv_step hw l h1) (tinv_step hm hw h l h1) hs
    · simp at hs
end CentrifugeVerif.Writer
