import CentrifugeVerif.Proofs.Recovery
/-!
`RStream.Inv` is an invariant of the hub mini-model (`Model/RecoveryHub.lean`): every operation the
harness drives through the real `MemoryBroker` — publish (any size / TTL), `RemoveHistory`, the two
sweepers (history TTL expiry = clear, meta TTL expiry = delete), and a subscribe with its `History`
accesses and cache-empty handler publishes — preserves it, as long as fewer than `2^64 - 2`
publications were made in total (`nextId` counts them).
-/
namespace CentrifugeVerif.Recovery
open CentrifugeVerif.Merge

/-- hub invariant: the stream (if any) satisfies `RStream.Inv`, its top is below the publication
counter, fresh epochs are non-zero -/
def Hub.HInv (h : Hub) : Prop :=
  0 < h.nextEpoch ∧ 0 < h.nextId ∧ ∀ s, h.stream = some s → s.Inv ∧ s.top < h.nextId

theorem hinv_init (now m l : Nat) : Hub.HInv { now := now, cfgMeta := m, cfgLimit := l } :=
  ⟨Nat.one_pos, Nat.one_pos, by intro s hs; cases hs⟩

theorem touchMeta_same (h : Hub) (m : Nat) :
    (h.touchMeta m).stream = h.stream ∧ (h.touchMeta m).nextId = h.nextId ∧
    (h.touchMeta m).nextEpoch = h.nextEpoch := by
  unfold Hub.touchMeta
  simp only
  repeat' split
  all_goals simp

theorem hinv_touchMeta {h : Hub} (hi : h.HInv) (m : Nat) : (h.touchMeta m).HInv := by
  obtain ⟨h1, h2, h3⟩ := touchMeta_same h m
  unfold Hub.HInv
  rw [h1, h2, h3]; exact hi

/-- a `History` access: the stream it reads satisfies the invariant -/
theorem hinv_access {h : Hub} (hi : h.HInv) (m : Nat) :
    (h.access m).1.HInv ∧ (h.access m).2.Inv ∧ (h.access m).1.stream = some (h.access m).2 ∧
    (h.access m).1.nextId = h.nextId := by
  have ht := hinv_touchMeta hi m
  obtain ⟨_, h2, _⟩ := touchMeta_same h m
  unfold Hub.access
  simp only
  cases hs : (h.touchMeta m).stream with
  | some s => exact ⟨ht, (ht.2.2 s hs).1, hs, h2⟩
  | none =>
    refine ⟨⟨Nat.succ_pos _, ht.2.1, ?_⟩, inv_new _ ht.1, rfl, h2⟩
    intro s hs'
    simp only [Option.some.injEq] at hs'
    subst hs'
    exact ⟨inv_new _ ht.1, ht.2.1⟩

theorem hinv_access_id (h : Hub) (m : Nat) : (h.access m).1.nextId = h.nextId := by
  obtain ⟨_, h2, _⟩ := touchMeta_same h m
  unfold Hub.access
  simp only
  split <;> simp [h2]

theorem hinv_publish {h : Hub} (hi : h.HInv) (tag size ttl m : Nat) (hb : h.nextId + 1 < U64) :
    (h.publish tag size ttl m).1.HInv ∧ (h.publish tag size ttl m).1.nextId = h.nextId + 1 := by
  unfold Hub.publish
  simp only
  generalize hh0 : ({ h with
      expItem := if h.expires.isNone = true then some (h.now + ttl) else h.expItem
      expires := some (h.now + ttl)
      nextExp := if h.nextExp = 0 ∨ h.nextExp > h.now + ttl then h.now + ttl else h.nextExp } : Hub) = h0
  have hi0 : h0.HInv := by subst hh0; exact hi
  have hid0 : h0.nextId = h.nextId := by subst hh0; rfl
  have ht := hinv_touchMeta hi0 m
  obtain ⟨_, h2, _⟩ := touchMeta_same h0 m
  cases hs : (h0.touchMeta m).stream with
  | some s =>
    simp only
    obtain ⟨hsi, hlt⟩ := ht.2.2 s hs
    refine ⟨⟨ht.1, Nat.succ_pos _, ?_⟩, by rw [h2, hid0]⟩
    intro s' hs'
    simp only [Option.some.injEq] at hs'
    subst hs'
    have hb' : s.top + 2 < U64 := by rw [h2, hid0] at hlt; omega
    refine ⟨inv_add hsi hb' _ _ _, ?_⟩
    have : (s.add tag (h0.touchMeta m).nextId size).top = s.top + 1 := by
      simp only [RStream.add]; exact Nat.mod_eq_of_lt hsi.bound
    rw [this]
    show s.top + 1 < (h0.touchMeta m).nextId + 1
    omega
  | none =>
    simp only
    refine ⟨⟨Nat.succ_pos _, Nat.succ_pos _, ?_⟩, by rw [h2, hid0]⟩
    intro s' hs'
    simp only [Option.some.injEq] at hs'
    subst hs'
    have hn := inv_new (h0.touchMeta m).nextEpoch ht.1
    have hb' : (RStream.new (h0.touchMeta m).nextEpoch).top + 2 < U64 := by simp [RStream.new, U64]
    refine ⟨inv_add hn hb' _ _ _, ?_⟩
    have : ((RStream.new (h0.touchMeta m).nextEpoch).add tag (h0.touchMeta m).nextId size).top = 1 := by
      simp [RStream.add, RStream.new, U64]
    rw [this]
    show 1 < (h0.touchMeta m).nextId + 1
    have := ht.2.1
    omega

theorem hinv_remove {h : Hub} (hi : h.HInv) : h.remove.HInv := by
  refine ⟨hi.1, hi.2.1, ?_⟩
  intro s hs
  simp only [Hub.remove, Option.map_eq_some_iff] at hs
  obtain ⟨s0, hs0, rfl⟩ := hs
  exact ⟨inv_clear (hi.2.2 s0 hs0).1, (hi.2.2 s0 hs0).2⟩

/-- a sweeper wake-up leaves the stream alone, clears it, or deletes it -/
theorem sweepExpire_cases (h : Hub) (t : Nat) :
    (h.sweepExpire t).nextEpoch = h.nextEpoch ∧ (h.sweepExpire t).nextId = h.nextId ∧
    ((h.sweepExpire t).stream = h.stream ∨ (h.sweepExpire t).stream = h.stream.map RStream.clear) := by
  unfold Hub.sweepExpire
  repeat' split
  all_goals simp

theorem sweepRemove_cases (h : Hub) (t : Nat) :
    (h.sweepRemove t).nextEpoch = h.nextEpoch ∧ (h.sweepRemove t).nextId = h.nextId ∧
    ((h.sweepRemove t).stream = h.stream ∨ (h.sweepRemove t).stream = none) := by
  unfold Hub.sweepRemove
  repeat' split
  all_goals simp

theorem hinv_tick {h : Hub} (hi : h.HInv) : h.tick.HInv := by
  unfold Hub.tick
  simp only
  generalize hh0 : ({ h with now := h.now + 1 } : Hub) = h0
  have hi0 : h0.HInv := by subst hh0; exact hi
  obtain ⟨e1, e2, e3⟩ := sweepExpire_cases h0 (h.now + 1)
  have hi1 : (h0.sweepExpire (h.now + 1)).HInv := by
    refine ⟨by rw [e1]; exact hi0.1, by rw [e2]; exact hi0.2.1, ?_⟩
    intro s hs
    rw [e2]
    rcases e3 with e3 | e3
    · rw [e3] at hs; exact hi0.2.2 s hs
    · rw [e3, Option.map_eq_some_iff] at hs
      obtain ⟨s0, hs0, rfl⟩ := hs
      exact ⟨inv_clear (hi0.2.2 s0 hs0).1, (hi0.2.2 s0 hs0).2⟩
  obtain ⟨r1, r2, r3⟩ := sweepRemove_cases (h0.sweepExpire (h.now + 1)) (h.now + 1)
  refine ⟨by rw [r1]; exact hi1.1, by rw [r2]; exact hi1.2.1, ?_⟩
  intro s hs
  rw [r2]
  rcases r3 with r3 | r3
  · rw [r3] at hs; exact hi1.2.2 s hs
  · rw [r3] at hs; cases hs

theorem tick_nextId (h : Hub) : h.tick.nextId = h.nextId := by
  unfold Hub.tick
  simp only
  rw [(sweepRemove_cases _ _).2.1, (sweepExpire_cases _ _).2.1]

theorem publish_nextId (h : Hub) (tag size ttl m : Nat) :
    (h.publish tag size ttl m).1.nextId = h.nextId + 1 := by
  unfold Hub.publish; simp only; split <;> simp [(touchMeta_same _ _).2.1]

theorem handlerPubs_mono (g : Hub) (pass : Pub → Bool) (xs : List (Nat × Nat × Nat)) :
    g.nextId ≤ (g.handlerPubs pass xs).1.nextId := by
  induction xs generalizing g with
  | nil => exact Nat.le_refl _
  | cons y ys ih =>
    obtain ⟨t, sz, tl⟩ := y
    simp only [Hub.handlerPubs]
    have h1 := publish_nextId g t sz tl 0
    have := ih (g.publish t sz tl 0).1
    omega

theorem hinv_handlerPubs {h : Hub} (hi : h.HInv) (pass : Pub → Bool) (pubs : List (Nat × Nat × Nat))
    (hb : (h.handlerPubs pass pubs).1.nextId + 1 < U64) :
    (h.handlerPubs pass pubs).1.HInv := by
  induction pubs generalizing h with
  | nil => exact hi
  | cons x xs ih =>
    obtain ⟨tag, size, ttl⟩ := x
    simp only [Hub.handlerPubs] at hb ⊢
    have hid := publish_nextId h tag size ttl 0
    have hm := handlerPubs_mono (h.publish tag size ttl 0).1 pass xs
    have hb1 : h.nextId + 1 < U64 := by omega
    exact ih (hinv_publish hi tag size ttl 0 hb1).1 hb

theorem windowEvents_mono (g : Hub) (s1 : RStream) (pass : Pub → Bool) (xs : List WEvent) :
    g.nextId ≤ (g.windowEvents s1 pass xs).1.nextId := by
  induction xs generalizing g with
  | nil => exact Nat.le_refl _
  | cons y ys ih =>
    cases y with
    | pub t sz tl =>
      simp only [Hub.windowEvents]
      have h1 := publish_nextId g t sz tl 0
      have := ih (g.publish t sz tl 0).1
      omega
    | stale k =>
      simp only [Hub.windowEvents]
      split <;> exact ih g

theorem hinv_windowEvents {h : Hub} (hi : h.HInv) (s1 : RStream) (pass : Pub → Bool) (xs : List WEvent)
    (hb : (h.windowEvents s1 pass xs).1.nextId + 1 < U64) :
    (h.windowEvents s1 pass xs).1.HInv := by
  induction xs generalizing h with
  | nil => exact hi
  | cons x xs ih =>
    cases x with
    | pub tag size ttl =>
      simp only [Hub.windowEvents] at hb ⊢
      have hid := publish_nextId h tag size ttl 0
      have hm := windowEvents_mono (h.publish tag size ttl 0).1 s1 pass xs
      have hb1 : h.nextId + 1 < U64 := by omega
      exact ih (hinv_publish hi tag size ttl 0 hb1).1 hb
    | stale k =>
      simp only [Hub.windowEvents] at hb ⊢
      cases hf : s1.log.find? (fun p => p.offset + k == s1.top) <;> simp only [hf] at hb ⊢ <;> exact ih hi hb

/-- the operations the harness performs -/
inductive HubOp
  | publish (tag size ttl : Nat)
  | remove
  | tick
  | subscribe (sp : SubParams)

def Hub.step (h : Hub) : HubOp → Hub
  | .publish tag size ttl => (h.publish tag size ttl 0).1
  | .remove => h.remove
  | .tick => h.tick
  | .subscribe sp => (h.subscribe sp).hub

def Hub.run (h : Hub) (ops : List HubOp) : Hub := ops.foldl Hub.step h

theorem subscribe_hub_cases (h : Hub) (sp : SubParams) :
    (h.subscribe sp).hub = (h.access 0).1 ∨
    (∃ pubs, (h.subscribe sp).hub = (((h.access 0).1.handlerPubs sp.filt.pass pubs).1.access 0).1) ∨
    (h.subscribe sp).hub = ((h.access 0).1.windowEvents (h.access 0).2 sp.filt.pass sp.window).1 := by
  unfold Hub.subscribe
  simp only
  split
  · split <;> exact Or.inr (Or.inr rfl)
  · split
    · exact Or.inl rfl
    · split
      · exact Or.inr (Or.inl ⟨_, rfl⟩)
      · exact Or.inl rfl

theorem step_mono (h : Hub) (op : HubOp) : h.nextId ≤ (h.step op).nextId := by
  cases op with
  | publish tag size ttl => simp only [Hub.step]; rw [publish_nextId]; omega
  | remove => exact Nat.le_refl _
  | tick => simp only [Hub.step]; rw [tick_nextId]; exact Nat.le_refl _
  | subscribe sp =>
    simp only [Hub.step]
    rcases subscribe_hub_cases h sp with e | ⟨pubs, e⟩ | e
    · rw [e, (hinv_access_id h 0)]; exact Nat.le_refl _
    · rw [e, hinv_access_id]
      have := handlerPubs_mono (h.access 0).1 sp.filt.pass pubs
      rw [hinv_access_id] at this
      exact this
    · rw [e]
      have := windowEvents_mono (h.access 0).1 (h.access 0).2 sp.filt.pass sp.window
      rw [hinv_access_id] at this
      exact this

/-- **every operation preserves the invariant** (while the publication counter stays below 2^64-1) -/
theorem hinv_step {h : Hub} (hi : h.HInv) (op : HubOp) (hb : (h.step op).nextId + 1 < U64) :
    (h.step op).HInv := by
  cases op with
  | publish tag size ttl =>
    simp only [Hub.step] at hb ⊢
    rw [publish_nextId] at hb
    exact (hinv_publish hi tag size ttl 0 (by omega)).1
  | remove => exact hinv_remove hi
  | tick => exact hinv_tick hi
  | subscribe sp =>
    simp only [Hub.step] at hb ⊢
    rcases subscribe_hub_cases h sp with e | ⟨pubs, e⟩ | e
    · rw [e]; exact (hinv_access hi 0).1
    · rw [e] at hb ⊢
      rw [hinv_access_id] at hb
      exact (hinv_access (hinv_handlerPubs (hinv_access hi 0).1 _ pubs hb) 0).1
    · rw [e] at hb ⊢
      exact hinv_windowEvents (hinv_access hi 0).1 _ _ _ hb

/-- **every reachable hub state satisfies the invariant**: any sequence of operations from any
state satisfying it (in particular the initial one) -/
theorem hinv_run (ops : List HubOp) {h : Hub} (hi : h.HInv) (hb : (h.run ops).nextId + 1 < U64) :
    (h.run ops).HInv := by
  induction ops generalizing h with
  | nil => exact hi
  | cons op rest ih =>
    simp only [Hub.run, List.foldl_cons] at hb ⊢
    have hmono : ∀ (g : Hub) (l : List HubOp), g.nextId ≤ (l.foldl Hub.step g).nextId := by
      intro g l
      induction l generalizing g with
      | nil => exact Nat.le_refl _
      | cons o os iho =>
        simp only [List.foldl_cons]
        exact Nat.le_trans (step_mono g o) (iho (g.step o))
    have h1 := hmono (h.step op) rest
    exact ih (hinv_step hi op (by omega)) hb

/-- the stream a subscribe reads in a reachable state satisfies `RStream.Inv` — the hypothesis of
the C02 / C03 theorems -/
theorem reachable_read_inv (ops : List HubOp) (now m l : Nat)
    (hb : ((Hub.run { now := now, cfgMeta := m, cfgLimit := l } ops)).nextId + 1 < U64) (mt : Nat) :
    ((Hub.run { now := now, cfgMeta := m, cfgLimit := l } ops).access mt).2.Inv :=
  (hinv_access (hinv_run ops (hinv_init now m l) hb) mt).2.1

end CentrifugeVerif.Recovery
