import CentrifugeVerif.Model.HTTPStream
/-!
Helper lemmas for C32 (HTTP-stream): LF-terminated records and varint length prefixes.
-/
namespace CentrifugeVerif.C32
open CentrifugeVerif.EventSource CentrifugeVerif.HTTPStream

/-- no message contains a raw LF byte -/
def NoRawLF (msgs : List Bytes) : Prop := ∀ m ∈ msgs, ∀ b ∈ m, b ≠ 10

theorem splitAcc_plain (m rest acc : Bytes) (hm : ∀ b ∈ m, b ≠ 10) :
    Lines.splitAcc (m ++ 10 :: rest) acc = (acc.reverse ++ m) :: Lines.splitAcc rest [] := by
  induction m generalizing acc with
  | nil => simp [Lines.splitAcc]
  | cons x xs ih =>
    have hx : x ≠ 10 := hm x (by simp)
    simp only [List.cons_append, Lines.splitAcc]
    simp only [beq_iff_eq, hx, if_false]
    rw [ih _ (fun b hb => hm b (by simp [hb]))]
    simp

theorem readUvarint_uvarintAux (f : Nat) : ∀ (n mult acc : Nat) (rest : Bytes), n ≤ f →
    Varint.readUvarint (uvarintAux f n ++ rest) mult acc = some (acc + n * mult, rest) := by
  induction f with
  | zero =>
    intro n mult acc rest h
    have : n = 0 := by omega
    subst this
    simp [uvarintAux, Varint.readUvarint]
  | succ f ih =>
    intro n mult acc rest h
    unfold uvarintAux
    by_cases hn : n < 128
    · have h256 : n % 256 = n := Nat.mod_eq_of_lt (by omega)
      simp [hn, Varint.readUvarint, h256]
    · have h256 : (n % 128 + 128) % 256 = n % 128 + 128 := Nat.mod_eq_of_lt (by omega)
      have hlt : ¬ (n % 128 + 128 < 128) := by omega
      simp only [hn, if_false, List.cons_append, Varint.readUvarint, UInt8.toNat_ofNat', h256, hlt]
      rw [ih (n / 128) (mult * 128) _ rest (by omega)]
      congr 2
      have hd := Nat.div_add_mod n 128
      have : n * mult = (128 * (n / 128) + n % 128) * mult := by rw [hd]
      rw [this, Nat.add_mul, Nat.add_sub_cancel]
      have : n / 128 * (mult * 128) = 128 * (n / 128) * mult := by
        rw [Nat.mul_comm mult 128, ← Nat.mul_assoc, Nat.mul_comm (n / 128) 128]
      rw [this]
      omega

theorem readUvarint_uvarint (n : Nat) (rest : Bytes) :
    Varint.readUvarint (uvarint n ++ rest) 1 0 = some (n, rest) := by
  unfold uvarint
  rw [readUvarint_uvarintAux n n 1 0 rest (Nat.le_refl n)]
  simp

theorem uvarintAux_ne_nil (f n : Nat) : uvarintAux f n ≠ [] := by
  cases f <;> simp [uvarintAux] <;> split <;> simp

theorem decodeFramesAux_body (msgs : List Bytes) : ∀ f, (protoBody msgs).length ≤ f →
    Varint.decodeFramesAux f (protoBody msgs) = some msgs := by
  induction msgs with
  | nil => intro f _; cases f <;> simp [protoBody, Varint.decodeFramesAux]
  | cons m ms ih =>
    intro f hf
    have hbody : protoBody (m :: ms) = uvarint m.length ++ (m ++ protoBody ms) := by
      simp [protoBody]
    rw [hbody] at hf ⊢
    have hne : uvarint m.length ≠ [] := uvarintAux_ne_nil _ _
    cases hu : uvarint m.length with
    | nil => exact absurd hu hne
    | cons b bs =>
      cases f with
      | zero => simp [hu] at hf
      | succ f =>
        simp only [List.cons_append, Varint.decodeFramesAux]
        have := readUvarint_uvarint m.length (m ++ protoBody ms)
        rw [hu] at this
        simp only [List.cons_append] at this
        rw [this]
        have hlen : ¬ ((m ++ protoBody ms).length < m.length) := by simp
        simp only [hlen, if_false, List.drop_left', List.take_left']
        rw [ih f (by simp [hu] at hf; omega)]
        simp

end CentrifugeVerif.C32
