import CentrifugeVerif.Proofs.SubProtoPc
/-!
Layer 2 of the no-timeout invariants (`L2`): a subscribe attempt in its holding range finds its own
reservation in `c.channels` (D); an unsubscribe only ever deletes a subscribed entry (F, W); a closed wait
gate belongs to no reservation (G); what a subscribe attempt knows about the gate it captured and about
the fate of its generation (K1-K3); every reservation has a live owner (A).
-/
namespace CentrifugeVerif.SubProto

theorem step_chanDel (s : State) (tid : Tid) (t t' : Thread) (o : Outcome) (effs : List Eff)
    (hs : stepThread s tid t o = some (effs, t')) (ch : Chan) (hm : Eff.chanDel ch ∈ effs) :
    ch = t.ch ∧ ∃ e0, aget s.channels t.ch = some e0 ∧
      ((t.pc = .sCommit ∧ e0.gen = t.cmdGen) ∨ (t.pc = .sErrDel ∧ e0.gen = t.resGen) ∨
       (t.pc = .uRemove ∧ e0.gen = t.target)) := by
  step_cases hs <;> simp_all

theorem step_reserve_none (s : State) (tid : Tid) (t t' : Thread) (o : Outcome) (effs : List Eff)
    (hs : stepThread s tid t o = some (effs, t')) (ch : Chan) (e : Entry) (hm : Eff.chanSet ch e ∈ effs)
    (hp : t.pc = .sReserve) : aget s.channels t.ch = none := by
  step_cases hs <;> simp_all

theorem channels_applyEffs_frame (es : List Eff) (s : State) (ch : Chan)
    (h1 : ∀ e, Eff.chanSet ch e ∉ es) (h2 : Eff.chanDel ch ∉ es) :
    aget (applyEffs s es).channels ch = aget s.channels ch := by
  induction es generalizing s with
  | nil => rfl
  | cons x r ih =>
    rw [applyEffs_cons, ih]
    · cases x with
      | chanSet ch' e' =>
        have : ch' ≠ ch := by
          intro hc; subst hc; exact h1 e' (by simp)
        simp [aget_aset, this]
      | chanDel ch' =>
        have : ch' ≠ ch := by
          intro hc; subst hc; exact h2 (by simp)
        simp [aget_adel, this]
      | _ => simp
    · intro e he; exact h1 e (List.mem_cons_of_mem _ he)
    · intro he; exact h2 (List.mem_cons_of_mem _ he)

theorem step_closeGate_nt (s : State) (tid : Tid) (t t' : Thread) (o : Outcome) (effs : List Eff)
    (hs : stepThread s tid t o = some (effs, t')) (hnt : o ≠ .tmo) (g : Gen) (hm : Eff.closeGate g ∈ effs) :
    (t.capGate = some g ∧ (closeGatePc t.pc = true ∨ t.pc = .sRbClose ∨ t.pc = .sErrClose)) ∨
    (t.pc = .uRemove ∧ ∃ e0, aget s.channels t.ch = some e0 ∧ e0.gen = t.target ∧ e0.gate = some g) := by
  step_cases hs <;> simp_all

theorem step_D_self (s : State) (tid : Tid) (t t' : Thread) (o : Outcome) (effs : List Eff)
    (hs : stepThread s tid t o = some (effs, t')) (hnt : o ≠ .tmo)
    (hD : holdPc t.pc = true → ∃ e, aget s.channels t.ch = some e ∧ e.gen = t.resGen ∧ e.subscribed = false ∧
      (cmdPc t.pc = true → t.cmdGen = t.resGen))
    (hgen : ∀ e, aget s.channels t.ch = some e → e.gen ≠ 0)
    (hh : holdPc t'.pc = true) :
    ∃ e, aget (after s tid t' effs).channels t'.ch = some e ∧ e.gen = t'.resGen ∧ e.subscribed = false ∧
      (cmdPc t'.pc = true → t'.cmdGen = t'.resGen) := by
  step_cases hs <;> simp_all [after, aget_aset, aget_adel, Entry.reservation, notCommitted, unsubReturn, afterHubRm]

/-- unsubscribe: at the wait gate it waits for the gate of its target generation; when it is about to
delete, an entry carrying the target generation is a subscribed one -/
theorem step_FW_self (s : State) (tid : Tid) (t t' : Thread) (o : Outcome) (effs : List Eff)
    (hs : stepThread s tid t o = some (effs, t')) (hnt : o ≠ .tmo)
    (hshape : ∀ e, aget s.channels t.ch = some e → e.subscribed = false → e.gate = some e.gen ∧ e.serverSide = false)
    (hG : ∀ e, aget s.channels t.ch = some e → e.subscribed = false → e.gen ∉ s.closedGates)
    (hW : waitPc t.pc = true → t.capGate = some t.target)
    (hF : removePc t.pc = true → ∀ e, aget s.channels t.ch = some e → e.gen = t.target → e.subscribed = true) :
    (waitPc t'.pc = true → t'.capGate = some t'.target) ∧
    (removePc t'.pc = true → ∀ e, aget (after s tid t' effs).channels t'.ch = some e → e.gen = t'.target → e.subscribed = true) := by
  step_cases hs <;> simp_all [after, aget_aset, aget_adel, notCommitted, unsubReturn, afterHubRm]
  all_goals (try intro hgen)
  all_goals (rw [← Bool.not_eq_false]; intro hc; simp_all)

set_option maxHeartbeats 1000000 in
theorem step_K1_self (s : State) (tid : Tid) (t t' : Thread) (o : Outcome) (effs : List Eff)
    (hs : stepThread s tid t o = some (effs, t')) (hnt : o ≠ .tmo)
    (hshape : ∀ e, aget s.channels t.ch = some e → e.subscribed = false → e.gate = some e.gen)
    (hD : holdPc t.pc = true → ∃ e, aget s.channels t.ch = some e ∧ e.gen = t.resGen ∧ e.subscribed = false ∧
      (cmdPc t.pc = true → t.cmdGen = t.resGen))
    (hp : closeGatePc t'.pc = true) :
    t'.cmdGen = t'.resGen ∧ (∀ g, t'.capGate = some g → g = t'.resGen) ∧
      (∀ e, aget (after s tid t' effs).channels t'.ch = some e → e.gen = t'.resGen → e.subscribed = true) := by
  step_cases hs <;> simp_all [after, aget_aset, aget_adel, notCommitted, unsubReturn, afterHubRm]

set_option maxHeartbeats 1000000 in
theorem step_K2_self (s : State) (tid : Tid) (t t' : Thread) (o : Outcome) (effs : List Eff)
    (hs : stepThread s tid t o = some (effs, t')) (hnt : o ≠ .tmo)
    (hshape : ∀ e, aget s.channels t.ch = some e → e.subscribed = false → e.gate = some e.gen)
    (hD : holdPc t.pc = true → ∃ e, aget s.channels t.ch = some e ∧ e.gen = t.resGen ∧ e.subscribed = false ∧
      (cmdPc t.pc = true → t.cmdGen = t.resGen))
    (hK : rbPc t.pc = true → t.cmdGen = t.resGen ∧ (∀ g, t.capGate = some g → g = t.resGen) ∧
      (∀ e, aget s.channels t.ch = some e → e.gen ≠ t.resGen))
    (hp : rbPc t'.pc = true) :
    t'.cmdGen = t'.resGen ∧ (∀ g, t'.capGate = some g → g = t'.resGen) ∧
      (∀ e, aget (after s tid t' effs).channels t'.ch = some e → e.gen ≠ t'.resGen) := by
  step_cases hs <;> simp_all [after, aget_aset, aget_adel, notCommitted, unsubReturn, afterHubRm]

set_option maxHeartbeats 1000000 in
theorem step_K3_self (s : State) (tid : Tid) (t t' : Thread) (o : Outcome) (effs : List Eff)
    (hs : stepThread s tid t o = some (effs, t')) (hnt : o ≠ .tmo)
    (hgate : ∀ e, aget s.channels t.ch = some e → ∀ g, e.gate = some g → g = e.gen)
    (hK : errPc t.pc = true → (∀ g, t.capGate = some g → g = t.resGen) ∧ (∀ e, aget s.channels t.ch = some e → e.gen ≠ t.resGen))
    (hp : errPc t'.pc = true) :
    (∀ g, t'.capGate = some g → g = t'.resGen) ∧
      (∀ e, aget (after s tid t' effs).channels t'.ch = some e → e.gen ≠ t'.resGen) := by
  step_cases hs <;> simp_all [after, aget_aset, aget_adel, notCommitted, unsubReturn, afterHubRm]

/-- the owner of a reservation keeps owning it as long as the reservation is in `c.channels` unchanged -/
theorem step_A_self (s : State) (tid : Tid) (t t' : Thread) (o : Outcome) (effs : List Eff)
    (hs : stepThread s tid t o = some (effs, t')) (hnt : o ≠ .tmo)
    (hD : cmdPc t.pc = true → t.cmdGen = t.resGen)
    (e : Entry) (hp : holderPc t.pc = true) (he : aget s.channels t.ch = some e) (hg : e.gen = t.resGen)
    (hsb : e.subscribed = false) (he' : aget (after s tid t' effs).channels t.ch = some e) :
    t'.ch = t.ch ∧ t'.resGen = t.resGen ∧ holderPc t'.pc = true := by
  step_cases hs <;> simp_all [after, aget_aset, aget_adel, notCommitted, unsubReturn, afterHubRm]
  all_goals (subst he'; simp at hsb)

theorem step_A_new (s : State) (tid : Tid) (t t' : Thread) (o : Outcome) (effs : List Eff)
    (hs : stepThread s tid t o = some (effs, t')) (hp : t.pc = .sReserve) (ch : Chan) (e : Entry)
    (hm : Eff.chanSet ch e ∈ effs) : t'.ch = t.ch ∧ t'.resGen = e.gen ∧ holderPc t'.pc = true := by
  step_cases hs <;> simp_all [Entry.reservation]

end CentrifugeVerif.SubProto
