import CentrifugeVerif.Proofs.SubProtoNT5
/-!
Layer 3 of the no-timeout invariants (`L3`): the hub.

* `Hd`      — once an unsubscribe deleted its target entry, no entry carries that generation again;
* `HubHeld` — between its hub add and its commit a subscribe attempt finds its generation in the hub;
* `B`       — `gen_consistency`: a hub entry `(ch, g)` exists only if `c.channels[ch]` carries `g` or a
              live rollback / unsubscribe still owes the removal of `g`;
* `C`       — a subscribed `c.channels` entry has its hub entry, with the same generation.
-/
namespace CentrifugeVerif.SubProto

structure L3 (s : State) : Prop where
  Hd : ∀ x t, aget s.threads x = some t → postDelPc t.pc = true →
    ∀ e, aget s.channels t.ch = some e → e.gen ≠ t.target
  HubHeld : ∀ x t, aget s.threads x = some t → hubHeldPc t.pc = true → aget s.hub t.ch = some t.cmdGen
  B : ∀ ch g, aget s.hub ch = some g →
    (∃ e, aget s.channels ch = some e ∧ e.gen = g) ∨ ∃ x t, aget s.threads x = some t ∧ t.ch = ch ∧ owesP t g
  C : ∀ ch e, aget s.channels ch = some e → e.subscribed = true → aget s.hub ch = some e.gen

theorem L3.init : L3 State.init := by
  constructor <;> simp [State.init, aget]

theorem holdPc_of_hubHeldPc (pc : Pc) (h : hubHeldPc pc = true) : holdPc pc = true := by
  cases pc <;> simp_all
theorem cmdPc_of_hubHeldPc (pc : Pc) (h : hubHeldPc pc = true) : cmdPc pc = true := by
  cases pc <;> simp_all
theorem postDelPc_of_owesHubPc (pc : Pc) (h : owesHubPc pc = true) : postDelPc pc = true := by
  cases pc <;> simp_all
theorem rbPc_of_rbHubPc (pc : Pc) (h : rbHubPc pc = true) : rbPc pc = true := by
  cases pc <;> simp_all
theorem errPc_of_errHubPc (pc : Pc) (h : errHubPc pc = true) : errPc pc = true := by
  cases pc <;> simp_all

/-- A thread other than the stepping one keeps the hub entry of its own reservation / generation:
no step of another thread sets or removes the hub entry `(ch, g)` when `g` is the generation of a
reservation held by `x` in `c.channels`. -/
theorem hub_of_reservation_stable (s : State) (hg : Ghost s) (h1 : L1 s) (h2 : L2 s) (h3 : L3 s) (tid : Tid)
    (t t' : Thread) (o : Outcome) (effs : List Eff) (hget : aget s.threads tid = some t)
    (hst : stepThread s tid t o = some (effs, t')) (x : Tid) (tx : Thread) (hx : aget s.threads x = some tx)
    (hne : x ≠ tid) (e : Entry) (he : aget s.channels tx.ch = some e) (hgen : e.gen = tx.resGen)
    (hsb : e.subscribed = false) (hhub : aget s.hub tx.ch = some tx.resGen) :
    aget (after s tid t' effs).hub tx.ch = some tx.resGen := by
  have hnz : tx.resGen ≠ 0 := by rw [← hgen]; exact hg.entGen _ _ he
  refine hub_applyEffs_keep effs { s with threads := setThread s.threads tid t' } _ _ ?_ ?_ hhub
  · intro g' hm
    obtain ⟨hch, _, hp⟩ := step_hubSet s tid t t' o effs hst _ _ hm
    obtain ⟨e1, he1, hg1, _, _⟩ := h2.D tid t hget (by simp [hp])
    rw [hch] at he; rw [he] at he1; cases he1
    exact hne (h1.uniq x tid tx t hx hget hnz (by rw [← hgen, hg1]))
  · intro hm
    obtain ⟨hch, hc⟩ := step_hubDel s tid t t' o effs hst _ _ hm
    rw [hch] at he
    rcases hc with ⟨hp, hgq⟩ | ⟨hp, hgq⟩ | ⟨hp, hgq⟩ | ⟨hp, hgq⟩
    · obtain ⟨e1, he1, hg1, _, _⟩ := h2.D tid t hget (by simp [hp])
      rw [he] at he1; cases he1
      exact hne (h1.uniq x tid tx t hx hget hnz (by rw [← hgen, hg1]))
    · obtain ⟨_, _, ke⟩ := h2.K2 tid t hget (by simp [hp])
      exact ke e he (by rw [hgen, hgq]; exact (h2.K2 tid t hget (by simp [hp])).1)
    · obtain ⟨_, ke⟩ := h2.K3 tid t hget (by simp [hp])
      exact ke e he (by rw [hgen, hgq])
    · exact h3.Hd tid t hget (by simp [hp]) e he (by rw [hgen, hgq])

theorem next_L3 (s s' : State) (l : Label) (hg : Ghost s) (h1 : L1 s) (h2 : L2 s) (h3 : L3 s)
    (hl : l.noTmo = true) (hn : next s l = some s') : L3 s' := by
  cases l with
  | spawn k ch o =>
    simp only [next, Option.some.injEq] at hn
    subst hn
    have hnew : ∀ x u, aget (s.threads ++ [(s.nextTid, ({ kind := k, ch := ch, opts := o, pc := initPc k } : Thread))]) x = some u →
        aget s.threads x = some u ∨ u = { kind := k, ch := ch, opts := o, pc := initPc k } := by
      intro x u hx
      cases hs : aget s.threads x with
      | some v => rw [aget_append_some _ _ _ _ hs] at hx; cases hx; exact Or.inl rfl
      | none =>
        right
        have hm := aget_mem _ _ _ hx
        simp only [List.mem_append, List.mem_singleton] at hm
        rcases hm with hm | hm
        · exact absurd (List.mem_map_of_mem (f := (·.1)) hm) ((aget_none_iff _ _).mp hs)
        · cases hm; rfl
    refine ⟨?_, ?_, ?_, h3.C⟩
    · intro x u hx hp
      rcases hnew x u hx with h | h
      · exact h3.Hd x u h hp
      · subst h; cases k <;> simp [initPc] at hp
    · intro x u hx hp
      rcases hnew x u hx with h | h
      · exact h3.HubHeld x u h hp
      · subst h; cases k <;> simp [initPc] at hp
    · intro c g hh
      rcases h3.B c g hh with h | ⟨x, u, hx, hr⟩
      · exact Or.inl h
      · exact Or.inr ⟨x, u, aget_append_some _ _ _ _ hx, hr⟩
  | step tid o =>
    have hnt : o ≠ .tmo := by
      intro ho; subst ho; simp [Label.noTmo] at hl
    obtain ⟨t, effs, t', hget, hst, rfl⟩ := next_step_some hn
    have hent : ∀ c e, aget (after s tid t' effs).channels c = some e →
        aget s.channels c = some e ∨ (c = t.ch ∧
          ((t.pc = .sReserve ∧ e = Entry.reservation (s.genCounter + 1) ∧ aget s.channels t.ch = none) ∨
           (t.pc = .sCommit ∧ e.subscribed = true ∧ e.gen = t.cmdGen ∧ ∃ e0, aget s.channels t.ch = some e0 ∧ e0.gen = t.cmdGen))) := by
      intro c e he
      rcases channels_applyEffs _ _ _ _ he with h | h
      · exact Or.inl h
      · exact Or.inr (new_entry_cases s hg tid t t' o effs hst hnt c e h)
    refine ⟨?_, ?_, ?_, ?_⟩
    · -- Hd
      intro x u hx hp e he hgen
      rcases aget_threads_after s tid t t' effs x u hget hx with ⟨_, hxo⟩ | ⟨_, hue⟩ | hue
      · rcases hent _ e he with h | ⟨hch, h⟩
        · exact h3.Hd x u hxo hp e h hgen
        · rcases h with ⟨_, hre, _⟩ | ⟨_, _, hgc, e0, he0, hg0⟩
          · have hb := (h1.thrBound x u hxo).2.2.1
            rw [← hgen, hre] at hb
            exact res_gen_gt _ hb
          · exact h3.Hd x u hxo hp e0 (by rw [hch]; exact he0) (by rw [hg0, ← hgc, hgen])
      · rw [hue] at hp he hgen
        exact step_Hd_self s tid t t' o effs hst hnt (h3.Hd tid t hget) hp e he hgen
      · rw [hue] at hp; simp [autoClose] at hp
    · -- HubHeld
      intro x u hx hp
      rcases aget_threads_after s tid t t' effs x u hget hx with ⟨hne, hxo⟩ | ⟨_, hue⟩ | hue
      · obtain ⟨e, he, hgen, hsb, hc⟩ := h2.D x u hxo (holdPc_of_hubHeldPc _ hp)
        have hcm := hc (cmdPc_of_hubHeldPc _ hp)
        have := hub_of_reservation_stable s hg h1 h2 h3 tid t t' o effs hget hst x u hxo hne e he hgen hsb
          (by rw [← hcm]; exact h3.HubHeld x u hxo hp)
        rw [hcm]; exact this
      · rw [hue] at hp ⊢
        exact step_HubHeld_self s tid t t' o effs hst hnt (h3.HubHeld tid t hget) hp
      · rw [hue] at hp; simp [autoClose] at hp
    · -- B (gen_consistency)
      intro c g hh
      -- the thread that deletes an entry of generation `g` owes the hub removal afterwards
      have hdeleter : ∀ e0, aget s.channels c = some e0 → e0.gen = g → Eff.chanDel c ∈ effs →
          ∃ x u, aget (after s tid t' effs).threads x = some u ∧ u.ch = c ∧ owesP u g := by
        intro e0 he0 hg0 hm
        obtain ⟨hch, e1, he1, hc⟩ := step_chanDel s tid t t' o effs hst c hm
        obtain ⟨r1, r2, r3, hn⟩ := step_chanDel_next s tid t t' o effs hst c hm
        rw [hch] at he0; rw [he0] at he1; cases he1
        refine ⟨tid, t', aget_threads_after_self s tid t t' effs hget, by rw [r1, hch], ?_⟩
        rcases hc with ⟨hp, hgq⟩ | ⟨hp, hgq⟩ | ⟨hp, hgq⟩ <;> rcases hn with ⟨hp', hn⟩ | ⟨hp', hn⟩ | ⟨hp', hn⟩ <;>
          (try (rw [hp] at hp'; cases hp'))
        · obtain ⟨e2, he2, hg2, _, hc2⟩ := h2.D tid t hget (by simp [hp])
          rw [he0] at he2; cases he2
          exact Or.inl ⟨hn, by rw [r2, ← hg2, hg0]⟩
        · exact Or.inr (Or.inl ⟨hn, by rw [r2, ← hgq, hg0]⟩)
        · exact Or.inr (Or.inr ⟨hn, by rw [r3, ← hgq, hg0]⟩)
      -- an old justification by a `c.channels` entry of generation `g`
      have hentry : ∀ e0, aget s.channels c = some e0 → e0.gen = g →
          (∃ e, aget (after s tid t' effs).channels c = some e ∧ e.gen = g) ∨
          ∃ x u, aget (after s tid t' effs).threads x = some u ∧ u.ch = c ∧ owesP u g := by
        intro e0 he0 hg0
        by_cases hdel : Eff.chanDel c ∈ effs
        · exact Or.inr (hdeleter e0 he0 hg0 hdel)
        · by_cases hset : ∃ e2, Eff.chanSet c e2 ∈ effs
          · obtain ⟨e2, hm⟩ := hset
            obtain ⟨hch, hc⟩ := new_entry_cases s hg tid t t' o effs hst hnt c e2 hm
            rcases hc with ⟨_, _, hnone⟩ | ⟨hp, _, hgc, e1, he1, hg1⟩
            · rw [hch] at he0; rw [hnone] at he0; cases he0
            · -- commit over the entry of the same generation
              rw [hch] at he0; rw [he0] at he1; cases he1
              exact Or.inl ⟨e2, step_commit_writes s tid t t' o effs hst hp c e2 hm, by rw [hgc, ← hg1, hg0]⟩
          · left
            refine ⟨e0, ?_, hg0⟩
            rw [← he0]
            exact channels_applyEffs_frame _ _ _ (fun e2 hm => hset ⟨e2, hm⟩) hdel
      rcases hub_applyEffs _ _ _ _ hh with hold | hnew
      · -- an old hub entry
        rcases h3.B c g hold with ⟨e0, he0, hg0⟩ | ⟨w, tw, hw, hwch, hwo⟩
        · exact hentry e0 he0 hg0
        · by_cases hwt : w = tid
          · subst hwt
            rw [hget] at hw; cases hw
            have hK : rbPc t.pc = true → t.cmdGen = t.resGen := fun hp => (h2.K2 w t hget hp).1
            rcases step_owes_self s w t t' o effs hst g hwo hK with ⟨ho', hch'⟩ | ⟨hdel, hnoset⟩
            · exact Or.inr ⟨w, t', aget_threads_after_self s w t t' effs hget, by rw [hch', hwch], ho'⟩
            · -- the step removed the hub entry it owed: it cannot be there any more
              rw [hwch] at hdel hnoset
              exact absurd hdel (hub_applyEffs_old _ _ _ _ hnoset hh).2
          · exact Or.inr ⟨w, tw, aget_threads_after_other s tid t' effs w tw hwt hw, hwch, hwo⟩
      · -- written by this step: the reservation of the adding thread carries the generation
        obtain ⟨hch, hgq, hp⟩ := step_hubSet s tid t t' o effs hst c g hnew
        obtain ⟨e1, he1, hg1, _, hc1⟩ := h2.D tid t hget (by simp [hp])
        have hcm := hc1 (by simp [hp])
        rw [← hch] at he1
        exact hentry e1 he1 (by rw [hg1, ← hcm, hgq])
    · -- C
      intro c e he hsb
      rcases hent c e he with h | ⟨hch, h⟩
      · -- an old subscribed entry: its hub entry is not touched
        have hhub := h3.C c e h hsb
        refine hub_applyEffs_keep effs { s with threads := setThread s.threads tid t' } _ _ ?_ ?_ hhub
        · intro g' hm
          obtain ⟨hch, _, hp⟩ := step_hubSet s tid t t' o effs hst _ _ hm
          obtain ⟨e1, he1, _, hs1, _⟩ := h2.D tid t hget (by simp [hp])
          rw [hch] at h; rw [h] at he1; cases he1
          rw [hsb] at hs1; cases hs1
        · intro hm
          obtain ⟨hch, hc⟩ := step_hubDel s tid t t' o effs hst _ _ hm
          rw [hch] at h
          rcases hc with ⟨hp, hgq⟩ | ⟨hp, hgq⟩ | ⟨hp, hgq⟩ | ⟨hp, hgq⟩
          · obtain ⟨e1, he1, _, hs1, _⟩ := h2.D tid t hget (by simp [hp])
            rw [h] at he1; cases he1
            rw [hsb] at hs1; cases hs1
          · obtain ⟨k0, _, ke⟩ := h2.K2 tid t hget (by simp [hp])
            exact ke e h (by rw [hgq, k0])
          · obtain ⟨_, ke⟩ := h2.K3 tid t hget (by simp [hp])
            exact ke e h hgq
          · exact h3.Hd tid t hget (by simp [hp]) e h hgq
      · rcases h with ⟨_, hre, _⟩ | ⟨hp, _, hge, _⟩
        · rw [hre] at hsb; simp [Entry.reservation] at hsb
        · -- committed by this step: the committing thread holds its hub entry, and the step does not touch the hub
          have hhub := h3.HubHeld tid t hget (by simp [hp])
          rw [hch, hge]
          refine hub_applyEffs_keep effs { s with threads := setThread s.threads tid t' } _ _ ?_ ?_ hhub
          · intro g' hm
            obtain ⟨_, _, hp'⟩ := step_hubSet s tid t t' o effs hst _ _ hm
            rw [hp] at hp'; cases hp'
          · intro hm
            obtain ⟨_, hc⟩ := step_hubDel s tid t t' o effs hst _ _ hm
            rcases hc with ⟨hp', _⟩ | ⟨hp', _⟩ | ⟨hp', _⟩ | ⟨hp', _⟩ <;> (rw [hp] at hp'; cases hp')

end CentrifugeVerif.SubProto
