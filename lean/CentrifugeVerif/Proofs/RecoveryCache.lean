import CentrifugeVerif.Proofs.Recovery
/-!
Helper lemmas for C03 (cache recovery): closed form of `recoverCache` / `isCacheRecovered` on a
stream satisfying the invariant.
-/
namespace CentrifugeVerif.Recovery
open CentrifugeVerif.Merge

/-- the part of the retained list `recoverCache` looks at, newest first: with a filter the
`RecoveryMaxPublicationLimit` newest publications (all when the limit is 0), without any filter
just the newest one -/
def scanWindow (limit : Nat) (s : RStream) (f : Filt) : List Pub :=
  if f.has then takeLim limit s.items.reverse else s.items.reverse.take 1

theorem recoverCache_spec (limit : Nat) (s : RStream) (f : Filt) (hw : f.WF) :
    recoverCache limit s f =
      match (scanWindow limit s f).head?, (scanWindow limit s f).find? f.pass with
      | some l, some p => some (l, p)
      | _, _ => none := by
  unfold recoverCache scanWindow RStream.getRev
  cases hh : f.has with
  | false =>
    have hp := hw hh
    simp only [Bool.not_false, if_true, Bool.false_eq_true, if_false]
    have : takeLim 1 s.items.reverse = s.items.reverse.take 1 := by simp [takeLim]
    rw [this]
    cases hr : s.items.reverse with
    | nil => simp
    | cons p ps => simp [hp p]
  | true =>
    simp only [Bool.not_true, Bool.false_eq_true, if_false, if_true]
    cases hr : takeLim limit s.items.reverse with
    | nil => simp
    | cons p ps =>
      cases hf : List.find? f.pass (p :: ps) with
      | none => simp
      | some q => simp

theorem scanWindow_prefix (limit : Nat) (s : RStream) (f : Filt) :
    ∃ rest, s.items.reverse = scanWindow limit s f ++ rest := by
  unfold scanWindow takeLim
  split
  · split
    · exact ⟨[], by simp⟩
    · exact ⟨s.items.reverse.drop limit, (List.take_append_drop _ _).symm⟩
  · exact ⟨s.items.reverse.drop 1, (List.take_append_drop _ _).symm⟩

theorem mem_scanWindow {limit : Nat} {s : RStream} {f : Filt} {p : Pub}
    (h : p ∈ scanWindow limit s f) : p ∈ s.items := by
  obtain ⟨rest, hr⟩ := scanWindow_prefix limit s f
  have : p ∈ s.items.reverse := by rw [hr]; exact List.mem_append_left _ h
  exact List.mem_reverse.mp this

/-- the newest retained publication sits at `top` -/
theorem head_scanWindow_top (limit : Nat) (s : RStream) (hi : s.Inv) (f : Filt) (l : Pub)
    (h : (scanWindow limit s f).head? = some l) : l.offset = s.top := by
  obtain ⟨rest, hr⟩ := scanWindow_prefix limit s f
  have hh : s.items.reverse.head? = some l := by
    rw [hr]
    cases hw : scanWindow limit s f with
    | nil => rw [hw] at h; simp at h
    | cons x xs => rw [hw] at h; simpa using h
  rw [List.head?_reverse] at hh
  have hio := hi.itemsOff
  have hlen := hi.len
  have hn : 0 < s.items.length := by
    cases hl : s.items with
    | nil => rw [hl] at hh; simp at hh
    | cons x xs => simp
  obtain ⟨p, ps, q, _, hq, _, hqo⟩ := offs_head_last hio hn
  rw [hq] at hh
  cases hh
  omega

/-- offsets decrease along the reversed retained list -/
theorem rev_pairwise (s : RStream) (hi : s.Inv) :
    s.items.reverse.Pairwise (fun x y => y.offset < x.offset) :=
  List.pairwise_reverse.mpr (pairwise_of_offs hi.itemsOff)

/-- the first passing publication of the scan window is the newest passing retained one -/
theorem find_newest (limit : Nat) (s : RStream) (hi : s.Inv) (f : Filt) (p : Pub)
    (h : (scanWindow limit s f).find? f.pass = some p) :
    p ∈ scanWindow limit s f ∧ f.pass p = true ∧ ∀ q ∈ s.items, f.pass q = true → q.offset ≤ p.offset := by
  obtain ⟨hp, as, bs, hw, hnone⟩ := List.find?_eq_some_iff_append.mp h
  obtain ⟨rest, hr⟩ := scanWindow_prefix limit s f
  refine ⟨by rw [hw]; simp, hp, ?_⟩
  intro q hq hpq
  have hpw := rev_pairwise s hi
  rw [hr, hw] at hpw
  have hq' : q ∈ as ++ p :: bs ++ rest := by
    rw [← hw, ← hr]; exact List.mem_reverse.mpr hq
  rw [List.append_assoc, List.mem_append] at hq'
  rcases hq' with hq' | hq'
  · have := hnone q hq'
    rw [hpq] at this
    simp at this
  · rw [List.append_assoc, List.pairwise_append] at hpw
    have hpw2 := hpw.2.1
    rw [List.cons_append, List.pairwise_cons] at hpw2
    rw [List.cons_append, List.mem_cons] at hq'
    rcases hq' with rfl | hq'
    · exact Nat.le_refl _
    · exact Nat.le_of_lt (hpw2.1 q hq')

/-- items are a suffix of the log: anything in the log that is not retained is older than every
retained publication -/
theorem log_older (s : RStream) (hi : s.Inv) (q : Pub) (hq : q ∈ s.log) :
    q ∈ s.items ∨ ∀ p ∈ s.items, q.offset < p.offset := by
  have hsplit := List.take_append_drop (s.top - s.items.length) s.log
  have hpw := pairwise_of_offs hi.logOff
  rw [← hsplit, ← hi.suffix] at hpw
  rw [← hsplit, ← hi.suffix, List.mem_append] at hq
  rcases hq with hq | hq
  · right
    intro p hp
    exact (List.pairwise_append.mp hpw).2.2 q hq p hp
  · left; exact hq

/-- closed form of one `recoverCache` + `isCacheRecovered` round -/
theorem cacheDecide_spec (limit : Nat) (s : RStream) (hi : s.Inv) (f : Filt) (hw : f.WF) (off ep : Nat) :
    cacheDecide limit s f off ep =
      match (scanWindow limit s f).find? f.pass with
      | none => ([], sameState s off ep)
      | some p => (if sameState s off ep then [] else [p], true) := by
  unfold cacheDecide
  rw [recoverCache_spec limit s f hw]
  cases hf : (scanWindow limit s f).find? f.pass with
  | none =>
    cases hh : (scanWindow limit s f).head? <;> simp [isCacheRecovered]
  | some p =>
    cases hh : (scanWindow limit s f).head? with
    | none =>
      have : scanWindow limit s f = [] := List.head?_eq_none_iff.mp hh
      rw [this] at hf; simp at hf
    | some l =>
      have ht := head_scanWindow_top limit s hi f l hh
      simp only [isCacheRecovered, ht, beq_self_eq_true, Bool.true_and]
      cases sameState s off ep <;> simp

theorem finish_cache_nil (delta r : Bool) (top e off : Nat) (w : Bool) :
    finish true delta r [] [] top e off w = .reply r [] (if r then off else top) e top w := by
  cases delta <;> cases r <;> simp [finish, merge, isort, uniq, maxSeen]

theorem finish_cache_one (delta r : Bool) (p : Pub) (top e off : Nat) (w : Bool) (hp : p.offset ≤ top) :
    finish true delta r [toPlain p] [] top e off w =
      .reply r (if r then [toPlain p] else []) (if r then off else top) e top w := by
  have h1 : ¬ (p.offset > top) := by omega
  cases delta <;> cases r <;> simp [finish, merge, isort, ins, uniq, maxSeen, toPlain, h1]

/-- closed form of the cache-mode subscribe when the cache-empty handler is not invoked (not
registered, or a visible publication was found at the first attempt) -/
theorem cacheSubscribe_spec (limit : Nat) (s1 s2 : RStream) (hi : s1.Inv) (f : Filt) (hw : f.WF) (req : Req)
    (delta : Bool) (h : HandlerReply) (buffered : List MPub)
    (hni : h = none ∨ recoverCache limit s1 f ≠ none) :
    cacheSubscribe limit s1 s2 f req delta h buffered =
      .reply (cacheDecide limit s1 f req.offset req.epoch).2
        (if (cacheDecide limit s1 f req.offset req.epoch).2 then
          (cacheDecide limit s1 f req.offset req.epoch).1.map toPlain else [])
        (if (cacheDecide limit s1 f req.offset req.epoch).2 then req.offset else s1.top) s1.epoch s1.top true := by
  have hfin : finish true delta (cacheDecide limit s1 f req.offset req.epoch).2
      ((cacheDecide limit s1 f req.offset req.epoch).1.map toPlain) [] s1.top s1.epoch req.offset true =
      .reply (cacheDecide limit s1 f req.offset req.epoch).2
        (if (cacheDecide limit s1 f req.offset req.epoch).2 then
          (cacheDecide limit s1 f req.offset req.epoch).1.map toPlain else [])
        (if (cacheDecide limit s1 f req.offset req.epoch).2 then req.offset else s1.top) s1.epoch s1.top true := by
    rw [cacheDecide_spec limit s1 hi f hw]
    cases hf : (scanWindow limit s1 f).find? f.pass with
    | none => simp only [List.map_nil]; rw [finish_cache_nil]; cases sameState s1 req.offset req.epoch <;> rfl
    | some p =>
      have hmem := mem_scanWindow (find_newest limit s1 hi f p hf).1
      have hple : p.offset ≤ s1.top := by
        have := (mem_offs hi.itemsOff p.offset).mp ⟨p, hmem, rfl⟩
        have := hi.len
        omega
      cases hs : sameState s1 req.offset req.epoch
      · simp only [Bool.false_eq_true, if_false, List.map_cons, List.map_nil, if_true]
        rw [finish_cache_one _ _ _ _ _ _ _ hple]; rfl
      · simp only [if_true, List.map_nil]
        rw [finish_cache_nil]
        simp
  unfold cacheSubscribe
  simp only
  rw [show isCacheRecovered (recoverCache limit s1 f) s1 req.offset req.epoch =
    cacheDecide limit s1 f req.offset req.epoch from rfl]
  rcases hni with rfl | hne
  · cases hl : recoverCache limit s1 f with
    | none => simp only; exact hfin
    | some lp => simp only; exact hfin
  · cases hl : recoverCache limit s1 f with
    | none => exact absurd hl hne
    | some lp =>
      cases h with
      | none => simp only; exact hfin
      | some x => simp only; exact hfin

end CentrifugeVerif.Recovery
