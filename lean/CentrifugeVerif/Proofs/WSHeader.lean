import CentrifugeVerif.Model.WS.Writer
import CentrifugeVerif.Spec.WSSpec
/-! Frame header: what `flushFrame` encodes is what the receiver parses. -/
namespace CentrifugeVerif.WS
open Writer

theorem beVal_toBE2 (n : Nat) (h : n < 65536) : beVal (toBE 2 n) = n := by
  simp only [toBE, beVal, List.foldl, UInt8.toNat_ofNat']
  simp only [Nat.reducePow]
  omega

theorem beVal_toBE8 (n : Nat) (h : n < 2 ^ 64) : beVal (toBE 8 n) = n := by
  simp only [toBE, beVal, List.foldl, UInt8.toNat_ofNat']
  simp only [Nat.reducePow] at h ⊢
  omega

theorem toBE_length (w n : Nat) : (toBE w n).length = w := by
  induction w with
  | zero => rfl
  | succ w ih => simp [toBE, ih]

/-- bits of the first header byte, for all 64 combinations -/
theorem parse_firstByte : ∀ (final rsv1 : Bool) (op : Fin 16) (b1 : UInt8),
    (parseHdr (firstByte final rsv1 op.val) b1).fin = final ∧
    (parseHdr (firstByte final rsv1 op.val) b1).rsv1 = rsv1 ∧
    (parseHdr (firstByte final rsv1 op.val) b1).rsv2 = false ∧
    (parseHdr (firstByte final rsv1 op.val) b1).rsv3 = false ∧
    (parseHdr (firstByte final rsv1 op.val) b1).opcode = op.val := by
  intro final rsv1 op b1
  simp only [parseHdr]
  revert final rsv1 op
  decide

/-- second header byte for the 7-bit length form -/
theorem parse_len7 : ∀ (masked : Bool) (len : Fin 128) (b0 : UInt8),
    (parseHdr b0 ((if masked then 0x80 else 0) ||| UInt8.ofNat len.val)).masked = masked ∧
    (parseHdr b0 ((if masked then 0x80 else 0) ||| UInt8.ofNat len.val)).len7 = len.val := by
  intro masked len b0
  simp only [parseHdr]
  revert masked len
  decide

theorem encHeader_parse (final rsv1 masked : Bool) (op : Nat) (hop : op < 16) (len : Nat)
    (hlen : len < 2 ^ 63) (rest : Bytes) :
    ∃ b0 b1 ext, encHeader (firstByte final rsv1 op) masked len = b0 :: b1 :: ext ∧
      (parseHdr b0 b1).fin = final ∧ (parseHdr b0 b1).rsv1 = rsv1 ∧ (parseHdr b0 b1).rsv2 = false ∧
      (parseHdr b0 b1).rsv3 = false ∧ (parseHdr b0 b1).opcode = op ∧ (parseHdr b0 b1).masked = masked ∧
      Spec.extLen (parseHdr b0 b1).len7 (ext ++ rest) = some (len, rest) := by
  have hb0 := fun b1 => parse_firstByte final rsv1 ⟨op, hop⟩ b1
  simp only at hb0
  unfold encHeader
  simp only []
  split
  · -- 64-bit form
    rename_i h
    have hm := parse_len7 masked ⟨127, by omega⟩ (firstByte final rsv1 op)
    simp only at hm
    refine ⟨_, _, toBE 8 len, rfl, (hb0 _).1, (hb0 _).2.1, (hb0 _).2.2.1, (hb0 _).2.2.2.1, (hb0 _).2.2.2.2,
      hm.1, ?_⟩
    rw [show (127 : UInt8) = UInt8.ofNat 127 from rfl, hm.2]
    have hl : (toBE 8 len).length = 8 := toBE_length 8 len
    simp only [Spec.extLen]
    simp [hl, List.take_append_of_le_length, List.drop_append_of_le_length,
      beVal_toBE8 len (by omega)]
  · split
    · -- 16-bit form
      rename_i h1 h2
      have hm := parse_len7 masked ⟨126, by omega⟩ (firstByte final rsv1 op)
      simp only at hm
      refine ⟨_, _, toBE 2 len, rfl, (hb0 _).1, (hb0 _).2.1, (hb0 _).2.2.1, (hb0 _).2.2.2.1, (hb0 _).2.2.2.2,
        hm.1, ?_⟩
      rw [show (126 : UInt8) = UInt8.ofNat 126 from rfl, hm.2]
      have hl : (toBE 2 len).length = 2 := toBE_length 2 len
      simp only [Spec.extLen]
      simp [hl, List.take_append_of_le_length, List.drop_append_of_le_length,
        beVal_toBE2 len (by omega)]
    · rename_i h1 h2
      have hm := parse_len7 masked ⟨len, by omega⟩ (firstByte final rsv1 op)
      simp only at hm
      refine ⟨_, _, [], rfl, (hb0 _).1, (hb0 _).2.1, (hb0 _).2.2.1, (hb0 _).2.2.2.1, (hb0 _).2.2.2.2,
        hm.1, ?_⟩
      rw [hm.2]
      have : len < 126 := by omega
      simp [Spec.extLen, this]

end CentrifugeVerif.WS
