import CentrifugeVerif.Model.WS.Writer
import CentrifugeVerif.Spec.WSSpec
/-! Frame header: what `flushFrame` encodes is what the receiver parses. -/
namespace CentrifugeVerif.WS
open Writer

theorem beVal_toBE2 (n : Nat) (h : n < 65536) : beVal (toBE 2 n) = n := by
  simp only [toBE, beVal, List.foldl, UInt8.toNat_ofNat']
  simp only [Nat.reducePow]
  omega

theorem beVal_toBE8 (n : Nat) (h : n < 2 ^ 64) : beVal (toBE 8 n) = n := by
  simp only [toBE, beVal, List.foldl, UInt8.toNat_ofNat']
  simp only [Nat.reducePow] at h ⊢
  omega

theorem toBE_length (w n : Nat) : (toBE w n).length = w := by
  induction w with
  | zero => rfl
  | succ w ih => simp [toBE, ih]

/-- bits of the first header byte, for all 64 combinations -/
theorem parse_firstByte : ∀ (final rsv1 : Bool) (op : Fin 16) (b1 : UInt8),
    (parseHdr (firstByte final rsv1 op.val) b1).fin = final ∧
    (parseHdr (firstByte final rsv1 op.val) b1).rsv1 = rsv1 ∧
    (parseHdr (firstByte final rsv1 op.val) b1).rsv2 = false ∧
    (parseHdr (firstByte final rsv1 op.val) b1).rsv3 = false ∧
    (parseHdr (firstByte final rsv1 op.val) b1).opcode = op.val := by
  intro final rsv1 op b1
  simp only [parseHdr]
  revert final rsv1 op
  decide

/-- second header byte for the 7-bit length form -/
theorem parse_len7 : ∀ (masked : Bool) (len : Fin 128) (b0 : UInt8),
    (parseHdr b0 ((if masked then 0x80 else 0) ||| UInt8.ofNat len.val)).masked = masked ∧
    (parseHdr b0 ((if masked then 0x80 else 0) ||| UInt8.ofNat len.val)).len7 = len.val := by
  intro masked len b0
  simp only [parseHdr]
  revert masked len
  decide

end CentrifugeVerif.WS
