import CentrifugeVerif.Proofs.SubProtoNT1
/-!
Layer 1 of the no-timeout invariants: shape of `c.channels` entries, generation bounds, uniqueness of
reservation generations (`L1`).
-/
namespace CentrifugeVerif.SubProto

/-- channel writes of a step that is not a timeout -/
theorem step_chanSet_nt (s : State) (tid : Tid) (t t' : Thread) (o : Outcome) (effs : List Eff)
    (hs : stepThread s tid t o = some (effs, t')) (hnt : o ≠ .tmo) (ch : Chan) (e : Entry)
    (hm : Eff.chanSet ch e ∈ effs) :
    ch = t.ch ∧
    ((t.pc = .sReserve ∧ e = Entry.reservation (s.genCounter + 1) ∧ Eff.mint ∈ effs) ∨
     (t.pc = .sReadGen ∧ ∃ e0, aget s.channels t.ch = some e0 ∧ e0.gen = 0) ∨
     (t.pc = .sCommit ∧ s.status ≠ .closed ∧ e.gen = t.cmdGen ∧ e.subscribed = true ∧ e.gate = none ∧
        ∃ e0, aget s.channels t.ch = some e0 ∧ e0.gen = t.cmdGen)) := by
  step_cases hs <;> simp_all [Entry.reservation]

theorem step_closeGate (s : State) (tid : Tid) (t t' : Thread) (o : Outcome) (effs : List Eff)
    (hs : stepThread s tid t o = some (effs, t')) (g : Gen) (hm : Eff.closeGate g ∈ effs) :
    t.capGate = some g ∨ ∃ e, aget s.channels t.ch = some e ∧ e.gate = some g := by
  step_cases hs <;> simp_all

theorem step_kind_res (s : State) (tid : Tid) (t t' : Thread) (o : Outcome) (effs : List Eff)
    (hs : stepThread s tid t o = some (effs, t')) :
    t'.kind = t.kind ∧ (t'.resGen = t.resGen ∨ (t.pc = .sReserve ∧ t'.resGen = s.genCounter + 1 ∧ Eff.mint ∈ effs)) := by
  step_cases hs <;> simp_all [notCommitted, unsubReturn, afterHubRm]

theorem genCounter_applyEffs_mint (es : List Eff) (s : State) (h : Eff.mint ∈ es) :
    s.genCounter + 1 ≤ (applyEffs s es).genCounter := by
  induction es generalizing s with
  | nil => simp at h
  | cons e r ih =>
    simp only [List.mem_cons] at h
    rcases h with h | h
    · subst h
      exact Nat.le_trans (by simp) (genCounter_applyEffs_le r _)
    · refine Nat.le_trans ?_ (ih _ h)
      cases e <;> simp

/-- the stepping thread's generations stay below the counter -/
theorem step_thrBound (s : State) (tid : Tid) (t t' : Thread) (o : Outcome) (effs : List Eff) (n : Nat)
    (hs : stepThread s tid t o = some (effs, t'))
    (hn : s.genCounter ≤ n) (hmint : Eff.mint ∈ effs → s.genCounter + 1 ≤ n)
    (hent : ∀ e, aget s.channels t.ch = some e → e.gen ≤ s.genCounter ∧ ∀ g, e.gate = some g → g ≤ s.genCounter)
    (hb : t.resGen ≤ s.genCounter ∧ t.cmdGen ≤ s.genCounter ∧ t.target ≤ s.genCounter ∧ ∀ g, t.capGate = some g → g ≤ s.genCounter) :
    t'.resGen ≤ n ∧ t'.cmdGen ≤ n ∧ t'.target ≤ n ∧ ∀ g, t'.capGate = some g → g ≤ n := by
  obtain ⟨h1, h2, h3, h4⟩ := hb
  have e1 : t.resGen ≤ n := Nat.le_trans h1 hn
  have e2 : t.cmdGen ≤ n := Nat.le_trans h2 hn
  have e3 : t.target ≤ n := Nat.le_trans h3 hn
  have e4 : ∀ g, t.capGate = some g → g ≤ n := fun g hg => Nat.le_trans (h4 g hg) hn
  step_cases hs <;> simp_all [notCommitted, unsubReturn, afterHubRm] <;>
    first
    | exact Nat.le_trans hent.1 hn
    | exact Nat.le_trans hent hn
    | (intro g hg; first | exact Nat.le_trans (hent.2 g hg) hn | exact Nat.le_trans (hent g hg) hn)
    | (refine ⟨?_, ?_⟩ <;> first | exact Nat.le_trans hent.1 hn | (intro g hg; exact Nat.le_trans (hent.2 g hg) hn))


structure L1 (s : State) : Prop where
  shape : ∀ ch e, aget s.channels ch = some e →
    (e.subscribed = true → e.gate = none) ∧ (e.subscribed = false → e.gate = some e.gen ∧ e.serverSide = false)
  entBound : ∀ ch e, aget s.channels ch = some e → e.gen ≤ s.genCounter
  thrBound : ∀ tid t, aget s.threads tid = some t →
    t.resGen ≤ s.genCounter ∧ t.cmdGen ≤ s.genCounter ∧ t.target ≤ s.genCounter ∧ ∀ g, t.capGate = some g → g ≤ s.genCounter
  gateBound : ∀ g ∈ s.closedGates, g ≤ s.genCounter
  uniq : ∀ x y tx ty, aget s.threads x = some tx → aget s.threads y = some ty →
    tx.resGen ≠ 0 → tx.resGen = ty.resGen → x = y

theorem L1.init : L1 State.init := by
  constructor <;> simp [State.init, aget]

theorem isSub_autoClose : isSub autoClose = false := rfl

theorem next_L1 (s s' : State) (l : Label) (hg : Ghost s) (h : L1 s) (hl : l.noTmo = true)
    (hn : next s l = some s') : L1 s' := by
  cases l with
  | spawn k ch o =>
    simp only [next, Option.some.injEq] at hn
    subst hn
    have hnew : ∀ x u, aget (s.threads ++ [(s.nextTid, ({ kind := k, ch := ch, opts := o, pc := initPc k } : Thread))]) x = some u →
        aget s.threads x = some u ∨ u = { kind := k, ch := ch, opts := o, pc := initPc k } := by
      intro x u hx
      cases hs : aget s.threads x with
      | some v => rw [aget_append_some _ _ _ _ hs] at hx; cases hx; exact Or.inl rfl
      | none =>
        right
        have hm := aget_mem _ _ _ hx
        simp only [List.mem_append, List.mem_singleton] at hm
        rcases hm with hm | hm
        · exact absurd (List.mem_map_of_mem (f := (·.1)) hm) ((aget_none_iff _ _).mp hs)
        · cases hm; rfl
    refine ⟨h.shape, h.entBound, ?_, h.gateBound, ?_⟩
    · intro x u hx
      rcases hnew x u hx with h1 | h1
      · exact h.thrBound x u h1
      · subst h1; simp
    · intro x y tx ty hx hy hnz heq
      rcases hnew x tx hx with h1 | h1 <;> rcases hnew y ty hy with h2 | h2
      · exact h.uniq x y tx ty h1 h2 hnz heq
      · subst h2; simp at heq; exact absurd heq hnz
      · subst h1; simp at hnz
      · subst h1; simp at hnz
  | step tid o =>
    have hnt : o ≠ .tmo := by
      intro ho; subst ho; simp [Label.noTmo] at hl
    obtain ⟨t, effs, t', hget, hst, rfl⟩ := next_step_some hn
    have hle := genCounter_applyEffs_le effs { s with threads := setThread s.threads tid t' }
    have hmint := genCounter_applyEffs_mint effs { s with threads := setThread s.threads tid t' }
    have hself := step_thrBound s tid t t' o effs _ hst hle hmint
      (fun e he => ⟨h.entBound _ e he, fun g hgate => by
        rcases Bool.eq_false_or_eq_true e.subscribed with hsb | hsb
        · have := (h.shape _ e he).1 hsb; rw [this] at hgate; cases hgate
        · have := ((h.shape _ e he).2 hsb).1; rw [this] at hgate; cases hgate; exact h.entBound _ e he⟩)
      (h.thrBound tid t hget)
    obtain ⟨hkind, hres⟩ := step_kind_res s tid t t' o effs hst
    refine ⟨?_, ?_, ?_, ?_, ?_⟩
    · -- shape
      intro ch e he
      rcases channels_applyEffs _ _ _ _ he with h1 | h1
      · exact h.shape ch e h1
      · obtain ⟨rfl, hc⟩ := step_chanSet_nt s tid t t' o effs hst hnt ch e h1
        rcases hc with ⟨_, rfl, _⟩ | ⟨_, e0, he0, hz⟩ | ⟨_, _, _, hsub, hgate, _⟩
        · simp [Entry.reservation]
        · exact absurd hz (hg.entGen _ _ he0)
        · simp [hsub, hgate]
    · -- entry bound
      intro ch e he
      rcases channels_applyEffs _ _ _ _ he with h1 | h1
      · exact Nat.le_trans (h.entBound ch e h1) hle
      · obtain ⟨rfl, hc⟩ := step_chanSet_nt s tid t t' o effs hst hnt ch e h1
        rcases hc with ⟨_, rfl, hm⟩ | ⟨_, e0, he0, hz⟩ | ⟨_, _, hgen, _, _, _⟩
        · exact hmint hm
        · exact absurd hz (hg.entGen _ _ he0)
        · rw [hgen]; exact Nat.le_trans (h.thrBound tid t hget).2.1 hle
    · -- thread bounds
      intro x u hx
      rcases aget_threads_after s tid t t' effs x u hget hx with ⟨_, h1⟩ | ⟨_, hue⟩ | hue
      · obtain ⟨b1, b2, b3, b4⟩ := h.thrBound x u h1
        exact ⟨Nat.le_trans b1 hle, Nat.le_trans b2 hle, Nat.le_trans b3 hle, fun g hgate => Nat.le_trans (b4 g hgate) hle⟩
      · rw [hue]; exact hself
      · rw [hue]; simp [autoClose]
    · -- closed gates
      intro g hgm
      rcases closedGates_applyEffs _ _ _ hgm with h1 | h1
      · exact Nat.le_trans (h.gateBound g h1) hle
      · rcases step_closeGate s tid t t' o effs hst g h1 with h2 | ⟨e, he, hgate⟩
        · exact Nat.le_trans ((h.thrBound tid t hget).2.2.2 g h2) hle
        · rcases Bool.eq_false_or_eq_true e.subscribed with hsb | hsb
          · have := (h.shape _ e he).1 hsb; rw [this] at hgate; cases hgate
          · have := ((h.shape _ e he).2 hsb).1; rw [this] at hgate; cases hgate
            exact Nat.le_trans (h.entBound _ e he) hle
    · -- uniqueness of reservation generations
      intro x y tx ty hx hy hnz heq
      rcases aget_threads_after s tid t t' effs x tx hget hx with ⟨hx1, hx2⟩ | ⟨hx1, hxe⟩ | hxe <;>
        rcases aget_threads_after s tid t t' effs y ty hget hy with ⟨hy1, hy2⟩ | ⟨hy1, hye⟩ | hye
      · exact h.uniq x y tx ty hx2 hy2 hnz heq
      · -- x old, y = stepping thread
        rw [hye] at heq
        rcases hres with hr | ⟨_, hr, _⟩
        · rw [hy1]
          exact h.uniq x tid tx t hx2 hget hnz (by rw [heq, hr])
        · have := (h.thrBound x tx hx2).1
          rw [heq, hr] at this
          exact absurd this (Nat.not_succ_le_self _)
      · rw [hye] at heq; simp [autoClose] at heq; exact absurd heq hnz
      · rw [hxe] at heq hnz
        rcases hres with hr | ⟨_, hr, _⟩
        · rw [hx1]
          exact h.uniq tid y t ty hget hy2 (by rw [← hr]; exact hnz) (by rw [← hr, heq])
        · have := (h.thrBound y ty hy2).1
          rw [← heq, hr] at this
          exact absurd this (Nat.not_succ_le_self _)
      · rw [hx1, hy1]
      · rw [hxe] at hnz heq; rw [hye] at heq; simp [autoClose] at heq; exact absurd heq hnz
      · rw [hxe] at hnz; simp [autoClose] at hnz
      · rw [hxe] at hnz; simp [autoClose] at hnz
      · rw [hxe] at hnz; simp [autoClose] at hnz

end CentrifugeVerif.SubProto
