import CentrifugeVerif.Proofs.FilterSpec
/-!
Lemmas for C15: leaf-level agreement of `Validate`/`Match` with the specification, the
`strings.Contains` model, numeric comparison, and the wire-encoding size.
-/
set_option linter.unusedSimpArgs false
namespace CentrifugeVerif.Filter
open CentrifugeVerif.Decimal

/-- the model of `strings.Contains` decides the infix relation -/
theorem contains_iff (h n : Str) : contains h n = true ↔ n <:+: h := by
  induction h with
  | nil => simp [contains, List.isPrefixOf_iff_prefix]
  | cons c t ih =>
    simp only [contains, Bool.or_eq_true, ih, List.isPrefixOf_iff_prefix, List.infix_cons_iff]

macro "leaf_tac" v:ident vs:ident k:ident : tactic => `(tactic|
  (simp (config := {decide := true})
   all_goals (by_cases hv : $v = [] <;> by_cases hvs : $vs = [] <;> by_cases hk : $k = [] <;> simp_all)))

/-- the leaf case of `Validate` accepts exactly the well-formed leaves -/
theorem validateLeaf_ok_iff (key cmp val : Str) (vals : List Str) :
    validateLeaf key cmp val vals = .ok ↔ LeafWF key cmp val vals := by
  unfold validateLeaf LeafWF isValCmp valCmps
  by_cases h1 : cmp = cEq
  · subst h1; leaf_tac val vals key
  by_cases h2 : cmp = cNeq
  · subst h2; leaf_tac val vals key
  by_cases h3 : cmp = cIn
  · subst h3; leaf_tac val vals key
  by_cases h4 : cmp = cNin
  · subst h4; leaf_tac val vals key
  by_cases h5 : cmp = cEx
  · subst h5; leaf_tac val vals key
  by_cases h6 : cmp = cNex
  · subst h6; leaf_tac val vals key
  by_cases h7 : cmp = cSw
  · subst h7; leaf_tac val vals key
  by_cases h8 : cmp = cEw
  · subst h8; leaf_tac val vals key
  by_cases h9 : cmp = cCt
  · subst h9; leaf_tac val vals key
  by_cases h10 : cmp = cGt
  · subst h10; leaf_tac val vals key
  by_cases h11 : cmp = cGte
  · subst h11; leaf_tac val vals key
  by_cases h12 : cmp = cLt
  · subst h12; leaf_tac val vals key
  by_cases h13 : cmp = cLte
  · subst h13; leaf_tac val vals key
  simp [*]
  split <;> simp

/-- numeric operators: the `Cmp`-based test is the exact rational comparison -/
theorem numCmp_eq_semNum (cmp : Str) (a b : Dec) (ha : a.Norm) (hb : b.Norm) :
    numCmp cmp a b = semNum cmp a b := by
  have ⟨h1, h2, h3, h4⟩ := cmp_exact a b ha hb
  unfold numCmp semNum
  split
  · exact decide_eq_decide.mpr h3
  split
  · exact decide_eq_decide.mpr h4
  split
  · exact decide_eq_decide.mpr h1
  · exact decide_eq_decide.mpr h2

theorem leafWF_cases {key cmp val : Str} {vals : List Str} (h : LeafWF key cmp val vals) :
    cmp = cEq ∨ cmp = cNeq ∨ cmp = cSw ∨ cmp = cEw ∨ cmp = cCt ∨ cmp = cGt ∨ cmp = cGte ∨ cmp = cLt ∨
      cmp = cLte ∨ cmp = cIn ∨ cmp = cNin ∨ cmp = cEx ∨ cmp = cNex := by
  unfold LeafWF valCmps at h
  simp only [List.mem_cons, List.not_mem_nil, or_false] at h
  rcases h with ⟨h, _⟩ | ⟨h, _⟩ | ⟨h, _⟩
  · rcases h with h | h | h | h | h | h | h | h | h <;> simp [h]
  · rcases h with h | h <;> simp [h]
  · rcases h with h | h <;> simp [h]

/-- the leaf case of `Match` computes the denotation of a well-formed leaf — for the variant that
honours `ok` in `in`/`nin`, and for the code as it is when no `in`/`nin` set contains `""`. -/
theorem matchLeaf_sem (fix : Bool) (t : Tags) (key cmp val : Str) (vals : List Str)
    (hwf : LeafWF key cmp val vals)
    (hsafe : fix = true ∨ ((cmp = cIn ∨ cmp = cNin) → [] ∉ vals)) :
    matchLeaf fix t key cmp val vals = .val (semLeaf t key cmp val vals) := by
  have hc := leafWF_cases hwf
  unfold matchLeaf semLeaf
  cases hl : t.lookup key with
  | none =>
    rcases hc with h | h | h | h | h | h | h | h | h | h | h | h | h <;> subst h <;>
      simp (config := {decide := true})
    · rcases hsafe with h | h
      · simp [h]
      · have := h (Or.inl rfl); cases fix <;> simp [this]
    · rcases hsafe with h | h
      · simp [h]
      · have := h (Or.inr rfl); cases fix <;> simp [this]
  | some v =>
    rcases hc with h | h | h | h | h | h | h | h | h | h | h | h | h <;> subst h <;>
      simp (config := {decide := true}) [List.isPrefixOf_iff_prefix, List.isSuffixOf_iff_suffix, contains_iff]
    all_goals first
      | (rw [Bool.eq_iff_iff]; simp [List.isPrefixOf_iff_prefix, List.isSuffixOf_iff_suffix, contains_iff]; done)
      | (cases hp : parse v <;> cases hq : parse val <;> simp <;>
          exact numCmp_eq_semNum _ _ _ (parse_norm hp) (parse_norm hq))
/-! ## trees -/

theorem matchAll_single (fix : Bool) (t : Tags) (c : Node) :
    matchAll fix t (.cons c .nil) = matchN fix t c := by
  rw [matchAll]
  split
  · next h => rw [h, matchAll]
  · rfl

/-- the result is a Boolean (neither an error nor a panic) -/
def MRes.isVal : MRes → Bool
  | .val _ => true
  | _ => false

theorem MRes.isVal_iff (r : MRes) : r.isVal = true ↔ ∃ b, r = .val b := by
  cases r <;> simp [MRes.isVal]

theorem matchLeaf_total (fix : Bool) (t : Tags) (key cmp val : Str) (vals : List Str)
    (hwf : LeafWF key cmp val vals) : (matchLeaf fix t key cmp val vals).isVal = true := by
  have hc := leafWF_cases hwf
  unfold matchLeaf
  cases hl : t.lookup key with
  | none =>
    rcases hc with h | h | h | h | h | h | h | h | h | h | h | h | h <;> subst h <;>
      simp (config := {decide := true}) [MRes.isVal]
  | some v =>
    cases hp : parse v <;> cases hq : parse val <;>
    rcases hc with h | h | h | h | h | h | h | h | h | h | h | h | h <;> subst h <;>
      simp (config := {decide := true}) [hp, hq, MRes.isVal]

mutual
theorem matchN_total (fix : Bool) (t : Tags) :
    ∀ n, WellFormed n → (matchN fix t n).isVal = true
  | .mk op key cmp val vals nodes => by
    intro hwf
    have ihAll := matchAll_total fix t nodes
    have ihAny := matchAny_total fix t nodes
    rw [WellFormed.eq_def] at hwf; simp only at hwf
    rw [matchN.eq_def]; simp only
    rcases hwf with ⟨h, hl⟩ | ⟨h, hne, hall⟩ | ⟨h, hone, hall⟩
    · subst h; simp; exact matchLeaf_total _ _ _ _ _ _ hl
    · rcases h with h | h <;> subst h <;> simp (config := {decide := true})
      · exact ihAll hall
      · exact ihAny hall
    · subst h; simp (config := {decide := true})
      cases nodes with
      | nil => simp [OneChild] at hone
      | null r => simp [OneChild] at hone
      | cons c r =>
        cases r with
        | cons _ _ => simp [OneChild] at hone
        | null _ => simp [OneChild] at hone
        | nil =>
          have hb := ihAll hall
          rw [matchAll_single] at hb
          simp only []
          cases hm : matchN fix t c <;> simp [hm, MRes.isVal] at hb ⊢
theorem matchAll_total (fix : Bool) (t : Tags) :
    ∀ ns, AllWF ns → (matchAll fix t ns).isVal = true
  | .nil => by intros; simp [matchAll, MRes.isVal]
  | .null r => by intro h; simp [AllWF] at h
  | .cons c r => by
    intro hwf
    rw [AllWF] at hwf
    have h1 := matchN_total fix t c hwf.1
    have h2 := matchAll_total fix t r hwf.2
    rw [matchAll]
    cases hm : matchN fix t c with
    | val b => cases b <;> first | exact h2 | simp [MRes.isVal]
    | err e => simp [hm, MRes.isVal] at h1
    | panic => simp [hm, MRes.isVal] at h1
theorem matchAny_total (fix : Bool) (t : Tags) :
    ∀ ns, AllWF ns → (matchAny fix t ns).isVal = true
  | .nil => by intros; simp [matchAny, MRes.isVal]
  | .null r => by intro h; simp [AllWF] at h
  | .cons c r => by
    intro hwf
    rw [AllWF] at hwf
    have h1 := matchN_total fix t c hwf.1
    have h2 := matchAny_total fix t r hwf.2
    rw [matchAny]
    cases hm : matchN fix t c with
    | val b => cases b <;> first | exact h2 | simp [MRes.isVal]
    | err e => simp [hm, MRes.isVal] at h1
    | panic => simp [hm, MRes.isVal] at h1
end

/-! ## Validate -/

theorem validateAll_single (c : Node) : validateAll (.cons c .nil) = validate c := by
  rw [validateAll]
  split
  · next h => rw [h, validateAll]
  · rfl

theorem sAnd_ne : sAnd ≠ [] ∧ sOr ≠ [] ∧ sNot ≠ [] ∧ sAnd ≠ sOr ∧ sAnd ≠ sNot ∧ sOr ≠ sNot := by decide

mutual
theorem validate_ok_iff : ∀ n, validate n = .ok ↔ WellFormed n
  | .mk op key cmp val vals nodes => by
    have ih := validateAll_ok_iff nodes
    rw [validate.eq_def, WellFormed.eq_def]
    simp only
    by_cases h0 : op = []
    · subst h0; simp (config := {decide := true}) [validateLeaf_ok_iff]
    by_cases h1 : op = sAnd
    · subst h1; simp (config := {decide := true})
      cases nodes with
      | nil => simp [NonEmpty]
      | cons c r => simp [NonEmpty, ih]
      | null r => simp [NonEmpty, ih]
    by_cases h2 : op = sOr
    · subst h2; simp (config := {decide := true})
      cases nodes with
      | nil => simp [NonEmpty]
      | cons c r => simp [NonEmpty, ih]
      | null r => simp [NonEmpty, ih]
    by_cases h3 : op = sNot
    · subst h3; simp (config := {decide := true})
      cases nodes with
      | nil => simp [OneChild]
      | null r => cases r <;> simp [OneChild]
      | cons c r =>
        cases r with
        | nil => simp only []; rw [← validateAll_single]; simp [OneChild, ih]
        | cons _ _ => simp [OneChild]
        | null _ => simp [OneChild]
    simp [*]
theorem validateAll_ok_iff : ∀ ns, validateAll ns = .ok ↔ AllWF ns
  | .nil => by simp [validateAll, AllWF]
  | .null r => by simp [validateAll, AllWF]
  | .cons c r => by
    have ih1 := validate_ok_iff c
    have ih2 := validateAll_ok_iff r
    rw [validateAll, AllWF, ← ih1, ← ih2]
    split
    · next h => simp [h]
    · next h => simp; intro h'; exact absurd h' (by simpa using h)
end

/-! ## Match computes the denotation -/

mutual
theorem matchN_sem (fix : Bool) (t : Tags) :
    ∀ n, WellFormed n → (fix = true ∨ NoEmptyInSets n) → matchN fix t n = .val (sem t n)
  | .mk op key cmp val vals nodes => by
    intro hwf hs
    have ihAll := matchAll_sem fix t nodes
    have ihAny := matchAny_sem fix t nodes
    rw [WellFormed.eq_def] at hwf; simp only at hwf
    rw [matchN.eq_def, sem.eq_def]; simp only
    have hs' : fix = true ∨ NoEmptyInSetsAll nodes := by
      rcases hs with h | h
      · left; exact h
      · right; rw [NoEmptyInSets.eq_def] at h; exact h.2
    rcases hwf with ⟨h, hl⟩ | ⟨h, hne, hall⟩ | ⟨h, hone, hall⟩
    · subst h; simp
      apply matchLeaf_sem _ _ _ _ _ _ hl
      rcases hs with h | h
      · left; exact h
      · right; rw [NoEmptyInSets.eq_def] at h; exact h.1 rfl
    · rcases h with h | h <;> subst h <;> simp (config := {decide := true})
      · exact ihAll hall hs'
      · exact ihAny hall hs'
    · subst h; simp (config := {decide := true})
      cases nodes with
      | nil => simp [OneChild] at hone
      | null r => simp [OneChild] at hone
      | cons c r =>
        cases r with
        | cons _ _ => simp [OneChild] at hone
        | null _ => simp [OneChild] at hone
        | nil =>
          have := ihAll hall hs'
          rw [matchAll_single] at this
          simp only []
          rw [this]
theorem matchAll_sem (fix : Bool) (t : Tags) :
    ∀ ns, AllWF ns → (fix = true ∨ NoEmptyInSetsAll ns) → matchAll fix t ns = .val (semAll t ns)
  | .nil => by intros; simp [matchAll, semAll]
  | .null r => by intro h; simp [AllWF] at h
  | .cons c r => by
    intro hwf hs
    rw [AllWF] at hwf
    have hs1 : fix = true ∨ NoEmptyInSets c := by
      rcases hs with h | h
      · left; exact h
      · right; rw [NoEmptyInSetsAll] at h; exact h.1
    have hs2 : fix = true ∨ NoEmptyInSetsAll r := by
      rcases hs with h | h
      · left; exact h
      · right; rw [NoEmptyInSetsAll] at h; exact h.2
    have ih1 := matchN_sem fix t c hwf.1 hs1
    have ih2 := matchAll_sem fix t r hwf.2 hs2
    rw [matchAll, semAll, ih1]
    cases sem t c <;> simp [ih2]
theorem matchAny_sem (fix : Bool) (t : Tags) :
    ∀ ns, AllWF ns → (fix = true ∨ NoEmptyInSetsAll ns) → matchAny fix t ns = .val (semAny t ns)
  | .nil => by intros; simp [matchAny, semAny]
  | .null r => by intro h; simp [AllWF] at h
  | .cons c r => by
    intro hwf hs
    rw [AllWF] at hwf
    have hs1 : fix = true ∨ NoEmptyInSets c := by
      rcases hs with h | h
      · left; exact h
      · right; rw [NoEmptyInSetsAll] at h; exact h.1
    have hs2 : fix = true ∨ NoEmptyInSetsAll r := by
      rcases hs with h | h
      · left; exact h
      · right; rw [NoEmptyInSetsAll] at h; exact h.2
    have ih1 := matchN_sem fix t c hwf.1 hs1
    have ih2 := matchAny_sem fix t r hwf.2 hs2
    rw [matchAny, semAny, ih1]
    cases sem t c <;> simp [ih2]
end

/-! ## wire encoding -/

theorem varintAux_length (f n : Nat) : (varintAux f n).length = sovAux f n := by
  induction f generalizing n with
  | zero => simp [varintAux, sovAux]
  | succ f ih => unfold varintAux sovAux; split <;> simp [ih]; omega

theorem varint_length (n : Nat) : (varint n).length = sov n := varintAux_length 9 n

theorem fieldStr_length (tag : UInt8) (s : Str) : (fieldStr tag s).length = sizeStr s := by
  unfold fieldStr sizeStr; split <;> simp [varint_length]; omega

theorem marshalVals_length (vs : List Str) : (marshalVals vs).length = sizeVals vs := by
  induction vs with
  | nil => rfl
  | cons v vs ih => simp [marshalVals, sizeVals, varint_length, ih]; omega

mutual
theorem marshal_length : ∀ n, (marshal n).length = sizeVT n
  | .mk op key cmp val vals nodes => by
    have ih := marshalNodes_length nodes
    rw [marshal, sizeVT]
    simp [fieldStr_length, marshalVals_length, ih]; omega
theorem marshalNodes_length : ∀ ns, (marshalNodes ns).length = sizeNodes ns
  | .nil => by simp [marshalNodes, sizeNodes]
  | .null r => by
    have ih := marshalNodes_length r
    simp [marshalNodes, sizeNodes, ih, sov, sovAux]; omega
  | .cons c r => by
    have ih1 := marshal_length c
    have ih2 := marshalNodes_length r
    simp [marshalNodes, sizeNodes, varint_length, ih1, ih2]; omega
end

end CentrifugeVerif.Filter
