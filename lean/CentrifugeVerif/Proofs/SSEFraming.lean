import CentrifugeVerif.Model.SSE
/-!
Helper lemmas for C32 (SSE): how the EventSource state machine consumes the frames written by
`handler_sse.go`.
-/
namespace CentrifugeVerif.C32
open CentrifugeVerif.EventSource

/-- no message contains a raw LF or CR byte -/
def NoRawNewline (msgs : List Bytes) : Prop := ∀ m ∈ msgs, ∀ b ∈ m, b ≠ 10 ∧ b ≠ 13

theorem ascii_data_prefix : ascii "data: " = [100, 97, 116, 97, 58, 32] := by decide
theorem ascii_data : ascii "data" = [100, 97, 116, 97] := by decide

theorem step_plain (st : St) (x : UInt8) (h1 : x ≠ 10) (h2 : x ≠ 13) :
    step st x = { st with line := x :: st.line, skipLF := false } := by
  unfold step
  simp [h1, h2]

theorem foldl_plain (xs : Bytes) (st : St) (hx : ∀ b ∈ xs, b ≠ 10 ∧ b ≠ 13) (hs : st.skipLF = false) :
    xs.foldl step st = { st with line := xs.reverse ++ st.line } := by
  induction xs generalizing st with
  | nil => simp
  | cons x xs ih =>
    have hx1 := hx x (by simp)
    simp only [List.foldl]
    rw [step_plain st x hx1.1 hx1.2, ih _ (fun b hb => hx b (by simp [hb])) rfl]
    cases st
    simp_all

def Clean (st : St) : Prop := st.line = [] ∧ st.data = [] ∧ st.etype = [] ∧ st.skipLF = false

theorem feed_frame (m : Bytes) (st : St) (hm : ∀ b ∈ m, b ≠ 10 ∧ b ≠ 13) (hc : Clean st) :
    (SSE.rawFrame m).foldl step st = { st with out := ⟨[], m, st.lastId⟩ :: st.out } := by
  obtain ⟨h1, h2, h3, h4⟩ := hc
  have hpm : ∀ b ∈ ascii "data: " ++ m, b ≠ 10 ∧ b ≠ 13 := by
    intro b hb
    rw [List.mem_append] at hb
    rcases hb with hb | hb
    · rw [ascii_data_prefix] at hb
      simp at hb
      rcases hb with rfl | rfl | rfl | rfl | rfl | rfl <;> decide
    · exact hm b hb
  unfold SSE.rawFrame
  rw [List.foldl_append, foldl_plain _ _ hpm h4]
  cases st with
  | mk line data etype lastId out skipLF =>
  simp only at h1 h2 h3 h4
  subst h1 h2 h3 h4
  simp [List.foldl, step, processLine, ascii_data_prefix, splitColon, processField, ascii_data, stripSpace, dispatch]

theorem feed_frames (msgs : List Bytes) (st : St) (h : NoRawNewline msgs) (hc : Clean st) :
    (msgs.flatMap SSE.rawFrame).foldl step st =
      { st with out := (msgs.map (fun m => (⟨[], m, st.lastId⟩ : Event))).reverse ++ st.out } := by
  induction msgs generalizing st with
  | nil => simp
  | cons m ms ih =>
    simp only [List.flatMap_cons, List.foldl_append]
    rw [feed_frame m st (h m (by simp)) hc]
    rw [ih _ (fun m' hm' => h m' (by simp [hm']))]
    · simp
    · exact hc

theorem preamble_noop : SSE.preamble.foldl step {} = {} := by decide

end CentrifugeVerif.C32
