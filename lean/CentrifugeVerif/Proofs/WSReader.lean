import CentrifugeVerif.Model.WS.Reader
/-! Invariants of the reader model: which frames are written back on which error, no panics,
fuel suffices. -/
namespace CentrifugeVerif.WS.Reader
open CentrifugeVerif.WS

/-- the last frame written is a Close frame whose body starts with the 2-byte code -/
def LastClose (code : Nat) (st : RState) : Prop :=
  ∃ pre payload, st.written = pre ++ [⟨opClose, payload⟩] ∧ payload.take 2 = toBE 2 code

theorem writeControl_close (st : RState) (data : Bytes) (h : st.closeSent = false)
    (hl : data.length ≤ 125) :
    (writeControl st opClose data).1 =
      { st with written := st.written ++ [⟨opClose, data⟩], closeSent := true } := by
  unfold writeControl
  have : ¬ data.length > 125 := by omega
  simp [this, h, opClose]

theorem writeControl_pong (st : RState) (data : Bytes) :
    (writeControl st opPong data).1.closeSent = st.closeSent ∧
    (writeControl st opPong data).1.result = st.result ∧
    (writeControl st opPong data).1.events = st.events ∧
    (writeControl st opPong data).1.devs = st.devs ∧
    (writeControl st opPong data).1.input = st.input := by
  unfold writeControl
  split
  · simp
  · split
    · simp
    · simp [opPong, opClose]

theorem formatClose_1002 (t : Bytes) : formatClose 1002 t = [0x03, 0xea] ++ t := by
  simp [formatClose, toBE]

theorem formatClose_1009 (t : Bytes) : formatClose 1009 t = [0x03, 0xf1] ++ t := by
  simp [formatClose, toBE]

theorem handleProtocolError_spec (st : RState) (msg : String) (h : st.closeSent = false) :
    ∃ st', handleProtocolError st msg = .err (.proto msg) st' ∧ LastClose 1002 st' := by
  unfold handleProtocolError
  refine ⟨_, rfl, ?_⟩
  have hl : ((formatClose 1002 msg.toUTF8.toList).take 125).length ≤ 125 := by
    simp [List.length_take]; omega
  rw [writeControl_close st _ h hl]
  refine ⟨st.written, _, rfl, ?_⟩
  rw [formatClose_1002]
  simp [List.take_take, toBE]

/-- what one `advanceFrame` call guarantees when no close frame was written before -/
def AdvInv (st : RState) : Adv → Prop
  | .ok _ st' => st'.closeSent = false ∧ st'.result = st.result
  | .err (.proto _) st' => LastClose 1002 st'
  | .err .readLimit st' =>
      LastClose 1009 st' ∨ Dev.len64Msb ∈ st'.devs
  | .err (.panic _) _ => False
  | .err .fuel _ => False
  | .err .unexpectedData _ => False
  | .err _ _ => True

theorem dataFrame_inv (cfg : Cfg) (ft : Nat) (st0 st : RState) (h : st.closeSent = false)
    (hr : st.result = st0.result) : AdvInv st0 (dataFrame cfg ft st) := by
  unfold dataFrame
  simp only []
  split
  · simp only [AdvInv]
    left
    rw [writeControl_close _ _ (by simpa using h) (by simp [formatClose_1009])]
    exact ⟨_, _, rfl, by simp [formatClose_1009, toBE]⟩
  · split
    · simp only [AdvInv]
      left
      rw [writeControl_close _ _ (by simpa using h) (by simp [formatClose_1009])]
      exact ⟨_, _, rfl, by simp [formatClose_1009, toBE]⟩
    · simp [AdvInv, h, hr]

theorem readN_some {st : RState} {n : Nat} {p : Bytes} {st' : RState} (h : readN st n = some (p, st')) :
    st' = { st with input := st.input.drop n } ∧ p = st.input.take n ∧ n ≤ st.input.length := by
  unfold readN at h
  split at h
  · cases h
  · simp only [Option.some.injEq, Prod.mk.injEq] at h
    exact ⟨h.2.symm, h.1.symm, by omega⟩

theorem processControl_inv (ft : Nat) (payload : Bytes) (st0 st : RState) (h : st.closeSent = false)
    (hr : st.result = st0.result) : AdvInv st0 (processControl ft payload st) := by
  unfold processControl
  split
  · simp [AdvInv, h, hr]
  · split
    · have := writeControl_pong { st with events := st.events ++ [Event.ping payload] } payload
      simp only [AdvInv]
      rw [this.1, this.2.1]
      exact ⟨h, hr⟩
    · match payload with
      | [] => simp [AdvInv]
      | [_] =>
        obtain ⟨st', he, hl⟩ := handleProtocolError_spec st "invalid close payload length" h
        simp only []
        rw [he]; exact hl
      | a :: b :: text =>
        simp only []
        by_cases hc : (!goValidCloseCode (a.toNat * 256 + b.toNat)) = true
        · rw [if_pos hc]
          obtain ⟨st', he, hl⟩ := handleProtocolError_spec st
            ("bad close code " ++ toString (a.toNat * 256 + b.toNat)) h
          rw [he]; exact hl
        · rw [if_neg hc]
          by_cases hu : (!utf8Valid text) = true
          · rw [if_pos hu]
            obtain ⟨st', he, hl⟩ := handleProtocolError_spec st "invalid utf8 payload in close frame" h
            rw [he]; exact hl
          · rw [if_neg hu]; simp [AdvInv]

theorem processControl_ok_input {ft ft' : Nat} {payload : Bytes} {st st' : RState}
    (h : processControl ft payload st = .ok ft' st') : st'.input = st.input := by
  unfold processControl at h
  split at h
  · simp only [Adv.ok.injEq] at h
    rw [← h.2]
  · split at h
    · simp only [Adv.ok.injEq] at h
      rw [← h.2, (writeControl_pong _ payload).2.2.2.2]
    · match payload with
      | [] => simp at h
      | [_] => simp only [] at h; unfold handleProtocolError at h; cases h
      | a :: b :: text =>
        simp only [] at h
        by_cases hc : (!goValidCloseCode (a.toNat * 256 + b.toNat)) = true
        · rw [if_pos hc] at h; unfold handleProtocolError at h; cases h
        · rw [if_neg hc] at h
          by_cases hu : (!utf8Valid text) = true
          · rw [if_pos hu] at h; unfold handleProtocolError at h; cases h
          · rw [if_neg hu] at h; cases h

theorem controlFrame_inv (cfg : Cfg) (ft : Nat) (st0 st : RState) (h : st.closeSent = false)
    (hr : st.result = st0.result) : AdvInv st0 (controlFrame cfg ft st) := by
  unfold controlFrame
  simp only []
  split
  · simp [AdvInv]
  · rename_i payload st1 hpay
    have h1 : st1.closeSent = false ∧ st1.result = st0.result := by
      split at hpay
      · split at hpay
        · cases hpay
        · rename_i p st2 hrd
          simp only [Option.some.injEq, Prod.mk.injEq] at hpay
          obtain ⟨hst, _, _⟩ := readN_some hrd
          rw [← hpay.2, hst]
          simp [h, hr]
      · simp only [Option.some.injEq, Prod.mk.injEq] at hpay
        rw [← hpay.2]; exact ⟨h, hr⟩
    exact processControl_inv ft payload st0 st1 h1.1 h1.2

theorem readLen_ok {st st' : RState} (h : readLen st = .ok st') :
    st'.closeSent = st.closeSent ∧ st'.result = st.result := by
  unfold readLen at h
  split at h
  · split at h
    · cases h
    · rename_i p st1 hrd
      obtain ⟨hst, _, _⟩ := readN_some hrd
      simp only [Except.ok.injEq] at h
      rw [← h, hst]; simp
  · split at h
    · split at h
      · cases h
      · rename_i p st1 hrd
        obtain ⟨hst, _, _⟩ := readN_some hrd
        split at h
        · cases h
        · simp only [Except.ok.injEq] at h
          rw [← h, hst]; simp
    · simp only [Except.ok.injEq] at h
      rw [← h]; simp

theorem readLen_err {st st' : RState} {e : RErr} (h : readLen st = .error (e, st')) :
    e = .eof ∨ (e = .readLimit ∧ Dev.len64Msb ∈ st'.devs) := by
  unfold readLen at h
  split at h
  · split at h
    · simp only [Except.error.injEq, Prod.mk.injEq] at h; exact Or.inl h.1.symm
    · cases h
  · split at h
    · split at h
      · simp only [Except.error.injEq, Prod.mk.injEq] at h; exact Or.inl h.1.symm
      · split at h
        · simp only [Except.error.injEq, Prod.mk.injEq] at h
          right; refine ⟨h.1.symm, ?_⟩; rw [← h.2]; simp
        · cases h
    · cases h

theorem readMask_inv (m : Bool) (st0 st st' : RState) (h : st.closeSent = false)
    (hr : st.result = st0.result) (hm : readMask m st = some st') :
    st'.closeSent = false ∧ st'.result = st0.result := by
  unfold readMask at hm
  split at hm
  · split at hm
    · rename_i a b c d st1 hrd
      obtain ⟨hst, _, _⟩ := readN_some hrd
      simp only [Option.some.injEq] at hm
      rw [← hm, hst]; simp [h, hr]
    · cases hm
  · simp only [Option.some.injEq] at hm
    rw [← hm]; exact ⟨h, hr⟩

theorem frameBody_inv (cfg : Cfg) (hd : Hdr) (st0 st : RState) (h : st.closeSent = false)
    (hr : st.result = st0.result) : AdvInv st0 (frameBody cfg hd st) := by
  unfold frameBody
  split
  · rename_i e st1 heq
    rcases readLen_err heq with rfl | ⟨rfl, hm⟩
    · simp [AdvInv]
    · simp [AdvInv, hm]
  · rename_i st1 heq
    have hl := readLen_ok heq
    split
    · simp [AdvInv]
    · rename_i st2 hmk
      have h2 := readMask_inv hd.masked st0 st1 st2 (by rw [hl.1]; exact h) (by rw [hl.2]; exact hr) hmk
      split
      · exact dataFrame_inv cfg _ st0 st2 h2.1 h2.2
      · exact controlFrame_inv cfg _ st0 st2 h2.1 h2.2

theorem advanceFrame_inv (cfg : Cfg) (st : RState) (h : st.closeSent = false) :
    AdvInv st (advanceFrame cfg st) := by
  unfold advanceFrame
  simp only []
  split
  · simp [AdvInv]
  · rename_i st1 hsk
    have h1 : st1.closeSent = false ∧ st1.result = st.result := by
      split at hsk
      · split at hsk
        · cases hsk
        · simp only [Option.some.injEq] at hsk
          rw [← hsk]; simp [h]
      · simp only [Option.some.injEq] at hsk
        rw [← hsk]; simp [h]
    split
    · simp [AdvInv]
    · rename_i p st2 hrd
      obtain ⟨hst, hp, hlen⟩ := readN_some hrd
      split
      · rename_i p0 p1
        split
        · obtain ⟨st', he, hl⟩ := handleProtocolError_spec
            { st2 with readRemaining := (parseHdr p0 p1).len7,
                       readDecompress := (parseHdr p0 p1).rsv1 && cfg.deflate,
                       readFinal := if isDataOp (parseHdr p0 p1).opcode || (parseHdr p0 p1).opcode == 0
                                    then (parseHdr p0 p1).fin else st2.readFinal }
            (", ".intercalate (headerErrs cfg st2.readFinal (parseHdr p0 p1)))
            (by rw [hst]; simp [h1.1])
          rw [he]; exact hl
        · apply frameBody_inv
          · rw [hst]; simp [h1.1]
          · rw [hst]; simp [h1.2]
      · -- p has exactly two bytes
        rename_i hne
        exfalso
        have h2 : p.length = 2 := by rw [hp]; simp; omega
        match p, h2 with
        | [a, b], _ => exact hne a b rfl

theorem readLen_ok_input {st st' : RState} (h : readLen st = .ok st') :
    st'.input.length ≤ st.input.length := by
  unfold readLen at h
  split at h
  · split at h
    · cases h
    · rename_i p st1 hrd
      obtain ⟨hst, _, _⟩ := readN_some hrd
      simp only [Except.ok.injEq] at h
      rw [← h, hst]; simp
  · split at h
    · split at h
      · cases h
      · rename_i p st1 hrd
        obtain ⟨hst, _, _⟩ := readN_some hrd
        split at h
        · cases h
        · simp only [Except.ok.injEq] at h
          rw [← h, hst]; simp
    · simp only [Except.ok.injEq] at h
      rw [← h]; exact Nat.le_refl _

theorem readMask_input {m : Bool} {st st' : RState} (hm : readMask m st = some st') :
    st'.input.length ≤ st.input.length := by
  unfold readMask at hm
  split at hm
  · split at hm
    · rename_i a b c d st1 hrd
      obtain ⟨hst, _, _⟩ := readN_some hrd
      simp only [Option.some.injEq] at hm
      rw [← hm, hst]; simp
    · cases hm
  · simp only [Option.some.injEq] at hm
    rw [← hm]; exact Nat.le_refl _

theorem dataFrame_ok_input {cfg : Cfg} {ft ft' : Nat} {st st' : RState}
    (h : dataFrame cfg ft st = .ok ft' st') : st'.input = st.input := by
  unfold dataFrame at h
  simp only [] at h
  split at h
  · cases h
  · split at h
    · cases h
    · simp only [Adv.ok.injEq] at h
      rw [← h.2]

theorem controlFrame_ok_input {cfg : Cfg} {ft ft' : Nat} {st st' : RState}
    (h : controlFrame cfg ft st = .ok ft' st') : st'.input.length ≤ st.input.length := by
  unfold controlFrame at h
  simp only [] at h
  split at h
  · cases h
  · rename_i payload st1 hpay
    have h1 : st1.input.length ≤ st.input.length := by
      split at hpay
      · split at hpay
        · cases hpay
        · rename_i p st2 hrd
          simp only [Option.some.injEq, Prod.mk.injEq] at hpay
          obtain ⟨hst, _, _⟩ := readN_some hrd
          rw [← hpay.2, hst]; simp
      · simp only [Option.some.injEq, Prod.mk.injEq] at hpay
        rw [← hpay.2]; exact Nat.le_refl _
    rw [processControl_ok_input h]; exact h1

theorem frameBody_ok_input {cfg : Cfg} {hd : Hdr} {ft : Nat} {st st' : RState}
    (h : frameBody cfg hd st = .ok ft st') : st'.input.length ≤ st.input.length := by
  unfold frameBody at h
  split at h
  · cases h
  · rename_i st1 heq
    have h1 := readLen_ok_input heq
    split at h
    · cases h
    · rename_i st2 hmk
      have h2 := readMask_input hmk
      split at h
      · rw [dataFrame_ok_input h]; omega
      · have := controlFrame_ok_input h; omega

/-- a successful `advanceFrame` consumes at least the two header bytes -/
theorem advanceFrame_ok_input {cfg : Cfg} {ft : Nat} {st st' : RState}
    (h : advanceFrame cfg st = .ok ft st') : st'.input.length + 2 ≤ st.input.length := by
  unfold advanceFrame at h
  simp only [] at h
  split at h
  · cases h
  · rename_i st1 hsk
    have h1 : st1.input.length ≤ st.input.length := by
      split at hsk
      · split at hsk
        · cases hsk
        · simp only [Option.some.injEq] at hsk
          rw [← hsk]; simp
      · simp only [Option.some.injEq] at hsk
        rw [← hsk]; exact Nat.le_refl _
    split at h
    · cases h
    · rename_i p st2 hrd
      obtain ⟨hst, hp, hlen⟩ := readN_some hrd
      split at h
      · split at h
        · unfold handleProtocolError at h; cases h
        · have := frameBody_ok_input h
          simp only [hst, List.length_drop] at this
          omega
      · cases h

/-- the properties of a finished run that follow from `AdvInv` -/
def RunGood (r : RState) : Prop :=
  (∀ msg, r.result = some (.proto msg) → LastClose 1002 r) ∧
  (r.result = some .readLimit →
      LastClose 1009 r ∨ Dev.len64Msb ∈ r.devs) ∧
  (∀ w, r.result ≠ some (.panic w)) ∧ r.result ≠ none

theorem runGood_finish_of_adv {st0 : RState} {e : RErr} {st' : RState}
    (h : AdvInv st0 (.err e st')) : RunGood (finish e st') := by
  unfold RunGood finish
  cases e <;> simp_all [AdvInv, LastClose]

theorem readPayload_some {cfg : Cfg} {st st2 : RState} {chunk : Bytes}
    (h : readPayload cfg st = some (chunk, st2)) :
    st2.closeSent = st.closeSent ∧ st2.result = st.result ∧
    st2.input.length + st.readRemaining = st.input.length := by
  unfold readPayload at h
  split at h
  · cases h
  · simp only [Option.some.injEq, Prod.mk.injEq] at h
    rw [← h.2]
    simp; omega

theorem deliver_error {cfg : Cfg} {typ : Nat} {dec : Bool} {acc : Bytes} {st r : RState}
    (hc : st.closeSent = false) (h : deliver cfg typ dec acc st = .error r) : RunGood r := by
  unfold deliver at h
  split at h
  · split at h
    · simp only [Except.error.injEq] at h
      rw [← h]; simp [RunGood, finish]
    · split at h
      · simp only [Except.error.injEq] at h
        rw [← h]
        simp only [RunGood, finish]
        rw [writeControl_close _ _ hc (by rw [formatClose_1009]; decide)]
        refine ⟨by simp, ?_, by simp, by simp⟩
        intro _
        left
        exact ⟨_, _, rfl, by rw [formatClose_1009]; simp [toBE]⟩
      · cases h
  · cases h

theorem deliver_ok {cfg : Cfg} {typ : Nat} {dec : Bool} {acc : Bytes} {st st3 : RState}
    (h : deliver cfg typ dec acc st = .ok st3) :
    st3.closeSent = st.closeSent ∧ st3.result = st.result ∧ st3.input = st.input := by
  unfold deliver at h
  split at h
  · split at h
    · cases h
    · split at h
      · cases h
      · simp only [Except.ok.injEq] at h
        rw [← h]; simp
  · simp only [Except.ok.injEq] at h
    rw [← h]; simp

theorem run_good (cfg : Cfg) : ∀ (fuel : Nat) (frag : Option Frag) (st : RState),
    st.closeSent = false → st.result = none → RunGood (run cfg fuel frag st) := by
  intro fuel
  induction fuel with
  | zero =>
    intro frag st _ _
    simp [run, RunGood, finish]
  | succ n ih =>
    intro frag st hc hr
    unfold run
    have hinv := advanceFrame_inv cfg st hc
    split
    · rename_i e st' heq
      rw [heq] at hinv
      exact runGood_finish_of_adv hinv
    · rename_i ft st' heq
      rw [heq] at hinv
      simp only [AdvInv] at hinv
      have hr' : st'.result = none := by rw [hinv.2, hr]
      split
      · exact ih _ _ hinv.1 hr'
      · split
        · exact ih _ _ hinv.1 hr'
        · split
          · simp [RunGood, finish]
          · simp only []
            split
            · simp [RunGood, finish]
            · rename_i chunk st2 hpay
              obtain ⟨h2c, h2r, _⟩ := readPayload_some hpay
              split
              · exact ih _ _ (by rw [h2c]; exact hinv.1) (by rw [h2r]; exact hr')
              · split
                · rename_i r hdel
                  exact deliver_error (by simp [h2c, hinv.1]) hdel
                · rename_i st3 hdel
                  have hd := deliver_ok hdel
                  exact ih _ _ (by rw [hd.1]; simp [h2c, hinv.1]) (by rw [hd.2.1]; simp [h2r, hr'])

theorem deliver_error_result {cfg : Cfg} {typ : Nat} {dec : Bool} {acc : Bytes} {st r : RState}
    (h : deliver cfg typ dec acc st = .error r) : r.result ≠ some .fuel := by
  unfold deliver at h
  split at h
  · split at h
    · simp only [Except.error.injEq] at h
      rw [← h]; simp [finish]
    · split at h
      · simp only [Except.error.injEq] at h
        rw [← h]; simp [finish]
      · cases h
  · cases h

/-- one unit of fuel per two bytes of input suffices: the loop never ends for lack of fuel -/
theorem run_fuel (cfg : Cfg) : ∀ (fuel : Nat) (frag : Option Frag) (st : RState),
    st.closeSent = false → st.input.length < 2 * fuel →
    (run cfg fuel frag st).result ≠ some .fuel := by
  intro fuel
  induction fuel with
  | zero => intro frag st _ h; omega
  | succ n ih =>
    intro frag st hc hl
    unfold run
    have hinv := advanceFrame_inv cfg st hc
    split
    · rename_i e st' heq
      rw [heq] at hinv
      cases e <;> simp_all [AdvInv, finish]
    · rename_i ft st' heq
      rw [heq] at hinv
      simp only [AdvInv] at hinv
      have hcons := advanceFrame_ok_input heq
      split
      · exact ih _ _ hinv.1 (by omega)
      · split
        · exact ih _ _ hinv.1 (by omega)
        · split
          · simp [finish]
          · simp only []
            split
            · simp [finish]
            · rename_i chunk st2 hpay
              obtain ⟨h2c, h2r, h2l⟩ := readPayload_some hpay
              split
              · exact ih _ _ (by rw [h2c]; exact hinv.1) (by omega)
              · split
                · rename_i r hdel
                  exact deliver_error_result hdel
                · rename_i st3 hdel
                  have hd := deliver_ok hdel
                  exact ih _ _ (by rw [hd.1]; simp [h2c, hinv.1]) (by rw [hd.2.2]; simp; omega)

end CentrifugeVerif.WS.Reader
