import CentrifugeVerif.Model.ControlUnsub
import CentrifugeVerif.Proofs.ControlCodec
/-!
Helper lemmas for C28 (`Props/C28.lean`).
-/
namespace CentrifugeVerif.ControlUnsub
open CentrifugeVerif.Gen.ControlCodec

/-- well-formed connection: `c.channels` is a map (distinct channel names) and the empty channel name is never
subscribed (`Client.Subscribe` and the subscribe command reject it). -/
def ConnWF (c : Conn) : Prop := (c.subs.map (·.ch)).Nodup ∧ "" ∉ c.subs.map (·.ch)

/-- the hub call a remote node makes is the hub call the calling node makes (C27 for unsubscribe) -/
theorem remote_eq_local (u ch : String) (o : GUnsubscribeOptions) :
    remoteUnsubscribe (encodeUnsubscribe u ch o) = localUnsubscribe u ch o := by
  simpa using unsubscribe_roundtrip u ch o

theorem flatMap_congr' {α β : Type} {l : List α} {f g : α → List β} (h : ∀ a ∈ l, f a = g a) :
    l.flatMap f = l.flatMap g := by
  induction l with
  | nil => rfl
  | cons a t ih =>
    simp only [List.flatMap_cons]
    rw [h a List.mem_cons_self, ih (fun x hx => h x (List.mem_cons_of_mem _ hx))]

theorem filter_ne_self (l : List Sub) (x : String) (h : x ∉ l.map (·.ch)) :
    l.filter (fun s => s.ch != x) = l := by
  induction l with
  | nil => rfl
  | cons a t ih =>
    simp only [List.map_cons, List.mem_cons, not_or] at h
    have ha : (a.ch != x) = true := by
      simp only [bne_iff_ne, ne_eq]
      exact fun e => h.1 e.symm
    simp [ha, ih h.2]

/-- unsubscribing the channels of a connection one after the other removes all of them and produces exactly the
per-channel effects, in order. -/
theorem unsubList_all (id user session : String) (labels : List (String × String)) (u : GUnsubscribe) :
    ∀ subs : List Sub, (subs.map (·.ch)).Nodup →
      unsubList { id, user, session, labels, subs } u (subs.map (·.ch)) =
        ({ id, user, session, labels, subs := [] }, subs.flatMap (effects id u))
  | [], _ => by simp [unsubList]
  | s :: rest, h => by
    simp only [List.map_cons, List.nodup_cons] at h
    have ih := unsubList_all id user session labels u rest h.2
    have hf : (s :: rest).filter (fun t => t.ch != s.ch) = rest := by
      simp [filter_ne_self rest s.ch h.1]
    simp only [List.map_cons, unsubList, unsubOne, List.find?_cons, beq_self_eq_true, hf, ih,
      List.flatMap_cons]

theorem clientUnsubscribe_fixed_empty (c : Conn) (u : GUnsubscribe) (h : ConnWF c) :
    clientUnsubscribe .fixed c "" u = ({ c with subs := [] }, c.subs.flatMap (effects c.id u)) := by
  obtain ⟨id, user, session, labels, subs⟩ := c
  simpa [clientUnsubscribe] using unsubList_all id user session labels u subs h.1

theorem clientUnsubscribe_preFix_empty (c : Conn) (u : GUnsubscribe) (h : ConnWF c) :
    clientUnsubscribe .preFix c "" u = (c, [Ev.push c.id "" u.Code u.Reason]) := by
  have hnone : c.subs.find? (fun s => s.ch == "") = none := by
    rw [List.find?_eq_none]
    intro s hs
    have : s.ch ≠ "" := fun e => h.2 (List.mem_map.mpr ⟨s, hs, e⟩)
    simpa using this
  simp [clientUnsubscribe, unsubOne, hnone]

/-- specification of one node for the empty channel (the documented behaviour) -/
def specConns (fm : FilterMatch) (call : UnsubscribeCall) (conns : List Conn) : List Conn :=
  conns.map fun c => if addressed fm call c then { c with subs := [] } else c

def specEvents (fm : FilterMatch) (call : UnsubscribeCall) (conns : List Conn) : List Ev :=
  conns.flatMap fun c => if addressed fm call c then c.subs.flatMap (effects c.id call.unsubscribe) else []

theorem hubUnsubscribe_fixed_empty (fm : FilterMatch) (call : UnsubscribeCall) (hch : call.ch = "") :
    ∀ conns : List Conn, (∀ c ∈ conns, ConnWF c) →
      hubUnsubscribe .fixed fm call conns = (specConns fm call conns, specEvents fm call conns)
  | [], _ => by simp [hubUnsubscribe, specConns, specEvents]
  | c :: cs, h => by
    have ih := hubUnsubscribe_fixed_empty fm call hch cs (fun x hx => h x (List.mem_cons_of_mem _ hx))
    have hc := h c List.mem_cons_self
    simp only [hubUnsubscribe, ih, hch]
    by_cases ha : addressed fm call c = true
    · simp [ha, specConns, specEvents, clientUnsubscribe_fixed_empty c call.unsubscribe hc]
    · simp [ha, specConns, specEvents]

theorem hubUnsubscribe_preFix_empty (fm : FilterMatch) (call : UnsubscribeCall) (hch : call.ch = "") :
    ∀ conns : List Conn, (∀ c ∈ conns, ConnWF c) →
      hubUnsubscribe .preFix fm call conns =
        (conns, conns.flatMap fun c =>
          if addressed fm call c then [Ev.push c.id "" call.unsubscribe.Code call.unsubscribe.Reason] else [])
  | [], _ => by simp [hubUnsubscribe]
  | c :: cs, h => by
    have ih := hubUnsubscribe_preFix_empty fm call hch cs (fun x hx => h x (List.mem_cons_of_mem _ hx))
    have hc := h c List.mem_cons_self
    simp only [hubUnsubscribe, ih, hch]
    by_cases ha : addressed fm call c = true
    · simp [ha, clientUnsubscribe_preFix_empty c call.unsubscribe hc]
    · simp [ha]

/-- every node of the cluster executes the calling node's hub call -/
theorem clusterUnsubscribe_eq (m : Mode) (fm : FilterMatch) (i : Nat) (u ch : String) (o : GUnsubscribeOptions) :
    ∀ (j : Nat) (cluster : List (List Conn)),
      clusterUnsubscribe m fm i u ch o j cluster =
        ((cluster.map fun n => (hubUnsubscribe m fm (localUnsubscribe u ch o) n).1),
         (cluster.flatMap fun n => (hubUnsubscribe m fm (localUnsubscribe u ch o) n).2))
  | _, [] => by simp [clusterUnsubscribe]
  | j, n :: ns => by
    simp [clusterUnsubscribe, remote_eq_local, clusterUnsubscribe_eq m fm i u ch o (j + 1) ns]

theorem local_ch (u ch : String) (o : GUnsubscribeOptions) : (localUnsubscribe u ch o).ch = ch := by
  simp only [localUnsubscribe]
  split <;> rfl

end CentrifugeVerif.ControlUnsub
