import CentrifugeVerif.Model.Sync
import CentrifugeVerif.Proofs.Live
/-! Inductive invariant of the `Sync` transition system (helper for C01). -/
namespace CentrifugeVerif.Sync
open CentrifugeVerif.Live CentrifugeVerif.SubReply CentrifugeVerif.Merge

/-- log shape once the reply has been written: the reply, then only pushes / insufficient marks,
and the pushed offsets form a sublist of `pos+1 … pos+n` where `pos+n` is the current position. -/
def LogOK (req : Req) (hist : Hist) (s : St) (committed : Bool) : Prop :=
  ∃ r pubs off pos e rest, subscribe req hist s.taken = .reply r pubs off pos e ∧
    s.log = .reply r pubs off :: rest ∧
    (∀ ev ∈ rest, (∃ o, ev = .push o) ∨ ev = .insufficient) ∧
    (if committed then
      ∃ n ep, s.sub = some ⟨pos + n, ep⟩ ∧ (pushes rest).Sublist (List.range' (pos + 1) n)
     else s.sub = none ∧ rest = [] ∧ s.pending = some (pos, e))

def InvS (req : Req) (hist : Hist) (s : St) : Prop :=
  match s.spc with
  | .s0 => s.entry = false ∧ s.inSub = false ∧ s.muHeld = false ∧ s.inHub = false ∧ s.sub = none ∧ s.log = []
  | .s1 => s.entry = true ∧ s.inSub = true ∧ s.muHeld = false ∧ s.inHub = false ∧ s.sub = none ∧ s.log = []
  | .s2 => s.entry = true ∧ s.inSub = true ∧ s.muHeld = false ∧ s.inHub = true ∧ s.sub = none ∧ s.log = []
  | .s3 => s.entry = true ∧ s.inSub = true ∧ s.muHeld = false ∧ s.inHub = true ∧ s.sub = none ∧ s.log = []
  | .s4 => s.entry = true ∧ s.inSub = true ∧ s.muHeld = true ∧ s.inHub = true ∧ s.sub = none ∧ s.log = []
  | .s5 => s.entry = true ∧ s.inSub = true ∧ s.muHeld = true ∧ s.inHub = true ∧ LogOK req hist s false
  | .s6 => s.entry = true ∧ s.inSub = true ∧ s.muHeld = true ∧ s.inHub = true ∧ LogOK req hist s true
  | .s7 => s.entry = false ∧ s.inSub = false ∧ s.muHeld = false ∧ s.inHub = true ∧ LogOK req hist s true
  | .failed => s.entry = false ∧ s.inSub = false ∧ s.muHeld = false ∧ s.inHub = false ∧ s.sub = none ∧ s.log = []

/-- where the broadcaster can be, relative to the subscriber -/
def InvB (s : St) : Prop :=
  (match s.bpc with
   | .idle => True
   | .gotEntry _ => s.spc ≠ .s0 ∧ s.spc ≠ .s1
   | .wantMu _ => s.spc ≠ .s0 ∧ s.spc ≠ .s1
   | .live _ => s.spc = .s7 ∨ s.spc = .failed) ∧
  (s.spc ≠ .failed → s.dropped = [])

def Inv (req : Req) (hist : Hist) (s : St) : Prop := InvS req hist s ∧ InvB s

theorem inv_init (req : Req) (hist : Hist) : Inv req hist {} := by
  simp [Inv, InvS, InvB]

theorem pushes_append (a b : List Event) : pushes (a ++ b) = pushes a ++ pushes b := by
  induction a with
  | nil => rfl
  | cons e es ih => cases e <;> simp [pushes, ih]

/-- the live step extends the log shape -/
theorem logOK_live (req : Req) (hist : Hist) (s : St) (d : Inc) (sub : Sub)
    (hsub : s.sub = some sub) (h : LogOK req hist s true) :
    LogOK req hist
      { s with bpc := .idle, sub := some (liveStep sub d).1,
               log := s.log ++ (match (liveStep sub d).2 with
                 | .deliver o => [.push o]
                 | .insufficient _ => [.insufficient]
                 | _ => []) } true := by
  obtain ⟨r, pubs, off, pos, e, rest, h1, h2, h3, h4⟩ := h
  simp only [if_true] at h4
  obtain ⟨n, ep, hs, hsl⟩ := h4
  rw [hsub] at hs
  simp only [Option.some.injEq] at hs
  subst hs
  have hc := liveStep_cases ⟨pos + n, ep⟩ d
  refine ⟨r, pubs, off, pos, e, rest ++ (match (liveStep ⟨pos + n, ep⟩ d).2 with
                 | .deliver o => [.push o]
                 | .insufficient _ => [.insufficient]
                 | _ => []), h1, ?_, ?_, ?_⟩
  · simp [h2]
  · intro ev hev
    rcases List.mem_append.mp hev with hev | hev
    · exact h3 ev hev
    · split at hev <;> simp at hev
      · exact Or.inl ⟨_, hev⟩
      · exact Or.inr hev
  · simp only [if_true]
    rcases hc with ⟨hp, hcons⟩ | ⟨hp, hcons⟩
    · refine ⟨n, (liveStep ⟨pos + n, ep⟩ d).1.epoch, ?_, ?_⟩
      · simp only [Option.some.injEq]
        cases hq : (liveStep ⟨pos + n, ep⟩ d).1 with
        | mk p' e' => rw [hq] at hp; simp at hp; simp [hp]
      · rw [pushes_append]
        cases ha : (liveStep ⟨pos + n, ep⟩ d).2 with
        | deliver o => rw [ha] at hcons; simp [consumed] at hcons
        | advanceFiltered o => rw [ha] at hcons; simp [consumed] at hcons
        | skipOld => simpa [pushes] using hsl
        | insufficient rr => simpa [pushes] using hsl
    · refine ⟨n + 1, (liveStep ⟨pos + n, ep⟩ d).1.epoch, ?_, ?_⟩
      · simp only [Option.some.injEq]
        cases hq : (liveStep ⟨pos + n, ep⟩ d).1 with
        | mk p' e' => rw [hq] at hp; simp at hp; simp [hp]; omega
      · rw [pushes_append]
        have hr : List.range' (pos + 1) (n + 1) = List.range' (pos + 1) n ++ [pos + n + 1] := by
          rw [List.range'_concat]; simp; omega
        rw [hr]
        cases ha : (liveStep ⟨pos + n, ep⟩ d).2 with
        | deliver o =>
          rw [ha] at hcons; simp [consumed] at hcons
          subst hcons
          simpa [pushes] using hsl.append (List.Sublist.refl [pos + n + 1])
        | advanceFiltered o =>
          simpa [pushes] using hsl.trans (List.sublist_append_left _ _)
        | skipOld => rw [ha] at hcons; simp [consumed] at hcons
        | insufficient rr => rw [ha] at hcons; simp [consumed] at hcons

end CentrifugeVerif.Sync

namespace CentrifugeVerif.Sync
open CentrifugeVerif.Live CentrifugeVerif.SubReply CentrifugeVerif.Merge

/-- LogOK only depends on `taken`, `log`, `sub`, `pending` -/
theorem logOK_congr {req : Req} {hist : Hist} {s s' : St} {c : Bool}
    (h1 : s'.taken = s.taken) (h2 : s'.log = s.log) (h3 : s'.sub = s.sub) (h4 : s'.pending = s.pending)
    (h : LogOK req hist s c) : LogOK req hist s' c := by
  unfold LogOK at *
  rw [h1, h2, h3, h4]
  exact h

theorem inv_step (req : Req) (hist : Hist) (s s' : St) (l : Label)
    (hi : Inv req hist s) (hn : next req hist s l = some s') : Inv req hist s' := by
  obtain ⟨hS, hB, hD⟩ := hi
  cases l with
  | sStart =>
    simp only [next] at hn
    split at hn
    · rename_i h0
      cases hn
      simp only [InvS, h0] at hS
      refine ⟨by simp [InvS, hS], ?_, by simpa [h0] using hD⟩
      cases hb : s.bpc <;> simp_all [InvB]
    · cases hn
  | sHubAdd =>
    simp only [next] at hn
    split at hn
    · rename_i h0
      cases hn
      simp only [InvS, h0] at hS
      refine ⟨by simp [InvS, hS], ?_, by simpa [h0] using hD⟩
      cases hb : s.bpc <;> simp_all
    · cases hn
  | sHist =>
    simp only [next] at hn
    split at hn
    · rename_i h0
      cases hn
      simp only [InvS, h0] at hS
      refine ⟨by simp [InvS, hS], ?_, by simpa [h0] using hD⟩
      cases hb : s.bpc <;> simp_all
    · cases hn
  | sLock =>
    simp only [next] at hn
    split at hn
    · rename_i h0
      cases hn
      simp only [InvS, h0.1] at hS
      refine ⟨by simp [InvS, hS], ?_, by simpa [h0.1] using hD⟩
      cases hb : s.bpc <;> simp_all
    · cases hn
  | sReply =>
    simp only [next] at hn
    split at hn
    · rename_i h0
      simp only [InvS, h0] at hS
      split at hn
      · rename_i r pubs off pos e hsub
        cases hn
        refine ⟨?_, ?_, by simpa [h0] using hD⟩
        · simp only [InvS]
          refine ⟨hS.1, hS.2.1, hS.2.2.1, hS.2.2.2.1, ?_⟩
          refine ⟨r, pubs, off, pos, e, [], hsub, by simp [hS.2.2.2.2.2], by simp, ?_⟩
          simp [hS.2.2.2.2.1]
        · cases hb : s.bpc <;> simp_all
      · cases hn
        refine ⟨by simp [InvS, hS], ?_, by simp⟩
        cases hb : s.bpc <;> simp_all
    · cases hn
  | sCommit =>
    simp only [next] at hn
    split at hn
    · rename_i h0
      simp only [InvS, h0] at hS
      split at hn
      · rename_i pos e hp
        cases hn
        refine ⟨?_, ?_, by simpa [h0] using hD⟩
        · simp only [InvS]
          refine ⟨hS.1, hS.2.1, hS.2.2.1, hS.2.2.2.1, ?_⟩
          obtain ⟨r, pubs, off, pos', e', rest, h1, h2, h3, h4⟩ := hS.2.2.2.2
          simp only [Bool.false_eq_true, if_false] at h4
          rw [hp] at h4
          simp only [Option.some.injEq, Prod.mk.injEq] at h4
          obtain ⟨_, hrest, hpe⟩ := h4
          refine ⟨r, pubs, off, pos', e', rest, h1, h2, h3, ?_⟩
          simp only [if_true]
          exact ⟨0, e, by simp [hpe.1], by simp [hrest, pushes]⟩
        · cases hb : s.bpc <;> simp_all
      · cases hn
    · cases hn
  | sStop =>
    simp only [next] at hn
    split at hn
    · rename_i h0
      cases hn
      simp only [InvS, h0] at hS
      refine ⟨?_, ?_, by simpa [h0] using hD⟩
      · simp only [InvS]
        exact ⟨trivial, trivial, trivial, hS.2.2.2.1, logOK_congr rfl rfl rfl rfl hS.2.2.2.2⟩
      · cases hb : s.bpc <;> simp_all
    · cases hn
  | bStart d =>
    simp only [next] at hn
    split at hn
    · rename_i hidle
      split at hn
      · cases hn; exact ⟨hS, hB, hD⟩
      · rename_i hhub
        split at hn
        · rename_i hent
          cases hn
          refine ⟨?_, ?_, hD⟩
          · cases hspc : s.spc <;> simp only [InvS, hspc] at hS ⊢ <;>
              first | exact hS | exact ⟨hS.1, hS.2.1, hS.2.2.1, hS.2.2.2.1, logOK_congr rfl rfl rfl rfl hS.2.2.2.2⟩
          · cases hspc : s.spc <;> simp only [InvS, hspc] at hS <;> simp_all
        · rename_i hent
          cases hn
          refine ⟨?_, ?_, hD⟩
          · cases hspc : s.spc <;> simp only [InvS, hspc] at hS ⊢ <;>
              first | exact hS | exact ⟨hS.1, hS.2.1, hS.2.2.1, hS.2.2.2.1, logOK_congr rfl rfl rfl rfl hS.2.2.2.2⟩
          · cases hspc : s.spc <;> simp only [InvS, hspc] at hS <;> simp_all
    · cases hn
  | bCheck =>
    simp only [next] at hn
    split at hn
    · rename_i d hb
      rw [hb] at hB
      split at hn
      · cases hn
        refine ⟨?_, by simpa using hB, hD⟩
        cases hspc : s.spc <;> simp only [InvS, hspc] at hS ⊢ <;>
          first | exact hS | exact ⟨hS.1, hS.2.1, hS.2.2.1, hS.2.2.2.1, logOK_congr rfl rfl rfl rfl hS.2.2.2.2⟩
      · rename_i hin
        cases hn
        refine ⟨?_, ?_, hD⟩
        · cases hspc : s.spc <;> simp only [InvS, hspc] at hS ⊢ <;>
            first | exact hS | exact ⟨hS.1, hS.2.1, hS.2.2.1, hS.2.2.2.1, logOK_congr rfl rfl rfl rfl hS.2.2.2.2⟩
        · cases hspc : s.spc <;> simp only [InvS, hspc] at hS <;> simp_all
    · cases hn
  | bLock =>
    simp only [next] at hn
    split at hn
    · rename_i d hb
      rw [hb] at hB
      split at hn
      · cases hn
      · rename_i hmu
        split at hn
        · rename_i hin
          cases hn
          refine ⟨?_, by simp, hD⟩
          cases hspc : s.spc <;> simp only [InvS, hspc] at hS ⊢ <;>
            first | exact hS | exact ⟨hS.1, hS.2.1, hS.2.2.1, hS.2.2.2.1, logOK_congr rfl rfl rfl rfl hS.2.2.2.2⟩
        · rename_i hin
          cases hn
          refine ⟨?_, ?_, hD⟩
          · cases hspc : s.spc <;> simp only [InvS, hspc] at hS ⊢ <;>
              first | exact hS | exact ⟨hS.1, hS.2.1, hS.2.2.1, hS.2.2.2.1, logOK_congr rfl rfl rfl rfl hS.2.2.2.2⟩
          · cases hspc : s.spc <;> simp only [InvS, hspc] at hS <;> simp_all
    · cases hn
  | bLive =>
    simp only [next] at hn
    split at hn
    · rename_i d hb
      rw [hb] at hB
      simp only at hB
      split at hn
      · rename_i hnone
        cases hn
        rcases hB with h7 | hf
        · -- s7 has a committed position: contradiction
          simp only [InvS, h7] at hS
          obtain ⟨_, _, _, _, _, _, _, _, _, h4⟩ := hS.2.2.2.2
          simp only [if_true] at h4
          obtain ⟨n, ep, hs, _⟩ := h4
          rw [hnone] at hs; cases hs
        · refine ⟨?_, by simp, by simp [hf]⟩
          simp only [InvS, hf] at hS ⊢
          exact hS
      · rename_i sub hsome
        simp only [Option.some.injEq] at hn
        subst hn
        rcases hB with h7 | hf
        · refine ⟨?_, by simp, by simpa [h7] using hD⟩
          simp only [InvS, h7] at hS ⊢
          refine ⟨hS.1, hS.2.1, hS.2.2.1, hS.2.2.2.1, ?_⟩
          have := logOK_live req hist s d sub hsome hS.2.2.2.2
          exact logOK_congr rfl rfl rfl rfl this
        · simp only [InvS, hf] at hS
          rw [hS.2.2.2.2.1] at hsome; cases hsome
    · cases hn

theorem inv_run (req : Req) (hist : Hist) (s : St) (ls : List Label) :
    ∀ s0, Inv req hist s0 → runLabels req hist s0 ls = some s → Inv req hist s := by
  induction ls with
  | nil => intro s0 h0 hr; simp [runLabels] at hr; subst hr; exact h0
  | cons l ls ih =>
    intro s0 h0 hr
    simp only [runLabels] at hr
    split at hr
    · cases hr
    · rename_i s1 hs1
      exact ih s1 (inv_step req hist s0 s1 l h0 hs1) hr

theorem inv_reachable (req : Req) (hist : Hist) (s : St) (h : Reachable req hist s) :
    Inv req hist s := by
  obtain ⟨ls, hl⟩ := h
  exact inv_run req hist s ls {} (inv_init req hist) hl

end CentrifugeVerif.Sync
