import CentrifugeVerif.Model.Partition
import CentrifugeVerif.Gen.PartitionTags512
/-! balance of the 512-partition table for cluster sizes 257…320 (kernel evaluation of `checkRange`) -/
namespace CentrifugeVerif.Partition
open CentrifugeVerif.Gen.PartitionTags
set_option maxRecDepth 1000000
theorem bal512_257 : checkRange slots512 257 64 = true := by decide +kernel
end CentrifugeVerif.Partition
