import CentrifugeVerif.Model.PresenceHub
/-! Helper lemmas for C06 (a): invariants of the `presenceHub` model and the `uniqueUsers` loop. -/
namespace CentrifugeVerif.PresenceHub

def keys (m : Inner) : List String := m.map (·.1)
def usersOf (m : Inner) : List String := m.map (·.2.userID)

theorem mem_keys_setKey (uid : String) (info : Info) (m : Inner) (k : String) :
    k ∈ keys (setKey uid info m) ↔ k = uid ∨ k ∈ keys m := by
  induction m with
  | nil => simp [setKey, keys]
  | cons x r ih =>
    obtain ⟨k', v'⟩ := x
    unfold setKey
    by_cases h : k' = uid
    · subst h; simp [keys]
    · simp only [h, if_false]
      simp only [keys, List.map_cons, List.mem_cons] at ih ⊢
      rw [ih]
      constructor
      · rintro (h1 | h1 | h1) <;> simp [h1]
      · rintro (h1 | h1 | h1) <;> simp [h1]

theorem nodup_keys_setKey (uid : String) (info : Info) (m : Inner) (h : (keys m).Nodup) :
    (keys (setKey uid info m)).Nodup := by
  induction m with
  | nil => simp [setKey, keys]
  | cons x r ih =>
    obtain ⟨k', v'⟩ := x
    unfold setKey
    simp only [keys, List.map_cons, List.nodup_cons] at h
    by_cases hk : k' = uid
    · subst hk; simpa [keys] using h
    · simp only [hk, if_false]
      have := ih h.2
      simp only [keys, List.map_cons, List.nodup_cons]
      refine ⟨?_, this⟩
      intro hm
      have := (mem_keys_setKey uid info r k').mp hm
      rcases this with h1 | h1
      · exact hk h1
      · exact h.1 h1

theorem keys_delKey_sublist (uid : String) (m : Inner) : (keys (delKey uid m)).Sublist (keys m) := by
  induction m with
  | nil => simp [delKey, keys]
  | cons x r ih =>
    obtain ⟨k', v'⟩ := x
    unfold delKey
    by_cases hk : k' = uid
    · simp [hk, keys]
    · simp only [hk, if_false, keys, List.map_cons]
      exact List.Sublist.cons_cons _ ih

theorem nodup_keys_delKey (uid : String) (m : Inner) (h : (keys m).Nodup) :
    (keys (delKey uid m)).Nodup := h.sublist (keys_delKey_sublist uid m)

/-- every inner map has unique keys -/
def Inv (h : Hub) : Prop := ∀ c m, (c, m) ∈ h → (keys m).Nodup

theorem inv_add (ch uid : String) (info : Info) (h : Hub) (hi : Inv h) : Inv (add ch uid info h) := by
  induction h with
  | nil =>
    intro c m hm
    simp [add] at hm
    obtain ⟨_, rfl⟩ := hm
    simp [keys]
  | cons x r ih =>
    obtain ⟨c0, m0⟩ := x
    have hr : Inv r := fun c m hm => hi c m (List.mem_cons_of_mem _ hm)
    unfold add
    by_cases hc : c0 = ch
    · simp only [hc, if_true]
      intro c m hm
      rcases List.mem_cons.mp hm with h1 | h1
      · cases h1
        exact nodup_keys_setKey uid info m0 (hi c0 m0 (List.mem_cons_self ..))
      · exact hr c m h1
    · simp only [hc, if_false]
      intro c m hm
      rcases List.mem_cons.mp hm with h1 | h1
      · cases h1; exact hi c0 m0 (List.mem_cons_self ..)
      · exact ih hr c m h1

theorem inv_remove (ch uid : String) (h : Hub) (hi : Inv h) : Inv (remove ch uid h) := by
  induction h with
  | nil => intro c m hm; simp [remove] at hm
  | cons x r ih =>
    obtain ⟨c0, m0⟩ := x
    have hr : Inv r := fun c m hm => hi c m (List.mem_cons_of_mem _ hm)
    have h0 := hi c0 m0 (List.mem_cons_self ..)
    unfold remove
    by_cases hc : c0 = ch
    · simp only [hc, if_true]
      by_cases hk : hasKey uid m0 = true
      · simp only [hk, if_true]
        by_cases he : (delKey uid m0).isEmpty = true
        · simp only [he, if_true]; exact hr
        · simp only [he]
          intro c m hm
          rcases List.mem_cons.mp hm with h1 | h1
          · cases h1; exact nodup_keys_delKey uid m0 h0
          · exact hr c m h1
      · simp only [hk]
        exact fun c m hm => hi c m (by simpa [hc] using hm)
    · simp only [hc, if_false]
      intro c m hm
      rcases List.mem_cons.mp hm with h1 | h1
      · cases h1; exact h0
      · exact ih hr c m h1

theorem inv_foldl (ops : List Op) (h : Hub) (hi : Inv h) : Inv (ops.foldl apply h) := by
  induction ops generalizing h with
  | nil => exact hi
  | cons o r ih =>
    apply ih
    cases o with
    | add ch uid info => exact inv_add ch uid info h hi
    | remove ch uid => exact inv_remove ch uid h hi

theorem inv_runOps (ops : List Op) : Inv (runOps ops) :=
  inv_foldl ops [] (fun _ _ hm => by simp at hm)

theorem get_mem {ch : String} {h : Hub} {m : Inner} (hg : get ch h = some m) : (ch, m) ∈ h := by
  induction h with
  | nil => simp [get] at hg
  | cons x r ih =>
    obtain ⟨c0, m0⟩ := x
    unfold get at hg
    by_cases hc : c0 = ch
    · simp only [hc, if_true, Option.some.injEq] at hg
      subst hg; subst hc; exact List.mem_cons_self ..
    · simp only [hc, if_false] at hg
      exact List.mem_cons_of_mem _ (ih hg)

/-- the `uniqueUsers` loop counts exactly the distinct user ids not seen before -/
theorem countUsers_spec (m : Inner) (seen : List String) :
    ∃ us : List String, us.Nodup ∧ (∀ u, u ∈ us ↔ u ∈ usersOf m ∧ u ∉ seen) ∧
      countUsers seen m = us.length := by
  induction m generalizing seen with
  | nil => exact ⟨[], by simp, by simp [usersOf], by simp [countUsers]⟩
  | cons x r ih =>
    obtain ⟨k, i⟩ := x
    unfold countUsers
    by_cases hs : i.userID ∈ seen
    · obtain ⟨us, hn, hm, hc⟩ := ih seen
      refine ⟨us, hn, ?_, by simp [hs, hc]⟩
      intro u
      rw [hm u]
      simp only [usersOf, List.map_cons, List.mem_cons]
      constructor
      · rintro ⟨h1, h2⟩; exact ⟨Or.inr h1, h2⟩
      · rintro ⟨h1 | h1, h2⟩
        · subst h1; exact absurd hs h2
        · exact ⟨h1, h2⟩
    · obtain ⟨us, hn, hm, hc⟩ := ih (i.userID :: seen)
      refine ⟨i.userID :: us, ?_, ?_, by simp [hs, hc]; omega⟩
      · refine List.nodup_cons.mpr ⟨?_, hn⟩
        intro h1
        have := ((hm _).mp h1).2
        simp at this
      · intro u
        simp only [List.mem_cons, usersOf, List.map_cons]
        rw [hm u]
        simp only [usersOf, List.mem_cons, not_or]
        constructor
        · rintro (h1 | ⟨h1, h2, h3⟩)
          · subst h1; exact ⟨Or.inl rfl, hs⟩
          · exact ⟨Or.inr h1, h3⟩
        · rintro ⟨h1 | h1, h2⟩
          · exact Or.inl h1
          · by_cases hu : u = i.userID
            · exact Or.inl hu
            · exact Or.inr ⟨h1, hu, h2⟩

end CentrifugeVerif.PresenceHub
