import CentrifugeVerif.Model.Handshake
/-!
Helper lemmas for C31: Go's `base64.StdEncoding.Decode` into the buffer of `isValidChallengeKey`
cannot panic (it could while the buffer had 16 bytes).
-/
namespace CentrifugeVerif.C31
open CentrifugeVerif.Sha1 (Bytes ascii be sha1)
open CentrifugeVerif.Base64
open CentrifugeVerif.Handshake

/-- number of base64 alphabet characters in a string -/
def alphaCount : Bytes → Nat
  | [] => 0
  | c :: cs => (if (dec6 c).isSome then 1 else 0) + alphaCount cs

theorem alphaCount_skipNL (l : Bytes) : alphaCount (skipNL l) ≤ alphaCount l := by
  induction l with
  | nil => simp [skipNL]
  | cons c cs ih =>
    unfold skipNL
    split
    · simp only [alphaCount]; omega
    · exact Nat.le_refl _

theorem alphaCount_tail_le (c : UInt8) (cs : Bytes) : alphaCount cs ≤ alphaCount (c :: cs) := by
  simp only [alphaCount]; omega

theorem quantum_count : ∀ (src : Bytes) (j k : Nat) (rest : Bytes) (t : Bool), j ≤ 3 →
    quantum src j = .quantum k rest t → 2 ≤ k ∧ k ≤ 4 ∧ alphaCount rest + k ≤ alphaCount src + j := by
  intro src
  induction src with
  | nil => intro j k rest t _ h; unfold quantum at h; split at h <;> cases h
  | cons c cs ih =>
    intro j k rest t hj h
    unfold quantum at h
    cases hd : dec6 c with
    | some v =>
      simp only [hd] at h
      split at h
      · injection h with h1 h2 h3
        subst h1 h2
        simp only [alphaCount, hd, Option.isSome_some, if_true]
        omega
      · have := ih (j + 1) k rest t (by omega) h
        simp only [alphaCount, hd, Option.isSome_some, if_true]
        omega
    | none =>
      simp only [hd] at h
      have hc : alphaCount (c :: cs) = alphaCount cs := by simp [alphaCount, hd]
      split at h
      · have := ih j k rest t hj h
        omega
      · split at h
        · cases h
        · split at h
          · cases h
          · split at h
            · -- j = 2
              split at h
              · cases h
              · rename_i d ds hsk
                split at h
                · cases h
                · injection h with h1 h2 h3
                  subst h1 h2
                  have h1 := alphaCount_skipNL ds
                  have h2 := alphaCount_skipNL cs
                  rw [hsk] at h2
                  have h3 := alphaCount_tail_le d ds
                  omega
            · injection h with h1 h2 h3
              subst h1 h2
              have := alphaCount_skipNL cs
              omega

theorem goDecodeLen_panic (cap : Nat) : ∀ (f : Nat) (src : Bytes) (n : Nat),
    goDecodeLen cap f src n = .panic → 4 * cap + 4 ≤ 4 * n + 3 * alphaCount src := by
  intro f
  induction f with
  | zero => intro src n h; simp [goDecodeLen] at h
  | succ f ih =>
    intro src n h
    unfold goDecodeLen at h
    split at h
    · cases h
    · cases h
    · rename_i k rest trailing hq
      have hk := quantum_count src 0 k rest trailing (by omega) hq
      split at h
      · omega
      · split at h
        · cases h
        · have := ih rest (n + (k - 1)) h
          omega

theorem alphaCount_le_length (s : Bytes) : alphaCount s ≤ s.length := by
  induction s with
  | nil => simp [alphaCount]
  | cons c cs ih => simp only [alphaCount, List.length_cons]; split <;> omega

/-- `isValidChallengeKey` never panics: the destination has `DecodedLen(24) = 18` bytes and 24
characters cannot decode to more. -/
theorem key_no_panic (s : Bytes) : isValidChallengeKey s ≠ .panic := by
  intro h
  unfold isValidChallengeKey at h
  split at h
  · cases h
  · rename_i hlen
    have h24 : s.length = 24 := by simpa using hlen
    split at h
    · split at h <;> cases h
    · cases h
    · rename_i hp
      have := goDecodeLen_panic _ _ _ _ hp
      have hle := alphaCount_le_length s
      simp only [decodedLen, h24] at this
      omega

end CentrifugeVerif.C31
