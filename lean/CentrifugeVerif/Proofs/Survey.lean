import CentrifugeVerif.Model.Survey
/-!
Invariant of the survey system (`Model/Survey.lean`) and its preservation by every label.
-/
namespace CentrifugeVerif.Survey

/-- states reachable from `init` by any finite label sequence: any number of concurrent surveys, any
order, duplication and addressing of responses, any timing of deadlines, publish outcomes and local
replies. -/
inductive Reach : State → Prop
  | init : Reach init
  | step {s s' : State} {l : Label} : Reach s → next s l = some s' → Reach s'

def uids (l : List Reply) : List Uid := l.map (·.uid)

/-- invariant of the `t`-th Survey call -/
structure SvInv (t : Nat) (sv : Sv) : Prop where
  id_eq : sv.id = t + 1
  chan_for : ∀ r ∈ sv.chan, r.forId = sv.id
  res_for : ∀ r ∈ sv.results, r.forId = sv.id
  res_nodup : (uids sv.results).Nodup
  chan_cap : sv.chan.length ≤ sv.numNodes
  res_le : sv.results.length ≤ sv.numNodes
  collecting_lt : sv.coll = .collecting → sv.results.length < sv.numNodes ∨ sv.numNodes = 0
  done_why : sv.coll = .done → sv.results.length = sv.numNodes ∨ sv.ctxDone = true
  not_started : sv.coll = .notStarted → sv.results = [] ∧ sv.main = .handler
  handler_ns : sv.main = .handler → sv.coll = .notStarted
  returned_ok : sv.main = .returnedOk →
    sv.coll = .done ∧ sv.returned = sv.results ∧ (sv.retErr = false → sv.results.length = sv.numNodes)
  not_returned : sv.main ≠ .returnedOk → sv.returned = []
  registered_iff : sv.registered = true ↔ (sv.main = .handler ∨ sv.main = .publishing ∨ sv.main = .waiting)

structure Inv (s : State) : Prop where
  count : s.surveyID = s.surveys.length
  each : ∀ t sv, s.surveys[t]? = some sv → SvInv t sv

theorem inv_init : Inv init := ⟨rfl, by simp [init]⟩

/-! ### `insertResult` -/

theorem mem_insertResult {r x : Reply} {l : List Reply} (h : x ∈ insertResult r l) : x = r ∨ x ∈ l := by
  induction l with
  | nil => simp [insertResult] at h; exact Or.inl h
  | cons y ys ih =>
    simp only [insertResult] at h
    split at h
    · rcases List.mem_cons.mp h with h | h
      · exact Or.inl h
      · exact Or.inr (List.mem_cons_of_mem _ h)
    · rcases List.mem_cons.mp h with h | h
      · exact Or.inr (by simp [h])
      · rcases ih h with h | h
        · exact Or.inl h
        · exact Or.inr (List.mem_cons_of_mem _ h)

theorem insertResult_length (r : Reply) (l : List Reply) :
    l.length ≤ (insertResult r l).length ∧ (insertResult r l).length ≤ l.length + 1 := by
  induction l with
  | nil => simp [insertResult]
  | cons y ys ih =>
    simp only [insertResult]
    split
    · simp
    · simp; omega

theorem insertResult_nodup (r : Reply) (l : List Reply) (h : (uids l).Nodup) :
    (uids (insertResult r l)).Nodup := by
  induction l with
  | nil => simp [insertResult, uids]
  | cons y ys ih =>
    simp only [uids, List.map_cons, List.nodup_cons] at h
    simp only [insertResult]
    split
    · rename_i heq
      simp only [uids, List.map_cons, List.nodup_cons]
      exact ⟨heq ▸ h.1, h.2⟩
    · rename_i hne
      simp only [uids, List.map_cons, List.nodup_cons]
      refine ⟨?_, ih h.2⟩
      intro hm
      obtain ⟨x, hx, hxu⟩ := List.mem_map.mp hm
      rcases mem_insertResult hx with rfl | hx
      · exact hne hxu.symm
      · exact h.1 (List.mem_map.mpr ⟨x, hx, hxu⟩)

/-- the uid of a collected reply is among the result keys afterwards -/
theorem uid_mem_insertResult (r : Reply) (l : List Reply) : r.uid ∈ uids (insertResult r l) := by
  induction l with
  | nil => simp [insertResult, uids]
  | cons y ys ih =>
    simp only [insertResult]
    split
    · simp [uids]
    · simp only [uids, List.map_cons, List.mem_cons]; exact Or.inr ih

/-! ### `deliver` -/

/-- `deliver` touches at most the channel of surveys it is addressed to -/
theorem deliver_get (r : Reply) (l : List Sv) (t : Nat) (sv : Sv) (h : l[t]? = some sv) :
    (deliver r l)[t]? = some sv ∨
    ((deliver r l)[t]? = some { sv with chan := sv.chan ++ [r] } ∧ sv.registered = true ∧ sv.id = r.forId ∧
      sv.chan.length < sv.numNodes) := by
  induction l generalizing t with
  | nil => simp at h
  | cons x xs ih =>
    simp only [deliver]
    split
    · rename_i hm
      cases t with
      | zero =>
        simp only [List.getElem?_cons_zero, Option.some.injEq] at h
        subst h
        split
        · rename_i hlt
          exact Or.inr ⟨by simp, hm.1, hm.2, hlt⟩
        · exact Or.inl (by simp)
      | succ t => exact Or.inl (by simpa using h)
    · cases t with
      | zero => exact Or.inl (by simpa using h)
      | succ t =>
        simp only [List.getElem?_cons_succ] at h ⊢
        exact ih t h

theorem deliver_length (r : Reply) (l : List Sv) : (deliver r l).length = l.length := by
  induction l with
  | nil => rfl
  | cons x xs ih =>
    simp only [deliver]; split <;> simp [ih]

theorem deliver_get_rev (r : Reply) (l : List Sv) (t : Nat) (sv' : Sv) (h : (deliver r l)[t]? = some sv') :
    ∃ sv, l[t]? = some sv := by
  have : t < (deliver r l).length := by
    rcases Nat.lt_or_ge t (deliver r l).length with h' | h'
    · exact h'
    · simp [List.getElem?_eq_none h'] at h
  rw [deliver_length] at this
  exact ⟨l[t], by simp [this]⟩

/-! ### preservation -/

theorem svinv_chan_append {t : Nat} {sv : Sv} {r : Reply} (h : SvInv t sv) (hid : r.forId = sv.id)
    (hlt : sv.chan.length < sv.numNodes) : SvInv t { sv with chan := sv.chan ++ [r] } := by
  obtain ⟨a, b, c, d, e, f, g, i, j, k, l, m, n⟩ := h
  refine ⟨a, ?_, c, d, ?_, f, g, i, j, k, l, m, n⟩
  · intro x hx
    rcases List.mem_append.mp hx with hx | hx
    · exact b x hx
    · simp at hx; subst hx; exact hid
  · simp; omega

theorem inv_upd {s : State} {t : Nat} {sv sv' : Sv} (hi : Inv s) (_ht : s.surveys[t]? = some sv)
    (h' : SvInv t sv') : Inv (upd s t sv') := by
  refine ⟨by simp [upd, hi.count], ?_⟩
  intro t' x hx
  simp only [upd, List.getElem?_set] at hx
  split at hx
  · rename_i heq
    split at hx
    · cases hx; exact heq ▸ h'
    · cases hx
  · exact hi.each t' x hx

theorem inv_step {s s' : State} {l : Label} (hi : Inv s) (h : next s l = some s') : Inv s' := by
  cases l with
  | «begin» n =>
    simp only [next] at h
    cases h
    refine ⟨by simp [hi.count], ?_⟩
    intro t sv hsv
    simp only [List.getElem?_append] at hsv
    split at hsv
    · exact hi.each t sv hsv
    · rename_i hge
      have : t = s.surveys.length := by
        cases hk : t - s.surveys.length with
        | zero => omega
        | succ k => rw [hk] at hsv; simp at hsv
      subst this
      simp at hsv
      subst hsv
      constructor <;> simp [hi.count, uids]
  | localReply t code =>
    simp only [next] at h
    split at h
    · cases h
    · rename_i sv hsv
      split at h
      · rename_i hlt
        cases h
        exact inv_upd hi hsv (svinv_chan_append (hi.each t sv hsv) rfl hlt)
      · cases h
  | spawn t =>
    simp only [next] at h
    split at h
    · cases h
    · rename_i sv hsv
      split at h
      · rename_i hm
        cases h
        obtain ⟨a, b, c, d, e, f, g, i, j, k, l, m, n⟩ := hi.each t sv hsv
        have hns := k hm
        have hres := (j hns).1
        refine inv_upd hi hsv ⟨a, b, c, d, e, f, ?_, ?_, ?_, ?_, ?_, ?_, ?_⟩
        · intro _; simp only [hres, List.length_nil]; omega
        · simp
        · simp
        · simp
        · simp
        · intro _; exact m (by simp [hm])
        · simp only [n, hm]; simp
      · cases h
  | publish t ok =>
    simp only [next] at h
    split at h
    · cases h
    · rename_i sv hsv
      split at h
      · rename_i hm
        obtain ⟨a, b, c, d, e, f, g, i, j, k, l, m, n⟩ := hi.each t sv hsv
        have hcoll : sv.coll ≠ .notStarted := fun hc => by
          have := (j hc).2; rw [hm] at this; cases this
        cases ok with
        | true =>
          simp only [if_true] at h
          cases h
          refine inv_upd hi hsv ⟨a, b, c, d, e, f, g, i, ?_, ?_, ?_, ?_, ?_⟩
          · intro hc; exact absurd hc hcoll
          · simp
          · simp
          · intro _; exact m (by simp [hm])
          · simp only [n, hm]; simp
        | false =>
          simp only [Bool.false_eq_true, if_false] at h
          cases h
          refine inv_upd hi hsv ⟨a, b, c, d, e, f, g, i, ?_, ?_, ?_, ?_, ?_⟩
          · intro hc; exact absurd hc hcoll
          · simp
          · simp
          · intro _; exact m (by simp [hm])
          · simp
      · cases h
  | response uid id code =>
    simp only [next] at h
    split at h
    · cases h; exact hi
    · cases h
      refine ⟨by simp [deliver_length, hi.count], ?_⟩
      intro t sv' hsv'
      have hex := deliver_get_rev _ _ _ _ hsv'
      cases hex with
      | intro sv hsv =>
      rcases deliver_get (Reply.mk uid code id) s.surveys t sv hsv with h1 | ⟨h1, _, hid, hlt⟩
      · rw [h1] at hsv'
        have e : sv = sv' := Option.some.inj hsv'
        rw [← e]; exact hi.each t sv hsv
      · rw [h1] at hsv'
        have e := Option.some.inj hsv'
        rw [← e]
        exact svinv_chan_append (hi.each t sv hsv) hid.symm hlt
  | collect t =>
    simp only [next] at h
    split at h
    · cases h
    · rename_i sv hsv
      split at h
      · rename_i hcoll
        split at h
        · cases h
        · rename_i r rest hchan
          cases h
          obtain ⟨a, b, c, d, e, f, g, i, j, k, l, m, n⟩ := hi.each t sv hsv
          have hcap : 1 ≤ sv.numNodes := by rw [hchan] at e; simp at e; omega
          have hlt : sv.results.length < sv.numNodes := by
            rcases g hcoll with h' | h'
            · exact h'
            · omega
          have hlen := insertResult_length r sv.results
          have hmain : sv.main ≠ .handler := fun hm => by
            have := k hm; rw [hcoll] at this; cases this
          have hmain2 : sv.main ≠ .returnedOk := fun hm => by
            have := (l hm).1; rw [hcoll] at this; cases this
          refine inv_upd hi hsv ⟨a, ?_, ?_, insertResult_nodup r _ d, ?_, ?_, ?_, ?_, ?_, ?_, ?_, m, n⟩
          · intro x hx; exact b x (by rw [hchan]; exact List.mem_cons_of_mem _ hx)
          · intro x hx
            rcases mem_insertResult hx with rfl | hx
            · exact b x (by rw [hchan]; simp)
            · exact c x hx
          · rw [hchan] at e; simp at e ⊢; omega
          · simp only; omega
          · simp only; intro hc
            split at hc
            · cases hc
            · rename_i hne; left; omega
          · simp only; intro hc
            split at hc
            · rename_i heq; exact Or.inl heq
            · cases hc
          · simp only; intro hc
            split at hc <;> cases hc
          · simp only; intro hm; exact absurd hm hmain
          · simp only; intro hm; exact absurd hm hmain2
      · cases h
  | ctxDone t =>
    simp only [next] at h
    split at h
    · cases h
    · rename_i sv hsv
      cases h
      obtain ⟨a, b, c, d, e, f, g, i, j, k, l, m, n⟩ := hi.each t sv hsv
      refine inv_upd hi hsv ⟨a, b, c, d, e, f, g, ?_, j, k, l, m, n⟩
      intro _; exact Or.inr rfl
  | collExit t =>
    simp only [next] at h
    split at h
    · cases h
    · rename_i sv hsv
      split at h
      · rename_i hc
        cases h
        obtain ⟨a, b, c, d, e, f, g, i, j, k, l, m, n⟩ := hi.each t sv hsv
        have hmain : sv.main ≠ .handler := fun hm => by
          have := k hm; rw [hc.1] at this; cases this
        have hmain2 : sv.main ≠ .returnedOk := fun hm => by
          have := (l hm).1; rw [hc.1] at this; cases this
        refine inv_upd hi hsv ⟨a, b, c, d, e, f, ?_, ?_, ?_, ?_, ?_, m, n⟩
        · simp
        · intro _; exact Or.inr hc.2
        · simp
        · simp only; intro hm; exact absurd hm hmain
        · simp only; intro hm; exact absurd hm hmain2
      · cases h
  | ret t =>
    simp only [next] at h
    split at h
    · cases h
    · rename_i sv hsv
      split at h
      · rename_i hc
        cases h
        obtain ⟨a, b, c, d, e, f, g, i, j, k, l, m, n⟩ := hi.each t sv hsv
        refine inv_upd hi hsv ⟨a, b, c, d, e, f, g, i, ?_, ?_, ?_, ?_, ?_⟩
        · simp only; intro hns; rw [hc.2] at hns; cases hns
        · simp
        · simp only; intro _
          refine ⟨hc.2, trivial, ?_⟩
          intro hr
          rcases i hc.2 with h' | h'
          · exact h'
          · rw [h'] at hr; cases hr
        · simp
        · simp
      · cases h

theorem reach_inv {s : State} (h : Reach s) : Inv s := by
  induction h with
  | init => exact inv_init
  | step _ hn ih => exact inv_step ih hn

theorem reach_run {s s' : State} (ls : List Label) (h : Reach s) (hr : run s ls = some s') : Reach s' := by
  induction ls generalizing s with
  | nil => simp [run] at hr; subst hr; exact h
  | cons l ls ih =>
    simp only [run] at hr
    split at hr
    · cases hr
    · rename_i s1 hs1
      exact ih (Reach.step h hs1) hr

/-- a non-trivial run used as witness in the property file -/
def exampleRun : List Label :=
  [.begin 2, .spawn 0, .publish 0 true, .begin 2, .spawn 1, .publish 1 true,
   .response 1 1 7, .response 1 1 8, .response 1 9 9, .response 1 2 5,
   .collect 0, .collect 0, .collect 1, .localReply 0 3, .collect 0, .ret 0,
   .ctxDone 1, .collExit 1, .ret 1, .response 1 1 6]

end CentrifugeVerif.Survey
