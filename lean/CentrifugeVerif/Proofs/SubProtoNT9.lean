import CentrifugeVerif.Proofs.SubProtoNT8
/-!
Layer 5 of the no-timeout invariants (`L5`): presence.  Every presence entry of the connection has an
owner — a subscribed `c.channels` entry with the presence flag, a subscribe attempt that added it and has
not yet committed or rolled it back, or an unsubscribe about to remove it (P); with the auxiliary facts
Z (presence is only added when asked for), X (an unsubscribe deletes the entry it read) and Y (in its
failure path a subscribe attempt never meets a subscribed entry of its own generation).
-/
namespace CentrifugeVerif.SubProto

theorem step_presAdd (s : State) (tid : Tid) (t t' : Thread) (o : Outcome) (effs : List Eff)
    (hs : stepThread s tid t o = some (effs, t')) (ch : Chan) (hm : Eff.presAdd ch ∈ effs) :
    ch = t.ch ∧ t'.ch = t.ch ∧ presOwnPc t'.pc = true ∧ t'.presAdded = true := by
  step_cases hs <;> simp_all

/-- a thread that added presence (or is about to) was asked for presence -/
theorem step_Z_self (s : State) (tid : Tid) (t t' : Thread) (o : Outcome) (effs : List Eff)
    (hs : stepThread s tid t o = some (effs, t'))
    (hz : (presAddPc t.pc || t.presAdded) = true → t.opts.presence = true) :
    (presAddPc t'.pc || t'.presAdded) = true → t'.opts.presence = true := by
  step_cases hs <;> simp_all [notCommitted, unsubReturn, afterHubRm] <;>
    (try (rintro (h | h) <;> simp_all))

/-- X: the unsubscribe about to delete works on the very entry it read -/
theorem step_X_self (s : State) (tid : Tid) (t t' : Thread) (o : Outcome) (effs : List Eff)
    (hs : stepThread s tid t o = some (effs, t')) (hnt : o ≠ .tmo)
    (hX : removePc t.pc = true → ∀ e, aget s.channels t.ch = some e → e.gen = t.target → t.ctx = some e)
    (hp : removePc t'.pc = true) :
    ∀ e, aget (after s tid t' effs).channels t'.ch = some e → e.gen = t'.target → t'.ctx = some e := by
  step_cases hs <;> simp_all [after, aget_aset, aget_adel, notCommitted, unsubReturn, afterHubRm]

/-- Y: in the failure path before `onSubscribeErrorGen` an entry of the attempt's generation is its reservation -/
theorem step_Y_self (s : State) (tid : Tid) (t t' : Thread) (o : Outcome) (effs : List Eff)
    (hs : stepThread s tid t o = some (effs, t')) (hnt : o ≠ .tmo)
    (hD : holdPc t.pc = true → ∀ e, aget s.channels t.ch = some e → e.gen = t.resGen → e.subscribed = false)
    (hK : rbPc t.pc = true → ∀ e, aget s.channels t.ch = some e → e.gen ≠ t.resGen)
    (hY : failPc t.pc = true → ∀ e, aget s.channels t.ch = some e → e.gen = t.resGen → e.subscribed = false)
    (hp : failPc t'.pc = true) :
    ∀ e, aget (after s tid t' effs).channels t'.ch = some e → e.gen = t'.resGen → e.subscribed = false := by
  step_cases hs <;> simp_all [after, aget_aset, aget_adel, notCommitted, unsubReturn, afterHubRm]

/-- owner of a presence entry among the threads -/
def presOwner (t : Thread) : Prop :=
  (presOwnPc t.pc = true ∧ t.presAdded = true) ∨ uPresRmPc t.pc = true

theorem step_presOwner_self (s : State) (tid : Tid) (t t' : Thread) (o : Outcome) (effs : List Eff)
    (hs : stepThread s tid t o = some (effs, t')) (hnt : o ≠ .tmo) (ho : presOwner t)
    (hz : (presAddPc t.pc || t.presAdded) = true → t.opts.presence = true) :
    (presOwner t' ∧ t'.ch = t.ch) ∨ Eff.presDel t.ch ∈ effs ∨
      (t.pc = .sCommit ∧ ∃ e, Eff.chanSet t.ch e ∈ effs ∧ e.subscribed = true ∧ e.presence = true) := by
  unfold presOwner at ho ⊢
  step_cases hs <;> simp_all [notCommitted, unsubReturn, afterHubRm]


theorem step_uRemove_pres (s : State) (tid : Tid) (t t' : Thread) (o : Outcome) (effs : List Eff)
    (hs : stepThread s tid t o = some (effs, t')) (hp : t.pc = .uRemove) (e : Entry) (hc : t.ctx = some e)
    (he : aget s.channels t.ch = some e) (hg : e.gen = t.target) (hsb : e.subscribed = true) (hpr : e.presence = true) :
    uPresRmPc t'.pc = true ∧ t'.ch = t.ch := by
  step_cases hs <;> simp_all [afterRemove]

theorem presence_applyEffs (es : List Eff) (s : State) (ch : Chan) (h : ch ∈ (applyEffs s es).presence) :
    (ch ∈ s.presence ∧ Eff.presDel ch ∉ es) ∨ Eff.presAdd ch ∈ es := by
  induction es generalizing s with
  | nil => exact Or.inl ⟨h, by simp⟩
  | cons x r ih =>
    rcases ih _ h with ⟨h1, h2⟩ | h1
    · cases x with
      | presAdd ch' =>
        simp only [applyEff_presAdd_presence, sadd, List.mem_cons, mem_sdel] at h1
        rcases h1 with h1 | ⟨h1, _⟩
        · subst h1; exact Or.inr (by simp)
        · exact Or.inl ⟨h1, by simpa using h2⟩
      | presDel ch' =>
        simp only [applyEff_presDel_presence, mem_sdel] at h1
        refine Or.inl ⟨h1.1, ?_⟩
        simp only [List.mem_cons, Eff.presDel.injEq, not_or]
        exact ⟨h1.2, h2⟩
      | _ => exact Or.inl ⟨by simpa using h1, by simpa using h2⟩
    · exact Or.inr (List.mem_cons_of_mem _ h1)

structure L5 (s : State) : Prop where
  Z : ∀ x t, aget s.threads x = some t → (presAddPc t.pc || t.presAdded) = true → t.opts.presence = true
  X : ∀ x t, aget s.threads x = some t → removePc t.pc = true →
    ∀ e, aget s.channels t.ch = some e → e.gen = t.target → t.ctx = some e
  Y : ∀ x t, aget s.threads x = some t → failPc t.pc = true →
    ∀ e, aget s.channels t.ch = some e → e.gen = t.resGen → e.subscribed = false
  P : ∀ ch, ch ∈ s.presence →
    (∃ e, aget s.channels ch = some e ∧ e.subscribed = true ∧ e.presence = true) ∨
    ∃ x t, aget s.threads x = some t ∧ t.ch = ch ∧ presOwner t

theorem L5.init : L5 State.init := by
  constructor <;> simp [State.init, aget]

theorem next_L5 (s s' : State) (l : Label) (hg : Ghost s) (h1 : L1 s) (h2 : L2 s) (h5 : L5 s)
    (hl : l.noTmo = true) (hn : next s l = some s') : L5 s' := by
  cases l with
  | spawn k ch o =>
    simp only [next, Option.some.injEq] at hn
    subst hn
    have hnew : ∀ x u, aget (s.threads ++ [(s.nextTid, ({ kind := k, ch := ch, opts := o, pc := initPc k } : Thread))]) x = some u →
        aget s.threads x = some u ∨ u = { kind := k, ch := ch, opts := o, pc := initPc k } := by
      intro x u hx
      cases hs : aget s.threads x with
      | some v => rw [aget_append_some _ _ _ _ hs] at hx; cases hx; exact Or.inl rfl
      | none =>
        right
        have hm := aget_mem _ _ _ hx
        simp only [List.mem_append, List.mem_singleton] at hm
        rcases hm with hm | hm
        · exact absurd (List.mem_map_of_mem (f := (·.1)) hm) ((aget_none_iff _ _).mp hs)
        · cases hm; rfl
    refine ⟨?_, ?_, ?_, ?_⟩
    · intro x u hx hp
      rcases hnew x u hx with h | h
      · exact h5.Z x u h hp
      · subst h; cases k <;> simp [initPc] at hp
    · intro x u hx hp
      rcases hnew x u hx with h | h
      · exact h5.X x u h hp
      · subst h; cases k <;> simp [initPc] at hp
    · intro x u hx hp
      rcases hnew x u hx with h | h
      · exact h5.Y x u h hp
      · subst h; cases k <;> simp [initPc] at hp
    · intro c hc
      rcases h5.P c hc with h | ⟨x, u, hx, hr⟩
      · exact Or.inl h
      · exact Or.inr ⟨x, u, aget_append_some _ _ _ _ hx, hr⟩
  | step tid o =>
    have hnt : o ≠ .tmo := by
      intro ho; subst ho; simp [Label.noTmo] at hl
    obtain ⟨t, effs, t', hget, hst, rfl⟩ := next_step_some hn
    have hent : ∀ c e, aget (after s tid t' effs).channels c = some e →
        aget s.channels c = some e ∨ (c = t.ch ∧
          ((t.pc = .sReserve ∧ e = Entry.reservation (s.genCounter + 1) ∧ aget s.channels t.ch = none) ∨
           (t.pc = .sCommit ∧ e.subscribed = true ∧ e.gen = t.cmdGen ∧ ∃ e0, aget s.channels t.ch = some e0 ∧ e0.gen = t.cmdGen))) := by
      intro c e he
      rcases channels_applyEffs _ _ _ _ he with h | h
      · exact Or.inl h
      · exact Or.inr (new_entry_cases s hg tid t t' o effs hst hnt c e h)
    -- the committing thread works on its own (unsubscribed) reservation
    have hcommit_res : t.pc = .sCommit → ∀ e0, aget s.channels t.ch = some e0 →
        e0.subscribed = false ∧ e0.gen = t.resGen ∧ t.cmdGen = t.resGen := by
      intro hp e0 he0
      obtain ⟨e1, he1, hg1, hs1, hc1⟩ := h2.D tid t hget (by simp [hp])
      rw [he0] at he1; cases he1
      exact ⟨hs1, hg1, hc1 (by simp [hp])⟩
    refine ⟨?_, ?_, ?_, ?_⟩
    · -- Z
      intro x u hx hp
      rcases aget_threads_after s tid t t' effs x u hget hx with ⟨_, hxo⟩ | ⟨_, hue⟩ | hue
      · exact h5.Z x u hxo hp
      · rw [hue] at hp ⊢
        exact step_Z_self s tid t t' o effs hst (h5.Z tid t hget) hp
      · rw [hue] at hp; simp [autoClose] at hp
    · -- X
      intro x u hx hp e he hgen
      rcases aget_threads_after s tid t t' effs x u hget hx with ⟨_, hxo⟩ | ⟨_, hue⟩ | hue
      · rcases hent _ e he with h | ⟨hch, h⟩
        · exact h5.X x u hxo hp e h hgen
        · rcases h with ⟨_, hre, _⟩ | ⟨hpc, _, hgc, e0, he0, hg0⟩
          · have hb := (h1.thrBound x u hxo).2.2.1
            rw [← hgen, hre] at hb
            exact absurd hb (fun h => res_gen_gt _ h)
          · -- a commit over an entry of the target generation: that entry would be a reservation
            have hsub0 := h2.F x u hxo hp e0 (by rw [hch]; exact he0) (by rw [hg0, ← hgc, hgen])
            have := (hcommit_res hpc e0 he0).1
            rw [hsub0] at this; cases this
      · rw [hue] at hp he hgen ⊢
        exact step_X_self s tid t t' o effs hst hnt (h5.X tid t hget) hp e he hgen
      · rw [hue] at hp; simp [autoClose] at hp
    · -- Y
      intro x u hx hp e he hgen
      rcases aget_threads_after s tid t t' effs x u hget hx with ⟨hne, hxo⟩ | ⟨_, hue⟩ | hue
      · rcases hent _ e he with h | ⟨hch, h⟩
        · exact h5.Y x u hxo hp e h hgen
        · rcases h with ⟨_, hre, _⟩ | ⟨hpc, _, hgc, e0, he0, hg0⟩
          · have hb := (h1.thrBound x u hxo).1
            rw [← hgen, hre] at hb
            exact absurd hb (fun h => res_gen_gt _ h)
          · -- a commit of generation u.resGen by another thread: reservation generations are unique
            obtain ⟨_, hr0, hcr⟩ := hcommit_res hpc e0 he0
            have hnz : u.resGen ≠ 0 := by
              rw [← hgen, hgc, hcr, ← hr0]; exact hg.entGen _ _ he0
            exact absurd (h1.uniq x tid u t hxo hget hnz (by rw [← hgen, hgc, hcr])) hne
      · rw [hue] at hp he hgen
        have hD' : holdPc t.pc = true → ∀ e, aget s.channels t.ch = some e → e.gen = t.resGen → e.subscribed = false := by
          intro hh e1 he1 _
          obtain ⟨e2, he2, _, hs2, _⟩ := h2.D tid t hget hh
          rw [he1] at he2; cases he2; exact hs2
        have hK' : rbPc t.pc = true → ∀ e, aget s.channels t.ch = some e → e.gen ≠ t.resGen :=
          fun hh => (h2.K2 tid t hget hh).2.2
        exact step_Y_self s tid t t' o effs hst hnt hD' hK' (h5.Y tid t hget) hp e he hgen
      · rw [hue] at hp; simp [autoClose] at hp
    · -- P
      intro c hc
      rcases presence_applyEffs _ _ _ hc with ⟨hold, hnodel⟩ | hadd
      · rcases h5.P c hold with ⟨e, he, hsb, hpr⟩ | ⟨w, tw, hw, hwch, hwo⟩
        · -- owned by a subscribed entry with the presence flag
          by_cases hdel : Eff.chanDel c ∈ effs
          · obtain ⟨hch, e0, he0, hcs⟩ := step_chanDel s tid t t' o effs hst c hdel
            rw [hch] at he; rw [he] at he0; cases he0
            rcases hcs with ⟨hp, _⟩ | ⟨hp, hgq⟩ | ⟨hp, hgq⟩
            · have := (hcommit_res hp e he).1; rw [hsb] at this; cases this
            · have := h5.Y tid t hget (by simp [hp]) e he hgq; rw [hsb] at this; cases this
            · have hctx := h5.X tid t hget (by simp [hp]) e he hgq
              obtain ⟨r1, r2⟩ := step_uRemove_pres s tid t t' o effs hst hp e hctx he hgq hsb hpr
              exact Or.inr ⟨tid, t', aget_threads_after_self s tid t t' effs hget, by rw [r2, hch], Or.inr r1⟩
          · by_cases hset : ∃ e2, Eff.chanSet c e2 ∈ effs
            · obtain ⟨e2, hm⟩ := hset
              obtain ⟨hch, hcs⟩ := new_entry_cases s hg tid t t' o effs hst hnt c e2 hm
              rw [hch] at he
              rcases hcs with ⟨_, _, hnone⟩ | ⟨hp, _, _, e0, he0, _⟩
              · rw [hnone] at he; cases he
              · rw [he] at he0; cases he0
                have := (hcommit_res hp e he).1; rw [hsb] at this; cases this
            · left
              refine ⟨e, ?_, hsb, hpr⟩
              rw [← he]
              exact channels_applyEffs_frame _ _ _ (fun e2 hm => hset ⟨e2, hm⟩) hdel
        · by_cases hwt : w = tid
          · subst hwt
            rw [hget] at hw; cases hw
            rcases step_presOwner_self s w t t' o effs hst hnt hwo (h5.Z w t hget) with ⟨ho', hch'⟩ | hdel | ⟨hp, e', hm, hsb', hpr'⟩
            · exact Or.inr ⟨w, t', aget_threads_after_self s w t t' effs hget, by rw [hch', hwch], ho'⟩
            · rw [hwch] at hdel; exact absurd hdel hnodel
            · left
              rw [← hwch]
              exact ⟨e', step_commit_writes s w t t' o effs hst hp _ e' hm, hsb', hpr'⟩
          · exact Or.inr ⟨w, tw, aget_threads_after_other s tid t' effs w tw hwt hw, hwch, hwo⟩
      · obtain ⟨hch, r1, r2, r3⟩ := step_presAdd s tid t t' o effs hst c hadd
        exact Or.inr ⟨tid, t', aget_threads_after_self s tid t t' effs hget, by rw [r1, hch], Or.inl ⟨r2, r3⟩⟩

end CentrifugeVerif.SubProto
