import CentrifugeVerif.Model.Interest
/-!
Invariant of the per-channel interest system (`Model/Interest.lean`) and its preservation by every
label.  `K` is the kind (map = `true` / stream = `false`) of the channel: the hypothesis `WF K` on
labels says that every subscriber of the channel is added with `isMap = K` (the kind of a channel is
a function of the channel).
-/
namespace CentrifugeVerif.Interest

/-- well-formed labels for a channel of kind `K` -/
def WF (K : Bool) : Label → Prop
  | .addBegin _ _ m => m = K
  | _ => True

instance (K : Bool) (l : Label) : Decidable (WF K l) := by
  cases l <;> simp only [WF] <;> infer_instance

/-- states reachable from `init` by well-formed labels (any number of steps, any interleaving of
adders, removers and jobs, any outcome of every broker call) -/
inductive Reach (K : Bool) : Ch → Prop
  | init : Reach K init
  | step {s s' : Ch} {l : Label} : Reach K s → WF K l → next s l = some s' → Reach K s'

def lockOk (K : Bool) (s : Ch) : Prop :=
  match s.lock with
  | .free => s.subs ≠ [] → served s K = true
  | .adder c g m => m = K ∧ s.subs = [(c, g)]
  | .job w => s.subs = [] ∧ w ∈ s.jobs
  | .cool w => s.subs = [] ∧ w ∈ s.jobs

def isAdder : Lock → Prop
  | .adder _ _ _ => True
  | _ => False

structure Inv (K : Bool) (s : Ch) : Prop where
  hubMap_empty : s.subs = [] → s.hubMap = false
  hubMap_kind : s.subs ≠ [] → s.hubMap = K
  lock : lockOk K s
  /-- a broker subscription that is not backed by a settled subscriber is covered by a pending job
  of the right kind -/
  covered : served s K = true → (s.subs = [] ∨ isAdder s.lock) → K ∈ s.jobs
  other : served s (!K) = false

theorem inv_init (K : Bool) : Inv K init := by
  constructor <;> simp [init, lockOk, served]

/-! ### list lemmas -/

theorem insertSub_ne_nil (c g : Nat) (l : List (Nat × Nat)) : insertSub c g l ≠ [] := by
  cases l with
  | nil => simp [insertSub]
  | cons x xs =>
    obtain ⟨c', g'⟩ := x
    simp only [insertSub]; split <;> simp

theorem mem_eraseJob_of_ne {K w : Bool} {l : List Bool} (h : K ∈ l) (hne : K ≠ w) : K ∈ eraseJob w l := by
  induction l with
  | nil => cases h
  | cons x xs ih =>
    simp only [eraseJob]
    split
    · rename_i hx
      rcases List.mem_cons.mp h with h | h
      · exact absurd (h.trans hx) hne
      · exact h
    · rcases List.mem_cons.mp h with h | h
      · exact List.mem_cons.mpr (Or.inl h)
      · exact List.mem_cons.mpr (Or.inr (ih h))

theorem served_setSubscribed_same (s : Ch) (k v : Bool) : served (setSubscribed s k v) k = v := by
  cases k <;> simp [served, setSubscribed]

theorem served_setSubscribed_other (s : Ch) (k v : Bool) : served (setSubscribed s k v) (!k) = served s (!k) := by
  cases k <;> simp [served, setSubscribed]

theorem setSubscribed_fields (s : Ch) (k v : Bool) :
    (setSubscribed s k v).subs = s.subs ∧ (setSubscribed s k v).hubMap = s.hubMap ∧
    (setSubscribed s k v).jobs = s.jobs ∧ (setSubscribed s k v).lock = s.lock := by
  cases k <;> simp [setSubscribed]

/-- what `hub.removeSub` does to the model state -/
theorem hubRemove_spec (s : Ch) (c gen : Nat) :
    let r := hubRemove s c gen
    r.1.subStream = s.subStream ∧ r.1.subMap = s.subMap ∧ r.1.jobs = s.jobs ∧ r.1.lock = s.lock ∧
    ((r.1 = s ∧ (r.2.1 = true → r.2.2 = false)) ∨
     (s.subs ≠ [] ∧ r.1.subs = [] ∧ r.1.hubMap = false ∧ r.2.1 = true ∧ r.2.2 = s.hubMap) ∨
     (s.subs ≠ [] ∧ r.1.subs ≠ [] ∧ r.1.hubMap = s.hubMap ∧ r.2.1 = false)) := by
  simp only [hubRemove]
  split
  · simp
  · rename_i hne
    split
    · simp
    · split
      · simp
      · split
        · refine ⟨rfl, rfl, rfl, rfl, Or.inr (Or.inl ⟨?_, rfl, rfl, rfl, rfl⟩)⟩
          intro h; exact hne h
        · rename_i hne'
          refine ⟨rfl, rfl, rfl, rfl, Or.inr (Or.inr ⟨?_, hne', rfl, rfl⟩)⟩
          intro h; exact hne h

theorem hubRemove_single (s : Ch) (c g : Nat) (h : s.subs = [(c, g)]) :
    (hubRemove s c g).1.subs = [] ∧ (hubRemove s c g).1.hubMap = false := by
  simp [hubRemove, h, lookupSub, eraseSub]

theorem served_of_fields {s t : Ch} (h1 : t.subStream = s.subStream) (h2 : t.subMap = s.subMap) (k : Bool) :
    served t k = served s k := by
  cases k <;> simp [served, h1, h2]

/-! ### preservation -/

theorem inv_step {K : Bool} {s s' : Ch} {l : Label} (hi : Inv K s) (hwf : WF K l)
    (h : next s l = some s') : Inv K s' := by
  obtain ⟨he, hk, hl, hc, ho⟩ := hi
  cases l with
  | addBegin c gen m =>
    simp only [WF] at hwf
    subst hwf
    simp only [next] at h
    split at h
    · rename_i hfree
      simp only [hfree, lockOk] at hl
      by_cases hfirst : s.subs = []
      · simp only [hfirst, if_true] at h
        cases h
        have hm := he hfirst
        constructor
        · intro h'; simp [insertSub] at h'
        · intro _; cases m <;> simp [hm]
        · simp [lockOk, insertSub]
        · intro hs _
          exact hc (by simpa [served] using hs) (Or.inl hfirst)
        · simpa [served] using ho
      · simp only [hfirst, if_false] at h
        cases h
        constructor
        · intro h'; exact absurd h' (insertSub_ne_nil _ _ _)
        · intro _; simpa using hk hfirst
        · simp only [lockOk, hfree]
          intro _; simpa [served] using hl hfirst
        · intro _ h'
          rcases h' with h' | h'
          · exact absurd h' (insertSub_ne_nil _ _ _)
          · simp [hfree, isAdder] at h'
        · simpa [served] using ho
    · cases h
  | addBroker ok =>
    simp only [next] at h
    split at h
    · rename_i c gen m hlock
      simp only [hlock, lockOk] at hl
      obtain ⟨hm, hsubs⟩ := hl
      subst hm
      cases ok with
      | true =>
        simp only [if_true] at h
        cases h
        obtain ⟨f1, f2, f3, _⟩ := setSubscribed_fields s m true
        constructor
        · intro h'; simp only [f1] at h'; simp [hsubs] at h'
        · intro _; simp only [f2]; exact hk (by simp [hsubs])
        · simp only [lockOk]; intro _
          simpa [served, setSubscribed] using served_setSubscribed_same s m true
        · intro _ h'
          rcases h' with h' | h'
          · simp only [f1] at h'; simp [hsubs] at h'
          · simp [isAdder] at h'
        · have := served_setSubscribed_other s m true
          simpa [served, setSubscribed] using this.trans ho
      | false =>
        simp only [Bool.false_eq_true, if_false] at h
        cases h
        obtain ⟨r1, r2, r3, _, _⟩ := hubRemove_spec s c gen
        obtain ⟨e1, e2⟩ := hubRemove_single s c gen hsubs
        constructor
        · intro _; exact e2
        · intro h'; exact absurd e1 h'
        · simp only [lockOk]; intro h'; exact absurd e1 h'
        · intro hs _
          have : served s m = true := by
            rw [← served_of_fields (t := (hubRemove s c gen).1) r1 r2 m]; simpa [served] using hs
          simpa [r3] using hc this (Or.inr (by simp [hlock, isAdder]))
        · have := served_of_fields (t := (hubRemove s c gen).1) r1 r2 (!m)
          simpa [served] using this.trans ho
    all_goals cases h
  | remove c gen =>
    simp only [next] at h
    split at h
    · rename_i hfree
      simp only [hfree, lockOk] at hl
      obtain ⟨r1, r2, r3, r4, hcases⟩ := hubRemove_spec s c gen
      generalize hr : hubRemove s c gen = r at h r1 r2 r3 r4 hcases
      obtain ⟨t, empty, wasMap⟩ := r
      simp only at h r1 r2 r3 r4 hcases
      have hsv : ∀ k, served t k = served s k := served_of_fields r1 r2
      rcases hcases with ⟨heq, hw⟩ | ⟨hne, hts, htm, hemp, hwm⟩ | ⟨hne, hts, htm, hemp⟩
      · subst heq
        cases empty with
        | true =>
          simp only [if_true] at h
          cases h
          constructor
          · exact he
          · exact hk
          · simp only [lockOk, hfree]; simpa [served] using hl
          · intro hs h'
            have := hc (by simpa [served] using hs) (by simpa using h')
            simp [this]
          · simpa [served] using ho
        | false =>
          simp only [Bool.false_eq_true, if_false] at h
          cases h
          exact ⟨he, hk, by simpa [lockOk, hfree] using hl, hc, ho⟩
      · subst hemp
        simp only [if_true] at h
        cases h
        have hwK : wasMap = K := hwm.trans (hk hne)
        constructor
        · intro _; exact htm
        · intro h'; exact absurd hts h'
        · simp only [lockOk, r4, hfree]; intro h'; exact absurd hts h'
        · intro _ _; simp [hwK]
        · have := hsv (!K); simpa [served] using this.trans ho
      · subst hemp
        simp only [Bool.false_eq_true, if_false] at h
        cases h
        constructor
        · intro h'; exact absurd h' hts
        · intro _; exact htm.trans (hk hne)
        · simp only [lockOk, r4, hfree]; intro _; rw [hsv]; exact hl hne
        · intro _ h'
          rcases h' with h' | h'
          · exact absurd h' hts
          · simp [r4, hfree, isAdder] at h'
        · exact (hsv (!K)).trans ho
    · cases h
  | jobStart w =>
    simp only [next] at h
    split at h
    · rename_i hcond
      obtain ⟨hfree, hw⟩ := hcond
      simp only [hfree, lockOk] at hl
      split at h
      · rename_i hempty
        cases h
        exact ⟨he, hk, by simp [lockOk, hempty, hw], fun hs _ => hc hs (Or.inl hempty), ho⟩
      · rename_i hne
        cases h
        constructor
        · exact he
        · exact hk
        · simpa [lockOk, hfree, served] using hl
        · intro _ h'
          rcases h' with h' | h'
          · exact absurd h' hne
          · simp [hfree, isAdder] at h'
        · exact ho
    · cases h
  | jobBroker ok =>
    simp only [next] at h
    split at h
    · rename_i w hlock
      simp only [hlock, lockOk] at hl
      obtain ⟨hempty, hw⟩ := hl
      cases ok with
      | true =>
        simp only [if_true] at h
        cases h
        obtain ⟨f1, f2, f3, _⟩ := setSubscribed_fields s w false
        constructor
        · intro _; simp only [f2]; exact he hempty
        · intro h'; simp only [f1] at h'; exact absurd hempty h'
        · simp only [lockOk]; intro h'; simp only [f1] at h'; exact absurd hempty h'
        · intro hs _
          by_cases hwK : w = K
          · subst hwK
            have := served_setSubscribed_same s w false
            simp [served, setSubscribed] at hs this
            cases w <;> simp_all
          · have hne : K ≠ w := fun h => hwK h.symm
            have hKw : K = !w := by cases K <;> cases w <;> simp_all
            have h1 : served s K = true := by
              have := served_setSubscribed_other s w false
              rw [← hKw] at this
              rw [← this]; simpa [served, setSubscribed] using hs
            have := hc h1 (Or.inl hempty)
            simpa [f3] using mem_eraseJob_of_ne this hne
        · by_cases hwK : w = K
          · subst hwK
            have := served_setSubscribed_other s w false
            simpa [served, setSubscribed] using this.trans ho
          · have hKw : (!K) = w := by cases K <;> cases w <;> simp_all
            have := served_setSubscribed_same s w false
            rw [← hKw] at this
            simpa [served, setSubscribed, hKw] using this
      | false =>
        simp only [Bool.false_eq_true, if_false] at h
        cases h
        exact ⟨he, hk, by simp [lockOk, hempty, hw], fun hs _ => hc hs (Or.inl hempty), ho⟩
    all_goals cases h
  | coolEnd =>
    simp only [next] at h
    split at h
    · rename_i w hlock
      simp only [hlock, lockOk] at hl
      cases h
      exact ⟨he, hk, by simp [lockOk, hl.1], fun hs _ => hc hs (Or.inl hl.1), ho⟩
    all_goals cases h

theorem reach_inv {K : Bool} {s : Ch} (h : Reach K s) : Inv K s := by
  induction h with
  | init => exact inv_init K
  | step _ hwf hn ih => exact inv_step ih hwf hn

/-- reachability via a label list -/
theorem reach_run {K : Bool} {s s' : Ch} (ls : List Label) (h : Reach K s) (hwf : ∀ l ∈ ls, WF K l)
    (hr : run s ls = some s') : Reach K s' := by
  induction ls generalizing s with
  | nil => simp [run] at hr; subst hr; exact h
  | cons l ls ih =>
    simp only [run] at hr
    split at hr
    · cases hr
    · rename_i s1 hs1
      exact ih (Reach.step h (hwf l (by simp)) hs1) (fun l' hl' => hwf l' (by simp [hl'])) hr

end CentrifugeVerif.Interest
