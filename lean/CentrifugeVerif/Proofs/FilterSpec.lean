import CentrifugeVerif.Model.Filter
import CentrifugeVerif.Proofs.Decimal
/-!
Specification side of C15, written from the property text and independent of `Match` / `Validate`:
* `WellFormed`: which trees are filters of the language;
* `sem`: the denotation of a filter on a tag map — a missing key has no value (it equals nothing,
  has no prefix/suffix/substring, is in no set, compares with no number: only `neq`, `nin`, `nex`
  hold), numeric leaves compare the two numerals as exact rational numbers when the engine accepts
  both and are false otherwise, `and`/`or`/`not` are the Boolean connectives.
-/
namespace CentrifugeVerif.Filter
open CentrifugeVerif.Decimal

/-- operators that take exactly one comparison value -/
def valCmps : List Str := [cEq, cNeq, cSw, cEw, cCt, cGt, cGte, cLt, cLte]

/-- a well-formed leaf: operator known; `Val` xor `Vals` as the operator demands; key present
(`ex`/`nex` are allowed on the empty key) -/
def LeafWF (key cmp val : Str) (vals : List Str) : Prop :=
  (cmp ∈ valCmps ∧ val ≠ [] ∧ vals = [] ∧ key ≠ []) ∨
  ((cmp = cIn ∨ cmp = cNin) ∧ vals ≠ [] ∧ val = [] ∧ key ≠ []) ∨
  ((cmp = cEx ∨ cmp = cNex) ∧ val = [] ∧ vals = [])

mutual
/-- well-formed filter trees.  Fields a node kind does not use (children of a leaf, key/cmp/val of
an inner node) are not constrained, exactly one child for `not`, at least one for `and`/`or`,
no nil children. -/
def WellFormed : Node → Prop
  | .mk op key cmp val vals nodes =>
    (op = [] ∧ LeafWF key cmp val vals) ∨
    ((op = sAnd ∨ op = sOr) ∧ NonEmpty nodes ∧ AllWF nodes) ∨
    (op = sNot ∧ OneChild nodes ∧ AllWF nodes)
def AllWF : Nodes → Prop
  | .nil => True
  | .cons c rest => WellFormed c ∧ AllWF rest
  | .null _ => False
def NonEmpty : Nodes → Prop
  | .nil => False
  | _ => True
def OneChild : Nodes → Prop
  | .cons _ .nil => True
  | _ => False
end

/-- the four numeric operators on two accepted numerals: exact rational comparison -/
def semNum (cmp : Str) (a b : Dec) : Bool :=
  if cmp = cGt then decide (exactLt b a)
  else if cmp = cGte then decide (exactLe b a)
  else if cmp = cLt then decide (exactLt a b)
  else decide (exactLe a b)

/-- denotation of a leaf -/
def semLeaf (t : Tags) (key cmp val : Str) (vals : List Str) : Bool :=
  match t.lookup key with
  | none => decide (cmp = cNeq ∨ cmp = cNin ∨ cmp = cNex)
  | some v =>
    if cmp = cEq then decide (v = val)
    else if cmp = cNeq then decide (v ≠ val)
    else if cmp = cIn then decide (v ∈ vals)
    else if cmp = cNin then decide (v ∉ vals)
    else if cmp = cEx then true
    else if cmp = cNex then false
    else if cmp = cSw then decide (val <+: v)
    else if cmp = cEw then decide (val <:+ v)
    else if cmp = cCt then decide (val <:+: v)
    else
      match Decimal.parse v, Decimal.parse val with
      | some a, some b => semNum cmp a b
      | _, _ => false

mutual
/-- denotation of a filter tree (meaningful on well-formed trees) -/
def sem (t : Tags) : Node → Bool
  | .mk op key cmp val vals nodes =>
    if op = [] then semLeaf t key cmp val vals
    else if op = sAnd then semAll t nodes
    else if op = sOr then semAny t nodes
    else !(semAll t nodes)          -- `not`: exactly one child
def semAll (t : Tags) : Nodes → Bool
  | .nil => true
  | .cons c rest => sem t c && semAll t rest
  | .null rest => semAll t rest
def semAny (t : Tags) : Nodes → Bool
  | .nil => false
  | .cons c rest => sem t c || semAny t rest
  | .null rest => semAny t rest
end

mutual
/-- no `in`/`nin` leaf lists the empty string among its values -/
def NoEmptyInSets : Node → Prop
  | .mk op _ cmp _ vals nodes =>
    (op = [] → (cmp = cIn ∨ cmp = cNin) → [] ∉ vals) ∧ NoEmptyInSetsAll nodes
def NoEmptyInSetsAll : Nodes → Prop
  | .nil => True
  | .cons c rest => NoEmptyInSets c ∧ NoEmptyInSetsAll rest
  | .null rest => NoEmptyInSetsAll rest
end

end CentrifugeVerif.Filter
